(** C14: commits are numbered consecutively from 1 or from the configured initial version; the
    available versions are exactly the contiguous range [first .. latest]; VersionExists,
    GetLatestVersion, AvailableVersions, GetImmutable (reads at a version), GetVersioned and
    LoadVersion all agree with that range, also after reopening; committing an existing version
    number succeeds without effect iff the root hash is identical and otherwise fails leaving the
    store unchanged; loading / querying outside the range fails and leaves the state unchanged.

    All of this holds under the usage contract [in_contract] (never prune the version the working
    tree is based on, never LoadVersionForOverwriting(0)) and the side condition [init_ok] on the
    initial version.  Statements are restated in full; proofs are in VersionFacts.v. *)
From IAVL Require Import Bytes Varint Sha256 Tree VMap TreeFacts MTree MTreeFacts VersionFacts.
From IAVL Require Import HashFacts Store StoreFacts PruneAlgo Discover DiscoverFacts.
Local Open Scope Z_scope.

(** *** 1. The contract, the invariant, its preservation *)

Theorem C14_contract_defs :
  (forall s o, in_contract s o =
     match o with OPrune n => n < version s | OLvfo v => 1 <= v | _ => True end) /\
  (forall iv b, init_ok iv b = if b then 0 < iv else 0 <= iv <= 1) /\
  (forall s v, in_range s v = (forest s <> [] /\ first_version s <= v <= latest_version s)) /\
  (forall lo hi, zrange lo hi = zseq lo (Z.to_nat (hi - lo + 1))) /\
  (forall l, consecutive l = (l = zseq (hd 0 l) (length l))) /\
  (forall s, contig s =
     ((consecutive (map fst (forest s)) /\
       Forall (fun v => 1 <= v /\ init_ver s <= v) (map fst (forest s))) /\
      ((version s = 0 /\ forest s = [] /\ last_saved s = None /\ init_set s = init_opt s) \/
       lookup (version s) (forest s) = Some (last_saved s)) /\
      0 <= init_ver s /\
      (if init_opt s then 0 < init_ver s else init_ver s <= 1))).
Proof. repeat split; intros; destruct o; reflexivity. Qed.
Print Assumptions C14_contract_defs.

Theorem C14_zrange_members : forall v lo hi, In v (zrange lo hi) <-> lo <= v <= hi.
Proof. exact In_zrange. Qed.
Print Assumptions C14_zrange_members.

Theorem C14_contig_init : forall iv b, init_ok iv b -> contig (init_state iv b).
Proof. exact contig_init. Qed.
Print Assumptions C14_contig_init.

Theorem C14_contig_step :
  forall (H : bytes -> bytes) (s : mstate) (o : op),
    contig s -> in_contract s o -> contig (fst (step H s o)).
Proof. exact step_contig. Qed.
Print Assumptions C14_contig_step.

Theorem C14_contig_run :
  forall (H : bytes -> bytes) (ops : list op) (s : mstate),
    contig s -> run_ok H s ops -> contig (fst (run H s ops)).
Proof. exact run_contig. Qed.
Print Assumptions C14_contig_run.

(** every in-contract history: the retained versions are exactly [first .. latest], all >= 1 and
    >= the initial version, and the working tree is based on one of them *)
Theorem C14_reachable_range :
  forall (H : bytes -> bytes) (iv : Z) (b : bool) (ops : list op),
    init_ok iv b ->
    run_ok H (init_state iv b) ops ->
    let s := fst (run H (init_state iv b) ops) in
    contig s /\
    ((forest s = [] /\ available s = [] /\ first_version s = 0 /\ latest_version s = 0 /\
      version s = 0) \/
     (forest s <> [] /\
      1 <= first_version s <= latest_version s /\
      init_ver s <= first_version s /\
      first_version s <= version s <= latest_version s /\
      available s = zrange (first_version s) (latest_version s))).
Proof. exact reachable_range. Qed.
Print Assumptions C14_reachable_range.

(** *** 2. Every query agrees with the range *)

Theorem C14_available_iff_range :
  forall (s : mstate) (v : Z), contig s -> (In v (available s) <-> in_range s v).
Proof. exact in_range_available. Qed.
Print Assumptions C14_available_iff_range.

Theorem C14_version_exists_iff_range :
  forall (s : mstate) (v : Z), contig s -> (version_exists s v = true <-> in_range s v).
Proof. exact in_range_version_exists. Qed.
Print Assumptions C14_version_exists_iff_range.

Theorem C14_lookup_iff_range :
  forall (s : mstate) (v : Z),
    contig s -> ((exists t, lookup v (forest s) = Some t) <-> in_range s v).
Proof. exact in_range_lookup. Qed.
Print Assumptions C14_lookup_iff_range.

Theorem C14_read_version_in_range :
  forall (H : bytes -> bytes) (s : mstate) (v : Z),
    contig s -> in_range s v ->
    exists t : option node,
      lookup v (forest s) = Some t /\
      (forall r : read, step H s (ORead (TVersion v) r) = (s, tree_read H (v + 1) t r)) /\
      (forall k : bytes,
         step H s (OGetVersioned k v) =
         (s, XBytes (match t with Some n => snd (get n k) | None => None end))).
Proof. exact read_version_in_range. Qed.
Print Assumptions C14_read_version_in_range.

Theorem C14_read_version_out_of_range :
  forall (H : bytes -> bytes) (s : mstate) (v : Z),
    contig s -> ~ in_range s v ->
    (forall r : read, step H s (ORead (TVersion v) r) = (s, XErr)) /\
    (forall k : bytes, step H s (OGetVersioned k v) = (s, XBytes None)).
Proof. exact read_version_out_of_range. Qed.
Print Assumptions C14_read_version_out_of_range.

Theorem C14_version_exists_step :
  forall (H : bytes -> bytes) (s : mstate) (v : Z),
    contig s ->
    exists b : bool, step H s (OVersionExists v) = (s, XBool b) /\ (b = true <-> in_range s v).
Proof. exact version_exists_step. Qed.
Print Assumptions C14_version_exists_step.

Theorem C14_latest_available_step :
  forall (H : bytes -> bytes) (s : mstate),
    contig s ->
    step H s OLatest = (s, XInt (latest_version s)) /\
    step H s OAvailable =
      (s, XInts (if list_eq_dec Z.eq_dec (available s) [] then []
                 else zrange (first_version s) (latest_version s))).
Proof. exact latest_available_step. Qed.
Print Assumptions C14_latest_available_step.

Theorem C14_load_in_range :
  forall (H : bytes -> bytes) (s : mstate) (v : Z),
    contig s -> in_range s v ->
    exists t : option node,
      lookup v (forest s) = Some t /\
      step H s (OLoad v) =
        (MState t v t (forest s) (init_ver s) (init_set s) (init_opt s),
         XInt (latest_version s)).
Proof. exact load_in_range. Qed.
Print Assumptions C14_load_in_range.

Theorem C14_load_latest :
  forall (H : bytes -> bytes) (s : mstate) (v : Z),
    contig s -> v <= 0 ->
    (forest s = [] /\ step H s (OLoad v) = (s, XInt 0)) \/
    (forest s <> [] /\
     exists t : option node,
       lookup (latest_version s) (forest s) = Some t /\
       step H s (OLoad v) =
         (MState t (latest_version s) t (forest s) (init_ver s) (init_set s) (init_opt s),
          XInt (latest_version s))).
Proof. exact load_latest. Qed.
Print Assumptions C14_load_latest.

Theorem C14_load_out_of_range :
  forall (H : bytes -> bytes) (s : mstate) (v : Z),
    contig s -> 0 < v -> ~ in_range s v -> step H s (OLoad v) = (s, XErr).
Proof. exact load_out_of_range. Qed.
Print Assumptions C14_load_out_of_range.

Theorem C14_failed_queries_harmless :
  forall (H : bytes -> bytes) (s : mstate) (v : Z),
    contig s -> 0 < v -> ~ in_range s v ->
    fst (step H s (OLoad v)) = s /\
    (forall r : read, fst (step H s (ORead (TVersion v) r)) = s) /\
    (forall k : bytes, fst (step H s (OGetVersioned k v)) = s) /\
    fst (step H s (OVersionExists v)) = s.
Proof. exact failed_queries_harmless. Qed.
Print Assumptions C14_failed_queries_harmless.

(** *** 3. Commit numbering and overwriting *)

Theorem C14_save_cases :
  forall s : mstate,
    contig s ->
    let wv := working_version s in
    (~ in_range s wv /\ lookup wv (forest s) = None) \/
    (in_range s wv /\ exists e, lookup wv (forest s) = Some e).
Proof. exact save_cases. Qed.
Print Assumptions C14_save_cases.

Theorem C14_save_new_version :
  forall (H : bytes -> bytes) (s : mstate),
    contig s ->
    lookup (working_version s) (forest s) = None ->
    let wv := working_version s in
    exists r' : option node,
      oelems r' = oelems (root s) /\
      step H s OSave =
        (MState r' wv r' (forest s ++ [(wv, r')]) (init_ver s) false (init_opt s),
         XPair (XBytes (Some (root_hash H wv r'))) (XInt wv)) /\
      ((forest s = [] /\ wv = (if init_opt s then init_ver s else 1)) \/
       (forest s <> [] /\ version s = latest_version s /\ wv = latest_version s + 1)) /\
      available (fst (step H s OSave)) = available s ++ [wv] /\
      latest_version (fst (step H s OSave)) = wv /\
      contig (fst (step H s OSave)).
Proof. exact save_new_version. Qed.
Print Assumptions C14_save_new_version.

Theorem C14_save_existing :
  forall (H : bytes -> bytes) (s : mstate) (e : option node),
    lookup (working_version s) (forest s) = Some e ->
    let wv := working_version s in
    let same :=
      match e, root s with
      | None, None => True
      | Some n, _ => hs (nmeta n) = root_hash H wv (root s)
      | None, Some _ => False
      end in
    (same /\
     step H s OSave =
       (MState e wv e (forest s) (init_ver s) false (init_opt s),
        XPair (XBytes (Some (root_hash H wv (root s)))) (XInt wv))) \/
    (~ same /\
     step H s OSave =
       (MState (root s) (version s) (last_saved s) (forest s) (init_ver s) false (init_opt s),
        XErr)).
Proof. exact save_existing_sharp. Qed.
Print Assumptions C14_save_existing.

(** *** 4. Reopening *)

Theorem C14_reopen :
  forall (H : bytes -> bytes) (s : mstate),
    contig s ->
    let s' := fst (do_reopen s) in
    step H s OReopen = (s', XOk) /\
    forest s' = forest s /\ available s' = available s /\
    first_version s' = first_version s /\ latest_version s' = latest_version s /\
    init_ver s' = init_ver s /\ init_opt s' = init_opt s /\ init_set s' = init_opt s /\
    version s' = latest_version s /\ root s' = last_saved s' /\
    (forest s = [] -> root s' = None) /\
    (forest s <> [] -> lookup (latest_version s) (forest s) = Some (root s')) /\
    contig s'.
Proof. exact reopen_spec. Qed.
Print Assumptions C14_reopen.

(** *** 5. The degenerate initial version 0 is excluded by [init_ok] for a reason *)

Theorem C14_initial_version_zero_refuted :
  exists ops,
    run_okb (fun b => b) (init_state 0 true) ops = true /\
    snd (run (fun b => b) (init_state 0 true) ops) =
      [XBool false; XPair (XBytes (Some [0; 2; 0; 1; 1; 32; 1]%N)) (XInt 0);
       XOk; XInt 0;
       XBool false; XErr;
       XInts [0]; XInt 0] /\
    ~ contig (fst (run (fun b => b) (init_state 0 true) ops)).
Proof. exact initial_version_zero_refuted. Qed.
Print Assumptions C14_initial_version_zero_refuted.

(** *** Non-vacuity (SHA-256): four commits, the second without writes, a prune, failing and
    succeeding queries, a rejected and an accepted overwrite of version 3, a reopen. *)
Definition C14_k1 : bytes := [1%N].
Definition C14_k2 : bytes := [2%N].

Definition C14_example_ops : list op :=
  [OSet C14_k1 [10%N]; OSave; OSave; OSet C14_k2 [20%N]; OSave; ORemove C14_k1; OSave;
   OPrune 1;
   OAvailable; OLatest; OVersionExists 1; OVersionExists 2; OLoad 1; OLoad 5;
   OGetVersioned C14_k1 1; OGetVersioned C14_k1 2;
   ORead (TVersion 1) RSize; ORead (TVersion 3) RSize;
   OLoad 2; OSave; OWorkingVersion; OSet C14_k2 [20%N]; OSave;
   OReopen; OAvailable; OWorkingVersion].

Example C14_example :
  let s0 := init_state 0 false in
  let res := run sha256 s0 C14_example_ops in
  init_ok 0 false /\ run_okb sha256 s0 C14_example_ops = true /\
  contig (fst res) /\
  available (fst res) = zrange 2 4 /\ first_version (fst res) = 2 /\ latest_version (fst res) = 4 /\
  exists h1 h3 h4,
    h1 <> h3 /\
    snd res =
      [XBool false; XPair (XBytes (Some h1)) (XInt 1);   (* first commit: version 1 *)
       XPair (XBytes (Some h1)) (XInt 2);                (* commit without writes: same hash *)
       XBool false; XPair (XBytes (Some h3)) (XInt 3);
       XPair (XBytes (Some [10%N])) (XBool true); XPair (XBytes (Some h4)) (XInt 4);
       XOk;                                              (* prune 1 *)
       XInts [2; 3; 4]; XInt 4; XBool false; XBool true;
       XErr; XErr;                                       (* load below / above the range *)
       XBytes None; XBytes (Some [10%N]);                (* GetVersioned outside / inside *)
       XErr; XInt 2;                                     (* GetImmutable outside / inside *)
       XInt 4;                                           (* load 2 *)
       XErr;                                             (* commit 3 again, other contents *)
       XInt 3; XBool false;
       XPair (XBytes (Some h3)) (XInt 3);                (* commit 3 again, same contents *)
       XOk; XInts [2; 3; 4]; XInt 5].                    (* reopen: latest loaded, next is 5 *)
Proof.
  cbv zeta. split; [unfold init_ok; lia|]. split; [vm_compute; reflexivity|].
  split.
  { apply reachable_contig; [unfold init_ok; lia|]. apply run_okb_iff. vm_compute. reflexivity. }
  split; [vm_compute; reflexivity|]. split; [vm_compute; reflexivity|].
  split; [vm_compute; reflexivity|].
  vm_compute. do 3 eexists. split; [|reflexivity]. discriminate.
Qed.

(** with an initial version: numbering starts there, also across a reopen *)
Example C14_example_initial_version :
  let s0 := init_state 7 true in
  let ops := [OSet C14_k1 [10%N]; OSave; OSave; OAvailable; OReopen; OSet C14_k2 [2%N]; OSave;
              OAvailable; OVersionExists 6; OLoad 6] in
  init_ok 7 true /\ run_okb sha256 s0 ops = true /\ contig (fst (run sha256 s0 ops)) /\
  exists h7 h9,
    snd (run sha256 s0 ops) =
      [XBool false; XPair (XBytes (Some h7)) (XInt 7); XPair (XBytes (Some h7)) (XInt 8);
       XInts [7; 8]; XOk; XBool false; XPair (XBytes (Some h9)) (XInt 9); XInts [7; 8; 9];
       XBool false; XErr].
Proof.
  cbv zeta. split; [unfold init_ok; lia|]. split; [vm_compute; reflexivity|].
  split.
  { apply reachable_contig; [unfold init_ok; lia|]. apply run_okb_iff. vm_compute. reflexivity. }
  vm_compute. do 2 eexists. reflexivity.
Qed.

(** *** 9. What a freshly opened store discovers (Discover.v: getLatestVersion, the binary search
    of getFirstVersion over the root keys, versionExists / AvailableVersions)

    On the PHYSICAL store of every reachable in-contract state - the expected store with the
    roots of the versions in [r] re-keyed to nonce 0 by earlier deletions - a tree object that has
    cached nothing discovers exactly [first .. latest], PROVIDED no node stored under the root key
    of a deleted version is still part of a retained tree except the re-keyed ones
    ([stale_free_rel]).  Without that proviso the statement is false: finding C14-stale-root-key,
    whose trigger is thereby delimited exactly. *)

Theorem C14_discovery_defs :
  (forall st v, has_version st v = mhas kcmp (v, 1) st) /\
  (forall st, discover_first st = bsearch 64 st 0 (discover_latest st)) /\
  (forall r f, stale_free_rel r f =
     forall v t u, In (v, Some t) f -> subtree u t -> nonce (nmeta u) = 1 ->
                   first_of_forest f <= ver (nmeta u) \/ In (ver (nmeta u)) r) /\
  (forall r f, phys_of r f = rekey r (expected_store f)).
Proof. repeat split. Qed.
Print Assumptions C14_discovery_defs.

Theorem C14_binary_search_any_store :
  forall st fuel lo hi, lo <= hi -> hi - lo < 2 ^ Z.of_nat fuel ->
  exists m, bsearch fuel st lo hi = Some m /\ lo <= m <= hi /\
            (has_version st m = true \/ m = hi) /\ (m = lo \/ has_version st (m - 1) = false).
Proof. exact bsearch_general. Qed.
Print Assumptions C14_binary_search_any_store.

Theorem C14_discovery_exact_on_reachable_physical_stores :
  forall (H : bytes -> bytes) (iv : Z) (b : bool) (ops : list op) (r : list Z),
  init_ok iv b -> run_ok H (init_state iv b) ops ->
  let s := fst (run H (init_state iv b) ops) in
  latest_version s < 2 ^ 63 ->
  stale_free_rel r (forest s) -> (forall x, In x r -> x < first_version s) ->
  discovered_range (phys_of r (forest s)) = Some (first_version s, latest_version s) /\
  discovered_available (phys_of r (forest s)) = Some (available s).
Proof. exact discover_reachable_rel. Qed.
Print Assumptions C14_discovery_exact_on_reachable_physical_stores.

Theorem C14_discovery_never_above_first :
  forall (r : list Z) (f : forest_t) iv,
  f <> [] -> forest_inv f -> forest_ok f iv -> latest_of_forest f < 2 ^ 63 ->
  (forall x, In x r -> x < first_of_forest f) ->
  exists m, discover_first (phys_of r f) = Some m /\ 0 <= m <= first_of_forest f /\
            has_version (phys_of r f) m = true /\
            (m = 0 \/ has_version (phys_of r f) (m - 1) = false).
Proof. exact discover_first_lower. Qed.
Print Assumptions C14_discovery_never_above_first.

Theorem C14_stale_root_key_refuted :
  let s0 := fst (run sha256 (init_state 0 false) stale_hist0) in
  let s := fst (run sha256 (init_state 0 false) stale_hist) in
  init_ok 0 false /\
  run_ok sha256 (init_state 0 false) stale_hist /\
  (exists w fl, prune_forest sha256 false [] (forest s0) [] 1 = POk (expected_store (forest s), w, fl)) /\
  map fst (expected_store (forest s)) = [(1, 1); (2, 1); (2, 2)] /\
  first_version s = 2 /\ latest_version s = 2 /\ available s = [2] /\
  latest_version s < 2 ^ 63 /\
  ~ stale_free (forest s) /\
  has_version (expected_store (forest s)) 1 = true /\
  discovered_range (expected_store (forest s)) = Some (1, 2) /\
  discovered_available (expected_store (forest s)) = Some [1; 2].
Proof. exact discover_stale_refuted. Qed.
Print Assumptions C14_stale_root_key_refuted.

(** the hypotheses are satisfiable on a state with a re-keyed root: four versions, the second
    shares the root of the first, DeleteVersionsTo(1) re-keys it to (1,0) *)
Example C14_discovery_example :
  let s := dx_state (dx_hist ++ [OPrune 1]) in
  discovered_range (phys_of [1] (forest s)) = Some (first_version s, latest_version s) /\
  discovered_available (phys_of [1] (forest s)) = Some (available s) /\
  available s = [2; 3; 4].
Proof.
  cbv zeta. split; [apply dx_discover_rekeyed_thm|]. split; [apply dx_discover_rekeyed_thm|].
  vm_compute. reflexivity.
Qed.
