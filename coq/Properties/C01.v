(** C01: the MutableTree state machine refines a plain versioned sorted map.
    Statements are restated in full; proofs are in MTreeFacts.v / TreeFacts.v. *)
From IAVL Require Import Bytes Varint Sha256 Tree VMap TreeFacts MTree MTreeFacts.
Local Open Scope Z_scope.

(** *** The reachable-state invariant *)

(** [state_inv] spelled out: [oinv t] is "[t] is empty or a well-formed ([wf]) AVL ([avl]) tree". *)
Theorem C01_state_inv_meaning :
  forall s : mstate,
    state_inv s <->
    ((match root s with None => True | Some n => wf n /\ avl n end) /\
     (match last_saved s with None => True | Some n => wf n /\ avl n end) /\
     Forall (fun p => match snd p with None => True | Some n => wf n /\ avl n end) (forest s) /\
     Forall (fun p => 0 <= fst p) (forest s) /\
     NoDup (map fst (forest s)) /\
     0 <= version s /\ 0 <= init_ver s).
Proof. exact state_inv_iff. Qed.
Print Assumptions C01_state_inv_meaning.

Theorem C01_init_inv :
  forall (iv : Z) (b : bool), 0 <= iv -> state_inv (init_state iv b).
Proof. exact state_inv_init. Qed.
Print Assumptions C01_init_inv.

Theorem C01_step_inv :
  forall (H : bytes -> bytes) (s : mstate) (o : op),
    state_inv s -> state_inv (fst (step H s o)).
Proof. exact step_inv. Qed.
Print Assumptions C01_step_inv.

Theorem C01_reachable_inv :
  forall (H : bytes -> bytes) (iv : Z) (b : bool) (ops : list op),
    0 <= iv -> state_inv (fst (run H (init_state iv b) ops)).
Proof. exact reachable_inv. Qed.
Print Assumptions C01_reachable_inv.

(** *** Reads: every list-level read of a tree equals the answer of the sorted list *)
Theorem C01_spec_read_meaning :
  forall (l : kvs) (r : read),
    spec_read l r =
      match r with
      | RGet k => XBytes (assoc k l)
      | RHas k => XBool (mem k l)
      | RGetWithIndex k => XPair (XInt (rank k l)) (XBytes (assoc k l))
      | RGetByIndex i =>
          match (if i <? 0 then None else nth_error l (Z.to_nat i)) with
          | Some (k, v) => XPair (XBytes (Some k)) (XBytes (Some v))
          | None => XPair (XBytes None) (XBytes None)
          end
      | RSize => XInt (Z.of_nat (length l))
      | RIter start stop incl asc => XKvs (range_spec l start stop incl asc)
      | RHeight | RHash | RTouch => XErr
      end.
Proof. intros l r. reflexivity. Qed.
Print Assumptions C01_spec_read_meaning.

Theorem C01_tree_read_refines :
  forall (H : bytes -> bytes) (wv : Z) (t : option node) (r : read),
    (match t with None => True | Some n => wf n /\ avl n end) ->
    list_read r = true ->
    tree_read H wv t r = spec_read (oelems t) r.
Proof. exact tree_read_refines. Qed.
Print Assumptions C01_tree_read_refines.

Theorem C01_read_working_refines :
  forall (H : bytes -> bytes) (s : mstate) (r : read),
    state_inv s -> list_read r = true ->
    step H s (ORead TWorking r) = (s, spec_read (oelems (root s)) r).
Proof. exact read_working_refines. Qed.
Print Assumptions C01_read_working_refines.

Theorem C01_read_version_refines :
  forall (H : bytes -> bytes) (s : mstate) (v : Z) (t : option node) (r : read),
    state_inv s -> lookup v (forest s) = Some t -> list_read r = true ->
    step H s (ORead (TVersion v) r) = (s, spec_read (oelems t) r).
Proof. exact read_version_refines. Qed.
Print Assumptions C01_read_version_refines.

Theorem C01_read_version_missing :
  forall (H : bytes -> bytes) (s : mstate) (v : Z) (r : read),
    lookup v (forest s) = None -> step H s (ORead (TVersion v) r) = (s, XErr).
Proof. exact read_version_missing. Qed.
Print Assumptions C01_read_version_missing.

(** *** Writes *)
Theorem C01_set_refines :
  forall (s : mstate) (k v : bytes),
    state_inv s ->
    oelems (root (fst (do_set s k v))) = ins k v (oelems (root s)) /\
    snd (do_set s k v) = XBool (mem k (oelems (root s))) /\
    (version (fst (do_set s k v)) = version s /\
     last_saved (fst (do_set s k v)) = last_saved s /\
     forest (fst (do_set s k v)) = forest s /\
     init_ver (fst (do_set s k v)) = init_ver s /\
     init_set (fst (do_set s k v)) = init_set s /\
     init_opt (fst (do_set s k v)) = init_opt s).
Proof. exact do_set_refines. Qed.
Print Assumptions C01_set_refines.

Theorem C01_remove_refines :
  forall (s : mstate) (k : bytes),
    state_inv s ->
    oelems (root (fst (do_remove s k))) = del k (oelems (root s)) /\
    snd (do_remove s k) =
      XPair (XBytes (assoc k (oelems (root s)))) (XBool (mem k (oelems (root s)))) /\
    (version (fst (do_remove s k)) = version s /\
     last_saved (fst (do_remove s k)) = last_saved s /\
     forest (fst (do_remove s k)) = forest s /\
     init_ver (fst (do_remove s k)) = init_ver s /\
     init_set (fst (do_remove s k)) = init_set s /\
     init_opt (fst (do_remove s k)) = init_opt s).
Proof. exact do_remove_refines. Qed.
Print Assumptions C01_remove_refines.

Theorem C01_del_absent :
  forall (k : bytes) (l : kvs), sorted l -> assoc k l = None -> del k l = l.
Proof. exact del_absent_sorted. Qed.
Print Assumptions C01_del_absent.

Theorem C01_set_nil_rejected :
  forall (H : bytes -> bytes) (s : mstate) (k : bytes), step H s (OSetNil k) = (s, XErr).
Proof. exact set_nil_rejected. Qed.
Print Assumptions C01_set_nil_rejected.

(** *** Version contents *)

(** Saving a version that does not exist yet appends it, with the working contents. *)
Theorem C01_save_new :
  forall (H : bytes -> bytes) (s : mstate),
    lookup (working_version s) (forest s) = None ->
    exists r' : option node,
      oelems r' = oelems (root s) /\
      do_save H s =
        (MState r' (working_version s) r' (forest s ++ [(working_version s, r')])
                (init_ver s) false (init_opt s),
         XPair (XBytes (Some (root_hash H (working_version s) r'))) (XInt (working_version s))).
Proof. exact do_save_new. Qed.
Print Assumptions C01_save_new.

Theorem C01_lookup_after_append :
  forall (A : Type) (v w : Z) (a : A) (l : list (Z * A)),
    lookup w l = None ->
    lookup v (l ++ [(w, a)]) = if v =? w then Some a else lookup v l.
Proof. exact @lookup_snoc. Qed.
Print Assumptions C01_lookup_after_append.

(** Saving over an existing version: adopt it (same hash) or fail; the forest is untouched. *)
Theorem C01_save_existing :
  forall (H : bytes -> bytes) (s : mstate) (e : option node),
    lookup (working_version s) (forest s) = Some e ->
    do_save H s =
      (MState e (working_version s) e (forest s) (init_ver s) false (init_opt s),
       XPair (XBytes (Some (root_hash H (working_version s) (root s))))
             (XInt (working_version s))) \/
    do_save H s =
      (MState (root s) (version s) (last_saved s) (forest s) (init_ver s) false (init_opt s),
       XErr).
Proof. exact do_save_existing. Qed.
Print Assumptions C01_save_existing.

Theorem C01_save_keeps :
  forall (H : bytes -> bytes) (s : mstate) (v : Z) (t : option node),
    lookup v (forest s) = Some t -> lookup v (forest (fst (do_save H s))) = Some t.
Proof. exact do_save_keeps. Qed.
Print Assumptions C01_save_keeps.

(** Pruning keeps exactly the versions above [n], unchanged, or fails without effect. *)
Theorem C01_prune :
  forall (s : mstate) (n : Z),
    (latest_version s <= n /\ do_prune s n = (s, XErr)) \/
    (n < latest_version s /\
     do_prune s n =
       (MState (root s) (version s) (last_saved s) (filter (fun p => n <? fst p) (forest s))
               (init_ver s) (init_set s) (init_opt s), XOk)).
Proof. exact do_prune_cases. Qed.
Print Assumptions C01_prune.

Theorem C01_lookup_after_prune :
  forall (A : Type) (n v : Z) (l : list (Z * A)),
    lookup v (filter (fun p => n <? fst p) l) = if n <? v then lookup v l else None.
Proof. exact @lookup_filter_gt. Qed.
Print Assumptions C01_lookup_after_prune.

(** Loading: no effect, or the working tree becomes a retained tree; the forest is untouched. *)
Theorem C01_load :
  forall (s : mstate) (v : Z),
    do_load s v = (s, XErr) \/
    (forest s = [] /\ v <= 0 /\ do_load s v = (s, XInt 0)) \/
    (exists (tv : Z) (r : option node),
       lookup tv (forest s) = Some r /\
       do_load s v = (MState r tv r (forest s) (init_ver s) (init_set s) (init_opt s),
                      XInt (latest_version s))).
Proof. exact do_load_cases. Qed.
Print Assumptions C01_load.

(** LoadVersionForOverwriting: as load, then drop the versions above [v]. *)
Theorem C01_lvfo :
  forall (s : mstate) (v : Z),
    do_lvfo s v = (s, XErr) \/
    (forest s = [] /\ v <= 0 /\
     do_lvfo s v = (MState (root s) (version s) (last_saved s) [] (init_ver s) (init_set s)
                           (init_opt s), XOk)) \/
    (exists (tv : Z) (r : option node),
       lookup tv (forest s) = Some r /\
       do_lvfo s v = (MState r tv r (filter (fun p => fst p <=? v) (forest s))
                             (init_ver s) (init_set s) (init_opt s), XOk)).
Proof. exact do_lvfo_cases. Qed.
Print Assumptions C01_lvfo.

Theorem C01_lookup_after_lvfo :
  forall (A : Type) (n v : Z) (l : list (Z * A)),
    lookup v (filter (fun p => fst p <=? n) l) = if v <=? n then lookup v l else None.
Proof. exact @lookup_filter_le. Qed.
Print Assumptions C01_lookup_after_lvfo.

(** Reopening: the forest is untouched; the working tree is empty or a retained tree. *)
Theorem C01_reopen :
  forall s : mstate,
    do_reopen s = (MState None 0 None (forest s) (init_ver s) (init_opt s) (init_opt s), XErr) \/
    (forest s = [] /\
     do_reopen s = (MState None 0 None (forest s) (init_ver s) (init_opt s) (init_opt s), XOk)) \/
    (exists (tv : Z) (r : option node),
       lookup tv (forest s) = Some r /\
       do_reopen s = (MState r tv r (forest s) (init_ver s) (init_opt s) (init_opt s), XOk)).
Proof. exact do_reopen_cases. Qed.
Print Assumptions C01_reopen.

(** Rollback: the working tree becomes the last saved tree (or empty); nothing else moves. *)
Theorem C01_rollback :
  forall (H : bytes -> bytes) (s : mstate),
    step H s ORollback =
      (MState (if 0 <? version s then last_saved s else None) (version s) (last_saved s)
              (forest s) (init_ver s) (init_set s) (init_opt s), XOk).
Proof. exact rollback_spec. Qed.
Print Assumptions C01_rollback.

(** *** Non-vacuity: a concrete reachable state (SHA-256 as the hash) on which the
    hypotheses above hold and the conclusions can be observed. *)
Definition C01_example_ops : list op :=
  [OSet [1%N] [10%N]; OSet [2%N] [20%N]; OSet [3%N] [30%N]; OSave;
   OSet [4%N] [40%N]; ORemove [1%N]; OSave; OLoad 1; OSet [5%N] [50%N]].

Example C01_example :
  let s := fst (run sha256 (init_state 0 false) C01_example_ops) in
  (* two retained versions with distinct contents, and a modified working tree *)
  map (fun p => (fst p, oelems (snd p))) (forest s) =
    [(1, [([1%N], [10%N]); ([2%N], [20%N]); ([3%N], [30%N])]);
     (2, [([2%N], [20%N]); ([3%N], [30%N]); ([4%N], [40%N])])] /\
  oelems (root s) = [([1%N], [10%N]); ([2%N], [20%N]); ([3%N], [30%N]); ([5%N], [50%N])] /\
  version s = 1 /\
  (* the hypotheses of the read / save theorems are satisfiable here *)
  (exists t, lookup 2 (forest s) = Some t) /\
  lookup 3 (forest s) = None /\
  (exists e, lookup (working_version s) (forest s) = Some e) /\
  list_read (RGetWithIndex [3%N]) = true /\
  (* and the conclusions are observable *)
  step sha256 s (ORead (TVersion 2) (RGetWithIndex [3%N])) =
    (s, XPair (XInt 1) (XBytes (Some [30%N]))) /\
  step sha256 s (ORead TWorking (RGetByIndex 3)) =
    (s, XPair (XBytes (Some [5%N])) (XBytes (Some [50%N]))) /\
  snd (step sha256 s (ORemove [9%N])) = XPair (XBytes None) (XBool false) /\
  snd (step sha256 s OSave) = XErr.
Proof. vm_compute. repeat split; try reflexivity; eexists; reflexivity. Qed.

(** *** The node cache is transparent (NodeCache.v: nodedb.go GetNode / SaveNode / SaveRoot /
    deleteFromPruning / saveNodeFromPruning / Commit over cache/cache.go, a cache that no deletion
    ever invalidates).  "Cache sizes ... never change any result": for EVERY capacity and every
    operation list that meets the executable side condition [drun_ok] on the cache-free run
    (GetNode is not asked for a key whose only copy sits in the uncommitted batch, nor for a key
    that holds a root record, nonces of saved nodes are not 0 ...), store and batch evolve as
    without a cache, every read that succeeds without the cache returns the same node with it,
    and the invariant checked on the running library by [audit cache] ([coherentb]) holds. *)
From IAVL Require Import Store StoreFacts NodeCache NodeCacheFacts.

Theorem C01_node_cache_transparent :
  forall (V : Type) (is_node : V -> bool) (eqV : V -> V -> bool),
    (forall a b, eqV a b = true <-> a = b) ->
    forall (cap : nat) (ops : list (cop V)) (st : cstate V) (seen0 : list Z),
      cinv is_node st -> seen_inv seen0 (cache st) ->
      drun_ok eqV is_node seen0 (forget st) ops = true ->
      forget (snd (crun is_node cap st ops)) = snd (drun is_node (forget st) ops) /\
      Forall2 out_refines (fst (drun is_node (forget st) ops)) (fst (crun is_node cap st ops)) /\
      cinv is_node (snd (crun is_node cap st ops)).
Proof. exact cache_transparent. Qed.
Print Assumptions C01_node_cache_transparent.

Theorem C01_node_cache_size_irrelevant :
  forall (V : Type) (is_node : V -> bool) (eqV : V -> V -> bool),
    (forall a b, eqV a b = true <-> a = b) ->
    forall (cap1 cap2 : nat) (ops : list (cop V)) (d : list (Z * Z * V)) (b : list (cwop V)),
      msorted kcmp d -> drun_ok eqV is_node [] (DState d b) ops = true ->
      all_found (fst (drun is_node (DState d b) ops)) ->
      fst (crun is_node cap1 (CState d b []) ops) = fst (crun is_node cap2 (CState d b []) ops).
Proof. exact cache_size_irrelevant_exact. Qed.
Print Assumptions C01_node_cache_size_irrelevant.

(** the checker that the harness evaluates on dumps of the real cache and database is the
    invariant of the theorem *)
Theorem C01_cache_checker_is_the_invariant :
  forall (V : Type) (is_node : V -> bool) (eqV : V -> V -> bool),
    (forall a b, eqV a b = true <-> a = b) ->
    forall (d : list (Z * Z * V)) (c : lru V),
      coherentb eqV is_node d c = true <-> coherent is_node d [] c.
Proof. exact coherentb_spec. Qed.
Print Assumptions C01_cache_checker_is_the_invariant.

(** the two seeded defects of SaveNode ("leaves an already cached node alone", "no longer caches")
    break it: a read returns the node of the erased timeline *)
Theorem C01_save_keep_cached_refuted :
  exists cap ops v v',
    okb D0 ops = true /\
    last (fst (drunE D0 ops)) OUnit = OGot (Some v) /\
    last (fst (crunE cap E0 ops)) OUnit = OGot (Some v) /\
    last (fst (crun_keep_cached entry_is_node cap E0 ops)) OUnit = OGot (Some v') /\
    v <> v'.
Proof. exact save_keep_cached_refuted. Qed.
Print Assumptions C01_save_keep_cached_refuted.

Theorem C01_save_without_caching_refuted :
  exists cap ops v v',
    okb D0 ops = true /\
    last (fst (drunE D0 ops)) OUnit = OGot (Some v) /\
    last (fst (crunE cap E0 ops)) OUnit = OGot (Some v) /\
    last (fst (crun_no_cache entry_is_node cap E0 ops)) OUnit = OGot (Some v') /\
    v <> v'.
Proof. exact save_without_caching_refuted. Qed.
Print Assumptions C01_save_without_caching_refuted.
