(** M1m: hash memoisation in the nodes of the working tree (node.go: hashWithCount / _hash /
    resetUnsavedHashes / clone; mutable_tree.go: recursiveSet / recursiveRemove / saveNewNodes /
    SetInitialVersion / SaveVersion; immutable_tree.go: nextVersion / Hash).

    The model M1 (Tree.v, MTree.v) is pure: [node_hash] recomputes the hash of every new node at
    every call.  The Go code stores the hash it computed in the node (field [hash]) and never
    recomputes it, although the version under which the node will be saved is part of the
    preimage: a hash memoised by a read-only call for the wrong version is committed by the
    next SaveVersion.  This file transcribes that mechanism; MemoFacts.v proves when it is
    invisible (and exhibits the histories where it is not).

    A node is a [Tree.node] plus [memo : option bytes], the Go field [hash] of a node that has
    no node key yet ([ver = 0]); for a persisted node [hs (nmeta _)] is that field, as in
    [Tree.node_hash] (a node read back from the database or just saved always has a hash).

    Executable model only, no proofs in this file. *)
From IAVL Require Import Bytes Varint Tree.
Local Open Scope Z_scope.

Inductive mnode :=
| MLeaf (k v : bytes) (m : meta) (memo : option bytes)
| MInner (k : bytes) (h s : Z) (m : meta) (memo : option bytes) (l r : mnode).

(** forget the memoised hashes *)
Fixpoint erase (t : mnode) : node :=
  match t with
  | MLeaf k v m _ => Leaf k v m
  | MInner k h s m _ l r => Inner k h s m (erase l) (erase r)
  end.

(** a tree in which nothing is memoised *)
Fixpoint lift (t : node) : mnode :=
  match t with
  | Leaf k v m => MLeaf k v m None
  | Inner k h s m l r => MInner k h s m None (lift l) (lift r)
  end.

Definition mheight (t : mnode) : Z :=
  match t with MLeaf _ _ _ _ => 0 | MInner _ h _ _ _ _ _ => h end.
Definition msize (t : mnode) : Z :=
  match t with MLeaf _ _ _ _ => 1 | MInner _ _ s _ _ _ _ => s end.
Definition mmeta (t : mnode) : meta :=
  match t with MLeaf _ _ m _ => m | MInner _ _ _ m _ _ _ => m end.
Definition mmemo (t : mnode) : option bytes :=
  match t with MLeaf _ _ _ memo => memo | MInner _ _ _ _ memo _ _ => memo end.
(** Go: nodeKey == nil *)
Definition m_is_new (t : mnode) : bool := ver (mmeta t) =? 0.

(** Go's field [node.hash]: [None] is Go's nil. *)
Definition mhash_field (t : mnode) : option bytes :=
  if m_is_new t then mmemo t else Some (hs (mmeta t)).

(** clone (hash: nil, nodeKey: nil) followed by calcHeightAndSize *)
Definition mmk (k : bytes) (l r : mnode) : mnode :=
  MInner k (Z.max (mheight l) (mheight r) + 1) (msize l + msize r) new_meta None l r.

(** rotateRight / rotateLeft: both rebuilt nodes are clones (no hash); the three subtrees
    that are re-hung keep their node objects, memoised hash included.  The ErrCloneLeafNode
    branch is the identity, as in [Tree.rotR] / [Tree.rotL]. *)
Definition mrotR (t : mnode) : mnode :=
  match t with
  | MInner k _ _ _ _ (MInner lk _ _ _ _ ll lr) r => mmk lk ll (mmk k lr r)
  | _ => t
  end.
Definition mrotL (t : mnode) : mnode :=
  match t with
  | MInner k _ _ _ _ l (MInner rk _ _ _ _ rl rr) => mmk rk (mmk k l rl) rr
  | _ => t
  end.

Definition mbal_of (t : mnode) : Z :=
  match t with MInner _ _ _ _ _ l r => mheight l - mheight r | MLeaf _ _ _ _ => 0 end.

Definition mbalance (t : mnode) : mnode :=
  match t with
  | MInner k h s m memo l r =>
      if 1 <? mheight l - mheight r then
        (if 0 <=? mbal_of l then mrotR t else mrotR (MInner k h s m memo (mrotL l) r))
      else if mheight l - mheight r <? -1 then
        (if mbal_of r <=? 0 then mrotL t else mrotL (MInner k h s m memo l (mrotR r)))
      else t
  | MLeaf _ _ _ _ => t
  end.

(** recursiveSet, line by line as [Tree.set]: every node on the path is a clone or a fresh
    node (memo = None), the subtrees off the path are the same objects as before. *)
Fixpoint mset (t : mnode) (k v : bytes) : mnode * bool :=
  match t with
  | MLeaf lk lv _ _ =>
      match bcmp k lk with
      | Lt => (MInner lk 1 2 new_meta None (MLeaf k v new_meta None) t, false)
      | Gt => (MInner k 1 2 new_meta None t (MLeaf k v new_meta None), false)
      | Eq => (MLeaf k v new_meta None, true)
      end
  | MInner nk h s _ _ l r =>
      if blt k nk then
        let (l', upd) := mset l k v in
        if upd then (MInner nk h s new_meta None l' r, true) else (mbalance (mmk nk l' r), false)
      else
        let (r', upd) := mset r k v in
        if upd then (MInner nk h s new_meta None l r', true) else (mbalance (mmk nk l r'), false)
  end.

(** recursiveRemove, line by line as [Tree.remove]. *)
Record mrm_res := MRmRes { mrm_self : option mnode; mrm_key : option bytes; mrm_val : option bytes }.

Fixpoint mremove (t : mnode) (k : bytes) : mrm_res :=
  match t with
  | MLeaf lk lv _ _ =>
      if beq k lk then MRmRes None None (Some lv) else MRmRes (Some t) None None
  | MInner nk h s _ _ l r =>
      if blt k nk then
        let res := mremove l k in
        match mrm_val res with
        | None => MRmRes (Some t) None None
        | Some val =>
            match mrm_self res with
            | None => MRmRes (Some r) (Some nk) (Some val)
            | Some l' => MRmRes (Some (mbalance (mmk nk l' r))) (mrm_key res) (Some val)
            end
        end
      else
        let res := mremove r k in
        match mrm_val res with
        | None => MRmRes (Some t) None None
        | Some val =>
            match mrm_self res with
            | None => MRmRes (Some l) None (Some val)
            | Some r' =>
                let nk' := match mrm_key res with Some k' => k' | None => nk end in
                MRmRes (Some (mbalance (mmk nk' l r'))) None (Some val)
            end
        end
  end.

(** resetUnsavedHashes: [if node == nil || node.nodeKey != nil { return }; node.hash = nil;
    left.reset; right.reset].  It stops at the first persisted node. *)
Fixpoint reset_unsaved (t : mnode) : mnode :=
  match t with
  | MLeaf k v m _ => if negb (ver m =? 0) then t else MLeaf k v m None
  | MInner k h s m _ l r =>
      if negb (ver m =? 0) then t else MInner k h s m None (reset_unsaved l) (reset_unsaved r)
  end.

(** is some hash memoised in the unsaved part of the tree (what resetUnsavedHashes would clear) *)
Fixpoint has_unsaved_memo (t : mnode) : bool :=
  match t with
  | MLeaf _ _ m memo =>
      if negb (ver m =? 0) then false else match memo with Some _ => true | None => false end
  | MInner _ _ _ m memo l r =>
      if negb (ver m =? 0) then false else
      match memo with
      | Some _ => true
      | None => has_unsaved_memo l || has_unsaved_memo r
      end
  end.

Section Hashing.
  Variable H : bytes -> bytes.

  (** hashWithCount(version): [if node.hash != nil { return node.hash }], otherwise both
      children are hashed first WITH THE SAME [version] (writeHashBytesRecursively), then
      writeHashBytes(w, version) reads [leftNode.hash] / [rightNode.hash] (what the two calls
      just returned) and the result is stored in [node.hash].  Returns the hash and the tree
      with the hashes it memoised. *)
  Fixpoint hash_with_count (version : Z) (t : mnode) : bytes * mnode :=
    match t with
    | MLeaf k v m memo =>
        if negb (ver m =? 0) then (hs m, t) else
        match memo with
        | Some x => (x, t)
        | None =>
            let x := H (leaf_preimage H version k v) in
            (x, MLeaf k v m (Some x))
        end
    | MInner k h s m memo l r =>
        if negb (ver m =? 0) then (hs m, t) else
        match memo with
        | Some x => (x, t)
        | None =>
            let (lh, l') := hash_with_count version l in
            let (rh, r') := hash_with_count version r in
            let x := H (inner_preimage h s version lh rh) in
            (x, MInner k h s m (Some x) l' r')
        end
    end.

  (** hashWithCount on a possibly nil root *)
  Definition root_hash_with_count (version : Z) (t : option mnode) : bytes * option mnode :=
    match t with
    | None => (empty_hash H, None)
    | Some n => let (x, n') := hash_with_count version n in (x, Some n')
    end.

  (** saveNewNodes(version) / recursiveAssignKey: a node with a node key is returned as it is;
      otherwise nonce++, the children first, then [node._hash(version)], which RETURNS THE
      MEMOISED HASH when there is one and otherwise hashes writeHashBytes(version) over the
      [hash] fields of the (now persisted) children.  The hash moves to [hs] of the meta
      data.  Returns the persisted tree and the last nonce used, as [Tree.stamp]. *)
  Fixpoint msave (version : Z) (n : Z) (t : mnode) : mnode * Z :=
    match t with
    | MLeaf k v m memo =>
        if negb (ver m =? 0) then (t, n) else
        let x := match memo with
                 | Some x => x
                 | None => H (leaf_preimage H version k v)
                 end in
        (MLeaf k v (Meta version (n + 1) x) None, n + 1)
    | MInner k h s m memo l r =>
        if negb (ver m =? 0) then (t, n) else
        let (l', n1) := msave version (n + 1) l in
        let (r', n2) := msave version n1 r in
        let x := match memo with
                 | Some x => x
                 | None => H (inner_preimage h s version (hs (mmeta l')) (hs (mmeta r')))
                 end in
        (MInner k h s (Meta version (n + 1) x) None l' r', n2)
    end.
End Hashing.

(** ** One MutableTree object, everything in memory (no reopen, no pruning, no load). *)

(** [ms_iv = Some v]: initialVersionSet with InitialVersion = v. *)
Record memo_state := MemoState {
  ms_root : option mnode;     (* tree.root *)
  ms_version : Z;             (* tree.version *)
  ms_iv : option Z
}.

Definition memo_init (iv : option Z) : memo_state := MemoState None 0 iv.

(** ImmutableTree.nextVersion() = MutableTree.WorkingVersion() *)
Definition next_version_of (version : Z) (iv : option Z) : Z :=
  let v := version + 1 in
  if v =? 1 then match iv with Some i => i | None => v end else v.
Definition next_version (st : memo_state) : Z := next_version_of (ms_version st) (ms_iv st).

Inductive mop :=
| MSet (k v : bytes)
| MRemove (k : bytes)
| MRead (rv : Z)                    (* a read-only call that hashes the working tree with [rv]:
                                       Hash / GetProof / WriteDOTGraph; the repaired code passes
                                       nextVersion(), the defective ones passed version+1 *)
| MWorkingHash
| MSetIV (v : Z) (reset : bool)     (* SetInitialVersion; [reset = true] is the repaired code *)
| MSave.

Inductive mout :=
| MOUpdated (b : bool)                          (* Set *)
| MORemoved (v : option bytes) (removed : bool) (* Remove *)
| MOUnit                                        (* Read, SetInitialVersion *)
| MOHash (h : bytes)                            (* WorkingHash *)
| MOSaved (h : bytes) (version : Z)             (* SaveVersion *)
| MOOutOfDomain.                                (* SaveVersion under a version <= 0 or not above
                                                   tree.version: see [save_in_domain] *)

(** SaveVersion is modelled for a working version [wv] with [0 < wv] and [tree.version < wv]
    only.  M1 encodes "no node key" as [ver = 0], so a tree saved under version 0 cannot be
    expressed (Go accepts SetInitialVersion(0)); InitialVersion is a uint64, so [wv < 0] does
    not exist in Go.  From [memo_init] the guard can only fail at the first save with
    [iv = Some v], [v <= 0]; when it holds the saved versions are strictly increasing, which
    is why the "version already exists" branch of SaveVersion is absent from this machine.
    Outside the domain the machine answers [MOOutOfDomain] and does not move. *)
Definition save_in_domain (version wv : Z) : bool := (0 <? wv) && (version <? wv).

Section Machine.
  Variable H : bytes -> bytes.

  Definition memo_step (st : memo_state) (o : mop) : memo_state * mout :=
    match o with
    | MSet k v =>
        match ms_root st with
        | None => (MemoState (Some (MLeaf k v new_meta None)) (ms_version st) (ms_iv st),
                   MOUpdated false)
        | Some n =>
            let (n', upd) := mset n k v in
            (MemoState (Some n') (ms_version st) (ms_iv st), MOUpdated upd)
        end
    | MRemove k =>
        match ms_root st with
        | None => (st, MORemoved None false)
        | Some n =>
            let res := mremove n k in
            match mrm_val res with
            | None => (st, MORemoved None false)
            | Some val =>
                (MemoState (mrm_self res) (ms_version st) (ms_iv st), MORemoved (Some val) true)
            end
        end
    | MRead rv =>
        let (_, r') := root_hash_with_count H rv (ms_root st) in
        (MemoState r' (ms_version st) (ms_iv st), MOUnit)
    | MWorkingHash =>
        let (x, r') := root_hash_with_count H (next_version st) (ms_root st) in
        (MemoState r' (ms_version st) (ms_iv st), MOHash x)
    | MSetIV v reset =>
        (MemoState (if reset then option_map reset_unsaved (ms_root st) else ms_root st)
                   (ms_version st) (Some v), MOUnit)
    | MSave =>
        let wv := next_version st in
        if save_in_domain (ms_version st) wv then
          (* initialVersionSet = false; saveNewNodes(version) (SaveEmptyRoot for a nil root,
             SaveRoot only when the root has a node key: [msave] is the identity then);
             tree.version = version; return tree.Hash() = root.hashWithCount(nextVersion()) *)
          let r1 := match ms_root st with
                    | None => None
                    | Some n => Some (fst (msave H wv 0 n))
                    end in
          let st1 := MemoState r1 wv None in
          let (x, r2) := root_hash_with_count H (next_version st1) r1 in
          (MemoState r2 wv None, MOSaved x wv)
        else (st, MOOutOfDomain)
    end.

  Fixpoint memo_run (st : memo_state) (ops : list mop) : memo_state * list mout :=
    match ops with
    | [] => (st, [])
    | o :: rest =>
        let (s1, x) := memo_step st o in
        let (s2, xs) := memo_run s1 rest in
        (s2, x :: xs)
    end.

  (** ** The pure reference: the same operations on [Tree.node] with [node_hash] / [stamp];
      reads and working-hash queries change nothing, SetInitialVersion only sets the option. *)
  Record pure_state := PureState { ps_root : option node; ps_version : Z; ps_iv : option Z }.

  Definition pure_init (iv : option Z) : pure_state := PureState None 0 iv.
  Definition pnext_version (st : pure_state) : Z := next_version_of (ps_version st) (ps_iv st).

  Definition pure_step (st : pure_state) (o : mop) : pure_state * mout :=
    match o with
    | MSet k v =>
        match ps_root st with
        | None => (PureState (Some (Leaf k v new_meta)) (ps_version st) (ps_iv st),
                   MOUpdated false)
        | Some n =>
            let (n', upd) := set n k v in
            (PureState (Some n') (ps_version st) (ps_iv st), MOUpdated upd)
        end
    | MRemove k =>
        match ps_root st with
        | None => (st, MORemoved None false)
        | Some n =>
            let res := remove n k in
            match rm_val res with
            | None => (st, MORemoved None false)
            | Some val =>
                (PureState (rm_self res) (ps_version st) (ps_iv st), MORemoved (Some val) true)
            end
        end
    | MRead _ => (st, MOUnit)
    | MWorkingHash => (st, MOHash (root_hash H (pnext_version st) (ps_root st)))
    | MSetIV v _ => (PureState (ps_root st) (ps_version st) (Some v), MOUnit)
    | MSave =>
        let wv := pnext_version st in
        if save_in_domain (ps_version st) wv then
          let r1 := match ps_root st with
                    | None => None
                    | Some n => Some (fst (stamp H wv 0 n))
                    end in
          let st1 := PureState r1 wv None in
          (st1, MOSaved (root_hash H (pnext_version st1) r1) wv)
        else (st, MOOutOfDomain)
    end.

  Fixpoint pure_run (st : pure_state) (ops : list mop) : pure_state * list mout :=
    match ops with
    | [] => (st, [])
    | o :: rest =>
        let (s1, x) := pure_step st o in
        let (s2, xs) := pure_run s1 rest in
        (s2, x :: xs)
    end.
End Machine.

Definition erase_state (st : memo_state) : pure_state :=
  PureState (option_map erase (ms_root st)) (ms_version st) (ms_iv st).

(** ** Which histories are in the domain of the refinement theorem (executable checks). *)

(** the call [hashWithCount(rv)] on this root memoises nothing new: nil, persisted, or
    already hashed at the top *)
Definition root_hashed (t : option mnode) : bool :=
  match t with
  | None => true
  | Some n => match mhash_field n with Some _ => true | None => false end
  end.

Definition root_clean (t : option mnode) : bool :=
  match t with None => true | Some n => negb (has_unsaved_memo n) end.

(** [MRead rv]: the version passed is the version the nodes will be saved under (or nothing
    gets memoised).  [MSetIV v reset]: the memoised hashes are reset, or there are none, or
    the working version does not change. *)
Definition op_ok (st : memo_state) (o : mop) : bool :=
  match o with
  | MRead rv => (rv =? next_version st) || root_hashed (ms_root st)
  | MSetIV v reset =>
      reset || root_clean (ms_root st)
      || (next_version_of (ms_version st) (Some v) =? next_version st)
  | _ => true
  end.

Section RunOk.
  Variable H : bytes -> bytes.
  Fixpoint run_ok (st : memo_state) (ops : list mop) : bool :=
    match ops with
    | [] => true
    | o :: rest => op_ok st o && run_ok (fst (memo_step H st o)) rest
    end.
End RunOk.

(** the same conditions without the alternatives that look at the memoised hashes: they
    depend on (tree.version, initial version) only *)
Definition vop_ok (version : Z) (iv : option Z) (o : mop) : bool :=
  match o with
  | MRead rv => rv =? next_version_of version iv
  | MSetIV v reset => reset || (next_version_of version (Some v) =? next_version_of version iv)
  | _ => true
  end.

Section VRunOk.
  Variable H : bytes -> bytes.
  Fixpoint vrun_ok (st : pure_state) (ops : list mop) : bool :=
    match ops with
    | [] => true
    | o :: rest => vop_ok (ps_version st) (ps_iv st) o && vrun_ok (fst (pure_step H st o)) rest
    end.
End VRunOk.

(** read-only operations, and what is left of a history / of its outputs without them *)
Definition is_read (o : mop) : bool :=
  match o with MRead _ | MWorkingHash => true | _ => false end.

Definition writes (ops : list mop) : list mop := filter (fun o => negb (is_read o)) ops.

Fixpoint write_outs (ops : list mop) (outs : list mout) : list mout :=
  match ops, outs with
  | o :: ops', x :: outs' => if is_read o then write_outs ops' outs' else x :: write_outs ops' outs'
  | _, _ => []
  end.
