(** Version bookkeeping of the MutableTree state machine (MTree.v) under the usage
    contract: commits are numbered consecutively, the retained versions form a contiguous
    range (C14); rollback / LoadVersionForOverwriting forget exactly the later history (C09);
    pruning removes exactly a prefix of the range and leaves every later version untouched
    (C04). *)
From IAVL Require Import Bytes Varint Tree VMap TreeFacts MTree MTreeFacts.
Local Open Scope Z_scope.

(** ** Consecutive integer lists *)
Fixpoint zseq (a : Z) (n : nat) : list Z :=
  match n with O => [] | S n => a :: zseq (a + 1) n end.

(** [lo; lo+1; ...; hi] (empty when hi < lo) *)
Definition zrange (lo hi : Z) : list Z := zseq lo (Z.to_nat (hi - lo + 1)).

Definition consecutive (l : list Z) : Prop := l = zseq (hd 0 l) (length l).

Definition consecutiveb (l : list Z) : bool :=
  if list_eq_dec Z.eq_dec l (zseq (hd 0 l) (length l)) then true else false.

Lemma consecutiveb_sound l : consecutiveb l = true -> consecutive l.
Proof. unfold consecutiveb, consecutive. destruct (list_eq_dec _ _ _); [auto|discriminate]. Qed.

Lemma zseq_length a n : length (zseq a n) = n.
Proof. revert a. induction n as [|n IH]; intros a; cbn [zseq length]; [reflexivity|]. rewrite IH. reflexivity. Qed.

Lemma consecutive_zseq a n : consecutive (zseq a n).
Proof.
  unfold consecutive. rewrite zseq_length. destruct n as [|n]; cbn [zseq hd]; reflexivity.
Qed.

Lemma consecutive_iff l : consecutive l <-> exists a n, l = zseq a n.
Proof.
  split.
  - intros C. exists (hd 0 l), (length l). exact C.
  - intros (a & n & ->). apply consecutive_zseq.
Qed.

Lemma In_zseq v a n : In v (zseq a n) <-> a <= v < a + Z.of_nat n.
Proof.
  revert a. induction n as [|n IH]; intros a; cbn [zseq In].
  - lia.
  - rewrite IH. lia.
Qed.

Lemma In_zrange v lo hi : In v (zrange lo hi) <-> lo <= v <= hi.
Proof. unfold zrange. rewrite In_zseq. lia. Qed.

Lemma zseq_snoc a n : zseq a (S n) = zseq a n ++ [a + Z.of_nat n].
Proof.
  revert a. induction n as [|n IH]; intros a.
  - cbn [zseq app]. f_equal. lia.
  - change (zseq a (S (S n))) with (a :: zseq (a + 1) (S n)). rewrite IH.
    cbn [zseq app]. do 2 f_equal. f_equal. lia.
Qed.

Lemma zseq_last a n d : last (zseq a (S n)) d = a + Z.of_nat n.
Proof. rewrite zseq_snoc. apply last_last. Qed.

Lemma filter_gt_zseq n a k :
  filter (fun x => n <? x) (zseq a k) =
  zseq (Z.max a (n + 1)) (Z.to_nat (a + Z.of_nat k - Z.max a (n + 1))).
Proof.
  revert a. induction k as [|k IH]; intros a.
  - cbn [zseq filter]. replace (Z.to_nat _) with O by lia. reflexivity.
  - cbn [zseq filter]. rewrite IH. destruct (n <? a) eqn:E.
    + apply Z.ltb_lt in E.
      replace (Z.max a (n + 1)) with a by lia.
      replace (Z.max (a + 1) (n + 1)) with (a + 1) by lia.
      replace (Z.to_nat (a + Z.of_nat (S k) - a)) with (S k) by lia.
      replace (Z.to_nat (a + 1 + Z.of_nat k - (a + 1))) with k by lia.
      reflexivity.
    + apply Z.ltb_ge in E.
      replace (Z.max (a + 1) (n + 1)) with (n + 1) by lia.
      replace (Z.max a (n + 1)) with (n + 1) by lia.
      f_equal. lia.
Qed.

Lemma filter_le_zseq v a k :
  filter (fun x => x <=? v) (zseq a k) =
  zseq a (Z.to_nat (Z.min (a + Z.of_nat k) (v + 1) - a)).
Proof.
  revert a. induction k as [|k IH]; intros a.
  - cbn [zseq filter]. replace (Z.to_nat _) with O by lia. reflexivity.
  - cbn [zseq filter]. rewrite IH. destruct (a <=? v) eqn:E.
    + apply Z.leb_le in E.
      replace (Z.to_nat (Z.min (a + Z.of_nat (S k)) (v + 1) - a))
        with (S (Z.to_nat (Z.min (a + 1 + Z.of_nat k) (v + 1) - (a + 1)))) by lia.
      reflexivity.
    + apply Z.leb_gt in E.
      replace (Z.to_nat (Z.min (a + 1 + Z.of_nat k) (v + 1) - (a + 1))) with O by lia.
      replace (Z.to_nat (Z.min (a + Z.of_nat (S k)) (v + 1) - a)) with O by lia.
      reflexivity.
Qed.

Lemma map_fst_filter {A} (f : Z -> bool) (l : list (Z * A)) :
  map fst (filter (fun p => f (fst p)) l) = filter f (map fst l).
Proof.
  induction l as [|[w a] l IH]; cbn [filter map fst]; [reflexivity|].
  destruct (f w); cbn [map fst]; rewrite IH; reflexivity.
Qed.

Lemma filter_all {A} (f : A -> bool) l : (forall x, In x l -> f x = true) -> filter f l = l.
Proof.
  induction l as [|a l IH]; cbn [filter]; intros F; [reflexivity|].
  rewrite (F a (or_introl eq_refl)). f_equal. apply IH. intros x I. apply F. right; exact I.
Qed.

Lemma filter_filter {A} (f g : A -> bool) l :
  filter f (filter g l) = filter (fun x => g x && f x) l.
Proof.
  induction l as [|a l IH]; cbn [filter]; [reflexivity|].
  destruct (g a); cbn [filter andb]; [destruct (f a)|]; rewrite IH; reflexivity.
Qed.

Lemma filter_ext_bool {A} (f g : A -> bool) l : (forall x, f x = g x) -> filter f l = filter g l.
Proof.
  intros E. induction l as [|a l IH]; cbn [filter]; [reflexivity|]. rewrite E, IH. reflexivity.
Qed.

(** repeated / partial pruning composes *)
Lemma filter_gt_gt {A} n1 n2 (f : list (Z * A)) :
  filter (fun p => n2 <? fst p) (filter (fun p => n1 <? fst p) f) =
  filter (fun p => Z.max n1 n2 <? fst p) f.
Proof.
  rewrite filter_filter. apply filter_ext_bool. intros [w a]. cbn [fst].
  destruct (n1 <? w) eqn:E1, (n2 <? w) eqn:E2, (Z.max n1 n2 <? w) eqn:E3; cbn [andb];
    try reflexivity; lia.
Qed.

Lemma filter_le_le {A} v w (f : list (Z * A)) :
  v <= w ->
  filter (fun p => fst p <=? v) (filter (fun p => fst p <=? w) f) =
  filter (fun p => fst p <=? v) f.
Proof.
  intros L. rewrite filter_filter. apply filter_ext_bool. intros [x a]. cbn [fst].
  destruct (x <=? w) eqn:E1, (x <=? v) eqn:E2; cbn [andb]; try reflexivity; lia.
Qed.

(** ** [latest_version] is the last retained version *)
Definition latest_of {A} (f : list (Z * A)) : Z := fold_left (fun _ p => fst p) f 0.

Lemma fold_latest_last {A} (f : list (Z * A)) d :
  fold_left (fun _ p => fst p) f d = last (map fst f) d.
Proof.
  destruct f as [|p f] using rev_ind; [reflexivity|].
  rewrite fold_left_app, map_app. cbn [fold_left map]. rewrite last_last. reflexivity.
Qed.

Lemma latest_version_last s : latest_version s = last (available s) 0.
Proof. unfold latest_version, available. apply fold_latest_last. Qed.

Lemma latest_snoc {A} (f : list (Z * A)) w a d :
  fold_left (fun _ p => fst p) (f ++ [(w, a)]) d = w.
Proof. rewrite fold_left_app. reflexivity. Qed.

Lemma version_exists_In s v : version_exists s v = true <-> In v (available s).
Proof.
  unfold version_exists, available. destruct (lookup v (forest s)) as [t|] eqn:L.
  - split; [intros _|reflexivity]. apply lookup_In in L.
    apply in_map_iff. exists (v, t). split; [reflexivity|exact L].
  - split; [discriminate|]. intros I. exfalso. exact (lookup_None _ _ L I).
Qed.

Lemma lookup_Some_iff_In {A} v (f : list (Z * A)) :
  (exists t, lookup v f = Some t) <-> In v (map fst f).
Proof.
  destruct (lookup v f) as [t|] eqn:L.
  - split; [intros _|intros _; eauto]. apply lookup_In in L.
    apply in_map_iff. exists (v, t). split; [reflexivity|exact L].
  - split; [intros [t E]; discriminate|]. intros I. exfalso. exact (lookup_None _ _ L I).
Qed.

Lemma lookup_None_iff {A} v (f : list (Z * A)) : lookup v f = None <-> ~ In v (map fst f).
Proof.
  split; [apply lookup_None|]. intros NI. destruct (lookup v f) as [t|] eqn:L; [|reflexivity].
  exfalso. apply NI. apply lookup_Some_iff_In. eauto.
Qed.

(** ** The usage contract and the contiguity invariant *)

(** Never prune the version the working tree is based on (or a later one); never roll back to
    "version 0" (LoadVersionForOverwriting(0) would load the latest version and then delete
    every version).  Everything else is unrestricted. *)
Definition in_contract (s : mstate) (o : op) : Prop :=
  match o with
  | OPrune n => n < version s
  | OLvfo v => 1 <= v
  | _ => True
  end.

Definition in_contractb (s : mstate) (o : op) : bool :=
  match o with
  | OPrune n => n <? version s
  | OLvfo v => 1 <=? v
  | _ => true
  end.

Lemma in_contractb_iff s o : in_contractb s o = true <-> in_contract s o.
Proof.
  destruct o; cbn [in_contractb in_contract]; try tauto.
  - apply Z.ltb_lt.
  - apply Z.leb_le.
Qed.

(** Side condition on the initial state: an explicitly set initial version is positive; without
    the option the configured value is the default 0 (or 1, which means the same). *)
Definition init_ok (iv : Z) (ivset : bool) : Prop :=
  if ivset then 0 < iv else 0 <= iv <= 1.

Definition first_of {A} (f : list (Z * A)) : Z := match f with [] => 0 | (v, _) :: _ => v end.

Lemma first_version_of s : first_version s = first_of (forest s).
Proof. reflexivity. Qed.
Lemma latest_version_of s : latest_version s = latest_of (forest s).
Proof. reflexivity. Qed.

(** the retained versions are consecutive, positive and not below the initial version *)
Definition forest_ok {A} (f : list (Z * A)) (iv : Z) : Prop :=
  consecutive (map fst f) /\ Forall (fun v => 1 <= v /\ iv <= v) (map fst f).

Definition contig (s : mstate) : Prop :=
  forest_ok (forest s) (init_ver s) /\
  ((version s = 0 /\ forest s = [] /\ last_saved s = None /\ init_set s = init_opt s) \/
   lookup (version s) (forest s) = Some (last_saved s)) /\
  0 <= init_ver s /\
  (if init_opt s then 0 < init_ver s else init_ver s <= 1).

Lemma contig_intro r ver ls f iv (a b : bool) :
  forest_ok f iv ->
  ((ver = 0 /\ f = [] /\ ls = None /\ a = b) \/ lookup ver f = Some ls) ->
  0 <= iv -> (if b then 0 < iv else iv <= 1) ->
  contig (MState r ver ls f iv a b).
Proof. intros. unfold contig. cbn [forest init_ver version last_saved init_set init_opt]. auto. Qed.

Lemma forest_ok_nil {A} iv : forest_ok (@nil (Z * A)) iv.
Proof. split; [reflexivity|constructor]. Qed.

Lemma contig_init iv b : init_ok iv b -> contig (init_state iv b).
Proof.
  intros I. unfold init_state. apply contig_intro.
  - apply forest_ok_nil.
  - left. auto.
  - unfold init_ok in I. destruct b; lia.
  - unfold init_ok in I. destruct b; lia.
Qed.

(** *** The range described by a good forest *)
Lemma forest_ok_range {A} (f : list (Z * A)) iv :
  forest_ok f iv -> f <> [] ->
  1 <= first_of f <= latest_of f /\ iv <= first_of f /\
  map fst f = zrange (first_of f) (latest_of f).
Proof.
  intros [C F] NE. destruct f as [|[w a] f]; [congruence|]. clear NE.
  unfold latest_of. rewrite fold_latest_last. cbn [first_of map fst].
  unfold consecutive in C. cbn [map fst hd length] in C.
  inversion F as [|x xs [P1 P2] _]; subst. cbn [fst] in *.
  rewrite C. rewrite zseq_last. unfold zrange.
  replace (Z.to_nat (w + Z.of_nat (length (map fst f)) - w + 1)) with (S (length (map fst f))) by lia.
  repeat split; try lia.
Qed.

Lemma contig_range s :
  forest_ok (forest s) (init_ver s) -> forest s <> [] ->
  1 <= first_version s <= latest_version s /\ init_ver s <= first_version s /\
  available s = zrange (first_version s) (latest_version s).
Proof. apply forest_ok_range. Qed.

Lemma nil_or_not {A} (l : list A) : l = [] \/ l <> [].
Proof. destruct l; [left; reflexivity|right; discriminate]. Qed.

Lemma forest_ok_In {A} (f : list (Z * A)) iv v :
  forest_ok f iv -> (In v (map fst f) <-> f <> [] /\ first_of f <= v <= latest_of f).
Proof.
  intros OK. destruct (nil_or_not f) as [E|NE].
  - subst f. cbn [map In]. split; [tauto|]. intros [C _]. congruence.
  - destruct (forest_ok_range f iv OK NE) as (_ & _ & R). rewrite R, In_zrange. tauto.
Qed.

Lemma forest_ok_lookup {A} (f : list (Z * A)) iv v :
  forest_ok f iv ->
  ((exists t, lookup v f = Some t) <-> f <> [] /\ first_of f <= v <= latest_of f).
Proof. intros OK. rewrite lookup_Some_iff_In. exact (forest_ok_In f iv v OK). Qed.

Lemma forest_ok_lookup_None {A} (f : list (Z * A)) iv v :
  forest_ok f iv ->
  (lookup v f = None <-> f = [] \/ v < first_of f \/ latest_of f < v).
Proof.
  intros OK. rewrite lookup_None_iff, (forest_ok_In f iv v OK).
  destruct (nil_or_not f) as [E|NE].
  - split; [auto|]. intros _ [C _]. congruence.
  - split.
    + intros N. right. destruct (Z.ltb_spec v (first_of f)) as [L1|L1]; [left; exact L1|].
      right. destruct (Z.ltb_spec (latest_of f) v) as [L2|L2]; [exact L2|].
      exfalso. apply N. split; [exact NE|lia].
    + intros [C|C] [_ R]; [congruence|lia].
Qed.

Lemma forest_ok_filter_gt {A} (f : list (Z * A)) iv n :
  forest_ok f iv -> forest_ok (filter (fun p => n <? fst p) f) iv.
Proof.
  intros [C F]. split.
  - rewrite (map_fst_filter (fun x => n <? x)). apply consecutive_iff.
    rewrite C, filter_gt_zseq. eauto.
  - rewrite (map_fst_filter (fun x => n <? x)). apply Forall_filter_keep, F.
Qed.

Lemma forest_ok_filter_le {A} (f : list (Z * A)) iv n :
  forest_ok f iv -> forest_ok (filter (fun p => fst p <=? n) f) iv.
Proof.
  intros [C F]. split.
  - rewrite (map_fst_filter (fun x => x <=? n)). apply consecutive_iff.
    rewrite C, filter_le_zseq. eauto.
  - rewrite (map_fst_filter (fun x => x <=? n)). apply Forall_filter_keep, F.
Qed.

(** appending the successor of the latest version (or any admissible first version) *)
Lemma forest_ok_snoc {A} (f : list (Z * A)) iv w (a : A) :
  forest_ok f iv -> 1 <= w -> iv <= w -> (f <> [] -> w = latest_of f + 1) ->
  forest_ok (f ++ [(w, a)]) iv.
Proof.
  intros OK W1 W2 WL. split.
  - rewrite map_app. cbn [map fst]. destruct (nil_or_not f) as [E|NE]; [subst f; reflexivity|].
    destruct (forest_ok_range f iv OK NE) as (R1 & _ & R). rewrite R. unfold zrange.
    apply consecutive_iff. exists (first_of f), (S (Z.to_nat (latest_of f - first_of f + 1))).
    rewrite zseq_snoc. f_equal. f_equal. specialize (WL NE). lia.
  - rewrite map_app. apply Forall_app. split; [apply OK|]. cbn [map fst]. constructor; [lia|constructor].
Qed.

(** ** LoadVersion against the range *)
Lemma do_load_empty s v :
  forest s = [] -> do_load s v = (s, if v <=? 0 then XInt 0 else XErr).
Proof.
  intros E. unfold do_load, first_version, latest_version. cbv zeta. rewrite E.
  cbn [fold_left]. change (0 <? 0) with false. cbn [andb].
  destruct (0 <? v) eqn:C1; destruct (v <=? 0) eqn:C2; try reflexivity; lia.
Qed.

Lemma do_load_nonempty s v :
  forest_ok (forest s) (init_ver s) -> forest s <> [] ->
  let tv := if v <=? 0 then latest_version s else v in
  (first_version s <= tv <= latest_version s ->
     exists r, lookup tv (forest s) = Some r /\
       do_load s v = (MState r tv r (forest s) (init_ver s) (init_set s) (init_opt s),
                      XInt (latest_version s))) /\
  (~ first_version s <= tv <= latest_version s -> do_load s v = (s, XErr)).
Proof.
  intros OK NE tv. destruct (contig_range s OK NE) as (R1 & R2 & _).
  unfold do_load. cbv zeta.
  replace (first_version s <? init_ver s) with false by (symmetry; apply Z.ltb_ge; lia).
  rewrite andb_false_r.
  destruct (latest_version s <? v) eqn:C.
  - apply Z.ltb_lt in C. assert (tv = v) as ->.
    { unfold tv. destruct (v <=? 0) eqn:D; [lia|reflexivity]. }
    split; [lia|reflexivity].
  - fold tv. destruct (forest s) as [|p f] eqn:F; [congruence|]. rewrite <- F in OK, NE |- *. split.
    + intros In. destruct (proj2 (forest_ok_lookup (forest s) (init_ver s) tv OK)) as [r L].
      { split; [exact NE|exact In]. }
      exists r. rewrite L. split; reflexivity.
    + intros Out. replace (lookup tv (forest s)) with (@None (option node)); [reflexivity|].
      symmetry. apply (forest_ok_lookup_None (forest s) (init_ver s) tv OK). right.
      change (first_of (forest s)) with (first_version s).
      change (latest_of (forest s)) with (latest_version s). lia.
Qed.

(** positive target: the loaded version is the requested one *)
Lemma do_load_pos s v :
  0 < v ->
  do_load s v = (s, XErr) \/
  exists r, lookup v (forest s) = Some r /\
    do_load s v = (MState r v r (forest s) (init_ver s) (init_set s) (init_opt s),
                   XInt (latest_version s)).
Proof.
  intros P. unfold do_load. cbv zeta.
  destruct ((0 <? first_version s) && (first_version s <? init_ver s)); [left; reflexivity|].
  destruct (latest_version s <? v); [left; reflexivity|].
  replace (v <=? 0) with false by (symmetry; apply Z.leb_gt; exact P).
  destruct (forest s) as [|p f] eqn:F; [left; reflexivity|]. rewrite <- F.
  destruct (lookup v (forest s)) as [r|]; [|left; reflexivity].
  right. exists r. split; reflexivity.
Qed.

Lemma do_load_forest s v : forest (fst (do_load s v)) = forest s.
Proof.
  destruct (do_load_cases s v) as [E|[(_ & _ & E)|(tv & r & _ & E)]]; rewrite E; reflexivity.
Qed.

Lemma do_reopen_forest s : forest (fst (do_reopen s)) = forest s.
Proof.
  destruct (do_reopen_cases s) as [E|[(_ & E)|(tv & r & _ & E)]]; rewrite E; reflexivity.
Qed.

(** reopening under a good forest: the empty store restarts from scratch, otherwise the
    latest version is loaded; the retained versions are untouched *)
Lemma do_reopen_spec s :
  forest_ok (forest s) (init_ver s) ->
  (forest s = [] /\
   do_reopen s = (MState None 0 None [] (init_ver s) (init_opt s) (init_opt s), XOk)) \/
  (forest s <> [] /\ exists r,
   lookup (latest_version s) (forest s) = Some r /\
   do_reopen s = (MState r (latest_version s) r (forest s) (init_ver s) (init_opt s) (init_opt s),
                  XOk)).
Proof.
  intros OK. unfold do_reopen. cbv zeta.
  set (fresh := MState None 0 None (forest s) (init_ver s) (init_opt s) (init_opt s)).
  destruct (nil_or_not (forest s)) as [E|NE].
  - left. split; [exact E|]. rewrite (do_load_empty fresh 0 E). cbn. unfold fresh. rewrite E. reflexivity.
  - right. split; [exact NE|].
    destruct (do_load_nonempty fresh 0 OK NE) as [In _]. cbn [Z.leb Z.compare] in In.
    destruct (contig_range s OK NE) as (R1 & _).
    destruct In as (r & L & E);
      [change (first_version s <= latest_version s <= latest_version s); lia|]. exists r. split; [exact L|]. rewrite E. reflexivity.
Qed.

(** ** The two shapes of a contiguous state *)
Lemma contig_cases s :
  contig s ->
  (version s = 0 /\ forest s = [] /\ last_saved s = None /\ init_set s = init_opt s /\
   working_version s = (if init_opt s then init_ver s else 1) /\
   1 <= working_version s /\ init_ver s <= working_version s) \/
  (forest s <> [] /\ lookup (version s) (forest s) = Some (last_saved s) /\
   first_version s <= version s <= latest_version s /\ 1 <= first_version s /\
   working_version s = version s + 1).
Proof.
  intros (OK & [(V & F & L & I)|L] & IV0 & IV).
  - left. unfold working_version. rewrite V, I. cbn [Z.add Z.eqb Pos.eqb andb].
    repeat split; try assumption; destruct (init_opt s); lia.
  - right. assert (NE : forest s <> []).
    { intros E. rewrite E in L. discriminate. }
    destruct (proj1 (forest_ok_lookup (forest s) (init_ver s) (version s) OK)) as [_ R]; [eauto|].
    destruct (contig_range s OK NE) as (R1 & _).
    change (first_of (forest s)) with (first_version s) in R.
    change (latest_of (forest s)) with (latest_version s) in R.
    repeat split; try assumption; try lia.
    unfold working_version. replace (version s + 1 =? 1) with false by (symmetry; apply Z.eqb_neq; lia).
    reflexivity.
Qed.

Lemma contig_forest_ok s : contig s -> forest_ok (forest s) (init_ver s).
Proof. intros C. apply C. Qed.

(** contiguity does not mention the working tree *)
Lemma contig_same_but_root s s' : same_but_root s s' -> contig s -> contig s'.
Proof.
  intros (E1 & E2 & E3 & E4 & E5 & E6). unfold contig. rewrite E1, E2, E3, E4, E5, E6. tauto.
Qed.

Lemma do_set_same s k v : same_but_root s (fst (do_set s k v)).
Proof.
  unfold do_set, same_but_root. destruct (root s) as [n|]; [destruct (set n k v)|]; cbn; tauto.
Qed.

Lemma do_remove_same s k : same_but_root s (fst (do_remove s k)).
Proof.
  unfold do_remove, same_but_root. cbv zeta.
  destruct (root s) as [n|]; [destruct (rm_val (remove n k))|]; cbn; tauto.
Qed.

Lemma same_but_root_refl s : same_but_root s s.
Proof. unfold same_but_root. tauto. Qed.

Lemma same_but_root_trans s1 s2 s3 : same_but_root s1 s2 -> same_but_root s2 s3 -> same_but_root s1 s3.
Proof.
  unfold same_but_root. intros (A1 & A2 & A3 & A4 & A5 & A6) (B1 & B2 & B3 & B4 & B5 & B6).
  repeat split; congruence.
Qed.

Section WithHash.
  Variable H : bytes -> bytes.

  (** *** Commit numbering *)
  Lemma do_save_numbering s :
    contig s -> lookup (working_version s) (forest s) = None ->
    (forest s = [] /\ version s = 0 /\ working_version s = (if init_opt s then init_ver s else 1)) \/
    (forest s <> [] /\ version s = latest_version s /\ working_version s = latest_version s + 1).
  Proof.
    intros C N. destruct (contig_cases s C) as [(V & F & _ & _ & W & _)|(NE & L & R & P & W)].
    - left. auto.
    - right. split; [exact NE|].
      apply (forest_ok_lookup_None (forest s) (init_ver s) _ (contig_forest_ok s C)) in N.
      change (first_of (forest s)) with (first_version s) in N.
      change (latest_of (forest s)) with (latest_version s) in N.
      destruct N as [N|N]; [congruence|]. lia.
  Qed.

  Lemma do_save_contig s : contig s -> contig (fst (do_save H s)).
  Proof.
    intros C. pose proof C as (OK & VL & IV0 & IV).
    destruct (lookup (working_version s) (forest s)) as [e|] eqn:L.
    - destruct (do_save_existing H s e L) as [E|E]; rewrite E; cbn [fst]; apply contig_intro; auto.
      right. destruct (contig_cases s C) as [(_ & F & _)|(_ & L' & _)]; [|exact L'].
      rewrite F in L. discriminate.
    - destruct (do_save_new H s L) as (r' & _ & E). rewrite E. cbn [fst].
      apply contig_intro; auto.
      + destruct (do_save_numbering s C L) as [(F & V & W)|(NE & V & W)].
        * destruct (contig_cases s C) as [(_ & _ & _ & _ & _ & W1 & W2)|(NE & _)]; [|congruence].
          apply forest_ok_snoc; auto. intros NE. congruence.
        * destruct (contig_range s OK NE) as (R1 & R2 & _).
          apply forest_ok_snoc; auto; try lia.
      + right. rewrite (lookup_snoc _ _ _ _ L), Z.eqb_refl. reflexivity.
  Qed.

  Lemma do_load_contig s v : contig s -> contig (fst (do_load s v)).
  Proof.
    intros C. pose proof C as (OK & VL & IV0 & IV).
    destruct (do_load_cases s v) as [E|[(_ & _ & E)|(tv & r & L & E)]]; rewrite E; cbn [fst]; auto.
    apply contig_intro; auto.
  Qed.

  Lemma do_prune_contig s n : contig s -> n < version s -> contig (fst (do_prune s n)).
  Proof.
    intros C Hn. pose proof C as (OK & VL & IV0 & IV).
    destruct (do_prune_cases s n) as [[_ E]|[_ E]]; rewrite E; cbn [fst]; auto.
    apply contig_intro; auto.
    - apply forest_ok_filter_gt, OK.
    - destruct VL as [(V & F & LS & I)|L].
      + left. rewrite F. cbn [filter]. auto.
      + right. rewrite lookup_filter_gt.
        replace (n <? version s) with true by (symmetry; apply Z.ltb_lt; exact Hn). exact L.
  Qed.

  Lemma do_lvfo_contig s v : contig s -> 1 <= v -> contig (fst (do_lvfo s v)).
  Proof.
    intros C Hv. pose proof C as (OK & VL & IV0 & IV). unfold do_lvfo.
    destruct (do_load_pos s v) as [E|(r & L & E)]; [lia| |]; rewrite E; cbn [fst]; auto.
    cbn [root version last_saved forest init_ver init_set init_opt].
    apply contig_intro; auto.
    - apply forest_ok_filter_le, OK.
    - right. rewrite lookup_filter_le, Z.leb_refl. exact L.
  Qed.

  Lemma do_reopen_contig s : contig s -> contig (fst (do_reopen s)).
  Proof.
    intros C. pose proof C as (OK & VL & IV0 & IV).
    destruct (do_reopen_spec s OK) as [(F & E)|(NE & r & L & E)]; rewrite E; cbn [fst];
      apply contig_intro; auto.
    - apply forest_ok_nil.
    - left. auto.
  Qed.

  Theorem step_contig s o : contig s -> in_contract s o -> contig (fst (step H s o)).
  Proof.
    intros C IC. destruct o as [k v|k|k| | | |v|n|v|t r|k v|v| | | | | ]; cbn [step in_contract] in *.
    - eapply contig_same_but_root; [apply do_set_same|exact C].
    - exact C.
    - eapply contig_same_but_root; [apply do_remove_same|exact C].
    - apply do_save_contig, C.
    - cbn [fst]. eapply contig_same_but_root; [|exact C]. unfold same_but_root. cbn. tauto.
    - apply do_reopen_contig, C.
    - apply do_load_contig, C.
    - apply do_prune_contig; assumption.
    - apply do_lvfo_contig; assumption.
    - destruct t as [|v]; [exact C|]. destruct (lookup v (forest s)); exact C.
    - destruct (lookup v (forest s)) as [[n|]|]; exact C.
    - exact C.
    - exact C.
    - exact C.
    - exact C.
    - exact C.
    - exact C.
  Qed.

  (** *** Histories all of whose steps are in contract *)
  Fixpoint run_ok (s : mstate) (ops : list op) : Prop :=
    match ops with
    | [] => True
    | o :: rest => in_contract s o /\ run_ok (fst (step H s o)) rest
    end.

  Fixpoint run_okb (s : mstate) (ops : list op) : bool :=
    match ops with
    | [] => true
    | o :: rest => in_contractb s o && run_okb (fst (step H s o)) rest
    end.

  Lemma run_okb_iff ops : forall s, run_okb s ops = true <-> run_ok s ops.
  Proof.
    induction ops as [|o ops IH]; intros s; cbn [run_okb run_ok]; [tauto|].
    rewrite andb_true_iff, in_contractb_iff, IH. tauto.
  Qed.

  Lemma run_cons s o ops :
    run H s (o :: ops) =
      (fst (run H (fst (step H s o)) ops), snd (step H s o) :: snd (run H (fst (step H s o)) ops)).
  Proof.
    cbn [run]. destruct (step H s o) as [s1 x]. cbn [fst snd].
    destruct (run H s1 ops) as [s2 xs]. reflexivity.
  Qed.

  Lemma run_app s ops1 ops2 :
    run H s (ops1 ++ ops2) =
      (fst (run H (fst (run H s ops1)) ops2),
       snd (run H s ops1) ++ snd (run H (fst (run H s ops1)) ops2)).
  Proof.
    revert s. induction ops1 as [|o ops1 IH]; intros s.
    - cbn [app run fst snd]. destruct (run H s ops2); reflexivity.
    - change ((o :: ops1) ++ ops2) with (o :: (ops1 ++ ops2)). rewrite !run_cons, IH. reflexivity.
  Qed.

  Theorem run_contig ops : forall s, contig s -> run_ok s ops -> contig (fst (run H s ops)).
  Proof.
    induction ops as [|o ops IH]; intros s C R; [exact C|].
    rewrite run_cons. cbn [fst]. destruct R as [IC R]. apply IH; [|exact R].
    apply step_contig; assumption.
  Qed.

  Theorem reachable_contig iv b ops :
    init_ok iv b -> run_ok (init_state iv b) ops -> contig (fst (run H (init_state iv b) ops)).
  Proof. intros I R. apply run_contig; [apply contig_init, I|exact R]. Qed.
End WithHash.
