(** Version bookkeeping of the MutableTree state machine (MTree.v) under the usage
    contract: commits are numbered consecutively, the retained versions form a contiguous
    range (C14); rollback / LoadVersionForOverwriting forget exactly the later history (C09);
    pruning removes exactly a prefix of the range and leaves every later version untouched
    (C04). *)
From IAVL Require Import Bytes Varint Tree VMap TreeFacts MTree MTreeFacts.
Local Open Scope Z_scope.

(** ** Consecutive integer lists *)
Fixpoint zseq (a : Z) (n : nat) : list Z :=
  match n with O => [] | S n => a :: zseq (a + 1) n end.

(** [lo; lo+1; ...; hi] (empty when hi < lo) *)
Definition zrange (lo hi : Z) : list Z := zseq lo (Z.to_nat (hi - lo + 1)).

Definition consecutive (l : list Z) : Prop := l = zseq (hd 0 l) (length l).

Definition consecutiveb (l : list Z) : bool :=
  if list_eq_dec Z.eq_dec l (zseq (hd 0 l) (length l)) then true else false.

Lemma consecutiveb_sound l : consecutiveb l = true -> consecutive l.
Proof. unfold consecutiveb, consecutive. destruct (list_eq_dec _ _ _); [auto|discriminate]. Qed.

Lemma zseq_length a n : length (zseq a n) = n.
Proof. revert a. induction n as [|n IH]; intros a; cbn [zseq length]; [reflexivity|]. rewrite IH. reflexivity. Qed.

Lemma consecutive_zseq a n : consecutive (zseq a n).
Proof.
  unfold consecutive. rewrite zseq_length. destruct n as [|n]; cbn [zseq hd]; reflexivity.
Qed.

Lemma consecutive_iff l : consecutive l <-> exists a n, l = zseq a n.
Proof.
  split.
  - intros C. exists (hd 0 l), (length l). exact C.
  - intros (a & n & ->). apply consecutive_zseq.
Qed.

Lemma In_zseq v a n : In v (zseq a n) <-> a <= v < a + Z.of_nat n.
Proof.
  revert a. induction n as [|n IH]; intros a; cbn [zseq In].
  - lia.
  - rewrite IH. lia.
Qed.

Lemma In_zrange v lo hi : In v (zrange lo hi) <-> lo <= v <= hi.
Proof. unfold zrange. rewrite In_zseq. lia. Qed.

Lemma zseq_snoc a n : zseq a (S n) = zseq a n ++ [a + Z.of_nat n].
Proof.
  revert a. induction n as [|n IH]; intros a.
  - cbn [zseq app]. f_equal. lia.
  - change (zseq a (S (S n))) with (a :: zseq (a + 1) (S n)). rewrite IH.
    cbn [zseq app]. do 2 f_equal. f_equal. lia.
Qed.

Lemma zseq_last a n d : last (zseq a (S n)) d = a + Z.of_nat n.
Proof. rewrite zseq_snoc. apply last_last. Qed.

Lemma filter_gt_zseq n a k :
  filter (fun x => n <? x) (zseq a k) =
  zseq (Z.max a (n + 1)) (Z.to_nat (a + Z.of_nat k - Z.max a (n + 1))).
Proof.
  revert a. induction k as [|k IH]; intros a.
  - cbn [zseq filter]. replace (Z.to_nat _) with O by lia. reflexivity.
  - cbn [zseq filter]. rewrite IH. destruct (n <? a) eqn:E.
    + apply Z.ltb_lt in E.
      replace (Z.max a (n + 1)) with a by lia.
      replace (Z.max (a + 1) (n + 1)) with (a + 1) by lia.
      replace (Z.to_nat (a + Z.of_nat (S k) - a)) with (S k) by lia.
      replace (Z.to_nat (a + 1 + Z.of_nat k - (a + 1))) with k by lia.
      reflexivity.
    + apply Z.ltb_ge in E.
      replace (Z.max (a + 1) (n + 1)) with (n + 1) by lia.
      replace (Z.max a (n + 1)) with (n + 1) by lia.
      f_equal. lia.
Qed.

Lemma filter_le_zseq v a k :
  filter (fun x => x <=? v) (zseq a k) =
  zseq a (Z.to_nat (Z.min (a + Z.of_nat k) (v + 1) - a)).
Proof.
  revert a. induction k as [|k IH]; intros a.
  - cbn [zseq filter]. replace (Z.to_nat _) with O by lia. reflexivity.
  - cbn [zseq filter]. rewrite IH. destruct (a <=? v) eqn:E.
    + apply Z.leb_le in E.
      replace (Z.to_nat (Z.min (a + Z.of_nat (S k)) (v + 1) - a))
        with (S (Z.to_nat (Z.min (a + 1 + Z.of_nat k) (v + 1) - (a + 1)))) by lia.
      reflexivity.
    + apply Z.leb_gt in E.
      replace (Z.to_nat (Z.min (a + 1 + Z.of_nat k) (v + 1) - (a + 1))) with O by lia.
      replace (Z.to_nat (Z.min (a + Z.of_nat (S k)) (v + 1) - a)) with O by lia.
      reflexivity.
Qed.

Lemma map_fst_filter {A} (f : Z -> bool) (l : list (Z * A)) :
  map fst (filter (fun p => f (fst p)) l) = filter f (map fst l).
Proof.
  induction l as [|[w a] l IH]; cbn [filter map fst]; [reflexivity|].
  destruct (f w); cbn [map fst]; rewrite IH; reflexivity.
Qed.

Lemma filter_all {A} (f : A -> bool) l : (forall x, In x l -> f x = true) -> filter f l = l.
Proof.
  induction l as [|a l IH]; cbn [filter]; intros F; [reflexivity|].
  rewrite (F a (or_introl eq_refl)). f_equal. apply IH. intros x I. apply F. right; exact I.
Qed.

Lemma filter_filter {A} (f g : A -> bool) l :
  filter f (filter g l) = filter (fun x => g x && f x) l.
Proof.
  induction l as [|a l IH]; cbn [filter]; [reflexivity|].
  destruct (g a); cbn [filter andb]; [destruct (f a)|]; rewrite IH; reflexivity.
Qed.

Lemma filter_ext_bool {A} (f g : A -> bool) l : (forall x, f x = g x) -> filter f l = filter g l.
Proof.
  intros E. induction l as [|a l IH]; cbn [filter]; [reflexivity|]. rewrite E, IH. reflexivity.
Qed.

(** repeated / partial pruning composes *)
Lemma filter_gt_gt {A} n1 n2 (f : list (Z * A)) :
  filter (fun p => n2 <? fst p) (filter (fun p => n1 <? fst p) f) =
  filter (fun p => Z.max n1 n2 <? fst p) f.
Proof.
  rewrite filter_filter. apply filter_ext_bool. intros [w a]. cbn [fst].
  destruct (n1 <? w) eqn:E1, (n2 <? w) eqn:E2, (Z.max n1 n2 <? w) eqn:E3; cbn [andb];
    try reflexivity; lia.
Qed.

Lemma filter_le_le {A} v w (f : list (Z * A)) :
  v <= w ->
  filter (fun p => fst p <=? v) (filter (fun p => fst p <=? w) f) =
  filter (fun p => fst p <=? v) f.
Proof.
  intros L. rewrite filter_filter. apply filter_ext_bool. intros [x a]. cbn [fst].
  destruct (x <=? w) eqn:E1, (x <=? v) eqn:E2; cbn [andb]; try reflexivity; lia.
Qed.

(** ** [latest_version] is the last retained version *)
Definition latest_of {A} (f : list (Z * A)) : Z := fold_left (fun _ p => fst p) f 0.

Lemma fold_latest_last {A} (f : list (Z * A)) d :
  fold_left (fun _ p => fst p) f d = last (map fst f) d.
Proof.
  destruct f as [|p f] using rev_ind; [reflexivity|].
  rewrite fold_left_app, map_app. cbn [fold_left map]. rewrite last_last. reflexivity.
Qed.

Lemma latest_version_last s : latest_version s = last (available s) 0.
Proof. unfold latest_version, available. apply fold_latest_last. Qed.

Lemma latest_snoc {A} (f : list (Z * A)) w a d :
  fold_left (fun _ p => fst p) (f ++ [(w, a)]) d = w.
Proof. rewrite fold_left_app. reflexivity. Qed.

Lemma version_exists_In s v : version_exists s v = true <-> In v (available s).
Proof.
  unfold version_exists, available. destruct (lookup v (forest s)) as [t|] eqn:L.
  - split; [intros _|reflexivity]. apply lookup_In in L.
    apply in_map_iff. exists (v, t). split; [reflexivity|exact L].
  - split; [discriminate|]. intros I. exfalso. exact (lookup_None _ _ L I).
Qed.

Lemma lookup_Some_iff_In {A} v (f : list (Z * A)) :
  (exists t, lookup v f = Some t) <-> In v (map fst f).
Proof.
  destruct (lookup v f) as [t|] eqn:L.
  - split; [intros _|intros _; eauto]. apply lookup_In in L.
    apply in_map_iff. exists (v, t). split; [reflexivity|exact L].
  - split; [intros [t E]; discriminate|]. intros I. exfalso. exact (lookup_None _ _ L I).
Qed.

Lemma lookup_None_iff {A} v (f : list (Z * A)) : lookup v f = None <-> ~ In v (map fst f).
Proof.
  split; [apply lookup_None|]. intros NI. destruct (lookup v f) as [t|] eqn:L; [|reflexivity].
  exfalso. apply NI. apply lookup_Some_iff_In. eauto.
Qed.

(** ** The usage contract and the contiguity invariant *)

(** Never prune the version the working tree is based on (or a later one); never roll back to
    "version 0" (LoadVersionForOverwriting(0) would load the latest version and then delete
    every version).  Everything else is unrestricted. *)
Definition in_contract (s : mstate) (o : op) : Prop :=
  match o with
  | OPrune n => n < version s
  | OLvfo v => 1 <= v
  | _ => True
  end.

Definition in_contractb (s : mstate) (o : op) : bool :=
  match o with
  | OPrune n => n <? version s
  | OLvfo v => 1 <=? v
  | _ => true
  end.

Lemma in_contractb_iff s o : in_contractb s o = true <-> in_contract s o.
Proof.
  destruct o; cbn [in_contractb in_contract]; try tauto.
  - apply Z.ltb_lt.
  - apply Z.leb_le.
Qed.

(** Side condition on the initial state: an explicitly set initial version is positive; without
    the option the configured value is the default 0 (or 1, which means the same). *)
Definition init_ok (iv : Z) (ivset : bool) : Prop :=
  if ivset then 0 < iv else 0 <= iv <= 1.

Definition first_of {A} (f : list (Z * A)) : Z := match f with [] => 0 | (v, _) :: _ => v end.

Lemma first_version_of s : first_version s = first_of (forest s).
Proof. reflexivity. Qed.
Lemma latest_version_of s : latest_version s = latest_of (forest s).
Proof. reflexivity. Qed.

(** the retained versions are consecutive, positive and not below the initial version *)
Definition forest_ok {A} (f : list (Z * A)) (iv : Z) : Prop :=
  consecutive (map fst f) /\ Forall (fun v => 1 <= v /\ iv <= v) (map fst f).

Definition contig (s : mstate) : Prop :=
  forest_ok (forest s) (init_ver s) /\
  ((version s = 0 /\ forest s = [] /\ last_saved s = None /\ init_set s = init_opt s) \/
   lookup (version s) (forest s) = Some (last_saved s)) /\
  0 <= init_ver s /\
  (if init_opt s then 0 < init_ver s else init_ver s <= 1).

Lemma contig_intro r ver ls f iv (a b : bool) :
  forest_ok f iv ->
  ((ver = 0 /\ f = [] /\ ls = None /\ a = b) \/ lookup ver f = Some ls) ->
  0 <= iv -> (if b then 0 < iv else iv <= 1) ->
  contig (MState r ver ls f iv a b).
Proof. intros. unfold contig. cbn [forest init_ver version last_saved init_set init_opt]. auto. Qed.

Lemma forest_ok_nil {A} iv : forest_ok (@nil (Z * A)) iv.
Proof. split; [reflexivity|constructor]. Qed.

Lemma contig_init iv b : init_ok iv b -> contig (init_state iv b).
Proof.
  intros I. unfold init_state. apply contig_intro.
  - apply forest_ok_nil.
  - left. auto.
  - unfold init_ok in I. destruct b; lia.
  - unfold init_ok in I. destruct b; lia.
Qed.

(** *** The range described by a good forest *)
Lemma forest_ok_range {A} (f : list (Z * A)) iv :
  forest_ok f iv -> f <> [] ->
  1 <= first_of f <= latest_of f /\ iv <= first_of f /\
  map fst f = zrange (first_of f) (latest_of f).
Proof.
  intros [C F] NE. destruct f as [|[w a] f]; [congruence|]. clear NE.
  unfold latest_of. rewrite fold_latest_last. cbn [first_of map fst].
  unfold consecutive in C. cbn [map fst hd length] in C.
  inversion F as [|x xs [P1 P2] _]; subst. cbn [fst] in *.
  rewrite C. rewrite zseq_last. unfold zrange.
  replace (Z.to_nat (w + Z.of_nat (length (map fst f)) - w + 1)) with (S (length (map fst f))) by lia.
  repeat split; try lia.
Qed.

Lemma contig_range s :
  forest_ok (forest s) (init_ver s) -> forest s <> [] ->
  1 <= first_version s <= latest_version s /\ init_ver s <= first_version s /\
  available s = zrange (first_version s) (latest_version s).
Proof. apply forest_ok_range. Qed.

Lemma nil_or_not {A} (l : list A) : l = [] \/ l <> [].
Proof. destruct l; [left; reflexivity|right; discriminate]. Qed.

Lemma forest_ok_In {A} (f : list (Z * A)) iv v :
  forest_ok f iv -> (In v (map fst f) <-> f <> [] /\ first_of f <= v <= latest_of f).
Proof.
  intros OK. destruct (nil_or_not f) as [E|NE].
  - subst f. cbn [map In]. split; [tauto|]. intros [C _]. congruence.
  - destruct (forest_ok_range f iv OK NE) as (_ & _ & R). rewrite R, In_zrange. tauto.
Qed.

Lemma forest_ok_lookup {A} (f : list (Z * A)) iv v :
  forest_ok f iv ->
  ((exists t, lookup v f = Some t) <-> f <> [] /\ first_of f <= v <= latest_of f).
Proof. intros OK. rewrite lookup_Some_iff_In. exact (forest_ok_In f iv v OK). Qed.

Lemma forest_ok_lookup_None {A} (f : list (Z * A)) iv v :
  forest_ok f iv ->
  (lookup v f = None <-> f = [] \/ v < first_of f \/ latest_of f < v).
Proof.
  intros OK. rewrite lookup_None_iff, (forest_ok_In f iv v OK).
  destruct (nil_or_not f) as [E|NE].
  - split; [auto|]. intros _ [C _]. congruence.
  - split.
    + intros N. right. destruct (Z.ltb_spec v (first_of f)) as [L1|L1]; [left; exact L1|].
      right. destruct (Z.ltb_spec (latest_of f) v) as [L2|L2]; [exact L2|].
      exfalso. apply N. split; [exact NE|lia].
    + intros [C|C] [_ R]; [congruence|lia].
Qed.

Lemma forest_ok_filter_gt {A} (f : list (Z * A)) iv n :
  forest_ok f iv -> forest_ok (filter (fun p => n <? fst p) f) iv.
Proof.
  intros [C F]. split.
  - rewrite (map_fst_filter (fun x => n <? x)). apply consecutive_iff.
    rewrite C, filter_gt_zseq. eauto.
  - rewrite (map_fst_filter (fun x => n <? x)). apply Forall_filter_keep, F.
Qed.

Lemma forest_ok_filter_le {A} (f : list (Z * A)) iv n :
  forest_ok f iv -> forest_ok (filter (fun p => fst p <=? n) f) iv.
Proof.
  intros [C F]. split.
  - rewrite (map_fst_filter (fun x => x <=? n)). apply consecutive_iff.
    rewrite C, filter_le_zseq. eauto.
  - rewrite (map_fst_filter (fun x => x <=? n)). apply Forall_filter_keep, F.
Qed.

(** appending the successor of the latest version (or any admissible first version) *)
Lemma forest_ok_snoc {A} (f : list (Z * A)) iv w (a : A) :
  forest_ok f iv -> 1 <= w -> iv <= w -> (f <> [] -> w = latest_of f + 1) ->
  forest_ok (f ++ [(w, a)]) iv.
Proof.
  intros OK W1 W2 WL. split.
  - rewrite map_app. cbn [map fst]. destruct (nil_or_not f) as [E|NE]; [subst f; reflexivity|].
    destruct (forest_ok_range f iv OK NE) as (R1 & _ & R). rewrite R. unfold zrange.
    apply consecutive_iff. exists (first_of f), (S (Z.to_nat (latest_of f - first_of f + 1))).
    rewrite zseq_snoc. f_equal. f_equal. specialize (WL NE). lia.
  - rewrite map_app. apply Forall_app. split; [apply OK|]. cbn [map fst]. constructor; [lia|constructor].
Qed.

(** ** LoadVersion against the range *)
Lemma do_load_empty s v :
  forest s = [] -> do_load s v = (s, if v <=? 0 then XInt 0 else XErr).
Proof.
  intros E. unfold do_load, first_version, latest_version. cbv zeta. rewrite E.
  cbn [fold_left]. change (0 <? 0) with false. cbn [andb].
  destruct (0 <? v) eqn:C1; destruct (v <=? 0) eqn:C2; try reflexivity; lia.
Qed.

Lemma do_load_nonempty s v :
  forest_ok (forest s) (init_ver s) -> forest s <> [] ->
  let tv := if v <=? 0 then latest_version s else v in
  (first_version s <= tv <= latest_version s ->
     exists r, lookup tv (forest s) = Some r /\
       do_load s v = (MState r tv r (forest s) (init_ver s) (init_set s) (init_opt s),
                      XInt (latest_version s))) /\
  (~ first_version s <= tv <= latest_version s -> do_load s v = (s, XErr)).
Proof.
  intros OK NE tv. destruct (contig_range s OK NE) as (R1 & R2 & _).
  unfold do_load. cbv zeta.
  replace (first_version s <? init_ver s) with false by (symmetry; apply Z.ltb_ge; lia).
  rewrite andb_false_r.
  destruct (latest_version s <? v) eqn:C.
  - apply Z.ltb_lt in C. assert (tv = v) as ->.
    { unfold tv. destruct (v <=? 0) eqn:D; [lia|reflexivity]. }
    split; [lia|reflexivity].
  - fold tv. destruct (forest s) as [|p f] eqn:F; [congruence|]. rewrite <- F in OK, NE |- *. split.
    + intros In. destruct (proj2 (forest_ok_lookup (forest s) (init_ver s) tv OK)) as [r L].
      { split; [exact NE|exact In]. }
      exists r. rewrite L. split; reflexivity.
    + intros Out. replace (lookup tv (forest s)) with (@None (option node)); [reflexivity|].
      symmetry. apply (forest_ok_lookup_None (forest s) (init_ver s) tv OK). right.
      change (first_of (forest s)) with (first_version s).
      change (latest_of (forest s)) with (latest_version s). lia.
Qed.

(** positive target: the loaded version is the requested one *)
Lemma do_load_pos s v :
  0 < v ->
  do_load s v = (s, XErr) \/
  exists r, lookup v (forest s) = Some r /\
    do_load s v = (MState r v r (forest s) (init_ver s) (init_set s) (init_opt s),
                   XInt (latest_version s)).
Proof.
  intros P. unfold do_load. cbv zeta.
  destruct ((0 <? first_version s) && (first_version s <? init_ver s)); [left; reflexivity|].
  destruct (latest_version s <? v); [left; reflexivity|].
  replace (v <=? 0) with false by (symmetry; apply Z.leb_gt; exact P).
  destruct (forest s) as [|p f] eqn:F; [left; reflexivity|]. rewrite <- F.
  destruct (lookup v (forest s)) as [r|]; [|left; reflexivity].
  right. exists r. split; reflexivity.
Qed.

Lemma do_load_forest s v : forest (fst (do_load s v)) = forest s.
Proof.
  destruct (do_load_cases s v) as [E|[(_ & _ & E)|(tv & r & _ & E)]]; rewrite E; reflexivity.
Qed.

Lemma do_reopen_forest s : forest (fst (do_reopen s)) = forest s.
Proof.
  destruct (do_reopen_cases s) as [E|[(_ & E)|(tv & r & _ & E)]]; rewrite E; reflexivity.
Qed.

(** reopening under a good forest: the empty store restarts from scratch, otherwise the
    latest version is loaded; the retained versions are untouched *)
Lemma do_reopen_spec s :
  forest_ok (forest s) (init_ver s) ->
  (forest s = [] /\
   do_reopen s = (MState None 0 None [] (init_ver s) (init_opt s) (init_opt s), XOk)) \/
  (forest s <> [] /\ exists r,
   lookup (latest_version s) (forest s) = Some r /\
   do_reopen s = (MState r (latest_version s) r (forest s) (init_ver s) (init_opt s) (init_opt s),
                  XOk)).
Proof.
  intros OK. unfold do_reopen. cbv zeta.
  set (fresh := MState None 0 None (forest s) (init_ver s) (init_opt s) (init_opt s)).
  destruct (nil_or_not (forest s)) as [E|NE].
  - left. split; [exact E|]. rewrite (do_load_empty fresh 0 E). cbn. unfold fresh. rewrite E. reflexivity.
  - right. split; [exact NE|].
    destruct (do_load_nonempty fresh 0 OK NE) as [In _]. cbn [Z.leb Z.compare] in In.
    destruct (contig_range s OK NE) as (R1 & _).
    destruct In as (r & L & E);
      [change (first_version s <= latest_version s <= latest_version s); lia|]. exists r. split; [exact L|]. rewrite E. reflexivity.
Qed.

(** ** The two shapes of a contiguous state *)
Lemma contig_cases s :
  contig s ->
  (version s = 0 /\ forest s = [] /\ last_saved s = None /\ init_set s = init_opt s /\
   working_version s = (if init_opt s then init_ver s else 1) /\
   1 <= working_version s /\ init_ver s <= working_version s) \/
  (forest s <> [] /\ lookup (version s) (forest s) = Some (last_saved s) /\
   first_version s <= version s <= latest_version s /\ 1 <= first_version s /\
   working_version s = version s + 1).
Proof.
  intros (OK & [(V & F & L & I)|L] & IV0 & IV).
  - left. unfold working_version. rewrite V, I. cbn [Z.add Z.eqb Pos.eqb andb].
    repeat split; try assumption; destruct (init_opt s); lia.
  - right. assert (NE : forest s <> []).
    { intros E. rewrite E in L. discriminate. }
    destruct (proj1 (forest_ok_lookup (forest s) (init_ver s) (version s) OK)) as [_ R]; [eauto|].
    destruct (contig_range s OK NE) as (R1 & _).
    change (first_of (forest s)) with (first_version s) in R.
    change (latest_of (forest s)) with (latest_version s) in R.
    repeat split; try assumption; try lia.
    unfold working_version. replace (version s + 1 =? 1) with false by (symmetry; apply Z.eqb_neq; lia).
    reflexivity.
Qed.

Lemma contig_forest_ok s : contig s -> forest_ok (forest s) (init_ver s).
Proof. intros C. apply C. Qed.

(** contiguity does not mention the working tree *)
Lemma contig_same_but_root s s' : same_but_root s s' -> contig s -> contig s'.
Proof.
  intros (E1 & E2 & E3 & E4 & E5 & E6). unfold contig. rewrite E1, E2, E3, E4, E5, E6. tauto.
Qed.

Lemma do_set_same s k v : same_but_root s (fst (do_set s k v)).
Proof.
  unfold do_set, same_but_root. destruct (root s) as [n|]; [destruct (set n k v)|]; cbn; tauto.
Qed.

Lemma do_remove_same s k : same_but_root s (fst (do_remove s k)).
Proof.
  unfold do_remove, same_but_root. cbv zeta.
  destruct (root s) as [n|]; [destruct (rm_val (remove n k))|]; cbn; tauto.
Qed.

Lemma same_but_root_refl s : same_but_root s s.
Proof. unfold same_but_root. tauto. Qed.

Lemma same_but_root_trans s1 s2 s3 : same_but_root s1 s2 -> same_but_root s2 s3 -> same_but_root s1 s3.
Proof.
  unfold same_but_root. intros (A1 & A2 & A3 & A4 & A5 & A6) (B1 & B2 & B3 & B4 & B5 & B6).
  repeat split; congruence.
Qed.

Section WithHash.
  Variable H : bytes -> bytes.

  (** *** Commit numbering *)
  Lemma do_save_numbering s :
    contig s -> lookup (working_version s) (forest s) = None ->
    (forest s = [] /\ version s = 0 /\ working_version s = (if init_opt s then init_ver s else 1)) \/
    (forest s <> [] /\ version s = latest_version s /\ working_version s = latest_version s + 1).
  Proof.
    intros C N. destruct (contig_cases s C) as [(V & F & _ & _ & W & _)|(NE & L & R & P & W)].
    - left. auto.
    - right. split; [exact NE|].
      apply (forest_ok_lookup_None (forest s) (init_ver s) _ (contig_forest_ok s C)) in N.
      change (first_of (forest s)) with (first_version s) in N.
      change (latest_of (forest s)) with (latest_version s) in N.
      destruct N as [N|N]; [congruence|]. lia.
  Qed.

  Lemma do_save_contig s : contig s -> contig (fst (do_save H s)).
  Proof.
    intros C. pose proof C as (OK & VL & IV0 & IV).
    destruct (lookup (working_version s) (forest s)) as [e|] eqn:L.
    - destruct (do_save_existing H s e L) as [E|E]; rewrite E; cbn [fst]; apply contig_intro; auto.
      right. destruct (contig_cases s C) as [(_ & F & _)|(_ & L' & _)]; [|exact L'].
      rewrite F in L. discriminate.
    - destruct (do_save_new H s L) as (r' & _ & E). rewrite E. cbn [fst].
      apply contig_intro; auto.
      + destruct (do_save_numbering s C L) as [(F & V & W)|(NE & V & W)].
        * destruct (contig_cases s C) as [(_ & _ & _ & _ & _ & W1 & W2)|(NE & _)]; [|congruence].
          apply forest_ok_snoc; auto. intros NE. congruence.
        * destruct (contig_range s OK NE) as (R1 & R2 & _).
          apply forest_ok_snoc; auto; try lia.
      + right. rewrite (lookup_snoc _ _ _ _ L), Z.eqb_refl. reflexivity.
  Qed.

  Lemma do_load_contig s v : contig s -> contig (fst (do_load s v)).
  Proof.
    intros C. pose proof C as (OK & VL & IV0 & IV).
    destruct (do_load_cases s v) as [E|[(_ & _ & E)|(tv & r & L & E)]]; rewrite E; cbn [fst]; auto.
    apply contig_intro; auto.
  Qed.

  Lemma do_prune_contig s n : contig s -> n < version s -> contig (fst (do_prune s n)).
  Proof.
    intros C Hn. pose proof C as (OK & VL & IV0 & IV).
    destruct (do_prune_cases s n) as [[_ E]|[_ E]]; rewrite E; cbn [fst]; auto.
    apply contig_intro; auto.
    - apply forest_ok_filter_gt, OK.
    - destruct VL as [(V & F & LS & I)|L].
      + left. rewrite F. cbn [filter]. auto.
      + right. rewrite lookup_filter_gt.
        replace (n <? version s) with true by (symmetry; apply Z.ltb_lt; exact Hn). exact L.
  Qed.

  Lemma do_lvfo_contig s v : contig s -> 1 <= v -> contig (fst (do_lvfo s v)).
  Proof.
    intros C Hv. pose proof C as (OK & VL & IV0 & IV). unfold do_lvfo.
    destruct (do_load_pos s v) as [E|(r & L & E)]; [lia| |]; rewrite E; cbn [fst]; auto.
    cbn [root version last_saved forest init_ver init_set init_opt].
    apply contig_intro; auto.
    - apply forest_ok_filter_le, OK.
    - right. rewrite lookup_filter_le, Z.leb_refl. exact L.
  Qed.

  Lemma do_reopen_contig s : contig s -> contig (fst (do_reopen s)).
  Proof.
    intros C. pose proof C as (OK & VL & IV0 & IV).
    destruct (do_reopen_spec s OK) as [(F & E)|(NE & r & L & E)]; rewrite E; cbn [fst].
    - apply contig_intro; [apply forest_ok_nil|left; repeat split; reflexivity|exact IV0|exact IV].
    - apply contig_intro; [exact OK|right; exact L|exact IV0|exact IV].
  Qed.

  Theorem step_contig s o : contig s -> in_contract s o -> contig (fst (step H s o)).
  Proof.
    intros C IC. destruct o as [k v|k|k| | | |v|n|v|t r|k v|v| | | | | ]; cbn [step in_contract] in *.
    - eapply contig_same_but_root; [apply do_set_same|exact C].
    - exact C.
    - eapply contig_same_but_root; [apply do_remove_same|exact C].
    - apply do_save_contig, C.
    - cbn [fst]. eapply contig_same_but_root; [|exact C]. unfold same_but_root. cbn. tauto.
    - apply do_reopen_contig, C.
    - apply do_load_contig, C.
    - apply do_prune_contig; assumption.
    - apply do_lvfo_contig; assumption.
    - destruct t as [|v]; [exact C|]. destruct (lookup v (forest s)); exact C.
    - destruct (lookup v (forest s)) as [[n|]|]; exact C.
    - exact C.
    - exact C.
    - exact C.
    - exact C.
    - exact C.
    - exact C.
  Qed.

  (** *** Histories all of whose steps are in contract *)
  Fixpoint run_ok (s : mstate) (ops : list op) : Prop :=
    match ops with
    | [] => True
    | o :: rest => in_contract s o /\ run_ok (fst (step H s o)) rest
    end.

  Fixpoint run_okb (s : mstate) (ops : list op) : bool :=
    match ops with
    | [] => true
    | o :: rest => in_contractb s o && run_okb (fst (step H s o)) rest
    end.

  Lemma run_okb_iff ops : forall s, run_okb s ops = true <-> run_ok s ops.
  Proof.
    induction ops as [|o ops IH]; intros s; cbn [run_okb run_ok]; [tauto|].
    rewrite andb_true_iff, in_contractb_iff, IH. tauto.
  Qed.

  Lemma run_cons s o ops :
    run H s (o :: ops) =
      (fst (run H (fst (step H s o)) ops), snd (step H s o) :: snd (run H (fst (step H s o)) ops)).
  Proof.
    cbn [run]. destruct (step H s o) as [s1 x]. cbn [fst snd].
    destruct (run H s1 ops) as [s2 xs]. reflexivity.
  Qed.

  Lemma run_app s ops1 ops2 :
    run H s (ops1 ++ ops2) =
      (fst (run H (fst (run H s ops1)) ops2),
       snd (run H s ops1) ++ snd (run H (fst (run H s ops1)) ops2)).
  Proof.
    revert s. induction ops1 as [|o ops1 IH]; intros s.
    - cbn [app run fst snd]. destruct (run H s ops2); reflexivity.
    - change ((o :: ops1) ++ ops2) with (o :: (ops1 ++ ops2)). rewrite !run_cons, IH. reflexivity.
  Qed.

  Theorem run_contig ops : forall s, contig s -> run_ok s ops -> contig (fst (run H s ops)).
  Proof.
    induction ops as [|o ops IH]; intros s C R; [exact C|].
    rewrite run_cons. cbn [fst]. destruct R as [IC R]. apply IH; [|exact R].
    apply step_contig; assumption.
  Qed.

  Theorem reachable_contig iv b ops :
    init_ok iv b -> run_ok (init_state iv b) ops -> contig (fst (run H (init_state iv b) ops)).
  Proof. intros I R. apply run_contig; [apply contig_init, I|exact R]. Qed.
End WithHash.

(** ** C14: the available versions are one contiguous range and every query agrees with it *)

(** [v] is a retained version *)
Definition in_range (s : mstate) (v : Z) : Prop :=
  forest s <> [] /\ first_version s <= v <= latest_version s.

Theorem available_range s :
  contig s ->
  (forest s = [] /\ available s = [] /\ first_version s = 0 /\ latest_version s = 0 /\
   version s = 0) \/
  (forest s <> [] /\ 1 <= first_version s <= latest_version s /\
   init_ver s <= first_version s /\
   first_version s <= version s <= latest_version s /\
   available s = zrange (first_version s) (latest_version s)).
Proof.
  intros C. destruct (contig_cases s C) as [(V & F & _)|(NE & _ & R & _)].
  - left. unfold available, first_version, latest_version. rewrite F. auto.
  - right. destruct (contig_range s (contig_forest_ok s C) NE) as (R1 & R2 & R3). auto.
Qed.

Theorem in_range_available s v : contig s -> (In v (available s) <-> in_range s v).
Proof. intros C. exact (forest_ok_In (forest s) (init_ver s) v (contig_forest_ok s C)). Qed.

Theorem in_range_version_exists s v : contig s -> (version_exists s v = true <-> in_range s v).
Proof. intros C. rewrite version_exists_In. apply in_range_available, C. Qed.

Theorem in_range_lookup s v :
  contig s -> ((exists t, lookup v (forest s) = Some t) <-> in_range s v).
Proof. intros C. exact (forest_ok_lookup (forest s) (init_ver s) v (contig_forest_ok s C)). Qed.

Theorem out_of_range_lookup s v : contig s -> (lookup v (forest s) = None <-> ~ in_range s v).
Proof.
  intros C. rewrite <- (in_range_lookup s v C). destruct (lookup v (forest s)) as [t|].
  - split; [discriminate|]. intros N. exfalso. apply N. eauto.
  - split; [|reflexivity]. intros _ [t E]. discriminate.
Qed.

Lemma in_range_pos s v : contig s -> in_range s v -> 1 <= v.
Proof.
  intros C [NE R]. destruct (contig_range s (contig_forest_ok s C) NE) as (R1 & _). lia.
Qed.

Section C14.
  Variable H : bytes -> bytes.

  (** GetImmutable / the reads on a committed version *)
  Theorem read_version_in_range s v :
    contig s -> in_range s v ->
    exists t, lookup v (forest s) = Some t /\
      (forall r, step H s (ORead (TVersion v) r) = (s, tree_read H (v + 1) t r)) /\
      (forall k, step H s (OGetVersioned k v) =
                 (s, XBytes (match t with Some n => snd (get n k) | None => None end))).
  Proof.
    intros C R. destruct (proj2 (in_range_lookup s v C) R) as [t L]. exists t.
    split; [exact L|]. split; intros x; cbn [step]; rewrite L; [reflexivity|].
    destruct t; reflexivity.
  Qed.

  Theorem read_version_out_of_range s v :
    contig s -> ~ in_range s v ->
    (forall r, step H s (ORead (TVersion v) r) = (s, XErr)) /\
    (forall k, step H s (OGetVersioned k v) = (s, XBytes None)).
  Proof.
    intros C R. apply (out_of_range_lookup s v C) in R.
    split; intros x; cbn [step]; rewrite R; reflexivity.
  Qed.

  Theorem version_exists_step s v :
    contig s ->
    exists b, step H s (OVersionExists v) = (s, XBool b) /\ (b = true <-> in_range s v).
  Proof.
    intros C. exists (version_exists s v). split; [reflexivity|]. apply in_range_version_exists, C.
  Qed.

  Theorem latest_available_step s :
    contig s ->
    step H s OLatest = (s, XInt (latest_version s)) /\
    step H s OAvailable =
      (s, XInts (if list_eq_dec Z.eq_dec (available s) [] then []
                 else zrange (first_version s) (latest_version s))).
  Proof.
    intros C. split; [reflexivity|]. cbn [step].
    destruct (available_range s C) as [(_ & A & _)|(NE & _ & _ & _ & A)].
    - rewrite A. reflexivity.
    - destruct (list_eq_dec Z.eq_dec (available s) []) as [E|_]; [|rewrite A; reflexivity].
      exfalso. apply NE. unfold available in E. destruct (forest s); [reflexivity|discriminate].
  Qed.

  (** LoadVersion *)
  Theorem load_in_range s v :
    contig s -> in_range s v ->
    exists t, lookup v (forest s) = Some t /\
      step H s (OLoad v) =
        (MState t v t (forest s) (init_ver s) (init_set s) (init_opt s), XInt (latest_version s)).
  Proof.
    intros C R. pose proof (in_range_pos s v C R) as P. destruct R as [NE R]. cbn [step].
    destruct (do_load_nonempty s v (contig_forest_ok s C) NE) as [In _].
    replace (v <=? 0) with false in In by (symmetry; apply Z.leb_gt; lia). exact (In R).
  Qed.

  Theorem load_latest s v :
    contig s -> v <= 0 ->
    (forest s = [] /\ step H s (OLoad v) = (s, XInt 0)) \/
    (forest s <> [] /\ exists t, lookup (latest_version s) (forest s) = Some t /\
      step H s (OLoad v) =
        (MState t (latest_version s) t (forest s) (init_ver s) (init_set s) (init_opt s),
         XInt (latest_version s))).
  Proof.
    intros C P. cbn [step]. destruct (nil_or_not (forest s)) as [E|NE].
    - left. split; [exact E|]. rewrite (do_load_empty s v E).
      replace (v <=? 0) with true by (symmetry; apply Z.leb_le; exact P). reflexivity.
    - right. split; [exact NE|].
      destruct (do_load_nonempty s v (contig_forest_ok s C) NE) as [In _].
      replace (v <=? 0) with true in In by (symmetry; apply Z.leb_le; exact P).
      destruct (contig_range s (contig_forest_ok s C) NE) as (R1 & _).
      apply In. lia.
  Qed.

  Theorem load_out_of_range s v :
    contig s -> 0 < v -> ~ in_range s v -> step H s (OLoad v) = (s, XErr).
  Proof.
    intros C P R. cbn [step]. destruct (nil_or_not (forest s)) as [E|NE].
    - rewrite (do_load_empty s v E).
      replace (v <=? 0) with false by (symmetry; apply Z.leb_gt; exact P). reflexivity.
    - destruct (do_load_nonempty s v (contig_forest_ok s C) NE) as [_ Out].
      replace (v <=? 0) with false in Out by (symmetry; apply Z.leb_gt; exact P).
      apply Out. intros R'. apply R. split; assumption.
  Qed.

  (** a failed load / query leaves the tree usable: the state is literally unchanged, so in
      particular it still satisfies [contig] and every later step behaves as before *)
  Corollary failed_queries_harmless s v :
    contig s -> 0 < v -> ~ in_range s v ->
    fst (step H s (OLoad v)) = s /\
    (forall r, fst (step H s (ORead (TVersion v) r)) = s) /\
    (forall k, fst (step H s (OGetVersioned k v)) = s) /\
    fst (step H s (OVersionExists v)) = s.
  Proof.
    intros C P R. rewrite (load_out_of_range s v C P R).
    destruct (read_version_out_of_range s v C R) as [A B].
    repeat split; intros; rewrite ?A, ?B; reflexivity.
  Qed.

  (** Commit numbering: a commit that creates a version creates the successor of the latest one,
      or the initial version / 1 on an empty store; the range is extended at the end. *)
  Theorem save_new_version s :
    contig s -> lookup (working_version s) (forest s) = None ->
    let wv := working_version s in
    exists r',
      oelems r' = oelems (root s) /\
      do_save H s =
        (MState r' wv r' (forest s ++ [(wv, r')]) (init_ver s) false (init_opt s),
         XPair (XBytes (Some (root_hash H wv r'))) (XInt wv)) /\
      ((forest s = [] /\ wv = (if init_opt s then init_ver s else 1)) \/
       (forest s <> [] /\ version s = latest_version s /\ wv = latest_version s + 1)) /\
      available (fst (do_save H s)) = available s ++ [wv] /\
      latest_version (fst (do_save H s)) = wv /\
      contig (fst (do_save H s)).
  Proof.
    intros C L wv. destruct (do_save_new H s L) as (r' & El & E). exists r'.
    split; [exact El|]. split; [exact E|]. split.
    - destruct (do_save_numbering s C L) as [(F & V & W)|(NE & V & W)]; [left|right]; auto.
    - split; [|split].
      + rewrite E. unfold available. cbn [fst forest]. rewrite map_app. reflexivity.
      + rewrite E. unfold latest_version. cbn [fst forest]. apply latest_snoc.
      + apply do_save_contig, C.
  Qed.

  (** the hash test of SaveVersion on an existing version *)
  Definition same_root_hash (wv : Z) (existing r : option node) : Prop :=
    match existing, r with
    | None, None => True
    | Some e, _ => hs (nmeta e) = root_hash H wv r
    | None, Some _ => False
    end.

  (** Committing an existing version number: succeeds without effect on the store iff the
      hashes agree (the working tree becomes the stored one), otherwise fails and leaves
      root, version, last saved tree and all retained versions unchanged. *)
  Theorem save_existing_sharp s e :
    lookup (working_version s) (forest s) = Some e ->
    let wv := working_version s in
    (same_root_hash wv e (root s) /\
     do_save H s =
       (MState e wv e (forest s) (init_ver s) false (init_opt s),
        XPair (XBytes (Some (root_hash H wv (root s)))) (XInt wv))) \/
    (~ same_root_hash wv e (root s) /\
     do_save H s =
       (MState (root s) (version s) (last_saved s) (forest s) (init_ver s) false (init_opt s),
        XErr)).
  Proof.
    intros L wv. unfold do_save, version_exists. cbv zeta. rewrite L. fold wv.
    unfold same_root_hash. destruct e as [e|]; [|destruct (root s) as [n|]].
    - destruct (list_eq_dec N.eq_dec (hs (nmeta e)) (root_hash H wv (root s))) as [E|NE];
        [left|right]; split; auto.
    - right. split; [tauto|reflexivity].
    - left. split; [exact I|reflexivity].
  Qed.

  (** every step's result on SaveVersion: new version, accepted overwrite, or rejected *)
  Theorem save_cases s :
    contig s ->
    let wv := working_version s in
    (~ in_range s wv /\ lookup wv (forest s) = None) \/
    (in_range s wv /\ exists e, lookup wv (forest s) = Some e).
  Proof.
    intros C wv. destruct (lookup wv (forest s)) as [e|] eqn:L.
    - right. split; [|eauto]. apply (in_range_lookup s wv C). eauto.
    - left. split; [|reflexivity]. apply (out_of_range_lookup s wv C). exact L.
  Qed.

  (** Reopening: the retained range is unchanged and the latest version is loaded. *)
  Theorem reopen_spec s :
    contig s ->
    let s' := fst (do_reopen s) in
    step H s OReopen = (s', XOk) /\
    forest s' = forest s /\ available s' = available s /\
    first_version s' = first_version s /\ latest_version s' = latest_version s /\
    init_ver s' = init_ver s /\ init_opt s' = init_opt s /\ init_set s' = init_opt s /\
    version s' = latest_version s /\ root s' = last_saved s' /\
    (forest s = [] -> root s' = None) /\
    (forest s <> [] -> lookup (latest_version s) (forest s) = Some (root s')) /\
    contig s'.
  Proof.
    intros C s'. pose proof (do_reopen_contig s C) as C'. fold s' in C'.
    cbn [step]. unfold s' in *. clear s'.
    destruct (do_reopen_spec s (contig_forest_ok s C)) as [(F & E)|(NE & r & L & E)]; rewrite E in *;
      cbn [fst]; unfold available, first_version, latest_version;
      cbn [root version last_saved forest init_ver init_set init_opt].
    - rewrite F. cbn [fold_left].
      repeat match goal with |- _ /\ _ => split end; auto. intros N. congruence.
    - repeat match goal with |- _ /\ _ => split end; auto. intros N. congruence.
  Qed.
End C14.

(** ** C09: rollback and LoadVersionForOverwriting *)

Lemma first_of_hd {A} (f : list (Z * A)) : first_of f = hd 0 (map fst f).
Proof. destruct f as [|[w a] f]; reflexivity. Qed.

Lemma range_of_available s lo hi :
  lo <= hi -> available s = zrange lo hi -> first_version s = lo /\ latest_version s = hi.
Proof.
  intros L A. rewrite latest_version_last, first_version_of, first_of_hd.
  fold (available s). rewrite A. unfold zrange.
  replace (Z.to_nat (hi - lo + 1)) with (S (Z.to_nat (hi - lo))) by lia.
  split; [reflexivity|]. rewrite zseq_last. lia.
Qed.

(** operations that can only change the working tree *)
Definition root_only (o : op) : bool :=
  match o with
  | OSet _ _ | OSetNil _ | ORemove _ | ORead _ _ | OGetVersioned _ _ | OVersionExists _
  | OLatest | OAvailable | OWorkingHash | OWorkingVersion | OHash => true
  | _ => false
  end.

(** operations allowed after the base state of [lvfo_equals_history_ended_at_v]: no pruning,
    no rollback below [v] *)
Definition no_prune_above (v : Z) (o : op) : bool :=
  match o with
  | OPrune _ => false
  | OLvfo w => v <=? w
  | _ => true
  end.

Definition set_init_set (s : mstate) (b : bool) : mstate :=
  MState (root s) (version s) (last_saved s) (forest s) (init_ver s) b (init_opt s).

(** the state right after committing (or loading for overwriting) the latest version [v] *)
Definition base_state (s : mstate) (v : Z) : Prop :=
  contig s /\ 1 <= v /\ version s = v /\ latest_version s = v /\ root s = last_saved s.

Section C09.
  Variable H : bytes -> bytes.

  Lemma root_only_step s o : root_only o = true -> same_but_root s (fst (step H s o)).
  Proof.
    destruct o as [k v|k|k| | | |v|n|v|t r|k v|v| | | | | ]; cbn [root_only step]; intros R;
      try discriminate R; try apply same_but_root_refl.
    - apply do_set_same.
    - apply do_remove_same.
    - destruct t as [|v]; [apply same_but_root_refl|].
      destruct (lookup v (forest s)); apply same_but_root_refl.
    - destruct (lookup v (forest s)) as [[n|]|]; apply same_but_root_refl.
  Qed.

  Lemma root_only_run ops : forall s,
    forallb root_only ops = true -> same_but_root s (fst (run H s ops)).
  Proof.
    induction ops as [|o ops IH]; intros s R; [apply same_but_root_refl|].
    cbn [forallb] in R. apply andb_true_iff in R. destruct R as [R1 R2].
    rewrite run_cons. cbn [fst]. eapply same_but_root_trans; [apply root_only_step, R1|].
    apply IH, R2.
  Qed.

  (** Rollback: the working tree becomes the last committed tree and nothing else moves; under
      [contig] that tree is the retained tree of [version s] (the empty tree on an empty
      store), the state equals the one LoadVersion(version s) produces, and every read of the
      working tree coincides with the same read of the committed version. *)
  Theorem rollback_is_last_saved s :
    contig s ->
    let s' := fst (step H s ORollback) in
    snd (step H s ORollback) = XOk /\
    root s' = last_saved s /\ same_but_root s s' /\ contig s' /\
    (version s = 0 -> root s' = None /\ forest s' = []) /\
    (version s <> 0 ->
       lookup (version s) (forest s') = Some (root s') /\
       s' = fst (step H s (OLoad (version s))) /\
       working_version s' = version s + 1 /\
       forall r, step H s' (ORead TWorking r) = step H s' (ORead (TVersion (version s)) r)).
  Proof.
    intros C s'. unfold s'. clear s'. rewrite rollback_spec. cbn [fst snd].
    set (s' := MState (if 0 <? version s then last_saved s else None) (version s) (last_saved s)
                      (forest s) (init_ver s) (init_set s) (init_opt s)).
    assert (SB : same_but_root s s') by (unfold same_but_root, s'; cbn; tauto).
    assert (C' : contig s') by exact (contig_same_but_root _ _ SB C).
    split; [reflexivity|].
    destruct (contig_cases s C) as [(V & F & LS & _)|(NE & L & R & P & W)].
    - assert (Rt : root s' = None) by (unfold s'; cbn [root]; rewrite V; reflexivity).
      split; [rewrite LS; exact Rt|]. split; [exact SB|]. split; [exact C'|].
      split; [intros _; split; [exact Rt|exact F]|]. intros N. congruence.
    - assert (Es : s' = MState (last_saved s) (version s) (last_saved s) (forest s) (init_ver s)
                               (init_set s) (init_opt s)).
      { unfold s'. replace (0 <? version s) with true by (symmetry; apply Z.ltb_lt; lia).
        reflexivity. }
      clearbody s'. subst s'. cbn [root forest].
      split; [reflexivity|]. split; [exact SB|]. split; [exact C'|].
      split; [intros V; lia|]. intros _.
      assert (IR : in_range s (version s)) by (split; assumption).
      destruct (load_in_range H s (version s) C IR) as (t & L' & E).
      rewrite E. cbn [fst]. rewrite L in L'. inversion L'; subst t.
      assert (W' : working_version
               (MState (last_saved s) (version s) (last_saved s) (forest s) (init_ver s)
                       (init_set s) (init_opt s)) = version s + 1).
      { unfold working_version in *. cbn [version init_set init_ver]. exact W. }
      split; [exact L|]. split; [reflexivity|]. split; [exact W'|].
      intros r. cbn [step forest root]. rewrite L, W'. reflexivity.
  Qed.

  (** Discarding uncommitted changes returns exactly to the last committed state: whatever
      writes and reads happened since, rollback restores the state bit for bit. *)
  Theorem rollback_restores s0 ops :
    contig s0 -> root s0 = last_saved s0 -> forallb root_only ops = true ->
    step H (fst (run H s0 ops)) ORollback = (s0, XOk).
  Proof.
    intros C R RO. destruct (root_only_run ops s0 RO) as (E1 & E2 & E3 & E4 & E5 & E6).
    rewrite rollback_spec. rewrite E1, E2, E3, E4, E5, E6. f_equal.
    destruct (contig_cases s0 C) as [(V & F & LS & _)|(NE & L & Rg & P & W)].
    - destruct s0 as [r ver ls f iv a b]. cbn in *. subst. reflexivity.
    - replace (0 <? version s0) with true by (symmetry; apply Z.ltb_lt; lia).
      destruct s0 as [r ver ls f iv a b]. cbn in *. subst. reflexivity.
  Qed.

  (** LoadVersionForOverwriting(v) removes every version greater than [v] and nothing else. *)
  Theorem lvfo_removes_exactly s v :
    contig s -> in_range s v ->
    let s' := fst (step H s (OLvfo v)) in
    exists t,
      lookup v (forest s) = Some t /\
      step H s (OLvfo v) =
        (MState t v t (filter (fun p => fst p <=? v) (forest s))
                (init_ver s) (init_set s) (init_opt s), XOk) /\
      (forall w, w <= v -> lookup w (forest s') = lookup w (forest s)) /\
      (forall w, v < w -> lookup w (forest s') = None) /\
      first_version s' = first_version s /\ latest_version s' = v /\
      available s' = zrange (first_version s) v /\
      contig s'.
  Proof.
    intros C IR s'. pose proof (in_range_pos s v C IR) as P.
    destruct (load_in_range H s v C IR) as (t & L & E). cbn [step] in E.
    assert (E' : step H s (OLvfo v) =
        (MState t v t (filter (fun p => fst p <=? v) (forest s))
                (init_ver s) (init_set s) (init_opt s), XOk)).
    { cbn [step]. unfold do_lvfo. rewrite E. reflexivity. }
    assert (C' : contig s') by (apply step_contig; assumption).
    unfold s' in *. clear s'. rewrite E' in *. cbn [fst forest] in *.
    exists t. split; [exact L|]. split; [reflexivity|].
    split; [|split].
    - intros w Hw. rewrite lookup_filter_le.
      replace (w <=? v) with true by (symmetry; apply Z.leb_le; exact Hw). reflexivity.
    - intros w Hw. rewrite lookup_filter_le.
      replace (w <=? v) with false by (symmetry; apply Z.leb_gt; exact Hw). reflexivity.
    - destruct IR as [NE R].
      destruct (contig_range s (contig_forest_ok s C) NE) as (R1 & _ & A).
      set (s' := MState t v t (filter (fun p => fst p <=? v) (forest s))
                        (init_ver s) (init_set s) (init_opt s)) in *.
      assert (A' : available s' = zrange (first_version s) v).
      { unfold available, s'. cbn [forest]. rewrite (map_fst_filter (fun x => x <=? v)).
        fold (available s). rewrite A. unfold zrange. rewrite filter_le_zseq. f_equal. lia. }
      destruct (range_of_available s' (first_version s) v (proj1 R) A') as [F' L'].
      auto.
  Qed.

  Theorem lvfo_out_of_range s v :
    contig s -> 0 < v -> ~ in_range s v -> step H s (OLvfo v) = (s, XErr).
  Proof.
    intros C P R. pose proof (load_out_of_range H s v C P R) as E. cbn [step] in *.
    unfold do_lvfo. rewrite E. reflexivity.
  Qed.

  (** *** The history after [v] leaves no trace *)

  (** invariant of the histories that start in the base state: the retained versions up to [v]
      are exactly those of the base state *)
  Definition extends (s1 : mstate) (v : Z) (s : mstate) : Prop :=
    contig s /\ filter (fun p => fst p <=? v) (forest s) = forest s1 /\
    init_ver s = init_ver s1 /\ init_opt s = init_opt s1.

  Lemma base_lookup s1 v :
    base_state s1 v -> lookup v (forest s1) = Some (last_saved s1) /\ forest s1 <> [].
  Proof.
    intros (C & P & V & L & R).
    destruct (contig_cases s1 C) as [(V0 & _)|(NE & L' & _)]; [lia|].
    rewrite V in L'. auto.
  Qed.

  Lemma extends_base s1 v : base_state s1 v -> extends s1 v s1.
  Proof.
    intros B. pose proof B as (C & P & V & L & R). split; [exact C|]. split; [|auto].
    apply filter_all. intros [w t] I. cbn [fst]. apply Z.leb_le.
    assert (Iw : In w (available s1)).
    { apply in_map_iff. exists (w, t). auto. }
    apply (in_range_available s1 w C) in Iw. destruct Iw as [_ Rg]. lia.
  Qed.

  Lemma extends_lookup s1 v s :
    base_state s1 v -> extends s1 v s ->
    lookup v (forest s) = Some (last_saved s1) /\ in_range s v.
  Proof.
    intros B (C & F & _). destruct (base_lookup s1 v B) as [L _].
    assert (L' : lookup v (forest s) = Some (last_saved s1)).
    { rewrite <- F, lookup_filter_le, Z.leb_refl in L. exact L. }
    split; [exact L'|]. apply (in_range_lookup s v C). eauto.
  Qed.

  Lemma extends_step s1 v s o :
    base_state s1 v -> extends s1 v s -> in_contract s o -> no_prune_above v o = true ->
    extends s1 v (fst (step H s o)).
  Proof.
    intros B E IC NP. pose proof (extends_lookup s1 v s B E) as [Lv IR].
    pose proof E as (C & F & I1 & I2).
    pose proof (step_contig H s o C IC) as C'.
    split; [exact C'|]. clear C'.
    destruct o as [k x|k|k| | | |w|n|w|t r|k w|w| | | | | ]; cbn [step no_prune_above in_contract] in *;
      try discriminate NP; try (split; [exact F|split; [exact I1|exact I2]]).
    - destruct (do_set_same s k x) as (_ & _ & E3 & E4 & _ & E6). rewrite E3, E4, E6. auto.
    - destruct (do_remove_same s k) as (_ & _ & E3 & E4 & _ & E6). rewrite E3, E4, E6. auto.
    - (* save *)
      destruct (lookup (working_version s) (forest s)) as [e|] eqn:L.
      + destruct (do_save_existing H s e L) as [E'|E']; rewrite E'; cbn [fst forest init_ver init_opt]; auto.
      + destruct (save_new_version H s C L) as (r' & _ & E' & Num & _). rewrite E'.
        cbn [fst forest init_ver init_opt]. split; [|auto].
        rewrite filter_app. cbn [filter fst].
        destruct Num as [(F0 & _)|(_ & _ & W)]; [destruct IR as [NE _]; congruence|].
        destruct IR as [_ R].
        replace (working_version s <=? v) with false by (symmetry; apply Z.leb_gt; lia).
        rewrite app_nil_r. exact F.
    - (* reopen *)
      destruct (reopen_spec H s C) as (_ & E3 & _ & _ & _ & E4 & E6 & _).
      rewrite E3, E4, E6. auto.
    - (* load *)
      destruct (do_load_cases s w) as [E'|[(_ & _ & E')|(tv & r & _ & E')]]; rewrite E'; auto.
    - (* lvfo w, v <= w *)
      apply Z.leb_le in NP. unfold do_lvfo.
      destruct (do_load_pos s w) as [E'|(r & L & E')]; [lia| |]; rewrite E'; cbn [fst]; auto.
      cbn [forest init_ver init_opt]. rewrite (filter_le_le v w _ NP). auto.
    - destruct t as [|w]; [auto|]. destruct (lookup w (forest s)); auto.
    - destruct (lookup w (forest s)) as [[n|]|]; auto.
  Qed.

  Lemma extends_run s1 v ops : forall s,
    base_state s1 v -> extends s1 v s -> run_ok H s ops ->
    forallb (no_prune_above v) ops = true ->
    extends s1 v (fst (run H s ops)).
  Proof.
    induction ops as [|o ops IH]; intros s B E R NP; [exact E|].
    cbn [forallb] in NP. apply andb_true_iff in NP. destruct NP as [NP1 NP2].
    destruct R as [IC R]. rewrite run_cons. cbn [fst]. apply IH; auto.
    apply extends_step; assumption.
  Qed.

  (** THE theorem: whatever happened after the base state (commits, overwrites, loads, reopens,
      rollbacks to later versions), LoadVersionForOverwriting(v) restores the base state in
      every field except the [initialVersionSet] flag, which keeps its current value. *)
  Theorem lvfo_equals_history_ended_at_v s1 v ops :
    base_state s1 v -> run_ok H s1 ops -> forallb (no_prune_above v) ops = true ->
    let s2 := fst (run H s1 ops) in
    step H s2 (OLvfo v) = (set_init_set s1 (init_set s2), XOk).
  Proof.
    intros B R NP s2.
    pose proof (extends_run s1 v ops s1 B (extends_base s1 v B) R NP) as E. fold s2 in E.
    destruct (extends_lookup s1 v s2 B E) as [L IR]. destruct E as (C & F & I1 & I2).
    destruct (lvfo_removes_exactly s2 v C IR) as (t & L' & E' & _).
    rewrite E'. rewrite L in L'. inversion L'; subst t. rewrite F, I1, I2.
    destruct B as (_ & _ & V & _ & Rt). unfold set_init_set. rewrite Rt, V. reflexivity.
  Qed.

  (** hence every future of the rolled-back tree is the future of the tree whose history
      ended at [v] (outputs and states), for all continuations *)
  Corollary lvfo_same_future s1 v ops ops' :
    base_state s1 v -> run_ok H s1 ops -> forallb (no_prune_above v) ops = true ->
    let s2 := fst (run H s1 ops) in
    run H (fst (step H s2 (OLvfo v))) ops' = run H (set_init_set s1 (init_set s2)) ops'.
  Proof.
    intros B R NP s2. unfold s2. rewrite (lvfo_equals_history_ended_at_v s1 v ops B R NP).
    reflexivity.
  Qed.
End C09.

(** ** C04: pruning *)
Lemma latest_filter_gt {A} n (f : list (Z * A)) :
  n < latest_of f -> latest_of (filter (fun p => n <? fst p) f) = latest_of f.
Proof.
  unfold latest_of. destruct f as [|p f] using rev_ind; [reflexivity|].
  rewrite fold_left_app. cbn [fold_left]. intros L.
  rewrite filter_app. cbn [filter].
  replace (n <? fst p) with true by (symmetry; apply Z.ltb_lt; exact L).
  rewrite fold_left_app. reflexivity.
Qed.

Section C04.
  Variable H : bytes -> bytes.

  (** A request that would delete the latest version is rejected and has no effect. *)
  Theorem prune_rejects_latest s n :
    latest_version s <= n -> step H s (OPrune n) = (s, XErr).
  Proof.
    intros L. cbn [step]. unfold do_prune.
    replace (latest_version s <=? n) with true by (symmetry; apply Z.leb_le; exact L). reflexivity.
  Qed.

  (** Otherwise exactly the versions <= n disappear; every later version keeps the very same
      tree value; the working tree and the bookkeeping fields are untouched. *)
  Theorem prune_keeps_later_versions s n :
    n < latest_version s ->
    let s' := fst (step H s (OPrune n)) in
    step H s (OPrune n) =
      (MState (root s) (version s) (last_saved s) (filter (fun p => n <? fst p) (forest s))
              (init_ver s) (init_set s) (init_opt s), XOk) /\
    (forall v, n < v -> lookup v (forest s') = lookup v (forest s)) /\
    (forall v, v <= n -> lookup v (forest s') = None) /\
    root s' = root s /\ version s' = version s /\ last_saved s' = last_saved s /\
    init_ver s' = init_ver s /\ init_set s' = init_set s /\ init_opt s' = init_opt s /\
    working_version s' = working_version s /\
    latest_version s' = latest_version s.
  Proof.
    intros L s'. unfold s'. clear s'. cbn [step].
    destruct (do_prune_cases s n) as [[C _]|[_ E]]; [lia|]. rewrite E. cbn [fst].
    split; [reflexivity|]. split; [|split].
    - intros v Hv. cbn [forest]. rewrite lookup_filter_gt.
      replace (n <? v) with true by (symmetry; apply Z.ltb_lt; exact Hv). reflexivity.
    - intros v Hv. cbn [forest]. rewrite lookup_filter_gt.
      replace (n <? v) with false by (symmetry; apply Z.ltb_ge; exact Hv). reflexivity.
    - repeat split. unfold latest_version. cbn [forest]. apply (latest_filter_gt n (forest s)), L.
  Qed.

  (** consequently every read of a later version gives the same answer (contents, root hash,
      every query), and every read of a deleted version fails *)
  Theorem prune_reads_unchanged s n v :
    n < latest_version s -> n < v ->
    let s' := fst (step H s (OPrune n)) in
    (forall r, snd (step H s' (ORead (TVersion v) r)) = snd (step H s (ORead (TVersion v) r))) /\
    (forall k, snd (step H s' (OGetVersioned k v)) = snd (step H s (OGetVersioned k v))) /\
    snd (step H s' (OVersionExists v)) = snd (step H s (OVersionExists v)).
  Proof.
    intros L Hv s'. destruct (prune_keeps_later_versions s n L) as (_ & K & _). fold s' in K.
    specialize (K v Hv). split; [|split].
    - intros r. cbn [step]. rewrite K. destruct (lookup v (forest s)); reflexivity.
    - intros k. cbn [step]. rewrite K. destruct (lookup v (forest s)) as [[t|]|]; reflexivity.
    - cbn [step snd]. unfold version_exists. rewrite K. reflexivity.
  Qed.

  Theorem prune_deleted_unavailable s n v :
    n < latest_version s -> v <= n ->
    let s' := fst (step H s (OPrune n)) in
    (forall r, step H s' (ORead (TVersion v) r) = (s', XErr)) /\
    (forall k, step H s' (OGetVersioned k v) = (s', XBytes None)) /\
    step H s' (OVersionExists v) = (s', XBool false) /\
    ~ In v (available s').
  Proof.
    intros L Hv s'. destruct (prune_keeps_later_versions s n L) as (_ & _ & K & _). fold s' in K.
    specialize (K v Hv). split; [|split; [|split]].
    - intros r. cbn [step]. rewrite K. reflexivity.
    - intros k. cbn [step]. rewrite K. reflexivity.
    - cbn [step]. unfold version_exists. rewrite K. reflexivity.
    - apply lookup_None, K.
  Qed.

  Theorem prune_working_unchanged s n :
    n < latest_version s ->
    let s' := fst (step H s (OPrune n)) in
    (forall r, snd (step H s' (ORead TWorking r)) = snd (step H s (ORead TWorking r))) /\
    snd (step H s' OWorkingHash) = snd (step H s OWorkingHash) /\
    snd (step H s' OHash) = snd (step H s OHash) /\
    snd (step H s' OLatest) = snd (step H s OLatest).
  Proof.
    intros L s'.
    destruct (prune_keeps_later_versions s n L) as (_ & _ & _ & E1 & E2 & E3 & _ & _ & _ & E4 & E5).
    fold s' in E1, E2, E3, E4, E5. cbn [step snd]. rewrite E1, E2, E3, E4, E5. auto.
  Qed.

  (** versions that share their whole tree with a deleted version (commits without writes) and
      empty versions survive unchanged: the retained value is the identical [option node] *)
  Corollary prune_keeps_shared_and_empty s n v1 v2 t :
    n < latest_version s -> v1 <= n < v2 ->
    lookup v1 (forest s) = Some t -> lookup v2 (forest s) = Some t ->
    let s' := fst (step H s (OPrune n)) in
    lookup v1 (forest s') = None /\ lookup v2 (forest s') = Some t /\
    forall r, step H s' (ORead (TVersion v2) r) = (s', tree_read H (v2 + 1) t r).
  Proof.
    intros L [V1 V2] L1 L2 s'.
    destruct (prune_keeps_later_versions s n L) as (_ & K1 & K2 & _). fold s' in K1, K2.
    split; [apply K2, V1|]. split; [rewrite (K1 v2 V2); exact L2|].
    intros r. cbn [step]. rewrite (K1 v2 V2), L2. reflexivity.
  Qed.

  (** under the contract the range shrinks from below only *)
  Theorem prune_range s n :
    contig s -> forest s <> [] -> n < version s ->
    let s' := fst (step H s (OPrune n)) in
    snd (step H s (OPrune n)) = XOk /\
    first_version s' = Z.max (first_version s) (n + 1) /\
    latest_version s' = latest_version s /\
    available s' = zrange (Z.max (first_version s) (n + 1)) (latest_version s) /\
    version s' = version s /\ in_range s' (version s') /\
    contig s'.
  Proof.
    intros C NE Hn s'. assert (C' : contig s') by (apply step_contig; assumption).
    destruct (contig_cases s C) as [(_ & F & _)|(_ & _ & R & P & _)]; [congruence|].
    assert (L : n < latest_version s) by lia.
    destruct (prune_keeps_later_versions s n L) as (E & _ & _ & _ & EV & _). fold s' in EV.
    destruct (contig_range s (contig_forest_ok s C) NE) as (R1 & _ & A).
    assert (A' : available s' = zrange (Z.max (first_version s) (n + 1)) (latest_version s)).
    { unfold s'. rewrite E. unfold available. cbn [fst forest].
      rewrite (map_fst_filter (fun x => n <? x)). fold (available s). rewrite A.
      unfold zrange. rewrite filter_gt_zseq. f_equal. lia. }
    assert (LE : Z.max (first_version s) (n + 1) <= latest_version s) by lia.
    destruct (range_of_available s' _ _ LE A') as [F' L'].
    split; [rewrite E; reflexivity|]. split; [exact F'|]. split; [exact L'|].
    split; [exact A'|]. split; [exact EV|]. split; [|exact C'].
    apply (in_range_available s' _ C'). rewrite A', In_zrange, EV. lia.
  Qed.

  (** after a restart the pruned store still has exactly the surviving versions *)
  Theorem prune_then_reopen s n :
    contig s -> forest s <> [] -> n < version s ->
    let s' := fst (step H s (OPrune n)) in
    let s'' := fst (step H s' OReopen) in
    snd (step H s' OReopen) = XOk /\
    forest s'' = forest s' /\
    version s'' = latest_version s /\
    (forall v, n < v -> lookup v (forest s'') = lookup v (forest s)) /\
    (forall v, v <= n -> lookup v (forest s'') = None) /\
    contig s''.
  Proof.
    intros C NE Hn s' s''.
    destruct (prune_range s n C NE Hn) as (_ & _ & L' & _ & _ & _ & C'). fold s' in L', C'.
    destruct (reopen_spec H s' C') as (E & F & _ & _ & _ & _ & _ & _ & V & _ & _ & _ & C'').
    destruct (contig_cases s C) as [(_ & F0 & _)|(_ & _ & R & P & _)]; [congruence|].
    assert (L : n < latest_version s) by lia.
    destruct (prune_keeps_later_versions s n L) as (_ & K1 & K2 & _). fold s' in K1, K2.
    unfold s''. rewrite E. cbn [fst snd]. rewrite F.
    repeat match goal with |- _ /\ _ => split end; auto. congruence.
  Qed.

  (** pruning twice is pruning once up to the larger bound *)
  Theorem prune_compose s n1 n2 :
    n1 < latest_version s -> n2 < latest_version s ->
    step H (fst (step H s (OPrune n1))) (OPrune n2) = step H s (OPrune (Z.max n1 n2)).
  Proof.
    intros L1 L2.
    destruct (prune_keeps_later_versions s n1 L1) as (E1 & _ & _ & _ & _ & _ & _ & _ & _ & _ & LL).
    assert (L2' : n2 < latest_version (fst (step H s (OPrune n1)))) by (rewrite LL; exact L2).
    destruct (prune_keeps_later_versions _ n2 L2') as (E2 & _).
    assert (L3 : Z.max n1 n2 < latest_version s) by lia.
    destruct (prune_keeps_later_versions s _ L3) as (E3 & _).
    rewrite E2, E3, E1. cbn [fst root version last_saved forest init_ver init_set init_opt].
    rewrite filter_gt_gt. reflexivity.
  Qed.
End C04.

(** ** The [initialVersionSet] flag is unobservable once a version exists *)
Lemma set_init_set_same s : set_init_set s (init_set s) = s.
Proof. destruct s; reflexivity. Qed.

Lemma do_load_upto s b v :
  do_load (set_init_set s b) v = (set_init_set (fst (do_load s v)) b, snd (do_load s v)).
Proof.
  destruct s as [r ver ls f iv a io]. unfold set_init_set, do_load, first_version, latest_version.
  cbv zeta. cbn [root version last_saved forest init_ver init_set init_opt].
  destruct ((0 <? match f with [] => 0 | (v0, _) :: _ => v0 end) &&
            (match f with [] => 0 | (v0, _) :: _ => v0 end <? iv)); [reflexivity|].
  destruct (fold_left (fun _ p => fst p) f 0 <? v); [reflexivity|].
  destruct f as [|p f]; [destruct (v <=? 0); reflexivity|].
  destruct (lookup _ (p :: f)); reflexivity.
Qed.

Section UpToInitSet.
  Variable H : bytes -> bytes.

  Lemma step_upto_init_set s b o :
    version s <> 0 ->
    exists b', step H (set_init_set s b) o = (set_init_set (fst (step H s o)) b', snd (step H s o)).
  Proof.
    intros V. destruct o as [k x|k|k| | | |w|n|w|t q|k w|w| | | | | ]; cbn [step].
    - destruct s as [r ver ls f iv a io]. unfold set_init_set, do_set.
      cbn [root version last_saved forest init_ver init_set init_opt].
      destruct r as [n|]; [destruct (set n k x)|]; cbn [fst snd root version last_saved forest init_ver init_set init_opt];
        eexists; reflexivity.
    - exists b. reflexivity.
    - destruct s as [r ver ls f iv a io]. unfold set_init_set, do_remove. cbv zeta.
      cbn [root version last_saved forest init_ver init_set init_opt].
      destruct r as [n|]; [destruct (rm_val (remove n k))|];
        cbn [fst snd root version last_saved forest init_ver init_set init_opt]; eexists; reflexivity.
    - (* save *)
      destruct s as [r ver ls f iv a io]. cbn [version] in V.
      assert (E : (ver + 1 =? 1) = false) by (apply Z.eqb_neq; lia).
      unfold set_init_set, do_save, version_exists, working_version. cbv zeta.
      cbn [root version last_saved forest init_ver init_set init_opt]. rewrite E. cbn [andb].
      destruct (lookup (ver + 1) f) as [e|].
      + match goal with |- context [if ?c then _ else _] => destruct c end;
          cbn [fst snd root version last_saved forest init_ver init_set init_opt]; eexists; reflexivity.
      + cbn [fst snd root version last_saved forest init_ver init_set init_opt]. eexists; reflexivity.
    - exists b. destruct s; reflexivity.
    - (* reopen: the fresh tree takes the flag from the option *)
      unfold do_reopen. cbv zeta. unfold set_init_set at 1 2 3.
      cbn [root version last_saved forest init_ver init_set init_opt].
      destruct (do_load _ 0) as [s' x]. exists (init_set s').
      destruct x; cbn [fst snd]; rewrite set_init_set_same; reflexivity.
    - exists b. apply do_load_upto.
    - destruct s as [r ver ls f iv a io]. unfold set_init_set, do_prune, latest_version.
      cbn [root version last_saved forest init_ver init_set init_opt].
      destruct (_ <=? n); cbn [fst snd root version last_saved forest init_ver init_set init_opt];
        eexists; reflexivity.
    - unfold do_lvfo. rewrite do_load_upto. destruct (do_load s w) as [s' x]. cbn [fst snd].
      exists b. destruct x; reflexivity.
    - assert (W : working_version (set_init_set s b) = working_version s).
      { unfold working_version, set_init_set. cbn [version init_set init_ver].
        replace (version s + 1 =? 1) with false by (symmetry; apply Z.eqb_neq; lia). reflexivity. }
      exists b. destruct t as [|w].
      + rewrite W. reflexivity.
      + unfold set_init_set at 1. cbn [forest]. destruct (lookup w (forest s)); reflexivity.
    - exists b. unfold set_init_set at 1. cbn [forest]. destruct (lookup w (forest s)) as [[n|]|]; reflexivity.
    - exists b. reflexivity.
    - exists b. reflexivity.
    - exists b. reflexivity.
    - exists b. unfold working_version, set_init_set. cbn [version init_set init_ver root fst snd].
      replace (version s + 1 =? 1) with false by (symmetry; apply Z.eqb_neq; lia). reflexivity.
    - exists b. unfold working_version, set_init_set. cbn [version init_set init_ver root fst snd].
      replace (version s + 1 =? 1) with false by (symmetry; apply Z.eqb_neq; lia). reflexivity.
    - exists b. reflexivity.
  Qed.

  (** under the contract a non-empty store never becomes empty again *)
  Lemma step_nonempty s o :
    contig s -> in_contract s o -> forest s <> [] -> forest (fst (step H s o)) <> [].
  Proof.
    intros C IC NE.
    destruct (contig_cases s C) as [(_ & F & _)|(_ & L & R & P & _)]; [congruence|].
    destruct o as [k x|k|k| | | |w|n|w|t q|k w|w| | | | | ]; cbn [step in_contract] in *; try exact NE.
    - destruct (do_set_same s k x) as (_ & _ & E & _). rewrite E. exact NE.
    - destruct (do_remove_same s k) as (_ & _ & E & _). rewrite E. exact NE.
    - pose proof (do_save_keeps H s _ _ L) as K. intros E. rewrite E in K. discriminate.
    - rewrite do_reopen_forest. exact NE.
    - rewrite do_load_forest. exact NE.
    - destruct (prune_range H s n C NE IC) as (_ & _ & _ & _ & _ & [NE' _] & _). exact NE'.
    - unfold do_lvfo. destruct (do_load_pos s w) as [E|(r & Lw & E)]; [lia| |]; rewrite E; cbn [fst]; auto.
      cbn [forest]. intros E'.
      assert (K : lookup w (filter (fun p => fst p <=? w) (forest s)) = Some r).
      { rewrite lookup_filter_le, Z.leb_refl. exact Lw. }
      rewrite E' in K. discriminate.
    - destruct t as [|w]; [exact NE|]. destruct (lookup w (forest s)); exact NE.
    - destruct (lookup w (forest s)) as [[n|]|]; exact NE.
  Qed.

  (** two states that differ only in the flag produce the same outputs forever *)
  Theorem run_upto_init_set ops : forall s b,
    contig s -> forest s <> [] -> run_ok H s ops ->
    snd (run H (set_init_set s b) ops) = snd (run H s ops) /\
    exists b', fst (run H (set_init_set s b) ops) = set_init_set (fst (run H s ops)) b'.
  Proof.
    induction ops as [|o ops IH]; intros s b C NE R.
    - cbn [run fst snd]. split; [reflexivity|]. exists b. reflexivity.
    - destruct R as [IC R]. rewrite !run_cons. cbn [fst snd].
      assert (V : version s <> 0).
      { destruct (contig_cases s C) as [(_ & F & _)|(_ & _ & Rg & P & _)]; [congruence|lia]. }
      destruct (step_upto_init_set s b o V) as [b1 E]. rewrite E. cbn [fst snd].
      destruct (IH (fst (step H s o)) b1 (step_contig H s o C IC) (step_nonempty s o C IC NE) R)
        as [O [b' S]].
      rewrite O, S. split; [reflexivity|]. exists b'. reflexivity.
  Qed.

  (** C09, observational form: after LoadVersionForOverwriting(v) every in-contract future
      produces exactly the outputs it produces from the base state. *)
  Theorem lvfo_indistinguishable s1 v ops ops' :
    base_state s1 v -> run_ok H s1 ops -> forallb (no_prune_above v) ops = true ->
    run_ok H s1 ops' ->
    let s2 := fst (run H s1 ops) in
    snd (step H s2 (OLvfo v)) = XOk /\
    snd (run H (fst (step H s2 (OLvfo v))) ops') = snd (run H s1 ops') /\
    exists b', fst (run H (fst (step H s2 (OLvfo v))) ops') = set_init_set (fst (run H s1 ops')) b'.
  Proof.
    intros B R NP R' s2. unfold s2. rewrite (lvfo_equals_history_ended_at_v H s1 v ops B R NP).
    cbn [fst snd]. split; [reflexivity|].
    destruct (base_lookup s1 v B) as [_ NE]. destruct B as (C & _).
    apply run_upto_init_set; assumption.
  Qed.

  (** and the states are equal outright when the flag did not move *)
  Corollary lvfo_restores_exactly s1 v ops :
    base_state s1 v -> run_ok H s1 ops -> forallb (no_prune_above v) ops = true ->
    init_set (fst (run H s1 ops)) = init_set s1 ->
    step H (fst (run H s1 ops)) (OLvfo v) = (s1, XOk).
  Proof.
    intros B R NP I. rewrite (lvfo_equals_history_ended_at_v H s1 v ops B R NP), I, set_init_set_same.
    reflexivity.
  Qed.
End UpToInitSet.

(** ** The degenerate "initial version 0" is outside the contract: the first commit is
    version 0; after reopening, the working version is 0 again instead of 1, and the next
    commit (with different contents) is rejected as a conflicting overwrite of version 0. *)
Example initial_version_zero_refuted :
  exists ops,
    run_okb (fun b => b) (init_state 0 true) ops = true /\
    snd (run (fun b => b) (init_state 0 true) ops) =
      [XBool false; XPair (XBytes (Some [0; 2; 0; 1; 1; 32; 1]%N)) (XInt 0);   (* commit: version 0 *)
       XOk; XInt 0;                                                           (* reopen; working version 0 *)
       XBool false; XErr;                                                     (* second commit fails *)
       XInts [0]; XInt 0] /\
    ~ contig (fst (run (fun b => b) (init_state 0 true) ops)).
Proof.
  exists [OSet [1%N] [1%N]; OSave; OReopen; OWorkingVersion; OSet [2%N] [2%N]; OSave;
          OAvailable; OLatest].
  split; [vm_compute; reflexivity|]. split; [vm_compute; reflexivity|].
  intros ((_ & F) & _). vm_compute in F. inversion F as [|x l [P _] _]. apply P. reflexivity.
Qed.

(** ** History level: every in-contract history keeps one contiguous range *)
Theorem reachable_range (H : bytes -> bytes) iv b ops :
  init_ok iv b -> run_ok H (init_state iv b) ops ->
  let s := fst (run H (init_state iv b) ops) in
  contig s /\
  ((forest s = [] /\ available s = [] /\ first_version s = 0 /\ latest_version s = 0 /\
    version s = 0) \/
   (forest s <> [] /\ 1 <= first_version s <= latest_version s /\
    init_ver s <= first_version s /\
    first_version s <= version s <= latest_version s /\
    available s = zrange (first_version s) (latest_version s))).
Proof.
  intros I R s. pose proof (reachable_contig H iv b ops I R) as C. fold s in C.
  split; [exact C|apply available_range, C].
Qed.

(** ** Why the contract says [1 <= v] for LoadVersionForOverwriting: target 0 means "load the
    latest version" to LoadVersion, and then every version > 0 is deleted: the store is left
    with no version at all while the working tree is still based on version 2.  (Pruning the
    version the working tree is based on breaks the order of the retained versions, see
    [MTreeFacts.versions_not_ascending].) *)
Example lvfo_zero_refuted :
  let ops := [OSet [1%N] [1%N]; OSave; OSet [2%N] [2%N]; OSave; OLvfo 0; OAvailable; OWorkingVersion] in
  let r := run (fun b => b) (init_state 0 false) ops in
  skipn 4 (snd r) = [XOk; XInts []; XInt 3] /\ version (fst r) = 2 /\ forest (fst r) = [] /\
  ~ contig (fst r).
Proof.
  cbv zeta. split; [vm_compute; reflexivity|]. split; [vm_compute; reflexivity|].
  split; [vm_compute; reflexivity|].
  intros (_ & [(V & _)|L] & _); [vm_compute in V|vm_compute in L]; discriminate.
Qed.
