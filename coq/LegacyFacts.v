(** Proofs about the legacy-format model (Legacy.v): property C16. *)
From IAVL Require Import Bytes Varint Sha256 Tree VMap TreeFacts MTree MTreeFacts HashFacts
  VarintFacts Codec CodecFacts V2 V2Facts Legacy.
Local Open Scope Z_scope.

(** ** [veq] is a congruence for the v1 write operations (no well-formedness needed) *)
Lemma veq_mk_mk wv k l1 r1 l2 r2 :
  veq wv l1 l2 -> veq wv r1 r2 -> veq wv (mk k l1 r1) (mk k l2 r2).
Proof.
  intros A B. unfold mk. cbn [veq].
  rewrite (veq_height _ _ _ A), (veq_height _ _ _ B), (veq_size _ _ _ A), (veq_size _ _ _ B).
  auto 7.
Qed.

Lemma rotR_veq wv t1 t2 : veq wv t1 t2 -> veq wv (rotR t1) (rotR t2).
Proof.
  intros E. destruct t1 as [|k h s m l r], t2 as [|k2 h2 s2 m2 l2 r2]; try exact E; try contradiction.
  destruct l as [|lk lh ls lm ll lr], l2 as [|lk2 lh2 ls2 lm2 ll2 lr2]; try exact E;
    try (cbn [veq] in E; tauto).
  rewrite !rotR_eq. cbn [veq] in E.
  destruct E as (A & B & C & D & (A' & B' & C' & D' & E' & F') & F). subst.
  apply veq_mk_mk; [assumption|]. apply veq_mk_mk; assumption.
Qed.

Lemma rotL_veq wv t1 t2 : veq wv t1 t2 -> veq wv (rotL t1) (rotL t2).
Proof.
  intros E. destruct t1 as [|k h s m l r], t2 as [|k2 h2 s2 m2 l2 r2]; try exact E; try contradiction.
  destruct r as [|rk rh rs rm rl rr], r2 as [|rk2 rh2 rs2 rm2 rl2 rr2]; try exact E;
    try (cbn [veq] in E; tauto).
  rewrite !rotL_eq. cbn [veq] in E.
  destruct E as (A & B & C & D & E & (A' & B' & C' & D' & E' & F')). subst.
  apply veq_mk_mk; [|assumption]. apply veq_mk_mk; assumption.
Qed.

Lemma balance_veq wv t1 t2 : veq wv t1 t2 -> veq wv (balance t1) (balance t2).
Proof.
  intros E. destruct t1 as [|k h s m l r], t2 as [|k2 h2 s2 m2 l2 r2]; try exact E; try contradiction.
  pose proof E as E0. cbn [veq] in E. destruct E as (A & B & C & D & El & Er). subst k2 h2 s2.
  rewrite !balance_eq.
  rewrite <- (veq_height _ _ _ El), <- (veq_height _ _ _ Er),
          <- (veq_bal_of _ _ _ El), <- (veq_bal_of _ _ _ Er).
  destruct (1 <? height l - height r).
  - destruct (0 <=? bal_of l); [apply rotR_veq, E0|].
    apply rotR_veq. cbn [veq]. pose proof (rotL_veq wv l l2 El). auto 7.
  - destruct (height l - height r <? -1); [|exact E0].
    destruct (bal_of r <=? 0); [apply rotL_veq, E0|].
    apply rotL_veq. cbn [veq]. pose proof (rotR_veq wv r r2 Er). auto 7.
Qed.

Lemma set_veq wv k v t1 : forall t2,
  veq wv t1 t2 ->
  veq wv (fst (set t1 k v)) (fst (set t2 k v)) /\ snd (set t1 k v) = snd (set t2 k v).
Proof.
  induction t1 as [lk lv m|nk h s m l IHl r IHr]; intros [lk2 lv2 m2|nk2 h2 s2 m2 l2 r2];
    cbn [veq]; try tauto.
  - intros (A & B & C). subst lk2 lv2. cbn [set].
    destruct (bcmp k lk); cbn [fst snd veq]; auto 10.
  - intros (A & B & C & D & El & Er). subst nk2 h2 s2. cbn [set].
    destruct (blt k nk).
    + destruct (IHl l2 El) as [Ev Eu].
      destruct (set l k v) as [l' u], (set l2 k v) as [l2' u2]. cbn [fst snd] in *. subst u2.
      destruct u; cbn [fst snd veq]; [auto 10|]. split; [|reflexivity].
      apply balance_veq, veq_mk_mk; assumption.
    + destruct (IHr r2 Er) as [Ev Eu].
      destruct (set r k v) as [r' u], (set r2 k v) as [r2' u2]. cbn [fst snd] in *. subst u2.
      destruct u; cbn [fst snd veq]; [auto 10|]. split; [|reflexivity].
      apply balance_veq, veq_mk_mk; assumption.
Qed.

Lemma remove_veq wv k t1 : forall t2,
  veq wv t1 t2 -> rm_rel wv (remove t1 k) (remove t2 k).
Proof.
  induction t1 as [lk lv m|nk h s m l IHl r IHr]; intros [lk2 lv2 m2|nk2 h2 s2 m2 l2 r2];
    cbn [veq]; try tauto.
  - intros (A & B & C). subst lk2 lv2. cbn [remove].
    destruct (beq k lk); unfold rm_rel; cbn [rm_val rm_key rm_self veq]; auto.
  - intros E. pose proof E as E0. destruct E as (A & B & C & D & El & Er). subst nk2 h2 s2.
    cbn [remove]. cbv zeta.
    destruct (blt k nk).
    + destruct (IHl l2 El) as (Ev & Ek & Es). rewrite <- Ev.
      destruct (rm_val (remove l k)) as [val|].
      * destruct (rm_self (remove l k)) as [l'|], (rm_self (remove l2 k)) as [l2'|]; try contradiction;
          unfold rm_rel; cbn [rm_val rm_key rm_self]; auto.
        repeat split; auto. apply balance_veq, veq_mk_mk; assumption.
      * unfold rm_rel. cbn [rm_val rm_key rm_self]. auto.
    + destruct (IHr r2 Er) as (Ev & Ek & Es). rewrite <- Ev, <- Ek.
      destruct (rm_val (remove r k)) as [val|].
      * destruct (rm_self (remove r k)) as [r'|], (rm_self (remove r2 k)) as [r2'|]; try contradiction;
          unfold rm_rel; cbn [rm_val rm_key rm_self]; auto.
        repeat split; auto. apply balance_veq, veq_mk_mk; assumption.
      * unfold rm_rel. cbn [rm_val rm_key rm_self]. auto.
Qed.

(** ** Store lookups *)
Lemma bytes_eqb_refl a : bytes_eqb a a = true.
Proof. unfold bytes_eqb. destruct (list_eq_dec N.eq_dec a a); congruence. Qed.
Lemma bytes_eqb_true a b : bytes_eqb a b = true -> a = b.
Proof. unfold bytes_eqb. destruct (list_eq_dec N.eq_dec a b); congruence. Qed.

Lemma lfind_In {A} k (a : A) st : NoDup (map fst st) -> In (k, a) st -> lfind k st = Some a.
Proof.
  induction st as [|[k' a'] st IH]; intros ND I; [destruct I|]. cbn [map fst] in ND.
  inversion ND as [|? ? NI ND']; subst. cbn [lfind]. destruct I as [E|I].
  - injection E as -> ->. rewrite bytes_eqb_refl. reflexivity.
  - destruct (bytes_eqb k k') eqn:B; [|auto]. apply bytes_eqb_true in B. subst k'.
    exfalso. apply NI. apply in_map_iff. exists (k, a). auto.
Qed.

Lemma lfind_map {A B} (f : A -> B) k st :
  lfind k (map (fun p => (fst p, f (snd p))) st) = option_map f (lfind k st).
Proof.
  induction st as [|[k' a'] st IH]; [reflexivity|]. cbn [map lfind fst snd].
  destruct (bytes_eqb k k'); [reflexivity|exact IH].
Qed.

Section LegacyProofs.
  Variable H : bytes -> bytes.

  (** the tree as the legacy read path shows it: node keys (version, 0), the hash it was
      fetched by in every node *)
  Fixpoint legacy_view (t : node) : node :=
    match t with
    | Leaf k v m => Leaf k v (Meta (ver m) 0 (pure_hash H 0 t))
    | Inner k h s m l r =>
        Inner k h s (Meta (ver m) 0 (pure_hash H 0 t)) (legacy_view l) (legacy_view r)
    end.

  Lemma legacy_view_veq wv t : veq wv (legacy_view t) t.
  Proof. induction t; cbn [legacy_view veq]; unfold eff_ver; cbn [ver]; auto 8. Qed.

  Lemma legacy_view_hash H' wv t : pure_hash H' wv (legacy_view t) = pure_hash H' wv t.
  Proof. apply pure_hash_ext, veq_shape_eq, legacy_view_veq. Qed.

  Lemma legacy_view_persisted t : all_persisted t -> all_persisted (legacy_view t).
  Proof. induction t; cbn [legacy_view all_persisted ver]; tauto. Qed.

  Lemma legacy_view_hash_ok t : all_persisted t -> hash_ok H (legacy_view t).
  Proof.
    induction t as [k v m|k h s m l IHl r IHr]; cbn [all_persisted]; intros P.
    - apply hash_ok_intro_leaf. intros _. cbn [hs]. symmetry.
      apply (legacy_view_hash H 0 (Leaf k v m)).
    - destruct P as (Pm & Pl & Pr). cbn [legacy_view]. apply hash_ok_intro_inner; auto.
      intros _. split.
      + cbn [hs]. symmetry. apply (legacy_view_hash H 0 (Inner k h s m l r)).
      + cbn [all_persisted ver]. auto using legacy_view_persisted.
  Qed.

  (** every node can be written and read back by the legacy codec *)
  Fixpoint legacy_ok (t : node) : Prop :=
    wf_legacy (legacy_raw H t) /\
    match t with
    | Leaf _ _ _ => True
    | Inner _ _ _ _ l r => legacy_ok l /\ legacy_ok r
    end.

  Fixpoint ldepth (t : node) : nat :=
    match t with Leaf _ _ _ => 1%nat | Inner _ _ _ _ l r => S (Nat.max (ldepth l) (ldepth r)) end.

  Lemma ldepth_nodes t : (ldepth t <= length (legacy_nodes H t))%nat.
  Proof.
    induction t as [|k h s m l IHl r IHr]; cbn [ldepth legacy_nodes length]; [lia|].
    rewrite app_length. lia.
  Qed.

  Lemma legacy_nodes_subtree u t : subtree u t -> In (pure_hash H 0 u, legacy_raw H u) (legacy_nodes H t).
  Proof.
    induction 1 as [t|u k h s m l r _ IH|u k h s m l r _ IH].
    - destruct t; cbn [legacy_nodes]; left; reflexivity.
    - cbn [legacy_nodes]. right. apply in_or_app. auto.
    - cbn [legacy_nodes]. right. apply in_or_app. auto.
  Qed.

  (** reading a subtree back from any store that holds its nodes under their hashes *)
  Lemma legacy_load_spec t : forall fuel st,
    (ldepth t <= fuel)%nat -> legacy_ok t ->
    (forall u, subtree u t ->
               lfind (pure_hash H 0 u) st = Some (encode_legacy_node (legacy_raw H u))) ->
    legacy_load fuel st (pure_hash H 0 t) = Some (legacy_view t).
  Proof.
    induction t as [k v m|k h s m l IHl r IHr]; intros fuel st F Ok Fd;
      (destruct fuel as [|f]; [cbn [ldepth] in F; lia|]).
    - cbn [legacy_load]. rewrite (Fd _ (sub_refl _)).
      destruct Ok as [W _].
      rewrite <- (app_nil_r (encode_legacy_node _)), (decode_legacy_node_roundtrip _ _ [] W).
      reflexivity.
    - cbn [legacy_load]. rewrite (Fd _ (sub_refl _)).
      destruct Ok as (W & Okl & Okr).
      rewrite <- (app_nil_r (encode_legacy_node _)), (decode_legacy_node_roundtrip _ _ [] W).
      cbn [legacy_raw ln_height ln_value ln_left ln_right ln_key ln_size ln_version].
      assert (Hh : (h =? 0) = false).
      { destruct (h =? 0) eqn:E; [|reflexivity]. exfalso.
        unfold wf_legacy in W. cbn [legacy_raw ln_height ln_value] in W. rewrite E in W.
        destruct W as (_ & _ & _ & _ & ((x & Ex & _) & _)). discriminate Ex. }
      rewrite Hh. cbn [ldepth] in F.
      rewrite (IHl f st ltac:(lia) Okl), (IHr f st ltac:(lia) Okr).
      + reflexivity.
      + intros u S. apply Fd, sub_right, S.
      + intros u S. apply Fd, sub_left, S.
  Qed.

  (** Item 7. *)
  Theorem legacy_roundtrip t :
    legacy_ok t -> NoDup (map fst (legacy_nodes H t)) ->
    let st := fst (legacy_encode_tree H t) in
    legacy_load (S (length st)) (lstore_bytes st) (snd (legacy_encode_tree H t)) =
      Some (legacy_view t) /\
    veq 0 (legacy_view t) t /\ shape_eq 0 (legacy_view t) t /\
    hs (nmeta (legacy_view t)) = snd (legacy_encode_tree H t).
  Proof.
    intros Ok ND st. split; [|split; [apply legacy_view_veq|split]].
    - apply legacy_load_spec; [pose proof (ldepth_nodes t); unfold st; cbn [legacy_encode_tree fst]; lia
                               |exact Ok|].
      intros u S. unfold lstore_bytes. rewrite lfind_map.
      unfold st. cbn [legacy_encode_tree fst].
      rewrite (lfind_In _ (legacy_raw H u) _ ND (legacy_nodes_subtree u t S)). reflexivity.
    - apply veq_shape_eq, legacy_view_veq.
    - destruct t; reflexivity.
  Qed.

  (** the same from a bigger store (all the versions of a legacy database) *)
  Theorem legacy_roundtrip_store t (st : lstore) :
    legacy_ok t -> NoDup (map fst st) -> incl (legacy_nodes H t) st -> (ldepth t <= length st)%nat ->
    legacy_load (S (length st)) (lstore_bytes st) (pure_hash H 0 t) = Some (legacy_view t).
  Proof.
    intros Ok ND In Dp. apply legacy_load_spec; [lia|exact Ok|].
    intros u S. unfold lstore_bytes. rewrite lfind_map.
    rewrite (lfind_In _ (legacy_raw H u) _ ND (In _ (legacy_nodes_subtree u t S))). reflexivity.
  Qed.

  (** Item 8: the hash does not depend on the storage format ... *)
  Theorem same_hash_rule t :
    (forall H' wv, pure_hash H' wv (legacy_view t) = pure_hash H' wv t) /\
    elems (legacy_view t) = elems t /\ height (legacy_view t) = height t /\
    size (legacy_view t) = size t /\
    (all_persisted t -> hash_ok H (legacy_view t) /\ all_persisted (legacy_view t) /\
                        forall wv, node_hash H wv (legacy_view t) = pure_hash H 0 t).
  Proof.
    split; [intros; apply legacy_view_hash|].
    pose proof (legacy_view_veq 0 t) as V.
    split; [apply (veq_elems _ _ _ V)|]. split; [apply (veq_height _ _ _ V)|].
    split; [apply (veq_size _ _ _ V)|].
    intros P. pose proof (legacy_view_hash_ok t P) as Ok. pose proof (legacy_view_persisted t P) as P'.
    split; [exact Ok|]. split; [exact P'|]. intros wv.
    rewrite (node_hash_saved H _ wv Ok P'). apply legacy_view_hash.
  Qed.

  (** ... and versions committed on top of a loaded legacy tree are the canonical ones *)
  Theorem legacy_then_write wv t' t :
    veq wv t' t ->
    (forall k v, veq wv (fst (set t' k v)) (fst (set t k v)) /\ snd (set t' k v) = snd (set t k v)) /\
    (forall k, rm_rel wv (remove t' k) (remove t k)).
  Proof. intros V. split; intros; [apply set_veq|apply remove_veq]; exact V. Qed.

  Theorem legacy_then_commit wv n n' t' t :
    wv <> 0 -> veq wv t' t ->
    veq wv (fst (stamp H wv n' t')) (fst (stamp H wv n t)) /\
    (hash_ok H t' -> hash_ok H t -> 0 < wv ->
       hs (nmeta (fst (stamp H wv n' t'))) = hs (nmeta (fst (stamp H wv n t)))).
  Proof.
    intros Hwv V. split.
    - eapply veq_trans; [apply veq_sym, stamp_veq, Hwv|].
      eapply veq_trans; [exact V|apply stamp_veq, Hwv].
    - intros O' O Pos.
      destruct (stamp_hash_ok H wv n' t' O' Pos) as (_ & _ & -> & _).
      destruct (stamp_hash_ok H wv n t O Pos) as (_ & _ & -> & _).
      apply pure_hash_ext, veq_shape_eq, V.
  Qed.
End LegacyProofs.

(** ** The mixed fetch *)
Theorem fetch_any_legacy newst legst nk :
  length nk = 32%nat ->
  fetch_any newst legst nk =
    match lfind nk legst with Some b => FFound true b | None => FMissing end.
Proof. intros L. unfold fetch_any. rewrite L. reflexivity. Qed.

Theorem fetch_any_new newst legst nk b :
  length nk <> 32%nat -> lfind nk newst = Some b -> fetch_any newst legst nk = FFound false b.
Proof.
  intros L F. unfold fetch_any. apply Nat.eqb_neq in L. rewrite L, F. reflexivity.
Qed.

(** ** Item 9 (finding C16-history-rewritten).
    One legacy version (all its nodes carry version 1): the root and its right leaf are
    different nodes with different hashes, but both are re-saved under the node key (1, 0).
    Re-saving the root (a commit without writes on the legacy version), then the leaf (after a
    removal collapsed the tree to it and nothing else changed) overwrites the entry an older
    version refers to: that version now reads a leaf where it had a two-leaf tree. *)
Definition c16_leaf_a : node := Leaf [97%N] [49%N] (Meta 1 0 []).
Definition c16_leaf_b : node := Leaf [98%N] [50%N] (Meta 1 0 []).
Definition c16_root : node := Inner [98%N] 1 2 (Meta 1 0 []) c16_leaf_a c16_leaf_b.

Theorem legacy_key_collision_refuted :
  exists (t : node) (h1 h2 : bytes) (n1 n2 : raw_legacy_node),
    In (h1, n1) (legacy_nodes sha256 t) /\ In (h2, n2) (legacy_nodes sha256 t) /\
    h1 <> h2 /\ n1 <> n2 /\ ln_version n1 = ln_version n2 /\
    resave_key n1 = resave_key n2 /\
    (* the second re-save replaces what the first one wrote under the shared key *)
    let key := fst (resave_entry h1 n1) in
    let st1 := lput (resave_entry h1 n1) [] in
    let st2 := lput (resave_entry h2 n2) st1 in
    option_map (fun b => dmap rn_height (decode_node key b)) (lfind key st1) = Some (DOk 1) /\
    option_map (fun b => dmap rn_height (decode_node key b)) (lfind key st2) = Some (DOk 0).
Proof.
  exists c16_root, (pure_hash sha256 0 c16_root), (pure_hash sha256 0 c16_leaf_b),
         (legacy_raw sha256 c16_root), (legacy_raw sha256 c16_leaf_b).
  split; [left; reflexivity|]. split; [right; right; left; reflexivity|].
  split; [vm_compute; discriminate|]. split; [vm_compute; discriminate|].
  split; [reflexivity|]. split; [reflexivity|]. split; vm_compute; reflexivity.
Qed.

(** ** Boolean checkers for the hypotheses of [legacy_roundtrip] (used by the examples) *)
Definition in_int8b (z : Z) : bool := (-128 <=? z) && (z <=? 127).
Definition in_int64b (z : Z) : bool := (- 2 ^ 63 <=? z) && (z <? 2 ^ 63).
Definition shortb (b : bytes) : bool := (N.of_nat (length b) <? 2 ^ 63 - 1)%N.

Fixpoint legacy_okb (H : bytes -> bytes) (t : node) : bool :=
  match t with
  | Leaf k v m => in_int64b (ver m) && shortb k && shortb v
  | Inner k h s m l r =>
      in_int8b h && negb (h =? 0) && in_int64b s && in_int64b (ver m) && shortb k &&
      (length (pure_hash H 0 l) =? 32)%nat && (length (pure_hash H 0 r) =? 32)%nat &&
      legacy_okb H l && legacy_okb H r
  end.

Lemma legacy_okb_sound H t : legacy_okb H t = true -> legacy_ok H t.
Proof.
  induction t as [k v m|k h s m l IHl r IHr]; cbn [legacy_okb legacy_ok legacy_raw]; intros B.
  - repeat (apply andb_prop in B; destruct B as [B ?]).
    unfold in_int64b, shortb in *.
    repeat match goal with
           | X : (_ && _)%bool = true |- _ => apply andb_prop in X; destruct X
           end.
    split; [|exact I]. unfold wf_legacy, in_int8, in_int64, short.
    cbn [ln_height ln_size ln_version ln_key ln_value ln_left ln_right Z.eqb].
    repeat split; try lia; eauto.
    exists v. split; [reflexivity|]. unfold short. lia.
  - repeat (apply andb_prop in B; destruct B as [B ?]).
    unfold in_int8b, in_int64b, shortb in *.
    repeat match goal with
           | X : (_ && _)%bool = true |- _ => apply andb_prop in X; destruct X
           end.
    split; [|split; auto].
    unfold wf_legacy, in_int8, in_int64, short.
    cbn [ln_height ln_size ln_version ln_key ln_value ln_left ln_right].
    match goal with X : negb (h =? 0) = true |- _ => apply negb_true_iff in X; rewrite X end.
    repeat match goal with
           | X : (_ =? _)%nat = true |- _ => apply Nat.eqb_eq in X
           end.
    repeat split; try lia; auto.
Qed.

Fixpoint nodupb (l : list bytes) : bool :=
  match l with
  | [] => true
  | x :: r => negb (existsb (bytes_eqb x) r) && nodupb r
  end.

Lemma nodupb_sound l : nodupb l = true -> NoDup l.
Proof.
  induction l as [|x l IH]; cbn [nodupb]; intros B; [constructor|].
  apply andb_prop in B. destruct B as [B1 B2]. constructor; [|auto].
  intros I. apply negb_true_iff in B1.
  assert (existsb (bytes_eqb x) l = true); [|congruence].
  apply existsb_exists. exists x. split; [exact I|apply bytes_eqb_refl].
Qed.
