(** PruneFaultFacts4: deleteVersion and the loop over the versions with a failing storage call
    ([dv_f_ok], [range_f_ok]): either no call failed and the result is PruneAlgo's, or the run
    stops with an error, its writes are a prefix of PruneAlgo's, and what it leaves behind is safe
    for the versions that are not being deleted. *)
From Coq Require Import Lia.
From IAVL Require Import Bytes Varint Tree VMap TreeFacts MTree MTreeFacts HashFacts VersionFacts
  Store StoreFacts PruneAlgo PruneAlgoFacts1 PruneAlgoFacts2 PruneAlgoFacts3 PruneAlgoFacts4
  PruneAlgoFacts5 PruneAlgoFacts6 PruneFault PruneFaultFacts1 PruneFaultFacts2 PruneFaultFacts3.
Local Open Scope Z_scope.

Section Outcome2.
  Variable fK : forest_t.
  Variable bK : Z.

  Definition outcome2 (r : pres pdb * rkc) (st : pres unit) (c' : rkc) (s s' : fdb) : Prop :=
    wadv s s' /\
    ((live s' /\ rel2 r st c' s') \/
     (~ live s' /\ st = PErr /\ ERR fK bK (fp s') /\ wpre (fp s) (fp s') /\
      forall pfin cfin, r = (POk pfin, cfin) -> wpre (fp s') pfin)).

  Lemma outcome2_dead r c s0 s :
    wadv s0 s -> ~ live s -> ERR fK bK (fp s) -> wpre (fp s0) (fp s) ->
    (forall pfin cfin, r = (POk pfin, cfin) -> wpre (fp s) pfin) -> outcome2 r PErr c s0 s.
  Proof. intros A D E W F. split; [exact A|]. right. auto. Qed.

  Lemma outcome2_shift r st c' s0 s s' :
    outcome2 r st c' s s' -> wadv s0 s -> wpre (fp s0) (fp s) -> outcome2 r st c' s0 s'.
  Proof.
    intros (A & B) A0 W0. split; [exact (wadv_trans _ _ _ A0 A)|].
    destruct B as [B|(D & E & Er & W & F)]; [left; exact B|right].
    split; [exact D|]. split; [exact E|]. split; [exact Er|]. split; [exact (wpre_trans _ _ _ W0 W)|exact F].
  Qed.

  (** a failing READ: the [pdb] is untouched *)
  Lemma outcome2_dead_read r c s0 s :
    adv s0 s -> ~ live s -> ERR fK bK (fp s0) ->
    (forall pfin cfin, r = (POk pfin, cfin) -> wpre (fp s0) pfin) -> outcome2 r PErr c s0 s.
  Proof.
    intros A D E F. pose proof A as (Ep & _). apply outcome2_dead; auto.
    - apply adv_wadv, A.
    - rewrite Ep. exact E.
    - rewrite Ep. apply wpre_refl.
    - rewrite Ep. exact F.
  Qed.
End Outcome2.

Section VersionF.
  Variable H : bytes -> bytes.
  Variable f0 : forest_t.
  Variable iv : Z.
  Hypothesis FI : forest_inv f0.
  Hypothesis ND : NoDup (map fst f0).
  Hypothesis OK0 : forest_ok f0 iv.
  Hypothesis WF0 : forall w t, In (w, Some t) f0 -> wf t.
  Hypothesis NC0 : forall w t u c, In (w, Some t) f0 -> subtree u t -> subtree c t ->
                                   fhash H u = fhash H c -> u = c.
  Variable fuel : nat.
  Hypothesis Hfuel : forall w t, In (w, Some t) f0 -> (2 * ncount t + 1 <= fuel)%nat.

  Section OneF.
    Variables (v : Z) (rv rn : option node) (f'' : forest_t) (done : forest_t).
    Notation f' := ((v + 1, rn) :: f'').
    Notation fc := ((v, rv) :: (v + 1, rn) :: f'').
    Hypothesis Suffix : f0 = done ++ fc.
    Hypothesis Hz : map fst fc = zseq v (length fc).
    (** the versions that are not being deleted *)
    Variables (fK : forest_t) (bK : Z).
    Hypothesis HK2 : incl fK f'.
    Hypothesis HKb : v + 1 <= bK.

    Lemma Xfc_incl : incl fc f0.
    Proof. exact (fc_incl f0 v rv rn f'' done Suffix). Qed.

    Lemma Xf'_incl0 : incl f' f0.
    Proof. intros x I. apply Xfc_incl. right. exact I. Qed.

    Lemma HK1 x : sub_of fK x -> sub_of f' x.
    Proof. intros (w & t & I & S). exists w, t. split; [apply HK2, I|exact S]. Qed.

    Lemma HK1c x : sub_of fK x -> sub_of fc x.
    Proof. intros Sx. destruct (HK1 x Sx) as (w & t & I & S). exists w, t. split; [right; exact I|exact S]. Qed.

    Lemma ERR_fc p r :
      PIx f0 p (sub_of fc) fc fc r v -> ERR fK bK p.
    Proof.
      intros [_ P]. apply (ERR_of_PI fK bK p _ fc r v _ P); [exact HK1c| |lia].
      intros x I. right. apply HK2, I.
    Qed.

    Lemma ERR_f' p ro r b :
      PIx f0 p (sub_of f') ro f' r b -> b <= bK -> ERR fK bK p.
    Proof. intros [_ P] Hb. apply (ERR_of_PI fK bK p _ f' r b _ P); [exact HK1|exact HK2|exact Hb]. Qed.

    (** *** after the orphans: the re-keying *)
    Lemma tail_f_ok s c2 r st c' s' :
      PIx f0 (fp s) (sub_of f') f' f' r v -> cache_ok c2 (disk (fp s)) f' (v + 1) -> live s ->
      tail_f v s c2 = (st, c', s') ->
      outcome2 fK bK (dv_tail v (fp s) c2) st c' s s'.
    Proof.
      intros PX C2 Lv Q. pose proof PX as [Cx P]. pose proof (pi_disk _ _ _ _ _ _ P) as S.
      pose proof (ERR_f' (fp s) f' r v PX ltac:(lia)) as ERRp.
      assert (Wfin : forall pfin cfin, dv_tail v (fp s) c2 = (POk pfin, cfin) -> wpre (fp s) pfin).
      { intros pfin cfin E. exact (tail_wpre _ _ _ _ _ E). }
      destruct (rkc_get_ok (sub_of f') f' v (disk (fp s)) c2 (v + 1) (v + 1) rn S
                  (f'_roots_live v rn f'') (f'_nodup f0 ND v rv rn f'' done Suffix) C2
                  ltac:(lia) ltac:(left; reflexivity)) as (nextk & c3 & E3 & R3 & C3).
      unfold tail_f in Q. destruct (rkc_get_f c2 s (v + 1)) as [[x cx] s1] eqn:G.
      destruct (rkc_get_f_spec c2 s (v + 1) x cx s1 G Lv) as (A1 & B1).
      destruct B1 as [[L1 Ex]|[D1 ->]].
      2:{ inversion Q; subst. apply outcome2_dead_read; auto. }
      rewrite E3 in Ex. inversion Ex; subst x cx. clear Ex. pose proof A1 as (E1 & _).
      cbv beta iota zeta in Q.
      assert (Plain : dv_tail v (fp s) c2 = (POk (fp s), c3) -> (POk tt, c3, s1) = (st, c', s') ->
                outcome2 fK bK (dv_tail v (fp s) c2) st c' s s').
      { intros Ed Q'. inversion Q'; subst. split; [apply adv_wadv, A1|]. left. split; [exact L1|].
        rewrite Ed. split; [exact E1|reflexivity]. }
      assert (Ed0 : dv_tail v (fp s) c2 =
                match nextk with
                | Some nk =>
                    if keqb nk (v, 1) then
                      match get_node (disk (fp s)) nk with
                      | None => (PErr, c3)
                      | Some root =>
                          (POk (pwrite (pwrite (fp s) (set_node ((v, 0), ENode root))) (del_node (v, 1))), c3)
                      end
                    else (POk (fp s), c3)
                | None => (POk (fp s), c3)
                end).
      { unfold dv_tail. rewrite E3. reflexivity. }
      destruct nextk as [nk|]; [|exact (Plain Ed0 Q)].
      destruct (keqb nk (v, 1)) eqn:K; [|exact (Plain Ed0 Q)].
      apply keqb_true in K. subst nk.
      destruct (opt_cases rn) as [(tn & Ern)|Ern]; rewrite Ern in R3; cbn [rval] in R3; [|contradiction].
      assert (Ltn : sub_of f' tn).
      { exists (v + 1), tn. split; [left; rewrite Ern; reflexivity|apply sub_refl]. }
      pose proof (get_node_keyok (sub_of f') f' v (disk (fp s)) (v, 1) tn S Ltn R3) as Gn.
      rewrite Gn in Ed0.
      assert (Kt : node_key tn = (v, 1)).
      { destruct R3 as [Q0|(_ & Q0 & _)]; [symmetry; exact Q0|inversion Q0]. }
      set (o1 := set_node ((v, 0), ENode (snode_of tn))) in *.
      set (p3 := pwrite (fp s) o1) in *.
      assert (ERR3 : ERR fK bK p3).
      { apply ERR_pwrite; [exact ERRp|]. unfold o1. rewrite sapply_set.
        pose proof (proj1 (pi_Vgood _ _ _ _ _ _ P)) as SV.
        assert (HL : forall u, sub_of f' u -> sub_of f0 u).
        { intros u (w & t & I & Su). exists w, t. split; [apply Xf'_incl0, I|exact Su]. }
        pose proof (safe_mset0 f0 FI (sub_of f') f' v (Vof (fp s)) tn HL SV Ltn Kt) as S3.
        exact (safe_anti _ _ _ _ _ _ _ S3 HK1 HK2 HKb). }
      destruct (get_node_f s1 (v, 1)) as [y s2] eqn:G2.
      destruct (get_node_f_spec s1 (v, 1) y s2 G2 L1) as (A2 & B2).
      pose proof (adv_trans _ _ _ A1 A2) as A12. pose proof A12 as (E2 & _).
      destruct B2 as [[L2 ->]|[D2 ->]].
      2:{ inversion Q; subst. apply outcome2_dead_read; auto. }
      rewrite E1, Gn in Q. change (set_node ((v, 0), ENode (snode_of tn))) with o1 in Q.
      destruct (pwrite_f s2 o1) as [ok1 s3] eqn:W1.
      destruct (pwrite_f_spec s2 o1 ok1 s3 W1 L2) as (A3 & B3). rewrite E2 in B3.
      pose proof (wadv_trans _ _ _ (adv_wadv _ _ A12) A3) as A13.
      destruct B3 as [(-> & L3 & E3')|(-> & D3 & E3')].
      2:{ inversion Q; subst. apply outcome2_dead; auto.
          - exact (ERR_failed fK bK (fp s) _ ERRp E3').
          - destruct E3' as [->| ->]; [apply wpre_refl|apply wpre_pflushed_r, wpre_refl].
          - intros pfin cfin Ef. apply Wfin in Ef.
            destruct E3' as [->| ->]; [exact Ef|apply wpre_pflushed_l, Ef]. }
      fold p3 in E3'.
      destruct (pwrite_f s3 (del_node (v, 1))) as [ok2 s4] eqn:W2.
      destruct (pwrite_f_spec s3 _ ok2 s4 W2 L3) as (A4 & B4). rewrite E3' in B4.
      pose proof (wadv_trans _ _ _ A13 A4) as A14.
      destruct B4 as [(-> & L4 & E4)|(-> & D4 & E4)].
      - inversion Q; subst. split; [exact A14|]. left. split; [exact L4|].
        rewrite Ed0. split; [exact E4|reflexivity].
      - inversion Q; subst. apply outcome2_dead; auto.
        + exact (ERR_failed fK bK p3 _ ERR3 E4).
        + destruct E4 as [->| ->]; [|apply wpre_pflushed_r]; apply wpre_pwrite.
        + intros pfin cfin Ef. rewrite Ed0 in Ef. inversion Ef; subst.
          destruct E4 as [->| ->]; [|apply wpre_pflushed_l]; apply wpre_pwrite.
    Qed.

    (** *** traverseOrphans *)
    Lemma traverse_f_ok s c1 r tv st c' s' :
      rv = Some tv ->
      PIx f0 (fp s) (sub_of fc) fc fc r v -> cache_ok c1 (disk (fp s)) fc v -> live s ->
      traverse_f H true fuel v s c1 = (st, c', s') ->
      outcome2 fK bK (traverse_orphans H fuel v (fp s) c1) st c' s s'.
    Proof.
      intros Erv PX C1 Lv Q. pose proof PX as [Cx P].
      pose proof (pi_disk _ _ _ _ _ _ P) as S.
      pose proof (ERR_fc (fp s) r PX) as ERRp.
      assert (Wfin : forall pfin cfin, traverse_orphans H fuel v (fp s) c1 = (POk pfin, cfin) -> wpre (fp s) pfin).
      { intros pfin cfin E. exact (traverse_wpre H _ _ _ _ _ _ E). }
      assert (Itv : In (v, Some tv) f0) by (apply Xfc_incl; left; rewrite Erv; reflexivity).
      pose proof (fc_roots_live v rv rn f'') as RL.
      pose proof (fc_nodup f0 ND v rv rn f'' done Suffix) as NDc.
      destruct (rkc_get_ok (sub_of fc) fc v (disk (fp s)) c1 v (v + 1) rn S RL NDc C1
                  ltac:(lia) ltac:(right; left; reflexivity)) as (curk & c2 & E1 & R1 & C2).
      destruct (rkc_get_ok (sub_of fc) fc v (disk (fp s)) c2 v v rv S RL NDc C2
                  ltac:(lia) ltac:(left; reflexivity)) as (prevk & c3 & E2 & R2 & C3).
      rewrite Erv in R2. destruct prevk as [pk|]; [|contradiction]. cbn [rval] in R2.
      assert (Ltv : sub_of fc tv) by (exists v, tv; split; [left; rewrite Erv; reflexivity|apply sub_refl]).
      destruct (nit_new_some (sub_of fc) fc v (disk (fp s)) pk tv S Ltv R2) as (prev & En2 & Sp).
      assert (Itn : forall tn, rn = Some tn -> In (v + 1, Some tn) f0).
      { intros tn E. apply Xfc_incl. right. left. rewrite E. reflexivity. }
      assert (Ltn : forall tn, rn = Some tn -> sub_of fc tn).
      { intros tn E. exists (v + 1), tn. split; [right; left; rewrite E; reflexivity|apply sub_refl]. }
      assert (Cur : exists cur, nit_new (disk (fp s)) curk = Some cur /\ stk (disk (fp s)) cur (olist rn)).
      { destruct (opt_cases rn) as [(tn & Ern)|Ern]; rewrite Ern in R1 |- *;
          destruct curk as [ck|]; cbn [rval] in R1; try contradiction.
        - exact (nit_new_some (sub_of fc) fc v (disk (fp s)) ck tn S (Ltn tn Ern) R1).
        - exists (Nit [] false). apply nit_new_none. }
      destruct Cur as (cur & En1 & Sc).
      assert (Et : traverse_orphans H fuel v (fp s) c1 = (orphans_loop H fuel v (fp s) cur prev None, c3)).
      { unfold traverse_orphans. rewrite E1. cbv beta iota. rewrite En1, E2. cbv beta iota. rewrite En2. reflexivity. }
      (* the run with the failing call *)
      unfold traverse_f in Q.
      destruct (rkc_get_f c1 s (v + 1)) as [[x1 cx1] s1] eqn:G1.
      destruct (rkc_get_f_spec c1 s (v + 1) x1 cx1 s1 G1 Lv) as (A1 & B1).
      destruct B1 as [[L1 Ex]|[D1 ->]].
      2:{ inversion Q; subst st c' s'. apply outcome2_dead_read; auto. }
      rewrite E1 in Ex. inversion Ex; subst x1 cx1. clear Ex. pose proof A1 as (Ep1 & _).
      destruct (nit_new_f s1 curk) as [y1 s2] eqn:N1.
      destruct (nit_new_f_spec s1 curk y1 s2 N1 L1) as (A2 & B2).
      pose proof (adv_trans _ _ _ A1 A2) as A12. pose proof A12 as (Ep2 & _).
      destruct B2 as [[L2 ->]|[D2 ->]].
      2:{ inversion Q; subst st c' s'. apply outcome2_dead_read; auto. }
      rewrite Ep1, En1 in Q.
      destruct (rkc_get_f c2 s2 v) as [[x2 cx2] s3] eqn:G2.
      destruct (rkc_get_f_spec c2 s2 v x2 cx2 s3 G2 L2) as (A3 & B3).
      pose proof (adv_trans _ _ _ A12 A3) as A13. pose proof A13 as (Ep3 & _).
      destruct B3 as [[L3 Ex]|[D3 ->]].
      2:{ inversion Q; subst st c' s'. apply outcome2_dead_read; auto. }
      rewrite Ep2, E2 in Ex. inversion Ex; subst x2 cx2. clear Ex.
      destruct (nit_new_f s3 (Some pk)) as [y2 s4] eqn:N2.
      destruct (nit_new_f_spec s3 (Some pk) y2 s4 N2 L3) as (A4 & B4).
      pose proof (adv_trans _ _ _ A13 A4) as A14. pose proof A14 as (Ep4 & _).
      destruct B4 as [[L4 ->]|[D4 ->]].
      2:{ inversion Q; subst st c' s'. apply outcome2_dead_read; auto. }
      rewrite Ep3, En2 in Q.
      destruct (orphans_loop_g H true fuel v s4 cur prev None) as [r0 s5] eqn:Lp.
      inversion Q; subst st c' s'. clear Q.
      (* the loop *)
      assert (PX0 : PIx f0 (fp s) (Lof f' [tv]) fc f' r v).
      { apply (PIx_relax f0 (fp s) _ fc fc r v f' v); [|apply incl_tl, incl_refl|lia].
        apply (PIx_ext f0 (fp s) (sub_of fc)); [|exact PX].
        intros x. unfold Lof. cbn [flat_map]. rewrite app_nil_r, pre_In. split.
        - intros (w & t & [Q0|I] & Sx).
          + inversion Q0; subst w. rewrite Erv in H2. inversion H2; subst t. right. exact Sx.
          + left. exists w, t. auto.
        - intros [(w & t & I & Sx)|Sx].
          + exists w, t. split; [right; exact I|exact Sx].
          + exists v, tv. split; [left; rewrite Erv; reflexivity|exact Sx]. }
      pose proof (HA_v H f0 iv FI ND OK0 WF0 NC0 fuel Hfuel v rv rn f'' done Suffix Hz tv Erv) as HAv.
      pose proof (HN_v f0 iv FI ND OK0 v rv rn f'' done Suffix Hz tv Erv) as HNv.
      pose proof (HS_v f0 v rv rn f'' done Suffix Hz) as HSv.
      assert (Ieq : flat_map (mx (PB rn)) [tv] = olist (@None node) ++ flat_map (mx (PA v)) (olist rn)).
      { cbn [flat_map olist app]. rewrite app_nil_r.
        destruct (opt_cases rn) as [(tn & Ern)|Ern]; rewrite Ern; cbn [olist flat_map].
        - rewrite app_nil_r.
          apply (mx_common (PA v) (PB (Some tn)) tv tn (WF0 _ _ Itv) (WF0 _ _ (Itn tn Ern))).
          + intros x Sx. unfold PA. rewrite Z.leb_le. apply HAv. exists tn. auto.
          + intros x Sx. rewrite PB_true. split.
            * intros (t & Q0 & A). inversion Q0; subst. exact A.
            * intros A. exists tn. auto.
        - apply mx_none. intros x _. reflexivity. }
      assert (LI0 : LI f0 v f' tv rn fc r (fp s4) cur prev None (olist rn) [tv] None).
      { rewrite Ep4. constructor; auto.
        - intros c Ic. destruct (opt_cases rn) as [(tn & Ern)|Ern]; rewrite Ern in Ic; [|contradiction].
          destruct Ic as [<-|[]]. exists tn. split; [exact Ern|apply sub_refl].
        - intros c Q0. discriminate.
        - cbn [flat_map]. rewrite app_nil_r. apply pre_NoDup, (WF0 _ _ Itv).
        - intros x [<-|[]]. apply sub_refl. }
      assert (Fu : (msum (olist rn) + msum [tv] + 1 <= fuel)%nat).
      { pose proof (Hfuel _ _ Itv) as F1. cbn [msum fold_right].
        destruct (opt_cases rn) as [(tn & Ern)|Ern]; rewrite Ern; cbn [olist msum fold_right]; [|lia].
        pose proof (Hfuel _ _ (Itn tn Ern)) as F2. lia. }
      pose proof (loop_f_ok H f0 FI v f' tv rn fc r (ex_intro _ v Itv) HAv HNv HSv
                    (fun u c Su Sc => NC0 v tv u c Itv Su Sc) fK bK HK1 HK2 Xf'_incl0 ltac:(lia)
                    fuel s4 cur prev None (olist rn) [tv] None r0 s5 LI0 Fu L4 Lp) as (A5 & B5).
      rewrite Ep4 in B5. rewrite Et.
      split; [exact (wadv_trans _ _ _ (adv_wadv _ _ A14) A5)|].
      destruct B5 as [[L5 R5]|(D5 & -> & Er5 & W5 & F5)].
      - left. split; [exact L5|]. unfold rel2. cbn [fst snd]. split; [exact R5|].
        destruct r0; reflexivity.
      - right. split; [exact D5|]. split; [reflexivity|]. split; [exact Er5|].
        split; [exact W5|]. intros pfin cfin Ef. inversion Ef. apply F5. assumption.
    Qed.

    (** *** deleteVersion *)
    Theorem dv_f_ok s c r st c' s' :
      ST f0 (fp s) c fc r v -> live s ->
      delete_version_f H true fuel v s c = (st, c', s') ->
      outcome2 fK bK (delete_version H fuel v (fp s) c) st c' s s'.
    Proof.
      intros [PX C] Lv Q. pose proof PX as [Cx P]. pose proof (pi_disk _ _ _ _ _ _ P) as S.
      pose proof (ERR_fc (fp s) r PX) as ERRp.
      assert (Wfin : forall pfin cfin, delete_version H fuel v (fp s) c = (POk pfin, cfin) -> wpre (fp s) pfin).
      { intros pfin cfin E. exact (delete_version_wpre H _ _ _ _ _ _ E). }
      pose proof (fc_roots_live v rv rn f'') as RL.
      pose proof (fc_nodup f0 ND v rv rn f'' done Suffix) as NDc.
      pose proof (f'_roots_live v rn f'') as RL'.
      pose proof (v_notin_f' v rv rn f'' Hz) as NI.
      destruct (rkc_get_ok (sub_of fc) fc v (disk (fp s)) c v v rv S RL NDc C
                  ltac:(lia) ltac:(left; reflexivity)) as (rootk & c1 & E1 & R1 & C1).
      unfold delete_version_f in Q.
      destruct (rkc_get_f c s v) as [[x cx] s1] eqn:G.
      destruct (rkc_get_f_spec c s v x cx s1 G Lv) as (A1 & B1).
      destruct B1 as [[L1 Ex]|[D1 ->]].
      2:{ inversion Q; subst st c' s'. apply outcome2_dead_read; auto. }
      rewrite E1 in Ex. inversion Ex; subst x cx. clear Ex. pose proof A1 as (Ep1 & _).
      cbv beta iota zeta in Q.
      (* the tail, common to both cases *)
      assert (Tail : forall p1 c2 s3,
                delete_version H fuel v (fp s) c = dv_tail v (dv_p2 v rootk p1) c2 ->
                wpre (fp s) (dv_p2 v rootk p1) ->
                wadv s s3 -> live s3 -> fp s3 = dv_p2 v rootk p1 ->
                PIx f0 (dv_p2 v rootk p1) (sub_of f') f' f' r v ->
                cache_ok c2 (disk (dv_p2 v rootk p1)) f' (v + 1) ->
                tail_f v s3 c2 = (st, c', s') ->
                outcome2 fK bK (delete_version H fuel v (fp s) c) st c' s s').
      { intros p1 c2 s3 Ed Wp A3 L3 E3 PX2 C2 Qt. rewrite Ed, <- E3.
        apply (outcome2_shift fK bK _ st c' s s3 s'); [|exact A3|rewrite E3; exact Wp].
        apply (tail_f_ok s3 c2 r st c' s'); auto; rewrite E3; assumption. }
      destruct (opt_cases rv) as [(tv & Erv)|Erv]; rewrite Erv in R1.
      - (* a non-empty tree *)
        destruct rootk as [k|]; [|contradiction]. cbn [rval] in R1.
        destruct (traverse_ok H f0 iv FI ND OK0 WF0 NC0 fuel Hfuel v rv rn f'' done Suffix Hz
                    (fp s) c1 r tv Erv PX C1) as (p1 & c3 & Et & PX1 & Tr & C3).
        assert (Ed : delete_version H fuel v (fp s) c = dv_tail v (dv_p2 v (Some k) p1) c3).
        { rewrite dv_eq, E1. cbv beta iota zeta. unfold dv_step1. rewrite Et. reflexivity. }
        assert (W1 : wpre (fp s) p1) by exact (traverse_wpre H _ _ _ _ _ _ Et).
        assert (W2 : forall pfin cfin, delete_version H fuel v (fp s) c = (POk pfin, cfin) -> wpre p1 pfin).
        { intros pfin cfin Ef. rewrite Ed in Ef.
          exact (wpre_trans _ _ _ (p2_wpre v (Some k) p1) (tail_wpre _ _ _ _ _ Ef)). }
        assert (ERR1 : ERR fK bK p1) by (apply (ERR_f' p1 fc r v PX1); lia).
        assert (C3t : cache_ok c3 (disk p1) f' (v + 1)).
        { apply (cache_ok_transport c3 (disk (fp s))).
          - apply (cache_ok_shift c3 (disk (fp s)) v rv f' v (v + 1) C3); lia.
          - intros w t k0 I K0. apply Tr; [exists w, t; split; [exact I|apply sub_refl]|exact K0]. }
        unfold step1_f in Q.
        destruct (traverse_f H true fuel v s1 c1) as [[y cy] s2] eqn:T.
        assert (PXs1 : PIx f0 (fp s1) (sub_of fc) fc fc r v) by (rewrite Ep1; exact PX).
        assert (C1s1 : cache_ok c1 (disk (fp s1)) fc v) by (rewrite Ep1; exact C1).
        pose proof (traverse_f_ok s1 c1 r tv y cy s2 Erv PXs1 C1s1 L1 T) as (A2 & B2).
        rewrite Ep1 in B2. rewrite Et in B2.
        pose proof (wadv_trans _ _ _ (adv_wadv _ _ A1) A2) as A12.
        destruct B2 as [[L2 [R2 Rc]]|(D2 & -> & Er2 & W2' & F2)].
        2:{ inversion Q; subst st c' s'. apply outcome2_dead; auto.
            intros pfin cfin Ef. exact (wpre_trans _ _ _ (F2 p1 c3 eq_refl) (W2 pfin cfin Ef)). }
        cbn [fst snd] in R2, Rc. destruct y as [[]| | |]; cbn [rel] in R2; try contradiction.
        subst cy. unfold p2_f in Q.
        destruct (keqb k (v, 1)) eqn:Kk.
        + (* the root node sits under (v,1): no root entry *)
          apply keqb_true in Kk. subst k.
          assert (Kt : node_key tv = (v, 1)).
          { destruct R1 as [Q0|(_ & Q0 & _)]; [symmetry; exact Q0|inversion Q0]. }
          assert (Er : root_entry v rv = None) by (rewrite Erv; apply root_entry_root, Kt).
          assert (Ep2 : dv_p2 v (Some (v, 1)) p1 = p1).
          { unfold dv_p2. rewrite (proj2 (keqb_true _ _) eq_refl). reflexivity. }
          apply (Tail p1 c3 s2 Ed); rewrite ?Ep2; auto.
          exact (PIx_root_entry_none f0 p1 (sub_of f') f' f' r v v rv PX1 (incl_refl _) Er).
        + assert (Kt : keqb (node_key tv) (v, 1) = false).
          { destruct R1 as [Q0|(N1 & Q0 & Pr)]; [rewrite <- Q0; exact Kk|].
            apply keqb_false. unfold node_key. intros Q'. inversion Q' as [[Qv Qn]].
            destruct S as (_ & _ & _ & _ & Db).
            destruct (mfind kcmp k (disk (fp s))) as [e|] eqn:F; [|congruence]. rewrite Q0 in F.
            specialize (Db _ _ F). lia. }
          assert (Er : root_entry v rv = Some ((v, 1), ERef (node_key tv))).
          { rewrite Erv. unfold root_entry. rewrite Kt. reflexivity. }
          assert (Ep2 : dv_p2 v (Some k) p1 = pwrite p1 (del_node (v, 1))).
          { unfold dv_p2. rewrite Kk. reflexivity. }
          destruct (pwrite_f s2 (del_node (v, 1))) as [ok s3] eqn:W.
          destruct (pwrite_f_spec s2 _ ok s3 W L2) as (A3 & B3). rewrite R2 in B3.
          pose proof (wadv_trans _ _ _ A12 A3) as A13.
          destruct B3 as [(-> & L3 & E3)|(-> & D3 & E3)].
          2:{ inversion Q; subst st c' s'. apply outcome2_dead; auto.
              - exact (ERR_failed fK bK p1 _ ERR1 E3).
              - destruct E3 as [->| ->]; [|apply wpre_pflushed_r]; exact W1.
              - intros pfin cfin Ef. specialize (W2 pfin cfin Ef).
                destruct E3 as [->| ->]; [|apply wpre_pflushed_l]; exact W2. }
          apply (Tail p1 c3 s3 Ed); rewrite ?Ep2; auto.
          * exact (wpre_trans _ _ _ W1 (wpre_pwrite _ _)).
          * exact (PIx_root_entry_del f0 FI p1 (sub_of f') f' f' r v v rv _ _ PX1 (incl_refl _) NI Er).
          * exact (cache_pwrite f0 p1 _ (sub_of f') fc f' r v c3 f' (v + 1) PX1 RL' C3t).
      - (* an empty tree *)
        destruct rootk as [k|]; [contradiction|].
        assert (Ed : delete_version H fuel v (fp s) c = dv_tail v (dv_p2 v None (fp s)) c1).
        { rewrite dv_eq, E1. reflexivity. }
        assert (Ep2 : dv_p2 v None (fp s) = pwrite (fp s) (del_node (v, 1))) by reflexivity.
        assert (PXa : PIx f0 (fp s) (sub_of f') fc f' r v).
        { apply (PIx_relax f0 (fp s) _ fc fc r v f' v); [|apply incl_tl, incl_refl|lia].
          apply (PIx_ext f0 (fp s) (sub_of fc)); [|exact PX].
          intros x. split.
          - intros (w & t & [Q0|I] & Sx); [inversion Q0; congruence|exists w, t; auto].
          - intros (w & t & I & Sx). exists w, t. split; [right; exact I|exact Sx]. }
        assert (Er : root_entry v rv = Some ((v, 1), EEmpty)) by (rewrite Erv; reflexivity).
        unfold step1_f, p2_f in Q.
        destruct (pwrite_f s1 (del_node (v, 1))) as [ok s3] eqn:W.
        destruct (pwrite_f_spec s1 _ ok s3 W L1) as (A3 & B3). rewrite Ep1 in B3.
        pose proof (wadv_trans _ _ _ (adv_wadv _ _ A1) A3) as A13.
        destruct B3 as [(-> & L3 & E3)|(-> & D3 & E3)].
        2:{ inversion Q; subst st c' s'. apply outcome2_dead; auto.
            - exact (ERR_failed fK bK (fp s) _ ERRp E3).
            - destruct E3 as [->| ->]; [|apply wpre_pflushed_r]; apply wpre_refl.
            - intros pfin cfin Ef. specialize (Wfin pfin cfin Ef).
              destruct E3 as [->| ->]; [|apply wpre_pflushed_l]; exact Wfin. }
        apply (Tail (fp s) c1 s3 Ed); rewrite ?Ep2; auto.
        + apply wpre_pwrite.
        + exact (PIx_root_entry_del f0 FI (fp s) (sub_of f') f' f' r v v rv _ _ PXa (incl_refl _) NI Er).
        + apply (cache_pwrite f0 (fp s) _ (sub_of f') fc f' r v c1 f' (v + 1) PXa RL').
          apply (cache_ok_shift c1 (disk (fp s)) v rv f' v (v + 1) C1); lia.
    Qed.
  End OneF.

  Lemma skipn_incl {A} n (l : list A) : incl (skipn n l) l.
  Proof. intros x I. rewrite <- (firstn_skipn n l). apply in_or_app. right. exact I. Qed.

  (** *** the loop over the versions *)
  Theorem range_f_ok (fK : forest_t) (bK : Z) : forall (n : nat) fc done v s c r st s',
    f0 = done ++ fc -> map fst fc = zseq v (length fc) -> (n < length fc)%nat ->
    ST f0 (fp s) c fc r v -> live s ->
    incl fK (skipn n fc) -> v + Z.of_nat n <= bK ->
    delete_range_f H true fuel (zseq v n) s c = (st, s') ->
    outcome fK bK (delete_range H fuel (zseq v n) (fp s) c) st s s'.
  Proof.
    induction n as [|n IH]; intros fc done v s c r st s' Suf Hz Ln HS Lv HK Hb Q.
    - cbn [zseq delete_range_f delete_range] in *. inversion Q; subst. split; [apply wadv_refl|].
      left. split; [exact Lv|reflexivity].
    - destruct fc as [|[v0 rv] [|[v1 rn] f'']]; cbn [length] in Ln; try lia.
      assert (E0 : v0 = v /\ v1 = v + 1).
      { cbn [map fst length zseq] in Hz. injection Hz as A B _. auto. }
      destruct E0 as [-> ->].
      cbn [zseq delete_range_f delete_range] in Q |- *.
      assert (HK2 : incl fK ((v + 1, rn) :: f'')).
      { intros x I. apply HK in I. cbn [skipn] in I. exact (skipn_incl n _ x I). }
      destruct (delete_version_ok H f0 iv FI ND OK0 WF0 NC0 fuel Hfuel v rv rn f'' done Suf Hz (fp s) c r HS)
        as (p1 & c1 & E1 & HS1).
      destruct (delete_version_f H true fuel v s c) as [[y cy] s1] eqn:D.
      pose proof (dv_f_ok v rv rn f'' done Suf Hz fK bK HK2 ltac:(lia) s c r y cy s1 HS Lv D) as (A1 & B1).
      rewrite E1 in B1 |- *.
      destruct B1 as [[L1 [R1 Rc]]|(D1 & -> & Er1 & W1 & F1)].
      2:{ inversion Q; subst st s'. apply outcome_dead; auto.
          intros pfin Ef. exact (wpre_trans _ _ _ (F1 p1 c1 eq_refl) (delete_range_wpre H _ _ _ _ _ Ef)). }
      cbn [fst snd] in R1, Rc. destruct y as [[]| | |]; cbn [rel] in R1; try contradiction. subst cy.
      assert (HS1' : ST f0 (fp s1) c1 ((v + 1, rn) :: f'') (rk_next v rn r) (v + 1)) by (rewrite R1; exact HS1).
      rewrite <- R1.
      apply (outcome_shift fK bK _ st s s1 s'); [|exact A1|rewrite R1; exact (delete_version_wpre H _ _ _ _ _ _ E1)].
      apply (IH ((v + 1, rn) :: f'') (done ++ [(v, rv)]) (v + 1) s1 c1 (rk_next v rn r) st s'); auto.
      + rewrite Suf, <- app_assoc. reflexivity.
      + cbn [map fst length zseq] in Hz |- *. injection Hz as Hz'. rewrite Hz'. reflexivity.
      + cbn [length]. lia.
      + lia.
  Qed.
End VersionF.
