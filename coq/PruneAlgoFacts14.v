(** PruneAlgoFacts14: the ORDER of the writes of the physical deleteVersion.

    [spec_elog r f v]: the effective writes of deleteVersion(v) on [phys_of r f], computed from the
    forest alone:
    - the orphans of tree v (its nodes, in pre-order, that are not nodes of tree v+1), each deleted
      under the key it is STORED under ([pkey r u]: [(w,0)] for a re-keyed root, else its own key);
    - the root entry [(v,1)], when the root of v is empty or a reference;
    - [set (v,0) root; del (v,1)] when the root node of tree v+1 has the key [(v,1)].
    [dv_elog]: for every schedule and both flush modes the effective log grows by exactly this
    list; [range_elog]: the loop of deleteVersionsTo by the concatenation; hence the effective log
    does not depend on the schedule ([elog_schedule_independent]).

    What the algorithm really does (found while proving): the write log [wlog] differs from [elog]
    exactly by deletions of ABSENT keys with nonce 1 or 0: an orphan with key [(w,1)], [w < v], is
    asked for under [(w,1)] or, when it was re-keyed and the root key cache resolved it that way,
    under [(w,0)].  Asked under [(w,1)] the code deletes [(w,1)] and [(w,0)]: one of the two is
    stored, the other deletion is ineffective ([(w,1)] when re-keyed, [(w,0)] when not).  Asked
    under [(w,0)] it deletes only [(w,0)].  Which form is asked depends on the flush schedule
    (through the disk the cache read), so [wlog] depends on the schedule while [elog] does not;
    [wrel] states the relation.  All other writes (root entry, re-keying) are always effective. *)
From Coq Require Import Lia.
From IAVL Require Import Bytes Varint Tree VMap TreeFacts MTree MTreeFacts HashFacts VersionFacts
  Store StoreFacts PruneAlgo PruneAlgoFacts1 PruneAlgoFacts2 PruneAlgoFacts3 PruneAlgoFacts4
  PruneAlgoFacts5 PruneAlgoFacts6 PruneAlgoFacts7 PruneAlgoFacts8 PruneAlgoFacts9 PruneAlgoFacts10
  Sha256 Ics23Facts PruneAlgoFacts.
Local Open Scope Z_scope.

(** ** The specification *)
(** is the node key of [u] the key of a node of tree [rn]?  (executable; on a forest satisfying
    [forest_inv] this says that [u] is a node of that tree, [inb_insub] below) *)
Definition inb (rn : option node) (u : node) : bool :=
  match rn with
  | Some tn => mhas kcmp (node_key u) (nodes_of tn)
  | None => false
  end.

Definition spec_orphans (rv rn : option node) : list node :=
  match rv with
  | Some tv => filter (fun u => negb (inb rn u)) (pre tv)
  | None => []
  end.

Definition spec_elog_at (r : list Z) (v : Z) (rv rn : option node) : list wop :=
  map (fun u => del_node (pkey r u)) (spec_orphans rv rn) ++
  (match root_entry v rv with Some _ => [del_node (v, 1)] | None => [] end) ++
  (match rn with
   | Some tn =>
       if keqb (node_key tn) (v, 1)
       then [set_node ((v, 0), ENode (snode_of tn)); del_node (v, 1)] else []
   | None => []
   end).

Definition spec_elog (r : list Z) (f : forest_t) (v : Z) : list wop :=
  match lookup v f, lookup (v + 1) f with
  | Some rv, Some rn => spec_elog_at r v rv rn
  | _, _ => []
  end.

(** the first [n] versions of [fc], with the list of re-keyed versions evolving ([rk_next]) *)
Fixpoint spec_elog_range (n : nat) (fc : forest_t) (r : list Z) : list wop :=
  match n with
  | O => []
  | S n =>
      match fc with
      | (v, rv) :: (((_, rn) :: _) as f') =>
          spec_elog_at r v rv rn ++ spec_elog_range n f' (rk_next v rn r)
      | _ => []
      end
  end.

(** ** The two logs *)

(** [wlog] is [elog] plus deletions (of absent keys) with nonce 0 or 1 *)
Inductive wrel : list wop -> list wop -> Prop :=
| wr_nil : wrel [] []
| wr_keep o wl el : wrel wl el -> wrel (wl ++ [o]) (el ++ [o])
| wr_drop k wl el : snd k = 0 \/ snd k = 1 -> wrel wl el -> wrel (wl ++ [del_node k]) el.

Definition logs_ext (p p' : pdb) (E : list wop) : Prop :=
  elog p' = elog p ++ E /\ (wrel (wlog p) (elog p) -> wrel (wlog p') (elog p')).

Lemma logs_ext_refl p : logs_ext p p [].
Proof. split; [rewrite app_nil_r; reflexivity|auto]. Qed.

Lemma logs_ext_trans a b c E1 E2 : logs_ext a b E1 -> logs_ext b c E2 -> logs_ext a c (E1 ++ E2).
Proof.
  intros [A1 A2] [B1 B2]. split; [rewrite B1, A1, app_assoc; reflexivity|auto].
Qed.

Lemma wlog_pwrite p o : wlog (pwrite p o) = wlog p ++ [o].
Proof.
  unfold pwrite. cbv zeta. destruct (effmode p && negb (effective p o)); [reflexivity|].
  destruct (sched p) as [|[|] rest]; reflexivity.
Qed.

Lemma elog_pwrite p o : elog (pwrite p o) = if effective p o then elog p ++ [o] else elog p.
Proof.
  unfold pwrite. cbv zeta. destruct (effmode p && negb (effective p o)); [reflexivity|].
  destruct (sched p) as [|[|] rest]; reflexivity.
Qed.

Lemma logs_pwrite_eff p o : effective p o = true -> logs_ext p (pwrite p o) [o].
Proof.
  intros E. split; [rewrite elog_pwrite, E; reflexivity|].
  intros W. rewrite wlog_pwrite, elog_pwrite, E. apply wr_keep, W.
Qed.

Lemma logs_pwrite_ineff p k :
  effective p (del_node k) = false -> snd k = 0 \/ snd k = 1 -> logs_ext p (pwrite p (del_node k)) [].
Proof.
  intros E N. split; [rewrite elog_pwrite, E, app_nil_r; reflexivity|].
  intros W. rewrite wlog_pwrite, elog_pwrite, E. apply wr_drop; assumption.
Qed.

Lemma effective_set p k e : effective p (set_node (k, e)) = true.
Proof. reflexivity. Qed.

Lemma effective_del p k (E : nodekey -> entry -> Prop) :
  pst E (Vof p) -> (effective p (del_node k) = true <-> exists e, E k e).
Proof.
  intros [_ F]. unfold effective, del_node. fold (Vof p). rewrite mhas_true. split.
  - intros (e & M). exists e. apply F, M.
  - intros (e & M). exists e. apply F, M.
Qed.

Lemma effective_del_false p k (E : nodekey -> entry -> Prop) :
  pst E (Vof p) -> (forall e, ~ E k e) -> effective p (del_node k) = false.
Proof.
  intros P N. destruct (effective p (del_node k)) eqn:Ef; [|reflexivity].
  apply (effective_del p k E P) in Ef. destruct Ef as (e & X). exfalso. exact (N e X).
Qed.

(** ** The orphan callback: exactly one effective deletion, of the stored key *)
Section Orphan.
  Variable f0 : forest_t.
  Hypothesis FI : forest_inv f0.

  Lemma on_orphan_logs v p (L : node -> Prop) ro sro r k u :
    PIx f0 p L ro sro r v -> L u -> keyok (disk p) k u ->
    (forall w t, In (w, Some t) sro -> t <> u) ->
    logs_ext p (on_orphan v p k) [del_node (pkey r u)].
  Proof.
    intros PX Lu KO NR. pose proof PX as [C P].
    pose proof (live_nonce f0 FI L ro r u (c_desc _ _ _ _ _ _ C) Lu) as Nn.
    assert (Stored : effective p (del_node (pkey r u)) = true).
    { apply (effective_del p _ _ (pi_V _ _ _ _ _ _ P)). exists (ENode (snode_of u)). left. exists u. auto. }
    unfold on_orphan. destruct KO as [->|(N1 & -> & Pr)].
    - cbn [node_key fst snd].
      destruct ((nonce (nmeta u) =? 1) && (ver (nmeta u) <? v)) eqn:T.
      + apply andb_prop in T. destruct T as [T1 T2]. apply Z.eqb_eq in T1. apply Z.ltb_lt in T2.
        destruct (pkey_cases r u) as [(_ & Ir & K)|(NI & K)].
        * (* re-keyed: deleting (w,1) is ineffective, deleting (w,0) removes the node *)
          assert (A : forall e, ~ pentry L ro r (ver (nmeta u), nonce (nmeta u)) e).
          { intros e Pe. destruct (pentry_at_node_key f0 FI L ro r u e (c_desc _ _ _ _ _ _ C) Lu Pe) as [_ K'].
            rewrite K in K'. unfold node_key in K'. inversion K'. lia. }
          pose proof (PIx_del_absent f0 FI p L ro sro r v _ PX A) as [_ P1].
          change ([del_node (pkey r u)]) with ([] ++ [del_node (pkey r u)]).
          apply (logs_ext_trans _ (pwrite p (del_node (node_key u)))).
          -- apply logs_pwrite_ineff; [|right; exact T1].
             exact (effective_del_false p _ _ (pi_V _ _ _ _ _ _ P) A).
          -- rewrite <- K. apply logs_pwrite_eff.
             apply (effective_del _ _ _ (pi_V _ _ _ _ _ _ P1)). exists (ENode (snode_of u)). left. exists u. auto.
        * (* stored under (w,1): deleting (w,0) afterwards is ineffective *)
          pose proof (PIx_del_live f0 FI p L ro sro r v u PX Lu NR) as [C1 P1]. rewrite K in P1.
          change ([del_node (pkey r u)]) with ([del_node (pkey r u)] ++ []).
          apply (logs_ext_trans _ (pwrite p (del_node (node_key u)))).
          -- rewrite <- K. apply logs_pwrite_eff, Stored.
          -- apply logs_pwrite_ineff; [|left; reflexivity].
             apply (effective_del_false _ _ _ (pi_V _ _ _ _ _ _ P1)). intros e Pe.
             destruct (pentry_at_zero f0 FI _ ro r _ e (desc_ok_minus f0 L ro r u (c_desc _ _ _ _ _ _ C)) Pe)
               as (u' & [Lu' Ne] & N1' & V' & Ir & _).
             apply Ne. apply (live_coh f0 FI L ro r); [apply C|assumption|assumption|].
             unfold node_key. congruence.
      + assert (K : pkey r u = node_key u).
        { destruct (pkey_cases r u) as [(N1 & Ir & _)|(_ & K)]; [|exact K]. exfalso.
          pose proof (c_rb _ _ _ _ _ _ C _ Ir) as Lt. rewrite N1 in T. cbn [Z.eqb Pos.eqb andb] in T.
          apply Z.ltb_ge in T. lia. }
        rewrite <- K. apply logs_pwrite_eff, Stored.
    - cbn [fst snd]. cbn [Z.eqb andb].
      pose proof (pi_k0 _ _ _ _ _ _ P u Lu N1 Pr) as Ir.
      assert (K : pkey r u = (ver (nmeta u), 0)).
      { destruct (pkey_cases r u) as [(_ & _ & K)|([A|A] & _)]; [exact K| |]; contradiction. }
      rewrite <- K. apply logs_pwrite_eff, Stored.
  Qed.
End Orphan.

Lemma filter_none {A} (P : A -> bool) l : (forall x, In x l -> P x = false) -> filter P l = [].
Proof.
  induction l as [|a l IH]; intros F; cbn [filter]; [reflexivity|].
  rewrite (F a (or_introl eq_refl)). apply IH. intros x I. apply F. right. exact I.
Qed.

(** ** The double traversal *)
Section LoopE.
  Variable H : bytes -> bytes.
  Variable f0 : forest_t.
  Hypothesis FI : forest_inv f0.
  Variables (v : Z) (f' : forest_t) (tv : node) (otn : option node) (ro : forest_t) (r : list Z).
  Hypothesis HA : forall c, inn otn c -> (ver (nmeta c) <= v <-> subtree c tv).
  Hypothesis HN : forall u, subtree u tv -> ~ inn otn u -> ~ sub_of f' u.
  Hypothesis HS : forall u, inn otn u -> sub_of f' u.
  Hypothesis NC : forall u c, subtree u tv -> subtree c tv -> fhash H u = fhash H c -> u = c.

  Definition orph_dels (ps : list node) : list wop :=
    map (fun u => del_node (pkey r u)) (filter (fun u => negb (insub otn u)) (flat_map pre ps)).

  Theorem loop_elog : forall fuel p cur prev org cs ps oc,
    LI f0 v f' tv otn ro r p cur prev org cs ps oc -> (msum cs + msum ps + 1 <= fuel)%nat ->
    exists p', orphans_loop H fuel v p cur prev org = POk p' /\ logs_ext p p' (orph_dels ps).
  Proof.
    induction fuel as [|fuel IH]; intros p cur prev org cs ps oc I Fu; [lia|].
    destruct I as [Scur Sprev Sorg Ccs Coc Nd Cps Ieq PX].
    cbn [orphans_loop]. rewrite (stk_valid _ _ _ Sprev).
    destruct ps as [|u us].
    { cbn [negb]. rewrite (proj1 Scur), (proj1 Sprev). exists p. split; [reflexivity|apply logs_ext_refl]. }
    cbn [negb]. rewrite (proj1 Scur). rewrite (stk_valid _ _ _ Scur).
    destruct (stk_cons_inv _ _ _ _ Sprev) as (pk & prest & Ep & Kp & Fp & Np).
    assert (Su : subtree u tv) by (apply Cps; left; reflexivity).
    assert (Lu : Lof f' (u :: us) u) by (apply (Lof_sub f' _ _ u); [left; reflexivity|apply sub_refl]).
    assert (PrevStep :
      forall (Horg : match org with
                     | Some ks => exists c, oc = Some c /\ sk (disk p) ks c
                     | None => oc = None /\ cs = []
                     end),
      exists p', match nstack prev with
                 | (pk, pn) :: _ =>
                     if match org with
                        | Some (ok, on) => beq (fetched_hash H pk pn) (fetched_hash H ok on)
                        | None => false
                        end
                     then orphans_loop H fuel v p cur (nit_next (disk p) prev true) None
                     else orphans_loop H fuel v (on_orphan v p pk) cur
                            (nit_next (disk (on_orphan v p pk)) prev false) org
                 | [] => PErr
                 end = POk p' /\ logs_ext p p' (orph_dels (u :: us))).
    { intros Horg. rewrite Ep.
      set (same := match org with
                   | Some (ok, on) => beq (fetched_hash H pk (snode_of u)) (fetched_hash H ok on)
                   | None => false
                   end).
      assert (Fu' : fetched_hash H pk (snode_of u) = fhash H u)
        by (apply fetched_fhash, (keyok_ver _ _ _ Kp)).
      destruct same eqn:Same.
      - destruct org as [[ok on]|]; [|discriminate]. destruct Horg as (c & Eoc & [Ec Kc]).
        cbn [fst snd] in Ec, Kc. subst on. unfold same in Same. apply beq_true in Same.
        rewrite Fu', (fetched_fhash H ok c (keyok_ver _ _ _ Kc)) in Same.
        destruct (Coc c Eoc) as [Ic Vc].
        assert (Sc : subtree c tv) by (apply HA; assumption).
        pose proof (NC u c Su Sc Same) as ->.
        assert (Pc : PB otn c = true) by (apply PB_true, Ic).
        assert (Eo : orph_dels (c :: us) = orph_dels us).
        { unfold orph_dels. cbn [flat_map]. rewrite filter_app, (filter_none _ (pre c)); [reflexivity|].
          intros x Ix. apply pre_In in Ix. apply Bool.negb_false_iff.
          apply (PB_true otn x). exact (inn_sub otn c x Ic Ix). }
        rewrite Eo.
        apply (IH p cur (nit_next (disk p) prev true) None cs us None).
        + constructor; auto.
          * apply (stk_next_skip _ _ c us Sprev).
          * intros c0 Q. discriminate.
          * cbn [flat_map] in Nd. exact (NoDup_app_r _ _ Nd).
          * intros x Ix. apply Cps. right. exact Ix.
          * subst oc. cbn [flat_map olist app] in Ieq. rewrite (mx_hit _ _ Pc) in Ieq.
            cbn [app] in Ieq. inversion Ieq. reflexivity.
          * apply (PIx_ext f0 p (Lof f' (c :: us))); [|exact PX]. intros x. unfold Lof.
            cbn [flat_map]. rewrite in_app_iff. split; [|tauto].
            intros [A|[A|A]]; auto. left. apply HS. apply pre_In in A. exact (inn_sub otn c x Ic A).
        + rewrite msum_cons in Fu. pose proof (ncount_pos c). lia.
      - assert (NPB : PB otn u = false).
        { destruct (PB otn u) eqn:Pu; [|reflexivity]. exfalso.
          cbn [flat_map] in Ieq. rewrite (mx_hit _ _ Pu) in Ieq. cbn [app] in Ieq.
          destruct org as [[ok on]|].
          - destruct Horg as (c & Eoc & [Ec Kc]). cbn [fst snd] in Ec, Kc. subst on oc.
            cbn [olist app] in Ieq. injection Ieq as Q _. subst c.
            unfold same in Same. rewrite Fu', (fetched_fhash H ok u (keyok_ver _ _ _ Kc)) in Same.
            apply beq_false in Same. congruence.
          - destruct Horg as [-> ->]. cbn [olist flat_map app] in Ieq. discriminate. }
        assert (Nu : ~ inn otn u) by (intros C; apply PB_true in C; congruence).
        assert (Nf : ~ sub_of f' u) by (apply HN; assumption).
        assert (NR : forall w t, In (w, Some t) f' -> t <> u).
        { intros w t It ->. apply Nf. exists w, u. split; [exact It|apply sub_refl]. }
        destruct (PIx_orphan f0 FI v p (Lof f' (u :: us)) ro f' r pk u PX Lu Kp NR) as [PX' Tr].
        pose proof (on_orphan_logs f0 FI v p (Lof f' (u :: us)) ro f' r pk u PX Lu Kp NR) as LG.
        set (p1 := on_orphan v p pk) in *.
        assert (Eq1 : forall x, minus (Lof f' (u :: us)) u x <-> Lof f' (kids u ++ us) x).
        { intros x. unfold minus, Lof. cbn [flat_map]. rewrite flat_map_app.
          rewrite pre_kids. cbn [app In]. rewrite !in_app_iff.
          cbn [flat_map] in Nd. rewrite pre_kids in Nd. cbn [app] in Nd.
          inversion Nd as [|? ? Nin Nd']; subst. rewrite in_app_iff in Nin. split.
          - intros [[A|[A|[A|A]]] Ne]; auto. congruence.
          - intros [A|[A|A]].
            + split; [auto|]. intros ->. contradiction.
            + split; [auto|]. intros ->. tauto.
            + split; [auto|]. intros ->. tauto. }
        pose proof (PIx_ext f0 p1 _ _ ro f' r v Eq1 PX') as PX1.
        assert (Tr' : forall x k, Lof f' (kids u ++ us) x -> keyok (disk p) k x -> keyok (disk p1) k x).
        { intros x k Lx. apply Tr, Eq1, Lx. }
        assert (Eo : orph_dels (u :: us) = [del_node (pkey r u)] ++ orph_dels (kids u ++ us)).
        { unfold orph_dels. cbn [flat_map]. rewrite pre_kids. cbn [app filter].
          unfold PB in NPB. rewrite NPB. cbn [negb map app]. rewrite flat_map_app. reflexivity. }
        rewrite Eo.
        destruct (IH p1 cur (nit_next (disk p1) prev false) org cs (kids u ++ us) oc) as (p' & E' & LG').
        + constructor; auto.
          * apply (stk_transport _ _ _ _ Scur). intros x k Ix. apply Tr'. left. apply HS, Ccs, Ix.
          * destruct PX1 as [_ P1].
            apply (nit_next_noskip (Lof f' (kids u ++ us)) f' v (disk p1) prev pk u prest us Ep Np
                     (pi_disk _ _ _ _ _ _ P1)).
            -- intros c Ic. apply (Lof_sub f' _ _ c); [apply in_or_app; left; exact Ic|apply sub_refl].
            -- apply (Forall2_sk_transport _ _ _ _ Fp). intros x k Ix. apply Tr'.
               apply (Lof_sub f' _ _ x); [apply in_or_app; right; exact Ix|apply sub_refl].
          * destruct org as [ks|], oc as [c|]; try exact Sorg. destruct Sorg as [A B].
            split; [exact A|]. apply Tr'; [|exact B]. left. apply HS. apply (Coc c eq_refl).
          * cbn [flat_map] in Nd. rewrite pre_kids in Nd. cbn [app] in Nd.
            inversion Nd; subst. rewrite flat_map_app. assumption.
          * intros x Ix. apply in_app_or in Ix. destruct Ix as [Ix|Ix].
            -- exact (sub_trans _ _ _ (kids_sub u x Ix) Su).
            -- apply Cps. right. exact Ix.
          * rewrite flat_map_app, <- (mx_kids _ _ NPB). exact Ieq.
        + rewrite msum_app. rewrite msum_cons, (msum_kids u) in Fu. lia.
        + exists p'. split; [exact E'|]. exact (logs_ext_trans _ _ _ _ _ LG LG'). }
    destruct org as [[ok on]|].
    - destruct oc as [c|]; [|contradiction]. apply PrevStep. exists c. auto.
    - destruct oc as [c|]; [contradiction|].
      destruct cs as [|c cs'].
      + apply PrevStep. auto.
      + destruct (stk_cons_inv _ _ _ _ Scur) as (ck & crest & Ec & Kc & Fc & Nc).
        rewrite Ec. rewrite (keyok_ver _ _ _ Kc).
        assert (Ic : inn otn c) by (apply Ccs; left; reflexivity).
        destruct (ver (nmeta c) <=? v) eqn:Tc.
        * apply (IH p (nit_next (disk p) cur true) prev (Some (ck, snode_of c)) cs' (u :: us) (Some c)).
          -- constructor; auto.
             ++ apply (stk_next_skip _ _ c cs' Scur).
             ++ split; [reflexivity|exact Kc].
             ++ intros x Ix. apply Ccs. right. exact Ix.
             ++ intros c0 Q. inversion Q; subst c0. split; [exact Ic|]. apply Z.leb_le, Tc.
             ++ rewrite Ieq. cbn [olist flat_map app]. unfold PA at 1. rewrite (mx_hit _ _ Tc). reflexivity.
          -- rewrite msum_cons in Fu. pose proof (ncount_pos c). lia.
        * apply (IH p (nit_next (disk p) cur false) prev None (kids c ++ cs') (u :: us) None).
          -- constructor; auto.
             ++ destruct PX as [_ P0].
                apply (nit_next_noskip (Lof f' (u :: us)) f' v (disk p) cur ck c crest cs' Ec Nc
                         (pi_disk _ _ _ _ _ _ P0)); [|exact Fc].
                intros x Ix. left. apply HS. exact (inn_sub otn c x Ic (kids_sub c x Ix)).
             ++ intros x Ix. apply in_app_or in Ix. destruct Ix as [Ix|Ix].
                ** exact (inn_sub otn c x Ic (kids_sub c x Ix)).
                ** apply Ccs. right. exact Ix.
             ++ rewrite Ieq. cbn [olist flat_map app]. rewrite flat_map_app.
                rewrite <- (mx_kids (PA v) c Tc). reflexivity.
          -- rewrite msum_app. rewrite msum_cons, (msum_kids c) in Fu. lia.
  Qed.
End LoopE.

(** ** deleteVersion and the loop over the versions *)
Section VersionE.
  Variable H : bytes -> bytes.
  Variable f0 : forest_t.
  Variable iv : Z.
  Hypothesis FI : forest_inv f0.
  Hypothesis ND : NoDup (map fst f0).
  Hypothesis OK0 : forest_ok f0 iv.
  Hypothesis WF0 : forall w t, In (w, Some t) f0 -> wf t.
  Hypothesis NC0 : forall w t u c, In (w, Some t) f0 -> subtree u t -> subtree c t ->
                                   fhash H u = fhash H c -> u = c.
  Variable fuel : nat.
  Hypothesis Hfuel : forall w t, In (w, Some t) f0 -> (2 * ncount t + 1 <= fuel)%nat.

  Section OneE.
    Variables (v : Z) (rv rn : option node) (f'' : forest_t) (done : forest_t).
    Notation f' := ((v + 1, rn) :: f'').
    Notation fc := ((v, rv) :: (v + 1, rn) :: f'').
    Hypothesis Suffix : f0 = done ++ fc.
    Hypothesis Hz : map fst fc = zseq v (length fc).

    Lemma inb_insub tv u : rv = Some tv -> subtree u tv -> inb rn u = insub rn u.
    Proof.
      intros Erv Su. pose proof (fc_incl f0 v rv rn f'' done Suffix) as Xinc.
      unfold inb, insub. destruct (opt_cases rn) as [(tn & Ern)|Ern]; rewrite Ern; [|reflexivity].
      assert (Su0 : sub_of f0 u).
      { exists v, tv. split; [apply Xinc; left; rewrite Erv; reflexivity|exact Su]. }
      destruct (subtree_dec u tn) as [Sn|Nn].
      - apply mhas_true. exists (snode_of u).
        destruct (mfind kcmp (node_key u) (nodes_of tn)) as [sn|] eqn:F.
        + apply (In_mfind kcmp kcmp_ok) in F. apply nodes_of_In in F. destruct F as (u' & Su' & Ku & ->).
          assert (u = u'); [|subst; reflexivity].
          apply (fi_coh f0 FI); [exact Su0| |exact Ku].
          exists (v + 1), tn. split; [apply Xinc; right; left; rewrite Ern; reflexivity|exact Su'].
        + exfalso. apply (mfind_None_notin kcmp kcmp_ok) in F. apply F. apply in_map_iff.
          exists (node_key u, snode_of u). split; [reflexivity|]. apply nodes_of_In. exists u. auto.
      - destruct (mhas kcmp (node_key u) (nodes_of tn)) eqn:M; [|reflexivity]. exfalso. apply Nn.
        apply mhas_true in M. destruct M as (sn & F).
        apply (In_mfind kcmp kcmp_ok) in F. apply nodes_of_In in F. destruct F as (u' & Su' & Ku & _).
        assert (u = u'); [|subst; exact Su'].
        apply (fi_coh f0 FI); [exact Su0| |exact Ku].
        exists (v + 1), tn. split; [apply Xinc; right; left; rewrite Ern; reflexivity|exact Su'].
    Qed.

    Definition rekey_part (r : list Z) : list wop :=
      match rn with
      | Some tn =>
          if keqb (node_key tn) (v, 1)
          then [set_node ((v, 0), ENode (snode_of tn)); del_node (v, 1)] else []
      | None => []
      end.

    (** the re-keying *)
    Lemma tail_elog p2 c2 r :
      PIx f0 p2 (sub_of f') f' f' r v -> cache_ok c2 (disk p2) f' (v + 1) ->
      exists p' c', dv_tail v p2 c2 = (POk p', c') /\ logs_ext p2 p' (rekey_part r).
    Proof.
      intros PX C2. pose proof PX as [Cx P]. pose proof (pi_disk _ _ _ _ _ _ P) as S.
      destruct (rkc_get_ok (sub_of f') f' v (disk p2) c2 (v + 1) (v + 1) rn S
                  (f'_roots_live v rn f'') (f'_nodup f0 ND v rv rn f'' done Suffix) C2
                  ltac:(lia) ltac:(left; reflexivity)) as (nextk & c3 & E3 & R3 & C3).
      assert (Ed0 : dv_tail v p2 c2 =
                match nextk with
                | Some nk =>
                    if keqb nk (v, 1) then
                      match get_node (disk p2) nk with
                      | None => (PErr, c3)
                      | Some root =>
                          (POk (pwrite (pwrite p2 (set_node ((v, 0), ENode root))) (del_node (v, 1))), c3)
                      end
                    else (POk p2, c3)
                | None => (POk p2, c3)
                end).
      { unfold dv_tail. rewrite E3. reflexivity. }
      rewrite Ed0. unfold rekey_part.
      destruct (opt_cases rn) as [(tn & Ern)|Ern]; rewrite Ern in R3 |- *; cbn [rval] in R3.
      2:{ destruct nextk; [contradiction|]. exists p2, c3. split; [reflexivity|apply logs_ext_refl]. }
      destruct nextk as [nk|]; [|contradiction].
      assert (Ltn : sub_of f' tn).
      { exists (v + 1), tn. split; [left; rewrite Ern; reflexivity|apply sub_refl]. }
      destruct (keqb nk (v, 1)) eqn:K.
      - apply keqb_true in K. subst nk.
        rewrite (get_node_keyok (sub_of f') f' v (disk p2) (v, 1) tn S Ltn R3).
        assert (Kt : node_key tn = (v, 1)).
        { destruct R3 as [Q|(_ & Q & _)]; [symmetry; exact Q|inversion Q]. }
        rewrite Kt, (proj2 (keqb_true _ _) eq_refl).
        eexists _, c3. split; [reflexivity|].
        change [set_node ((v, 0), ENode (snode_of tn)); del_node (v, 1)]
          with ([set_node ((v, 0), ENode (snode_of tn))] ++ [del_node (v, 1)]).
        apply (logs_ext_trans _ (pwrite p2 (set_node ((v, 0), ENode (snode_of tn))))).
        + apply logs_pwrite_eff, effective_set.
        + apply logs_pwrite_eff. unfold effective, del_node.
          destruct (pwrite_cases p2 (set_node ((v, 0), ENode (snode_of tn)))) as (EV & _).
          fold (Vof (pwrite p2 (set_node ((v, 0), ENode (snode_of tn))))). rewrite EV, sapply_set.
          unfold mhas. rewrite (mfind_mset kcmp kcmp_ok).
          destruct (kcmp (v, 1) (v, 0)) eqn:Kc; [apply kcmp_Eq in Kc; inversion Kc| |].
          all: assert (F : mfind kcmp (v, 1) (Vof p2) = Some (ENode (snode_of tn))); [|rewrite F; reflexivity].
          all: apply (proj2 (pi_V _ _ _ _ _ _ P)); left; exists tn; split; [exact Ltn|]; split; [|reflexivity].
          all: destruct (pkey_cases r tn) as [(_ & Ir & _)|(_ & Kp)]; [|rewrite Kp; symmetry; exact Kt].
          all: exfalso; pose proof (c_rb _ _ _ _ _ _ Cx _ Ir) as Lt; unfold node_key in Kt; inversion Kt; lia.
      - assert (Kt : keqb (node_key tn) (v, 1) = false).
        { destruct R3 as [Q|(N1 & Q & Pr)]; [rewrite <- Q; exact K|].
          apply keqb_false. unfold node_key. intros Q'. inversion Q' as [[Qv Qn]].
          destruct S as (_ & _ & _ & _ & Db).
          destruct (mfind kcmp nk (disk p2)) as [e|] eqn:F; [|congruence]. rewrite Q in F.
          specialize (Db _ _ F). lia. }
        rewrite Kt. exists p2, c3. split; [reflexivity|apply logs_ext_refl].
    Qed.

    Theorem dv_elog p c r :
      ST f0 p c fc r v ->
      exists p' c', delete_version H fuel v p c = (POk p', c') /\
                    logs_ext p p' (spec_elog_at r v rv rn).
    Proof.
      intros [PX C]. pose proof PX as [Cx P]. pose proof (pi_disk _ _ _ _ _ _ P) as S.
      pose proof (fc_roots_live v rv rn f'') as RL.
      pose proof (fc_nodup f0 ND v rv rn f'' done Suffix) as NDc.
      pose proof (f'_roots_live v rn f'') as RL'.
      pose proof (v_notin_f' v rv rn f'' Hz) as NI.
      pose proof (fc_incl f0 v rv rn f'' done Suffix) as Xinc.
      destruct (rkc_get_ok (sub_of fc) fc v (disk p) c v v rv S RL NDc C
                  ltac:(lia) ltac:(left; reflexivity)) as (rootk & c1 & E1 & R1 & C1).
      unfold spec_elog_at. fold (rekey_part r).
      destruct (opt_cases rv) as [(tv & Erv)|Erv]; rewrite Erv in R1.
      - destruct rootk as [k|]; [|contradiction]. cbn [rval] in R1.
        destruct (traverse_ok H f0 iv FI ND OK0 WF0 NC0 fuel Hfuel v rv rn f'' done Suffix Hz
                    p c1 r tv Erv PX C1) as (p1 & c3 & Et & PX1 & Tr & C3).
        (* the traversal, again, to name the iterators *)
        assert (Itv : In (v, Some tv) f0) by (apply Xinc; left; rewrite Erv; reflexivity).
        destruct (rkc_get_ok (sub_of fc) fc v (disk p) c1 v (v + 1) rn S RL NDc C1
                    ltac:(lia) ltac:(right; left; reflexivity)) as (curk & c2 & E1' & R1' & C2).
        destruct (rkc_get_ok (sub_of fc) fc v (disk p) c2 v v rv S RL NDc C2
                    ltac:(lia) ltac:(left; reflexivity)) as (prevk & c3' & E2 & R2 & C3').
        rewrite Erv in R2. destruct prevk as [pk|]; [|contradiction]. cbn [rval] in R2.
        assert (Ltv : sub_of fc tv) by (exists v, tv; split; [left; rewrite Erv; reflexivity|apply sub_refl]).
        destruct (nit_new_some (sub_of fc) fc v (disk p) pk tv S Ltv R2) as (prev & En2 & Sp).
        assert (Itn : forall tn, rn = Some tn -> In (v + 1, Some tn) f0).
        { intros tn E. apply Xinc. right. left. rewrite E. reflexivity. }
        assert (Ltn : forall tn, rn = Some tn -> sub_of fc tn).
        { intros tn E. exists (v + 1), tn. split; [right; left; rewrite E; reflexivity|apply sub_refl]. }
        assert (Cur : exists cur, nit_new (disk p) curk = Some cur /\ stk (disk p) cur (olist rn)).
        { destruct (opt_cases rn) as [(tn & Ern)|Ern]; rewrite Ern in R1' |- *;
            destruct curk as [ck|]; cbn [rval] in R1'; try contradiction.
          - exact (nit_new_some (sub_of fc) fc v (disk p) ck tn S (Ltn tn Ern) R1').
          - exists (Nit [] false). apply nit_new_none. }
        destruct Cur as (cur & En1 & Sc).
        assert (Et' : traverse_orphans H fuel v p c1 = (orphans_loop H fuel v p cur prev None, c3')).
        { unfold traverse_orphans. rewrite E1'. cbv beta iota. rewrite En1, E2. cbv beta iota. rewrite En2. reflexivity. }
        assert (PX0 : PIx f0 p (Lof f' [tv]) fc f' r v).
        { apply (PIx_relax f0 p _ fc fc r v f' v); [|apply incl_tl, incl_refl|lia].
          apply (PIx_ext f0 p (sub_of fc)); [|exact PX].
          intros x. unfold Lof. cbn [flat_map]. rewrite app_nil_r, pre_In. split.
          - intros (w & t & [Q0|I] & Sx).
            + inversion Q0; subst w. rewrite Erv in H2. inversion H2; subst t. right. exact Sx.
            + left. exists w, t. auto.
          - intros [(w & t & I & Sx)|Sx].
            + exists w, t. split; [right; exact I|exact Sx].
            + exists v, tv. split; [left; rewrite Erv; reflexivity|exact Sx]. }
        pose proof (HA_v H f0 iv FI ND OK0 WF0 NC0 fuel Hfuel v rv rn f'' done Suffix Hz tv Erv) as HAv.
        pose proof (HN_v f0 iv FI ND OK0 v rv rn f'' done Suffix Hz tv Erv) as HNv.
        pose proof (HS_v f0 v rv rn f'' done Suffix Hz) as HSv.
        assert (Ieq : flat_map (mx (PB rn)) [tv] = olist (@None node) ++ flat_map (mx (PA v)) (olist rn)).
        { cbn [flat_map olist app]. rewrite app_nil_r.
          destruct (opt_cases rn) as [(tn & Ern)|Ern]; rewrite Ern; cbn [olist flat_map].
          - rewrite app_nil_r.
            apply (mx_common (PA v) (PB (Some tn)) tv tn (WF0 _ _ Itv) (WF0 _ _ (Itn tn Ern))).
            + intros x Sx. unfold PA. rewrite Z.leb_le. apply HAv. exists tn. auto.
            + intros x Sx. rewrite PB_true. split.
              * intros (t & Q0 & A). inversion Q0; subst. exact A.
              * intros A. exists tn. auto.
          - apply mx_none. intros x _. reflexivity. }
        assert (LI0 : LI f0 v f' tv rn fc r p cur prev None (olist rn) [tv] None).
        { constructor; auto.
          - intros c0 Ic. destruct (opt_cases rn) as [(tn & Ern)|Ern]; rewrite Ern in Ic; [|contradiction].
            destruct Ic as [<-|[]]. exists tn. split; [exact Ern|apply sub_refl].
          - intros c0 Q0. discriminate.
          - cbn [flat_map]. rewrite app_nil_r. apply pre_NoDup, (WF0 _ _ Itv).
          - intros x [<-|[]]. apply sub_refl. }
        assert (Fu : (msum (olist rn) + msum [tv] + 1 <= fuel)%nat).
        { pose proof (Hfuel _ _ Itv) as F1. cbn [msum fold_right].
          destruct (opt_cases rn) as [(tn & Ern)|Ern]; rewrite Ern; cbn [olist msum fold_right]; [|lia].
          pose proof (Hfuel _ _ (Itn tn Ern)) as F2. lia. }
        destruct (loop_elog H f0 FI v f' tv rn fc r HAv HNv HSv
                    (fun u c0 Su Sc0 => NC0 v tv u c0 Itv Su Sc0)
                    fuel p cur prev None (olist rn) [tv] None LI0 Fu) as (p1' & El & LG1).
        rewrite Et', El in Et. inversion Et; subst p1' c3'. clear Et.
        assert (Eo : orph_dels rn r [tv] = map (fun u => del_node (pkey r u)) (spec_orphans rv rn)).
        { unfold orph_dels, spec_orphans. rewrite Erv. cbn [flat_map]. rewrite app_nil_r. f_equal.
          apply filter_ext_in. intros u Iu. apply pre_In in Iu. rewrite (inb_insub tv u Erv Iu). reflexivity. }
        rewrite Eo in LG1.
        assert (C3t : cache_ok c3 (disk p1) f' (v + 1)).
        { apply (cache_ok_transport c3 (disk p)).
          - apply (cache_ok_shift c3 (disk p) v rv f' v (v + 1) C3); lia.
          - intros w t k0 I K0. apply Tr; [exists w, t; split; [exact I|apply sub_refl]|exact K0]. }
        assert (Ed : delete_version H fuel v p c = dv_tail v (dv_p2 v (Some k) p1) c3).
        { rewrite dv_eq, E1. cbv beta iota zeta. unfold dv_step1. rewrite Et', El. reflexivity. }
        rewrite Ed. unfold dv_p2.
        destruct (keqb k (v, 1)) eqn:Kk.
        + apply keqb_true in Kk. subst k.
          assert (Kt : node_key tv = (v, 1)).
          { destruct R1 as [Q0|(_ & Q0 & _)]; [symmetry; exact Q0|inversion Q0]. }
          assert (Er : root_entry v rv = None) by (rewrite Erv; apply root_entry_root, Kt).
          rewrite Er. cbn [app].
          destruct (tail_elog p1 c3 r
                      (PIx_root_entry_none f0 p1 (sub_of f') f' f' r v v rv PX1 (incl_refl _) Er) C3t)
            as (p' & c' & Etl & LG3).
          exists p', c'. split; [exact Etl|]. exact (logs_ext_trans _ _ _ _ _ LG1 LG3).
        + assert (Kt : keqb (node_key tv) (v, 1) = false).
          { destruct R1 as [Q0|(N1 & Q0 & Pr)]; [rewrite <- Q0; exact Kk|].
            apply keqb_false. unfold node_key. intros Q'. inversion Q' as [[Qv Qn]].
            destruct S as (_ & _ & _ & _ & Db).
            destruct (mfind kcmp k (disk p)) as [e|] eqn:F; [|congruence]. rewrite Q0 in F.
            specialize (Db _ _ F). lia. }
          assert (Er : root_entry v rv = Some ((v, 1), ERef (node_key tv))).
          { rewrite Erv. unfold root_entry. rewrite Kt. reflexivity. }
          rewrite Er.
          assert (LG2 : logs_ext p1 (pwrite p1 (del_node (v, 1))) [del_node (v, 1)]).
          { apply logs_pwrite_eff. destruct PX1 as [_ P1].
            apply (effective_del _ _ _ (pi_V _ _ _ _ _ _ P1)). eexists. right.
            exists v, rv. split; [left; reflexivity|exact Er]. }
          destruct (tail_elog (pwrite p1 (del_node (v, 1))) c3 r) as (p' & c' & Etl & LG3).
          * exact (PIx_root_entry_del f0 FI p1 (sub_of f') f' f' r v v rv _ _ PX1 (incl_refl _) NI Er).
          * exact (cache_pwrite f0 p1 _ (sub_of f') fc f' r v c3 f' (v + 1) PX1 RL' C3t).
          * exists p', c'. split; [exact Etl|].
            exact (logs_ext_trans _ _ _ _ _ LG1 (logs_ext_trans _ _ _ _ _ LG2 LG3)).
      - destruct rootk as [k|]; [contradiction|].
        assert (Ed : delete_version H fuel v p c = dv_tail v (dv_p2 v None p) c1).
        { rewrite dv_eq, E1. reflexivity. }
        assert (PXa : PIx f0 p (sub_of f') fc f' r v).
        { apply (PIx_relax f0 p _ fc fc r v f' v); [|apply incl_tl, incl_refl|lia].
          apply (PIx_ext f0 p (sub_of fc)); [|exact PX].
          intros x. split.
          - intros (w & t & [Q0|I] & Sx); [inversion Q0; congruence|exists w, t; auto].
          - intros (w & t & I & Sx). exists w, t. split; [right; exact I|exact Sx]. }
        assert (Er : root_entry v rv = Some ((v, 1), EEmpty)) by (rewrite Erv; reflexivity).
        rewrite Ed, Er. unfold spec_orphans. rewrite Erv. cbn [map app dv_p2].
        assert (LG2 : logs_ext p (pwrite p (del_node (v, 1))) [del_node (v, 1)]).
        { apply logs_pwrite_eff. apply (effective_del _ _ _ (pi_V _ _ _ _ _ _ P)). eexists. right.
          exists v, rv. split; [left; reflexivity|exact Er]. }
        destruct (tail_elog (pwrite p (del_node (v, 1))) c1 r) as (p' & c' & Etl & LG3).
        + exact (PIx_root_entry_del f0 FI p (sub_of f') f' f' r v v rv _ _ PXa (incl_refl _) NI Er).
        + apply (cache_pwrite f0 p _ (sub_of f') fc f' r v c1 f' (v + 1) PXa RL').
          apply (cache_ok_shift c1 (disk p) v rv f' v (v + 1) C1); lia.
        + exists p', c'. split; [exact Etl|]. exact (logs_ext_trans _ _ _ _ _ LG2 LG3).
    Qed.
  End OneE.

  (** the loop of deleteVersionsTo: the concatenation *)
  Theorem range_elog : forall (n : nat) fc done v p c r,
    f0 = done ++ fc -> map fst fc = zseq v (length fc) -> (n < length fc)%nat ->
    ST f0 p c fc r v ->
    exists p', delete_range H fuel (zseq v n) p c = POk p' /\
               logs_ext p p' (spec_elog_range n fc r).
  Proof.
    induction n as [|n IH]; intros fc done v p c r Suf Hz Ln HS.
    - exists p. cbn [zseq delete_range spec_elog_range]. split; [reflexivity|apply logs_ext_refl].
    - destruct fc as [|[v0 rv] [|[v1 rn] f'']]; cbn [length] in Ln; try lia.
      assert (E0 : v0 = v /\ v1 = v + 1).
      { cbn [map fst length zseq] in Hz. injection Hz as A B _. auto. }
      destruct E0 as [-> ->].
      destruct (delete_version_ok H f0 iv FI ND OK0 WF0 NC0 fuel Hfuel v rv rn f'' done Suf Hz p c r HS)
        as (p1 & c1 & E1 & HS1).
      destruct (dv_elog v rv rn f'' done Suf Hz p c r HS) as (p1' & c1' & E1' & LG1).
      rewrite E1 in E1'. inversion E1'; subst p1' c1'. clear E1'.
      cbn [zseq delete_range spec_elog_range]. rewrite E1.
      destruct (IH ((v + 1, rn) :: f'') (done ++ [(v, rv)]) (v + 1) p1 c1 (rk_next v rn r))
        as (p' & E' & LG').
      + rewrite Suf, <- app_assoc. reflexivity.
      + cbn [map fst length zseq] in Hz |- *. injection Hz as Hz'. rewrite Hz'. reflexivity.
      + cbn [length]. lia.
      + exact HS1.
      + exists p'. split; [exact E'|]. exact (logs_ext_trans _ _ _ _ _ LG1 LG').
  Qed.
End VersionE.

(** ** The statements asked for *)
Lemma spec_elog_first r v rv rn f'' :
  spec_elog r ((v, rv) :: (v + 1, rn) :: f'') v = spec_elog_at r v rv rn.
Proof.
  unfold spec_elog. cbn [lookup]. rewrite Z.eqb_refl.
  replace (v =? v + 1) with false by (symmetry; apply Z.eqb_neq; lia). rewrite Z.eqb_refl. reflexivity.
Qed.

Lemma elog_pflush p : elog (pflush p) = elog p /\ wlog (pflush p) = wlog p.
Proof. split; reflexivity. Qed.

(** under the hypotheses of [PA_delete_version_first]: the effective log of the first deleteVersion *)
Theorem delete_version_first_elog H (f : forest_t) iv r sched eff v rv rn f'' :
  forest_inv f -> NoDup (map fst f) -> forest_ok f iv ->
  (forall w t, In (w, Some t) f -> wf t) -> no_confusion H f ->
  f = (v, rv) :: (v + 1, rn) :: f'' -> rekey_ok r f ->
  exists p' c',
    delete_version H (prune_fuel (phys_of r f)) v
      (Pdb (phys_of r f) [] sched [] [] eff [] [phys_of r f]) rkc_new = (POk p', c') /\
    elog (pflush p') = spec_elog r f v /\
    wrel (wlog (pflush p')) (elog (pflush p')).
Proof.
  intros FI ND OK WF NC Ef [_ RK].
  assert (NE : f <> []) by (rewrite Ef; discriminate).
  assert (Hr : forall w, In w r -> w < first_of f).
  { intros w Iw. destruct (RK w Iw) as [A _]. rewrite first_of_forest_eq in A. exact A. }
  pose proof (ST_init f iv FI ND OK r sched eff NE Hr) as HS.
  pose proof (forest_ok_zseq f iv OK) as Hz.
  assert (Ev : first_of f = v) by (rewrite Ef; reflexivity). rewrite Ev in *.
  assert (Hf : forall w t, In (w, Some t) f -> (2 * ncount t + 1 <= prune_fuel (phys_of r f))%nat).
  { apply (fuel_ok f iv FI ND OK WF r NE). rewrite Ev. exact Hr. }
  assert (Suf : f = [] ++ (v, rv) :: (v + 1, rn) :: f'') by exact Ef.
  assert (Hz' : map fst ((v, rv) :: (v + 1, rn) :: f'') = zseq v (length ((v, rv) :: (v + 1, rn) :: f'')))
    by (rewrite <- Ef; exact Hz).
  assert (HS' : ST f (Pdb (phys_of r f) [] sched [] [] eff [] [phys_of r f]) rkc_new
                   ((v, rv) :: (v + 1, rn) :: f'') r v) by (rewrite <- Ef; exact HS).
  destruct (dv_elog H f iv FI ND OK WF NC (prune_fuel (phys_of r f)) Hf v rv rn f'' []
              Suf Hz' _ _ r HS') as (p' & c' & E & [LE LW]).
  exists p', c'. split; [exact E|]. cbn [elog wlog app] in LE, LW.
  destruct (elog_pflush p') as [-> ->]. rewrite Ef, spec_elog_first. split; [exact LE|].
  apply LW. constructor.
Qed.

Section ForestE.
  Variable H : bytes -> bytes.
  Variable f : forest_t.
  Variable iv : Z.
  Hypothesis FI : forest_inv f.
  Hypothesis ND : NoDup (map fst f).
  Hypothesis OK : forest_ok f iv.
  Hypothesis WF : forall w t, In (w, Some t) f -> wf t.
  Hypothesis NC : no_confusion H f.

  (** the whole loop of deleteVersionsTo: the effective log is the concatenation of the
      per-version specifications; the write log is related to it by [wrel] *)
  Theorem prune_elog_nc r sched eff n :
    f <> [] -> rekey_ok r f -> n < latest_of_forest f ->
    exists p',
      delete_range H (prune_fuel (phys_of r f)) (versions_from_to (first_of_forest f) n)
        (Pdb (phys_of r f) [] sched [] [] eff [] [phys_of r f]) rkc_new = POk p' /\
      elog p' = spec_elog_range (Z.to_nat (n + 1 - first_of f)) f r /\
      wrel (wlog p') (elog p').
  Proof.
    intros NE [_ Rk] Ln. rewrite first_of_forest_eq in *. rewrite latest_of_forest_eq in Ln.
    assert (Hr : forall w, In w r -> w < first_of f).
    { intros w Iw. destruct (Rk w Iw) as [A _]. exact A. }
    pose proof (forest_ok_zseq f iv OK) as Hz. pose proof (length_f f iv OK NE) as Lf.
    destruct (forest_ok_range f iv OK NE) as (R1 & _ & _).
    set (k := Z.to_nat (n + 1 - first_of f)).
    assert (Lk : (k < length f)%nat) by (unfold k; lia).
    rewrite versions_from_to_zseq. fold k.
    destruct (range_elog H f iv FI ND OK WF NC (prune_fuel (phys_of r f)) (fuel_ok f iv FI ND OK WF r NE Hr)
                k f [] (first_of f) _ rkc_new r eq_refl Hz Lk (ST_init f iv FI ND OK r sched eff NE Hr))
      as (p' & E & [LE LW]).
    exists p'. split; [exact E|]. cbn [elog wlog app] in LE, LW. split; [exact LE|]. apply LW. constructor.
  Qed.

  (** in effective mode [prune_forest] returns exactly the specified list ... *)
  Corollary prune_forest_elog_nc r sched n :
    f <> [] -> rekey_ok r f -> n < latest_of_forest f ->
    exists st' fl,
      prune_forest H true r f sched n =
        POk (st', spec_elog_range (Z.to_nat (n + 1 - first_of f)) f r, fl).
  Proof.
    intros NE RK Ln. destruct (prune_elog_nc r sched true n NE RK Ln) as (p' & E & LE & _).
    unfold prune_forest, prune_phys.
    replace (latest_of_forest f <=? n) with false by (symmetry; apply Z.leb_gt; exact Ln).
    cbv zeta. rewrite E. destruct (elog_pflush p') as [Ee _]. rewrite Ee, LE. eauto.
  Qed.

  (** ... and in plain mode a list that differs from it by deletions of absent keys with nonce
      0 or 1 *)
  Corollary prune_forest_wlog_nc r sched n :
    f <> [] -> rekey_ok r f -> n < latest_of_forest f ->
    exists st' wl fl,
      prune_forest H false r f sched n = POk (st', wl, fl) /\
      wrel wl (spec_elog_range (Z.to_nat (n + 1 - first_of f)) f r).
  Proof.
    intros NE RK Ln. destruct (prune_elog_nc r sched false n NE RK Ln) as (p' & E & LE & LW).
    unfold prune_forest, prune_phys.
    replace (latest_of_forest f <=? n) with false by (symmetry; apply Z.leb_gt; exact Ln).
    cbv zeta. rewrite E. destruct (elog_pflush p') as [_ Ew]. rewrite Ew. rewrite LE in LW. eauto.
  Qed.

  (** the effective log does not depend on the schedule (nor on the mode) *)
  Theorem elog_schedule_independent_nc r sched1 eff1 sched2 eff2 n p1 p2 :
    f <> [] -> rekey_ok r f -> n < latest_of_forest f ->
    delete_range H (prune_fuel (phys_of r f)) (versions_from_to (first_of_forest f) n)
      (Pdb (phys_of r f) [] sched1 [] [] eff1 [] [phys_of r f]) rkc_new = POk p1 ->
    delete_range H (prune_fuel (phys_of r f)) (versions_from_to (first_of_forest f) n)
      (Pdb (phys_of r f) [] sched2 [] [] eff2 [] [phys_of r f]) rkc_new = POk p2 ->
    elog p1 = elog p2.
  Proof.
    intros NE RK Ln E1 E2.
    destruct (prune_elog_nc r sched1 eff1 n NE RK Ln) as (q1 & F1 & L1 & _).
    destruct (prune_elog_nc r sched2 eff2 n NE RK Ln) as (q2 & F2 & L2 & _).
    rewrite E1 in F1. rewrite E2 in F2. inversion F1; inversion F2; subst. congruence.
  Qed.
End ForestE.

(** ** State level, "or collision" *)
Section MainE.
  Variable H : bytes -> bytes.
  Hypothesis Hlen : forall x, length (H x) = 32%nat.

  Theorem prune_elog (s : mstate) (r : list Z) (sched : list bool) (n : Z) :
    store_ok H s -> forest_bounds (forest s) -> rekey_ok r (forest s) -> n < latest_version s ->
    forest s <> [] ->
    (exists st' fl,
       prune_forest H true r (forest s) sched n =
         POk (st', spec_elog_range (Z.to_nat (n + 1 - first_of (forest s))) (forest s) r, fl))
    \/ collision H.
  Proof.
    intros SO FB RK Ln NE. destruct (store_ok_forest H s SO) as (FI & ND & OK & WF & HO).
    destruct (confusion_dec H (forest s)) as [NC|C].
    - left. exact (prune_forest_elog_nc H (forest s) (init_ver s) FI ND OK WF NC r sched n NE RK Ln).
    - right. exact (confusion_to_collision H (forest s) Hlen WF HO FB C).
  Qed.

  Theorem prune_wlog (s : mstate) (r : list Z) (sched : list bool) (n : Z) :
    store_ok H s -> forest_bounds (forest s) -> rekey_ok r (forest s) -> n < latest_version s ->
    forest s <> [] ->
    (exists st' wl fl,
       prune_forest H false r (forest s) sched n = POk (st', wl, fl) /\
       wrel wl (spec_elog_range (Z.to_nat (n + 1 - first_of (forest s))) (forest s) r))
    \/ collision H.
  Proof.
    intros SO FB RK Ln NE. destruct (store_ok_forest H s SO) as (FI & ND & OK & WF & HO).
    destruct (confusion_dec H (forest s)) as [NC|C].
    - left. exact (prune_forest_wlog_nc H (forest s) (init_ver s) FI ND OK WF NC r sched n NE RK Ln).
    - right. exact (confusion_to_collision H (forest s) Hlen WF HO FB C).
  Qed.

  (** the effective log of DeleteVersionsTo does not depend on the flush schedule *)
  Theorem elog_schedule_independent (s : mstate) (r : list Z) sched1 sched2 (n : Z) st1 l1 fl1 st2 l2 fl2 :
    store_ok H s -> forest_bounds (forest s) -> rekey_ok r (forest s) -> n < latest_version s ->
    forest s <> [] ->
    prune_forest H true r (forest s) sched1 n = POk (st1, l1, fl1) ->
    prune_forest H true r (forest s) sched2 n = POk (st2, l2, fl2) ->
    l1 = l2 \/ collision H.
  Proof.
    intros SO FB RK Ln NE E1 E2.
    destruct (prune_elog s r sched1 n SO FB RK Ln NE) as [(a1 & b1 & F1)|C]; [|right; exact C].
    destruct (prune_elog s r sched2 n SO FB RK Ln NE) as [(a2 & b2 & F2)|C]; [|right; exact C].
    left. rewrite E1 in F1. rewrite E2 in F2. inversion F1; inversion F2; subst. reflexivity.
  Qed.
End MainE.

Print Assumptions delete_version_first_elog.
Print Assumptions prune_elog_nc.
Print Assumptions prune_elog.
Print Assumptions prune_wlog.
Print Assumptions elog_schedule_independent.

(** ** Examples (SHA-256 forest of PruneAlgoFacts.v) *)

(** the second deletion (versions 2 and 3 of [pa_f1], [r = [1]]): the specification, computed from
    the forest alone, is the effective log the run returns; the write log has one more entry, the
    ineffective deletion of (1,1) (the re-keyed root is asked for under (1,1)) *)
Example pe_spec_value :
  spec_elog [1] pa_f1 2 = [del_node (2, 1)] /\
  spec_elog (rk_next 2 (match lookup 3 pa_f1 with Some t => t | None => None end) [1])
            (filter (fun p => 2 <? fst p) pa_f1) 3 = [del_node (3, 1); del_node (1, 0)] /\
  spec_elog_range 2 pa_f1 [1] = [del_node (2, 1); del_node (3, 1); del_node (1, 0)].
Proof. vm_compute. repeat split; reflexivity. Qed.

Example pe_elog_is_spec :
  match prune_forest sha256 true [1] pa_f1 [true; false; true] 3,
        prune_forest sha256 true [1] pa_f1 [] 3,
        prune_forest sha256 false [1] pa_f1 pa_sched2 3 with
  | POk (_, e1, _), POk (_, e2, _), POk (_, w3, _) =>
      e1 = spec_elog_range 2 pa_f1 [1] /\ e2 = spec_elog_range 2 pa_f1 [1] /\
      w3 = [del_node (2, 1); del_node (3, 1); del_node (1, 1); del_node (1, 0)]
  | _, _, _ => False
  end.
Proof. vm_compute. repeat split; reflexivity. Qed.

(** the first deletion (version 1 of [pa_f], [r = []]): the re-keying is part of the specification *)
Example pe_first :
  spec_elog [] pa_f 1 = [set_node ((1, 0), ENode (SLeaf pa_a pa_a)); del_node (1, 1)] /\
  match prune_forest sha256 true [] pa_f [true; true] 1 with
  | POk (_, e, _) => e = spec_elog_range 1 pa_f []
  | _ => False
  end.
Proof. vm_compute. split; reflexivity. Qed.

(** all five versions but the last, from the beginning: four deleteVersion calls *)
Example pe_whole :
  match prune_forest sha256 true [] pa_f [false; true; false; false; true] 4 with
  | POk (_, e, _) => e = spec_elog_range 4 pa_f [] /\ length e = 8%nat
  | _ => False
  end.
Proof. vm_compute. split; reflexivity. Qed.
