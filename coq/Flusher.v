(** Flusher.v -- executable model of BatchWithFlusher (/repo/batch.go) over the MemDB batch
    (/repo/db/memdb.go [memDBBatch]).

    The wrapper holds ONE backend batch.  [Set]/[Delete] first compute
    [estimateSizeAfterSetting = GetByteSize() + len(key) + len(value) + 100] ([Delete] passes
    [[]byte{}] as the value) and, when that is [> flushThreshold], call [Write] - which writes
    the backend batch (ALSO WHEN IT IS EMPTY: [memDBBatch.Write] on an open batch without
    operations takes the database lock, applies nothing, closes and returns nil; the wrapper then
    installs a new batch; the empty physical batch is observable as a [Write] call of the
    backend) - and only then add the operation to the (new) batch.  [memDBBatch] accounting:
    [size += len(key)+len(value)] on [Set], [size += len(key)] on [Delete].

    Two layers:
    - [fl_*]: the wrapper over an IDEAL backend (every backend call succeeds).  This is the
      function from the stream of writes to the list of physical batches.
    - [ffl_*]: the wrapper over a backend that can fail: [memDBBatch.Set]/[Delete] reject an
      empty key ([errKeyEmpty], AFTER the flush decision was taken and executed), and the
      [failat]-th call of the backend [Write] returns an error.  [BatchWithFlusher.Write] then
      returns before [Close] and before the batch is replaced: the old batch stays installed with
      its contents and its size; [Set]/[Delete] return that error without adding their operation.
      (After fix 784e449 the wrapper's mutex is re-acquired before returning; locks are not
      modelled.)
    [FlusherFacts.ffl_run_ideal]: without failure and with non-empty keys both layers agree.

    Not modelled: a nil value ([errValueNil]; values are [bytes], iavl never passes nil),
    [errBatchClosed] (the wrapper always replaces a written batch; [Close] of the wrapper ends
    its life), [WriteSync] (= [Write] for MemDB), goleveldb's own size accounting. *)
From IAVL Require Import Bytes VMap.
Local Open Scope Z_scope.

(** * Operations and sizes *)

Inductive bop := BSet (k v : bytes) | BDel (k : bytes).

Definition blen (b : bytes) : Z := Z.of_nat (length b).

(** what [memDBBatch] adds to [size] *)
Definition op_size (o : bop) : Z :=
  match o with
  | BSet k v => blen k + blen v
  | BDel k => blen k
  end.

Definition op_key (o : bop) : bytes := match o with BSet k _ => k | BDel k => k end.

(** [GetByteSize] of a fresh batch to which [b] was added *)
Definition batch_size (b : list bop) : Z := fold_right (fun o a => op_size o + a) 0 b.

(** [estimateSizeAfterSetting] *)
Definition estimate (cur : Z) (k v : bytes) : Z := cur + blen k + blen v + 100.

(** the estimate as [Set]/[Delete] compute it for an operation ([Delete]: value [[]byte{}]) *)
Definition op_estimate (cur : Z) (o : bop) : Z :=
  match o with
  | BSet k v => estimate cur k v
  | BDel k => estimate cur k []
  end.

(** * The wrapper over an ideal backend *)

(** [pending]: the operations of the installed backend batch, in issue order; [psize]: its
    [size] field; [written]: the physical batches handed to the database so far, oldest first. *)
Record fl := mkFl { pending : list bop; psize : Z; written : list (list bop) }.

Definition fl_init : fl := mkFl [] 0 [].

(** [Write]: the installed batch becomes one physical batch (also when empty), a new empty batch
    is installed *)
Definition fl_write (st : fl) : fl := mkFl [] 0 (written st ++ [pending st]).

Definition fl_add (o : bop) (st : fl) : fl :=
  mkFl (pending st ++ [o]) (psize st + op_size o) (written st).

Definition fl_set (th : Z) (k v : bytes) (st : fl) : fl :=
  let st' := if estimate (psize st) k v >? th then fl_write st else st in
  fl_add (BSet k v) st'.

Definition fl_delete (th : Z) (k : bytes) (st : fl) : fl :=
  let st' := if estimate (psize st) k [] >? th then fl_write st else st in
  fl_add (BDel k) st'.

Definition fl_step (th : Z) (st : fl) (o : bop) : fl :=
  match o with
  | BSet k v => fl_set th k v st
  | BDel k => fl_delete th k st
  end.

Definition fl_run_from (th : Z) (ops : list bop) (st : fl) : fl := fold_left (fl_step th) ops st.

Definition fl_run (th : Z) (ops : list bop) : fl := fl_run_from th ops fl_init.

(** the physical batches of one logical operation: the automatic flushes, then the caller's
    final [Write] *)
Definition fl_batches (th : Z) (ops : list bop) : list (list bop) :=
  written (fl_write (fl_run th ops)).

(** * The same function, head-recursive (greedy segmentation)

    [segs th ops p]: the physical batches when [ops] are issued on a wrapper whose installed
    batch holds [p].  [FlusherFacts.fl_batches_segs]: [fl_batches th ops = segs th ops []]. *)
Fixpoint segs (th : Z) (ops : list bop) (p : list bop) : list (list bop) :=
  match ops with
  | [] => [p]
  | o :: r =>
      if op_estimate (batch_size p) o >? th then p :: segs th r [o]
      else segs th r (p ++ [o])
  end.

(** * Cut positions

    [cuts_from counted th ops cur n]: for every automatic flush, the number of [counted]
    operations issued before it; [cur] is the size of the installed batch, [n] the number of
    counted operations issued so far. *)
Fixpoint cuts_from (counted : bop -> bool) (th : Z) (ops : list bop) (cur : Z) (n : nat)
  : list nat :=
  match ops with
  | [] => []
  | o :: r =>
      let n' := if counted o then S n else n in
      if op_estimate cur o >? th then n :: cuts_from counted th r (op_size o) n'
      else cuts_from counted th r (cur + op_size o) n'
  end.

Definition cut_positions_counted (counted : bop -> bool) (th : Z) (ops : list bop) : list nat :=
  cuts_from counted th ops 0 0%nat.

Definition cut_positions (th : Z) (ops : list bop) : list nat :=
  cut_positions_counted (fun _ => true) th ops.

(** * The wrapper over a backend that can fail *)

Inductive ferr :=
| EWriteFailed     (* the backend [Write] returned an error *)
| EKeyEmpty.       (* [memDBBatch.Set]/[Delete]: errKeyEmpty *)

(** [nwrites]: number of calls of the backend [Write] so far (failed one included).
    [written (fcore s)] holds the batches whose [Write] SUCCEEDED = the database contents. *)
Record ffl := mkFfl { fcore : fl; nwrites : nat }.

Inductive fres := FOk (s : ffl) | FErr (e : ferr) (s : ffl).

Definition ffl_init : ffl := mkFfl fl_init 0.

(** [failat]: 1-based number of the backend [Write] call that fails; 0 = none fails.
    On failure nothing of the wrapper changes (the batch is neither closed nor replaced). *)
Definition ffl_write (failat : nat) (s : ffl) : fres :=
  let n := S (nwrites s) in
  if Nat.eqb n failat then FErr EWriteFailed (mkFfl (fcore s) n)
  else FOk (mkFfl (fl_write (fcore s)) n).

Definition is_empty (k : bytes) : bool := match k with [] => true | _ => false end.

(** [Set]/[Delete]: estimate; flush when above the threshold and return its error; then the
    backend batch's own [Set]/[Delete] (which rejects an empty key, the flush already done) *)
Definition ffl_op (th : Z) (failat : nat) (o : bop) (s : ffl) : fres :=
  let flushed := if op_estimate (psize (fcore s)) o >? th then ffl_write failat s else FOk s in
  match flushed with
  | FErr e s' => FErr e s'
  | FOk s' =>
      if is_empty (op_key o) then FErr EKeyEmpty s'
      else FOk (mkFfl (fl_add o (fcore s')) (nwrites s'))
  end.

Definition ffl_set (th : Z) (failat : nat) (k v : bytes) (s : ffl) : fres :=
  ffl_op th failat (BSet k v) s.
Definition ffl_delete (th : Z) (failat : nat) (k : bytes) (s : ffl) : fres :=
  ffl_op th failat (BDel k) s.

(** issue [ops] in order; stop at the first error (the caller propagates it) *)
Fixpoint ffl_run_from (th : Z) (failat : nat) (ops : list bop) (s : ffl) : fres :=
  match ops with
  | [] => FOk s
  | o :: r =>
      match ffl_op th failat o s with
      | FOk s' => ffl_run_from th failat r s'
      | FErr e s' => FErr e s'
      end
  end.

(** one logical operation: [ops], then the caller's [Write] *)
Definition ffl_commit (th : Z) (failat : nat) (ops : list bop) : fres :=
  match ffl_run_from th failat ops ffl_init with
  | FOk s => ffl_write failat s
  | FErr e s => FErr e s
  end.

Definition fres_state (r : fres) : ffl := match r with FOk s => s | FErr _ s => s end.

(** what the database received *)
Definition ffl_db_batches (r : fres) : list (list bop) := written (fcore (fres_state r)).

(** * Applying batches to a database (sorted association list, [VMap]) *)

Definition kv_apply (m : kvs) (o : bop) : kvs :=
  match o with BSet k v => ins k v m | BDel k => del k m end.

Definition kv_apply_ops (m : kvs) (ops : list bop) : kvs := fold_left kv_apply ops m.

(** one physical batch after the other, each atomically *)
Definition kv_apply_batches (m : kvs) (bs : list (list bop)) : kvs :=
  fold_left kv_apply_ops bs m.
