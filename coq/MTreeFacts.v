(** Proofs about the MutableTree state machine (MTree.v): stamping only touches node
    metadata, every reachable state carries well-formed AVL trees, reads and writes refine
    the sorted-association-list specification (VMap.v), and the version bookkeeping of
    save / load / prune / rollback only moves whole trees around. *)
From IAVL Require Import Bytes Varint Tree VMap TreeFacts MTree.
Local Open Scope Z_scope.

(** ** List-level helpers *)

(** Deleting an absent key is the identity (sortedness is not even needed). *)
Lemma del_absent k (l : kvs) : assoc k l = None -> del k l = l.
Proof.
  induction l as [|[k' v'] l IH]; cbn [assoc del]; intros A; [reflexivity|].
  unfold beq in A. destruct (bcmp k k') eqn:E.
  - discriminate A.
  - reflexivity.
  - rewrite (IH A). reflexivity.
Qed.

Lemma del_absent_sorted k (l : kvs) : sorted l -> assoc k l = None -> del k l = l.
Proof. intros _. apply del_absent. Qed.

Lemma if_cases {A} (c : bool) (a b : A) :
  (if c then a else b) = a \/ (if c then a else b) = b.
Proof. destruct c; auto. Qed.

Lemma fst_if {A B} (c : bool) (a b : A * B) (P : A -> Prop) :
  P (fst a) -> P (fst b) -> P (fst (if c then a else b)).
Proof. destruct c; auto. Qed.

Lemma lookup_In {A} v (l : list (Z * A)) a : lookup v l = Some a -> In (v, a) l.
Proof.
  induction l as [|[w b] l IH]; cbn [lookup]; [discriminate|].
  destruct (w =? v) eqn:E; intros Hl.
  - apply Z.eqb_eq in E. inversion Hl; subst. left; reflexivity.
  - right; auto.
Qed.

Lemma lookup_None {A} v (l : list (Z * A)) : lookup v l = None -> ~ In v (map fst l).
Proof.
  induction l as [|[w b] l IH]; cbn [lookup map fst In]; [tauto|].
  destruct (w =? v) eqn:E; [discriminate|]. apply Z.eqb_neq in E.
  intros Hl [C|C]; [congruence|]. exact (IH Hl C).
Qed.

Lemma lookup_app {A} v (l1 l2 : list (Z * A)) :
  lookup v (l1 ++ l2) = match lookup v l1 with Some a => Some a | None => lookup v l2 end.
Proof.
  induction l1 as [|[w b] l1 IH]; cbn [lookup app]; [reflexivity|].
  destruct (w =? v); auto.
Qed.

(** looking up in a forest extended at the end by a version that was absent *)
Lemma lookup_snoc {A} v w (a : A) (l : list (Z * A)) :
  lookup w l = None ->
  lookup v (l ++ [(w, a)]) = if v =? w then Some a else lookup v l.
Proof.
  intros N. rewrite lookup_app. cbn [lookup]. rewrite (Z.eqb_sym w v).
  destruct (v =? w) eqn:E.
  - apply Z.eqb_eq in E. subst. rewrite N. reflexivity.
  - destruct (lookup v l); reflexivity.
Qed.

Lemma lookup_filter {A} (f : Z -> bool) v (l : list (Z * A)) :
  lookup v (filter (fun p => f (fst p)) l) = if f v then lookup v l else None.
Proof.
  induction l as [|[w b] l IH]; cbn [filter lookup fst].
  - destruct (f v); reflexivity.
  - destruct (w =? v) eqn:E.
    + apply Z.eqb_eq in E. subst w. destruct (f v) eqn:F.
      * cbn [lookup]. rewrite Z.eqb_refl. reflexivity.
      * rewrite IH. rewrite ?F. reflexivity.
    + destruct (f w); [cbn [lookup]; rewrite E|]; exact IH.
Qed.

Lemma lookup_filter_gt {A} n v (l : list (Z * A)) :
  lookup v (filter (fun p => n <? fst p) l) = if n <? v then lookup v l else None.
Proof. exact (lookup_filter (fun x => n <? x) v l). Qed.

Lemma lookup_filter_le {A} n v (l : list (Z * A)) :
  lookup v (filter (fun p => fst p <=? n) l) = if v <=? n then lookup v l else None.
Proof. exact (lookup_filter (fun x => x <=? n) v l). Qed.

Lemma Forall_filter_keep {A} (P : A -> Prop) (f : A -> bool) l :
  Forall P l -> Forall P (filter f l).
Proof.
  induction l as [|a l IH]; cbn [filter]; intros F; [constructor|].
  inversion F; subst. destruct (f a); [constructor|]; auto.
Qed.

Lemma In_map_filter {A B} (g : A -> B) (f : A -> bool) l x :
  In x (map g (filter f l)) -> In x (map g l).
Proof.
  rewrite !in_map_iff. intros (a & E & I). apply filter_In in I. exists a. tauto.
Qed.

Lemma NoDup_map_filter {A B} (g : A -> B) (f : A -> bool) l :
  NoDup (map g l) -> NoDup (map g (filter f l)).
Proof.
  induction l as [|a l IH]; cbn [filter map]; intros N; [constructor|].
  inversion N as [|x xs NI N']; subst. destruct (f a); cbn [map]; auto.
  constructor; auto. intros C. apply NI. eapply In_map_filter; eauto.
Qed.

Lemma NoDup_snoc {A} (l : list A) x : NoDup l -> ~ In x l -> NoDup (l ++ [x]).
Proof.
  induction l as [|a l IH]; cbn [app]; intros N NI.
  - constructor; [intros []|constructor].
  - inversion N as [|y ys NA N']; subst. constructor.
    + intros C. apply in_app_or in C. destruct C as [C|[C|[]]]; [auto|].
      subst. apply NI. left; reflexivity.
    + apply IH; auto. intros C. apply NI. right; exact C.
Qed.

Lemma keys_all_elems_eq P t t' : elems t = elems t' -> keys_all P t' -> keys_all P t.
Proof. intros E K. rewrite keys_all_elems in K |- *. rewrite E. exact K. Qed.

(** ** Rank / lookup inverse at tree level (property C11) *)
Lemma rank_nonneg k (l : kvs) : 0 <= rank k l.
Proof. unfold rank. lia. Qed.

Theorem get_by_index_get t i k v :
  wf t ->
  (get_by_index t i = Some (k, v) <-> (0 <= i /\ get t k = (i, Some v))).
Proof.
  intros W. pose proof (wf_sorted t W) as Hs.
  rewrite (get_by_index_spec t i W), (get_spec t k W). split.
  - destruct (i <? 0) eqn:N; [discriminate|]. apply Z.ltb_ge in N. intros E.
    destruct (sorted_nth_rank _ _ _ _ Hs E) as [A R]. split; [exact N|].
    rewrite A, R. f_equal. lia.
  - intros [N E]. injection E as R A.
    replace (i <? 0) with false by (symmetry; apply Z.ltb_ge; exact N).
    rewrite <- R. apply sorted_assoc_nth; assumption.
Qed.

Theorem get_by_index_out_of_range t i :
  wf t -> i < 0 \/ size t <= i -> get_by_index t i = None.
Proof.
  intros W O. rewrite (get_by_index_spec t i W).
  destruct (i <? 0) eqn:N; [reflexivity|]. apply Z.ltb_ge in N.
  apply nth_error_None. rewrite (size_elems t W) in O. lia.
Qed.

(** ** The state invariant *)
Definition oinv (t : option node) : Prop :=
  match t with None => True | Some n => wf n /\ avl n end.

(** Every tree the state holds is a well-formed AVL tree; retained versions are
    pairwise distinct and non-negative.  (Strict ascent of the retained versions is NOT
    an invariant of the model: see [versions_not_ascending] at the end of this file.
    Positivity fails for [init_state 0 true], whose first save is version 0.) *)
Record state_inv (s : mstate) : Prop := StateInv {
  inv_root : oinv (root s);
  inv_saved : oinv (last_saved s);
  inv_trees : Forall (fun p => oinv (snd p)) (forest s);
  inv_vers : Forall (fun p => 0 <= fst p) (forest s);
  inv_nodup : NoDup (map fst (forest s));
  inv_version : 0 <= version s;
  inv_init : 0 <= init_ver s
}.

Lemma state_inv_intro r ver ls f iv a b :
  oinv r -> oinv ls -> Forall (fun p => oinv (snd p)) f -> Forall (fun p => 0 <= fst p) f ->
  NoDup (map fst f) -> 0 <= ver -> 0 <= iv -> state_inv (MState r ver ls f iv a b).
Proof. intros. constructor; assumption. Qed.

Lemma state_inv_iff s :
  state_inv s <->
  (oinv (root s) /\ oinv (last_saved s) /\
   Forall (fun p => oinv (snd p)) (forest s) /\ Forall (fun p => 0 <= fst p) (forest s) /\
   NoDup (map fst (forest s)) /\ 0 <= version s /\ 0 <= init_ver s).
Proof.
  split.
  - intros I. repeat split; apply I.
  - intros (A1 & A2 & A3 & A4 & A5 & A6 & A7). constructor; assumption.
Qed.

Lemma state_inv_init iv b : 0 <= iv -> state_inv (init_state iv b).
Proof.
  intros Hiv. unfold init_state. apply state_inv_intro; cbn [oinv map]; auto; try constructor; lia.
Qed.

Lemma state_inv_lookup s v t :
  state_inv s -> lookup v (forest s) = Some t -> oinv t /\ 0 <= v.
Proof.
  intros I L. apply lookup_In in L.
  pose proof (inv_trees s I) as F1. pose proof (inv_vers s I) as F2.
  rewrite Forall_forall in F1, F2. split; [exact (F1 _ L) | exact (F2 _ L)].
Qed.

Lemma working_version_nonneg s : state_inv s -> 0 <= working_version s.
Proof.
  intros I. pose proof (inv_version s I). pose proof (inv_init s I).
  unfold working_version. destruct ((version s + 1 =? 1) && init_set s); lia.
Qed.

(** Fields other than the working root are untouched. *)
Definition same_but_root (s s' : mstate) : Prop :=
  version s' = version s /\ last_saved s' = last_saved s /\ forest s' = forest s /\
  init_ver s' = init_ver s /\ init_set s' = init_set s /\ init_opt s' = init_opt s.

(** ** List-level specification of the reads *)
Definition list_read (r : read) : bool :=
  match r with RHeight | RHash | RTouch => false | _ => true end.

Definition spec_read (l : kvs) (r : read) : out :=
  match r with
  | RGet k => XBytes (assoc k l)
  | RHas k => XBool (mem k l)
  | RGetWithIndex k => XPair (XInt (rank k l)) (XBytes (assoc k l))
  | RGetByIndex i =>
      match (if i <? 0 then None else nth_error l (Z.to_nat i)) with
      | Some (k, v) => XPair (XBytes (Some k)) (XBytes (Some v))
      | None => XPair (XBytes None) (XBytes None)
      end
  | RSize => XInt (Z.of_nat (length l))
  | RIter start stop incl asc => XKvs (range_spec l start stop incl asc)
  | RHeight | RHash | RTouch => XErr   (* not list-level reads: excluded by [list_read] *)
  end.

(** ** Writes (independent of the hash function) *)
Theorem do_set_refines s k v :
  state_inv s ->
  oelems (root (fst (do_set s k v))) = ins k v (oelems (root s)) /\
  snd (do_set s k v) = XBool (mem k (oelems (root s))) /\
  same_but_root s (fst (do_set s k v)).
Proof.
  intros I. pose proof (inv_root s I) as Ir. unfold do_set, same_but_root.
  destruct (root s) as [n|].
  - cbn [oinv] in Ir. destruct Ir as [W A].
    destruct (set_spec n k v W) as (_ & E & U & _).
    destruct (set n k v) as [n' upd].
    cbn [fst snd root version last_saved forest init_ver init_set init_opt oelems] in *.
    rewrite E, U. repeat split; reflexivity.
  - cbn [fst snd root version last_saved forest init_ver init_set init_opt oelems elems ins].
    repeat split; reflexivity.
Qed.

Theorem do_remove_refines s k :
  state_inv s ->
  oelems (root (fst (do_remove s k))) = del k (oelems (root s)) /\
  snd (do_remove s k) =
    XPair (XBytes (assoc k (oelems (root s)))) (XBool (mem k (oelems (root s)))) /\
  same_but_root s (fst (do_remove s k)).
Proof.
  intros I. pose proof (inv_root s I) as Ir. unfold do_remove, same_but_root. cbv zeta.
  destruct (root s) as [n|] eqn:R.
  - cbn [oinv] in Ir. destruct Ir as [W A].
    pose proof (remove_spec n k W A) as P. unfold rm_post in P.
    destruct (rm_val (remove n k)) as [val|] eqn:EV.
    + destruct P as [As P].
      cbn [fst snd root version last_saved forest init_ver init_set init_opt oelems].
      unfold mem. rewrite As.
      destruct (rm_self (remove n k)) as [t'|] eqn:ES.
      * destruct P as (_ & _ & E & _). cbn [oelems]. rewrite E. repeat split; reflexivity.
      * destruct P as ((m & ->) & _). cbn [oelems elems del]. rewrite bcmp_refl.
        repeat split; reflexivity.
    + cbn [fst snd]. rewrite R. cbn [oelems]. unfold mem. rewrite P.
      rewrite (del_absent k _ P). repeat split; reflexivity.
  - cbn [fst snd]. rewrite R. cbn [oelems del]. repeat split; reflexivity.
Qed.

Lemma do_set_inv s k v : state_inv s -> state_inv (fst (do_set s k v)).
Proof.
  intros I. pose proof (inv_root s I) as Ir. unfold do_set.
  destruct (root s) as [n|].
  - cbn [oinv] in Ir. destruct Ir as [W A].
    destruct (set_spec n k v W) as (W' & _). destruct (set_avl n k v W A) as (A' & _).
    destruct (set n k v) as [n' upd]. cbn [fst] in *.
    apply state_inv_intro; try apply I. cbn [oinv]. split; assumption.
  - cbn [fst]. apply state_inv_intro; try apply I. cbn [oinv wf avl]. split; exact Logic.I.
Qed.

Lemma do_remove_inv s k : state_inv s -> state_inv (fst (do_remove s k)).
Proof.
  intros I. pose proof (inv_root s I) as Ir. unfold do_remove. cbv zeta.
  destruct (root s) as [n|] eqn:R; [|exact I].
  cbn [oinv] in Ir. destruct Ir as [W A].
  pose proof (remove_spec n k W A) as P. unfold rm_post in P.
  destruct (rm_val (remove n k)) as [val|] eqn:EV; [|exact I].
  destruct P as [_ P]. cbn [fst].
  apply state_inv_intro; try apply I.
  destruct (rm_self (remove n k)) as [t'|]; cbn [oinv]; [|exact Logic.I].
  destruct P as (W' & A' & _). split; assumption.
Qed.

(** ** Loading, pruning, reopening (independent of the hash function) *)
Lemma do_load_cases s v :
  do_load s v = (s, XErr) \/
  (forest s = [] /\ v <= 0 /\ do_load s v = (s, XInt 0)) \/
  (exists tv r, lookup tv (forest s) = Some r /\
     do_load s v = (MState r tv r (forest s) (init_ver s) (init_set s) (init_opt s),
                    XInt (latest_version s))).
Proof.
  unfold do_load. cbv zeta.
  destruct ((0 <? first_version s) && (first_version s <? init_ver s)); [left; reflexivity|].
  destruct (latest_version s <? v); [left; reflexivity|].
  destruct (forest s) as [|p f] eqn:F.
  - destruct (v <=? 0) eqn:C; [|left; reflexivity].
    apply Z.leb_le in C. right; left. auto.
  - rewrite <- F.
    destruct (lookup (if v <=? 0 then latest_version s else v) (forest s)) as [r|] eqn:L;
      [|left; reflexivity].
    right; right. eauto.
Qed.

Lemma do_load_inv s v : state_inv s -> state_inv (fst (do_load s v)).
Proof.
  intros I. destruct (do_load_cases s v) as [E|[(_ & _ & E)|(tv & r & L & E)]]; rewrite E; cbn [fst];
    try exact I.
  destruct (state_inv_lookup s tv r I L) as [Or Hv].
  apply state_inv_intro; try apply I; assumption.
Qed.

Lemma do_prune_cases s n :
  (latest_version s <= n /\ do_prune s n = (s, XErr)) \/
  (n < latest_version s /\
   do_prune s n =
     (MState (root s) (version s) (last_saved s) (filter (fun p => n <? fst p) (forest s))
             (init_ver s) (init_set s) (init_opt s), XOk)).
Proof.
  unfold do_prune. destruct (latest_version s <=? n) eqn:C.
  - apply Z.leb_le in C. left; auto.
  - apply Z.leb_gt in C. right; auto.
Qed.

Lemma do_prune_inv s n : state_inv s -> state_inv (fst (do_prune s n)).
Proof.
  intros I. destruct (do_prune_cases s n) as [[_ E]|[_ E]]; rewrite E; cbn [fst]; [exact I|].
  apply state_inv_intro; try apply I.
  - apply Forall_filter_keep, I.
  - apply Forall_filter_keep, I.
  - apply NoDup_map_filter, I.
Qed.

Lemma do_lvfo_cases s v :
  do_lvfo s v = (s, XErr) \/
  (forest s = [] /\ v <= 0 /\
   do_lvfo s v = (MState (root s) (version s) (last_saved s) [] (init_ver s) (init_set s)
                         (init_opt s), XOk)) \/
  (exists tv r, lookup tv (forest s) = Some r /\
     do_lvfo s v = (MState r tv r (filter (fun p => fst p <=? v) (forest s))
                           (init_ver s) (init_set s) (init_opt s), XOk)).
Proof.
  unfold do_lvfo.
  destruct (do_load_cases s v) as [E|[(F & C & E)|(tv & r & L & E)]]; rewrite E.
  - left; reflexivity.
  - right; left. rewrite F. cbn [filter]. auto.
  - right; right. exists tv, r. split; [exact L|reflexivity].
Qed.

Lemma do_lvfo_inv s v : state_inv s -> state_inv (fst (do_lvfo s v)).
Proof.
  intros I. pose proof (do_load_inv s v I) as I'. unfold do_lvfo.
  destruct (do_load s v) as [s' x]. cbn [fst] in I'.
  destruct x; cbn [fst]; try exact I'.
  apply state_inv_intro; try apply I'.
  - apply Forall_filter_keep, I'.
  - apply Forall_filter_keep, I'.
  - apply NoDup_map_filter, I'.
Qed.

Lemma do_reopen_cases s :
  do_reopen s = (MState None 0 None (forest s) (init_ver s) (init_opt s) (init_opt s), XErr) \/
  (forest s = [] /\
   do_reopen s = (MState None 0 None (forest s) (init_ver s) (init_opt s) (init_opt s), XOk)) \/
  (exists tv r, lookup tv (forest s) = Some r /\
     do_reopen s = (MState r tv r (forest s) (init_ver s) (init_opt s) (init_opt s), XOk)).
Proof.
  unfold do_reopen. cbv zeta.
  set (fresh := MState None 0 None (forest s) (init_ver s) (init_opt s) (init_opt s)).
  destruct (do_load_cases fresh 0) as [E|[(F & C & E)|(tv & r & L & E)]]; rewrite E.
  - left; reflexivity.
  - right; left. split; [exact F|reflexivity].
  - right; right. exists tv, r. split; [exact L|reflexivity].
Qed.

Lemma do_reopen_inv s : state_inv s -> state_inv (fst (do_reopen s)).
Proof.
  intros I. unfold do_reopen. cbv zeta.
  set (fresh := MState None 0 None (forest s) (init_ver s) (init_opt s) (init_opt s)).
  assert (I0 : state_inv fresh).
  { unfold fresh. apply state_inv_intro; try apply I; cbn [oinv]; auto; lia. }
  pose proof (do_load_inv fresh 0 I0) as I'.
  destruct (do_load fresh 0) as [s' x]. cbn [fst] in I'.
  destruct x; cbn [fst]; exact I'.
Qed.

Lemma rollback_inv s :
  state_inv s ->
  state_inv (MState (if 0 <? version s then last_saved s else None) (version s) (last_saved s)
                    (forest s) (init_ver s) (init_set s) (init_opt s)).
Proof.
  intros I. apply state_inv_intro; try apply I.
  destruct (0 <? version s); [apply I | exact Logic.I].
Qed.

Section WithHash.
  Variable H : bytes -> bytes.

  (** ** Stamping (saveNewNodes) only changes node metadata *)
  Lemma stamp_leaf wv n k v m :
    stamp H wv n (Leaf k v m) =
      if negb (is_new (Leaf k v m)) then (Leaf k v m, n)
      else (Leaf k v (Meta wv (n + 1) (H (leaf_preimage H wv k v))), n + 1).
  Proof. reflexivity. Qed.

  Lemma stamp_inner wv n k h s m l r :
    stamp H wv n (Inner k h s m l r) =
      if negb (is_new (Inner k h s m l r)) then (Inner k h s m l r, n)
      else
        let (l', n1) := stamp H wv (n + 1) l in
        let (r', n2) := stamp H wv n1 r in
        (Inner k h s (Meta wv (n + 1)
           (H (inner_preimage h s wv (hs (nmeta l')) (hs (nmeta r'))))) l' r', n2).
  Proof. reflexivity. Qed.

  Lemma stamp_shape wv t : forall n,
    elems (fst (stamp H wv n t)) = elems t /\
    height (fst (stamp H wv n t)) = height t /\
    size (fst (stamp H wv n t)) = size t.
  Proof.
    induction t as [k v m|k h s m l IHl r IHr]; intros n.
    - rewrite stamp_leaf. destruct (negb (is_new (Leaf k v m))); cbn [fst elems height size]; auto.
    - rewrite stamp_inner. destruct (negb (is_new (Inner k h s m l r))); [cbn [fst]; auto|].
      specialize (IHl (n + 1)). destruct (stamp H wv (n + 1) l) as [l' n1].
      specialize (IHr n1). destruct (stamp H wv n1 r) as [r' n2].
      cbn [fst elems height size] in *.
      destruct IHl as (El & _ & _). destruct IHr as (Er & _ & _).
      rewrite El, Er. auto.
  Qed.

  Lemma stamp_elems wv n t : elems (fst (stamp H wv n t)) = elems t.
  Proof. apply stamp_shape. Qed.
  Lemma stamp_height wv n t : height (fst (stamp H wv n t)) = height t.
  Proof. apply stamp_shape. Qed.
  Lemma stamp_size wv n t : size (fst (stamp H wv n t)) = size t.
  Proof. apply stamp_shape. Qed.

  Lemma stamp_wf wv t : forall n, wf t -> wf (fst (stamp H wv n t)).
  Proof.
    induction t as [k v m|k h s m l IHl r IHr]; intros n W.
    - rewrite stamp_leaf. destruct (negb (is_new (Leaf k v m))); cbn [fst wf]; auto.
    - rewrite stamp_inner. destruct (negb (is_new (Inner k h s m l r))); [exact W|].
      cbn [wf] in W. destruct W as (Wl & Wr & Kl & Kr & Hk & Hh & Hs).
      destruct (stamp_shape wv l (n + 1)) as (El & Hl & Sl). specialize (IHl (n + 1) Wl).
      destruct (stamp H wv (n + 1) l) as [l' n1].
      destruct (stamp_shape wv r n1) as (Er & Hr & Sr). specialize (IHr n1 Wr).
      destruct (stamp H wv n1 r) as [r' n2].
      cbn [fst] in *. cbn [wf].
      split; [exact IHl|]. split; [exact IHr|].
      split; [exact (keys_all_elems_eq _ l' l El Kl)|].
      split; [exact (keys_all_elems_eq _ r' r Er Kr)|].
      split; [rewrite (min_key_elems_eq r' r Er); exact Hk|].
      rewrite Hl, Hr, Sl, Sr. split; assumption.
  Qed.

  Lemma stamp_avl wv t : forall n, avl t -> avl (fst (stamp H wv n t)).
  Proof.
    induction t as [k v m|k h s m l IHl r IHr]; intros n A.
    - rewrite stamp_leaf. destruct (negb (is_new (Leaf k v m))); cbn [fst avl]; auto.
    - rewrite stamp_inner. destruct (negb (is_new (Inner k h s m l r))); [exact A|].
      cbn [avl] in A. destruct A as (Al & Ar & D).
      destruct (stamp_shape wv l (n + 1)) as (_ & Hl & _). specialize (IHl (n + 1) Al).
      destruct (stamp H wv (n + 1) l) as [l' n1].
      destruct (stamp_shape wv r n1) as (_ & Hr & _). specialize (IHr n1 Ar).
      destruct (stamp H wv n1 r) as [r' n2].
      cbn [fst] in *. cbn [avl]. rewrite Hl, Hr. auto.
  Qed.

  (** ** Read refinement *)
  Theorem tree_read_refines wv t r :
    oinv t -> list_read r = true -> tree_read H wv t r = spec_read (oelems t) r.
  Proof.
    intros O LR. destruct r as [k|k|k|i| | |start stop incl asc| |]; cbn [list_read] in LR;
      try discriminate LR; destruct t as [n|]; cbn [oinv] in O;
      cbn [tree_read spec_read oelems].
    - destruct O as [W _]. rewrite (get_spec n k W). reflexivity.
    - reflexivity.
    - destruct O as [W _]. rewrite (has_spec n k W). reflexivity.
    - reflexivity.
    - destruct O as [W _]. rewrite (get_spec n k W). reflexivity.
    - reflexivity.
    - destruct O as [W _]. rewrite (get_by_index_spec n i W). reflexivity.
    - destruct (i <? 0); [reflexivity|]. destruct (Z.to_nat i); reflexivity.
    - destruct O as [W _]. rewrite (size_elems n W). reflexivity.
    - reflexivity.
    - reflexivity.
    - reflexivity.
  Qed.

  Theorem read_working_refines s r :
    state_inv s -> list_read r = true ->
    step H s (ORead TWorking r) = (s, spec_read (oelems (root s)) r).
  Proof.
    intros I LR. cbn [step]. rewrite (tree_read_refines _ _ _ (inv_root s I) LR). reflexivity.
  Qed.

  Theorem read_version_refines s v t r :
    state_inv s -> lookup v (forest s) = Some t -> list_read r = true ->
    step H s (ORead (TVersion v) r) = (s, spec_read (oelems t) r).
  Proof.
    intros I L LR. cbn [step]. rewrite L.
    destruct (state_inv_lookup s v t I L) as [O _].
    rewrite (tree_read_refines _ _ _ O LR). reflexivity.
  Qed.

  Theorem read_version_missing s v r :
    lookup v (forest s) = None -> step H s (ORead (TVersion v) r) = (s, XErr).
  Proof. intros L. cbn [step]. rewrite L. reflexivity. Qed.

  Theorem set_nil_rejected s k : step H s (OSetNil k) = (s, XErr).
  Proof. reflexivity. Qed.

  (** ** Saving *)
  Lemma do_save_new s :
    lookup (working_version s) (forest s) = None ->
    exists r',
      oelems r' = oelems (root s) /\
      do_save H s =
        (MState r' (working_version s) r' (forest s ++ [(working_version s, r')])
                (init_ver s) false (init_opt s),
         XPair (XBytes (Some (root_hash H (working_version s) r'))) (XInt (working_version s))).
  Proof.
    intros L.
    exists (match root s with
            | None => None
            | Some n => Some (fst (stamp H (working_version s) 0 n))
            end).
    split.
    - destruct (root s); cbn [oelems]; [apply stamp_elems|reflexivity].
    - unfold do_save, version_exists. cbv zeta. rewrite L. reflexivity.
  Qed.

  Lemma do_save_existing s e :
    lookup (working_version s) (forest s) = Some e ->
    do_save H s =
      (MState e (working_version s) e (forest s) (init_ver s) false (init_opt s),
       XPair (XBytes (Some (root_hash H (working_version s) (root s))))
             (XInt (working_version s))) \/
    do_save H s =
      (MState (root s) (version s) (last_saved s) (forest s) (init_ver s) false (init_opt s),
       XErr).
  Proof.
    intros L. unfold do_save, version_exists. cbv zeta. rewrite L. apply if_cases.
  Qed.

  (** Saving never changes what an already retained version contains. *)
  Lemma do_save_keeps s v t :
    lookup v (forest s) = Some t -> lookup v (forest (fst (do_save H s))) = Some t.
  Proof.
    intros Lv. destruct (lookup (working_version s) (forest s)) as [e|] eqn:L.
    - destruct (do_save_existing s e L) as [E|E]; rewrite E; exact Lv.
    - destruct (do_save_new s L) as (r' & _ & E). rewrite E. cbn [fst forest].
      rewrite lookup_app, Lv. reflexivity.
  Qed.

  Lemma do_save_inv s : state_inv s -> state_inv (fst (do_save H s)).
  Proof.
    intros I. pose proof (working_version_nonneg s I) as Hwv.
    destruct (lookup (working_version s) (forest s)) as [e|] eqn:L.
    - destruct (state_inv_lookup s _ e I L) as [Oe _].
      destruct (do_save_existing s e L) as [E|E]; rewrite E; cbn [fst];
        apply state_inv_intro; try apply I; assumption.
    - assert (Or : oinv (match root s with
                          | None => None
                          | Some n => Some (fst (stamp H (working_version s) 0 n))
                          end)).
      { pose proof (inv_root s I) as Ir. destruct (root s) as [n|]; cbn [oinv] in *; [|exact Logic.I].
        destruct Ir as [W A]. split; [apply stamp_wf, W | apply stamp_avl, A]. }
      unfold do_save, version_exists. cbv zeta. rewrite L. cbn [fst].
      apply state_inv_intro; try apply I; try assumption.
      + apply Forall_app. split; [apply I|]. constructor; [exact Or|constructor].
      + apply Forall_app. split; [apply I|]. constructor; [exact Hwv|constructor].
      + rewrite map_app. cbn [map fst]. apply NoDup_snoc; [apply I|]. apply lookup_None, L.
  Qed.

  (** ** The invariant is preserved by every operation *)
  Theorem step_inv s o : state_inv s -> state_inv (fst (step H s o)).
  Proof.
    intros I. destruct o as [k v|k|k| | | |v|n|v|t r|k v|v| | | | | ]; cbn [step].
    - apply do_set_inv, I.
    - exact I.
    - apply do_remove_inv, I.
    - apply do_save_inv, I.
    - cbn [fst]. apply rollback_inv, I.
    - apply do_reopen_inv, I.
    - apply do_load_inv, I.
    - apply do_prune_inv, I.
    - apply do_lvfo_inv, I.
    - destruct t as [|v]; [exact I|]. destruct (lookup v (forest s)); exact I.
    - destruct (lookup v (forest s)) as [[n|]|]; exact I.
    - exact I.
    - exact I.
    - exact I.
    - exact I.
    - exact I.
    - exact I.
  Qed.

  Theorem run_inv ops : forall s, state_inv s -> state_inv (fst (run H s ops)).
  Proof.
    induction ops as [|o ops IH]; intros s I; cbn [run]; [exact I|].
    pose proof (step_inv s o I) as I1.
    destruct (step H s o) as [s1 x]. cbn [fst] in I1.
    specialize (IH s1 I1). destruct (run H s1 ops) as [s2 xs]. exact IH.
  Qed.

  Theorem reachable_inv iv b ops : 0 <= iv -> state_inv (fst (run H (init_state iv b) ops)).
  Proof. intros Hiv. apply run_inv, state_inv_init, Hiv. Qed.

  (** every tree of every reachable state is a well-formed AVL tree *)
  Theorem reachable_avl iv b ops :
    0 <= iv ->
    let s := fst (run H (init_state iv b) ops) in
    (forall n, root s = Some n -> wf n /\ avl n) /\
    (forall n, last_saved s = Some n -> wf n /\ avl n) /\
    (forall v n, In (v, Some n) (forest s) -> wf n /\ avl n) /\
    (forall v n, lookup v (forest s) = Some (Some n) -> wf n /\ avl n).
  Proof.
    intros Hiv s. pose proof (reachable_inv iv b ops Hiv) as I. fold s in I.
    split; [|split; [|split]].
    - intros n E. pose proof (inv_root s I) as O. rewrite E in O. exact O.
    - intros n E. pose proof (inv_saved s I) as O. rewrite E in O. exact O.
    - intros v n E. pose proof (inv_trees s I) as F. rewrite Forall_forall in F. exact (F _ E).
    - intros v n E. destruct (state_inv_lookup s v _ I E) as [O _]. exact O.
  Qed.

  (** rollback: the working tree becomes the last saved one (or empty), nothing else moves *)
  Lemma rollback_spec s :
    step H s ORollback =
      (MState (if 0 <? version s then last_saved s else None) (version s) (last_saved s)
              (forest s) (init_ver s) (init_set s) (init_opt s), XOk).
  Proof. reflexivity. Qed.
End WithHash.

(** ** A finding: retained versions need not stay ascending.
    Load an old version, prune past it, save: the new version is appended after a larger one.
    (Hence [state_inv] states distinctness, not ascent, of the retained versions.) *)
Example versions_not_ascending :
  map fst (forest (fst (run (fun b => b) (init_state 0 false)
    [OSet [1%N] [1%N]; OSave; OSet [2%N] [2%N]; OSave; OSet [3%N] [3%N]; OSave;
     OLoad 1; OPrune 2; OSave]))) = [3; 2].
Proof. vm_compute. reflexivity. Qed.
