(** Facts about Go varints, length-prefixed bytes and big-endian integers (Varint.v):
    round trips, decoder guards (bounds on what a decoder reads / returns), and the
    order-preservation of the fixed-width big-endian layout. *)
From IAVL Require Import Bytes Varint.
From Coq Require Import Lia ZifyBool ZifyNat ZifyN.
Local Open Scope N_scope.

(** ** list helpers *)

Lemma skipn_length_app {A} (a b : list A) : skipn (length a) (a ++ b) = b.
Proof. induction a as [|x a IH]; simpl; auto. Qed.

Lemma firstn_length_app {A} (a b : list A) : firstn (length a) (a ++ b) = a.
Proof. induction a as [|x a IH]; simpl; [reflexivity | now rewrite IH]. Qed.

Lemma length_skipn_le {A} n (l : list A) : (length (skipn n l) <= length l)%nat.
Proof. rewrite skipn_length. lia. Qed.

Lemma length_skipn_eq {A} n (l : list A) :
  (n <= length l)%nat -> (n + length (skipn n l) = length l)%nat.
Proof. rewrite skipn_length. lia. Qed.

Lemma well_formed_app a b : well_formed (a ++ b) <-> well_formed a /\ well_formed b.
Proof. unfold well_formed. apply Forall_app. Qed.

Lemma well_formed_skipn n a : well_formed a -> well_formed (skipn n a).
Proof.
  unfold well_formed. revert a. induction n as [|n IH]; intros [|x a] Hw; simpl; auto.
  inversion Hw; auto.
Qed.

Lemma well_formed_firstn n a : well_formed a -> well_formed (firstn n a).
Proof.
  unfold well_formed. revert a. induction n as [|n IH]; intros [|x a] Hw; simpl; auto.
  inversion Hw; subst. constructor; auto.
Qed.

Lemma some_pair_inj {A B} (a a' : A) (b b' : B) :
  Some (a, b) = Some (a', b') -> a = a' /\ b = b'.
Proof. intros H. inversion H. auto. Qed.

(** ** uvarint *)

Lemma uvarint_enc_fuel_length f u : (length (uvarint_enc_fuel f u) <= f)%nat.
Proof.
  revert u. induction f as [|f IH]; intros u; simpl; [lia|].
  destruct (u <? 128) eqn:E; simpl; [lia|]. specialize (IH (u / 128)). lia.
Qed.

Lemma uvarint_enc_fuel_pos f u : (0 < f)%nat -> (0 < length (uvarint_enc_fuel f u))%nat.
Proof. destruct f; [lia|]. intros _. simpl. destruct (u <? 128); simpl; lia. Qed.

Lemma uvarint_enc_length u : (0 < length (uvarint_enc u) <= 10)%nat.
Proof.
  unfold uvarint_enc. split; [apply uvarint_enc_fuel_pos; lia | apply uvarint_enc_fuel_length].
Qed.

Lemma uvarint_enc_fuel_wf f u : well_formed (uvarint_enc_fuel f u).
Proof.
  unfold well_formed. revert u. induction f as [|f IH]; intros u; simpl; [constructor|].
  destruct (u <? 128) eqn:E.
  - constructor; [lia | constructor].
  - constructor; [|apply IH]. assert (u mod 128 < 128) by (apply N.mod_lt; lia). lia.
Qed.

Lemma uvarint_enc_wf u : well_formed (uvarint_enc u).
Proof. apply uvarint_enc_fuel_wf. Qed.

Lemma pow2_split a : 2 ^ (a + 7) = 128 * 2 ^ a.
Proof. rewrite N.pow_add_r. change (2 ^ 7) with 128. lia. Qed.

Lemma uvarint_dec_at_cons i b rest :
  uvarint_dec_at i (b :: rest) =
  if Nat.leb 10 i then None
  else if b <? 128 then (if Nat.eqb i 9 && (1 <? b) then None else Some (b, 1%nat))
  else match uvarint_dec_at (S i) rest with
       | Some (v, n) => Some ((b - 128) + 128 * v, S n)
       | None => None
       end.
Proof. reflexivity. Qed.

(** round trip at index [i = 10 - f] of the original buffer; the value bound shrinks by 7
    bits per consumed byte: [u < 2^(7f-6)] is [u < 2^64] for [f = 10] and [u < 2] for [f = 1]
    (Go's "10th byte > 1 is an overflow"). *)
Lemma uvarint_dec_enc_fuel f : forall i u rest,
  (i + f = 10)%nat -> (1 <= f)%nat -> u < 2 ^ (N.of_nat (7 * f) - 6) ->
  uvarint_dec_at i (uvarint_enc_fuel f u ++ rest)
  = Some (u, length (uvarint_enc_fuel f u)).
Proof.
  induction f as [|f IH]; intros i u rest Hi Hf Hu; [lia|].
  cbn [uvarint_enc_fuel].
  destruct (u <? 128) eqn:E.
  - cbn [app length]. rewrite uvarint_dec_at_cons.
    destruct (Nat.leb 10 i) eqn:E1; [lia|].
    rewrite E.
    destruct (Nat.eqb i 9 && (1 <? u)) eqn:E2; [|reflexivity].
    exfalso. assert (f = 0%nat) by lia. subst f.
    change (2 ^ (N.of_nat (7 * 1) - 6)) with 2 in Hu. lia.
  - assert (Hf' : (1 <= f)%nat).
    { destruct f; [|lia]. exfalso.
      change (2 ^ (N.of_nat (7 * 1) - 6)) with 2 in Hu. lia. }
    assert (Hu' : u / 128 < 2 ^ (N.of_nat (7 * f) - 6)).
    { apply N.div_lt_upper_bound; [lia|].
      rewrite <- pow2_split.
      replace (N.of_nat (7 * f) - 6 + 7) with (N.of_nat (7 * S f) - 6) by lia. exact Hu. }
    cbn [app length]. rewrite uvarint_dec_at_cons.
    destruct (Nat.leb 10 i) eqn:E1; [lia|].
    assert (Hb : (u mod 128 + 128 <? 128) = false) by lia. rewrite Hb.
    rewrite (IH (S i) (u / 128) rest) by (auto; lia).
    f_equal. f_equal.
    pose proof (N.div_mod u 128). lia.
Qed.

Theorem uvarint_roundtrip u rest :
  u < 2 ^ 64 ->
  uvarint_dec (uvarint_enc u ++ rest) = Some (u, length (uvarint_enc u)).
Proof.
  intros Hu. unfold uvarint_dec, uvarint_enc.
  apply uvarint_dec_enc_fuel; try lia. exact Hu.
Qed.

(** decoder guard *)
Lemma uvarint_dec_at_guard buf : forall i v n,
  uvarint_dec_at i buf = Some (v, n) ->
  (0 < n <= length buf)%nat /\ (i + n <= 10)%nat /\
  (well_formed buf -> v < 2 ^ (64 - 7 * N.of_nat i)).
Proof.
  induction buf as [|b rest IH]; intros i v n H; [discriminate|]; rewrite uvarint_dec_at_cons in H.
  destruct (Nat.leb 10 i) eqn:E1; [discriminate|].
  destruct (b <? 128) eqn:E2.
  - destruct (Nat.eqb i 9 && (1 <? b)) eqn:E3; [discriminate|].
    apply some_pair_inj in H; destruct H as [<- <-]. simpl length. repeat split; try lia.
    intros _.
    destruct (Nat.eqb i 9) eqn:E4.
    + assert (i = 9%nat) by lia. subst i.
      change (2 ^ (64 - 7 * N.of_nat 9)) with 2. lia.
    + apply N.lt_le_trans with (2 ^ 7); [change (2 ^ 7) with 128; lia|].
      apply N.pow_le_mono_r; lia.
  - destruct (uvarint_dec_at (S i) rest) as [[v' n']|] eqn:E3; [|discriminate].
    apply some_pair_inj in H; destruct H as [<- <-].
    destruct (IH _ _ _ E3) as (Hn & Hi & Hv).
    simpl length. repeat split; try lia.
    intros Hw. inversion Hw as [|x l Hb Hw']; subst.
    specialize (Hv Hw').
    replace (64 - 7 * N.of_nat i) with ((64 - 7 * N.of_nat (S i)) + 7) by lia.
    rewrite pow2_split.
    remember (2 ^ (64 - 7 * N.of_nat (S i))) as P eqn:HP. clear HP.
    assert (b < 256) by assumption. lia.
Qed.

Theorem uvarint_dec_guard buf v n :
  uvarint_dec buf = Some (v, n) ->
  (0 < n <= length buf)%nat /\ (n <= 10)%nat /\ (well_formed buf -> v < 2 ^ 64).
Proof.
  intros H. destruct (uvarint_dec_at_guard _ _ _ _ H) as (H1 & H2 & H3).
  repeat split; try lia. exact H3.
Qed.

(** the decoder only looks at the bytes it reports as consumed *)
Lemma uvarint_dec_at_prefix buf : forall i v n rest,
  uvarint_dec_at i buf = Some (v, n) ->
  uvarint_dec_at i (firstn n buf ++ rest) = Some (v, n).
Proof.
  induction buf as [|b tl IH]; intros i v n rest H; [discriminate|]; rewrite uvarint_dec_at_cons in H.
  destruct (Nat.leb 10 i) eqn:E1; [discriminate|].
  destruct (b <? 128) eqn:E2.
  - destruct (Nat.eqb i 9 && (1 <? b)) eqn:E3; [discriminate|].
    apply some_pair_inj in H; destruct H as [<- <-]. cbn [firstn app]. rewrite uvarint_dec_at_cons, E1, E2, E3. reflexivity.
  - destruct (uvarint_dec_at (S i) tl) as [[v' n']|] eqn:E3; [|discriminate].
    apply some_pair_inj in H; destruct H as [<- <-]. cbn [firstn app]. rewrite uvarint_dec_at_cons, E1, E2.
    rewrite (IH _ _ _ rest E3). reflexivity.
Qed.

(** non-canonical encodings are accepted (as by Go): [0x80, 0x00] decodes to 0. *)
Example uvarint_noncanonical : uvarint_dec [128; 0] = Some (0, 2%nat).
Proof. reflexivity. Qed.

(** ** zig-zag *)

Lemma unzigzag_zigzag x : unzigzag (zigzag x) = x.
Proof.
  unfold zigzag, unzigzag.
  destruct (x <? 0)%Z eqn:E.
  - assert (Hk : Z.to_N (2 * - x - 1) = 2 * Z.to_N (- x - 1) + 1) by lia.
    rewrite Hk.
    rewrite N.add_comm, N.even_add_mul_2. cbn [N.even].
    replace ((1 + 2 * Z.to_N (- x - 1)) / 2) with (Z.to_N (- x - 1)).
    + lia.
    + apply N.div_unique with (r := 1); lia.
  - assert (Hk : Z.to_N (2 * x) = 0 + 2 * Z.to_N x) by lia.
    rewrite Hk. rewrite N.even_add_mul_2. cbn [N.even].
    replace ((0 + 2 * Z.to_N x) / 2) with (Z.to_N x).
    + lia.
    + apply N.div_unique with (r := 0); lia.
Qed.

Lemma zigzag_unzigzag u : zigzag (unzigzag u) = u.
Proof.
  unfold zigzag, unzigzag.
  pose proof (N.div_mod u 2 ltac:(lia)) as Hd.
  destruct (N.even u) eqn:E.
  - apply N.even_spec in E. destruct E as [k Hk]. subst u.
    assert (2 * k / 2 = k) as -> by (symmetry; apply N.div_unique with (r := 0); lia).
    destruct (Z.of_N k <? 0)%Z eqn:E2; lia.
  - assert (Ho : N.odd u = true) by (rewrite <- N.negb_even, E; reflexivity).
    apply N.odd_spec in Ho. destruct Ho as [k Hk]. subst u.
    assert ((2 * k + 1) / 2 = k) as -> by (symmetry; apply N.div_unique with (r := 1); lia).
    destruct (- Z.of_N k - 1 <? 0)%Z eqn:E2; lia.
Qed.

Lemma zigzag_range x : (- 2 ^ 63 <= x < 2 ^ 63)%Z -> zigzag x < 2 ^ 64.
Proof. unfold zigzag. intros H. destruct (x <? 0)%Z eqn:E; lia. Qed.

Lemma unzigzag_range u : u < 2 ^ 64 -> (- 2 ^ 63 <= unzigzag u < 2 ^ 63)%Z.
Proof.
  unfold unzigzag. intros H.
  assert (u / 2 < 2 ^ 63) by (apply N.div_lt_upper_bound; lia).
  destruct (N.even u); lia.
Qed.

(** ** varint *)

Lemma varint_enc_length x : (0 < length (varint_enc x) <= 10)%nat.
Proof. apply uvarint_enc_length. Qed.

Lemma varint_enc_wf x : well_formed (varint_enc x).
Proof. apply uvarint_enc_wf. Qed.

Theorem varint_roundtrip x rest :
  (- 2 ^ 63 <= x < 2 ^ 63)%Z ->
  varint_dec (varint_enc x ++ rest) = Some (x, length (varint_enc x)).
Proof.
  intros Hx. unfold varint_dec, varint_enc.
  rewrite uvarint_roundtrip by (apply zigzag_range; exact Hx).
  rewrite unzigzag_zigzag. reflexivity.
Qed.

Theorem varint_dec_guard buf x n :
  varint_dec buf = Some (x, n) ->
  (0 < n <= length buf)%nat /\ (n <= 10)%nat /\
  (well_formed buf -> (- 2 ^ 63 <= x < 2 ^ 63)%Z).
Proof.
  unfold varint_dec. destruct (uvarint_dec buf) as [[u m]|] eqn:E; [|discriminate].
  intros H. apply some_pair_inj in H; destruct H as [<- <-].
  destruct (uvarint_dec_guard _ _ _ E) as (H1 & H2 & H3).
  repeat split; try lia; apply unzigzag_range; auto.
Qed.

Lemma varint_dec_prefix buf x n rest :
  varint_dec buf = Some (x, n) -> varint_dec (firstn n buf ++ rest) = Some (x, n).
Proof.
  unfold varint_dec, uvarint_dec.
  destruct (uvarint_dec_at 0 buf) as [[u m]|] eqn:E; [|discriminate].
  intros H. apply some_pair_inj in H; destruct H as [<- <-].
  rewrite (uvarint_dec_at_prefix _ _ _ _ rest E). reflexivity.
Qed.

(** ** length-prefixed bytes *)

Lemma bytes_enc_length b :
  length (bytes_enc b) = (length (uvarint_enc (N.of_nat (length b))) + length b)%nat.
Proof. unfold bytes_enc. apply app_length. Qed.

Theorem bytes_roundtrip b rest :
  N.of_nat (length b) < 2 ^ 63 - 1 ->
  bytes_dec (bytes_enc b ++ rest) = Some (b, length (bytes_enc b)).
Proof.
  intros Hb. unfold bytes_dec, bytes_enc.
  rewrite <- app_assoc.
  rewrite uvarint_roundtrip by lia.
  destruct (max_int <=? N.of_nat (length b)) eqn:E1; [unfold max_int in E1; lia|].
  rewrite skipn_length_app.
  destruct (N.of_nat (length (b ++ rest)) <? N.of_nat (length b)) eqn:E2.
  { rewrite app_length in E2. lia. }
  rewrite Nat2N.id, firstn_length_app, app_length. reflexivity.
Qed.

Theorem bytes_dec_guard buf b n :
  bytes_dec buf = Some (b, n) ->
  (0 < n <= length buf)%nat /\ (length b <= length buf)%nat /\ (length b < n)%nat /\
  exists m, (0 < m <= 10)%nat /\ (n = m + length b)%nat /\ b = firstn (length b) (skipn m buf).
Proof.
  unfold bytes_dec.
  destruct (uvarint_dec buf) as [[s m]|] eqn:E; [|discriminate].
  destruct (max_int <=? s) eqn:E1; [discriminate|].
  destruct (N.of_nat (length (skipn m buf)) <? s) eqn:E2; [discriminate|].
  intros H. apply some_pair_inj in H; destruct H as [<- <-].
  destruct (uvarint_dec_guard _ _ _ E) as (H1 & H2 & _).
  pose proof (length_skipn_eq m buf ltac:(lia)) as Hl.
  assert (Hf : length (firstn (N.to_nat s) (skipn m buf)) = N.to_nat s).
  { apply firstn_length_le. lia. }
  rewrite Hf. repeat split; try lia.
  exists m. repeat split; try lia.
Qed.

Lemma bytes_dec_wf buf b n : bytes_dec buf = Some (b, n) -> well_formed buf -> well_formed b.
Proof.
  intros H Hw. destruct (bytes_dec_guard _ _ _ H) as (_ & _ & _ & m & _ & _ & ->).
  apply well_formed_firstn, well_formed_skipn, Hw.
Qed.

(** ** big-endian fixed width *)

Lemma be_enc_length w x : length (be_enc w x) = w.
Proof.
  revert x. induction w as [|w IH]; intros x; cbn [be_enc]; [reflexivity|].
  rewrite app_length, IH. simpl. lia.
Qed.

Lemma be_enc_wf w x : well_formed (be_enc w x).
Proof.
  revert x. induction w as [|w IH]; intros x; cbn [be_enc]; [constructor|].
  apply well_formed_app. split; [apply IH|].
  constructor; [apply N.mod_lt; lia | constructor].
Qed.

Lemma be_dec_snoc a c : be_dec (a ++ [c]) = be_dec a * 256 + c.
Proof. unfold be_dec. rewrite fold_left_app. reflexivity. Qed.

Lemma pow256_S w : 256 ^ N.of_nat (S w) = 256 * 256 ^ N.of_nat w.
Proof. rewrite Nat2N.inj_succ, N.pow_succ_r'. reflexivity. Qed.

Lemma be_dec_enc w x : be_dec (be_enc w x) = x mod 256 ^ N.of_nat w.
Proof.
  revert x. induction w as [|w IH]; intros x; cbn [be_enc].
  - change (256 ^ N.of_nat 0) with 1. rewrite N.mod_1_r. reflexivity.
  - rewrite be_dec_snoc, IH, pow256_S.
    assert (Hp : 256 ^ N.of_nat w <> 0) by (apply N.pow_nonzero; lia).
    rewrite N.mod_mul_r by lia.
    generalize ((x / 256) mod 256 ^ N.of_nat w), (x mod 256). intros; lia.
Qed.

Theorem be_roundtrip w x : x < 256 ^ N.of_nat w -> be_dec (be_enc w x) = x.
Proof. intros H. rewrite be_dec_enc. apply N.mod_small, H. Qed.

Lemma be_dec_bound b : well_formed b -> be_dec b < 256 ^ N.of_nat (length b).
Proof.
  induction b as [|c b IH] using rev_ind; intros Hw.
  - cbn. lia.
  - apply well_formed_app in Hw. destruct Hw as [Hb Hc]. inversion Hc; subst.
    rewrite be_dec_snoc, app_length. cbn [length].
    replace (length b + 1)%nat with (S (length b)) by lia.
    rewrite pow256_S. specialize (IH Hb). lia.
Qed.

(** lexicographic comparison of concatenations with equal-length heads *)
Lemma bcmp_app a : forall a' b b',
  length a = length a' ->
  bcmp (a ++ b) (a' ++ b') = match bcmp a a' with Eq => bcmp b b' | c => c end.
Proof.
  induction a as [|x a IH]; intros [|y a'] b b' Hl; try discriminate; [reflexivity|].
  cbn [app bcmp]. destruct (x ?= y); auto.
Qed.

Lemma compare_divmod x y :
  (x ?= y) = match (x / 256 ?= y / 256) with Eq => (x mod 256 ?= y mod 256) | c => c end.
Proof.
  pose proof (N.div_mod x 256 ltac:(lia)). pose proof (N.div_mod y 256 ltac:(lia)).
  pose proof (N.mod_lt x 256 ltac:(lia)). pose proof (N.mod_lt y 256 ltac:(lia)).
  destruct (N.compare_spec (x / 256) (y / 256)) as [E|L|G].
  - destruct (N.compare_spec (x mod 256) (y mod 256)) as [E'|L'|G'].
    + apply N.compare_eq_iff. lia.
    + apply N.compare_lt_iff. lia.
    + apply N.compare_gt_iff. lia.
  - apply N.compare_lt_iff. lia.
  - apply N.compare_gt_iff. lia.
Qed.

(** [be_enc w] is strictly monotone (indeed an order embedding) on [x < 256^w]. *)
Theorem be_enc_compare w : forall x y,
  x < 256 ^ N.of_nat w -> y < 256 ^ N.of_nat w ->
  bcmp (be_enc w x) (be_enc w y) = (x ?= y).
Proof.
  induction w as [|w IH]; intros x y Hx Hy.
  - cbn in Hx, Hy. assert (x = 0) by lia. assert (y = 0) by lia. subst. reflexivity.
  - rewrite pow256_S in Hx, Hy.
    cbn [be_enc]. rewrite bcmp_app by (now rewrite !be_enc_length).
    rewrite IH by (apply N.div_lt_upper_bound; lia).
    rewrite (compare_divmod x y).
    destruct (x / 256 ?= y / 256); auto.
    cbn [bcmp]. destruct (x mod 256 ?= y mod 256); auto.
Qed.

Corollary be_enc_lt w x y :
  x < 256 ^ N.of_nat w -> y < 256 ^ N.of_nat w ->
  (bcmp (be_enc w x) (be_enc w y) = Lt <-> x < y).
Proof. intros Hx Hy. rewrite be_enc_compare by auto. apply N.compare_lt_iff. Qed.

Corollary be_enc_inj w x y :
  x < 256 ^ N.of_nat w -> y < 256 ^ N.of_nat w -> be_enc w x = be_enc w y -> x = y.
Proof.
  intros Hx Hy E. apply N.compare_eq_iff. rewrite <- (be_enc_compare w) by auto.
  rewrite E. apply bcmp_refl.
Qed.
