(** iavl/v2: the leaf change log, leaf orphans and the leaf pruner, at ROW level.

    V2.v keeps one change log per version and prunes it by version; V2Orphans.v models the
    branch side of pruning.  This file models the three leaf tables of the real database
    and the code that writes, prunes and reads them:

    - [leaf (version, sequence, bytes)], [leaf_delete (version, sequence, key)],
      [leaf_orphan (version, sequence, at)];
    - writers: [saveLeaves] (sqlite_batch.go; EVERY version), [addOrphan] on a leaf,
      [addDelete], [nextLeafNodeKey], [mutateNode] on a leaf (tree.go);
    - pruner: [leafLoop] (sqlite_writer.go);
    - reader: the row selection and ordering of [replayChangelog] (sqlite.go).

    LEVEL.  The leaf tables depend on the tree only through "which leaf currently holds key
    k and what is its node key": the state keeps the current leaves as an association list
    [ls_cur] (key -> node key, value) instead of the AVL tree (the tree shape decides only
    the ORDER in which [deepHash] collects [tree.leaves], irrelevant for a table).  The
    executable [cur_matches_tree] compares [ls_cur] with the leaves of the tree of
    [V2Orphans.os_run] (used in the examples of V2LeavesFacts.v).

    FACTS OF THE GO CODE transcribed here (tree.go):
    - [recursiveSet] on an existing key: [addOrphan(leaf)] then [mutateNode(leaf)]: a leaf
      hash is never nil, so the leaf always takes [nextLeafNodeKey()].
    - [addOrphan] on a leaf records the node key iff [!node.dirty].  [dirty] is set by
      [NewLeafNode] / [mutateNode] and cleared only when the node goes back to the pool.
      ASSUMPTION: [heightFilter > 0] (the default, 1): at SaveVersion every leaf written in
      the version is returned to the pool and dropped by its parent, EXCEPT a leaf that is
      the root ([saveLeaves]: "never evict the root if it's a leaf").  So a leaf is dirty iff
      it was written in this working version, or it is the leaf that was the (dirty) root at
      the last SaveVersion: [ls_dirty].  An update of that leaf records NO orphan.
    - [recursiveRemove] on the leaf: [addDelete] only, NO [addOrphan] ("we don't create an
      orphan here because the leaf node is removed"): the leaf row of a removed key is never
      named by a [leaf_orphan] row.
    - [addDelete]: nothing when the leaf is of this working version; else a delete with
      [nextLeafNodeKey()].
    - sequences: [leafSequenceStart] = 2^31; rows carry the absolute sequence.

    Conventions as in V2.v / V2Orphans.v: [wv = version + 1]; Go errors are [None]. *)
From Coq Require Import ZArith List Bool.
From IAVL Require Import Bytes Varint Tree MTree V2 V2Orphans.
Import ListNotations.
Local Open Scope Z_scope.

(** * 1. Rows *)

Definition leaf_seq_start : Z := 2147483648.

(** the payload of a [leaf] row (Node.Bytes() of a leaf: key, value, hash; height 0, size 1) *)
Record leafrow := LeafRow { lr_key : bytes; lr_val : bytes; lr_hash : bytes }.

Record lstore := LStore {
  leaves : list (nkey2 * leafrow);     (* leaf (version, sequence, bytes) *)
  ldeletes : list (nkey2 * bytes);     (* leaf_delete (version, sequence, key) *)
  lorphans : list (nkey2 * Z)          (* leaf_orphan (version, sequence, at) *)
}.

Definition lstore_empty : lstore := LStore [] [] [].

(** * 2. The current leaves *)

Definition cur_t := list (bytes * (nkey2 * bytes)).

Fixpoint cur_find (k : bytes) (c : cur_t) : option (nkey2 * bytes) :=
  match c with
  | [] => None
  | (k', e) :: rest => if beq k k' then Some e else cur_find k rest
  end.

Definition cur_del (k : bytes) (c : cur_t) : cur_t := filter (fun x => negb (beq k (fst x))) c.

Definition cur_put (k : bytes) (nk : nkey2) (v : bytes) (c : cur_t) : cur_t :=
  cur_del k c ++ [(k, (nk, v))].

Definition cur_keys (c : cur_t) : list nkey2 := map (fun x => fst (snd x)) c.

(** * 3. State and writes *)

Record lstate := LState {
  ls_cur : cur_t;                 (* the leaves of tree.root *)
  ls_version : Z;                 (* tree.version *)
  ls_lseq : Z;                    (* tree.leafSequence - leafSequenceStart *)
  ls_dels : list (nkey2 * bytes); (* tree.deletes: (deleteKey, leafKey) *)
  ls_orph : list nkey2;           (* tree.leafOrphans *)
  ls_dirty : option nkey2;        (* the old leaf still dirty in memory (a leaf root), see header *)
  ls_ckpts : list Z;              (* tree.checkpoints *)
  ls_store : lstore;
  ls_floor : Z                    (* GHOST: the largest aligned bound [pruneTo] used so far (-1: none) *)
}.

Definition ls_empty : lstate := LState [] 0 0 [] [] None [] lstore_empty (-1).

Definition okey_eqb (a : option nkey2) (b : nkey2) : bool :=
  match a with Some x => key_eqb x b | None => false end.

(** addOrphan on a leaf: recorded iff not dirty *)
Definition leaf_dirty (wv : Z) (dirty : option nkey2) (nk : nkey2) : bool :=
  (fst nk =? wv) || okey_eqb dirty nk.

Definition leaf_orphan_of (wv : Z) (dirty : option nkey2) (nk : nkey2) : list nkey2 :=
  if leaf_dirty wv dirty nk then [] else [nk].

Definition ls_apply (s : lstate) (o : logop) : lstate :=
  let wv := ls_version s + 1 in
  match o with
  | LSet k v =>
      let nk' := (wv, leaf_seq_start + (ls_lseq s + 1)) in
      let orph := match cur_find k (ls_cur s) with
                  | Some (nk, _) => leaf_orphan_of wv (ls_dirty s) nk
                  | None => []
                  end in
      LState (cur_put k nk' v (ls_cur s)) (ls_version s) (ls_lseq s + 1) (ls_dels s)
             (ls_orph s ++ orph) (ls_dirty s) (ls_ckpts s) (ls_store s) (ls_floor s)
  | LDel k =>
      match cur_find k (ls_cur s) with
      | None => s
      | Some (nk, _) =>
          if fst nk =? wv then
            LState (cur_del k (ls_cur s)) (ls_version s) (ls_lseq s) (ls_dels s)
                   (ls_orph s) (ls_dirty s) (ls_ckpts s) (ls_store s) (ls_floor s)
          else
            LState (cur_del k (ls_cur s)) (ls_version s) (ls_lseq s + 1)
                   (ls_dels s ++ [((wv, leaf_seq_start + (ls_lseq s + 1)), k)])
                   (ls_orph s) (ls_dirty s) (ls_ckpts s) (ls_store s) (ls_floor s)
      end
  end.

Definition ls_apply_all (s : lstate) (ops : list logop) : lstate := fold_left ls_apply ops s.

(** which old leaves a version's writes orphan (what [tree.leafOrphans] holds at SaveVersion) *)
Definition leaf_orphans_of (s : lstate) (ops : list logop) : list nkey2 :=
  ls_orph (ls_apply_all (LState (ls_cur s) (ls_version s) 0 [] [] (ls_dirty s) (ls_ckpts s)
                                (ls_store s) (ls_floor s)) ops).

Section Save.
  Variable H : bytes -> bytes.

  (** [tree.leaves]: the leaves whose node-key version is the version being saved *)
  Definition new_leaf_rows (v : Z) (c : cur_t) : list (nkey2 * leafrow) :=
    map (fun x => (fst (snd x),
                   LeafRow (fst x) (snd (snd x)) (H (leaf_preimage H (fst (fst (snd x))) (fst x) (snd (snd x))))))
        (filter (fun x => fst (fst (snd x)) =? v) c).

  (** saveLeaves: leaf rows, leaf_delete rows, leaf_orphan rows tagged [at = tree.version] *)
  Definition save_leaves (st : lstore) (v : Z) (c : cur_t) (dels : list (nkey2 * bytes))
             (orph : list nkey2) : lstore :=
    LStore (leaves st ++ new_leaf_rows v c)
           (ldeletes st ++ dels)
           (lorphans st ++ map (fun k => (k, v)) orph).

  (** the dirty leaf kept in memory over SaveVersion: a root that is a leaf *)
  Definition next_dirty (v : Z) (dirty : option nkey2) (c : cur_t) : option nkey2 :=
    match c with
    | [(_, (nk, _))] => if leaf_dirty v dirty nk then Some nk else None
    | _ => None
    end.

  (** SaveVersion: version++, saveLeaves, shouldCheckpoint, resetSequences *)
  Definition ls_save (interval : Z) (s : lstate) : lstate :=
    let v := ls_version s + 1 in
    let ck := v2_should_checkpoint interval false (ls_ckpts s) v in
    LState (ls_cur s) v 0 [] [] (next_dirty v (ls_dirty s) (ls_cur s))
           (if ck then ls_ckpts s ++ [v] else ls_ckpts s)
           (save_leaves (ls_store s) v (ls_cur s) (ls_dels s) (ls_orph s))
           (ls_floor s).
End Save.

(** * 4. The leaf pruner (leafLoop) *)

Definition prune_leaves_to (st : lstore) (c : Z) : lstore :=
  let dead := map fst (filter (fun o => snd o <=? c) (lorphans st)) in
  LStore (filter (fun r => negb (in_keys (fst r) dead)) (leaves st))
         (filter (fun d => negb (fst (fst d) <? c)) (ldeletes st))
         (filter (fun o => negb (snd o <=? c)) (lorphans st)).

(** startPrune: [pruneTo = checkpoints.FindPrevious(n)]; nothing when -1.  Returns the store
    and the bound used. *)
Definition prune_leaves_b (cks : list Z) (st : lstore) (n : Z) : option (lstore * Z) :=
  match find_previous cks n with
  | FPVal c => if c =? -1 then Some (st, -1) else Some (prune_leaves_to st c, c)
  | _ => None
  end.

Definition prune_leaves (cks : list Z) (st : lstore) (n : Z) : option lstore :=
  option_map fst (prune_leaves_b cks st n).

(** SEEDED DEFECT C20c: the batch is opened with the REQUESTED version *)
Definition prune_leaves_unaligned (cks : list Z) (st : lstore) (n : Z) : option lstore :=
  match find_previous cks n with
  | FPVal c => if c =? -1 then Some st else Some (prune_leaves_to st n)
  | _ => None
  end.

(** * 5. The reader: the rows replayChangelog iterates *)

Definition in_range (c t : Z) (k : nkey2) : bool := (c <? fst k) && (fst k <=? t).

(** the rows selected from the two tables, before ORDER BY *)
Definition replay_raw (st : lstore) (c t : Z) : list (nkey2 * leafrow) * list (nkey2 * bytes) :=
  (filter (fun r => in_range c t (fst r)) (leaves st),
   filter (fun d => in_range c t (fst d)) (ldeletes st)).

Definition key_leb (a b : nkey2) : bool :=
  (fst a <? fst b) || ((fst a =? fst b) && (snd a <=? snd b)).

Fixpoint ins_krow (r : nkey2 * logop) (l : list (nkey2 * logop)) : list (nkey2 * logop) :=
  match l with
  | [] => [r]
  | x :: rest => if key_leb (fst r) (fst x) then r :: l else x :: ins_krow r rest
  end.

Definition sort_krows (l : list (nkey2 * logop)) : list (nkey2 * logop) := fold_right ins_krow [] l.

Definition merge_raw (p : list (nkey2 * leafrow) * list (nkey2 * bytes)) : list (nkey2 * logop) :=
  sort_krows (map (fun r => (fst r, LSet (lr_key (snd r)) (lr_val (snd r)))) (fst p)
              ++ map (fun d => (fst d, LDel (snd d))) (snd p)).

(** the change log rows of versions in (c, t], in (version, sequence) order *)
Definition replay (st : lstore) (c t : Z) : list (nkey2 * logop) := merge_raw (replay_raw st c t).

(** the same rows in the shape of V2.v's [db_log]: per version, (relative sequence, row) *)
Definition replay_version_rows (st : lstore) (v : Z) : list (Z * logop) :=
  map (fun r => (snd (fst r) - leaf_seq_start, snd r)) (replay st (v - 1) v).

(** getLeaf: the first row with that node key *)
Fixpoint get_leaf (k : nkey2) (l : list (nkey2 * leafrow)) : option leafrow :=
  match l with
  | [] => None
  | (k', r) :: rest => if key_eqb k k' then Some r else get_leaf k rest
  end.

(** * 6. The history runner, with the trace of current leaves after every version *)

Definition ltrace := list (Z * cur_t).

Section Runner.
  Variable H : bytes -> bytes.
  Variable unaligned : bool.          (* seeded defect C20c *)

  Definition ls_step (interval : Z) (str : lstate * ltrace) (e : hstep) : option (lstate * ltrace) :=
    let (s, tr) := str in
    match e with
    | HVersion ops =>
        let s' := ls_save H interval (ls_apply_all s ops) in
        Some (s', tr ++ [(ls_version s', ls_cur s')])
    | HPrune n =>
        if unaligned then
          match prune_leaves_unaligned (ls_ckpts s) (ls_store s) n with
          | None => None
          | Some st' =>
              Some (LState (ls_cur s) (ls_version s) (ls_lseq s) (ls_dels s) (ls_orph s) (ls_dirty s)
                           (ls_ckpts s) st' (ls_floor s), tr)
          end
        else
          match prune_leaves_b (ls_ckpts s) (ls_store s) n with
          | None => None
          | Some (st', c) =>
              Some (LState (ls_cur s) (ls_version s) (ls_lseq s) (ls_dels s) (ls_orph s) (ls_dirty s)
                           (ls_ckpts s) st' (Z.max (ls_floor s) c), tr)
          end
    end.

  Fixpoint ls_run_tr (interval : Z) (str : lstate * ltrace) (hist : list hstep) : option (lstate * ltrace) :=
    match hist with
    | [] => Some str
    | e :: rest =>
        match ls_step interval str e with
        | None => None
        | Some str' => ls_run_tr interval str' rest
        end
    end.

  Definition ls_run (interval : Z) (s : lstate) (hist : list hstep) : option lstate :=
    option_map fst (ls_run_tr interval (s, []) hist).
End Runner.

(** the uninterrupted run: the history without its prunes *)
Definition no_prunes (hist : list hstep) : list hstep :=
  filter (fun e => match e with HVersion _ => true | HPrune _ => false end) hist.

(** * 7. The tie with the tree of V2Orphans.os_run (executable check) *)

Fixpoint tree_leaves (t : node) : cur_t :=
  match t with
  | Leaf k v m => [(k, ((ver m, leaf_seq_start + nonce m), v))]
  | Inner _ _ _ _ l r => tree_leaves l ++ tree_leaves r
  end.

Definition bytes_eqb (a b : bytes) : bool := if list_eq_dec N.eq_dec a b then true else false.

Definition entry_eqb (a b : bytes * (nkey2 * bytes)) : bool :=
  bytes_eqb (fst a) (fst b) && key_eqb (fst (snd a)) (fst (snd b)) && bytes_eqb (snd (snd a)) (snd (snd b)).

Definition cur_subset (a b : cur_t) : bool := forallb (fun x => existsb (entry_eqb x) b) a.

(** same leaves (as sets; [ls_cur] is in write order, the tree in key order) *)
Definition cur_matches_tree (c : cur_t) (root : option node) : bool :=
  let tl := match root with Some t => tree_leaves t | None => [] end in
  cur_subset c tl && cur_subset tl c && (length c =? length tl)%nat.
