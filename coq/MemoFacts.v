(** Facts about hash memoisation (Memo.v): when the hashes memoised in the nodes of the working
    tree are invisible (the memo machine refines the pure machine of Tree.v), and the histories
    in which they are not (the three repaired defects, as refutations by computation). *)
From Coq Require Import Lia.
From IAVL Require Import Bytes Varint Sha256 Tree Memo.
Local Open Scope Z_scope.

(** ** Erasure commutes with the node algebra *)

Lemma height_erase t : height (erase t) = mheight t.
Proof. destruct t; reflexivity. Qed.
Lemma size_erase t : size (erase t) = msize t.
Proof. destruct t; reflexivity. Qed.
Lemma nmeta_erase t : nmeta (erase t) = mmeta t.
Proof. destruct t; reflexivity. Qed.
Lemma is_new_erase t : is_new (erase t) = m_is_new t.
Proof. destruct t; reflexivity. Qed.

Lemma erase_lift t : erase (lift t) = t.
Proof. induction t as [k v m|k h s m l IHl r IHr]; cbn [lift erase]; congruence. Qed.

Lemma erase_mmk k l r : erase (mmk k l r) = mk k (erase l) (erase r).
Proof. unfold mmk, mk. cbn [erase]. rewrite !height_erase, !size_erase. reflexivity. Qed.

Lemma erase_mrotR t : erase (mrotR t) = rotR (erase t).
Proof.
  destruct t as [k v m memo|k h s m memo [lk lv lm lmemo|lk lh ls lm lmemo ll lr] r];
    cbn [mrotR rotR erase]; try reflexivity.
  rewrite !erase_mmk. reflexivity.
Qed.

Lemma erase_mrotL t : erase (mrotL t) = rotL (erase t).
Proof.
  destruct t as [k v m memo|k h s m memo l [rk rv rm rmemo|rk rh rs rm rmemo rl rr]];
    cbn [mrotL rotL erase]; try reflexivity.
  rewrite !erase_mmk. reflexivity.
Qed.

Lemma bal_of_erase t : bal_of (erase t) = mbal_of t.
Proof. destruct t; cbn [erase bal_of mbal_of]; [reflexivity|]. rewrite !height_erase. reflexivity. Qed.

Lemma erase_mbalance t : erase (mbalance t) = balance (erase t).
Proof.
  destruct t as [k v m memo|k h s m memo l r]; [reflexivity|].
  cbn [mbalance]. cbn [erase balance]. rewrite !height_erase, !bal_of_erase.
  destruct (1 <? mheight l - mheight r).
  - destruct (0 <=? mbal_of l).
    + rewrite erase_mrotR. reflexivity.
    + rewrite erase_mrotR. cbn [erase]. rewrite erase_mrotL. reflexivity.
  - destruct (mheight l - mheight r <? -1); [|reflexivity].
    destruct (mbal_of r <=? 0).
    + rewrite erase_mrotL. reflexivity.
    + rewrite erase_mrotL. cbn [erase]. rewrite erase_mrotR. reflexivity.
Qed.

(** item 2a: recursiveSet on the memoising nodes is [Tree.set] (tree and "updated" flag) *)
Theorem mset_erase t k v :
  set (erase t) k v = (erase (fst (mset t k v)), snd (mset t k v)).
Proof.
  induction t as [lk lv m memo|nk h s m memo l IHl r IHr]; cbn [mset set erase].
  - destruct (bcmp k lk); reflexivity.
  - destruct (blt k nk).
    + rewrite IHl. destruct (mset l k v) as [l' upd]. cbn [fst snd].
      destruct upd; cbn [fst snd erase]; [reflexivity|].
      rewrite erase_mbalance, erase_mmk. reflexivity.
    + rewrite IHr. destruct (mset r k v) as [r' upd]. cbn [fst snd].
      destruct upd; cbn [fst snd erase]; [reflexivity|].
      rewrite erase_mbalance, erase_mmk. reflexivity.
Qed.

Definition erase_rm (res : mrm_res) : rm_res :=
  RmRes (option_map erase (mrm_self res)) (mrm_key res) (mrm_val res).

(** item 2b: recursiveRemove (new subtree, new routing key, removed value) *)
Theorem mremove_erase t k : remove (erase t) k = erase_rm (mremove t k).
Proof.
  induction t as [lk lv m memo|nk h s m memo l IHl r IHr]; cbn [mremove remove erase].
  - destruct (beq k lk); reflexivity.
  - destruct (blt k nk).
    + rewrite IHl. destruct (mremove l k) as [[l'|] rk [val|]]; unfold erase_rm;
        cbn [mrm_self mrm_key mrm_val rm_self rm_key rm_val option_map erase];
        try reflexivity.
      rewrite erase_mbalance, erase_mmk. reflexivity.
    + rewrite IHr. destruct (mremove r k) as [[r'|] rk [val|]]; unfold erase_rm;
        cbn [mrm_self mrm_key mrm_val rm_self rm_key rm_val option_map erase];
        try reflexivity.
      rewrite erase_mbalance, erase_mmk. reflexivity.
Qed.

(** ** Persisted nodes have persisted descendants
    (Go: saveNewNodes gives a node key to a whole unsaved subtree at once, and what is read
    back from the database is persisted).  This is what lets resetUnsavedHashes stop at the
    first node that has a node key. *)
Fixpoint nall_saved (t : node) : Prop :=
  match t with
  | Leaf _ _ m => ver m <> 0
  | Inner _ _ _ m l r => ver m <> 0 /\ nall_saved l /\ nall_saved r
  end.

Fixpoint nclosed (t : node) : Prop :=
  match t with
  | Leaf _ _ _ => True
  | Inner _ _ _ m l r => (ver m <> 0 -> nall_saved l /\ nall_saved r) /\ nclosed l /\ nclosed r
  end.

Definition all_saved (t : mnode) : Prop := nall_saved (erase t).
Definition closed (t : mnode) : Prop := nclosed (erase t).

Lemma nall_saved_closed t : nall_saved t -> nclosed t.
Proof.
  induction t as [k v m|k h s m l IHl r IHr]; cbn [nall_saved nclosed]; [auto|].
  intros (A & B & C). auto.
Qed.

Lemma nclosed_saved t : nclosed t -> ver (nmeta t) <> 0 -> nall_saved t.
Proof.
  destruct t as [k v m|k h s m l r]; cbn [nclosed nall_saved nmeta]; [auto|].
  intros (A & _ & _) N. destruct (A N). auto.
Qed.

Lemma nclosed_mk k l r : nclosed l -> nclosed r -> nclosed (mk k l r).
Proof.
  intros A B. unfold mk. cbn [nclosed new_meta ver]. split; [|auto]. intros N. now elim N.
Qed.

Lemma nclosed_new k h s l r : nclosed l -> nclosed r -> nclosed (Inner k h s new_meta l r).
Proof.
  intros A B. cbn [nclosed new_meta ver]. split; [|auto]. intros N. now elim N.
Qed.

Lemma nclosed_rotR t : nclosed t -> nclosed (rotR t).
Proof.
  destruct t as [k v m|k h s m [lk lv lm|lk lh ls lm ll lr] r]; cbn [rotR]; auto.
  cbn [nclosed]. intros (_ & (_ & A & B) & C). auto using nclosed_mk.
Qed.

Lemma nclosed_rotL t : nclosed t -> nclosed (rotL t).
Proof.
  destruct t as [k v m|k h s m l [rk rv rm|rk rh rs rm rl rr]]; cbn [rotL]; auto.
  cbn [nclosed]. intros (_ & A & (_ & B & C)). auto using nclosed_mk.
Qed.

Lemma nclosed_balance k l r : nclosed l -> nclosed r -> nclosed (balance (mk k l r)).
Proof.
  intros A B. unfold mk. cbn [balance].
  destruct (1 <? height l - height r).
  - destruct (0 <=? bal_of l).
    + apply nclosed_rotR, nclosed_new; auto.
    + apply nclosed_rotR, nclosed_new; auto using nclosed_rotL.
  - destruct (height l - height r <? -1); [|apply nclosed_new; auto].
    destruct (bal_of r <=? 0).
    + apply nclosed_rotL, nclosed_new; auto.
    + apply nclosed_rotL, nclosed_new; auto using nclosed_rotR.
Qed.

Lemma nclosed_children k h s m l r : nclosed (Inner k h s m l r) -> nclosed l /\ nclosed r.
Proof. cbn [nclosed]. tauto. Qed.

Lemma set_nclosed t k v : nclosed t -> nclosed (fst (set t k v)).
Proof.
  induction t as [lk lv m|nk h s m l IHl r IHr]; cbn [set]; intros C.
  - destruct (bcmp k lk); cbn [fst]; [exact I| |]; apply nclosed_new; exact I.
  - destruct (nclosed_children _ _ _ _ _ _ C) as [Cl Cr].
    destruct (blt k nk).
    + specialize (IHl Cl). destruct (set l k v) as [l' upd]. cbn [fst] in IHl.
      destruct upd; cbn [fst]; [apply nclosed_new|apply nclosed_balance]; auto.
    + specialize (IHr Cr). destruct (set r k v) as [r' upd]. cbn [fst] in IHr.
      destruct upd; cbn [fst]; [apply nclosed_new|apply nclosed_balance]; auto.
Qed.

Definition onclosed (t : option node) : Prop :=
  match t with None => True | Some n => nclosed n end.

Lemma remove_nclosed t k : nclosed t -> onclosed (rm_self (remove t k)).
Proof.
  induction t as [lk lv m|nk h s m l IHl r IHr]; cbn [remove]; intros C.
  - destruct (beq k lk); cbn [rm_self onclosed]; exact I.
  - destruct (nclosed_children _ _ _ _ _ _ C) as [Cl Cr].
    destruct (blt k nk).
    + specialize (IHl Cl). destruct (remove l k) as [[l'|] rk [val|]];
        cbn [rm_self rm_key rm_val onclosed] in *; auto using nclosed_balance.
    + specialize (IHr Cr). destruct (remove r k) as [[r'|] rk [val|]];
        cbn [rm_self rm_key rm_val onclosed] in *; auto using nclosed_balance.
Qed.

Section WithHash.
  Variable H : bytes -> bytes.

  Lemma node_hash_leaf wv k v m :
    node_hash H wv (Leaf k v m) =
      if negb (ver m =? 0) then hs m else H (leaf_preimage H wv k v).
  Proof. reflexivity. Qed.

  Lemma node_hash_inner wv k h s m l r :
    node_hash H wv (Inner k h s m l r) =
      if negb (ver m =? 0) then hs m
      else H (inner_preimage h s wv (node_hash H wv l) (node_hash H wv r)).
  Proof. reflexivity. Qed.

  Lemma stamp_leaf_eq wv n k v m :
    stamp H wv n (Leaf k v m) =
      if negb (ver m =? 0) then (Leaf k v m, n)
      else (Leaf k v (Meta wv (n + 1) (H (leaf_preimage H wv k v))), n + 1).
  Proof. reflexivity. Qed.

  Lemma stamp_inner_eq wv n k h s m l r :
    stamp H wv n (Inner k h s m l r) =
      if negb (ver m =? 0) then (Inner k h s m l r, n)
      else
        let (l', n1) := stamp H wv (n + 1) l in
        let (r', n2) := stamp H wv n1 r in
        (Inner k h s (Meta wv (n + 1)
           (H (inner_preimage h s wv (hs (nmeta l')) (hs (nmeta r'))))) l' r', n2).
  Proof. reflexivity. Qed.

  (** the hash saveNewNodes stores in the root of what it saves is the working hash *)
  Lemma stamp_hs wv t : forall n, hs (nmeta (fst (stamp H wv n t))) = node_hash H wv t.
  Proof.
    induction t as [k v m|k h s m l IHl r IHr]; intros n.
    - rewrite stamp_leaf_eq, node_hash_leaf. destruct (negb (ver m =? 0)); reflexivity.
    - rewrite stamp_inner_eq, node_hash_inner. destruct (negb (ver m =? 0)); [reflexivity|].
      specialize (IHl (n + 1)). destruct (stamp H wv (n + 1) l) as [l' n1].
      specialize (IHr n1). destruct (stamp H wv n1 r) as [r' n2].
      cbn [fst] in *. cbn [nmeta hs]. rewrite IHl, IHr. reflexivity.
  Qed.

  (** after saveNewNodes under a version <> 0 every node has a node key *)
  Lemma stamp_all_saved wv t : wv <> 0 -> forall n,
    nclosed t -> nall_saved (fst (stamp H wv n t)).
  Proof.
    intros Hwv. induction t as [k v m|k h s m l IHl r IHr]; intros n C.
    - rewrite stamp_leaf_eq. destruct (ver m =? 0) eqn:E; cbn [negb fst nall_saved ver]; [exact Hwv|].
      apply Z.eqb_neq, E.
    - rewrite stamp_inner_eq. destruct (ver m =? 0) eqn:E; cbn [negb].
      + destruct (nclosed_children _ _ _ _ _ _ C) as [Cl Cr].
        specialize (IHl (n + 1) Cl). destruct (stamp H wv (n + 1) l) as [l' n1].
        specialize (IHr n1 Cr). destruct (stamp H wv n1 r) as [r' n2].
        cbn [fst] in *. cbn [nall_saved ver]. auto.
      + cbn [fst]. apply nclosed_saved; [exact C|]. cbn [nmeta]. apply Z.eqb_neq, E.
  Qed.

  (** ** The invariant of the memoised hashes
      [memo_ok wv t]: every hash memoised in a new node of [t] is the hash that node gets
      when it is saved under [wv]. *)
  Definition memo_fits (wv : Z) (t : mnode) : Prop :=
    m_is_new t = true -> forall x, mmemo t = Some x -> x = node_hash H wv (erase t).

  Fixpoint memo_ok (wv : Z) (t : mnode) : Prop :=
    match t with
    | MLeaf _ _ _ _ => memo_fits wv t
    | MInner _ _ _ _ _ l r => memo_fits wv t /\ memo_ok wv l /\ memo_ok wv r
    end.

  Definition omemo_ok (wv : Z) (t : option mnode) : Prop :=
    match t with None => True | Some n => memo_ok wv n end.

  Lemma memo_fits_none wv t : mmemo t = None -> memo_fits wv t.
  Proof. intros E _ x E'. congruence. Qed.

  Lemma memo_fits_saved wv t : m_is_new t = false -> memo_fits wv t.
  Proof. intros E E'. congruence. Qed.

  Lemma memo_ok_lift wv t : memo_ok wv (lift t).
  Proof.
    induction t as [k v m|k h s m l IHl r IHr]; cbn [lift memo_ok].
    - apply memo_fits_none. reflexivity.
    - split; [apply memo_fits_none; reflexivity|auto].
  Qed.

  (** a persisted subtree satisfies the invariant for every working version *)
  Lemma all_saved_memo_ok wv t : all_saved t -> memo_ok wv t.
  Proof.
    unfold all_saved.
    induction t as [k v m memo|k h s m memo l IHl r IHr]; cbn [erase nall_saved memo_ok].
    - intros N. apply memo_fits_saved. unfold m_is_new. cbn [mmeta]. apply Z.eqb_neq, N.
    - intros (N & A & B). split; [|auto].
      apply memo_fits_saved. unfold m_is_new. cbn [mmeta]. apply Z.eqb_neq, N.
  Qed.

  (** item 1: hashWithCount returns the working hash, only adds memoised hashes, and keeps
      the invariant *)
  Theorem hash_with_count_spec wv t : memo_ok wv t ->
    fst (hash_with_count H wv t) = node_hash H wv (erase t) /\
    erase (snd (hash_with_count H wv t)) = erase t /\
    memo_ok wv (snd (hash_with_count H wv t)).
  Proof.
    induction t as [k v m memo|k h s m memo l IHl r IHr]; cbn [memo_ok]; intros M.
    - cbn [hash_with_count erase]. rewrite node_hash_leaf.
      destruct (ver m =? 0) eqn:E; cbn [negb].
      + destruct memo as [x|]; cbn [fst snd erase memo_ok].
        * repeat split; [|exact M]. rewrite (M E x eq_refl). cbn [erase].
          rewrite node_hash_leaf, E. reflexivity.
        * repeat split. intros _ x X. cbn [mmemo] in X. injection X as <-. cbn [erase].
          rewrite node_hash_leaf, E. reflexivity.
      + cbn [fst snd erase memo_ok]. auto.
    - destruct M as (M & Ml & Mr). cbn [hash_with_count erase]. rewrite node_hash_inner.
      destruct (ver m =? 0) eqn:E; cbn [negb].
      + destruct memo as [x|].
        * cbn [fst snd erase memo_ok]. repeat split; auto.
          rewrite (M E x eq_refl). cbn [erase]. rewrite node_hash_inner, E. reflexivity.
        * destruct (IHl Ml) as (Hl & El & Ol). destruct (IHr Mr) as (Hr & Er & Or).
          destruct (hash_with_count H wv l) as [lh l']. destruct (hash_with_count H wv r) as [rh r'].
          cbn [fst snd] in *. cbn [erase memo_ok]. subst lh rh. rewrite El, Er.
          repeat split; auto.
          intros _ x X. cbn [mmemo] in X. injection X as <-. cbn [erase].
          rewrite node_hash_inner, E, El, Er. reflexivity.
      + cbn [fst snd erase memo_ok]. auto.
  Qed.

  (** a node whose [hash] field is set is returned as it is, whatever the version *)
  Lemma hash_with_count_hashed v t x : mhash_field t = Some x -> hash_with_count H v t = (x, t).
  Proof.
    unfold mhash_field, m_is_new.
    destruct t as [k vv m memo|k h s m memo l r]; cbn [mmeta mmemo hash_with_count];
      destruct (ver m =? 0); cbn [negb]; intros E; try (subst memo; reflexivity);
      injection E as <-; reflexivity.
  Qed.

  (** ** recursiveSet / recursiveRemove keep the invariant: what they rebuild has no hash,
      what they keep is a subtree that satisfied it *)
  Lemma memo_ok_mmk wv k l r : memo_ok wv l -> memo_ok wv r -> memo_ok wv (mmk k l r).
  Proof. intros A B. unfold mmk. cbn [memo_ok]. split; [apply memo_fits_none; reflexivity|auto]. Qed.

  Lemma memo_ok_new wv k h s l r :
    memo_ok wv l -> memo_ok wv r -> memo_ok wv (MInner k h s new_meta None l r).
  Proof. intros A B. cbn [memo_ok]. split; [apply memo_fits_none; reflexivity|auto]. Qed.

  Lemma memo_ok_children wv k h s m memo l r :
    memo_ok wv (MInner k h s m memo l r) -> memo_ok wv l /\ memo_ok wv r.
  Proof. cbn [memo_ok]. tauto. Qed.

  Lemma memo_ok_mrotR wv t : memo_ok wv t -> memo_ok wv (mrotR t).
  Proof.
    destruct t as [k v m memo|k h s m memo [lk lv lm lmemo|lk lh ls lm lmemo ll lr] r];
      cbn [mrotR]; auto.
    cbn [memo_ok]. intros (_ & (_ & A & B) & C). auto using memo_ok_mmk.
  Qed.

  Lemma memo_ok_mrotL wv t : memo_ok wv t -> memo_ok wv (mrotL t).
  Proof.
    destruct t as [k v m memo|k h s m memo l [rk rv rm rmemo|rk rh rs rm rmemo rl rr]];
      cbn [mrotL]; auto.
    cbn [memo_ok]. intros (_ & A & (_ & B & C)). auto using memo_ok_mmk.
  Qed.

  Lemma memo_ok_mbalance wv k l r :
    memo_ok wv l -> memo_ok wv r -> memo_ok wv (mbalance (mmk k l r)).
  Proof.
    intros A B. unfold mmk. cbn [mbalance].
    destruct (1 <? mheight l - mheight r).
    - destruct (0 <=? mbal_of l).
      + apply memo_ok_mrotR, memo_ok_new; auto.
      + apply memo_ok_mrotR, memo_ok_new; auto using memo_ok_mrotL.
    - destruct (mheight l - mheight r <? -1); [|apply memo_ok_new; auto].
      destruct (mbal_of r <=? 0).
      + apply memo_ok_mrotL, memo_ok_new; auto.
      + apply memo_ok_mrotL, memo_ok_new; auto using memo_ok_mrotR.
  Qed.

  (** item 2c *)
  Theorem mset_memo_ok wv t k v : memo_ok wv t -> memo_ok wv (fst (mset t k v)).
  Proof.
    induction t as [lk lv m memo|nk h s m memo l IHl r IHr]; cbn [mset]; intros M.
    - destruct (bcmp k lk); cbn [fst].
      + apply memo_fits_none. reflexivity.
      + apply memo_ok_new; [apply memo_fits_none; reflexivity|exact M].
      + apply memo_ok_new; [exact M|apply memo_fits_none; reflexivity].
    - destruct (memo_ok_children _ _ _ _ _ _ _ _ M) as [Ml Mr].
      destruct (blt k nk).
      + specialize (IHl Ml). destruct (mset l k v) as [l' upd]. cbn [fst] in IHl.
        destruct upd; cbn [fst]; [apply memo_ok_new|apply memo_ok_mbalance]; auto.
      + specialize (IHr Mr). destruct (mset r k v) as [r' upd]. cbn [fst] in IHr.
        destruct upd; cbn [fst]; [apply memo_ok_new|apply memo_ok_mbalance]; auto.
  Qed.

  (** item 2d *)
  Theorem mremove_memo_ok wv t k : memo_ok wv t -> omemo_ok wv (mrm_self (mremove t k)).
  Proof.
    induction t as [lk lv m memo|nk h s m memo l IHl r IHr]; cbn [mremove]; intros M.
    - destruct (beq k lk); cbn [mrm_self omemo_ok]; [exact I|exact M].
    - destruct (memo_ok_children _ _ _ _ _ _ _ _ M) as [Ml Mr].
      destruct (blt k nk).
      + specialize (IHl Ml). destruct (mremove l k) as [[l'|] rk [val|]];
          cbn [mrm_self mrm_key mrm_val omemo_ok] in *; auto using memo_ok_mbalance.
      + specialize (IHr Mr). destruct (mremove r k) as [[r'|] rk [val|]];
          cbn [mrm_self mrm_key mrm_val omemo_ok] in *; auto using memo_ok_mbalance.
  Qed.

  (** item 3: saveNewNodes over memoised hashes is [Tree.stamp] (tree and last nonce) *)
  Theorem msave_spec wv t : memo_ok wv t -> forall n,
    erase (fst (msave H wv n t)) = fst (stamp H wv n (erase t)) /\
    snd (msave H wv n t) = snd (stamp H wv n (erase t)).
  Proof.
    induction t as [k v m memo|k h s m memo l IHl r IHr]; cbn [memo_ok]; intros M n.
    - cbn [msave erase]. rewrite stamp_leaf_eq.
      destruct (ver m =? 0) eqn:E; cbn [negb fst snd erase]; [|auto].
      split; [|reflexivity]. destruct memo as [x|]; [|reflexivity].
      rewrite (M E x eq_refl). cbn [erase]. rewrite node_hash_leaf, E. reflexivity.
    - destruct M as (M & Ml & Mr). cbn [msave erase]. rewrite stamp_inner_eq.
      destruct (ver m =? 0) eqn:E; cbn [negb]; [|cbn [fst snd erase]; auto].
      destruct (IHl Ml (n + 1)) as [El Nl].
      pose proof (stamp_hs wv (erase l) (n + 1)) as Sl.
      destruct (msave H wv (n + 1) l) as [l' n1]. destruct (stamp H wv (n + 1) (erase l)) as [l'' n1'].
      cbn [fst snd] in *. subst n1' l''.
      destruct (IHr Mr n1) as [Er Nr].
      pose proof (stamp_hs wv (erase r) n1) as Sr.
      destruct (msave H wv n1 r) as [r' n2]. destruct (stamp H wv n1 (erase r)) as [r'' n2'].
      cbn [fst snd] in *. subst n2' r''.
      split; [|reflexivity]. cbn [erase]. rewrite !nmeta_erase.
      destruct memo as [x|]; [|reflexivity].
      rewrite (M E x eq_refl). cbn [erase]. rewrite node_hash_inner, E.
      rewrite <- !nmeta_erase, Sl, Sr. reflexivity.
  Qed.

  Lemma msave_all_saved wv n t : wv <> 0 -> memo_ok wv t -> closed t ->
    all_saved (fst (msave H wv n t)).
  Proof.
    intros Hwv M C. unfold all_saved. rewrite (proj1 (msave_spec wv t M n)).
    apply stamp_all_saved; assumption.
  Qed.

  (** item 4: resetUnsavedHashes.  SIDE CONDITION [closed t]: the function stops at the
      first node that has a node key, so a hash memoised in an unsaved node BELOW a saved
      one would survive (see [reset_needs_closed]); no such tree is reachable. *)
  Lemma erase_reset t : erase (reset_unsaved t) = erase t.
  Proof.
    induction t as [k v m memo|k h s m memo l IHl r IHr]; cbn [reset_unsaved];
      destruct (negb (ver m =? 0)); cbn [erase]; congruence.
  Qed.

  Theorem reset_memo_ok wv' t : closed t ->
    memo_ok wv' (reset_unsaved t) /\ erase (reset_unsaved t) = erase t.
  Proof.
    intros C. split; [|apply erase_reset]. revert C. unfold closed.
    induction t as [k v m memo|k h s m memo l IHl r IHr]; intros C; cbn [reset_unsaved].
    - destruct (ver m =? 0) eqn:E; cbn [negb memo_ok].
      + apply memo_fits_none. reflexivity.
      + apply memo_fits_saved. exact E.
    - destruct (ver m =? 0) eqn:E; cbn [negb].
      + cbn [erase] in C. destruct (nclosed_children _ _ _ _ _ _ C) as [Cl Cr].
        cbn [memo_ok]. split; [apply memo_fits_none; reflexivity|auto].
      + apply all_saved_memo_ok. apply nclosed_saved; [exact C|].
        cbn [erase nmeta]. apply Z.eqb_neq, E.
  Qed.

  (** nothing memoised in the unsaved part: the invariant holds for every version *)
  Lemma clean_memo_ok wv' t : closed t -> has_unsaved_memo t = false -> memo_ok wv' t.
  Proof.
    unfold closed.
    induction t as [k v m memo|k h s m memo l IHl r IHr]; intros C; cbn [has_unsaved_memo].
    - destruct (ver m =? 0) eqn:E; cbn [negb memo_ok]; intros X.
      + destruct memo; [discriminate|]. apply memo_fits_none. reflexivity.
      + apply memo_fits_saved. exact E.
    - destruct (ver m =? 0) eqn:E; cbn [negb]; intros X.
      + destruct memo; [discriminate|]. apply Bool.orb_false_iff in X. destruct X as [Xl Xr].
        cbn [erase] in C. destruct (nclosed_children _ _ _ _ _ _ C) as [Cl Cr].
        cbn [memo_ok]. split; [apply memo_fits_none; reflexivity|auto].
      + apply all_saved_memo_ok. apply nclosed_saved; [exact C|].
        cbn [erase nmeta]. apply Z.eqb_neq, E.
  Qed.

  Lemma mset_closed t k v : closed t -> closed (fst (mset t k v)).
  Proof.
    unfold closed. intros C. pose proof (f_equal fst (mset_erase t k v)) as E. cbn [fst] in E.
    rewrite <- E. apply set_nclosed, C.
  Qed.

  Definition oclosed (t : option mnode) : Prop :=
    match t with None => True | Some n => closed n end.

  Lemma mremove_closed t k : closed t -> oclosed (mrm_self (mremove t k)).
  Proof.
    unfold closed. intros C. pose proof (remove_nclosed (erase t) k C) as R.
    rewrite mremove_erase in R. unfold erase_rm in R. cbn [rm_self] in R.
    destruct (mrm_self (mremove t k)); exact R.
  Qed.

  Lemma hash_with_count_closed v t : memo_ok v t -> closed t -> closed (snd (hash_with_count H v t)).
  Proof.
    unfold closed. intros M C. rewrite (proj1 (proj2 (hash_with_count_spec v t M))). exact C.
  Qed.

  (** ** The state machine *)
  Definition minv (st : memo_state) : Prop :=
    oclosed (ms_root st) /\ omemo_ok (next_version st) (ms_root st).

  Lemma minv_init iv : minv (memo_init iv).
  Proof. split; exact I. Qed.

  Lemma all_saved_closed t : all_saved t -> closed t.
  Proof. apply nall_saved_closed. Qed.

  Lemma save_in_domain_nonzero version wv : save_in_domain version wv = true -> wv <> 0.
  Proof. unfold save_in_domain. lia. Qed.
  Theorem step_refines st o : minv st -> op_ok st o = true ->
    snd (memo_step H st o) = snd (pure_step H (erase_state st) o) /\
    erase_state (fst (memo_step H st o)) = fst (pure_step H (erase_state st) o) /\
    minv (fst (memo_step H st o)).
  Proof.
    destruct st as [rt vn iv]. unfold minv, erase_state, next_version, pnext_version.
    cbn [ms_root ms_version ms_iv]. intros [C M] OK.
    destruct o as [k v|k|rv| |v reset|].
    - (* Set *)
      cbn [memo_step pure_step ms_root ms_version ms_iv ps_root ps_version ps_iv option_map].
      destruct rt as [n|]; cbn [option_map].
      + rewrite mset_erase. pose proof (mset_closed n k v C) as C'.
        pose proof (mset_memo_ok _ n k v M) as M'.
        destruct (mset n k v) as [n' upd]. cbn [fst snd ms_root ms_version ms_iv option_map] in *.
        unfold next_version. cbn [ms_root ms_version ms_iv]. auto.
      + cbn [fst snd ms_root ms_version ms_iv option_map erase]. unfold next_version.
        cbn [ms_version ms_iv oclosed omemo_ok memo_ok].
        repeat split. apply memo_fits_none. reflexivity.
    - (* Remove *)
      cbn [memo_step pure_step ms_root ms_version ms_iv ps_root ps_version ps_iv option_map].
      destruct rt as [n|]; cbn [option_map].
      + rewrite mremove_erase. pose proof (mremove_closed n k C) as C'.
        pose proof (mremove_memo_ok _ n k M) as M'. unfold erase_rm. cbn [rm_val rm_self].
        destruct (mremove n k) as [sf rk [val|]];
          cbn [fst snd ms_root ms_version ms_iv mrm_self mrm_val option_map] in *; auto.
      + cbn [fst snd ms_root ms_version ms_iv option_map]. auto.
    - (* Read *)
      cbn [memo_step pure_step ms_root ms_version ms_iv ps_root ps_version ps_iv option_map].
      destruct rt as [n|]; cbn [root_hash_with_count];
        [|cbn [fst snd ms_root ms_version ms_iv option_map]; auto].
      cbn [op_ok ms_root ms_version ms_iv root_hashed] in OK. unfold next_version in OK.
      cbn [ms_version ms_iv] in OK. apply Bool.orb_true_iff in OK. destruct OK as [OK|OK].
      + apply Z.eqb_eq in OK. subst rv.
        destruct (hash_with_count_spec _ n M) as (_ & E & M').
        pose proof (hash_with_count_closed _ n M C) as C'.
        destruct (hash_with_count H (next_version_of vn iv) n) as [x n'].
        cbn [fst snd ms_root ms_version ms_iv option_map] in *. rewrite E. auto.
      + destruct (mhash_field n) as [x|] eqn:F; [|discriminate].
        rewrite (hash_with_count_hashed rv n x F).
        cbn [fst snd ms_root ms_version ms_iv option_map]. auto.
    - (* WorkingHash *)
      cbn [memo_step pure_step ms_root ms_version ms_iv ps_root ps_version ps_iv option_map].
      unfold next_version, pnext_version. cbn [ms_version ms_iv ps_version ps_iv].
      destruct rt as [n|]; cbn [root_hash_with_count root_hash option_map];
        [|cbn [fst snd ms_root ms_version ms_iv option_map]; auto].
      destruct (hash_with_count_spec _ n M) as (X & E & M').
      pose proof (hash_with_count_closed _ n M C) as C'.
      destruct (hash_with_count H (next_version_of vn iv) n) as [x n'].
      cbn [fst snd ms_root ms_version ms_iv option_map] in *. rewrite E, X. auto.
    - (* SetInitialVersion *)
      cbn [memo_step pure_step ms_root ms_version ms_iv ps_root ps_version ps_iv option_map fst snd].
      cbn [op_ok ms_root ms_version ms_iv] in OK. unfold next_version in OK.
      cbn [ms_version ms_iv] in OK.
      destruct rt as [n|]; [|destruct reset; cbn [option_map oclosed omemo_ok]; auto].
      cbn [oclosed omemo_ok option_map] in *.
      destruct reset; cbn [option_map oclosed omemo_ok].
      + destruct (reset_memo_ok (next_version_of vn (Some v)) n C) as [M' E].
        rewrite E. repeat split; auto. unfold closed. rewrite E. exact C.
      + repeat split; auto. cbn [orb] in OK. apply Bool.orb_true_iff in OK. destruct OK as [OK|OK].
        * cbn [root_clean] in OK. apply Bool.negb_true_iff in OK. apply clean_memo_ok; assumption.
        * apply Z.eqb_eq in OK. rewrite OK. exact M.
    - (* SaveVersion *)
      cbn [memo_step pure_step ms_root ms_version ms_iv ps_root ps_version ps_iv].
      unfold next_version, pnext_version. cbn [ms_version ms_iv ps_version ps_iv].
      destruct (save_in_domain vn (next_version_of vn iv)) eqn:D;
        [|cbn [fst snd ms_root ms_version ms_iv]; auto].
      pose proof (save_in_domain_nonzero _ _ D) as Hwv.
      destruct rt as [n|]; cbn [option_map root_hash_with_count root_hash];
        [|cbn [fst snd ms_root ms_version ms_iv option_map oclosed omemo_ok]; auto].
      cbn [oclosed omemo_ok] in C, M.
      pose proof (msave_all_saved _ 0 n Hwv M C) as S.
      pose proof (proj1 (msave_spec _ n M 0)) as E.
      set (wv := next_version_of vn iv) in *.
      set (n1 := fst (msave H wv 0 n)) in *.
      pose proof (all_saved_memo_ok (next_version_of wv None) n1 S) as M1.
      destruct (hash_with_count_spec _ n1 M1) as (X & E2 & M2).
      pose proof (hash_with_count_closed _ n1 M1 (all_saved_closed _ S)) as C2.
      destruct (hash_with_count H (next_version_of wv None) n1) as [x n2].
      cbn [fst snd ms_root ms_version ms_iv option_map oclosed omemo_ok] in *.
      rewrite X, E2, E. auto.
  Qed.

  (** item 5: on every admissible history the memoising machine and the pure machine return
      the same outputs and reach states that differ by the memoised hashes only *)
  Theorem run_refines ops : forall st, minv st -> run_ok H st ops = true ->
    snd (memo_run H st ops) = snd (pure_run H (erase_state st) ops) /\
    erase_state (fst (memo_run H st ops)) = fst (pure_run H (erase_state st) ops) /\
    minv (fst (memo_run H st ops)).
  Proof.
    induction ops as [|o rest IH]; intros st I OK; cbn [memo_run pure_run].
    - cbn [fst snd]. auto.
    - cbn [run_ok] in OK. apply Bool.andb_true_iff in OK. destruct OK as [OKo OKr].
      destruct (step_refines st o I OKo) as (X & E & I1).
      destruct (memo_step H st o) as [s1 x]. destruct (pure_step H (erase_state st) o) as [p1 y].
      cbn [fst snd] in *. subst y p1.
      destruct (IH s1 I1 OKr) as (Xs & Es & Is).
      destruct (memo_run H s1 rest) as [s2 xs]. destruct (pure_run H (erase_state s1) rest) as [p2 ys].
      cbn [fst snd] in *. subst ys p2. auto.
  Qed.

  Corollary run_refines_init iv ops : run_ok H (memo_init iv) ops = true ->
    snd (memo_run H (memo_init iv) ops) = snd (pure_run H (pure_init iv) ops) /\
    erase_state (fst (memo_run H (memo_init iv) ops)) = fst (pure_run H (pure_init iv) ops).
  Proof.
    intros OK. destruct (run_refines ops (memo_init iv) (minv_init iv) OK) as (A & B & _). auto.
  Qed.

  (** the conditions on (version, initial version) alone imply the admissibility above *)
  Lemma vop_ok_op_ok st o : vop_ok (ms_version st) (ms_iv st) o = true -> op_ok st o = true.
  Proof.
    destruct o as [k v|k|rv| |v reset|]; cbn [vop_ok op_ok]; auto; unfold next_version; intros E.
    - rewrite E. reflexivity.
    - apply Bool.orb_true_iff in E. destruct E as [E|E]; rewrite E;
        [reflexivity|apply Bool.orb_true_r].
  Qed.

  Lemma vrun_ok_run_ok ops : forall st, minv st ->
    vrun_ok H (erase_state st) ops = true -> run_ok H st ops = true.
  Proof.
    induction ops as [|o rest IH]; intros st I OK; [reflexivity|].
    cbn [vrun_ok run_ok] in *. apply Bool.andb_true_iff in OK. destruct OK as [OKo OKr].
    cbn [erase_state ps_version ps_iv] in OKo. apply vop_ok_op_ok in OKo.
    destruct (step_refines st o I OKo) as (_ & E & I1).
    rewrite OKo. cbn [andb]. apply IH; [exact I1|]. rewrite E. exact OKr.
  Qed.

  (** ** Read-only calls can be deleted from a history *)
  Lemma pure_step_read st o : is_read o = true -> fst (pure_step H st o) = st.
  Proof. destruct o; cbn [is_read]; try discriminate; reflexivity. Qed.

  Lemma pure_run_writes ops : forall st,
    fst (pure_run H st (writes ops)) = fst (pure_run H st ops) /\
    snd (pure_run H st (writes ops)) = write_outs ops (snd (pure_run H st ops)).
  Proof.
    induction ops as [|o rest IH]; intros st; [cbn; auto|].
    unfold writes. cbn [filter]. fold (writes rest). cbn [pure_run].
    destruct (is_read o) eqn:R; cbn [negb].
    - pose proof (pure_step_read st o R) as E.
      destruct (pure_step H st o) as [s1 x]. cbn [fst] in E. subst s1.
      destruct (IH st) as [A B]. destruct (pure_run H st rest) as [s2 xs].
      cbn [fst snd write_outs] in *. rewrite R. auto.
    - cbn [pure_run]. destruct (pure_step H st o) as [s1 x].
      destruct (IH s1) as [A B]. destruct (pure_run H s1 rest) as [s2 xs].
      destruct (pure_run H s1 (writes rest)) as [s2' xs'].
      cbn [fst snd write_outs] in *. rewrite R. subst. auto.
  Qed.

  Lemma vrun_ok_writes ops : forall st,
    vrun_ok H st ops = true -> vrun_ok H st (writes ops) = true.
  Proof.
    induction ops as [|o rest IH]; intros st OK; [reflexivity|].
    cbn [vrun_ok] in OK. apply Bool.andb_true_iff in OK. destruct OK as [OKo OKr].
    unfold writes. cbn [filter]. fold (writes rest).
    destruct (is_read o) eqn:R; cbn [negb].
    - rewrite (pure_step_read st o R) in OKr. apply IH, OKr.
    - cbn [vrun_ok]. rewrite OKo. cbn [andb]. apply IH, OKr.
  Qed.

  (** general form: admissibility of both histories is assumed (it depends on what is
      memoised, which differs between the two runs) *)
  Theorem reads_never_change_hashes_gen st ops :
    minv st -> run_ok H st ops = true -> run_ok H st (writes ops) = true ->
    snd (memo_run H st (writes ops)) = write_outs ops (snd (memo_run H st ops)) /\
    erase_state (fst (memo_run H st (writes ops))) = erase_state (fst (memo_run H st ops)).
  Proof.
    intros I OK OKw.
    destruct (run_refines ops st I OK) as (A & B & _).
    destruct (run_refines (writes ops) st I OKw) as (Aw & Bw & _).
    destruct (pure_run_writes ops (erase_state st)) as [P Q].
    rewrite Aw, A, Bw, B. auto.
  Qed.

  (** corollary of item 5: with every read-only call made under the working version and
      every SetInitialVersion resetting (or not changing the working version), deleting the
      read-only calls changes neither the outputs of the other calls nor the final tree *)
  Theorem reads_never_change_hashes st ops :
    minv st -> vrun_ok H (erase_state st) ops = true ->
    snd (memo_run H st (writes ops)) = write_outs ops (snd (memo_run H st ops)) /\
    erase_state (fst (memo_run H st (writes ops))) = erase_state (fst (memo_run H st ops)).
  Proof.
    intros I OK. apply reads_never_change_hashes_gen; [exact I| |]; apply vrun_ok_run_ok; auto.
    apply vrun_ok_writes, OK.
  Qed.
End WithHash.

(** ** The histories in which the memoised hashes are visible (SHA-256, by computation) *)
Definition ka : bytes := [97%N].
Definition kb : bytes := [98%N].

(** root hash of {a: 01, b: 02} saved as version 10 (the canonical one), and the hash of the
    same tree with version 1 in the preimages *)
Definition h_ab_v10 : bytes :=
  [104; 37; 177; 85; 179; 193; 170; 66; 76; 87; 136; 15; 38; 68; 40; 133;
   240; 41; 132; 150; 183; 36; 255; 196; 230; 133; 148; 199; 167; 22; 216; 217]%N.
Definition h_ab_v1 : bytes :=
  [72; 134; 122; 85; 215; 58; 230; 172; 168; 12; 240; 47; 165; 75; 117; 48;
   234; 102; 228; 248; 79; 44; 79; 188; 233; 192; 54; 150; 74; 244; 114; 157]%N.

Definition setiv_ops (reset : bool) : list mop :=
  [MSet ka [1%N]; MSet kb [2%N]; MWorkingHash; MSetIV 10 reset; MSave].

(** defect repaired by b7ad1cb: SetInitialVersion after WorkingHash without resetting the
    memoised hashes commits the hash computed for version 1 as version 10 *)
Theorem setiv_without_reset_refuted :
  exists ops,
    minv sha256 (memo_init None) /\
    (forall rv, ~ In (MRead rv) ops) /\
    snd (memo_run sha256 (memo_init None) ops) <> snd (pure_run sha256 (pure_init None) ops).
Proof.
  exists (setiv_ops false). split; [apply minv_init|]. split.
  - intros rv. cbn [setiv_ops In]. intros [E|[E|[E|[E|[E|[]]]]]]; discriminate E.
  - intros E. apply (f_equal (fun l => last l MOUnit)) in E. vm_compute in E. discriminate E.
Qed.

Example setiv_without_reset_values :
  last (snd (memo_run sha256 (memo_init None) (setiv_ops false))) MOUnit = MOSaved h_ab_v1 10 /\
  last (snd (pure_run sha256 (pure_init None) (setiv_ops false))) MOUnit = MOSaved h_ab_v10 10 /\
  run_ok sha256 (memo_init None) (setiv_ops false) = false /\
  h_ab_v1 <> h_ab_v10.
Proof. repeat apply conj; try (vm_compute; reflexivity). discriminate. Qed.

Example setiv_with_reset_agrees :
  run_ok sha256 (memo_init None) (setiv_ops true) = true /\
  snd (memo_run sha256 (memo_init None) (setiv_ops true)) =
    snd (pure_run sha256 (pure_init None) (setiv_ops true)) /\
  last (snd (memo_run sha256 (memo_init None) (setiv_ops true))) MOUnit = MOSaved h_ab_v10 10.
Proof. repeat apply conj; vm_compute; reflexivity. Qed.

Definition read_ops (rv : Z) : list mop :=
  [MSet ka [1%N]; MSet kb [2%N]; MRead rv; MSave].

(** defects repaired with nextVersion() (Hash / WorkingHash) and c402680 (WriteDOTGraph): a
    read-only call that hashes the working tree with version+1 = 1 although the initial
    version is 10 *)
Theorem read_with_wrong_version_refuted :
  exists ops,
    minv sha256 (memo_init (Some 10)) /\
    (forall v r, ~ In (MSetIV v r) ops) /\
    snd (memo_run sha256 (memo_init (Some 10)) ops) <>
      snd (pure_run sha256 (pure_init (Some 10)) ops).
Proof.
  exists (read_ops 1). split; [apply minv_init|]. split.
  - intros v r. cbn [read_ops In]. intros [E|[E|[E|[E|[]]]]]; discriminate E.
  - intros E. apply (f_equal (fun l => last l MOUnit)) in E. vm_compute in E. discriminate E.
Qed.

Example read_with_wrong_version_values :
  last (snd (memo_run sha256 (memo_init (Some 10)) (read_ops 1))) MOUnit = MOSaved h_ab_v1 10 /\
  last (snd (pure_run sha256 (pure_init (Some 10)) (read_ops 1))) MOUnit = MOSaved h_ab_v10 10 /\
  run_ok sha256 (memo_init (Some 10)) (read_ops 1) = false.
Proof. repeat apply conj; vm_compute; reflexivity. Qed.

Example read_with_working_version_agrees :
  vrun_ok sha256 (pure_init (Some 10)) (read_ops 10) = true /\
  snd (memo_run sha256 (memo_init (Some 10)) (read_ops 10)) =
    snd (pure_run sha256 (pure_init (Some 10)) (read_ops 10)).
Proof. repeat apply conj; vm_compute; reflexivity. Qed.

(** the side condition of [reset_memo_ok] is needed: resetUnsavedHashes stops at a node
    that has a node key, so a hash memoised below it (in a tree that no history produces)
    survives *)
Theorem reset_needs_closed_refuted :
  exists t wv, ~ memo_ok sha256 wv (reset_unsaved t).
Proof.
  exists (MInner kb 1 2 (Meta 1 1 h_ab_v1) None
            (MLeaf ka [1%N] new_meta (Some [0%N])) (MLeaf kb [2%N] (Meta 1 3 []) None)), 2.
  cbn [reset_unsaved ver negb Z.eqb memo_ok]. intros (_ & B & _).
  specialize (B eq_refl [0%N] eq_refl). vm_compute in B. discriminate B.
Qed.

(** ** The hypotheses of [run_refines] / [reads_never_change_hashes] are satisfiable:
    initial version 7, right and left rotations, removals, an update, read-only calls of
    every kind in between, a SetInitialVersion after the first save, two saves. *)
Definition demo_ops : list mop :=
  [MSet [5%N] [50%N]; MWorkingHash; MSet [4%N] [40%N]; MRead 7; MSet [3%N] [30%N];
   MWorkingHash; MSet [6%N] [60%N]; MSet [7%N] [70%N]; MRead 7; MSet [8%N] [80%N];
   MRemove [4%N]; MWorkingHash; MSave;
   MRead 8; MSet [9%N] [90%N]; MSetIV 3 true; MWorkingHash; MRemove [3%N]; MRemove [1%N];
   MSet [6%N] [66%N]; MRead 8; MSetIV 5 false; MWorkingHash; MSave; MWorkingHash; MRead 9].

Example demo_admissible :
  vrun_ok sha256 (pure_init (Some 7)) demo_ops = true /\
  run_ok sha256 (memo_init (Some 7)) demo_ops = true /\
  length (writes demo_ops) = 15%nat.
Proof. repeat apply conj; vm_compute; reflexivity. Qed.

Example demo_refines :
  snd (memo_run sha256 (memo_init (Some 7)) demo_ops) =
    snd (pure_run sha256 (pure_init (Some 7)) demo_ops) /\
  snd (memo_run sha256 (memo_init (Some 7)) (writes demo_ops)) =
    write_outs demo_ops (snd (memo_run sha256 (memo_init (Some 7)) demo_ops)).
Proof.
  split.
  - apply run_refines_init. vm_compute. reflexivity.
  - apply reads_never_change_hashes; [apply minv_init|]. vm_compute. reflexivity.
Qed.

(** the history is not trivial: both saves happen (versions 7 and 8), the tree has been
    rebalanced (5 leaves, height 3), and hashes are memoised when the second save starts *)
Example demo_shape :
  let st := fst (memo_run sha256 (memo_init (Some 7)) demo_ops) in
  ms_version st = 8 /\
  option_map mheight (ms_root st) = Some 3 /\ option_map msize (ms_root st) = Some 5 /\
  map (fun x => match x with MOSaved _ v => v | _ => 0 end)
      (snd (memo_run sha256 (memo_init (Some 7)) demo_ops)) =
    [0; 0; 0; 0; 0; 0; 0; 0; 0; 0; 0; 0; 7; 0; 0; 0; 0; 0; 0; 0; 0; 0; 0; 8; 0; 0] /\
  root_clean (ms_root (fst (memo_run sha256 (memo_init (Some 7)) (firstn 23 demo_ops)))) = false.
Proof. repeat apply conj; vm_compute; reflexivity. Qed.
