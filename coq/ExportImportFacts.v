(** C10: proofs about the exporter / importer / compress codec models of ExportImport.v. *)
From Coq Require Import ZifyBool.
From IAVL Require Import Bytes Varint Tree VMap TreeFacts ExportImport.
Local Open Scope Z_scope.

(** * 1. The exporter: 2n-1 nodes, post-order, leaves in key order *)

(** in-order leaves with their versions *)
Fixpoint leaves (t : node) : list (bytes * bytes * Z) :=
  match t with
  | Leaf k v m => [(k, v, ver m)]
  | Inner _ _ _ _ l r => leaves l ++ leaves r
  end.

Definition leaf_enode (x : bytes * bytes * Z) : enode :=
  ENode (Some (fst (fst x))) (Some (snd (fst x))) (snd x) 0.

Definition is_leaf_enode (e : enode) : bool := e_height e =? 0.

Lemma leaves_elems t : map fst (leaves t) = elems t.
Proof.
  induction t as [k v m | k h s m l IHl r IHr]; simpl; [reflexivity|].
  rewrite map_app, IHl, IHr. reflexivity.
Qed.

Lemma export_length_nat t : (length (export_node t) + 1 = 2 * length (elems t))%nat.
Proof.
  induction t as [k v m | k h s m l IHl r IHr]; simpl; [reflexivity|].
  rewrite !app_length. simpl. lia.
Qed.

Lemma export_leaves t :
  wf t -> filter is_leaf_enode (export_node t) = map leaf_enode (leaves t).
Proof.
  induction t as [k v m | k h s m l IHl r IHr]; intros W; [reflexivity|].
  pose proof (height_nonneg _ W) as Hh.
  simpl in W. destruct W as (Wl & Wr & _ & _ & _ & Eh & _).
  pose proof (height_nonneg _ Wl). pose proof (height_nonneg _ Wr).
  cbn [export_node leaves]. rewrite !filter_app, map_app, IHl, IHr by assumption.
  cbn [filter]. unfold is_leaf_enode. cbn [e_height].
  destruct (h =? 0) eqn:E; [lia|]. rewrite app_nil_r. reflexivity.
Qed.

Theorem export_length t :
  wf t ->
  Z.of_nat (length (export (Some t))) = 2 * Z.of_nat (length (elems t)) - 1 /\
  Z.of_nat (length (export (Some t))) = 2 * size t - 1 /\
  filter is_leaf_enode (export (Some t)) = map leaf_enode (leaves t) /\
  map fst (leaves t) = elems t /\
  sorted (elems t) /\
  export None = [].
Proof.
  intros W. pose proof (export_length_nat t) as L. pose proof (size_elems t W) as S.
  cbn [export]. repeat split.
  - lia.
  - lia.
  - apply export_leaves, W.
  - apply leaves_elems.
  - apply wf_sorted, W.
Qed.

(** the last exported node is the root *)
Lemma export_last t :
  exists pre, export_node t =
    pre ++ [ENode (Some (nkey t)) (match t with Leaf _ v _ => Some v | _ => None end)
              (ver (nmeta t)) (height t)].
Proof.
  destruct t as [k v m | k h s m l r]; cbn [export_node nkey nmeta height].
  - exists []. reflexivity.
  - exists (export_node l ++ export_node r). rewrite <- app_assoc. reflexivity.
Qed.

(** * 2. Import of an export *)

Fixpoint versions_in (v : Z) (t : node) : Prop :=
  match t with
  | Leaf _ _ m => 1 <= ver m <= v
  | Inner _ _ _ m l r => 1 <= ver m <= v /\ versions_in v l /\ versions_in v r
  end.

(** same keys, values, heights, sizes and versions at every node (nonces and memoised
    hashes are not compared) *)
Fixpoint shape_eq (a b : node) : Prop :=
  match a, b with
  | Leaf k v m, Leaf k' v' m' => k = k' /\ v = v' /\ ver m = ver m'
  | Inner k h s m l r, Inner k' h' s' m' l' r' =>
      k = k' /\ h = h' /\ s = s' /\ ver m = ver m' /\ shape_eq l l' /\ shape_eq r r'
  | _, _ => False
  end.

Lemma shape_eq_refl t : shape_eq t t.
Proof. induction t; simpl; auto 10. Qed.

Lemma shape_eq_sym a : forall b, shape_eq a b -> shape_eq b a.
Proof.
  induction a as [k v m | k h s m l IHl r IHr]; intros [k' v' m' | k' h' s' m' l' r']; simpl;
    try contradiction.
  - intuition congruence.
  - intros (-> & -> & -> & E & Sl & Sr). auto 10.
Qed.

Lemma shape_eq_trans a : forall b c, shape_eq a b -> shape_eq b c -> shape_eq a c.
Proof.
  induction a as [k v m | k h s m l IHl r IHr]; intros [k' v' m' | k' h' s' m' l' r']
    [k2 v2 m2 | k2 h2 s2 m2 l2 r2]; simpl; try contradiction.
  - intuition congruence.
  - intros (-> & -> & -> & E & Sl & Sr) (-> & -> & -> & E' & Sl' & Sr').
    repeat split; try congruence; eauto.
Qed.

Lemma shape_eq_basic a b :
  shape_eq a b ->
  nkey a = nkey b /\ height a = height b /\ size a = size b /\
  ver (nmeta a) = ver (nmeta b) /\ elems a = elems b.
Proof.
  revert b. induction a as [k v m | k h s m l IHl r IHr]; intros [k' v' m' | k' h' s' m' l' r'];
    simpl; try contradiction.
  - intros (-> & -> & E). auto.
  - intros (-> & -> & -> & E & Sl & Sr).
    destruct (IHl _ Sl) as (_ & _ & _ & _ & ->). destruct (IHr _ Sr) as (_ & _ & _ & _ & ->). auto.
Qed.

Lemma shape_eq_versions v a b : shape_eq a b -> versions_in v b -> versions_in v a.
Proof.
  revert b. induction a as [k w m | k h s m l IHl r IHr]; intros [k' w' m' | k' h' s' m' l' r'];
    simpl; try contradiction.
  - intros (_ & _ & E). lia.
  - intros (_ & _ & _ & E & Sl & Sr) (V & Vl & Vr). repeat split; try lia; eauto.
Qed.

Lemma shape_eq_wf a b : shape_eq a b -> wf b -> wf a.
Proof.
  revert b. induction a as [k w m | k h s m l IHl r IHr]; intros [k' w' m' | k' h' s' m' l' r'];
    simpl; try contradiction; auto.
  intros (-> & -> & -> & E & Sl & Sr) (Wl & Wr & Kl & Kr & Ek & Eh & Es).
  destruct (shape_eq_basic _ _ Sl) as (_ & Hl & Zl & _ & El).
  destruct (shape_eq_basic _ _ Sr) as (_ & Hr & Zr & _ & Er).
  repeat split; eauto.
  - apply (proj2 (keys_all_elems (fun x => x <b k') l)). rewrite El.
    exact (proj1 (keys_all_elems (fun x => x <b k') l') Kl).
  - apply (proj2 (keys_all_elems (fun x => k' <=b x) r)). rewrite Er.
    exact (proj1 (keys_all_elems (fun x => k' <=b x) r') Kr).
  - rewrite Ek. symmetry. apply min_key_elems_eq, Er.
  - lia.
  - lia.
Qed.

Lemma shape_eq_avl a b : shape_eq a b -> avl b -> avl a.
Proof.
  revert b. induction a as [k w m | k h s m l IHl r IHr]; intros [k' w' m' | k' h' s' m' l' r'];
    simpl; try contradiction; auto.
  intros (_ & _ & _ & _ & Sl & Sr) (Al & Ar & B).
  destruct (shape_eq_basic _ _ Sl) as (_ & Hl & _). destruct (shape_eq_basic _ _ Sr) as (_ & Hr & _).
  repeat split; eauto; lia.
Qed.

(** shape-equal trees have the same hash, whatever the hash function and working version *)
Lemma shape_eq_pure_hash (H : bytes -> bytes) wv a b :
  shape_eq a b -> pure_hash H wv a = pure_hash H wv b.
Proof.
  revert b. induction a as [k w m | k h s m l IHl r IHr]; intros [k' w' m' | k' h' s' m' l' r'];
    simpl; try contradiction.
  - intros (-> & -> & E). unfold eff_ver. rewrite E. reflexivity.
  - intros (-> & -> & -> & E & Sl & Sr). unfold eff_ver. rewrite E, (IHl _ Sl), (IHr _ Sr).
    reflexivity.
Qed.

Lemma versions_in_pos v t : versions_in v t -> 1 <= ver (nmeta t) <= v.
Proof. destruct t; simpl; intuition. Qed.

Lemma imp_new_ok v :
  0 <= v < max_nonces_len -> imp_new 0 true v = IOk (IState v [] [] false).
Proof.
  intros B. unfold imp_new, max_nonces_len in *.
  destruct (v <? 0) eqn:E1; [lia|]. change (0 <? 0) with false. cbn [negb].
  destruct (70368744177664 <? v + 1) eqn:E2; [lia|]. reflexivity.
Qed.

Section ImportFacts.
  Variable H : bytes -> bytes.

  (** every memoised hash is the hash of the node at its own version *)
  Fixpoint hashed (t : node) : Prop :=
    match t with
    | Leaf k v m => hs m = H (leaf_preimage H (ver m) k v)
    | Inner k h s m l r =>
        hs m = H (inner_preimage h s (ver m) (hs (nmeta l)) (hs (nmeta r))) /\
        hashed l /\ hashed r
    end.

  Lemma hashed_pure v wv t : hashed t -> versions_in v t -> hs (nmeta t) = pure_hash H wv t.
  Proof.
    induction t as [k w m | k h s m l IHl r IHr]; simpl.
    - intros -> V. unfold eff_ver. destruct (ver m =? 0) eqn:E; [lia|reflexivity].
    - intros (-> & Hl & Hr) (V & Vl & Vr). unfold eff_ver.
      destruct (ver m =? 0) eqn:E; [lia|]. rewrite (IHl Hl Vl), (IHr Hr Vr). reflexivity.
  Qed.

  Lemma hashed_node_hash v wv t : hashed t -> versions_in v t -> node_hash H wv t = pure_hash H wv t.
  Proof.
    intros Hh V. pose proof (versions_in_pos _ _ V) as P.
    rewrite <- (hashed_pure v wv t Hh V).
    destruct t as [k w m | k h s m l r]; cbn [node_hash nmeta] in *; unfold is_new; cbn [nmeta];
      (destruct (ver m =? 0) eqn:E; [lia|reflexivity]).
  Qed.

  (** [p] is the stack entry the importer holds for (a tree shaped like) [t] *)
  Definition pshape (p : pnode) (t : node) : Prop :=
    p_key p = Some (nkey t) /\ p_height p = height t /\ p_size p = size t /\
    p_ver p = ver (nmeta t) /\
    match t with
    | Leaf _ v _ => p_value p = Some v /\ p_kids p = None
    | Inner _ _ _ _ l r =>
        p_value p = None /\
        exists l' r', p_kids p = Some (l', r') /\ shape_eq l' l /\ shape_eq r' r /\
                      hashed l' /\ hashed r'
    end.

  Lemma pshape_set_nonce p t n : pshape p t -> pshape (set_nonce p n) t.
  Proof. destruct p; unfold pshape, set_nonce; simpl; auto. Qed.

  Lemma write_node_pshape p t :
    pshape p t -> wf t -> 1 <= ver (nmeta t) ->
    exists t', write_node H p = Some t' /\ shape_eq t' t /\ hashed t' /\
               nonce (nmeta t') = p_nonce p.
  Proof.
    intros (Ek & Eh & Es & Ev & Rest) W V.
    pose proof (height_nonneg _ W) as Hh. pose proof (size_pos _ W) as Hs.
    unfold write_node. rewrite Ek, Ev, Eh, Es.
    destruct (ver (nmeta t) <=? 0) eqn:E1; [lia|].
    destruct (height t <? 0) eqn:E2; [lia|].
    destruct (size t <? 1) eqn:E3; [lia|].
    destruct t as [k v m | k h s m l r]; cbn [height size nkey nmeta] in *.
    - destruct Rest as (-> & ->). cbn [Z.eqb negb]. eexists. split; [reflexivity|].
      cbn [shape_eq hashed nmeta ver hs nonce]. auto.
    - destruct Rest as (-> & l' & r' & -> & Sl & Sr & Hl & Hr).
      simpl in W. destruct W as (Wl & Wr & _ & _ & _ & Eh' & _).
      pose proof (height_nonneg _ Wl). pose proof (height_nonneg _ Wr).
      destruct (h =? 0) eqn:E4; [lia|].
      eexists. split; [reflexivity|]. cbn [shape_eq hashed nmeta ver hs nonce]. auto 10.
  Qed.

  (** validate does not look at the nonce *)
  Lemma write_node_nonce_irrelevant p n :
    write_node H p = None <-> write_node H (set_nonce p n) = None.
  Proof.
    destruct p as [k v h s w c kids]. unfold write_node, set_nonce.
    cbn [p_key p_value p_height p_size p_ver p_nonce p_kids].
    destruct k; [|tauto]. destruct (w <=? 0); [tauto|]. destruct (h <? 0); [tauto|].
    destruct (s <? 1); [tauto|]. destruct (h =? 0).
    - destruct v; [|tauto]. destruct kids; [tauto|]. destruct (negb (s =? 1)); [tauto|].
      split; discriminate.
    - destruct v; [tauto|]. destruct kids as [[l r]|]; [|tauto]. split; discriminate.
  Qed.

  Lemma imp_adds_app st xs ys :
    imp_adds H st (xs ++ ys) = ibind (imp_adds H st xs) (fun st' => imp_adds H st' ys).
  Proof.
    revert st. induction xs as [|x xs IH]; intros st; [reflexivity|].
    cbn [app imp_adds]. destruct (imp_add H st x); cbn [ibind]; auto.
  Qed.

  Lemma imp_add_leaf v stk nn k w m :
    1 <= ver m <= v ->
    exists p nn',
      pshape p (Leaf k w m) /\
      imp_add H (IState v stk nn false) (Some (ENode (Some k) (Some w) (ver m) 0)) =
        IOk (IState v (p :: stk) nn' false).
  Proof.
    intros V. unfold imp_add.
    cbn [i_closed i_version i_stack i_nonces e_version e_height e_key e_value].
    destruct (v <? ver m) eqn:E1; [lia|]. destruct (ver m <? 0) eqn:E0; [lia|]. cbn [Z.eqb orb].
    destruct (v + 1 <=? ver m) eqn:E2; [lia|].
    do 2 eexists. split; [|reflexivity].
    unfold pshape; cbn. auto 10.
  Qed.

  Lemma imp_add_inner v stk nn pl pr k h s m l r :
    pshape pl l -> pshape pr r -> wf (Inner k h s m l r) -> versions_in v (Inner k h s m l r) ->
    exists p nn',
      pshape p (Inner k h s m l r) /\
      imp_add H (IState v (pr :: pl :: stk) nn false) (Some (ENode (Some k) None (ver m) h)) =
        IOk (IState v (p :: stk) nn' false).
  Proof.
    intros Pl Pr W V. simpl in W, V.
    destruct W as (Wl & Wr & _ & _ & _ & Eh & Es). destruct V as (Vm & Vl & Vr).
    pose proof (height_nonneg _ Wl). pose proof (height_nonneg _ Wr).
    destruct (write_node_pshape pl l Pl Wl) as (l' & Wl' & Sl & Hl & _);
      [apply (versions_in_pos v), Vl|].
    destruct (write_node_pshape pr r Pr Wr) as (r' & Wr' & Sr & Hr & _);
      [apply (versions_in_pos v), Vr|].
    destruct Pl as (_ & Phl & Psl & _). destruct Pr as (_ & Phr & Psr & _).
    unfold imp_add.
    cbn [i_closed i_version i_stack i_nonces e_version e_height e_key e_value].
    destruct (v <? ver m) eqn:E1; [lia|]. destruct (ver m <? 0) eqn:E0; [lia|].
    destruct (h =? 0) eqn:E2; [lia|].
    rewrite Phl, Phr.
    destruct ((height r <? h) && (height l <? h)) eqn:E3; [|lia].
    rewrite Wl', Wr'. cbn [orb].
    destruct (v + 1 <=? ver m) eqn:E4; [lia|].
    do 2 eexists. split; [|reflexivity].
    unfold pshape; cbn. repeat split; auto; try lia.
    exists l', r'. auto.
  Qed.

  Lemma imp_adds_export v t : forall stk nn rest,
    wf t -> versions_in v t ->
    exists p nn',
      pshape p t /\
      imp_adds H (IState v stk nn false) (map Some (export_node t) ++ rest) =
        imp_adds H (IState v (p :: stk) nn' false) rest.
  Proof.
    induction t as [k w m | k h s m l IHl r IHr]; intros stk nn rest W V.
    - simpl in V. destruct (imp_add_leaf v stk nn k w m V) as (p & nn' & P & E).
      exists p, nn'. split; [exact P|].
      cbn [export_node map app imp_adds]. rewrite E. reflexivity.
    - pose proof W as W0. pose proof V as V0.
      simpl in W. destruct W as (Wl & Wr & _). simpl in V. destruct V as (_ & Vl & Vr).
      cbn [export_node]. rewrite !map_app, <- !app_assoc.
      destruct (IHl stk nn (map Some (export_node r) ++
                   map Some [ENode (Some k) None (ver m) h] ++ rest) Wl Vl)
        as (pl & nn1 & Pl & El).
      rewrite El.
      destruct (IHr (pl :: stk) nn1 (map Some [ENode (Some k) None (ver m) h] ++ rest) Wr Vr)
        as (pr & nn2 & Pr & Er).
      rewrite Er.
      destruct (imp_add_inner v stk nn2 pl pr k h s m l r Pl Pr W0 V0) as (p & nn3 & P & E).
      exists p, nn3. split; [exact P|].
      cbn [map app imp_adds]. rewrite E. reflexivity.
  Qed.

  (** Import of the export of [t] at any version [v] that bounds the node versions yields a
      tree with the same shape (hence the same hash for every hash function), root nonce 1,
      and correct memoised hashes.  Covers the single leaf and the "reference root" case
      (root version < v). *)
  Theorem import_export_roundtrip v t :
    wf t -> versions_in v t -> v < max_nonces_len ->
    exists t',
      imp_run H v (map Some (export (Some t))) = IOk (Some t') /\
      shape_eq t' t /\ hashed t' /\ nonce (nmeta t') = 1.
  Proof.
    intros W V B. pose proof (versions_in_pos _ _ V) as P.
    unfold imp_run. rewrite imp_new_ok by lia. cbn [ibind export].
    destruct (imp_adds_export v t [] [] [] W V) as (p & nn & Pp & E).
    rewrite app_nil_r in E. rewrite E. cbn [imp_adds ibind].
    unfold imp_commit. cbn [i_closed i_stack].
    destruct (write_node_pshape (set_nonce p 1) t (pshape_set_nonce p t 1 Pp) W) as (t' & Wt & S & Hh & N);
      [lia|].
    rewrite Wt. exists t'. repeat split; auto.
  Qed.

  Corollary import_export_same_hash v t :
    wf t -> versions_in v t -> v < max_nonces_len ->
    exists t',
      imp_run H v (map Some (export (Some t))) = IOk (Some t') /\
      wf t' /\ (avl t -> avl t') /\ versions_in v t' /\ elems t' = elems t /\
      (forall (H' : bytes -> bytes) wv, pure_hash H' wv t' = pure_hash H' wv t) /\
      (forall wv, root_hash H wv (Some t') = pure_hash H wv t).
  Proof.
    intros W V B. destruct (import_export_roundtrip v t W V B) as (t' & E & S & Hh & _).
    exists t'. split; [exact E|].
    assert (V' : versions_in v t') by (eapply shape_eq_versions; eauto).
    repeat split.
    - eapply shape_eq_wf; eauto.
    - intros A. eapply shape_eq_avl; eauto.
    - exact V'.
    - apply shape_eq_basic, S.
    - intros H' wv. apply shape_eq_pure_hash, S.
    - intros wv. cbn [root_hash]. rewrite (hashed_node_hash v wv t' Hh V').
      apply shape_eq_pure_hash, S.
  Qed.

  Theorem import_empty v : 0 <= v < max_nonces_len -> imp_run H v [] = IOk None.
  Proof.
    intros B. unfold imp_run. rewrite imp_new_ok by lia. reflexivity.
  Qed.

  Corollary import_single_leaf v k w m :
    1 <= ver m <= v -> v < max_nonces_len ->
    imp_run H v [Some (ENode (Some k) (Some w) (ver m) 0)] =
      IOk (Some (Leaf k w (Meta (ver m) 1 (H (leaf_preimage H (ver m) k w))))).
  Proof.
    intros V B. unfold imp_run. rewrite imp_new_ok by lia. cbn [ibind imp_adds].
    unfold imp_add. cbn [i_closed i_version i_stack i_nonces e_version e_height e_key e_value].
    destruct (v <? ver m) eqn:E3; [lia|]. destruct (ver m <? 0) eqn:E0; [lia|]. cbn [Z.eqb orb].
    destruct (v + 1 <=? ver m) eqn:E4; [lia|]. cbn [ibind].
    unfold imp_commit, write_node, set_nonce.
    cbn [i_closed i_stack p_key p_value p_height p_size p_ver p_nonce p_kids].
    destruct (ver m <=? 0) eqn:E5; [lia|]. reflexivity.
  Qed.

  (** the root was last written at an older version than the one imported: the same tree
      is returned (Go: reference root entry) *)
  Corollary import_reference_root v t :
    wf t -> versions_in v t -> v < max_nonces_len -> ver (nmeta t) < v ->
    exists t',
      imp_run H v (map Some (export (Some t))) = IOk (Some t') /\ shape_eq t' t /\
      ver (nmeta t') < v.
  Proof.
    intros W V B L. destruct (import_export_roundtrip v t W V B) as (t' & E & S & _).
    exists t'. repeat split; auto. destruct (shape_eq_basic _ _ S) as (_ & _ & _ & -> & _). exact L.
  Qed.
End ImportFacts.

(** * 3. The compress codec *)

(** ** uvarint round trip (binary.PutUvarint / binary.Uvarint) with trailing bytes *)
Fixpoint pow128 (f : nat) : N := match f with O => 1%N | S f' => (128 * pow128 f')%N end.

Lemma uvarint_enc_fuel_S f u :
  uvarint_enc_fuel (S f) u =
    if (u <? 128)%N then [u] else (u mod 128 + 128)%N :: uvarint_enc_fuel f (u / 128)%N.
Proof. reflexivity. Qed.

Lemma uvarint_dec_enc_at f : forall i u rest,
  (i + S f = 10)%nat -> (u < 2 * pow128 f)%N ->
  uvarint_dec_at i (uvarint_enc_fuel (S f) u ++ rest) =
    Some (u, length (uvarint_enc_fuel (S f) u)).
Proof.
  induction f as [|f IH]; intros i u rest Hi Hu.
  - assert (i = 9%nat) by lia. subst i. cbn [pow128] in Hu.
    cbn [uvarint_enc_fuel]. destruct (u <? 128)%N eqn:E; [|lia].
    cbn [app uvarint_dec_at Nat.leb]. rewrite E. cbn [Nat.eqb andb].
    destruct (1 <? u)%N eqn:E1; [lia|]. reflexivity.
  - cbn [pow128] in Hu. rewrite uvarint_enc_fuel_S. destruct (u <? 128)%N eqn:E.
    + cbn [app uvarint_dec_at length]. destruct (Nat.leb 10 i) eqn:E1; [apply Nat.leb_le in E1; lia|].
      rewrite E. destruct (Nat.eqb i 9) eqn:E2; [apply Nat.eqb_eq in E2; lia|]. reflexivity.
    + cbn [app uvarint_dec_at length]. destruct (Nat.leb 10 i) eqn:E1; [apply Nat.leb_le in E1; lia|].
      assert (E3 : (u mod 128 + 128 <? 128)%N = false) by (apply N.ltb_ge, N.le_add_l).
      rewrite E3.
      assert (Hq : (u / 128 < 2 * pow128 f)%N) by (apply N.div_lt_upper_bound; lia).
      rewrite (IH (S i) (u / 128)%N rest) by (auto; lia).
      f_equal. f_equal. rewrite N.add_sub. rewrite N.add_comm. symmetry. apply N.div_mod'.
Qed.

Lemma uvarint_dec_enc u rest :
  (u < 18446744073709551616)%N ->
  uvarint_dec (uvarint_enc u ++ rest) = Some (u, length (uvarint_enc u)).
Proof. intros Hu. apply (uvarint_dec_enc_at 9 0 u rest); [reflexivity|exact Hu]. Qed.

(** ** deltaEncode / deltaDecode *)
Lemma diff_offset_spec a : forall b,
  (diff_offset a b <= length a)%nat /\ (diff_offset a b <= length b)%nat /\
  firstn (diff_offset a b) a = firstn (diff_offset a b) b.
Proof.
  induction a as [|x a IH]; intros [|y b]; cbn [diff_offset length firstn]; try (repeat split; lia).
  destruct (N.eqb_spec x y) as [->|Ne]; cbn [firstn]; [|repeat split; lia].
  destruct (IH b) as (A & B & C). rewrite C. repeat split; lia.
Qed.

Definition key_small (k : bytes) : Prop := (N.of_nat (length k) < 18446744073709551616)%N.

Lemma delta_decode_encode k last :
  key_small k -> delta_decode (Some (delta_encode k last)) last = IOk k.
Proof.
  intros Hk. unfold key_small in Hk. unfold delta_decode, delta_encode. cbn [key_bytes].
  destruct (diff_offset_spec last k) as (A & B & C).
  set (d := diff_offset last k) in *.
  rewrite uvarint_dec_enc by lia.
  rewrite skipn_app, skipn_all, Nat.sub_diag. cbn [app skipn].
  destruct (N.of_nat d =? 0)%N eqn:E.
  - assert (d = 0%nat) by lia. subst d. rewrite H. reflexivity.
  - destruct (N.of_nat (length last) <? N.of_nat d)%N eqn:E1; [lia|].
    rewrite Nat2N.id, C, firstn_skipn. reflexivity.
Qed.

(** ** the codec on exports *)
Fixpoint last_key (t : node) : bytes :=
  match t with Leaf k _ _ => k | Inner _ _ _ _ _ r => last_key r end.

Definition int64_range (z : Z) : Prop := -9223372036854775808 <= z <= 9223372036854775807.

Fixpoint versions_int64 (t : node) : Prop :=
  match t with
  | Leaf _ _ m => int64_range (ver m)
  | Inner _ _ _ m l r => int64_range (ver m) /\ versions_int64 l /\ versions_int64 r
  end.

Lemma versions_in_int64 v t : versions_in v t -> v <= 9223372036854775807 -> versions_int64 t.
Proof.
  intros V B. induction t as [k w m | k h s m l IHl r IHr]; simpl in *; unfold int64_range.
  - lia.
  - destruct V as (V & Vl & Vr). repeat split; auto; lia.
Qed.

Lemma wrap64_id z : int64_range z -> wrap64 z = z.
Proof. unfold int64_range, wrap64. intros R. rewrite Z.mod_small; lia. Qed.

Lemma wrap64_add x y : wrap64 (wrap64 x + y) = wrap64 (x + y).
Proof.
  unfold wrap64. f_equal.
  replace ((x + 9223372036854775808) mod 18446744073709551616 - 9223372036854775808 + y
           + 9223372036854775808)
    with ((x + 9223372036854775808) mod 18446744073709551616 + y) by lia.
  rewrite Z.add_mod_idemp_l by lia. f_equal. lia.
Qed.

Lemma wrap64_delta a mx : int64_range a -> wrap64 (wrap64 (a - mx) + mx) = a.
Proof.
  intros R. rewrite wrap64_add. replace (a - mx + mx) with a by lia. apply wrap64_id, R.
Qed.

Definition iprep (xs : list enode) (r : ires (list enode)) : ires (list enode) :=
  ibind r (fun ys => IOk (xs ++ ys)).

Lemma iprep_iprep a b r : iprep a (iprep b r) = iprep (a ++ b) r.
Proof. destruct r; cbn [iprep ibind]; [rewrite app_assoc|..]; reflexivity. Qed.

Lemma iprep_cons c r : ibind r (fun cs => IOk (c :: cs)) = iprep [c] r.
Proof. reflexivity. Qed.

Lemma codec_export t :
  wf t -> keys_all key_small t -> versions_int64 t ->
  forall last vs, exists cs,
    (forall rest,
       compress_from (CExp last vs) (export_node t ++ rest) =
         iprep cs (compress_from (CExp (last_key t) (ver (nmeta t) :: vs)) rest)) /\
    (forall mk rest,
       decompress_from (CImp last mk vs) (cs ++ rest) =
         iprep (export_node t)
           (decompress_from (CImp (last_key t) (min_key t :: mk) (ver (nmeta t) :: vs)) rest)).
Proof.
  induction t as [k w m | k h s m l IHl r IHr]; intros W K V last vs.
  - exists [ENode (Some (delta_encode k last)) (Some w) (ver m) 0]. split.
    + intros rest. cbn [export_node app compress_from]. unfold cexp_next.
      cbn [e_height e_key e_value e_version key_bytes ce_last ce_vers Z.eqb ibind last_key nmeta].
      apply iprep_cons.
    + intros mk rest. cbn [export_node app decompress_from]. unfold cimp_step.
      cbn [e_height e_key e_value e_version ci_last ci_minkeys ci_vers Z.eqb].
      simpl in K. rewrite delta_decode_encode by exact K.
      cbn [ibind last_key min_key nmeta]. apply iprep_cons.
  - pose proof (height_nonneg _ W) as Hh. simpl in W, K, V.
    destruct W as (Wl & Wr & _ & _ & Ek & Eh & _). destruct K as (Kl & Kr).
    destruct V as (Vm & Vl & Vr).
    pose proof (height_nonneg _ Wl). pose proof (height_nonneg _ Wr).
    destruct (IHl Wl Kl Vl last vs) as (csl & Cl & Dl).
    destruct (IHr Wr Kr Vr (last_key l) (ver (nmeta l) :: vs)) as (csr & Cr & Dr).
    set (c := ENode None None (wrap64 (ver m - Z.max (ver (nmeta r)) (ver (nmeta l)))) h).
    exists (csl ++ csr ++ [c]). split.
    + intros rest. cbn [export_node]. rewrite <- !app_assoc. rewrite Cl, Cr.
      cbn [app compress_from]. unfold cexp_next.
      cbn [e_height e_key e_value e_version ce_last ce_vers].
      destruct (h =? 0) eqn:E; [lia|]. cbn [ibind last_key nmeta].
      rewrite iprep_cons, !iprep_iprep, <- app_assoc. reflexivity.
    + intros mk rest. rewrite <- !app_assoc. rewrite Dl, Dr.
      cbn [app decompress_from]. unfold cimp_step. subst c.
      cbn [e_height e_key e_value e_version ci_last ci_minkeys ci_vers].
      destruct (h =? 0) eqn:E; [lia|]. cbn [length Nat.ltb Nat.leb orb].
      rewrite wrap64_delta by exact Vm. cbn [ibind last_key min_key nmeta].
      rewrite iprep_cons, !iprep_iprep. rewrite <- Ek, <- app_assoc. reflexivity.
Qed.

Theorem compress_roundtrip t :
  wf t -> keys_all key_small t -> versions_int64 t ->
  exists cs,
    compress (export (Some t)) = IOk cs /\
    decompress cs = IOk (export (Some t)) /\
    length cs = length (export (Some t)).
Proof.
  intros W K V. destruct (codec_export t W K V [] []) as (cs & C & D).
  exists cs. unfold compress, decompress, cexp_init, cimp_init. cbn [export].
  specialize (C []). specialize (D [] []). rewrite app_nil_r in C, D.
  cbn [compress_from decompress_from iprep ibind] in C, D. rewrite app_nil_r in C, D.
  repeat split; auto.
  (* lengths: each step emits exactly one node *)
  clear - C. revert C. generalize (CExp [] []). generalize (export_node t).
  intros l. revert cs. induction l as [|n l IH]; intros cs st C; cbn [compress_from] in C.
  - inversion C. reflexivity.
  - destruct (cexp_next st n) as [[st' c]| |]; cbn [ibind] in C; try discriminate.
    destruct (compress_from st' l) as [cs'| |] eqn:E; cbn [ibind] in C; try discriminate.
    inversion C. cbn [length]. f_equal. eapply IH. exact E.
Qed.

Corollary compress_decompress t :
  wf t -> keys_all key_small t -> versions_int64 t ->
  ibind (compress (export (Some t))) decompress = IOk (export (Some t)).
Proof.
  intros W K V. destruct (compress_roundtrip t W K V) as (cs & -> & D & _). exact D.
Qed.

(** The wrapped importer consumes a decompressible stream exactly as the plain importer
    consumes its decompression. *)
Lemma cimp_adds_decompress (H : bytes -> bytes) : forall l cs st l',
  decompress_from cs l = IOk l' ->
  cimp_adds H cs st (map Some l) = imp_adds H st (map Some l').
Proof.
  induction l as [|c l IH]; intros cs st l' D; cbn [decompress_from] in D.
  - inversion D. reflexivity.
  - cbn [map cimp_adds cimp_add].
    destruct (cimp_step cs c) as [[cs' n]| |]; cbn [ibind] in D |- *; try discriminate.
    destruct (decompress_from cs' l) as [ns| |] eqn:E; cbn [ibind] in D; try discriminate.
    inversion D. cbn [map imp_adds].
    destruct (imp_add H st (Some n)) as [st'| |]; cbn [ibind]; auto.
Qed.

Theorem compress_import_roundtrip (H : bytes -> bytes) v t :
  wf t -> keys_all key_small t -> versions_in v t -> v < max_nonces_len ->
  exists cs t',
    compress (export (Some t)) = IOk cs /\
    cimp_run H v (map Some cs) = IOk (Some t') /\
    shape_eq t' t /\ hashed H t' /\ nonce (nmeta t') = 1.
Proof.
  intros W K V B.
  assert (V64 : versions_int64 t) by (apply (versions_in_int64 v); [exact V | unfold max_nonces_len in B; lia]).
  destruct (compress_roundtrip t W K V64) as (cs & C & D & _).
  destruct (import_export_roundtrip H v t W V B) as (t' & E & S).
  exists cs, t'. split; [exact C|]. split; [|exact S].
  unfold cimp_run. unfold imp_run in E.
  destruct (imp_new 0 true v) as [st| |]; cbn [ibind] in E |- *; try discriminate.
  rewrite (cimp_adds_decompress H cs cimp_init st _ D). exact E.
Qed.

(** * 4. The importers are total: no stream can make them panic *)

(** Every slice access of the model keeps its explicit bounds check ([IPanic] branch); the
    theorems below say that the guards of the code make all of them unreachable, for
    EVERY stream: nil nodes, negative / zero / too-large versions, any heights, nil or
    empty keys and values, any order. *)
Lemma imp_add_no_panic H st on : imp_add H st on <> IPanic.
Proof.
  unfold imp_add. destruct (i_closed st); [discriminate|].
  destruct on as [n|]; [|discriminate].
  destruct (i_version st <? e_version n) eqn:E; [discriminate|].
  destruct (e_version n <? 0) eqn:E0; [discriminate|]. cbv zeta.
  match goal with
  | |- context [match ?b with IOk _ => _ | IErr => _ | IPanic => _ end] =>
      destruct b as [[[stk sz] kids]| |] eqn:B
  end.
  - cbn [orb]. destruct (i_version st + 1 <=? e_version n) eqn:E1; [lia|discriminate].
  - discriminate.
  - exfalso. clear - B.
    destruct (e_height n =? 0); [discriminate|].
    destruct (i_stack st) as [|r [|l rest]]; try discriminate.
    destruct ((p_height r <? e_height n) && (p_height l <? e_height n)); [|discriminate].
    destruct (write_node H l); [|discriminate]. destruct (write_node H r); discriminate.
Qed.

Lemma imp_adds_no_panic H : forall stream st, imp_adds H st stream <> IPanic.
Proof.
  induction stream as [|on rest IH]; intros st; cbn [imp_adds]; [discriminate|].
  destruct (imp_add H st on) as [st'| |] eqn:A; cbn [ibind]; [apply IH|discriminate|].
  exfalso. exact (imp_add_no_panic _ _ _ A).
Qed.

Lemma imp_commit_no_panic H st : imp_commit H st <> IPanic.
Proof.
  unfold imp_commit. destruct (i_closed st); [discriminate|].
  destruct (i_stack st) as [|p [|q rest]]; try discriminate.
  destruct (write_node H (set_nonce p 1)); discriminate.
Qed.

Lemma imp_new_no_panic latest empty v : v < max_nonces_len -> imp_new latest empty v <> IPanic.
Proof.
  intros B. unfold imp_new. destruct (v <? 0); [discriminate|].
  destruct (0 <? latest); [discriminate|]. destruct (negb empty); [discriminate|].
  destruct (max_nonces_len <? v + 1) eqn:E; [lia|discriminate].
Qed.

Theorem importer_total_gen H v stream : v < max_nonces_len -> imp_run H v stream <> IPanic.
Proof.
  intros B. unfold imp_run. pose proof (imp_new_no_panic 0 true v B) as N.
  destruct (imp_new 0 true v) as [st0| |]; cbn [ibind]; [|discriminate|congruence].
  pose proof (imp_adds_no_panic H stream st0) as A.
  destruct (imp_adds H st0 stream) as [st| |]; cbn [ibind]; [|discriminate|congruence].
  apply imp_commit_no_panic.
Qed.

Theorem importer_total H v stream :
  0 <= v < max_nonces_len -> imp_run H v stream <> IPanic.
Proof. intros B. apply importer_total_gen. lia. Qed.

(** Documented limitation, outside the quantifier of [importer_total]: the import version
    is the caller's own (trusted) parameter, and [make([]uint32, version+1)] in newImporter
    panics ("makeslice: len out of range") for an absurd one. *)
Theorem importer_new_panics_refuted :
  forall H : bytes -> bytes, imp_run H 9223372036854775807 [] = IPanic.
Proof. intros H. vm_compute. reflexivity. Qed.

Theorem importer_panic_only_new H v stream :
  imp_run H v stream = IPanic -> max_nonces_len <= v.
Proof.
  intros E. destruct (Z_lt_le_dec v max_nonces_len) as [L|G]; [|exact G].
  exfalso. exact (importer_total_gen H v stream L E).
Qed.

(** The streams that used to panic the importer (negative node version) are now errors. *)
Definition hostile_negative_version : list (option enode) :=
  [Some (ENode (Some [107%N]) (Some [118%N]) (-1) 0)].
Definition hostile_negative_inner : list (option enode) :=
  [Some (ENode (Some [97%N]) (Some [1%N]) 1 0);
   Some (ENode (Some [98%N]) (Some [2%N]) 1 0);
   Some (ENode (Some [98%N]) None (-9223372036854775808) 1)].

Lemma hostile_plain_now_errors (H : bytes -> bytes) :
  imp_run H 1 hostile_negative_version = IErr /\ imp_run H 1 hostile_negative_inner = IErr.
Proof. vm_compute. auto. Qed.

(** ** Compress importer *)
Lemma delta_decode_no_panic key last : delta_decode key last <> IPanic.
Proof.
  unfold delta_decode. destruct (uvarint_dec (key_bytes key)) as [[shared c]|]; [|discriminate].
  destruct (shared =? 0)%N; [discriminate|].
  destruct (N.of_nat (length last) <? shared)%N; discriminate.
Qed.

Lemma cimp_step_no_panic st n : cimp_step st n <> IPanic.
Proof.
  unfold cimp_step. destruct (e_height n =? 0).
  - pose proof (delta_decode_no_panic (e_key n) (ci_last st)) as D.
    destruct (delta_decode (e_key n) (ci_last st)); cbn [ibind]; [discriminate|discriminate|congruence].
  - destruct (ci_minkeys st) as [|k mks]; [cbn; discriminate|].
    destruct (ci_vers st) as [|a [|b rest]]; cbn [length Nat.ltb Nat.leb orb]; discriminate.
Qed.

Lemma cimp_add_no_panic st on : cimp_add st on <> IPanic.
Proof. destruct on as [n|]; cbn [cimp_add]; [apply cimp_step_no_panic|discriminate]. Qed.

Theorem decompress_total : forall l, decompress l <> IPanic.
Proof.
  unfold decompress. generalize cimp_init. intros st l. revert st.
  induction l as [|c l IH]; intros st; cbn [decompress_from]; [discriminate|].
  pose proof (cimp_step_no_panic st c) as S.
  destruct (cimp_step st c) as [[st' n]| |]; cbn [ibind]; [|discriminate|congruence].
  specialize (IH st'). destruct (decompress_from st' l); cbn [ibind]; [discriminate|discriminate|congruence].
Qed.

Lemma cimp_adds_no_panic H : forall stream cs st, cimp_adds H cs st stream <> IPanic.
Proof.
  induction stream as [|on rest IH]; intros cs st; cbn [cimp_adds]; [discriminate|].
  pose proof (cimp_add_no_panic cs on) as C.
  destruct (cimp_add cs on) as [[cs' n]| |]; cbn [ibind]; [|discriminate|congruence].
  pose proof (imp_add_no_panic H st (Some n)) as A.
  destruct (imp_add H st (Some n)) as [st'| |]; cbn [ibind]; [apply IH|discriminate|congruence].
Qed.

Theorem compress_importer_total_gen H v stream :
  v < max_nonces_len -> cimp_run H v stream <> IPanic.
Proof.
  intros B. unfold cimp_run. pose proof (imp_new_no_panic 0 true v B) as N.
  destruct (imp_new 0 true v) as [st0| |]; cbn [ibind]; [|discriminate|congruence].
  pose proof (cimp_adds_no_panic H stream cimp_init st0) as A.
  destruct (cimp_adds H cimp_init st0 stream) as [st| |]; cbn [ibind]; [|discriminate|congruence].
  apply imp_commit_no_panic.
Qed.

Theorem compress_importer_total H v stream :
  0 <= v < max_nonces_len -> cimp_run H v stream <> IPanic.
Proof. intros B. apply compress_importer_total_gen. lia. Qed.

(** The streams that used to panic the compress importer are now errors:
    (a) an inner node first, (b) one leaf then an inner node, (c) a shared-prefix length
    beyond the previous key, (d) a nil node. *)
Definition hostile_compress_inner_first : list cnode := [ENode None None 0 1].
Definition hostile_compress_one_leaf : list cnode :=
  [ENode (Some [0%N; 97%N]) (Some [1%N]) 1 0; ENode None None 0 1].
Definition hostile_compress_shared : list cnode := [ENode (Some [5%N; 97%N]) (Some [1%N]) 1 0].

Lemma hostile_compress_now_errors (H : bytes -> bytes) :
  decompress hostile_compress_inner_first = IErr /\
  decompress hostile_compress_one_leaf = IErr /\
  decompress hostile_compress_shared = IErr /\
  cimp_run H 1 (map Some hostile_compress_inner_first) = IErr /\
  cimp_run H 1 (map Some hostile_compress_one_leaf) = IErr /\
  cimp_run H 1 (map Some hostile_compress_shared) = IErr /\
  cimp_run H 1 [None] = IErr.
Proof. vm_compute. auto 10. Qed.

(** Still unguarded (not part of the importer property): the compress EXPORTER indexes its
    version stack unchecked; harmless behind the real exporter (compress_roundtrip), a
    panic behind any other NodeExporter. *)
Theorem compress_panics_refuted : compress [ENode (Some [97%N]) None 1 1] = IPanic.
Proof. vm_compute. reflexivity. Qed.

(** * 5. Errors expose nothing: only a successful Commit makes a root visible *)
Section SessionFacts.
  Variable H : bytes -> bytes.

  (** a failing Add / Commit leaves the importer and the visible tree exactly as before *)
  Theorem import_error_no_effect s o :
    snd (sess_step H s o) = IErr -> fst (sess_step H s o) = s.
  Proof.
    destruct o as [n| |]; cbn [sess_step].
    - destruct (imp_add H (s_imp s) n); cbn [fst snd]; intros E; try discriminate; reflexivity.
    - destruct (imp_commit H (s_imp s)); cbn [fst snd]; intros E; try discriminate; reflexivity.
    - cbn [snd]. discriminate.
  Qed.

  (** the visible root changes only through a successful Commit, to what it returns *)
  Theorem visible_only_by_commit s o :
    s_visible (fst (sess_step H s o)) = s_visible s \/
    (o = ICommit /\ exists r, imp_commit H (s_imp s) = IOk r /\
                              s_visible (fst (sess_step H s o)) = Some r /\
                              i_closed (s_imp (fst (sess_step H s o))) = true).
  Proof.
    destruct o as [n| |]; cbn [sess_step].
    - left. destruct (imp_add H (s_imp s) n); reflexivity.
    - destruct (imp_commit H (s_imp s)) as [r| |]; cbn [fst s_visible]; auto.
      right. split; [reflexivity|]. exists r. auto.
    - left. reflexivity.
  Qed.

  (** once closed (after Commit or Close) every Add and Commit fails *)
  Theorem closed_importer_rejects s o :
    i_closed (s_imp s) = true -> o <> IClose ->
    sess_step H s o = (s, IErr).
  Proof.
    intros C N. destruct o as [n| |]; cbn [sess_step]; [| |congruence].
    - unfold imp_add. rewrite C. reflexivity.
    - unfold imp_commit. rewrite C. reflexivity.
  Qed.

  (** without a Commit nothing ever becomes visible, whatever is added and however it fails *)
  Theorem no_commit_nothing_visible : forall ops s,
    ~ In ICommit ops -> s_visible (fst (sess_run H s ops)) = s_visible s.
  Proof.
    induction ops as [|o rest IH]; intros s N; [reflexivity|].
    cbn [sess_run].
    assert (No : o <> ICommit) by (intros ->; apply N; left; reflexivity).
    assert (Nr : ~ In ICommit rest) by (intros I; apply N; right; exact I).
    destruct (visible_only_by_commit s o) as [E | (E & _)]; [|contradiction].
    destruct (sess_step H s o) as [s' x]. cbn [fst] in E.
    destruct x; [| |cbn [fst]; exact E];
      (specialize (IH s' Nr); destruct (sess_run H s' rest) as [s'' xs]; cbn [fst] in *; congruence).
  Qed.

  (** the whole-run view: a run that fails returns no root (by the type of [ires]), and a
      root is returned exactly when Commit returned it *)
  Theorem imp_run_root_from_commit v stream r :
    imp_run H v stream = IOk r ->
    exists st0 st, imp_new 0 true v = IOk st0 /\ imp_adds H st0 stream = IOk st /\
                   imp_commit H st = IOk r.
  Proof.
    unfold imp_run. destruct (imp_new 0 true v) as [st0| |]; cbn [ibind]; try discriminate.
    destruct (imp_adds H st0 stream) as [st| |] eqn:A; cbn [ibind]; try discriminate.
    intros C. exists st0, st. auto.
  Qed.
End SessionFacts.
