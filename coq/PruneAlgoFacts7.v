(** PruneAlgoFacts7: the final store of a deletion, reading a safe disk back, and the theorems
    about [prune_forest] / [prune_forest_disks] for a forest without look-alike nodes. *)
From Coq Require Import Lia Sorted.
From IAVL Require Import Bytes Varint Tree VMap TreeFacts MTree MTreeFacts HashFacts VersionFacts
  Store StoreFacts PruneAlgo PruneAlgoFacts1 PruneAlgoFacts2 PruneAlgoFacts3 PruneAlgoFacts4
  PruneAlgoFacts5 PruneAlgoFacts6.
Local Open Scope Z_scope.

(** ** Normal form of keys *)
Lemma norm_key_pkey r u : 1 <= nonce (nmeta u) -> norm_key (pkey r u) = node_key u.
Proof.
  intros Nn. unfold norm_key. destruct (pkey_cases r u) as [(N1 & _ & K)|(_ & K)]; rewrite K.
  - cbn [fst snd Z.eqb]. unfold node_key. rewrite N1. reflexivity.
  - unfold node_key. cbn [snd fst]. destruct (nonce (nmeta u) =? 0) eqn:E; [|reflexivity].
    apply Z.eqb_eq in E. lia.
Qed.

Lemma norm_key_node_key u : 1 <= nonce (nmeta u) -> norm_key (node_key u) = node_key u.
Proof.
  intros Nn. unfold norm_key, node_key. cbn [snd fst].
  destruct (nonce (nmeta u) =? 0) eqn:E; [|reflexivity]. apply Z.eqb_eq in E. lia.
Qed.

Lemma store_of_mset_all l : store_of l = mset_all kcmp l [].
Proof. reflexivity. Qed.

(** ** The final store *)
Section Final.
  Variable f0 : forest_t.
  Hypothesis FI0 : forest_inv f0.
  Variable f : forest_t.                 (* what is left *)
  Hypothesis FI : forest_inv f.
  Hypothesis ND : NoDup (map fst f).
  Variables (r : list Z) (b : Z) (V : store).
  Hypothesis Cx : ctx f0 (sub_of f) f f r b.
  Hypothesis PV : pst (pentry (sub_of f) f r) V.
  Hypothesis Hb : b = first_of_forest f.

  Lemma V_In k e : In (k, e) V <-> pentry (sub_of f) f r k e.
  Proof.
    destruct PV as [S F]. rewrite <- F. split.
    - apply (mfind_In kcmp kcmp_ok), S.
    - apply (In_mfind kcmp kcmp_ok).
  Qed.

  Lemma rekeyed_V w :
    In w (rekeyed V) <->
    exists u, sub_of f u /\ nonce (nmeta u) = 1 /\ ver (nmeta u) = w /\ In w r.
  Proof.
    rewrite rekeyed_In. split.
    - intros (e & I). apply V_In in I.
      destruct (pentry_at_zero f0 FI0 _ f r w e (c_desc _ _ _ _ _ _ Cx) I) as (u & A & B & C & D & _).
      exists u. auto.
    - intros (u & Su & N1 & Vu & Ir). exists (ENode (snode_of u)). apply V_In. left.
      exists u. split; [exact Su|]. split; [|reflexivity].
      destruct (pkey_cases r u) as [(_ & _ & K)|([A|A] & _)]; [rewrite K, Vu; reflexivity| |];
        [contradiction|rewrite Vu in A; contradiction].
  Qed.

  Lemma pkey_rekeyed u : sub_of f u -> pkey (rekeyed V) u = pkey r u.
  Proof.
    intros Su. unfold pkey. destruct (nonce (nmeta u) =? 1) eqn:N1; cbn [andb]; [|reflexivity].
    apply Z.eqb_eq in N1.
    assert (E : in_r (rekeyed V) (ver (nmeta u)) = in_r r (ver (nmeta u))); [|rewrite E; reflexivity].
    destruct (in_r r (ver (nmeta u))) eqn:E2.
    - apply in_r_true in E2. apply in_r_true. apply rekeyed_V. exists u. auto.
    - destruct (in_r (rekeyed V) (ver (nmeta u))) eqn:E1; [|reflexivity].
      apply in_r_true in E1. apply rekeyed_V in E1. destruct E1 as (_ & _ & _ & _ & Ir).
      apply in_r_true in Ir. congruence.
  Qed.

  Theorem final_phys : V = phys_of (rekeyed V) f.
  Proof.
    apply (pst_ext (pentry (sub_of f) f (rekeyed V))); [|apply phys_pst; assumption].
    apply (pst_equiv (pentry (sub_of f) f r)); [|exact PV].
    intros k e. split.
    - intros [(u & Su & -> & ->)|A]; [|right; exact A]. left. exists u.
      rewrite (pkey_rekeyed u Su). auto.
    - intros [(u & Su & -> & ->)|A]; [|right; exact A]. left. exists u.
      rewrite (pkey_rekeyed u Su). auto.
  Qed.

  Theorem final_rekey_ok : rekey_ok (rekeyed V) f.
  Proof.
    split; [apply rekeyed_sorted, PV|].
    intros w Iw. apply rekeyed_V in Iw. destruct Iw as (u & Su & N1 & Vu & Ir). split.
    - rewrite <- Hb. exact (c_rb _ _ _ _ _ _ Cx w Ir).
    - exists u. split; [exact Su|]. unfold node_key. congruence.
  Qed.

  Theorem final_norm : norm_store V = expected_store f.
  Proof.
    unfold norm_store. rewrite store_of_mset_all.
    set (l := map (fun p => (norm_key (fst p), norm_entry (snd p))) V).
    assert (A : forall k e, In (k, e) l <-> In (k, e) (reach f)).
    { intros k e. unfold l. rewrite in_map_iff, reach_In. split.
      - intros ([k0 e0] & Q & I). cbn [fst snd] in Q. inversion Q; subst k e. apply V_In in I.
        destruct I as [(u & Su & -> & ->)|(w & rt & I & Er)].
        + left. exists u. split; [exact Su|]. split; [|reflexivity].
          apply norm_key_pkey, (sub_of_nonce f FI u Su).
        + right. exists w, rt. split; [exact I|].
          destruct (root_entry_Some _ _ _ _ Er) as [-> [[_ ->]|(t & -> & -> & _)]]; [exact Er|].
          cbn [norm_entry]. rewrite norm_key_node_key; [exact Er|].
          apply (sub_of_nonce f FI). exists w, t. split; [exact I|apply sub_refl].
      - intros [(u & Su & -> & ->)|(w & rt & I & Er)].
        + exists (pkey r u, ENode (snode_of u)). cbn [fst snd norm_entry]. split.
          * rewrite (norm_key_pkey r u (sub_of_nonce f FI u Su)). reflexivity.
          * apply V_In. left. exists u. auto.
        + exists (k, e). cbn [fst snd]. split.
          * destruct (root_entry_Some _ _ _ _ Er) as [-> [[_ ->]|(t & Ert & -> & _)]]; [reflexivity|].
            cbn [norm_entry]. rewrite norm_key_node_key; [reflexivity|].
            apply (sub_of_nonce f FI). exists w, t. split; [rewrite <- Ert; exact I|apply sub_refl].
          * apply V_In. right. exists w, rt. auto. }
    apply store_unique; [exact FI|exact ND|apply (msorted_mset_all kcmp kcmp_ok); exact Logic.I|].
    intros k e. rewrite (mfind_mset_all kcmp kcmp_ok). cbn [mfind]. split.
    - destruct (lastb kcmp k l) as [e'|] eqn:Lb; [|discriminate]. intros Q. inversion Q; subst e'.
      apply A, (lastb_In kcmp kcmp_ok), Lb.
    - intros I. rewrite (lastb_functional kcmp kcmp_ok k e l); [reflexivity|apply A, I|].
      intros e' I'. apply A in I'. exact (reach_functional f k e' e FI ND I' I).
  Qed.
End Final.

(** ** Reading a safe disk back *)
Fixpoint node_beq_refl (t : node) : node_beq t t = true.
Proof.
  assert (M : forall m, meta_beq m m = true).
  { intros m. unfold meta_beq. rewrite !Z.eqb_refl. cbn [andb]. apply beq_true. reflexivity. }
  destruct t as [k v m|k h s m l r]; cbn [node_beq].
  - rewrite M, (proj2 (beq_true k k) eq_refl), (proj2 (beq_true v v) eq_refl). reflexivity.
  - rewrite M, (proj2 (beq_true k k) eq_refl), !Z.eqb_refl, (node_beq_refl l), (node_beq_refl r).
    reflexivity.
Qed.

Lemma keyok_nonce d k u : keyok d k u -> 1 <= nonce (nmeta u) -> norm_nonce k = nonce (nmeta u).
Proof.
  intros [->|(N1 & -> & _)] Nn; unfold norm_nonce, node_key; cbn [snd].
  - destruct (nonce (nmeta u) =? 0) eqn:E; [apply Z.eqb_eq in E; lia|reflexivity].
  - cbn [Z.eqb]. congruence.
Qed.

Section Read.
  Variable H : bytes -> bytes.
  Variables (L : node -> Prop) (sro : forest_t) (b : Z) (d : store).
  Hypothesis S : safe L sro b d.
  Hypothesis LH : forall u, L u -> fhash H u = hs (nmeta u).
  Hypothesis Lsub : forall u c, L u -> subtree c u -> L c.
  Hypothesis Lnonce : forall u, L u -> 1 <= nonce (nmeta u).
  Hypothesis Lcoh : forall u u', L u -> L u' -> node_key u = node_key u' -> u = u'.

  Lemma load_node_ok : forall fuel u k,
    L u -> keyok d k u -> (ncount u <= fuel)%nat -> load_node H fuel d k = Some u.
  Proof.
    induction fuel as [|fuel IH]; intros u k Lu K Fu; [pose proof (ncount_pos u); lia|].
    cbn [load_node]. rewrite (get_node_keyok L sro b d k u S Lu K).
    pose proof (keyok_ver _ _ _ K) as Ev. pose proof (keyok_nonce _ _ _ K (Lnonce u Lu)) as En.
    pose proof (LH u Lu) as Eh.
    destruct u as [key val m|key h s m l r]; cbn [snode_of].
    - cbn [nmeta] in *.
      assert (Fh : fetched_hash H k (SLeaf key val) = hs m).
      { rewrite <- Eh. exact (fetched_fhash H k (Leaf key val m) Ev). }
      rewrite Fh, Ev, En. destruct m; reflexivity.
    - cbn [ncount] in Fu.
      rewrite (IH l (node_key l)); [|apply (Lsub _ _ Lu), sub_left, sub_refl|left; reflexivity|lia].
      rewrite (IH r (node_key r)); [|apply (Lsub _ _ Lu), sub_right, sub_refl|left; reflexivity|lia].
      cbn [nmeta fhash fetched_hash] in *. rewrite Ev, En. destruct m; reflexivity.
  Qed.

  (** every live node occupies a key of its own *)
  Definition place (u : node) : nodekey :=
    if mhas kcmp (node_key u) d then node_key u else (ver (nmeta u), 0).

  Lemma place_In u : L u -> In (place u) (map fst d) /\
    (place u = node_key u \/ (place u = (ver (nmeta u), 0) /\ nonce (nmeta u) = 1)).
  Proof.
    intros Lu. destruct S as (_ & A & _). specialize (A u Lu). unfold get_node in A. unfold place, mhas.
    destruct (mfind kcmp (node_key u) d) as [e|] eqn:F.
    - split; [|left; reflexivity]. apply in_map_iff. exists (node_key u, e). split; [reflexivity|].
      apply (In_mfind kcmp kcmp_ok), F.
    - destruct (snd (node_key u) =? 1) eqn:N1; [|discriminate]. apply Z.eqb_eq in N1.
      cbn [node_key fst snd] in *.
      destruct (mfind kcmp (ver (nmeta u), 0) d) as [e|] eqn:F0; [|discriminate].
      split; [|right; auto]. apply in_map_iff. exists ((ver (nmeta u), 0), e). split; [reflexivity|].
      apply (In_mfind kcmp kcmp_ok), F0.
  Qed.

  Lemma place_inj u u' : L u -> L u' -> place u = place u' -> u = u'.
  Proof.
    intros Lu Lu' E. apply Lcoh; auto.
    pose proof (Lnonce u Lu). pose proof (Lnonce u' Lu').
    destruct (place_In u Lu) as [_ [A|[A A1]]]; destruct (place_In u' Lu') as [_ [B|[B B1]]];
      rewrite A, B in E.
    - exact E.
    - unfold node_key in E. inversion E. lia.
    - unfold node_key in E. inversion E. lia.
    - unfold node_key. inversion E. congruence.
  Qed.

  Lemma live_count (l : list node) :
    NoDup l -> (forall u, In u l -> L u) -> (length l <= length d)%nat.
  Proof.
    intros N HL. rewrite <- (map_length place l), <- (map_length fst d).
    apply NoDup_incl_length.
    - clear -N HL Lcoh Lnonce S. induction l as [|a l IH]; cbn [map]; [constructor|].
      inversion N as [|x xs Nin N']; subst. constructor.
      + intros I. apply in_map_iff in I. destruct I as (a' & E & I').
        assert (a' = a) by (apply place_inj; auto; [apply HL; right; exact I'|apply HL; left; reflexivity]).
        subst. contradiction.
      + apply IH; auto. intros u Iu. apply HL. right. exact Iu.
    - intros k I. apply in_map_iff in I. destruct I as (u & <- & Iu). apply place_In, HL, Iu.
  Qed.
End Read.

Theorem readable_safe (H : bytes -> bytes) (f : forest_t) b d :
  forest_inv f -> (forall w t, In (w, Some t) f -> wf t) ->
  (forall u, sub_of f u -> fhash H u = hs (nmeta u)) ->
  safe (sub_of f) f b d -> readable H d f = true.
Proof.
  intros FI WF LH Sd. unfold readable. apply forallb_forall. intros [w rt] I. cbn [fst snd].
  assert (Lsub : forall u c, sub_of f u -> subtree c u -> sub_of f c).
  { intros u c (w' & t & I' & Su) Sc. exists w', t. split; [exact I'|exact (sub_trans _ _ _ Sc Su)]. }
  pose proof (get_root_safe (sub_of f) f b d w rt Sd I) as G.
  assert (HL : forall t, rt = Some t -> sub_of f t).
  { intros t ->. exists w, t. split; [exact I|apply sub_refl]. }
  specialize (G HL). unfold load_version. destruct rt as [t|].
  - destruct G as (k & G & K). rewrite G.
    assert (Ct : (ncount t <= S (length d))%nat).
    { rewrite <- pre_length.
      pose proof (live_count (sub_of f) f b d Sd (sub_of_nonce f FI) (fi_coh f FI) (pre t)
                    (pre_NoDup t (WF _ _ I))) as C.
      assert (forall u, In u (pre t) -> sub_of f u).
      { intros u Iu. apply pre_In in Iu. exists w, t. auto. }
      specialize (C H0). lia. }
    rewrite (load_node_ok H (sub_of f) f b d Sd LH Lsub (sub_of_nonce f FI) (S (length d)) t k
               (HL t eq_refl) K Ct).
    apply node_beq_refl.
  - rewrite G. reflexivity.
Qed.
