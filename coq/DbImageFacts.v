(** Proofs about the byte-level database image (DbImage.v).

    1. [decode_encode_image]: under the boolean guard [image_ok st fi l] (numbers within int64 /
       uint32, byte strings shorter than MaxInt, heights 1..127 for inner nodes, 32-byte hashes,
       non-negative versions in the storage keys and in the label),
       [decode_image (encode_image st fi l) = Some (st, fi, l)].
    2. [encode_image_sorted]: the image lists its pairs in ascending db-key order ([bcmp]), no key
       twice; [encode_image_injective]: different encodable databases have different images.
    3. THE END-TO-END THEOREM [reopen_reads_back_the_model]: for every state reachable by an
       in-contract history, every list [r] of re-keyed roots with [rekey_ok] and [stale_free_rel],
       a new tree object opened on the BYTES of the physical database [phys_of r (forest s)] (with
       any fast index and label) discovers exactly the retained version range and loads every
       retained version back node for node - keys, values, heights, sizes, versions, nonces and
       hashes - and no other version: [open_forest H iv img = DbOk (forest s)].
       It composes [decode_encode_image] (CodecFacts round trips), [DiscoverFacts.discover_state_rel]
       (version discovery) and [PruneAlgoFacts10.phys_readable] (GetRoot / GetNode with the
       (v,1) -> (v,0) fall-backs).  [reopen_reads_back_the_model_forest_guard]: the same with the
       guards checked on the trees of the model state; [reopen_along_physical_history]: the same
       for every store met along the physical history (commits, rollbacks, physical deletions
       under any flush schedule), or the hash function has a collision.
       [reopen_retained_versions]: WITHOUT [stale_free_rel] every retained version still loads
       back exactly; only the discovered range may start earlier (finding C14-stale-root-key).
    4. Examples by [vm_compute] with SHA-256. *)
From Coq Require Import Lia ZifyBool ZifyNat ZifyN.
From IAVL Require Import Bytes Varint VarintFacts Sha256 Tree VMap TreeFacts MTree MTreeFacts HashFacts
  VersionFacts Codec CodecFacts Store StoreFacts PruneAlgo FastLife Discover DiscoverFacts
  PruneAlgoFacts2 PruneAlgoFacts6 PruneAlgoFacts7 PruneAlgoFacts9 PruneAlgoFacts10 PruneAlgoFacts11 DbImage.
Local Open Scope Z_scope.

(** ** 0. Booleans to Props *)
Lemma int64b_in z : int64b z = true <-> in_int64 z.
Proof. unfold int64b, in_int64. lia. Qed.
Lemma uint32b_in z : uint32b z = true <-> in_uint32 z.
Proof. unfold uint32b, in_uint32. lia. Qed.
Lemma short_b_short b : short_b b = true <-> short b.
Proof. unfold short_b, short. lia. Qed.
Lemma ref_okb_in k : ref_okb k = true <-> in_int64 (fst k) /\ in_uint32 (snd k).
Proof. unfold ref_okb. rewrite andb_true_iff, int64b_in, uint32b_in. tauto. Qed.
Lemma skey_okb_in k : skey_okb k = true <-> 0 <= fst k < 2 ^ 63 /\ in_uint32 (snd k).
Proof. unfold skey_okb. rewrite !andb_true_iff, uint32b_in, Z.leb_le, Z.ltb_lt. tauto. Qed.
Lemma skey_ref k : skey_okb k = true -> ref_okb k = true.
Proof. rewrite skey_okb_in, ref_okb_in. unfold in_int64, in_uint32. lia. Qed.

(** ** 1. One entry *)
Lemma snode_ok_raw n :
  snode_okb n = true ->
  wf_raw (raw_of_snode n) /\ rn_height (raw_of_snode n) <> -58 /\
  snode_of_raw (raw_of_snode n) = Some n.
Proof.
  destruct n as [k v|k h s hash [lv ln] [rv rn]]; cbn [snode_okb raw_of_snode].
  - rewrite andb_true_iff, !short_b_short. intros [Sk Sv].
    unfold wf_raw. cbn [rn_height rn_size rn_key rn_value rn_hash rn_left rn_right Z.eqb].
    split; [|split; [discriminate|reflexivity]].
    split; [unfold in_int8; lia|]. split; [unfold in_int64; lia|]. split; [exact Sk|].
    split; [exists v; auto|auto].
  - rewrite !andb_true_iff, !ref_okb_in, int64b_in, short_b_short, Z.leb_le, Z.leb_le, Nat.eqb_eq.
    cbn [fst snd]. intros ((((((H1 & H2) & Ss) & Sk) & Lh) & Rl) & Rr).
    unfold wf_raw. cbn [rn_height rn_size rn_key rn_value rn_hash rn_left rn_right].
    destruct (h =? 0) eqn:E0; [lia|].
    split; [|split; [lia|reflexivity]].
    split; [unfold in_int8; lia|]. split; [exact Ss|]. split; [exact Sk|].
    split; [reflexivity|]. split; [exact Lh|]. cbn [wf_child]. tauto.
Qed.

Theorem decode_entry_encode nk k e :
  length nk = 12%nat -> entry_okb e = true -> decode_entry nk (encode_entry k e) = Some e.
Proof.
  intros Lk OK. destruct e as [n|[rv rn]|]; cbn [entry_okb encode_entry] in *.
  - destruct (snode_ok_raw n OK) as (W & N58 & R).
    unfold decode_entry. rewrite (classify_root_node _ N58).
    rewrite <- (app_nil_r (encode_node (raw_of_snode n))).
    rewrite (decode_node_roundtrip nk _ [] W Lk), R. reflexivity.
  - apply ref_okb_in in OK. cbn [fst snd] in *. destruct OK as [A B].
    unfold decode_entry. rewrite (classify_root_ref13 rv rn A B). reflexivity.
  - reflexivity.
Qed.

(** ** 2. Keys *)
Lemma node_db_key_exact k : node_db_key k = prefix_node :: node_key_bytes (fst k) (snd k).
Proof. unfold node_db_key. apply db_node_key_exact, node_key_bytes_length. Qed.

Lemma classify_key_node k : classify_key (node_db_key k) = IKNode (node_key_bytes (fst k) (snd k)).
Proof.
  rewrite node_db_key_exact. unfold classify_key. rewrite N.eqb_refl, node_key_bytes_length. reflexivity.
Qed.

Lemma classify_key_fast key : classify_key (db_fast_key key) = IKFast key.
Proof. reflexivity. Qed.

Lemma classify_key_meta : classify_key db_meta_key = IKLabel.
Proof. vm_compute. reflexivity. Qed.

Lemma decode_label_encode v : 0 <= v -> decode_label (fast_storage_label v) = Some (Some v).
Proof.
  intros L. unfold decode_label.
  assert (Hf : has_fast_storage (fast_storage_label v) = true) by reflexivity.
  rewrite Hf, (parse_storage_label_roundtrip v L). reflexivity.
Qed.

(** ** 3. The whole image *)
Lemma decode_store_part (st : list ((Z * Z) * entry)) rest st0 fi0 l0 :
  store_okb st = true -> decode_image rest = Some (st0, fi0, l0) ->
  decode_image (encode_store st ++ rest) = Some (st ++ st0, fi0, l0).
Proof.
  intros OK D. induction st as [|[k e] st IH]; [exact D|].
  cbn [store_okb forallb fst snd] in OK. apply andb_true_iff in OK. destruct OK as [OKp OK].
  apply andb_true_iff in OKp. destruct OKp as [Kk Ke].
  cbn [encode_store map app decode_image fst snd]. fold (encode_store st).
  rewrite (IH OK). unfold decode_pair. rewrite classify_key_node.
  apply skey_okb_in in Kk. destruct Kk as [Kv Kn].
  rewrite (parse_node_key_roundtrip (fst k) (snd k)) by (unfold in_int64; try lia; exact Kn).
  rewrite (decode_entry_encode _ k e (node_key_bytes_length _ _) Ke).
  destruct k as [kv kn]. reflexivity.
Qed.

Lemma decode_fast_part (fi : list (bytes * (Z * bytes))) rest st0 fi0 l0 :
  fast_okb fi = true -> decode_image rest = Some (st0, fi0, l0) ->
  decode_image (encode_fast fi ++ rest) = Some (st0, fi ++ fi0, l0).
Proof.
  intros OK D. induction fi as [|[k [ver val]] fi IH]; [exact D|].
  cbn [fast_okb forallb fst snd] in OK. apply andb_true_iff in OK. destruct OK as [OKp OK].
  apply andb_true_iff in OKp. destruct OKp as [Kv Ks].
  apply int64b_in in Kv. apply short_b_short in Ks.
  cbn [encode_fast map app decode_image fst snd]. fold (encode_fast fi).
  rewrite (IH OK). unfold decode_pair. rewrite classify_key_fast.
  rewrite <- (app_nil_r (encode_fast_node ver val)).
  rewrite (decode_fast_node_roundtrip k ver val [] Kv Ks). reflexivity.
Qed.

Lemma decode_label_part l rest st0 fi0 :
  label_okb l = true -> decode_image rest = Some (st0, fi0, None) ->
  decode_image (encode_label l ++ rest) = Some (st0, fi0, l).
Proof.
  intros OK D. destruct l as [v|]; [|exact D].
  cbn [label_okb] in OK. apply Z.leb_le in OK.
  cbn [encode_label app decode_image]. rewrite D. unfold decode_pair.
  rewrite classify_key_meta, (decode_label_encode v OK). reflexivity.
Qed.

(** THEOREM 1: decoding the image of an encodable database gives the database back *)
Theorem decode_encode_image (st : list ((Z * Z) * entry)) (fi : list (bytes * (Z * bytes))) (l : option Z) :
  image_ok st fi l = true -> decode_image (encode_image st fi l) = Some (st, fi, l).
Proof.
  unfold image_ok. rewrite !andb_true_iff. intros [[Os Of] Ol]. unfold encode_image.
  assert (D1 : decode_image (encode_store st) = Some (st, [], None)).
  { rewrite <- (app_nil_r (encode_store st)).
    rewrite (decode_store_part st [] [] [] None Os eq_refl), app_nil_r. reflexivity. }
  pose proof (decode_label_part l _ _ _ Ol D1) as D2.
  rewrite (decode_fast_part fi _ _ _ _ Of D2), app_nil_r. reflexivity.
Qed.

(** different encodable databases have different images *)
Theorem encode_image_injective st fi l st' fi' l' :
  image_ok st fi l = true -> image_ok st' fi' l' = true ->
  encode_image st fi l = encode_image st' fi' l' -> st = st' /\ fi = fi' /\ l = l'.
Proof.
  intros O O' E. pose proof (decode_encode_image st fi l O) as D.
  rewrite E, (decode_encode_image st' fi' l' O') in D. inversion D. auto.
Qed.

(** nothing of an image is ignored *)
Lemma image_unknown_encode st fi l : image_unknown (encode_image st fi l) = 0%nat.
Proof.
  unfold image_unknown, encode_image. rewrite !filter_app, !app_length.
  assert (A : forall fi : list (bytes * (Z * bytes)),
            filter (fun p => match classify_key (fst p) with IKOther => true | _ => false end)
                   (encode_fast fi) = []).
  { induction fi0 as [|p fi0 IH]; [reflexivity|]. cbn [encode_fast map filter fst]. exact IH. }
  assert (B : forall st : list ((Z * Z) * entry),
            filter (fun p => match classify_key (fst p) with IKOther => true | _ => false end)
                   (encode_store st) = []).
  { induction st0 as [|p st0 IH]; [reflexivity|]. cbn [encode_store map filter fst].
    rewrite classify_key_node. exact IH. }
  rewrite A, B. destruct l; reflexivity.
Qed.

(** ** 4. The image is sorted by db key *)
Lemma msorted_app {K V} (cmp : K -> K -> comparison) (a b : list (K * V)) :
  msorted cmp a -> msorted cmp b ->
  (forall x y, In x a -> In y b -> cmp (fst x) (fst y) = Lt) -> msorted cmp (a ++ b).
Proof.
  induction a as [|[k v] a IH]; intros Sa Sb X; [exact Sb|].
  cbn [app msorted] in *. destruct Sa as [F Sa]. split.
  - apply Forall_app. split; [exact F|]. apply Forall_forall. intros y Iy.
    exact (X (k, v) y (or_introl eq_refl) Iy).
  - apply IH; [exact Sa|exact Sb|]. intros x y Ix Iy. apply X; [right; exact Ix|exact Iy].
Qed.

Lemma msorted_map {K V K' V'} (cmp : K -> K -> comparison) (cmp' : K' -> K' -> comparison)
      (g : K * V -> K' * V') (l : list (K * V)) :
  msorted cmp l ->
  (forall p q, In p l -> In q l -> cmp (fst p) (fst q) = Lt -> cmp' (fst (g p)) (fst (g q)) = Lt) ->
  msorted cmp' (map g l).
Proof.
  induction l as [|[k v] l IH]; intros S M; [exact I|].
  cbn [msorted map] in *. destruct S as [F S].
  destruct (g (k, v)) as [k' v'] eqn:G. split.
  - apply Forall_forall. intros q Iq. apply in_map_iff in Iq. destruct Iq as (q0 & <- & Iq0).
    rewrite Forall_forall in F.
    pose proof (M (k, v) q0 (or_introl eq_refl) (or_intror Iq0) (F q0 Iq0)) as X.
    rewrite G in X. exact X.
  - apply IH; [exact S|]. intros p q Ip Iq. apply M; right; assumption.
Qed.

Lemma store_okb_In (st : list ((Z * Z) * entry)) p :
  store_okb st = true -> In p st -> skey_okb (fst p) = true /\ entry_okb (snd p) = true.
Proof.
  unfold store_okb. rewrite forallb_forall. intros A Ip. apply andb_true_iff, A, Ip.
Qed.

Lemma encode_store_sorted (st : list ((Z * Z) * entry)) :
  store_okb st = true -> msorted kcmp st -> msorted bcmp (encode_store st).
Proof.
  intros OK S. unfold encode_store. apply (msorted_map kcmp bcmp); [exact S|].
  intros p q Ip Iq C. cbn [fst].
  destruct (store_okb_In st p OK Ip) as [Kp _]. destruct (store_okb_In st q OK Iq) as [Kq _].
  apply skey_okb_in in Kp, Kq. apply kcmp_Lt in C. unfold klt in C.
  apply db_node_key_order; tauto.
Qed.

Lemma encode_fast_sorted (fi : list (bytes * (Z * bytes))) :
  msorted bcmp fi -> msorted bcmp (encode_fast fi).
Proof.
  intros S. unfold encode_fast. apply (msorted_map bcmp bcmp); [exact S|].
  intros p q _ _ C. cbn [fst]. unfold db_fast_key. cbn [bcmp]. rewrite N.compare_refl. exact C.
Qed.

Lemma In_encode_fast (fi : list (bytes * (Z * bytes))) x :
  In x (encode_fast fi) -> exists key, fst x = prefix_fast :: key.
Proof.
  unfold encode_fast. rewrite in_map_iff. intros (p & <- & _). exists (fst p). reflexivity.
Qed.

Lemma In_encode_store (st : list ((Z * Z) * entry)) x :
  In x (encode_store st) -> exists nk, fst x = prefix_node :: nk.
Proof.
  unfold encode_store. rewrite in_map_iff. intros (p & <- & _). cbn [fst].
  rewrite node_db_key_exact. eexists. reflexivity.
Qed.

Lemma In_encode_label l x : In x (encode_label l) -> fst x = db_meta_key.
Proof. destruct l as [v|]; cbn [encode_label In]; [|tauto]. intros [<-|[]]. reflexivity. Qed.

(** THEOREM 2a: the image lists the pairs in ascending db-key order, without repetition: it is
    what an ordered key-value store holding exactly these pairs returns *)
Theorem encode_image_sorted (st : list ((Z * Z) * entry)) (fi : list (bytes * (Z * bytes))) (l : option Z) :
  store_okb st = true -> msorted kcmp st -> msorted bcmp fi ->
  msorted bcmp (encode_image st fi l).
Proof.
  intros OK Ss Sf. unfold encode_image.
  apply msorted_app; [apply encode_fast_sorted, Sf| |].
  - apply msorted_app; [destruct l; cbn; auto|apply encode_store_sorted; assumption|].
    intros x y Ix Iy. rewrite (In_encode_label l x Ix).
    destruct (In_encode_store st y Iy) as (nk & ->). reflexivity.
  - intros x y Ix Iy. destruct (In_encode_fast fi x Ix) as (key & ->).
    apply in_app_or in Iy. destruct Iy as [Iy|Iy].
    + rewrite (In_encode_label l y Iy). reflexivity.
    + destruct (In_encode_store st y Iy) as (nk & ->). reflexivity.
Qed.

Corollary encode_image_keys_NoDup st fi l :
  store_okb st = true -> msorted kcmp st -> msorted bcmp fi ->
  NoDup (map fst (encode_image st fi l)).
Proof. intros OK Ss Sf. apply (msorted_NoDup bcmp bcmp_ok), encode_image_sorted; assumption. Qed.

(** ** 5. Opening the image of a reachable state *)
Lemma meta_beq_eq a b : meta_beq a b = true -> a = b.
Proof.
  destruct a as [v n h], b as [v' n' h']. unfold meta_beq. cbn [ver nonce hs].
  rewrite !andb_true_iff, !Z.eqb_eq, beq_true. intros [[-> ->] ->]. reflexivity.
Qed.

Lemma node_beq_eq a : forall b, node_beq a b = true -> a = b.
Proof.
  induction a as [k v m|k h s m l IHl r IHr]; intros [k' v' m'|k' h' s' m' l' r']; cbn [node_beq];
    try discriminate.
  - rewrite !andb_true_iff, !beq_true. intros [[-> ->] M]. rewrite (meta_beq_eq _ _ M). reflexivity.
  - rewrite !andb_true_iff, !Z.eqb_eq, beq_true. intros [[[[[-> ->] ->] M] L] R].
    rewrite (meta_beq_eq _ _ M), (IHl _ L), (IHr _ R). reflexivity.
Qed.

Section OpenFacts.
  Variable H : bytes -> bytes.

  Definition loads (st : list ((Z * Z) * entry)) (vs : list Z) : list (Z * pres (option node)) :=
    map (fun v => (v, load_version H (S (length st)) st v)) vs.

  (** [readable] says exactly that every version of the forest loads back to its tree *)
  Lemma readable_loads (st : list ((Z * Z) * entry)) (f : forest_t) :
    readable H st f = true -> loads st (map fst f) = map (fun p => (fst p, POk (snd p))) f.
  Proof.
    unfold readable, loads. induction f as [|[v ro] f IH]; [reflexivity|].
    cbn [forallb map fst snd]. rewrite andb_true_iff. intros [A B]. rewrite (IH B). f_equal.
    destruct (load_version H (S (length st)) st v) as [[t|]| | |]; destruct ro as [t'|];
      try discriminate; [|reflexivity].
    rewrite (node_beq_eq _ _ A). reflexivity.
  Qed.

  Lemma all_loaded_ok (f : forest_t) :
    all_loaded (map (fun p => (fst p, POk (snd p))) f) = DbOk f.
  Proof.
    induction f as [|[v ro] f IH]; [reflexivity|]. cbn [map all_loaded fst snd]. rewrite IH. reflexivity.
  Qed.

  Lemma first_version_forest s : first_version s = first_of_forest (forest s).
  Proof. rewrite first_of_forest_eq. reflexivity. Qed.

  Lemma rekey_ok_below r (f : forest_t) : rekey_ok r f -> forall x, In x r -> x < first_of_forest f.
  Proof. intros [_ A] x Ix. apply (A x Ix). Qed.

  (** the check of Options.InitialVersion passes on the retained range of a state *)
  Lemma initial_check_state s :
    store_ok H s -> (0 <? first_version s) && (first_version s <? init_ver s) = false.
  Proof.
    intros SO. pose proof (contig_forest_ok s (so_contig H s SO)) as OK.
    destruct (nil_or_not (forest s)) as [E|NE].
    - unfold first_version. rewrite E. reflexivity.
    - destruct (forest_ok_range (forest s) (init_ver s) OK NE) as (_ & A & _).
      change (first_of (forest s)) with (first_version s) in A. lia.
  Qed.

  (** entry level: what a new tree object sees in the physical store of a state *)
  Theorem open_store_state s r :
    store_ok H s -> rekey_ok r (forest s) -> stale_free_rel r (forest s) ->
    latest_version s < 2 ^ 63 ->
    open_store H (init_ver s) (phys_of r (forest s)) =
      DbOk (map (fun p => (fst p, POk (snd p))) (forest s)).
  Proof.
    intros SO RK SF B.
    assert (RB : forall x, In x r -> x < first_version s).
    { intros x Ix. rewrite first_version_forest. exact (rekey_ok_below r _ RK x Ix). }
    destruct (discover_state_rel H s r SO B SF RB) as [DR _].
    unfold open_store. rewrite DR, (initial_check_state s SO).
    pose proof (contig_forest_ok s (so_contig H s SO)) as OK.
    destruct (nil_or_not (forest s)) as [E|NE].
    - unfold latest_version. rewrite E. reflexivity.
    - destruct (forest_ok_range (forest s) (init_ver s) OK NE) as (R1 & _ & R).
      change (first_of (forest s)) with (first_version s) in *.
      change (latest_of (forest s)) with (latest_version s) in *.
      destruct (latest_version s =? 0) eqn:C; [lia|].
      rewrite versions_from_to_zrange, <- R.
      f_equal. exact (readable_loads _ _ (phys_readable H s r SO RK)).
  Qed.
End OpenFacts.

(** ** 6. Without [stale_free_rel]: every retained version still loads back exactly; only the
    discovered range may start earlier (finding C14-stale-root-key) *)
Lemma filter_zseq_all a : forall n m, a <= m -> filter (fun v => a <=? v) (zseq m n) = zseq m n.
Proof.
  induction n as [|n IH]; intros m L; [reflexivity|]. cbn [zseq filter].
  destruct (a <=? m) eqn:C; [|lia]. rewrite IH by lia. reflexivity.
Qed.

Lemma filter_zseq_ge a : forall n m, m <= a ->
  filter (fun v => a <=? v) (zseq m n) = zseq a (n - Z.to_nat (a - m)).
Proof.
  induction n as [|n IH]; intros m L; [reflexivity|]. cbn [zseq filter].
  destruct (a <=? m) eqn:C.
  - assert (a = m) by lia. subst m. rewrite filter_zseq_all by lia.
    replace (S n - Z.to_nat (a - a))%nat with (S n) by lia. reflexivity.
  - rewrite IH by lia. f_equal. lia.
Qed.

Lemma filter_zrange_ge m a b : m <= a -> a <= b -> filter (fun v => a <=? v) (zrange m b) = zrange a b.
Proof. intros L1 L2. unfold zrange. rewrite filter_zseq_ge by exact L1. f_equal. lia. Qed.

Section OpenAny.
  Variable H : bytes -> bytes.

  Lemma filter_loads (st : list ((Z * Z) * entry)) a vs :
    filter (fun p => a <=? fst p) (loads H st vs) = loads H st (filter (fun v => a <=? v) vs).
  Proof.
    unfold loads. induction vs as [|v vs IH]; [reflexivity|]. cbn [map filter fst].
    destruct (a <=? v); cbn [map]; rewrite IH; reflexivity.
  Qed.

  Theorem open_store_state_any s r iv' :
    store_ok H s -> rekey_ok r (forest s) -> latest_version s < 2 ^ 63 ->
    exists m lst,
      0 <= m <= first_version s /\
      (m = 0 \/ has_version (phys_of r (forest s)) (m - 1) = false) /\
      open_store H iv' (phys_of r (forest s)) =
        (if (0 <? m) && (m <? iv') then DbInitial m else DbOk lst) /\
      filter (fun p => first_version s <=? fst p) lst =
        map (fun p => (fst p, POk (snd p))) (forest s) /\
      (forall p, In p lst -> m <= fst p <= latest_version s).
  Proof.
    intros SO RK B. destruct (store_ok_forest H s SO) as (FI & ND & OK & _ & _).
    destruct (nil_or_not (forest s)) as [E|NE].
    - exists 0, []. unfold first_version, latest_version. rewrite E.
      split; [lia|]. split; [left; reflexivity|]. split; [reflexivity|]. split; [reflexivity|].
      intros p [].
    - assert (B' : latest_of_forest (forest s) < 2 ^ 63) by exact B.
      destruct (discover_first_lower r (forest s) (init_ver s) NE FI OK B' (rekey_ok_below r _ RK))
        as (m & DF & Rm & _ & Bd).
      pose proof (discover_latest_expected r (forest s) (init_ver s) FI OK NE) as DL.
      destruct (forest_ok_range (forest s) (init_ver s) OK NE) as (R1 & _ & R).
      rewrite <- first_version_forest in Rm.
      change (first_of (forest s)) with (first_version s) in *.
      change (latest_of (forest s)) with (latest_version s) in *.
      change (latest_of_forest (forest s)) with (latest_version s) in *.
      set (st := phys_of r (forest s)) in *.
      exists m, (loads H st (zrange m (latest_version s))).
      split; [exact Rm|]. split; [exact Bd|]. split; [|split].
      + unfold open_store, discovered_range. rewrite DF, DL.
        destruct ((0 <? m) && (m <? iv')); [reflexivity|].
        destruct (latest_version s =? 0) eqn:C; [lia|].
        rewrite versions_from_to_zrange. reflexivity.
      + rewrite filter_loads, filter_zrange_ge by lia. rewrite <- R.
        exact (readable_loads H _ _ (phys_readable H s r SO RK)).
      + intros p Ip. unfold loads in Ip. apply in_map_iff in Ip. destruct Ip as (v & <- & Iv).
        cbn [fst]. apply In_zrange in Iv. exact Iv.
  Qed.
End OpenAny.

(** ** 7. The guards, checked on the trees instead of on the store *)
Fixpoint tree_image_okb (t : node) : bool :=
  (0 <=? ver (nmeta t)) && (ver (nmeta t) <? 2 ^ 63) && uint32b (nonce (nmeta t)) &&
  match t with
  | Leaf k v _ => short_b k && short_b v
  | Inner k h s m l r =>
      (1 <=? h) && (h <=? 127) && int64b s && short_b k && (length (hs m) =? 32)%nat &&
      tree_image_okb l && tree_image_okb r
  end.

Definition forest_image_okb (f : forest_t) : bool :=
  forallb (fun p => (0 <=? fst p) && (fst p <? 2 ^ 63) &&
                    match snd p with Some t => tree_image_okb t | None => true end) f.

Lemma tree_image_okb_subtree u t : subtree u t -> tree_image_okb t = true -> tree_image_okb u = true.
Proof.
  induction 1 as [t|u k h s m l r _ IH|u k h s m l r _ IH]; intros B; [exact B| |];
    cbn [tree_image_okb] in B; rewrite !andb_true_iff in B; apply IH; tauto.
Qed.

Lemma tree_image_okb_key t : tree_image_okb t = true -> skey_okb (node_key t) = true.
Proof.
  intros B. unfold skey_okb, node_key. cbn [fst snd].
  destruct t; cbn [tree_image_okb nmeta] in *; rewrite !andb_true_iff in B; rewrite !andb_true_iff; tauto.
Qed.

Lemma tree_image_okb_snode t : tree_image_okb t = true -> snode_okb (snode_of t) = true.
Proof.
  intros B. destruct t as [k v m|k h s m l r]; cbn [tree_image_okb snode_of snode_okb nmeta] in *;
    rewrite !andb_true_iff in B; rewrite !andb_true_iff.
  - tauto.
  - destruct B as [_ ((((((B1 & B2) & B3) & B4) & B5) & Bl) & Br)].
    pose proof (skey_ref _ (tree_image_okb_key l Bl)). pose proof (skey_ref _ (tree_image_okb_key r Br)).
    tauto.
Qed.

Lemma skey_okb_rkk r p : skey_okb (fst p) = true -> skey_okb (fst (rkk r p)) = true.
Proof.
  intros B. unfold rkk. destruct (snd p); try exact B.
  destruct ((snd (fst p) =? 1) && existsb (Z.eqb (fst (fst p))) r); [|exact B].
  cbn [fst]. apply skey_okb_in in B. apply skey_okb_in. cbn [fst snd]. unfold in_uint32 in *. lia.
Qed.

Theorem forest_image_ok_store (r : list Z) (f : forest_t) :
  forest_image_okb f = true -> store_okb (phys_of r f) = true.
Proof.
  intros B. unfold forest_image_okb in B. rewrite forallb_forall in B.
  unfold store_okb. apply forallb_forall. intros [k e] Ip. cbn [fst snd].
  unfold phys_of in Ip. apply rekey_In in Ip. destruct Ip as (k0 & I0 & Q).
  assert (X : skey_okb k0 = true /\ entry_okb e = true).
  { apply expected_In_reach, reach_In in I0.
    destruct I0 as [(u & (v & t & It & S) & -> & ->)|(v & ro & Iv & E)].
    - specialize (B _ It). cbn [fst snd] in B. rewrite !andb_true_iff in B. destruct B as [_ Bt].
      pose proof (tree_image_okb_subtree u t S Bt) as Bu.
      split; [apply tree_image_okb_key, Bu|apply tree_image_okb_snode, Bu].
    - specialize (B _ Iv). cbn [fst snd] in B. rewrite !andb_true_iff in B. destruct B as [[B1 B2] Bt].
      destruct (root_entry_Some _ _ _ _ E) as [-> D]. split.
      + unfold skey_okb. cbn [fst snd]. rewrite B1, B2. reflexivity.
      + destruct D as [[_ ->]|(t & -> & -> & _)]; [reflexivity|].
        cbn [entry_okb]. apply skey_ref, tree_image_okb_key, Bt. }
  destruct X as [X1 X2]. rewrite X2, andb_true_r.
  pose proof (skey_okb_rkk r (k0, e) X1) as Y. rewrite <- Q in Y. exact Y.
Qed.

(** ** 8. THE END-TO-END THEOREM: bytes in, forest out *)
Section EndToEnd.
  Variable H : bytes -> bytes.

  Lemma open_image_encode iv (st : list ((Z * Z) * entry)) fi l :
    image_ok st fi l = true -> open_image H iv (encode_image st fi l) = open_store H iv st.
  Proof. intros OK. unfold open_image. rewrite (decode_encode_image st fi l OK). reflexivity. Qed.

  Lemma open_forest_of iv img (f : forest_t) :
    open_image H iv img = DbOk (map (fun p => (fst p, POk (snd p))) f) -> open_forest H iv img = DbOk f.
  Proof. intros E. unfold open_forest. rewrite E. apply all_loaded_ok. Qed.

  Lemma init_ver_run ops : forall s, init_ver (fst (run H s ops)) = init_ver s.
  Proof.
    induction ops as [|o ops IH]; intros s; [reflexivity|].
    rewrite (run_cons H s o ops). cbn [fst]. rewrite IH. apply init_ver_step.
  Qed.

  (** state level *)
  Theorem reopen_state s r fi l :
    store_ok H s -> rekey_ok r (forest s) -> stale_free_rel r (forest s) ->
    latest_version s < 2 ^ 63 -> image_ok (phys_of r (forest s)) fi l = true ->
    let img := encode_image (phys_of r (forest s)) fi l in
    decode_image img = Some (phys_of r (forest s), fi, l) /\
    open_image H (init_ver s) img = DbOk (map (fun p => (fst p, POk (snd p))) (forest s)) /\
    open_forest H (init_ver s) img = DbOk (forest s).
  Proof.
    intros SO RK SF B OK img.
    assert (E : open_image H (init_ver s) img = DbOk (map (fun p => (fst p, POk (snd p))) (forest s))).
    { unfold img. rewrite (open_image_encode _ _ _ _ OK). apply open_store_state; assumption. }
    split; [apply decode_encode_image, OK|]. split; [exact E|apply open_forest_of, E].
  Qed.

  (** for every reachable in-contract state: a new tree object opened on the BYTES of the physical
      database finds exactly the retained versions and loads each of them back node for node
      (keys, values, heights, sizes, versions, nonces, hashes), and no other version *)
  Theorem reopen_reads_back_the_model iv b ops r fi l :
    init_ok iv b -> run_ok H (init_state iv b) ops ->
    let s := fst (run H (init_state iv b) ops) in
    rekey_ok r (forest s) -> stale_free_rel r (forest s) -> latest_version s < 2 ^ 63 ->
    image_ok (phys_of r (forest s)) fi l = true ->
    let img := encode_image (phys_of r (forest s)) fi l in
    decode_image img = Some (phys_of r (forest s), fi, l) /\
    open_image H iv img = DbOk (map (fun p => (fst p, POk (snd p))) (forest s)) /\
    open_forest H iv img = DbOk (forest s).
  Proof.
    intros IO R s RK SF B OK.
    assert (SO : store_ok H s) by (apply store_ok_reachable; assumption).
    assert (Ei : init_ver s = iv) by (unfold s; rewrite init_ver_run; reflexivity).
    rewrite <- Ei. apply reopen_state; assumption.
  Qed.

  (** the same with the guards checked on the model state (trees, index, label) *)
  Corollary reopen_reads_back_the_model_forest_guard iv b ops r fi l :
    init_ok iv b -> run_ok H (init_state iv b) ops ->
    let s := fst (run H (init_state iv b) ops) in
    rekey_ok r (forest s) -> stale_free_rel r (forest s) -> latest_version s < 2 ^ 63 ->
    forest_image_okb (forest s) = true -> fast_okb fi = true -> label_okb l = true ->
    open_forest H iv (encode_image (phys_of r (forest s)) fi l) = DbOk (forest s).
  Proof.
    intros IO R s RK SF B Of Oi Ol.
    assert (OK : image_ok (phys_of r (forest s)) fi l = true).
    { unfold image_ok. rewrite (forest_image_ok_store r _ Of), Oi, Ol. reflexivity. }
    destruct (reopen_reads_back_the_model iv b ops r fi l IO R RK SF B OK) as (_ & _ & E). exact E.
  Qed.

  (** WITHOUT [stale_free_rel] (finding C14-stale-root-key): the discovered range may start at an
      earlier [m] (a root key of a deleted version that survives as a child of a retained tree);
      every RETAINED version still loads back exactly, and nothing else at or above the first
      retained version is reported.  ([iv'] is the InitialVersion option of the new object: the
      earlier [m] is what LoadVersion compares it with.) *)
  Theorem reopen_retained_state s r fi l iv' :
    store_ok H s -> rekey_ok r (forest s) -> latest_version s < 2 ^ 63 ->
    image_ok (phys_of r (forest s)) fi l = true ->
    exists m lst,
      0 <= m <= first_version s /\
      (m = 0 \/ has_version (phys_of r (forest s)) (m - 1) = false) /\
      open_image H iv' (encode_image (phys_of r (forest s)) fi l) =
        (if (0 <? m) && (m <? iv') then DbInitial m else DbOk lst) /\
      filter (fun p => first_version s <=? fst p) lst =
        map (fun p => (fst p, POk (snd p))) (forest s) /\
      (forall p, In p lst -> m <= fst p <= latest_version s).
  Proof.
    intros SO RK B OK. rewrite (open_image_encode _ _ _ _ OK).
    apply open_store_state_any; assumption.
  Qed.

  Theorem reopen_retained_versions iv b ops r fi l iv' :
    init_ok iv b -> run_ok H (init_state iv b) ops ->
    let s := fst (run H (init_state iv b) ops) in
    rekey_ok r (forest s) -> latest_version s < 2 ^ 63 ->
    image_ok (phys_of r (forest s)) fi l = true ->
    exists m lst,
      0 <= m <= first_version s /\
      (m = 0 \/ has_version (phys_of r (forest s)) (m - 1) = false) /\
      open_image H iv' (encode_image (phys_of r (forest s)) fi l) =
        (if (0 <? m) && (m <? iv') then DbInitial m else DbOk lst) /\
      filter (fun p => first_version s <=? fst p) lst =
        map (fun p => (fst p, POk (snd p))) (forest s) /\
      (forall p, In p lst -> m <= fst p <= latest_version s).
  Proof.
    intros IO R s RK B OK. apply reopen_retained_state; try assumption.
    apply store_ok_reachable; assumption.
  Qed.
End EndToEnd.


(** ** 10. Along the PHYSICAL history: the store is not [phys_of] by definition but what the
    commits, rollbacks and physical deletions (any flush schedule, either flush mode) leave on disk
    ([PruneAlgoFacts11.phys_trace]); at every moment a new tree object on its bytes reads the model
    back *)
Section AlongHistory.
  Variable H : bytes -> bytes.
  Hypothesis Hlen : forall x, length (H x) = 32%nat.

  Lemma trace_states_ok fast ops : forall s st orcs,
    store_ok H s -> run_ok H s ops ->
    Forall (fun p => store_ok H (fst p) /\ init_ver (fst p) = init_ver s)
           (phys_trace H fast s st ops orcs).
  Proof.
    induction ops as [|o ops IH]; intros s st orcs SO R; cbn [phys_trace].
    - constructor; [split; [exact SO|reflexivity]|constructor].
    - destruct R as [IC R]. constructor; [split; [exact SO|reflexivity]|].
      pose proof (IH (fst (step H s o)) (phys_step H fast s st o (hd ([], false) orcs)) (tl orcs)
                     (store_ok_step H s o SO IC) R) as F.
      rewrite (init_ver_step H s o) in F. exact F.
  Qed.

  Theorem reopen_along_physical_history fast iv b ops orcs :
    init_ok iv b -> run_ok H (init_state iv b) ops -> bounded_run H (init_state iv b) ops ->
    Forall (fun p : mstate * list ((Z * Z) * entry) =>
              forall fi l,
                latest_version (fst p) < 2 ^ 63 ->
                (forall r, snd p = phys_of r (forest (fst p)) -> stale_free_rel r (forest (fst p))) ->
                image_ok (snd p) fi l = true ->
                open_forest H iv (encode_image (snd p) fi l) = DbOk (forest (fst p)))
           (phys_trace H fast (init_state iv b) [] ops orcs)
    \/ collision H.
  Proof.
    intros IO R BR.
    destruct (phys_run_reachable H Hlen fast iv b ops orcs IO R BR) as [F|C]; [left|right; exact C].
    pose proof (trace_states_ok fast ops (init_state iv b) [] orcs (store_ok_init H iv b IO) R) as G.
    rewrite Forall_forall in *. intros [s st] Ip fi l B SF OK. cbn [fst snd] in *.
    destruct (F _ Ip) as (r & E & RK). destruct (G _ Ip) as [SO Ei]. cbn [fst snd] in *.
    cbn [init_state init_ver] in Ei. subst st.
    destruct (reopen_state H s r fi l SO RK (SF r eq_refl) B OK) as (_ & _ & X).
    rewrite Ei in X. exact X.
  Qed.
End AlongHistory.

(** pairs with a foreign prefix (legacy 'n' / 'o' / 'r' entries, anything else) change nothing *)
Lemma decode_image_ignores k v img :
  classify_key k = IKOther -> decode_image ((k, v) :: img) = decode_image img.
Proof.
  intros C. cbn [decode_image]. destruct (decode_image img) as [[[st fi] l]|]; [|reflexivity].
  unfold decode_pair. rewrite C. reflexivity.
Qed.

(** ** 9. Examples (SHA-256)

    A history driven through the fast-index life cycle (FastLife): open with the index enabled;
    {a,b} saved as version 1; version 2 saves the same tree (its root entry refers to (1,1));
    {a,b,c} as version 3; {b,c} as version 4 (root = the old inner node (3,2): a root reference);
    DeleteVersionsTo(1) then re-keys the shared root (1,1) to (1,0).  The persisted index holds
    b (last written in version 1) and c (version 3); the label is "1.1.0-4". *)
Definition ex_a : bytes := [97%N].
Definition ex_b : bytes := [98%N].
Definition ex_c : bytes := [99%N].
Definition ex_fhist : list fop :=
  [FOpen false; FSet ex_a ex_a; FSet ex_b ex_b; FSave; FSave; FSet ex_c ex_c; FSave;
   FRemove ex_a; FSave; FPrune 1].
Definition ex_hist : list op :=
  [OReopen; OSet ex_a ex_a; OSet ex_b ex_b; OSave; OSave; OSet ex_c ex_c; OSave;
   ORemove ex_a; OSave; OPrune 1].
Definition ex_fs : fstate := fst (frun sha256 (finit 0 false) ex_fhist).
Definition ex_s : mstate := fst (run sha256 (init_state 0 false) ex_hist).
Definition ex_f : forest_t := forest ex_s.
Definition ex_st : list ((Z * Z) * entry) := phys_of [1] ex_f.
Definition ex_img : list (bytes * bytes) := encode_image ex_st (fidx ex_fs) (dlabel ex_fs).

(** the database: the logical state of the life-cycle run is the MTree run; the physical deletion
    produces exactly [phys_of [1]] of the remaining forest *)
Example ex_database :
  ms ex_fs = ex_s /\
  run_okb sha256 (init_state 0 false) ex_hist = true /\
  (let f0 := forest (fst (run sha256 (init_state 0 false) (removelast ex_hist))) in
   exists w fl, prune_forest sha256 false [] f0 [] 1 = POk (ex_st, w, fl)) /\
  map fst ex_f = [2; 3; 4] /\
  map fst ex_st = [(1, 0); (1, 2); (1, 3); (2, 1); (3, 1); (3, 2); (3, 3); (4, 1)] /\
  rekeyed ex_st = [1] /\
  mfind kcmp (2, 1) ex_st = Some (ERef (1, 1)) /\ mfind kcmp (4, 1) ex_st = Some (ERef (3, 2)) /\
  fidx ex_fs = [(ex_b, (1, ex_b)); (ex_c, (3, ex_c))] /\ dlabel ex_fs = Some 4 /\
  image_ok ex_st (fidx ex_fs) (dlabel ex_fs) = true /\
  forest_image_okb ex_f = true.
Proof.
  split; [vm_compute; reflexivity|]. split; [vm_compute; reflexivity|].
  split; [cbv zeta; eexists; eexists; vm_compute; reflexivity|].
  vm_compute. repeat split; reflexivity.
Qed.

(** the image: 2 fast entries, the label, 8 node entries, in db-key order *)
Example ex_image :
  map (fun p => (fst p, length (snd p))) ex_img =
    [ ([102; 98]%N, 3%nat); ([102; 99]%N, 3%nat);
      ([109; 115; 116; 111; 114; 97; 103; 101; 95; 118; 101; 114; 115; 105; 111; 110]%N, 7%nat);
      ([115; 0; 0; 0; 0; 0; 0; 0; 1; 0; 0; 0; 0]%N, 42%nat);
      ([115; 0; 0; 0; 0; 0; 0; 0; 1; 0; 0; 0; 2]%N, 6%nat);
      ([115; 0; 0; 0; 0; 0; 0; 0; 1; 0; 0; 0; 3]%N, 6%nat);
      ([115; 0; 0; 0; 0; 0; 0; 0; 2; 0; 0; 0; 1]%N, 13%nat);
      ([115; 0; 0; 0; 0; 0; 0; 0; 3; 0; 0; 0; 1]%N, 42%nat);
      ([115; 0; 0; 0; 0; 0; 0; 0; 3; 0; 0; 0; 2]%N, 42%nat);
      ([115; 0; 0; 0; 0; 0; 0; 0; 3; 0; 0; 0; 3]%N, 6%nat);
      ([115; 0; 0; 0; 0; 0; 0; 0; 4; 0; 0; 0; 1]%N, 13%nat) ] /\
  (* fast node of b: version 1, value "b" *)
  nth 0 ex_img ([], []) = ([102; 98]%N, [2; 1; 98]%N) /\
  (* the label "1.1.0-4" *)
  snd (nth 2 ex_img ([], [])) = [49; 46; 49; 46; 48; 45; 52]%N /\
  (* the re-keyed root under (1,0): inner node, height 1, size 2, key "b", hash, children (1,2) (1,3) *)
  snd (nth 3 ex_img ([], [])) =
    ([2; 4; 1; 98; 32]%N ++ hs (nmeta (match lookup 2 ex_f with Some (Some t) => t | _ => Leaf [] [] new_meta end))
     ++ [0; 2; 4; 2; 6]%N) /\
  (* leaf (1,2): height 0, size 1, key "a", value "a" *)
  snd (nth 4 ex_img ([], [])) = [0; 2; 1; 97; 1; 97]%N /\
  (* root entry of version 2: a reference to (1,1) - the key that has been re-keyed to (1,0) *)
  snd (nth 6 ex_img ([], [])) = [115; 0; 0; 0; 0; 0; 0; 0; 1; 0; 0; 0; 1]%N /\
  (* root entry of version 4: a reference to (3,2) *)
  snd (nth 10 ex_img ([], [])) = [115; 0; 0; 0; 0; 0; 0; 0; 3; 0; 0; 0; 2]%N /\
  image_unknown ex_img = 0%nat.
Proof. vm_compute. repeat split; reflexivity. Qed.

Example ex_image_sorted : msorted bcmp ex_img.
Proof.
  apply encode_image_sorted.
  - vm_compute. reflexivity.
  - vm_compute. repeat split; repeat constructor.
  - vm_compute. repeat split; repeat constructor.
Qed.

(** its decoding: the database, entry for entry *)
Example ex_decode : decode_image ex_img = Some (ex_st, fidx ex_fs, dlabel ex_fs).
Proof. vm_compute. reflexivity. Qed.

(** a new tree object on these bytes: versions 2, 3, 4, each equal to the model's tree *)
Example ex_open :
  open_image sha256 0 ex_img = DbOk (map (fun p => (fst p, POk (snd p))) ex_f) /\
  open_forest sha256 0 ex_img = DbOk ex_f /\
  discovered_range ex_st = Some (2, 4).
Proof. vm_compute. repeat split; reflexivity. Qed.

(** the same from the theorem: its hypotheses hold on this history *)
Example ex_open_thm : open_forest sha256 0 ex_img = DbOk ex_f.
Proof.
  apply (reopen_reads_back_the_model_forest_guard sha256 0 false ex_hist [1] (fidx ex_fs) (dlabel ex_fs)).
  - unfold init_ok. lia.
  - apply run_okb_iff. vm_compute. reflexivity.
  - apply rekey_okb_sound. vm_compute. reflexivity.
  - apply stale_free_relb_iff. vm_compute. reflexivity.
  - vm_compute. reflexivity.
  - vm_compute. reflexivity.
  - vm_compute. reflexivity.
  - vm_compute. reflexivity.
Qed.

(** damaged or foreign bytes: a truncated node body and a label without a version do not
    decode; a legacy entry is ignored *)
Example ex_damaged :
  decode_image [(node_db_key (1, 2), [0; 2; 1; 97; 1]%N)] = None /\
  open_image sha256 0 [(node_db_key (1, 2), [0; 2; 1; 97; 1]%N)] = DbBadImage /\
  decode_image [(db_meta_key, fast_storage_version)] = None /\
  decode_image [(db_meta_key, default_storage_version)] = Some ([], [], None) /\
  decode_image ((db_legacy_root_key 1, [1; 2; 3]%N) :: ex_img) = decode_image ex_img /\
  image_unknown ((db_legacy_root_key 1, [1; 2; 3]%N) :: ex_img) = 1%nat.
Proof. vm_compute. repeat split; reflexivity. Qed.

(** the finding C14-stale-root-key seen from the bytes (history of DiscoverFacts.stale_hist:
    version 1 = one leaf, version 2 adds a key, DeleteVersionsTo(1)): the new object reports the
    deleted version 1 - it even loads: the old leaf - and version 2 loads back exactly *)
Example ex_stale :
  let s := fst (run sha256 (init_state 0 false) stale_hist) in
  let img := encode_image (expected_store (forest s)) [] None in
  map fst (forest s) = [2] /\
  match open_image sha256 0 img with
  | DbOk lst =>
      map fst lst = [1; 2] /\
      filter (fun p => first_version s <=? fst p) lst = map (fun p => (fst p, POk (snd p))) (forest s) /\
      nth 0 lst (0, PErr) =
        (1, POk (Some (Leaf stale_ka stale_ka (Meta 1 1 (sha256 (leaf_preimage sha256 1 stale_ka stale_ka))))))
  | _ => False
  end /\
  open_forest sha256 0 img <> DbOk (forest s).
Proof. vm_compute. repeat split; try reflexivity. discriminate. Qed.

Print Assumptions decode_encode_image.
Print Assumptions encode_image_sorted.
Print Assumptions encode_image_injective.
Print Assumptions forest_image_ok_store.
Print Assumptions reopen_state.
Print Assumptions reopen_reads_back_the_model.
Print Assumptions reopen_reads_back_the_model_forest_guard.
Print Assumptions reopen_retained_versions.
Print Assumptions reopen_along_physical_history.
