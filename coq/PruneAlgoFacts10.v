(** PruneAlgoFacts10: the physical DeleteVersionsTo (PruneAlgo.v: the hash-directed double
    traversal, the root key cache, the (v,1) -> (v,0) re-keying, the write batch with an arbitrary
    flush schedule) refines the specification of Store.v.

    Main results (last section): for every state satisfying [store_ok] (in particular every state
    reachable within the usage contract), every list [r] of re-keyed versions with [rekey_ok],
    EVERY flush schedule, either flush mode, and every [n] below the latest version:
    - [prune_refines]: the call succeeds, the final store is [phys_of (rekeyed st') f'] for the
      remaining forest [f'], [rekey_ok] holds again, and [norm_store st' = expected_store f'];
    - [prune_safe_at_every_moment]: every state the disk goes through reads back every retained
      version node for node;
    - [prune_schedule_independent]: the final store does not depend on the schedule;
    or the hash function has a collision (two explicit different inputs with the same hash).

    Extra premises, stated explicitly: [H] returns 32 bytes, and the numbers stored in the trees
    fit Go's int64 / key lengths are below 2^63 ([forest_bounds]).  They are used ONLY to turn a
    pair of look-alike nodes into a collision; the theorems [*_or_confusion] do without them.

    Proof structure: PruneAlgoFacts1 (order of maximal common subtrees of two BSTs),
    2 (stores by lookups, safe disks), 3 (batch invariant, single writes), 4 (iterators, cache,
    the traversal loop), 5 (deleteVersion), 6 (the loop over versions), 7 (final store, reading
    back), 8 (forest-level theorems), 9 (look-alike nodes give collisions). *)
From Coq Require Import Lia Sorted.
From IAVL Require Import Bytes Varint Sha256 Tree VMap TreeFacts MTree MTreeFacts HashFacts
  VersionFacts Ics23Facts Store StoreFacts PruneAlgo PruneAlgoFacts1 PruneAlgoFacts2 PruneAlgoFacts3
  PruneAlgoFacts4 PruneAlgoFacts5 PruneAlgoFacts6 PruneAlgoFacts7 PruneAlgoFacts8 PruneAlgoFacts9.
Local Open Scope Z_scope.

(** ** What [store_ok] gives *)
Definition forest_bounds (f : forest_t) : Prop := forall w t, In (w, Some t) f -> tbounds t.

Lemma store_ok_forest H s :
  store_ok H s ->
  forest_inv (forest s) /\ NoDup (map fst (forest s)) /\ forest_ok (forest s) (init_ver s) /\
  (forall w t, In (w, Some t) (forest s) -> wf t) /\
  (forall w t, In (w, Some t) (forest s) -> hash_ok H t /\ all_persisted t).
Proof.
  intros [SI HI C FI B]. split; [exact FI|]. split; [apply (inv_nodup s SI)|].
  split; [apply contig_forest_ok, C|]. split.
  - intros w t I. pose proof (inv_trees s SI) as F. rewrite Forall_forall in F.
    specialize (F _ I). cbn [snd oinv] in F. tauto.
  - intros w t I. pose proof (hi_forest H s HI) as F. rewrite Forall_forall in F.
    exact (F _ I).
Qed.

Lemma leaf_hashes_of H f :
  (forall w t, In (w, Some t) f -> hash_ok H t /\ all_persisted t) -> leaf_hashes H f.
Proof.
  intros HO u (w & t & I & S). destruct (HO w t I) as [Ho Pa].
  apply fhash_stored; [exact (hash_ok_subtree H u t S Ho)|exact (all_persisted_subtree u t S Pa)].
Qed.

Lemma confusion_to_collision H f :
  (forall x, length (H x) = 32%nat) ->
  (forall w t, In (w, Some t) f -> wf t) ->
  (forall w t, In (w, Some t) f -> hash_ok H t /\ all_persisted t) ->
  forest_bounds f -> confusion H f -> collision H.
Proof.
  intros Hlen WF HO FB (w & t & u & c & I & Su & Sc & N & E).
  destruct (HO w t I) as [Ho Pa].
  exact (confusion_collision H Hlen t u c (WF w t I) Ho Pa (FB w t I) Su Sc N E).
Qed.

(** ** The empty forest (nothing to delete) *)
Lemma versions_nonpos first to : to + 1 - first <= 0 -> versions_from_to first to = [].
Proof. intros L. unfold versions_from_to. replace (Z.to_nat (to + 1 - first)) with 0%nat by lia. reflexivity. Qed.

Lemma prune_forest_empty H eff r sched n :
  n < 0 -> prune_forest H eff r [] sched n = POk ([], [], []).
Proof.
  intros L. unfold prune_forest, prune_phys. cbn [latest_of_forest first_of_forest fold_left].
  replace (0 <=? n) with false by (symmetry; apply Z.leb_gt; exact L).
  cbv zeta. rewrite versions_nonpos by lia. cbn [delete_range]. destruct eff; reflexivity.
Qed.

Lemma prune_forest_disks_empty H eff r sched n :
  n < 0 -> prune_forest_disks H eff r [] sched n = POk [[]; []].
Proof.
  intros L. unfold prune_forest_disks, prune_phys_disks. cbn [latest_of_forest first_of_forest fold_left].
  replace (0 <=? n) with false by (symmetry; apply Z.leb_gt; exact L).
  cbv zeta. rewrite versions_nonpos by lia. reflexivity.
Qed.

(** ** Forest level, without hypotheses on the hash function *)
Section Forest.
  Variable H : bytes -> bytes.
  Variable f : forest_t.
  Variable iv : Z.
  Hypothesis FI : forest_inv f.
  Hypothesis ND : NoDup (map fst f).
  Hypothesis OK : forest_ok f iv.
  Hypothesis WF : forall w t, In (w, Some t) f -> wf t.

  Theorem prune_forest_or_confusion r sched eff n :
    rekey_ok r f -> n < latest_of_forest f ->
    (exists st' log fl,
       prune_forest H eff r f sched n = POk (st', log, fl) /\
       let f' := filter (fun p => n <? fst p) f in
       st' = phys_of (rekeyed st') f' /\ rekey_ok (rekeyed st') f' /\
       norm_store st' = expected_store f')
    \/ confusion H f.
  Proof.
    intros RK Ln. destruct (confusion_dec H f) as [NC|C]; [left|right; exact C].
    destruct (nil_or_not f) as [->|NE].
    - cbn in Ln. rewrite (prune_forest_empty H eff r sched n Ln). eexists _, _, _.
      split; [reflexivity|]. cbn. split; [reflexivity|]. split; [|reflexivity].
      split; [constructor|intros w []].
    - exact (prune_forest_nc H f iv FI ND OK WF NC r sched eff n NE RK Ln).
  Qed.

  Theorem prune_forest_disks_or_confusion r sched eff n :
    rekey_ok r f -> n < latest_of_forest f -> leaf_hashes H f ->
    (exists disks,
       prune_forest_disks H eff r f sched n = POk disks /\
       Forall (fun d => readable H d (filter (fun p => n <? fst p) f) = true) disks)
    \/ confusion H f.
  Proof.
    intros RK Ln LH. destruct (confusion_dec H f) as [NC|C]; [left|right; exact C].
    destruct (nil_or_not f) as [->|NE].
    - cbn in Ln. rewrite (prune_forest_disks_empty H eff r sched n Ln). eexists.
      split; [reflexivity|]. repeat constructor.
    - exact (prune_forest_disks_nc H f iv FI ND OK WF NC r sched eff n NE RK Ln LH).
  Qed.

  Theorem prune_forest_schedule_or_confusion r sched1 eff1 sched2 eff2 n st1 log1 fl1 st2 log2 fl2 :
    rekey_ok r f -> n < latest_of_forest f ->
    prune_forest H eff1 r f sched1 n = POk (st1, log1, fl1) ->
    prune_forest H eff2 r f sched2 n = POk (st2, log2, fl2) ->
    st1 = st2 \/ confusion H f.
  Proof.
    intros RK Ln E1 E2. destruct (confusion_dec H f) as [NC|C]; [left|right; exact C].
    destruct (nil_or_not f) as [->|NE].
    - cbn in Ln. rewrite (prune_forest_empty H _ r _ n Ln) in E1. rewrite (prune_forest_empty H _ r _ n Ln) in E2. congruence.
    - exact (prune_forest_schedule_nc H f iv FI ND OK WF NC r sched1 eff1 sched2 eff2 n
               st1 log1 fl1 st2 log2 fl2 NE RK Ln E1 E2).
  Qed.
End Forest.

(** ** THE MAIN THEOREMS *)
Section Main.
  Variable H : bytes -> bytes.
  Hypothesis Hlen : forall x, length (H x) = 32%nat.

  (** Stage 3: the whole call refines the specification, for EVERY schedule and both flush modes *)
  Theorem prune_refines (s : mstate) (r : list Z) (sched : list bool) (eff : bool) (n : Z) :
    store_ok H s -> forest_bounds (forest s) ->
    rekey_ok r (forest s) -> n < latest_version s ->
    (exists st' log fl,
       prune_forest H eff r (forest s) sched n = POk (st', log, fl) /\
       let f' := filter (fun p => n <? fst p) (forest s) in
       st' = phys_of (rekeyed st') f' /\ rekey_ok (rekeyed st') f' /\
       norm_store st' = expected_store f')
    \/ collision H.
  Proof.
    intros SO FB RK Ln. destruct (store_ok_forest H s SO) as (FI & ND & OK & WF & HO).
    destruct (prune_forest_or_confusion H (forest s) (init_ver s) FI ND OK WF r sched eff n RK Ln)
      as [A|C]; [left; exact A|right].
    exact (confusion_to_collision H (forest s) Hlen WF HO FB C).
  Qed.

  (** Stage 4: what readers and crashes see: every disk state reads back every retained version *)
  Theorem prune_safe_at_every_moment (s : mstate) (r : list Z) (sched : list bool) (eff : bool) (n : Z) :
    store_ok H s -> forest_bounds (forest s) ->
    rekey_ok r (forest s) -> n < latest_version s ->
    (exists disks,
       prune_forest_disks H eff r (forest s) sched n = POk disks /\
       Forall (fun d => readable H d (filter (fun p => n <? fst p) (forest s)) = true) disks)
    \/ collision H.
  Proof.
    intros SO FB RK Ln. destruct (store_ok_forest H s SO) as (FI & ND & OK & WF & HO).
    destruct (prune_forest_disks_or_confusion H (forest s) (init_ver s) FI ND OK WF r sched eff n RK Ln
                (leaf_hashes_of H _ HO)) as [A|C]; [left; exact A|right].
    exact (confusion_to_collision H (forest s) Hlen WF HO FB C).
  Qed.

  (** Corollary of Stage 3: the final store does not depend on the schedule (nor on the mode) *)
  Theorem prune_schedule_independent (s : mstate) (r : list Z) sched1 eff1 sched2 eff2 (n : Z)
          st1 log1 fl1 st2 log2 fl2 :
    store_ok H s -> forest_bounds (forest s) ->
    rekey_ok r (forest s) -> n < latest_version s ->
    prune_forest H eff1 r (forest s) sched1 n = POk (st1, log1, fl1) ->
    prune_forest H eff2 r (forest s) sched2 n = POk (st2, log2, fl2) ->
    st1 = st2 \/ collision H.
  Proof.
    intros SO FB RK Ln E1 E2. destruct (store_ok_forest H s SO) as (FI & ND & OK & WF & HO).
    destruct (prune_forest_schedule_or_confusion H (forest s) (init_ver s) FI ND OK WF r
                sched1 eff1 sched2 eff2 n st1 log1 fl1 st2 log2 fl2 RK Ln E1 E2) as [A|C];
      [left; exact A|right].
    exact (confusion_to_collision H (forest s) Hlen WF HO FB C).
  Qed.

  (** the same for every state reachable within the usage contract *)
  Theorem prune_refines_reachable iv b ops (r : list Z) (sched : list bool) (eff : bool) (n : Z) :
    init_ok iv b -> run_ok H (init_state iv b) ops ->
    let s := fst (run H (init_state iv b) ops) in
    forest_bounds (forest s) -> rekey_ok r (forest s) -> n < version s -> n < latest_version s ->
    (exists st' log fl,
       prune_forest H eff r (forest s) sched n = POk (st', log, fl) /\
       let f' := filter (fun p => n <? fst p) (forest s) in
       st' = phys_of (rekeyed st') f' /\ rekey_ok (rekeyed st') f' /\
       norm_store st' = expected_store f')
    \/ collision H.
  Proof.
    intros IO R s FB RK _ Ln. apply prune_refines; auto. apply store_ok_reachable; assumption.
  Qed.

  Theorem prune_safe_reachable iv b ops (r : list Z) (sched : list bool) (eff : bool) (n : Z) :
    init_ok iv b -> run_ok H (init_state iv b) ops ->
    let s := fst (run H (init_state iv b) ops) in
    forest_bounds (forest s) -> rekey_ok r (forest s) -> n < version s -> n < latest_version s ->
    (exists disks,
       prune_forest_disks H eff r (forest s) sched n = POk disks /\
       Forall (fun d => readable H d (filter (fun p => n <? fst p) (forest s)) = true) disks)
    \/ collision H.
  Proof.
    intros IO R s FB RK _ Ln. apply prune_safe_at_every_moment; auto.
    apply store_ok_reachable; assumption.
  Qed.
End Main.

(** ** Stage 1: reads on the physical store of a forest, and on any [safe] (lagging) disk

    [disk_ok] = [safe]: every retained node is found under its key (directly or through the
    (v,1) -> (v,0) fall-back), whatever sits under nonce 0 is the re-keyed root, every retained
    version has its root entry.  [PruneAlgoFacts7.readable_safe] reads such a disk back. *)
Definition disk_ok (f : forest_t) (d : store) : Prop := safe (sub_of f) f (first_of_forest f) d.

Theorem phys_disk_ok (f : forest_t) iv r :
  forest_inv f -> NoDup (map fst f) -> forest_ok f iv -> f <> [] -> rekey_ok r f ->
  disk_ok f (phys_of r f).
Proof.
  intros FI ND OK NE [_ RK].
  assert (Hr : forall w, In w r -> w < first_of f).
  { intros w Iw. destruct (RK w Iw) as [A _]. rewrite first_of_forest_eq in A. exact A. }
  destruct (ST_init f iv FI ND OK r [] false NE Hr) as [[_ P] _].
  unfold disk_ok. rewrite first_of_forest_eq. exact (pi_disk _ _ _ _ _ _ P).
Qed.

Theorem disk_ok_readable H (f : forest_t) d :
  forest_inv f -> (forall w t, In (w, Some t) f -> wf t) -> leaf_hashes H f ->
  disk_ok f d -> readable H d f = true.
Proof. intros FI WF LH S. exact (readable_safe H f _ d FI WF LH S). Qed.

Theorem phys_readable H (s : mstate) r :
  store_ok H s -> rekey_ok r (forest s) -> readable H (phys_of r (forest s)) (forest s) = true.
Proof.
  intros SO RK. destruct (store_ok_forest H s SO) as (FI & ND & OK & WF & HO).
  destruct (nil_or_not (forest s)) as [E|NE]; [rewrite E; reflexivity|].
  apply disk_ok_readable; auto; [apply leaf_hashes_of, HO|].
  exact (phys_disk_ok (forest s) (init_ver s) r FI ND OK NE RK).
Qed.

(** ** Stage 2: one deleteVersion, for the first version of the forest, any schedule *)
Theorem delete_version_first H (f : forest_t) iv r sched eff v rv rn f'' :
  forest_inv f -> NoDup (map fst f) -> forest_ok f iv ->
  (forall w t, In (w, Some t) f -> wf t) -> no_confusion H f ->
  f = (v, rv) :: (v + 1, rn) :: f'' -> rekey_ok r f ->
  exists p' c',
    delete_version H (prune_fuel (phys_of r f)) v
      (Pdb (phys_of r f) [] sched [] [] eff [] [phys_of r f]) rkc_new = (POk p', c') /\
    let f' := (v + 1, rn) :: f'' in
    disk (pflush p') = phys_of (rk_next v rn r) f' /\
    Forall (disk_ok f') (dhist (pflush p')).
Proof.
  intros FI ND OK WF NC Ef [_ RK].
  assert (NE : f <> []) by (rewrite Ef; discriminate).
  assert (Hr : forall w, In w r -> w < first_of f).
  { intros w Iw. destruct (RK w Iw) as [A _]. rewrite first_of_forest_eq in A. exact A. }
  pose proof (ST_init f iv FI ND OK r sched eff NE Hr) as HS.
  pose proof (forest_ok_zseq f iv OK) as Hz.
  assert (Ev : first_of f = v) by (rewrite Ef; reflexivity). rewrite Ev in *.
  assert (Hf : forall w t, In (w, Some t) f -> (2 * ncount t + 1 <= prune_fuel (phys_of r f))%nat).
  { apply (fuel_ok f iv FI ND OK WF r NE). rewrite Ev. exact Hr. }
  assert (Suf : f = [] ++ (v, rv) :: (v + 1, rn) :: f'') by exact Ef.
  assert (Hz' : map fst ((v, rv) :: (v + 1, rn) :: f'') = zseq v (length ((v, rv) :: (v + 1, rn) :: f'')))
    by (rewrite <- Ef; exact Hz).
  assert (HS' : ST f (Pdb (phys_of r f) [] sched [] [] eff [] [phys_of r f]) rkc_new
                   ((v, rv) :: (v + 1, rn) :: f'') r v) by (rewrite <- Ef; exact HS).
  destruct (delete_version_ok H f iv FI ND OK WF NC (prune_fuel (phys_of r f)) Hf v rv rn f'' []
              Suf Hz' _ _ r HS') as (p' & c' & E & [[Cx P] _]).
  exists p', c'. split; [exact E|]. cbv zeta. destruct (pflush_facts p') as (Ed & _ & Eh & _).
    rewrite Ed, Eh. split.
    + assert (FI' : forest_inv ((v + 1, rn) :: f'')).
      { replace ((v + 1, rn) :: f'') with (filter (fun q => v <? fst q) f).
        - apply forest_inv_filter, FI.
        - rewrite (filter_gt_skipn f v v Hz). replace (Z.to_nat (v + 1 - v)) with 1%nat by lia.
          rewrite Ef. reflexivity. }
      assert (ND' : NoDup (map fst ((v + 1, rn) :: f''))).
      { rewrite Ef in ND. cbn [map fst] in ND |- *. inversion ND; assumption. }
      apply (pst_ext _ _ _ (pi_V _ _ _ _ _ _ P)). apply phys_pst; assumption.
    + unfold disk_ok. cbn [first_of_forest fst]. apply Forall_app. split.
      * exact (pi_hist _ _ _ _ _ _ P).
      * constructor; [|constructor]. exact (proj1 (pi_Vgood _ _ _ _ _ _ P)).
Qed.

(** ** Why the order of the two re-key writes matters: the swapped variant is refuted *)
Definition dv_tail_swapped (version : Z) (p2 : pdb) (c2 : rkc) : pres pdb * rkc :=
  match rkc_get c2 (disk p2) (version + 1) with
  | (PErr, c3) => (PErr, c3)
  | (PFuel, c3) => (PFuel, c3)
  | (r3, c3) =>
      let nextk := match r3 with POk k => k | _ => None end in
      match nextk with
      | Some nk =>
          if keqb nk (version, 1) then
            match get_node (disk p2) nk with
            | None => (PErr, c3)
            | Some root =>
                (* SWAPPED: (version,1) is deleted BEFORE the node is written under (version,0) *)
                let p3 := pwrite p2 (del_node (version, 1)) in
                (POk (pwrite p3 (set_node ((version, 0), ENode root))), c3)
            end
          else (POk p2, c3)
      | None => (POk p2, c3)
      end
  end.

(** identical to [delete_version] (cf. [dv_eq]) except for [dv_tail_swapped] *)
Definition delete_version_swapped (H : bytes -> bytes) (fuel : nat) (version : Z) (p : pdb) (c : rkc)
  : pres pdb * rkc :=
  match rkc_get c (disk p) version with
  | (PErr, c1) => (PErr, c1)
  | (PFuel, c1) => (PFuel, c1)
  | (r, c1) =>
      let rootk := match r with POk k => k | _ => None end in
      match dv_step1 H fuel version p c1 rootk with
      | (POk p1, c2) => dv_tail_swapped version (dv_p2 version rootk p1) c2
      | (e, c2) => (e, c2)
      end
  end.

Fixpoint delete_range_swapped (H : bytes -> bytes) (fuel : nat) (vs : list Z) (p : pdb) (c : rkc)
  : pres pdb :=
  match vs with
  | [] => POk p
  | v :: rest =>
      match delete_version_swapped H fuel v p c with
      | (POk p', c') => delete_range_swapped H fuel rest p' c'
      | (e, _) => e
      end
  end.

Definition prune_forest_disks_swapped (H : bytes -> bytes) (eff : bool) (r : list Z) (f : forest_t)
           (schedule : list bool) (to : Z) : pres (list store) :=
  let st := phys_of r f in
  if latest_of_forest f <=? to then PErr
  else
    match delete_range_swapped H (prune_fuel st) (versions_from_to (first_of_forest f) to)
            (Pdb st [] schedule [] [] eff [] [st]) rkc_new with
    | POk p => POk (dhist (pflush p))
    | PNoVersion => PNoVersion
    | PErr => PErr
    | PFuel => PFuel
    end.

(** ** Boolean checkers for the hypotheses (used by the examples) *)
Definition i64b (x : Z) : bool := (- 2 ^ 63 <=? x) && (x <? 2 ^ 63).
Definition klenb (k : bytes) : bool := (N.of_nat (length k) <? 2 ^ 63 - 1)%N.
Fixpoint tboundsb (t : node) : bool :=
  match t with
  | Leaf k _ m => i64b (ver m) && klenb k
  | Inner _ h s m l r => i64b h && i64b s && i64b (ver m) && tboundsb l && tboundsb r
  end.
Definition forest_boundsb (f : forest_t) : bool :=
  forallb (fun p => match snd p with Some t => tboundsb t | None => true end) f.

Lemma i64b_sound x : i64b x = true -> i64 x.
Proof. unfold i64b, i64. rewrite andb_true_iff, Z.leb_le, Z.ltb_lt. tauto. Qed.

Lemma tboundsb_sound t : tboundsb t = true -> tbounds t.
Proof.
  induction t as [k v m|k h s m l IHl r IHr]; cbn [tboundsb tbounds]; rewrite ?andb_true_iff.
  - intros [A B]. split; [apply i64b_sound, A|]. unfold klenb in B. apply N.ltb_lt in B. exact B.
  - intros [[[[A B] C] D] E]. split; [apply i64b_sound, A|]. split; [apply i64b_sound, B|].
    split; [apply i64b_sound, C|]. split; [apply IHl, D|apply IHr, E].
Qed.

Lemma forest_boundsb_sound f : forest_boundsb f = true -> forest_bounds f.
Proof.
  unfold forest_boundsb. rewrite forallb_forall. intros F w t I. specialize (F _ I). cbn [snd] in F.
  apply tboundsb_sound, F.
Qed.

Fixpoint ascb (l : list Z) : bool :=
  match l with
  | [] => true
  | a :: rest => forallb (fun b => a <? b) rest && ascb rest
  end.

Definition rekey_okb (r : list Z) (f : forest_t) : bool :=
  ascb r &&
  forallb (fun w => (w <? first_of_forest f) &&
                    existsb (fun p => match snd p with
                                      | Some t => mhas kcmp (w, 1) (nodes_of t)
                                      | None => false
                                      end) f) r.

Lemma ascb_sound l : ascb l = true -> StronglySorted Z.lt l.
Proof.
  induction l as [|a l IH]; cbn [ascb]; [constructor|]. rewrite andb_true_iff. intros [A B].
  constructor; [auto|]. rewrite forallb_forall in A. apply Forall_forall. intros b Ib.
  apply Z.ltb_lt, A, Ib.
Qed.

Lemma rekey_okb_sound r f : rekey_okb r f = true -> rekey_ok r f.
Proof.
  unfold rekey_okb. rewrite andb_true_iff. intros [A B]. split; [apply ascb_sound, A|].
  rewrite forallb_forall in B. intros w Iw. specialize (B w Iw). apply andb_prop in B.
  destruct B as [B1 B2]. split; [apply Z.ltb_lt, B1|].
  apply existsb_exists in B2. destruct B2 as ([v [t|]] & I & M); cbn [snd] in M; [|discriminate].
  apply mhas_true in M. destruct M as [sn M]. apply (In_mfind kcmp kcmp_ok) in M.
  apply nodes_of_In in M. destruct M as (u & S & K & _). exists u. split; [exists v, t; auto|auto].
Qed.

