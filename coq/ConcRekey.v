(** C06, the re-keying hand-off between a deletion and concurrent readers
    (nodedb.go: deleteVersion, GetRoot, GetNode).

    When version [v] is deleted and version [v+1] was committed without changes, the root node
    stored under [(v,1)] is still the root of [v+1].  deleteVersion RE-KEYS it: batch
    [Set (v,0) node] THEN batch [Delete (v,1)]; the root record of [v+1] keeps saying [(v,1)].
    The batch (BatchWithFlusher) may be written to the database between any two operations.
    Readers resolve through fall-backs: GetRoot (no mutex) reads the root record, then - for a
    reference root - [Get (v,1)] and only if absent [Get (v,0)]; GetNode((v,1)) reads [(v,1)]
    and falls back to [(v,0)].

    What is modelled.
    - The disk: the node store of Store.v ([nodekey -> entry], sorted association list).
    - The writer: a list of PHYSICAL batches (lists of [Store.wop]), each applied atomically,
      one after the other ([disk_at d0 batches t] = the disk after the first [t] batches).
      [rekey_ops] is the operation sequence of deleteVersion lines "saveNodeFromPruning(&rekeyed);
      deleteFromPruning(literalRootKey)"; [batchings ops] are all the ways the flusher can cut it.
      [delete_root_ops] transcribes the part of deleteVersion that produces these operations
      (everything after the orphan traversal) so that the sequences are derived, not postulated.
    - The readers: resumable programs [prog] whose only effect is a disk probe ([Probe k]); the
      decision logic between the probes is the Go code's.  A schedule says after how many writer
      batches each probe happens (one natural per probe, non-decreasing).

    What is abstracted.
    - The legacy key space is empty: GetRoot's probe of the legacy root key (taken when the root
      record is absent) always misses and is not counted as a probe.
    - The node cache is off (GetNode's cache lookup misses): every GetNode reaches the disk.  This
      is the adversarial case for the hand-off.
    - GetNode holds ndb.mtx and so does every batch write issued through deleteFromPruning /
      saveNodeFromPruning: a real schedule never separates GetNode's two probes.  The model does
      not use this: the theorems hold for EVERY non-decreasing schedule, a superset.
    - Values: a stored value that is not an encoded node (a root reference, an empty value) under
      a key GetNode is asked for makes MakeNode fail: [RErrDecode]. *)
From IAVL Require Import Bytes Varint Tree MTree Store.
Local Open Scope Z_scope.

(** ** Disk and writer *)

(** one physical write on the node store (the fast index and the label play no role here) *)
Definition apply_nop (d : list ((Z * Z) * entry)) (o : wop) : list ((Z * Z) * entry) :=
  nodes (apply_op (Db d [] None) o).

(** one batch, written atomically *)
Definition apply_batch (d : list ((Z * Z) * entry)) (b : list wop) : list ((Z * Z) * entry) :=
  fold_left apply_nop b d.

(** the disk after the first [t] batches (all of them if [t] exceeds their number) *)
Fixpoint disk_at (d : list ((Z * Z) * entry)) (batches : list (list wop)) (t : nat)
  : list ((Z * Z) * entry) :=
  match batches, t with
  | b :: bs, S t' => disk_at (apply_batch d b) bs t'
  | _, _ => d
  end.

(** deleteVersion(v) when GetRoot(v+1) = (v,1): write the copy under (v,0), then delete (v,1) *)
Definition rekey_ops (v : Z) (n : snode) : list wop :=
  [set_node ((v, 0), ENode n); del_node (v, 1)].

(** the order before the repair (seeded defect): delete, then write *)
Definition rekey_ops_swapped (v : Z) (n : snode) : list wop :=
  [del_node (v, 1); set_node ((v, 0), ENode n)].

(** a chain v, v+1, v+2 all rooted at (v,1); deleteVersion(v) re-keys, deleteVersion(v+1) finds
    a reference root (its literal root key holds a reference) and a next version that does not
    refer to (v+1,1): it only deletes the root record (v+1,1) *)
Definition chain_ops (v : Z) (n : snode) : list wop :=
  rekey_ops v n ++ [del_node (v + 1, 1)].

(** the code's two batchings and the seeded one *)
Definition code_one_batch (v : Z) (n : snode) : list (list wop) := [rekey_ops v n].
Definition code_flushed (v : Z) (n : snode) : list (list wop) :=
  [[set_node ((v, 0), ENode n)]; [del_node (v, 1)]].
Definition swapped_flushed (v : Z) (n : snode) : list (list wop) :=
  [[del_node (v, 1)]; [set_node ((v, 0), ENode n)]].

(** all the ways of cutting an operation sequence into consecutive non-empty batches *)
Fixpoint batchings {A} (ops : list A) : list (list (list A)) :=
  match ops with
  | [] => [[]]
  | o :: r =>
      match r with
      | [] => [[[o]]]
      | _ :: _ =>
          flat_map (fun bs =>
            match bs with
            | [] => []
            | b :: bs' => [[o] :: bs; (o :: b) :: bs']
            end) (batchings r)
      end
  end.

(** ** Reader programs *)

Inductive prog (A : Type) : Type :=
| Ret (a : A)
| Probe (k : Z * Z) (f : option entry -> prog A).
Arguments Ret {A} a.
Arguments Probe {A} k f.

Fixpoint bind {A B} (p : prog A) (g : A -> prog B) : prog B :=
  match p with
  | Ret a => g a
  | Probe k f => Probe k (fun r => bind (f r) g)
  end.

(** GetRoot's results: a node key, (nil, nil) for an empty version, ErrVersionDoesNotExist *)
Inductive rootres :=
| RootKey (k : Z * Z)
| RootEmpty
| RootNoVersion.

(** nodedb.go GetRoot(version), new key format; the legacy key space is empty *)
Definition get_root_reader (version : Z) : prog rootres :=
  Probe (version, 1) (fun val =>
    match val with
    | None => Ret RootNoVersion                 (* legacy root key: absent *)
    | Some EEmpty => Ret RootEmpty
    | Some (ERef nk) =>                           (* isReferenceRoot *)
        Probe nk (fun val1 =>
          match val1 with
          | Some _ => Ret (RootKey nk)
          | None =>
              (* "check if the prev version root is reformatted due to the pruning" *)
              Probe (fst nk, 0) (fun val0 =>
                match val0 with
                | Some _ => Ret (RootKey (fst nk, 0))
                | None => Ret RootNoVersion
                end)
          end)
    | Some (ENode _) => Ret (RootKey (version, 1))
    end).

(** the seeded defect: the two probes of a reference root in the opposite order *)
Definition get_root_reader_swapped (version : Z) : prog rootres :=
  Probe (version, 1) (fun val =>
    match val with
    | None => Ret RootNoVersion
    | Some EEmpty => Ret RootEmpty
    | Some (ERef nk) =>
        Probe (fst nk, 0) (fun val0 =>
          match val0 with
          | Some _ => Ret (RootKey (fst nk, 0))
          | None =>
              Probe nk (fun val1 =>
                match val1 with
                | Some _ => Ret (RootKey nk)
                | None => Ret RootNoVersion
                end)
          end)
    | Some (ENode _) => Ret (RootKey (version, 1))
    end).

(** what a reader of a version's root node ends with *)
Inductive rres :=
| RNode (nk : Z * Z) (n : snode)   (* MakeNode(nk, buf): the node, keyed as it was ASKED for *)
| REmptyTree                        (* the version is empty *)
| RErrNoVersion                     (* ErrVersionDoesNotExist *)
| RErrMissing (nk : Z * Z)          (* "Value missing for key" *)
| RErrDecode (nk : Z * Z).          (* MakeNode fails on a value that is not a node *)

Definition make_node (nk : Z * Z) (buf : entry) : rres :=
  match buf with
  | ENode n => RNode nk n
  | _ => RErrDecode nk
  end.

(** nodedb.go GetNode(nk), cache miss, new key format *)
Definition get_node_reader (nk : Z * Z) : prog rres :=
  Probe nk (fun buf =>
    match buf with
    | Some e => Ret (make_node nk e)
    | None =>
        (* "if the node is reformatted by pruning, check against (version, 0)" *)
        if snd nk =? 1 then
          Probe (fst nk, 0) (fun buf0 =>
            match buf0 with
            | Some e => Ret (make_node nk e)
            | None => Ret (RErrMissing nk)
            end)
        else Ret (RErrMissing nk)
    end).

(** a reader of version [version]: GetRoot, then GetNode of the root (what GetImmutable /
    LoadVersion / a lazily loaded ImmutableTree do first) *)
Definition root_then_node (gr : Z -> prog rootres) (version : Z) : prog rres :=
  bind (gr version) (fun r =>
    match r with
    | RootKey nk => get_node_reader nk
    | RootEmpty => Ret REmptyTree
    | RootNoVersion => Ret RErrNoVersion
    end).

Definition read_version : Z -> prog rres := root_then_node get_root_reader.
Definition read_version_swapped : Z -> prog rres := root_then_node get_root_reader_swapped.

(** ** Interleavings *)

Inductive outcome (A : Type) : Type :=
| Done (a : A)
| SchedShort      (* the schedule has fewer entries than the reader made probes *)
| SchedBad.       (* the schedule is not non-decreasing *)
Arguments Done {A} a.
Arguments SchedShort {A}.
Arguments SchedBad {A}.

(** [D t] is the disk seen by a probe that happens after [t] writer batches *)
Fixpoint run_prog {A} (D : nat -> list ((Z * Z) * entry)) (p : prog A) (sched : list nat)
  : outcome A :=
  match p with
  | Ret a => Done a
  | Probe k f =>
      match sched with
      | [] => SchedShort
      | t :: s => run_prog D (f (mfind kcmp k (D t))) s
      end
  end.

Fixpoint nondecb (s : list nat) : bool :=
  match s with
  | a :: r => match r with
              | b :: _ => Nat.leb a b && nondecb r
              | [] => true
              end
  | [] => true
  end.

Definition run_reader {A} (disk0 : list ((Z * Z) * entry)) (batches : list (list wop))
  (reader : prog A) (sched : list nat) : outcome A :=
  if nondecb sched then run_prog (disk_at disk0 batches) reader sched else SchedBad.

(** sequential execution (no writer): every probe sees [d] *)
Fixpoint run_seq {A} (d : list ((Z * Z) * entry)) (p : prog A) : A :=
  match p with
  | Ret a => a
  | Probe k f => run_seq d (f (mfind kcmp k d))
  end.

(** all non-decreasing schedules of [len] probes over [nb] batches, first entry >= [lo] *)
Fixpoint scheds_from (lo nb len : nat) : list (list nat) :=
  match len with
  | O => [[]]
  | S len' =>
      flat_map (fun a => map (cons a) (scheds_from a nb len')) (seq lo (S nb - lo))
  end.
Definition all_scheds (nb len : nat) : list (list nat) := scheds_from 0 nb len.

(** ** The writer's side, derived: deleteVersion after the orphan traversal

    Transcription of nodedb.go deleteVersion from "literalRootKey := GetRootKey(version)" to the
    end, reading the disk [d] (the rootkeyCache and the pending batch are not consulted: the
    reads go to the database).  [None]: GetNode failed, deleteVersion returns the error. *)
Definition delete_root_ops (d : list ((Z * Z) * entry)) (version : Z) : option (list wop) :=
  let literal := (version, 1) in
  let ops1 :=
    match run_seq d (get_root_reader version) with
    | RootKey rk => if keqb rk literal then [] else [del_node literal]
    | _ => [del_node literal]                     (* rootKey == nil *)
    end in
  match run_seq d (get_root_reader (version + 1)) with
  | RootKey nk =>
      if keqb literal nk then
        match run_seq d (get_node_reader nk) with
        | RNode _ n => Some (ops1 ++ [set_node ((version, 0), ENode n); del_node literal])
        | _ => None
        end
      else Some ops1
  | _ => Some ops1
  end.

(** ** A small concrete instance (used by the examples of ConcRekeyFacts.v) *)
Definition ex_node : snode := SLeaf [1%N] [2%N].
(** versions 1, 2, 3; 2 and 3 committed without changes *)
Definition ex_disk : list ((Z * Z) * entry) :=
  [((1, 1), ENode ex_node); ((2, 1), ERef (1, 1)); ((3, 1), ERef (1, 1))].

Definition is_ex_node (o : outcome rres) : bool :=
  match o with
  | Done (RNode nk (SLeaf k v)) =>
      beq k [1%N] && beq v [2%N] && (fst nk =? 1) && ((snd nk =? 1) || (snd nk =? 0))
  | _ => false
  end.
