(** PruneAlgoFacts5: one deleteVersion ([delete_version_ok]) and the loop of deleteVersionsTo
    ([delete_range_ok]) keep the invariant: the virtual store is the physical store of the
    remaining forest, every disk state met is safe for the retained versions. *)
From Coq Require Import Lia Sorted.
From IAVL Require Import Bytes Varint Tree VMap TreeFacts MTree MTreeFacts HashFacts VersionFacts
  Store StoreFacts PruneAlgo PruneAlgoFacts1 PruneAlgoFacts2 PruneAlgoFacts3 PruneAlgoFacts4.
Local Open Scope Z_scope.

Lemma olist_None {A} : @olist A None = []. Proof. reflexivity. Qed.

(** ** deleteVersion cut into its phases (definitionally equal to PruneAlgo.delete_version) *)
Definition dv_p2 (version : Z) (rootk : option nodekey) (p1 : pdb) : pdb :=
  match rootk with
  | Some k => if keqb k (version, 1) then p1 else pwrite p1 (del_node (version, 1))
  | None => pwrite p1 (del_node (version, 1))
  end.

Definition dv_tail (version : Z) (p2 : pdb) (c2 : rkc) : pres pdb * rkc :=
  match rkc_get c2 (disk p2) (version + 1) with
  | (PErr, c3) => (PErr, c3)
  | (PFuel, c3) => (PFuel, c3)
  | (r3, c3) =>
      let nextk := match r3 with POk k => k | _ => None end in
      match nextk with
      | Some nk =>
          if keqb nk (version, 1) then
            match get_node (disk p2) nk with
            | None => (PErr, c3)
            | Some root =>
                let p3 := pwrite p2 (set_node ((version, 0), ENode root)) in
                (POk (pwrite p3 (del_node (version, 1))), c3)
            end
          else (POk p2, c3)
      | None => (POk p2, c3)
      end
  end.

Definition dv_step1 (H : bytes -> bytes) (fuel : nat) (version : Z) (p : pdb) (c1 : rkc)
           (rootk : option nodekey) : pres pdb * rkc :=
  match rootk with
  | Some _ =>
      match traverse_orphans H fuel version p c1 with
      | (POk p', c2) => (POk p', c2)
      | (PNoVersion, c2) => (POk p, c2)
      | (e, c2) => (e, c2)
      end
  | None => (POk p, c1)
  end.

Lemma dv_eq H fuel version p c :
  delete_version H fuel version p c =
  match rkc_get c (disk p) version with
  | (PErr, c1) => (PErr, c1)
  | (PFuel, c1) => (PFuel, c1)
  | (r, c1) =>
      let rootk := match r with POk k => k | _ => None end in
      match dv_step1 H fuel version p c1 rootk with
      | (POk p1, c2) => dv_tail version (dv_p2 version rootk p1) c2
      | (e, c2) => (e, c2)
      end
  end.
Proof. reflexivity. Qed.

(** the re-keyed versions after deleteVersion(v): [v] joins them when version v+1 has the root
    node of version v as its root *)
Definition rk_next (v : Z) (rn : option node) (r : list Z) : list Z :=
  match rn with
  | Some tn => if keqb (node_key tn) (v, 1) then v :: r else r
  | None => r
  end.

Section Version.
  Variable H : bytes -> bytes.
  Variable f0 : forest_t.
  Variable iv : Z.
  Hypothesis FI : forest_inv f0.
  Hypothesis ND : NoDup (map fst f0).
  Hypothesis OK0 : forest_ok f0 iv.
  Hypothesis WF0 : forall w t, In (w, Some t) f0 -> wf t.
  (** no two different nodes of one tree look the same to the iterator *)
  Hypothesis NC0 : forall w t u c, In (w, Some t) f0 -> subtree u t -> subtree c t ->
                                   fhash H u = fhash H c -> u = c.
  Variable fuel : nat.
  Hypothesis Hfuel : forall w t, In (w, Some t) f0 -> (2 * ncount t + 1 <= fuel)%nat.

  (** the state between two deleteVersion calls: [fc] is what is left of the forest *)
  Definition ST (p : pdb) (c : rkc) (fc : forest_t) (r : list Z) (v : Z) : Prop :=
    PIx f0 p (sub_of fc) fc fc r v /\ cache_ok c (disk p) fc v.

  Lemma PIx_relax p (L : node -> Prop) ro sro r b sro' b' :
    PIx f0 p L ro sro r b -> incl sro' sro -> b <= b' -> PIx f0 p L ro sro' r b'.
  Proof.
    intros [[D HS HR Hb] P] Hs Hbb. split.
    - constructor; auto.
      + intros x Ix. apply HS, Hs, Ix.
      + intros w t I. apply (HR w t), Hs, I.
      + intros w Iw. specialize (Hb w Iw). lia.
    - apply (PI_weaken p L sro r b _ L sro' b' _ P); auto. intros k e. reflexivity.
  Qed.

  Lemma cache_pwrite p o (L : node -> Prop) ro sro r b c fm lo :
    PIx f0 p L ro sro r b -> (forall w t, In (w, Some t) fm -> L t) ->
    cache_ok c (disk p) fm lo -> cache_ok c (disk (pwrite p o)) fm lo.
  Proof.
    intros PX HL C. apply (cache_ok_transport _ _ _ _ _ C).
    intros w t k I K. exact (keyok_pwrite_x f0 p o L ro sro r b k t PX (HL w t I) K).
  Qed.

  Section One.
    Variables (v : Z) (rv rn : option node) (f'' : forest_t) (done : forest_t).
    Let f' := (v + 1, rn) :: f''.
    Let fc := (v, rv) :: f'.
    Hypothesis Suffix : f0 = done ++ fc.
    Hypothesis Hz : map fst fc = zseq v (length fc).

    Lemma fc_incl : incl fc f0.
    Proof. rewrite Suffix. apply incl_appr, incl_refl. Qed.

    Lemma f'_incl : incl f' fc.
    Proof. apply incl_tl, incl_refl. Qed.

    Lemma fc_nodup : NoDup (map fst fc).
    Proof. pose proof ND as N. rewrite Suffix, map_app in N. exact (NoDup_app_r _ _ N). Qed.

    Lemma f'_above w rt : In (w, rt) f' -> v < w.
    Proof.
      intros I. unfold fc, f' in Hz. cbn [map fst length zseq] in Hz. injection Hz as Q.
      destruct I as [E|I]; [inversion E; lia|].
      assert (Iw : In w (map fst f'')) by (apply in_map_iff; exists (w, rt); auto).
      rewrite Q in Iw. apply In_zseq in Iw. lia.
    Qed.

    Lemma v_notin_f' : ~ In v (map fst f').
    Proof.
      intros I. apply In_map_fst_pair in I. destruct I as [rt I]. pose proof (f'_above _ _ I). lia.
    Qed.

    Lemma sub_fc_f' x : sub_of f' x -> sub_of fc x.
    Proof. intros (w & t & I & S). exists w, t. split; [right; exact I|exact S]. Qed.

    Lemma sub_fc_cases x :
      sub_of fc x <-> sub_of f' x \/ (exists tv, rv = Some tv /\ subtree x tv).
    Proof.
      split.
      - intros (w & t & [Q|I] & S).
        + inversion Q; subst. right. eauto.
        + left. exists w, t. auto.
      - intros [S|(tv & -> & S)]; [apply sub_fc_f', S|]. exists v, tv. split; [left; reflexivity|exact S].
    Qed.

    Lemma fc_roots_live w t : In (w, Some t) fc -> sub_of fc t.
    Proof. intros I. exists w, t. split; [exact I|apply sub_refl]. Qed.

    Lemma f'_roots_live w t : In (w, Some t) f' -> sub_of f' t.
    Proof. intros I. exists w, t. split; [exact I|apply sub_refl]. Qed.

    (** the facts about trees [v] and [v+1] that the traversal rests on *)
    Lemma HA_v tv : rv = Some tv ->
      forall c, inn rn c -> (ver (nmeta c) <= v <-> subtree c tv).
    Proof.
      intros Erv c (tn & Ern & Sc). split.
      - intros Lc.
        assert (I1 : In (v + 1, Some tn) f0) by (apply fc_incl; right; left; rewrite Ern; reflexivity).
        assert (I0 : In (v + 1 - 1, rv) f0).
        { replace (v + 1 - 1) with v by lia. apply fc_incl. left. reflexivity. }
        destruct (fi_chain f0 FI (v + 1) tn c rv I1 Sc ltac:(lia) I0) as (t0 & E0 & S0).
        rewrite Erv in E0. inversion E0; subst. exact S0.
      - intros Sc'. assert (I0 : In (v, Some tv) f0) by (apply fc_incl; left; rewrite Erv; reflexivity).
        pose proof (fi_ver f0 FI v tv c I0 Sc'). lia.
    Qed.

    Lemma HN_v tv : rv = Some tv ->
      forall u, subtree u tv -> ~ inn rn u -> ~ sub_of f' u.
    Proof.
      intros Erv u Su Nu (w & t & I & S). apply Nu.
      assert (I0 : In (v, Some tv) f0) by (apply fc_incl; left; rewrite Erv; reflexivity).
      pose proof (fi_ver f0 FI v tv u I0 Su) as Vu.
      pose proof (f'_above _ _ I) as Lw.
      assert (Iw : In (w, Some t) f0) by (apply fc_incl; right; exact I).
      assert (Iv1 : In (v + 1) (map fst f0)).
      { apply in_map_iff. exists (v + 1, rn). split; [reflexivity|]. apply fc_incl. right. left. reflexivity. }
      destruct (chain_down f0 iv (v + 1) FI OK0 Iv1 (Z.to_nat (w - (v + 1))) w t u ltac:(lia) Iw S ltac:(lia))
        as (t0 & It0 & St0).
      assert (In1 : In (v + 1, rn) f0) by (apply fc_incl; right; left; reflexivity).
      pose proof (NoDup_fst_functional f0 (v + 1) _ _ ND It0 In1) as E. exists t0. auto.
    Qed.

    Lemma HS_v : forall u, inn rn u -> sub_of f' u.
    Proof. intros u (tn & -> & S). exists (v + 1), tn. split; [left; reflexivity|exact S]. Qed.

    (** *** traverseOrphans *)
    Lemma traverse_ok p c1 r tv :
      rv = Some tv ->
      PIx f0 p (sub_of fc) fc fc r v -> cache_ok c1 (disk p) fc v ->
      exists p1 c3, traverse_orphans H fuel v p c1 = (POk p1, c3) /\
        PIx f0 p1 (sub_of f') fc f' r v /\
        (forall x k, sub_of f' x -> keyok (disk p) k x -> keyok (disk p1) k x) /\
        cache_ok c3 (disk p) fc v.
    Proof.
      intros Erv PX C1. pose proof PX as [Cx P].
      pose proof (pi_disk _ _ _ _ _ _ P) as S.
      assert (Itv : In (v, Some tv) f0) by (apply fc_incl; left; rewrite Erv; reflexivity).
      destruct (rkc_get_ok (sub_of fc) fc v (disk p) c1 v (v + 1) rn S fc_roots_live fc_nodup C1
                  ltac:(lia) ltac:(right; left; reflexivity)) as (curk & c2 & E1 & R1 & C2).
      destruct (rkc_get_ok (sub_of fc) fc v (disk p) c2 v v rv S fc_roots_live fc_nodup C2
                  ltac:(lia) ltac:(left; reflexivity)) as (prevk & c3 & E2 & R2 & C3).
      rewrite Erv in R2. destruct prevk as [pk|]; [|contradiction]. cbn [rval] in R2.
      assert (Ltv : sub_of fc tv) by (exists v, tv; split; [left; rewrite Erv; reflexivity|apply sub_refl]).
      destruct (nit_new_some (sub_of fc) fc v (disk p) pk tv S Ltv R2) as (prev & En2 & Sp).
      assert (Itn : forall tn, rn = Some tn -> In (v + 1, Some tn) f0).
      { intros tn E. apply fc_incl. right. left. rewrite E. reflexivity. }
      assert (Ltn : forall tn, rn = Some tn -> sub_of fc tn).
      { intros tn E. exists (v + 1), tn. split; [right; left; rewrite E; reflexivity|apply sub_refl]. }
      assert (Cur : exists cur, nit_new (disk p) curk = Some cur /\ stk (disk p) cur (olist rn)).
      { destruct rn as [tn|] eqn:Ern, curk as [ck|]; cbn [rval] in R1; try contradiction.
        - exact (nit_new_some (sub_of fc) fc v (disk p) ck tn S (Ltn tn eq_refl) R1).
        - exists (Nit [] false). apply nit_new_none. }
      destruct Cur as (cur & En1 & Sc).
      unfold traverse_orphans. rewrite E1. cbv beta iota. rewrite En1, E2. cbv beta iota. rewrite En2.
      (* the loop *)
      assert (PX0 : PIx f0 p (Lof f' [tv]) fc f' r v).
      { apply (PIx_relax p _ fc fc r v f' v); [|apply f'_incl|lia].
        apply (PIx_ext f0 p (sub_of fc)); [|exact PX].
        intros x. rewrite sub_fc_cases. unfold Lof. cbn [flat_map]. rewrite app_nil_r, pre_In.
        split; [intros [A|(t & E & A)]; [auto|]|intros [A|A]; [auto|right; eauto]].
        rewrite Erv in E. inversion E; subst. auto. }
      pose proof (HA_v tv Erv) as HAv.
      assert (Ieq : flat_map (mx (PB rn)) [tv] = olist (@None node) ++ flat_map (mx (PA v)) (olist rn)).
      { cbn [flat_map olist app]. rewrite app_nil_r. destruct rn as [tn|] eqn:Ern; cbn [olist flat_map].
        - rewrite app_nil_r.
          apply (mx_common (PA v) (PB (Some tn)) tv tn (WF0 _ _ Itv) (WF0 _ _ (Itn tn eq_refl))).
          + intros x Sx. unfold PA. rewrite Z.leb_le. apply HAv. exists tn. auto.
          + intros x Sx. rewrite PB_true. split.
            * intros (t & Q & A). inversion Q; subst. exact A.
            * intros A. exists tn. auto.
        - apply mx_none. intros x _. reflexivity. }
      destruct (loop_ok H f0 FI v f' tv rn fc r (HA_v tv Erv) (HN_v tv Erv) HS_v
                  (fun u c Su Sc => NC0 v tv u c Itv Su Sc)
                  fuel p cur prev None (olist rn) [tv] None) as (p1 & El & PX1 & Tr).
      - constructor; auto.
        + intros c Ic. destruct rn as [tn|]; [|contradiction]. destruct Ic as [<-|[]].
          exists tn. split; [reflexivity|apply sub_refl].
        + intros c Q. discriminate.
        + cbn [flat_map]. rewrite app_nil_r. apply pre_NoDup, (WF0 _ _ Itv).
        + intros x [<-|[]]. apply sub_refl.
      - pose proof (Hfuel _ _ Itv) as F1. cbn [msum fold_right].
        destruct rn as [tn|]; cbn [olist msum fold_right]; [|lia].
        pose proof (Hfuel _ _ (Itn tn eq_refl)) as F2. lia.
      - exists p1, c3. rewrite El. auto.
    Qed.

    Lemma f'_nodup : NoDup (map fst f').
    Proof. pose proof fc_nodup as N. unfold fc in N. cbn [map fst] in N. inversion N; assumption. Qed.

    Lemma opt_cases {A} (o : option A) : (exists a, o = Some a) \/ o = None.
    Proof. destruct o; eauto. Qed.

    (** *** after the orphans: the root entry, then the re-keying *)
    Lemma tail_ok p2 c2 r :
      PIx f0 p2 (sub_of f') f' f' r v -> cache_ok c2 (disk p2) f' (v + 1) ->
      exists p' c', dv_tail v p2 c2 = (POk p', c') /\ ST p' c' f' (rk_next v rn r) (v + 1).
    Proof.
      intros PX C2. pose proof PX as [Cx P]. pose proof (pi_disk _ _ _ _ _ _ P) as S.
      destruct (rkc_get_ok (sub_of f') f' v (disk p2) c2 (v + 1) (v + 1) rn S f'_roots_live f'_nodup C2
                  ltac:(lia) ltac:(left; reflexivity)) as (nextk & c3 & E3 & R3 & C3).
      assert (Plain : rk_next v rn r = r ->
                exists p' c', (POk p2, c3) = (POk p', c') /\ ST p' c' f' (rk_next v rn r) (v + 1)).
      { intros ->. exists p2, c3. split; [reflexivity|]. split; [|exact C3].
        apply (PIx_relax p2 _ f' f' r v f' (v + 1) PX); [apply incl_refl|lia]. }
      unfold dv_tail. rewrite E3. cbv beta iota zeta.
      destruct (opt_cases rn) as [(tn & Ern)|Ern]; rewrite Ern in R3; cbn [rval] in R3.
      2:{ destruct nextk; [contradiction|]. apply Plain. rewrite Ern. reflexivity. }
      destruct nextk as [nk|]; [|contradiction].
      assert (Ltn : sub_of f' tn).
      { exists (v + 1), tn. split; [left; rewrite Ern; reflexivity|apply sub_refl]. }
      destruct (keqb nk (v, 1)) eqn:K.
      - apply keqb_true in K. subst nk.
        rewrite (get_node_keyok (sub_of f') f' v (disk p2) (v, 1) tn S Ltn R3).
        assert (Kt : node_key tn = (v, 1)).
        { destruct R3 as [Q|(_ & Q & _)]; [symmetry; exact Q|inversion Q]. }
        destruct (PIx_rekey f0 FI p2 (sub_of f') f' f' r v tn PX Ltn Kt f'_above) as [PX4 Tr4].
        eexists. exists c3. split; [reflexivity|].
        assert (Er : rk_next v rn r = v :: r).
        { rewrite Ern. unfold rk_next. rewrite Kt, (proj2 (keqb_true _ _) eq_refl). reflexivity. }
        rewrite Er. split; [exact PX4|].
        apply (cache_ok_transport _ _ _ _ _ C3). intros w t k I Kk.
        apply Tr4; [|exact Kk]. exists w, t. split; [exact I|apply sub_refl].
      - apply Plain. rewrite Ern. unfold rk_next.
        assert (Kt : keqb (node_key tn) (v, 1) = false); [|rewrite Kt; reflexivity].
        destruct R3 as [Q|(N1 & Q & Pr)]; [rewrite <- Q; exact K|].
        apply keqb_false. unfold node_key. intros Q'. inversion Q' as [[Qv Qn]].
        destruct S as (_ & _ & _ & _ & Db).
        destruct (mfind kcmp nk (disk p2)) as [e|] eqn:F; [|congruence]. rewrite Q in F.
        specialize (Db _ _ F). lia.
    Qed.

    Lemma dv_some p c r tv :
      rv = Some tv -> ST p c fc r v ->
      exists p' c', delete_version H fuel v p c = (POk p', c') /\ ST p' c' f' (rk_next v rn r) (v + 1).
    Proof.
      intros Erv [PX C]. pose proof PX as [Cx P]. pose proof (pi_disk _ _ _ _ _ _ P) as S.
      destruct (rkc_get_ok (sub_of fc) fc v (disk p) c v v rv S fc_roots_live fc_nodup C
                  ltac:(lia) ltac:(left; reflexivity)) as (rootk & c1 & E1 & R1 & C1).
      rewrite dv_eq, E1. cbv beta iota zeta.
      rewrite Erv in R1. destruct rootk as [k|]; [|contradiction]. cbn [rval] in R1.
      destruct (traverse_ok p c1 r tv Erv PX C1) as (p1 & c3 & Et & PX1 & Tr & C3).
      unfold dv_step1. rewrite Et.
      assert (C3t : cache_ok c3 (disk p1) f' (v + 1)).
      { apply (cache_ok_transport c3 (disk p)).
        - apply (cache_ok_shift c3 (disk p) v rv f' v (v + 1) C3); lia.
        - intros w t k0 I K0. apply Tr; [exists w, t; split; [exact I|apply sub_refl]|exact K0]. }
      assert (PX1' : PIx f0 p1 (sub_of f') ((v, rv) :: f') f' r v) by exact PX1.
      unfold dv_p2. destruct (keqb k (v, 1)) eqn:Kk.
      - apply keqb_true in Kk. subst k.
        assert (Kt : node_key tv = (v, 1)).
        { destruct R1 as [Q|(_ & Q & _)]; [symmetry; exact Q|inversion Q]. }
        assert (Er : root_entry v rv = None) by (rewrite Erv; apply root_entry_root, Kt).
        apply (tail_ok _ _ r); [|exact C3t].
        exact (PIx_root_entry_none f0 p1 (sub_of f') f' f' r v v rv PX1' (incl_refl _) Er).
      - assert (Kt : keqb (node_key tv) (v, 1) = false).
        { destruct R1 as [Q|(N1 & Q & Pr)]; [rewrite <- Q; exact Kk|].
          apply keqb_false. unfold node_key. intros Q'. inversion Q' as [[Qv Qn]].
          destruct S as (_ & _ & _ & _ & Db).
          destruct (mfind kcmp k (disk p)) as [e|] eqn:F; [|congruence]. rewrite Q in F.
          specialize (Db _ _ F). lia. }
        assert (Er : root_entry v rv = Some ((v, 1), ERef (node_key tv))).
        { rewrite Erv. unfold root_entry. rewrite Kt. reflexivity. }
        apply (tail_ok _ _ r).
        + exact (PIx_root_entry_del f0 FI p1 (sub_of f') f' f' r v v rv _ _ PX1' (incl_refl _) v_notin_f' Er).
        + exact (cache_pwrite p1 _ (sub_of f') ((v, rv) :: f') f' r v c3 f' (v + 1) PX1' f'_roots_live C3t).
    Qed.

    Lemma dv_none p c r :
      rv = None -> ST p c fc r v ->
      exists p' c', delete_version H fuel v p c = (POk p', c') /\ ST p' c' f' (rk_next v rn r) (v + 1).
    Proof.
      intros Erv [PX C]. pose proof PX as [Cx P]. pose proof (pi_disk _ _ _ _ _ _ P) as S.
      destruct (rkc_get_ok (sub_of fc) fc v (disk p) c v v rv S fc_roots_live fc_nodup C
                  ltac:(lia) ltac:(left; reflexivity)) as (rootk & c1 & E1 & R1 & C1).
      rewrite dv_eq, E1. cbv beta iota zeta.
      rewrite Erv in R1. destruct rootk as [k|]; [contradiction|].
      unfold dv_step1, dv_p2.
      assert (PXa : PIx f0 p (sub_of f') ((v, rv) :: f') f' r v).
      { apply (PIx_relax p _ fc fc r v f' v); [|apply f'_incl|lia].
        apply (PIx_ext f0 p (sub_of fc)); [|exact PX].
        intros x. rewrite sub_fc_cases. split; [intros [A|(t & E & _)]; [exact A|congruence]|auto]. }
      assert (Er : root_entry v rv = Some ((v, 1), EEmpty)) by (rewrite Erv; reflexivity).
      apply (tail_ok _ _ r).
      - exact (PIx_root_entry_del f0 FI p (sub_of f') f' f' r v v rv _ _ PXa (incl_refl _) v_notin_f' Er).
      - apply (cache_pwrite p _ (sub_of f') ((v, rv) :: f') f' r v c1 f' (v + 1) PXa f'_roots_live).
        apply (cache_ok_shift c1 (disk p) v rv f' v (v + 1) C1); lia.
    Qed.

    Theorem delete_version_ok p c r :
      ST p c fc r v ->
      exists p' c', delete_version H fuel v p c = (POk p', c') /\ ST p' c' f' (rk_next v rn r) (v + 1).
    Proof.
      intros HS. destruct (opt_cases rv) as [(tv & E)|E]; [exact (dv_some p c r tv E HS)|exact (dv_none p c r E HS)].
    Qed.
  End One.
End Version.
