(** PruneAlgoFacts8: DeleteVersionsTo on the physical store of a forest, for a forest in which
    no two different nodes of one tree look the same to the node iterator ([no_confusion]).
    PruneAlgoFacts.v removes that hypothesis (it fails only if the hash function collides). *)
From Coq Require Import Lia Sorted.
From IAVL Require Import Bytes Varint Tree VMap TreeFacts MTree MTreeFacts HashFacts VersionFacts
  Store StoreFacts PruneAlgo PruneAlgoFacts1 PruneAlgoFacts2 PruneAlgoFacts3 PruneAlgoFacts4
  PruneAlgoFacts5 PruneAlgoFacts6 PruneAlgoFacts7.
Local Open Scope Z_scope.

Lemma skipn_zseq k : forall a n, skipn k (zseq a n) = zseq (a + Z.of_nat k) (n - k).
Proof.
  induction k as [|k IH]; intros a n.
  - cbn [skipn]. rewrite Nat.sub_0_r. f_equal. lia.
  - destruct n as [|n]; cbn [zseq skipn]; [reflexivity|]. rewrite IH. cbn [Nat.sub]. f_equal. lia.
Qed.

Definition no_confusion (H : bytes -> bytes) (f : forest_t) : Prop :=
  forall w t u c, In (w, Some t) f -> subtree u t -> subtree c t -> fhash H u = fhash H c -> u = c.

(** the leaves store the hash the iterator recomputes *)
Definition leaf_hashes (H : bytes -> bytes) (f : forest_t) : Prop :=
  forall u, sub_of f u -> fhash H u = hs (nmeta u).

Section Main.
  Variable H : bytes -> bytes.
  Variable f : forest_t.
  Variable iv : Z.
  Hypothesis FI : forest_inv f.
  Hypothesis ND : NoDup (map fst f).
  Hypothesis OK : forest_ok f iv.
  Hypothesis WF : forall w t, In (w, Some t) f -> wf t.
  Hypothesis NC : no_confusion H f.

  Definition kept (n : Z) : forest_t := filter (fun p => n <? fst p) f.

  Lemma kept_skipn n :
    f <> [] -> kept n = skipn (Z.to_nat (n + 1 - first_of f)) f.
  Proof. intros NE. apply filter_gt_skipn, (forest_ok_zseq f iv OK). Qed.

  Lemma length_f : f <> [] -> Z.of_nat (length f) = latest_of f - first_of f + 1.
  Proof.
    intros NE. destruct (forest_ok_range f iv OK NE) as (R1 & _ & R).
    rewrite <- (map_length fst f), R. unfold zrange. rewrite zseq_length. lia.
  Qed.

  (** the trees fit into the fuel *)
  Lemma fuel_ok r :
    f <> [] -> (forall w, In w r -> w < first_of f) ->
    forall w t, In (w, Some t) f -> (2 * ncount t + 1 <= prune_fuel (phys_of r f))%nat.
  Proof.
    intros NE Hr w t I.
    destruct (ST_init f iv FI ND OK r [] false NE Hr) as [[Cx P] _].
    pose proof (pi_disk _ _ _ _ _ _ P) as Sd. cbn [disk] in Sd.
    pose proof (live_count (sub_of f) f (first_of f) (phys_of r f) Sd (sub_of_nonce f FI) (fi_coh f FI)
                  (pre t) (pre_NoDup t (WF _ _ I))) as C.
    rewrite pre_length in C. unfold prune_fuel.
    assert (A : forall u, In u (pre t) -> sub_of f u).
    { intros u Iu. apply pre_In in Iu. exists w, t. auto. }
    specialize (C A). lia.
  Qed.

  (** the loop of deleteVersionsTo from the initial state of the call *)
  Theorem prune_run r sched eff n :
    f <> [] -> rekey_ok r f -> n < latest_of_forest f ->
    exists p' c',
      delete_range H (prune_fuel (phys_of r f)) (versions_from_to (first_of_forest f) n)
        (Pdb (phys_of r f) [] sched [] [] eff [] [phys_of r f]) rkc_new = POk p' /\
      ST f p' c' (kept n) (rk_run (Z.to_nat (n + 1 - first_of f)) f r) (first_of_forest (kept n)) /\
      kept n <> [].
  Proof.
    intros NE [_ Rk] Ln. rewrite first_of_forest_eq in *. rewrite latest_of_forest_eq in Ln.
    assert (Hr : forall w, In w r -> w < first_of f).
    { intros w Iw. destruct (Rk w Iw) as [A _]. exact A. }
    pose proof (forest_ok_zseq f iv OK) as Hz. pose proof (length_f NE) as Lf.
    destruct (forest_ok_range f iv OK NE) as (R1 & _ & _).
    set (k := Z.to_nat (n + 1 - first_of f)).
    assert (Lk : (k < length f)%nat) by (unfold k; lia).
    rewrite versions_from_to_zseq. fold k.
    destruct (delete_range_ok H f iv FI ND OK WF NC (prune_fuel (phys_of r f)) (fuel_ok r NE Hr)
                k f [] (first_of f) _ rkc_new r eq_refl Hz Lk (ST_init f iv FI ND OK r sched eff NE Hr))
      as (p' & c' & E & HS).
    exists p', c'. split; [exact E|].
    rewrite (kept_skipn n NE). fold k.
    assert (Hk : map fst (skipn k f) = zseq (first_of f + Z.of_nat k) (length f - k)).
    { rewrite <- skipn_map, Hz. apply skipn_zseq. }
    assert (NEk : skipn k f <> []).
    { intros Q. rewrite Q in Hk. cbn [map] in Hk. destruct (length f - k)%nat eqn:D; [lia|discriminate]. }
    split; [|exact NEk].
    assert (Ef : first_of (skipn k f) = first_of f + Z.of_nat k).
    { rewrite first_of_hd, Hk. destruct (length f - k)%nat eqn:D; [lia|reflexivity]. }
    rewrite first_of_forest_eq, Ef. exact HS.
  Qed.

  (** THE WHOLE CALL, for forests without look-alike nodes; any schedule, either flush mode *)
  Theorem prune_forest_nc r sched eff n :
    f <> [] -> rekey_ok r f -> n < latest_of_forest f ->
    exists st' log fl,
      prune_forest H eff r f sched n = POk (st', log, fl) /\
      st' = phys_of (rekeyed st') (kept n) /\ rekey_ok (rekeyed st') (kept n) /\
      norm_store st' = expected_store (kept n).
  Proof.
    intros NE RK Ln. destruct (prune_run r sched eff n NE RK Ln) as (p' & c' & E & [PX _] & NEk).
    unfold prune_forest, prune_phys.
    replace (latest_of_forest f <=? n) with false by (symmetry; apply Z.leb_gt; exact Ln).
    cbv zeta. rewrite E. eexists _, _, _. split; [reflexivity|].
    destruct (pflush_facts p') as (Ed & _ & _ & _). rewrite Ed.
    destruct PX as [Cx P].
    assert (FI' : forest_inv (kept n)) by apply forest_inv_filter, FI.
    assert (ND' : NoDup (map fst (kept n))) by apply NoDup_filter_fst, ND.
    split; [|split].
    - exact (final_phys f FI (kept n) FI' ND' _ _ (Vof p') Cx (pi_V _ _ _ _ _ _ P)).
    - exact (final_rekey_ok f FI (kept n) _ _ (Vof p') Cx (pi_V _ _ _ _ _ _ P) eq_refl).
    - exact (final_norm (kept n) FI' ND' _ (Vof p') (pi_V _ _ _ _ _ _ P)).
  Qed.

  (** every state the disk goes through reads back every retained version *)
  Theorem prune_forest_disks_nc r sched eff n :
    f <> [] -> rekey_ok r f -> n < latest_of_forest f -> leaf_hashes H f ->
    exists disks,
      prune_forest_disks H eff r f sched n = POk disks /\
      Forall (fun d => readable H d (kept n) = true) disks.
  Proof.
    intros NE RK Ln LH. destruct (prune_run r sched eff n NE RK Ln) as (p' & c' & E & [PX _] & NEk).
    unfold prune_forest_disks, prune_phys_disks.
    replace (latest_of_forest f <=? n) with false by (symmetry; apply Z.leb_gt; exact Ln).
    cbv zeta. rewrite E. eexists. split; [reflexivity|].
    destruct (pflush_facts p') as (_ & _ & Eh & _). rewrite Eh.
    destruct PX as [Cx P].
    assert (FI' : forest_inv (kept n)) by apply forest_inv_filter, FI.
    assert (WF' : forall w t, In (w, Some t) (kept n) -> wf t).
    { intros w t I. apply filter_In in I. exact (WF w t (proj1 I)). }
    assert (LH' : forall u, sub_of (kept n) u -> fhash H u = hs (nmeta u)).
    { intros u Su. apply LH. exact (sub_of_filter _ f u Su). }
    assert (G : forall d, safe (sub_of (kept n)) (kept n) (first_of_forest (kept n)) d ->
                          readable H d (kept n) = true).
    { intros d Sd. exact (readable_safe H (kept n) _ d FI' WF' LH' Sd). }
    apply Forall_app. split.
    - eapply Forall_impl; [|exact (pi_hist _ _ _ _ _ _ P)]. exact G.
    - constructor; [|constructor]. apply G. exact (proj1 (pi_Vgood _ _ _ _ _ _ P)).
  Qed.
  (** the final store depends neither on the flush schedule nor on the flush mode *)
  Theorem prune_forest_schedule_nc r sched1 eff1 sched2 eff2 n st1 log1 fl1 st2 log2 fl2 :
    f <> [] -> rekey_ok r f -> n < latest_of_forest f ->
    prune_forest H eff1 r f sched1 n = POk (st1, log1, fl1) ->
    prune_forest H eff2 r f sched2 n = POk (st2, log2, fl2) ->
    st1 = st2.
  Proof.
    intros NE RK Ln E1 E2.
    destruct (prune_run r sched1 eff1 n NE RK Ln) as (p1 & c1 & R1 & [[_ P1] _] & _).
    destruct (prune_run r sched2 eff2 n NE RK Ln) as (p2 & c2 & R2 & [[_ P2] _] & _).
    unfold prune_forest, prune_phys in E1, E2.
    replace (latest_of_forest f <=? n) with false in * by (symmetry; apply Z.leb_gt; exact Ln).
    cbv zeta in E1, E2. rewrite R1 in E1. rewrite R2 in E2.
    inversion E1; subst. inversion E2; subst.
    exact (pst_ext _ _ _ (pi_V _ _ _ _ _ _ P1) (pi_V _ _ _ _ _ _ P2)).
  Qed.
End Main.
