(** M1: the MutableTree state machine at the logical level (mutable_tree.go,
    immutable_tree.go, the version bookkeeping of nodedb.go).  No cache, flush
    threshold, sync flag, fast index or backend appears here: the answers cannot
    depend on them by construction. *)
From IAVL Require Import Bytes Varint Tree.
Local Open Scope Z_scope.

Record mstate := MState {
  root : option node;                 (* working tree *)
  version : Z;                        (* tree.version: version the working tree is based on *)
  last_saved : option node;           (* lastSaved.root *)
  forest : list (Z * option node);    (* retained versions, ascending *)
  init_ver : Z;                       (* Options.InitialVersion *)
  init_set : bool;                    (* tree.initialVersionSet *)
  init_opt : bool                     (* the option is passed at every (re)open *)
}.

Definition init_state (iv : Z) (ivset : bool) : mstate :=
  MState None 0 None [] iv ivset ivset.

Fixpoint lookup {A} (v : Z) (l : list (Z * A)) : option A :=
  match l with
  | [] => None
  | (w, a) :: rest => if w =? v then Some a else lookup v rest
  end.

Definition first_version (s : mstate) : Z :=
  match forest s with [] => 0 | (v, _) :: _ => v end.
Definition latest_version (s : mstate) : Z := fold_left (fun _ p => fst p) (forest s) 0.
Definition version_exists (s : mstate) (v : Z) : bool :=
  match lookup v (forest s) with Some _ => true | None => false end.
Definition available (s : mstate) : list Z := map fst (forest s).

Definition working_version (s : mstate) : Z :=
  if (version s + 1 =? 1) && init_set s then init_ver s else version s + 1.

(** Which tree a read is addressed to. *)
Inductive target := TWorking | TVersion (v : Z).

Inductive read :=
| RGet (k : bytes)
| RHas (k : bytes)
| RGetWithIndex (k : bytes)
| RGetByIndex (i : Z)
| RSize
| RHeight
| RIter (start stop : option bytes) (incl asc : bool)
| RHash
| RTouch.

Inductive op :=
| OSet (k v : bytes)
| OSetNil (k : bytes)
| ORemove (k : bytes)
| OSave
| ORollback
| OReopen
| OLoad (v : Z)
| OPrune (n : Z)
| OLvfo (v : Z)
| ORead (t : target) (r : read)
| OGetVersioned (k : bytes) (v : Z)
| OVersionExists (v : Z)
| OLatest
| OAvailable
| OWorkingHash
| OWorkingVersion
| OHash.

Inductive out :=
| XErr
| XOk
| XBool (b : bool)
| XInt (z : Z)
| XBytes (b : option bytes)
| XKvs (l : list (bytes * bytes))
| XInts (l : list Z)
| XPair (a b : out).

Section Machine.
  Variable H : bytes -> bytes.

  Definition tree_read (wv : Z) (t : option node) (r : read) : out :=
    match r with
    | RGet k => XBytes (match t with None => None | Some n => snd (get n k) end)
    | RHas k => XBool (match t with None => false | Some n => has n k end)
    | RGetWithIndex k =>
        match t with
        | None => XPair (XInt 0) (XBytes None)
        | Some n => let (i, v) := get n k in XPair (XInt i) (XBytes v)
        end
    | RGetByIndex i =>
        match t with
        | None => XPair (XBytes None) (XBytes None)
        | Some n =>
            match get_by_index n i with
            | Some (k, v) => XPair (XBytes (Some k)) (XBytes (Some v))
            | None => XPair (XBytes None) (XBytes None)
            end
        end
    | RSize => XInt (match t with None => 0 | Some n => size n end)
    | RHeight => XInt (match t with None => 0 | Some n => height n end)
    | RIter start stop incl asc => XKvs (range_spec (oelems t) start stop incl asc)
    | RHash => XBytes (Some (root_hash H wv t))
    | RTouch => XOk
    end.

  Definition do_set (s : mstate) (k v : bytes) : mstate * out :=
    match root s with
    | None =>
        (MState (Some (Leaf k v new_meta)) (version s) (last_saved s) (forest s)
                (init_ver s) (init_set s) (init_opt s), XBool false)
    | Some n =>
        let (n', upd) := set n k v in
        (MState (Some n') (version s) (last_saved s) (forest s)
                (init_ver s) (init_set s) (init_opt s), XBool upd)
    end.

  Definition do_remove (s : mstate) (k : bytes) : mstate * out :=
    match root s with
    | None => (s, XPair (XBytes None) (XBool false))
    | Some n =>
        let res := remove n k in
        match rm_val res with
        | None => (s, XPair (XBytes None) (XBool false))
        | Some val =>
            (MState (rm_self res) (version s) (last_saved s) (forest s)
                    (init_ver s) (init_set s) (init_opt s),
             XPair (XBytes (Some val)) (XBool true))
        end
    end.

  Definition do_save (s : mstate) : mstate * out :=
    let wv := working_version s in
    if version_exists s wv then
      match lookup wv (forest s) with
      | Some existing =>
          let newh := root_hash H wv (root s) in
          let same :=
            match existing, root s with
            | None, None => true
            | Some e, _ => if list_eq_dec N.eq_dec (hs (nmeta e)) newh then true else false
            | None, Some _ => false
            end in
          if same then
            (MState existing wv existing (forest s) (init_ver s) false (init_opt s),
             XPair (XBytes (Some newh)) (XInt wv))
          else
            (MState (root s) (version s) (last_saved s) (forest s) (init_ver s) false (init_opt s),
             XErr)
      | None => (s, XErr)
      end
    else
      let r' := match root s with None => None | Some n => Some (fst (stamp H wv 0 n)) end in
      (MState r' wv r' (forest s ++ [(wv, r')]) (init_ver s) false (init_opt s),
       XPair (XBytes (Some (root_hash H wv r'))) (XInt wv)).

  Definition do_load (s : mstate) (target : Z) : mstate * out :=
    let first := first_version s in
    let latest := latest_version s in
    if (0 <? first) && (first <? init_ver s) then (s, XErr)
    else if latest <? target then (s, XErr)
    else
      match forest s with
      | [] => if target <=? 0 then (s, XInt 0) else (s, XErr)
      | _ =>
          let tv := if target <=? 0 then latest else target in
          match lookup tv (forest s) with
          | None => (s, XErr)
          | Some r =>
              (MState r tv r (forest s) (init_ver s) (init_set s) (init_opt s), XInt latest)
          end
      end.

  Definition do_prune (s : mstate) (n : Z) : mstate * out :=
    if latest_version s <=? n then (s, XErr)
    else
      (MState (root s) (version s) (last_saved s)
              (filter (fun p => n <? fst p) (forest s))
              (init_ver s) (init_set s) (init_opt s), XOk).

  Definition do_lvfo (s : mstate) (v : Z) : mstate * out :=
    match do_load s v with
    | (s', XInt _) =>
        (MState (root s') (version s') (last_saved s')
                (filter (fun p => fst p <=? v) (forest s'))
                (init_ver s') (init_set s') (init_opt s'), XOk)
    | (s', _) => (s', XErr)
    end.

  Definition do_reopen (s : mstate) : mstate * out :=
    let fresh := MState None 0 None (forest s) (init_ver s) (init_opt s) (init_opt s) in
    match do_load fresh 0 with
    | (s', XInt _) => (s', XOk)
    | (s', _) => (s', XErr)
    end.

  Definition step (s : mstate) (o : op) : mstate * out :=
    match o with
    | OSet k v => do_set s k v
    | OSetNil k => (s, XErr)
    | ORemove k => do_remove s k
    | OSave => do_save s
    | ORollback =>
        (MState (if 0 <? version s then last_saved s else None) (version s) (last_saved s)
                (forest s) (init_ver s) (init_set s) (init_opt s), XOk)
    | OReopen => do_reopen s
    | OLoad v => do_load s v
    | OPrune n => do_prune s n
    | OLvfo v => do_lvfo s v
    | ORead TWorking r => (s, tree_read (working_version s) (root s) r)
    | ORead (TVersion v) r =>
        match lookup v (forest s) with
        | Some t => (s, tree_read (v + 1) t r)
        | None => (s, XErr)
        end
    | OGetVersioned k v =>
        match lookup v (forest s) with
        | Some (Some n) => (s, XBytes (snd (get n k)))
        | _ => (s, XBytes None)
        end
    | OVersionExists v => (s, XBool (version_exists s v))
    | OLatest => (s, XInt (latest_version s))
    | OAvailable => (s, XInts (available s))
    | OWorkingHash => (s, XBytes (Some (root_hash H (working_version s) (root s))))
    | OWorkingVersion => (s, XInt (working_version s))
    | OHash => (s, XBytes (Some (root_hash H (version s + 1) (last_saved s))))
    end.

  Fixpoint run (s : mstate) (ops : list op) : mstate * list out :=
    match ops with
    | [] => (s, [])
    | o :: rest =>
        let (s1, x) := step s o in
        let (s2, xs) := run s1 rest in
        (s2, x :: xs)
    end.
End Machine.
