(** PruneFaultFacts3: the double traversal with a failing storage call ([loop_f_ok]): either no
    call failed and the result is PruneAlgo's, or the loop stops with an error, having written
    nothing that PruneAlgo's loop would not have written, and what it leaves behind is safe for the
    versions that are not being deleted. *)
From Coq Require Import Lia.
From IAVL Require Import Bytes Varint Tree VMap TreeFacts MTree MTreeFacts HashFacts VersionFacts
  Store StoreFacts PruneAlgo PruneAlgoFacts1 PruneAlgoFacts2 PruneAlgoFacts3 PruneAlgoFacts4
  PruneAlgoFacts5 PruneFault PruneFaultFacts1 PruneFaultFacts2.
Local Open Scope Z_scope.

Section Outcome.
  Variable fK : forest_t.
  Variable bK : Z.

  (** [r]: what PruneAlgo's function returns from [fp s] *)
  Definition outcome (r : pres pdb) (st : pres unit) (s s' : fdb) : Prop :=
    wadv s s' /\
    ((live s' /\ rel r st s') \/
     (~ live s' /\ st = PErr /\ ERR fK bK (fp s') /\ wpre (fp s) (fp s') /\
      forall pfin, r = POk pfin -> wpre (fp s') pfin)).

  Lemma outcome_shift r st s0 s s' :
    outcome r st s s' -> wadv s0 s -> wpre (fp s0) (fp s) -> outcome r st s0 s'.
  Proof.
    intros (A & B) A0 W0. split; [exact (wadv_trans _ _ _ A0 A)|].
    destruct B as [B|(D & E & Er & W & F)]; [left; exact B|right].
    split; [exact D|]. split; [exact E|]. split; [exact Er|]. split; [exact (wpre_trans _ _ _ W0 W)|exact F].
  Qed.

  Lemma outcome_dead r s0 s :
    wadv s0 s -> ~ live s -> ERR fK bK (fp s) -> wpre (fp s0) (fp s) ->
    (forall pfin, r = POk pfin -> wpre (fp s) pfin) -> outcome r PErr s0 s.
  Proof. intros A D E W F. split; [exact A|]. right. auto. Qed.
End Outcome.

Lemma loop_g_dead_cur H fuel v s cur prev org :
  nerr cur = true -> orphans_loop_g H true (S fuel) v s cur prev org = (PErr, s).
Proof.
  intros E. cbn [orphans_loop_g]. rewrite E. destruct (negb (nit_valid prev)); reflexivity.
Qed.

Lemma loop_g_dead_prev H fuel v s cur prev org :
  nerr prev = true -> orphans_loop_g H true (S fuel) v s cur prev org = (PErr, s).
Proof.
  intros E. cbn [orphans_loop_g]. unfold nit_valid at 1. rewrite E. cbn [negb andb].
  destruct (nerr cur); reflexivity.
Qed.

Lemma wpre_orphan_mid v p k : wpre (pwrite p (del_node k)) (on_orphan v p k).
Proof.
  unfold on_orphan. destruct ((snd k =? 1) && (fst k <? v)); [apply wpre_pwrite|apply wpre_refl].
Qed.

Section LoopF.
  Variable H : bytes -> bytes.
  Variable f0 : forest_t.
  Hypothesis FI : forest_inv f0.
  Variables (v : Z) (f' : forest_t) (tv : node) (otn : option node) (ro : forest_t) (r : list Z).
  Hypothesis Itv : exists w, In (w, Some tv) f0.
  Hypothesis HA : forall c, inn otn c -> (ver (nmeta c) <= v <-> subtree c tv).
  Hypothesis HN : forall u, subtree u tv -> ~ inn otn u -> ~ sub_of f' u.
  Hypothesis HS : forall u, inn otn u -> sub_of f' u.
  Hypothesis NC : forall u c, subtree u tv -> subtree c tv -> fhash H u = fhash H c -> u = c.
  (** the versions that are not being deleted *)
  Variables (fK : forest_t) (bK : Z).
  Hypothesis HK1 : forall x, sub_of fK x -> sub_of f' x.
  Hypothesis HK2 : incl fK f'.
  Hypothesis HK0 : incl f' f0.
  Hypothesis HKb : v <= bK.

  Lemma sub_tv_f0 u : subtree u tv -> sub_of f0 u.
  Proof. intros S. destruct Itv as (w & I). exists w, tv. auto. Qed.

  (** the key under which an orphan is asked for is needed by no retained version *)
  Lemma orphan_key_free d k u :
    subtree u tv -> ~ sub_of f' u -> keyok d k u ->
    (forall x, sub_of fK x -> k <> node_key x) /\
    (forall x, sub_of fK x -> nonce (nmeta x) = 1 -> k <> (ver (nmeta x), 0)) /\
    (forall w rt, In (w, rt) fK -> k <> (w, 1)).
  Proof.
    intros Su Nf K. pose proof (sub_tv_f0 u Su) as Su0.
    assert (X0 : forall x, sub_of fK x -> sub_of f0 x).
    { intros x Sx. apply HK1 in Sx. destruct Sx as (w & t & I & S). exists w, t. split; [apply HK0, I|exact S]. }
    assert (Ne : forall x, sub_of fK x -> node_key x <> node_key u).
    { intros x Sx E. apply Nf. rewrite <- (fi_coh f0 FI x u (X0 x Sx) Su0 E). apply HK1, Sx. }
    pose proof (sub_of_nonce f0 FI u Su0) as Nu.
    split; [|split].
    - intros x Sx Q. pose proof (sub_of_nonce f0 FI x (X0 x Sx)) as Nx.
      destruct K as [->|(N1 & -> & _)].
      + exact (Ne x Sx (eq_sym Q)).
      + unfold node_key in Q. inversion Q. lia.
    - intros x Sx N1x Q. destruct K as [->|(N1 & -> & _)].
      + unfold node_key in Q. inversion Q. lia.
      + apply (Ne x Sx). unfold node_key. inversion Q. congruence.
    - intros w rt I Q. destruct K as [->|(N1 & -> & _)]; [|inversion Q].
      pose proof (fi_root f0 FI w rt u (HK0 _ (HK2 _ I)) Su0 Q) as ->.
      apply Nf. apply HK1. exists w, u. split; [exact I|apply sub_refl].
  Qed.

  Lemma ERR_of_PIx p (L : node -> Prop) sro b :
    PIx f0 p L ro sro r b -> (forall x, sub_of f' x -> L x) -> incl f' sro -> b <= bK -> ERR fK bK p.
  Proof.
    intros [_ P] HL HS' Hb. apply (ERR_of_PI fK bK p L sro r b _ P); auto.
    intros x Sx. exact (HS' x (HK2 x Sx)).
  Qed.

  Theorem loop_f_ok : forall fuel s cur prev org cs ps oc st s',
    LI f0 v f' tv otn ro r (fp s) cur prev org cs ps oc -> (msum cs + msum ps + 1 <= fuel)%nat ->
    live s ->
    orphans_loop_g H true fuel v s cur prev org = (st, s') ->
    outcome fK bK (orphans_loop H fuel v (fp s) cur prev org) st s s'.
  Proof.
    induction fuel as [|fuel IH]; intros s cur prev org cs ps oc st s' I Fu Lv Q; [lia|].
    destruct I as [Scur Sprev Sorg Ccs Coc Nd Cps Ieq PX].
    cbn [orphans_loop_g] in Q. cbn [orphans_loop].
    rewrite (stk_valid _ _ _ Sprev) in Q |- *.
    destruct ps as [|u us].
    { cbn [negb] in Q |- *. rewrite (proj1 Scur), (proj1 Sprev) in Q |- *. inversion Q; subst.
      split; [apply wadv_refl|]. left. split; [exact Lv|reflexivity]. }
    cbn [negb andb] in Q |- *. rewrite (proj1 Scur) in Q |- *.
    rewrite (stk_valid _ _ _ Scur) in Q |- *.
    destruct (stk_cons_inv _ _ _ _ Sprev) as (pk & prest & Ep & Kp & Fp & Np).
    assert (Su : subtree u tv) by (apply Cps; left; reflexivity).
    assert (Lu : Lof f' (u :: us) u) by (apply (Lof_sub f' _ _ u); [left; reflexivity|apply sub_refl]).
    assert (ERRp : ERR fK bK (fp s)).
    { apply (ERR_of_PIx (fp s) (Lof f' (u :: us)) f' v PX); [intros x Sx; left; exact Sx|apply incl_refl|exact HKb]. }
    assert (PrevStep :
      forall (Horg : match org with
                     | Some ks => exists c, oc = Some c /\ sk (disk (fp s)) ks c
                     | None => oc = None /\ cs = []
                     end) st s',
      match nstack prev with
      | (pk, pn) :: _ =>
          if match org with
             | Some (ok, on) => beq (fetched_hash H pk pn) (fetched_hash H ok on)
             | None => false
             end
          then let (prev', s1) := nit_next_f s prev true in orphans_loop_g H true fuel v s1 cur prev' None
          else match on_orphan_f v s pk with
               | (true, s1) => let (prev', s2) := nit_next_f s1 prev false in
                               orphans_loop_g H true fuel v s2 cur prev' org
               | (false, s1) => (PErr, s1)
               end
      | [] => (PErr, s)
      end = (st, s') ->
      outcome fK bK
        (match nstack prev with
         | (pk, pn) :: _ =>
             if match org with
                | Some (ok, on) => beq (fetched_hash H pk pn) (fetched_hash H ok on)
                | None => false
                end
             then orphans_loop H fuel v (fp s) cur (nit_next (disk (fp s)) prev true) None
             else orphans_loop H fuel v (on_orphan v (fp s) pk) cur
                    (nit_next (disk (on_orphan v (fp s) pk)) prev false) org
         | [] => PErr
         end) st s s').
    { clear Q st s'. intros Horg st s' Q. rewrite Ep in Q |- *.
      set (same := match org with
                   | Some (ok, on) => beq (fetched_hash H pk (snode_of u)) (fetched_hash H ok on)
                   | None => false
                   end) in *.
      assert (Fu' : fetched_hash H pk (snode_of u) = fhash H u)
        by (apply fetched_fhash, (keyok_ver _ _ _ Kp)).
      destruct same eqn:Same.
      - (* equal hashes: skip the shared subtree *)
        rewrite nit_next_f_skip in Q.
        destruct org as [[ok on]|]; [|discriminate]. destruct Horg as (c & Eoc & [Ec Kc]).
        cbn [fst snd] in Ec, Kc. subst on. unfold same in Same. apply beq_true in Same.
        rewrite Fu', (fetched_fhash H ok c (keyok_ver _ _ _ Kc)) in Same.
        destruct (Coc c Eoc) as [Ic Vc].
        assert (Sc : subtree c tv) by (apply HA; assumption).
        pose proof (NC u c Su Sc Same) as ->.
        assert (Pc : PB otn c = true) by (apply PB_true, Ic).
        apply (IH s cur (nit_next (disk (fp s)) prev true) None cs us None st s'); auto.
        + constructor; auto.
          * apply (stk_next_skip _ _ c us Sprev).
          * intros c0 Q0. discriminate.
          * cbn [flat_map] in Nd. exact (NoDup_app_r _ _ Nd).
          * intros x Ix. apply Cps. right. exact Ix.
          * subst oc. cbn [flat_map olist app] in Ieq. rewrite (mx_hit _ _ Pc) in Ieq.
            cbn [app] in Ieq. inversion Ieq. reflexivity.
          * apply (PIx_ext f0 (fp s) (Lof f' (c :: us))); [|exact PX]. intros x. unfold Lof.
            cbn [flat_map]. rewrite in_app_iff. split; [|tauto].
            intros [A|[A|A]]; auto. left. apply HS. apply pre_In in A. exact (inn_sub otn c x Ic A).
        + rewrite msum_cons in Fu. pose proof (ncount_pos c). lia.
      - (* an orphan *)
        assert (NPB : PB otn u = false).
        { destruct (PB otn u) eqn:Pu; [|reflexivity]. exfalso.
          cbn [flat_map] in Ieq. rewrite (mx_hit _ _ Pu) in Ieq. cbn [app] in Ieq.
          destruct org as [[ok on]|].
          - destruct Horg as (c & Eoc & [Ec Kc]). cbn [fst snd] in Ec, Kc. subst on oc.
            cbn [olist app] in Ieq. injection Ieq as Q0 _. subst c.
            unfold same in Same. rewrite Fu', (fetched_fhash H ok u (keyok_ver _ _ _ Kc)) in Same.
            apply beq_false in Same. congruence.
          - destruct Horg as [-> ->]. cbn [olist flat_map app] in Ieq. discriminate. }
        assert (Nu : ~ inn otn u) by (intros C; apply PB_true in C; congruence).
        assert (Nf : ~ sub_of f' u) by (apply HN; assumption).
        assert (NR : forall w t, In (w, Some t) f' -> t <> u).
        { intros w t It ->. apply Nf. exists w, u. split; [exact It|apply sub_refl]. }
        destruct (PIx_orphan f0 FI v (fp s) (Lof f' (u :: us)) ro f' r pk u PX Lu Kp NR) as [PX' Tr].
        set (p1 := on_orphan v (fp s) pk) in *.
        assert (Eq1 : forall x, minus (Lof f' (u :: us)) u x <-> Lof f' (kids u ++ us) x).
        { intros x. unfold minus, Lof. cbn [flat_map]. rewrite flat_map_app.
          rewrite pre_kids. cbn [app In]. rewrite !in_app_iff.
          cbn [flat_map] in Nd. rewrite pre_kids in Nd. cbn [app] in Nd.
          inversion Nd as [|? ? Nin Nd']; subst. rewrite in_app_iff in Nin. split.
          - intros [[A|[A|[A|A]]] Ne]; auto. congruence.
          - intros [A|[A|A]].
            + split; [auto|]. intros ->. contradiction.
            + split; [auto|]. intros ->. tauto.
            + split; [auto|]. intros ->. tauto. }
        pose proof (PIx_ext f0 p1 _ _ ro f' r v Eq1 PX') as PX1.
        assert (Tr' : forall x k, Lof f' (kids u ++ us) x -> keyok (disk (fp s)) k x -> keyok (disk p1) k x).
        { intros x k Lx. apply Tr, Eq1, Lx. }
        assert (ERR1 : ERR fK bK p1).
        { apply (ERR_of_PIx p1 (Lof f' (kids u ++ us)) f' v PX1); [intros x Sx; left; exact Sx|apply incl_refl|exact HKb]. }
        destruct (on_orphan_f v s pk) as [ok s1] eqn:O.
        destruct (on_orphan_f_spec v s pk ok s1 O Lv) as (A1 & B1).
        destruct B1 as [(-> & L1 & E1)|(-> & D1 & pm & Epm & Es1)].
        + (* the orphan is deleted; fetch its children *)
          fold p1 in E1.
          destruct (nit_next_f s1 prev false) as [prev' s2] eqn:X.
          destruct (nit_next_f_spec s1 prev false prev' s2 X L1) as (A2 & B2).
          pose proof A2 as (E2 & _). rewrite E1 in E2.
          assert (W12 : wadv s s2) by exact (wadv_trans _ _ _ A1 (adv_wadv _ _ A2)).
          assert (Wp : wpre (fp s) (fp s2)) by (rewrite E2; apply wpre_on_orphan).
          destruct B2 as [[L2 ->]|[D2 Ne2]].
          * assert (Q' : orphans_loop_g H true fuel v s2 cur (nit_next (disk (fp s2)) prev false) org = (st, s'))
              by (rewrite E2, <- E1; exact Q).
            apply (outcome_shift fK bK _ st s s2 s'); [|exact W12|exact Wp].
            rewrite <- E2.
            refine (IH s2 cur _ org cs (kids u ++ us) oc st s' _ _ L2 Q').
            2:{ rewrite msum_app. rewrite msum_cons, (msum_kids u) in Fu. lia. }
            rewrite E2. constructor; auto.
            -- apply (stk_transport _ _ _ _ Scur). intros x k Ix. apply Tr'. left. apply HS, Ccs, Ix.
            -- destruct PX1 as [_ P1].
               apply (nit_next_noskip (Lof f' (kids u ++ us)) f' v (disk p1) prev pk u prest us Ep Np
                        (pi_disk _ _ _ _ _ _ P1)).
               ++ intros c Ic. apply (Lof_sub f' _ _ c); [apply in_or_app; left; exact Ic|apply sub_refl].
               ++ apply (Forall2_sk_transport _ _ _ _ Fp). intros x k Ix. apply Tr'.
                  apply (Lof_sub f' _ _ x); [apply in_or_app; right; exact Ix|apply sub_refl].
            -- destruct org as [ks|], oc as [c|]; try exact Sorg. destruct Sorg as [A B].
               split; [exact A|]. apply Tr'; [|exact B]. left. apply HS. apply (Coc c eq_refl).
            -- cbn [flat_map] in Nd. rewrite pre_kids in Nd. cbn [app] in Nd.
               inversion Nd; subst. rewrite flat_map_app. assumption.
            -- intros x Ix. apply in_app_or in Ix. destruct Ix as [Ix|Ix].
               ++ exact (sub_trans _ _ _ (kids_sub u x Ix) Su).
               ++ apply Cps. right. exact Ix.
            -- rewrite flat_map_app, <- (mx_kids _ _ NPB). exact Ieq.
          * (* the read failed: the iterator of the previous tree carries the error *)
            assert (F1 : (1 <= fuel)%nat) by (rewrite msum_cons in Fu; pose proof (ncount_pos u); lia).
            destruct fuel as [|fuel']; [lia|].
            rewrite (loop_g_dead_prev H fuel' v s2 cur prev' org Ne2) in Q. inversion Q; subst.
            apply outcome_dead; auto.
            -- rewrite E2. exact ERR1.
            -- intros pfin Ef. rewrite E2. exact (loop_wpre H _ _ _ _ _ _ _ Ef).
        + (* a write of the callback failed *)
          inversion Q; subst.
          assert (ERRm : ERR fK bK pm).
          { destruct Epm as [->| ->]; [exact ERRp|].
            apply ERR_pwrite; [exact ERRp|]. rewrite sapply_del.
            destruct (orphan_key_free (disk (fp s)) pk u Su Nf Kp) as (K1 & K2 & K3).
            apply safe_mdel; [exact (proj2 ERRp)|exact K1|exact K2|exact K3]. }
          assert (Wm : wpre (fp s) pm /\ wpre pm p1).
          { destruct Epm as [->| ->]; split; try apply wpre_refl; try apply wpre_pwrite;
              [apply wpre_on_orphan|apply wpre_orphan_mid]. }
          apply outcome_dead; auto.
          * exact (ERR_failed fK bK pm _ ERRm Es1).
          * destruct Es1 as [->| ->]; [apply Wm|apply wpre_pflushed_r, Wm].
          * intros pfin Ef. apply (loop_wpre H) in Ef.
            destruct Es1 as [->| ->]; [|apply wpre_pflushed_l];
              exact (wpre_trans _ _ _ (proj2 Wm) Ef). }
    destruct org as [[ok on]|].
    - destruct oc as [c|]; [|contradiction]. apply PrevStep; [|exact Q]. exists c. auto.
    - destruct oc as [c|]; [contradiction|].
      destruct cs as [|c cs'].
      + apply PrevStep; [auto|exact Q].
      + destruct (stk_cons_inv _ _ _ _ Scur) as (ck & crest & Ec & Kc & Fc & Nc).
        rewrite Ec in Q |- *. rewrite (keyok_ver _ _ _ Kc) in Q |- *.
        assert (Ic : inn otn c) by (apply Ccs; left; reflexivity).
        destruct (ver (nmeta c) <=? v) eqn:Tc.
        * rewrite nit_next_f_skip in Q.
          apply (IH s (nit_next (disk (fp s)) cur true) prev (Some (ck, snode_of c)) cs' (u :: us) (Some c) st s'); auto.
          -- constructor; auto.
             ++ apply (stk_next_skip _ _ c cs' Scur).
             ++ split; [reflexivity|exact Kc].
             ++ intros x Ix. apply Ccs. right. exact Ix.
             ++ intros c0 Q0. inversion Q0; subst c0. split; [exact Ic|]. apply Z.leb_le, Tc.
             ++ rewrite Ieq. cbn [olist flat_map app]. unfold PA at 1. rewrite (mx_hit _ _ Tc). reflexivity.
          -- rewrite msum_cons in Fu. pose proof (ncount_pos c). lia.
        * destruct (nit_next_f s cur false) as [cur' s1] eqn:X.
          destruct (nit_next_f_spec s cur false cur' s1 X Lv) as (A1 & B1).
          pose proof A1 as (E1 & _).
          destruct B1 as [[L1 ->]|[D1 Ne1]].
          -- assert (Q' : orphans_loop_g H true fuel v s1 (nit_next (disk (fp s1)) cur false) prev None = (st, s'))
               by (rewrite E1; exact Q).
             apply (outcome_shift fK bK _ st s s1 s'); [|exact (adv_wadv _ _ A1)|rewrite E1; apply wpre_refl].
             rewrite <- E1.
             refine (IH s1 _ prev None (kids c ++ cs') (u :: us) None st s' _ _ L1 Q').
             2:{ rewrite msum_app. rewrite msum_cons, (msum_kids c) in Fu. lia. }
             rewrite E1. constructor; auto.
             ++ destruct PX as [_ P0].
                apply (nit_next_noskip (Lof f' (u :: us)) f' v (disk (fp s)) cur ck c crest cs' Ec Nc
                         (pi_disk _ _ _ _ _ _ P0)); [|exact Fc].
                intros x Ix. left. apply HS. exact (inn_sub otn c x Ic (kids_sub c x Ix)).
             ++ intros x Ix. apply in_app_or in Ix. destruct Ix as [Ix|Ix].
                ** exact (inn_sub otn c x Ic (kids_sub c x Ix)).
                ** apply Ccs. right. exact Ix.
             ++ rewrite Ieq. cbn [olist flat_map app]. rewrite flat_map_app.
                rewrite <- (mx_kids (PA v) c Tc). reflexivity.
          -- (* a read of the CURRENT tree failed: the fixed loop stops here *)
             assert (F1 : (1 <= fuel)%nat) by (rewrite !msum_cons in Fu; pose proof (ncount_pos u); lia).
             destruct fuel as [|fuel']; [lia|].
             rewrite (loop_g_dead_cur H fuel' v s1 cur' prev None Ne1) in Q. inversion Q; subst.
             apply outcome_dead; auto.
             ++ exact (adv_wadv _ _ A1).
             ++ rewrite E1. exact ERRp.
             ++ rewrite E1. apply wpre_refl.
             ++ intros pfin Ef. rewrite E1. exact (loop_wpre H _ _ _ _ _ _ _ Ef).
  Qed.
End LoopF.
