(** M3f: the life cycle of the fast-node index (mutable_tree.go: Get, GetVersioned, Iterator,
    set/remove bookkeeping, SaveVersion, Rollback, LoadVersion, LoadVersionForOverwriting,
    enableFastStorageAndCommitIfNotEnabled; immutable_tree.go: Get, IsFastCacheEnabled;
    nodedb.go: storage version label, shouldForceFastStorageUpgrade, DeleteVersionsFrom).

    The state couples the logical MutableTree state (MTree) with
      - the PERSISTED index: key -> (version last updated, value), and the persisted label
        ([None] = "1.0.0", [Some v] = "1.1.0-v");
      - the in-memory copy of the label held by the open tree object (nodeDB.storageVersion);
      - the option the tree was opened with ([skipf] = skipFastStorageUpgrade);
      - the unsaved additions / removals of the open tree object.
    Each operation returns the answer THE CODE computes, i.e. through the index whenever the code
    takes that path.  FastLifeFacts proves that these answers are the logical ones (MTree) in
    every reachable state, whatever sequence of opens (index on / off), loads of old versions,
    rollbacks, idempotent re-commits and deletions led there.

    Not modelled: the fast-node LRU cache, legacy databases, storage errors (Fault.v). *)
From IAVL Require Import Bytes Varint Tree MTree Store.
Local Open Scope Z_scope.

Notation fentry := (Z * bytes)%type (only parsing).     (* version last updated, value *)
Notation findex := (list (bytes * (Z * bytes))) (only parsing).

Record fstate := FS {
  ms : mstate;
  fidx : findex;                 (* persisted, sorted by key *)
  dlabel : option Z;             (* persisted label *)
  mlabel : option Z;             (* the open tree object's copy *)
  skipf : bool;
  adds : findex;                 (* unsaved additions, sorted by key *)
  rems : list (bytes * unit)     (* unsaved removals, sorted by key *)
}.

Inductive fop :=
| FSet (k v : bytes)
| FRemove (k : bytes)
| FSave
| FRollback
| FOpen (skip : bool)            (* a new tree object on the same database, then Load() *)
| FOpenAt (skip : bool) (v : Z)  (* a new tree object, then LoadVersion(v) WITHOUT Load() first *)
| FLoad (v : Z)
| FLvfo (v : Z)
| FPrune (n : Z)
| FGet (k : bytes)               (* MutableTree.Get *)
| FGetImm (v : Z) (k : bytes)    (* GetImmutable(v).Get(k) *)
| FGetVersioned (k : bytes) (v : Z)
| FIter                          (* MutableTree.Iterator(nil, nil, true), collected *)
| FIterImm (v : Z).              (* GetImmutable(v).Iterator(nil, nil, true), collected *)

Section FastLife.
  Variable H : bytes -> bytes.

  Definition tree_of (s : mstate) (v : Z) : option (option node) := lookup v (forest s).
  Definition walk_get (t : option node) (k : bytes) : option bytes :=
    match t with None => None | Some n => snd (get n k) end.

  (** enableFastStorageAndCommit: delete every entry, write the pairs of the latest version
      stamped with that version, label := latest *)
  Definition rebuild (s : mstate) : findex * option Z :=
    let lv := latest_version s in
    let t := match lookup lv (forest s) with Some t => t | None => None end in
    (map (fun p => (fst p, (lv, snd p))) (oelems t), Some lv).

  (** IsUpgradeable *)
  Definition upgradeable (st : fstate) : bool :=
    negb (skipf st) &&
    match mlabel st with
    | None => true
    | Some u => negb (u =? latest_version (ms st))
    end.

  (** enableFastStorageAndCommitIfNotEnabled *)
  Definition enable_if_needed (st : fstate) : fstate :=
    if upgradeable st then
      let (ix, l) := rebuild (ms st) in
      FS (ms st) ix l l (skipf st) (adds st) (rems st)
    else st.

  Definition clear_unsaved (st : fstate) : fstate :=
    if skipf st then st
    else FS (ms st) (fidx st) (dlabel st) (mlabel st) (skipf st) [] [].

  Definition with_ms (st : fstate) (s : mstate) : fstate :=
    FS s (fidx st) (dlabel st) (mlabel st) (skipf st) (adds st) (rems st).

  (** ImmutableTree.Get on a tree with root [t] and version field [tv] *)
  Definition imm_get (st : fstate) (t : option node) (tv : Z) (k : bytes) : option bytes :=
    match t with
    | None => None
    | Some _ =>
        if skipf st then walk_get t k
        else
          match mlabel st, k with
          | None, _ => walk_get t k                    (* "storage version is not fast" *)
          | Some _, [] => walk_get t k                 (* GetFastNode rejects the empty key *)
          | Some _, _ =>
              match mfind bcmp k (fidx st) with
              | None => if tv =? latest_version (ms st) then None else walk_get t k
              | Some (u, v) => if u <=? tv then Some v else walk_get t k
              end
          end
    end.

  (** MutableTree.Get *)
  Definition mut_get (st : fstate) (k : bytes) : option bytes :=
    match root (ms st) with
    | None => None
    | Some _ =>
        let fall := imm_get st (root (ms st)) (version (ms st)) k in
        if skipf st then fall
        else
          match mfind bcmp k (adds st) with
          | Some (_, v) => Some v
          | None =>
              match mfind bcmp k (rems st) with
              | Some _ => None
              | None => fall
              end
          end
    end.

  (** IsFastCacheEnabled of a tree whose version field is [tv] *)
  Definition fast_enabled (st : fstate) (tv : Z) : bool :=
    (tv =? latest_version (ms st)) && match mlabel st with Some _ => true | None => false end.

  (** the persisted index under the unsaved changes (IterFacts: the two-cursor merge of
      UnsavedFastIterator computes exactly this) *)
  Definition overlay (st : fstate) : list (bytes * bytes) :=
    let base := map (fun p => (fst p, snd (snd p))) (fidx st) in
    let dropped := fold_left (fun acc r => mdel bcmp (fst r) acc) (rems st) base in
    fold_left (fun acc a => mset bcmp (fst a) (snd (snd a)) acc) (adds st) dropped.

  Definition fstep (st : fstate) (o : fop) : fstate * out :=
    match o with
    | FSet k v =>
        (* the entry is stamped tree.version+1 (with an initial version this is below the version
           the commit will carry: harmless, no retained version is older) *)
        let (s', x) := step H (ms st) (OSet k v) in
        let st' := with_ms st s' in
        (if skipf st then st'
         else FS s' (fidx st) (dlabel st) (mlabel st) (skipf st)
                 (mset bcmp k (version (ms st) + 1, v) (adds st)) (mdel bcmp k (rems st)), x)
    | FRemove k =>
        let (s', x) := step H (ms st) (ORemove k) in
        let st' := with_ms st s' in
        (match x with
         | XPair _ (XBool true) =>
             if skipf st then st'
             else FS s' (fidx st) (dlabel st) (mlabel st) (skipf st)
                     (mdel bcmp k (adds st)) (mset bcmp k tt (rems st))
         | _ => st'
         end, x)
    | FSave =>
        let wv := working_version (ms st) in
        let existed := version_exists (ms st) wv in
        let (s', x) := step H (ms st) OSave in
        (match x with
         | XErr => with_ms st s'
         | _ =>
             if existed then with_ms st s'          (* the same hash: nothing is written *)
             else if skipf st then with_ms st s'
             else
               let ix1 := fold_left (fun acc a => mset bcmp (fst a) (snd a) acc) (adds st) (fidx st) in
               let ix2 := fold_left (fun acc r => mdel bcmp (fst r) acc) (rems st) ix1 in
               FS s' ix2 (Some wv) (Some wv) (skipf st) [] []
         end, x)
    | FRollback =>
        let (s', x) := step H (ms st) ORollback in
        (clear_unsaved (with_ms st s'), x)
    | FOpen skip =>
        let (s', x) := step H (ms st) OReopen in
        let st1 := FS s' (fidx st) (dlabel st) (dlabel st) skip [] [] in
        (match x with
         | XOk => enable_if_needed st1
         | _ => st1
         end, x)
    | FOpenAt skip v =>
        (* nothing is loaded or cached in the new object: LoadVersion(v) runs on it directly and
           is the first to compare the label with the latest version *)
        let fresh := MState None 0 None (forest (ms st)) (init_ver (ms st))
                            (init_opt (ms st)) (init_opt (ms st)) in
        let st0 := FS fresh (fidx st) (dlabel st) (dlabel st) skip [] [] in
        let (s', x) := step H fresh (OLoad v) in
        (match x with
         | XInt _ => enable_if_needed (with_ms st0 s')
         | _ => with_ms st0 s'
         end, x)
    | FLoad v =>
        let (s', x) := step H (ms st) (OLoad v) in
        (match x with
         | XInt _ =>
             match forest (ms st) with
             | [] => enable_if_needed (with_ms st s')              (* no versions: target <= 0 *)
             | _ => enable_if_needed (clear_unsaved (with_ms st s'))
             end
         | _ => with_ms st s'
         end, x)
    | FLvfo v =>
        (* LoadVersion(v) *)
        let (s1, x1) := step H (ms st) (OLoad v) in
        match x1 with
        | XInt _ =>
            let st1 :=
              match forest (ms st) with
              | [] => enable_if_needed (with_ms st s1)
              | _ => enable_if_needed (clear_unsaved (with_ms st s1))
              end in
            (* DeleteVersionsFrom(v+1): nothing happens when there is no later version; otherwise
               the label is dropped when the store was upgraded *)
            let (s2, x2) := step H (ms st) (OLvfo v) in
            let st2 :=
              if latest_version (ms st) <? v + 1 then with_ms st1 s2
              else
                match mlabel st1 with
                | Some _ => FS s2 (fidx st1) None None (skipf st1) (adds st1) (rems st1)
                | None => with_ms st1 s2
                end in
            (enable_if_needed st2, x2)
        | _ => (with_ms st s1, XErr)
        end
    | FPrune n =>
        let (s', x) := step H (ms st) (OPrune n) in (with_ms st s', x)
    | FGet k => (st, XBytes (mut_get st k))
    | FGetImm v k =>
        match tree_of (ms st) v with
        | Some t => (st, XBytes (imm_get st t v k))
        | None => (st, XErr)
        end
    | FGetVersioned k v =>
        match tree_of (ms st) v with
        | Some t =>
            let slow := imm_get st t v k in
            (st, XBytes
               (if skipf st then slow
                else if fast_enabled st (version (ms st)) then
                  match k with
                  | [] => slow
                  | _ =>
                      match mfind bcmp k (fidx st) with
                      | None => if v =? latest_version (ms st) then None else slow
                      | Some (u, val) => if u <=? v then Some val else slow
                      end
                  end
                else slow))
        | None => (st, XBytes None)
        end
    | FIter =>
        (st, XKvs (if negb (skipf st) && fast_enabled st (version (ms st))
                   then overlay st
                   else oelems (root (ms st))))
    | FIterImm v =>
        match tree_of (ms st) v with
        | Some t =>
            (st, XKvs (if negb (skipf st) && fast_enabled st v
                       then map (fun p => (fst p, snd (snd p))) (fidx st)
                       else oelems t))
        | None => (st, XErr)
        end
    end.

  Definition finit (iv : Z) (ivset : bool) : fstate :=
    FS (init_state iv ivset) [] None None true [] [].

  Fixpoint frun (st : fstate) (ops : list fop) : fstate * list out :=
    match ops with
    | [] => (st, [])
    | o :: rest =>
        let (s1, x) := fstep st o in
        let (s2, xs) := frun s1 rest in
        (s2, x :: xs)
    end.

  (** the logical operation behind each [fop] (what MTree answers) *)
  Definition logical (o : fop) : op :=
    match o with
    | FSet k v => OSet k v
    | FRemove k => ORemove k
    | FSave => OSave
    | FRollback => ORollback
    | FOpen _ => OReopen
    | FOpenAt _ v => OLoad v        (* preceded by OReopen: see [logical_ops] *)
    | FLoad v => OLoad v
    | FLvfo v => OLvfo v
    | FPrune n => OPrune n
    | FGet k => ORead TWorking (RGet k)
    | FGetImm v k => ORead (TVersion v) (RGet k)
    | FGetVersioned k v => OGetVersioned k v
    | FIter => ORead TWorking (RIter None None false true)
    | FIterImm v => ORead (TVersion v) (RIter None None false true)
    end.

  (** the logical operations behind each [fop]: a new tree object that loads version [v] directly
      reaches the state MTree reaches by reopening (which loads the latest version) and then
      loading [v] *)
  Definition logical_ops (o : fop) : list op :=
    match o with
    | FOpenAt _ v => [OReopen; OLoad v]
    | _ => [logical o]
    end.
End FastLife.
