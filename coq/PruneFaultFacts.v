(** PruneFaultFacts: storage faults during the physical DeleteVersionsTo (model: PruneFault.v).

    For every state satisfying [store_ok] (every state reachable within the usage contract), every
    [r] with [rekey_ok], every flush schedule, both flush modes, every [n] below the latest version
    and EVERY fault position [k] (the [k]-th storage call fails: a read, a batch Set/Delete, a batch
    Write, or the final Commit):
    - [fault_reported]: the run is the fault-free run or returns an error;
    - [fault_leaves_retained_intact]: after an error, every state the disk went through and the
      disk that results when the pending batch is written out later read back every version that
      was not being deleted, node for node;
    - [fault_prefix]: the writes issued before the error are a prefix of the fault-free run's;
    or the hash function has a collision.  Premises as for PruneAlgoFacts10.prune_refines
    ([H] returns 32 bytes, [forest_bounds]); the [*_nc] versions need neither.
    [unfixed_read_fault_refuted]: the loop before the fix (a read error of the CURRENT tree's
    iterator ends that iterator silently) returns an error AND leaves a retained version unreadable.
    [fault_free_same] (PruneFaultFacts1): without a failing call the model is PruneAlgo's. *)
From Coq Require Import Lia.
From IAVL Require Import Bytes Varint Sha256 Tree VMap TreeFacts MTree MTreeFacts HashFacts
  VersionFacts Ics23Facts Store StoreFacts PruneAlgo PruneAlgoFacts1 PruneAlgoFacts2 PruneAlgoFacts3
  PruneAlgoFacts4 PruneAlgoFacts5 PruneAlgoFacts6 PruneAlgoFacts7 PruneAlgoFacts8 PruneAlgoFacts9
  PruneAlgoFacts10 PruneAlgoFacts PruneFault PruneFaultFacts1 PruneFaultFacts2 PruneFaultFacts3
  PruneFaultFacts4.
Local Open Scope Z_scope.

(** what is left behind reads back *)
Definition left_readable (H : bytes -> bytes) (p : pdb) (f' : forest_t) : Prop :=
  Forall (fun d => readable H d f' = true) (dhist p) /\ readable H (disk (pflush p)) f' = true.

Lemma tick_nofail_or s bad s1 : tick s = (bad, s1) -> fp s1 = fp s.
Proof. unfold tick. intros Q. inversion Q. reflexivity. Qed.

(** ** Forest level, for forests without look-alike nodes *)
Section ForestNC.
  Variable H : bytes -> bytes.
  Variable f : forest_t.
  Variable iv : Z.
  Hypothesis FI : forest_inv f.
  Hypothesis ND : NoDup (map fst f).
  Hypothesis OK : forest_ok f iv.
  Hypothesis WF : forall w t, In (w, Some t) f -> wf t.
  Hypothesis NC : no_confusion H f.
  Hypothesis LH : leaf_hashes H f.

  Lemma ERR_readable n p b : ERR (kept f n) b p -> left_readable H p (kept f n).
  Proof.
    intros [A B].
    assert (FI' : forest_inv (kept f n)) by apply forest_inv_filter, FI.
    assert (WF' : forall w t, In (w, Some t) (kept f n) -> wf t).
    { intros w t I. apply filter_In in I. exact (WF w t (proj1 I)). }
    assert (LH' : forall u, sub_of (kept f n) u -> fhash H u = hs (nmeta u)).
    { intros u Su. apply LH. exact (sub_of_filter _ f u Su). }
    split.
    - eapply Forall_impl; [|exact A]. intros d Sd. exact (readable_safe H (kept f n) b d FI' WF' LH' Sd).
    - destruct (pflush_facts p) as (-> & _). exact (readable_safe H (kept f n) b _ FI' WF' LH' B).
  Qed.

  (** the three claims at once *)
  Theorem prune_fault_nc r sched eff n fail :
    f <> [] -> rekey_ok r f -> n < latest_of_forest f ->
    exists pfin,
      prune_forest_fault H true eff r f sched n None = FOk (pflush pfin) /\
      (prune_forest_fault H true eff r f sched n fail = FOk (pflush pfin) \/
       exists p, prune_forest_fault H true eff r f sched n fail = FErr p /\
                 left_readable H p (kept f n) /\ wpre p pfin).
  Proof.
    intros NE RK Ln.
    destruct (prune_run H f iv FI ND OK WF NC r sched eff n NE RK Ln) as (pfin & cfin & Er & HSf & NEk).
    exists pfin.
    assert (Lt : latest_of_forest f <=? n = false) by (apply Z.leb_gt; exact Ln).
    split.
    { unfold prune_forest_fault. pose proof (prune_fault_free H eff (phys_of r f) sched
        (first_of_forest f) (latest_of_forest f) n Lt) as P. rewrite Er in P. exact P. }
    pose proof RK as [_ Rk]. rewrite first_of_forest_eq in *. rewrite latest_of_forest_eq in Ln.
    assert (Hr : forall w, In w r -> w < first_of f).
    { intros w Iw. destruct (Rk w Iw) as [A _]. exact A. }
    pose proof (forest_ok_zseq f iv OK) as Hz. pose proof (length_f f iv OK NE) as Lf.
    destruct (forest_ok_range f iv OK NE) as (R1 & _ & _).
    set (k := Z.to_nat (n + 1 - first_of f)) in *.
    assert (Lk : (k < length f)%nat) by (unfold k; lia).
    rewrite versions_from_to_zseq in Er. fold k in Er.
    set (p0 := Pdb (phys_of r f) [] sched [] [] eff [] [phys_of r f]) in *.
    assert (Kk : kept f n = skipn k f) by (apply (kept_skipn f iv OK n NE)).
    unfold prune_forest_fault, prune_fault. rewrite Lt. cbv zeta. rewrite first_of_forest_eq.
    rewrite versions_from_to_zseq. fold k. fold p0.
    destruct (delete_range_f H true (prune_fuel (phys_of r f)) (zseq (first_of f) k)
                (Fdb p0 0 fail) rkc_new) as [st s'] eqn:D.
    assert (Lv0 : live (Fdb p0 0 fail)).
    { unfold live. cbn [ffail fcalls]. destruct fail; [lia|exact I]. }
    pose proof (range_f_ok H f iv FI ND OK WF NC (prune_fuel (phys_of r f))
                  (fuel_ok f iv FI ND OK WF r NE Hr) (kept f n) (first_of f + Z.of_nat k)
                  k f [] (first_of f) (Fdb p0 0 fail) rkc_new r st s' eq_refl Hz Lk
                  (ST_init f iv FI ND OK r sched eff NE Hr) Lv0
                  ltac:(rewrite Kk; apply incl_refl) ltac:(lia) D) as (A & B).
    cbn [fp] in B. rewrite Er in B.
    destruct B as [[L R]|(Dd & -> & Er' & W & F)].
    - destruct st as [[]| | |]; cbn [rel] in R; try contradiction.
      destruct (tick s') as [bad s1] eqn:T. pose proof (tick_nofail_or s' bad s1 T) as E1.
      rewrite E1, R. destruct bad; [right|left; reflexivity].
      exists pfin. split; [reflexivity|]. split; [|apply wpre_refl].
      destruct HSf as [[Cx P] _].
      apply (ERR_readable n pfin (first_of_forest (kept f n))).
      apply (ERR_of_PI (kept f n) _ pfin _ (kept f n) _ _ _ P); [auto|apply incl_refl|lia].
    - right. exists (fp s'). split; [reflexivity|]. split; [exact (ERR_readable n _ _ Er')|].
      exact (F pfin eq_refl).
  Qed.
End ForestNC.

(** the empty forest: nothing is deleted, only the Commit can fail *)
Lemma prune_fault_empty H eff r sched n fail :
  n < 0 ->
  prune_forest_fault H true eff r [] sched n fail =
    (let p0 := Pdb [] [] sched [] [] eff [] [[]] in
     if match fail with Some k => Nat.eqb 0 k | None => false end then FErr p0 else FOk (pflush p0)).
Proof.
  intros L. unfold prune_forest_fault, prune_fault. cbn [latest_of_forest first_of_forest fold_left].
  replace (0 <=? n) with false by (symmetry; apply Z.leb_gt; exact L).
  cbv zeta. rewrite versions_nonpos by lia. cbn [delete_range_f]. unfold tick. cbn [ffail fcalls fp].
  destruct (match fail with Some k => Nat.eqb 0 k | None => false end); reflexivity.
Qed.

(** ** THE THEOREMS *)
Section Main.
  Variable H : bytes -> bytes.
  Hypothesis Hlen : forall x, length (H x) = 32%nat.

  (** all three claims, relative to the fault-free run *)
  Theorem fault_all (s : mstate) (r : list Z) (sched : list bool) (eff : bool) (n : Z) (k : nat) :
    store_ok H s -> forest_bounds (forest s) -> rekey_ok r (forest s) -> n < latest_version s ->
    (exists pfin,
       prune_forest_fault H true eff r (forest s) sched n None = FOk (pflush pfin) /\
       (prune_forest_fault H true eff r (forest s) sched n (Some k) = FOk (pflush pfin) \/
        exists p, prune_forest_fault H true eff r (forest s) sched n (Some k) = FErr p /\
                  left_readable H p (filter (fun q => n <? fst q) (forest s)) /\ wpre p pfin))
    \/ collision H.
  Proof.
    intros SO FB RK Ln. destruct (store_ok_forest H s SO) as (FI & ND & OK & WF & HO).
    destruct (confusion_dec H (forest s)) as [NC|C].
    2:{ right. exact (confusion_to_collision H (forest s) Hlen WF HO FB C). }
    left. destruct (nil_or_not (forest s)) as [E|NE].
    - unfold latest_version in Ln. rewrite E in *. cbn in Ln. rewrite !(prune_fault_empty H eff r sched n _ Ln). cbv zeta.
      exists (Pdb [] [] sched [] [] eff [] [[]]). split; [reflexivity|].
      destruct (Nat.eqb 0 k); [right|left; reflexivity].
      eexists. split; [reflexivity|]. split; [|apply wpre_refl].
      split; [repeat constructor|reflexivity].
    - exact (prune_fault_nc H (forest s) (init_ver s) FI ND OK WF NC (leaf_hashes_of H _ HO)
               r sched eff n (Some k) NE RK Ln).
  Qed.

  (** 1. a fault is reported: the run is the fault-free run, or an error *)
  Theorem fault_reported (s : mstate) (r : list Z) (sched : list bool) (eff : bool) (n : Z) (k : nat) :
    store_ok H s -> forest_bounds (forest s) -> rekey_ok r (forest s) -> n < latest_version s ->
    (prune_forest_fault H true eff r (forest s) sched n (Some k) =
       prune_forest_fault H true eff r (forest s) sched n None \/
     exists p, prune_forest_fault H true eff r (forest s) sched n (Some k) = FErr p)
    \/ collision H.
  Proof.
    intros SO FB RK Ln.
    destruct (fault_all s r sched eff n k SO FB RK Ln) as [(pfin & E0 & [E|(p & E & _)])|C];
      [left; left; congruence|left; right; eauto|right; exact C].
  Qed.

  (** 2. MAIN: what an error leaves behind keeps every retained version intact *)
  Theorem fault_leaves_retained_intact (s : mstate) (r : list Z) (sched : list bool) (eff : bool)
          (n : Z) (k : nat) (p : pdb) :
    store_ok H s -> forest_bounds (forest s) -> rekey_ok r (forest s) -> n < latest_version s ->
    prune_forest_fault H true eff r (forest s) sched n (Some k) = FErr p ->
    (let f' := filter (fun q => n <? fst q) (forest s) in
     Forall (fun d => readable H d f' = true) (dhist p) /\
     readable H (disk (pflush p)) f' = true)
    \/ collision H.
  Proof.
    intros SO FB RK Ln E.
    destruct (fault_all s r sched eff n k SO FB RK Ln) as [(pfin & E0 & [E'|(p' & E' & LR & _)])|C];
      [congruence| |right; exact C].
    left. rewrite E in E'. inversion E'; subst p'. exact LR.
  Qed.

  (** 3. the fault causes no write that the fault-free run would not have made *)
  Theorem fault_prefix (s : mstate) (r : list Z) (sched : list bool) (eff : bool)
          (n : Z) (k : nat) (p : pdb) :
    store_ok H s -> forest_bounds (forest s) -> rekey_ok r (forest s) -> n < latest_version s ->
    prune_forest_fault H true eff r (forest s) sched n (Some k) = FErr p ->
    (exists p0 W, prune_forest_fault H true eff r (forest s) sched n None = FOk p0 /\
                  wlog p0 = wlog p ++ W)
    \/ collision H.
  Proof.
    intros SO FB RK Ln E.
    destruct (fault_all s r sched eff n k SO FB RK Ln) as [(pfin & E0 & [E'|(p' & E' & _ & (W & Ew))])|C];
      [congruence| |right; exact C].
    left. rewrite E in E'. inversion E'; subst p'. exists (pflush pfin), W. split; [exact E0|exact Ew].
  Qed.

  (** the same for every state reachable within the usage contract *)
  Theorem fault_leaves_retained_intact_reachable iv b ops (r : list Z) (sched : list bool) (eff : bool)
          (n : Z) (k : nat) (p : pdb) :
    init_ok iv b -> run_ok H (init_state iv b) ops ->
    let s := fst (run H (init_state iv b) ops) in
    forest_bounds (forest s) -> rekey_ok r (forest s) -> n < version s -> n < latest_version s ->
    prune_forest_fault H true eff r (forest s) sched n (Some k) = FErr p ->
    (let f' := filter (fun q => n <? fst q) (forest s) in
     Forall (fun d => readable H d f' = true) (dhist p) /\
     readable H (disk (pflush p)) f' = true)
    \/ collision H.
  Proof.
    intros IO R s FB RK _ Ln E. apply (fault_leaves_retained_intact s r sched eff n k p); auto.
    apply store_ok_reachable; assumption.
  Qed.

  Theorem fault_reported_reachable iv b ops (r : list Z) (sched : list bool) (eff : bool) (n : Z) (k : nat) :
    init_ok iv b -> run_ok H (init_state iv b) ops ->
    let s := fst (run H (init_state iv b) ops) in
    forest_bounds (forest s) -> rekey_ok r (forest s) -> n < version s -> n < latest_version s ->
    (prune_forest_fault H true eff r (forest s) sched n (Some k) =
       prune_forest_fault H true eff r (forest s) sched n None \/
     exists p, prune_forest_fault H true eff r (forest s) sched n (Some k) = FErr p)
    \/ collision H.
  Proof.
    intros IO R s FB RK _ Ln. apply fault_reported; auto. apply store_ok_reachable; assumption.
  Qed.
End Main.

(** [fault_free_same], restated *)
Theorem PF_fault_free_same :
  forall (H : bytes -> bytes) (eff : bool) (st : store) (schedule : list bool) (first latest to : Z),
    pf_result eff (prune_fault H true eff st schedule first latest to None) =
    prune_phys H eff st schedule first latest to /\
    pf_disks (prune_fault H true eff st schedule first latest to None) =
    prune_phys_disks H eff st schedule first latest to.
Proof. intros. split; [apply fault_free_same|apply fault_free_same_disks]. Qed.

Print Assumptions PF_fault_free_same.
Print Assumptions fault_reported.
Print Assumptions fault_leaves_retained_intact.
Print Assumptions fault_prefix.
Print Assumptions fault_leaves_retained_intact_reachable.
Print Assumptions fault_reported_reachable.
Print Assumptions prune_fault_nc.

(** ** 4. The refutation for the loop before the fix (SHA-256 example of PruneAlgoFacts.v) *)
Definition pf_f : forest_t := filter (fun p => 3 <? fst p) pa_f.     (* versions 4 and 5 *)
Definition pf_kept : forest_t := filter (fun p => 4 <? fst p) pf_f.   (* version 5 *)

(** deleting version 4; the storage call number 5 is the read of a child of the root of version 5
    by the iterator over the CURRENT tree *)
Theorem unfixed_read_fault_refuted :
  exists (f : forest_t) (r : list Z) (sched : list bool) (n : Z) (k : nat),
    rekey_okb r f = true /\ forest_boundsb f = true /\ n < latest_of_forest f /\
    (* the unfixed loop: an error is returned, and version 5 cannot be read any more *)
    match prune_forest_fault sha256 false false r f sched n (Some k) with
    | FErr p => readable sha256 (disk (pflush p)) (filter (fun q => n <? fst q) f) = false /\
                wlog p <> []
    | _ => False
    end /\
    (* the fixed loop on the same input: an error, nothing written, everything readable *)
    match prune_forest_fault sha256 true false r f sched n (Some k) with
    | FErr p => readable sha256 (disk (pflush p)) (filter (fun q => n <? fst q) f) = true /\
                forallb (fun d => readable sha256 d (filter (fun q => n <? fst q) f)) (dhist p) = true /\
                wlog p = []
    | _ => False
    end.
Proof.
  exists pf_f, [], [false; true], 4, 5%nat. vm_compute.
  repeat split; try reflexivity; discriminate.
Qed.

(** ** 5. Every fault position of one deletion, two schedules, both modes *)

(** the claims 1-3 for the fault positions [0 .. calls + 1], as data compared by [reflexivity] *)
Definition pf_check (eff : bool) (r : list Z) (f : forest_t) (sched : list bool) (n : Z) : Prop :=
  let calls := prune_forest_calls sha256 true eff r f sched n in
  let f' := filter (fun q => n <? fst q) f in
  let run := fun k => prune_forest_fault sha256 true eff r f sched n (Some k) in
  let free := prune_forest_fault sha256 true eff r f sched n None in
  (* 1: an error below [calls], the fault-free result from [calls] on *)
  forallb (fun k => match run k with FErr _ => true | _ => false end) (seq 0 calls) = true /\
  map run [calls; S calls] = [free; free] /\
  match free with FOk _ => True | _ => False end /\
  (* 2: what is left behind reads back *)
  forallb (fun k => match run k with
                    | FErr p => forallb (fun d => readable sha256 d f') (dhist p) &&
                                readable sha256 (disk (pflush p)) f'
                    | _ => false
                    end) (seq 0 calls) = true /\
  (* 3: the writes are a prefix of the fault-free run's *)
  map (fun k => match run k with FErr p => firstn (length (wlog p)) (wlog (pf_pdb free)) | _ => [] end)
      (seq 0 calls) =
  map (fun k => match run k with FErr p => wlog p | _ => [] end) (seq 0 calls).

Example pf_all_positions_1 :
  prune_forest_calls sha256 true false [1] pa_f1 pa_sched2 3 = 24%nat /\
  pf_check false [1] pa_f1 pa_sched2 3.
Proof. vm_compute. repeat split; reflexivity. Qed.

Example pf_all_positions_2 :
  prune_forest_calls sha256 true true [1] pa_f1 [false; true; true] 3 = 23%nat /\
  pf_check true [1] pa_f1 [false; true; true] 3.
Proof. vm_compute. repeat split; reflexivity. Qed.

(** the example of the refutation: all positions are safe with the fix, four are not without *)
Example pf_all_positions_3 :
  prune_forest_calls sha256 true false [] pf_f [false; true] 4 = 16%nat /\
  pf_check false [] pf_f [false; true] 4 /\
  map (fun k => match prune_forest_fault sha256 false false [] pf_f [false; true] 4 (Some k) with
                | FErr p => readable sha256 (disk (pflush p)) pf_kept
                | _ => true
                end) (seq 0 16) =
  [true; true; true; true; true; false; false; false; false; true; true; true; true; true; true; true].
Proof. vm_compute. repeat split; reflexivity. Qed.

(** the fault-free run of the model is the run of PruneAlgo on the example *)
Example pf_fault_free_example :
  pf_disks (prune_forest_fault sha256 true false [1] pa_f1 pa_sched2 3 None) =
  prune_forest_disks sha256 false [1] pa_f1 pa_sched2 3.
Proof. vm_compute. reflexivity. Qed.

(** the instance of the main theorem for the example *)
Example pf_main_instance sched eff k p :
  prune_forest_fault sha256 true eff [] pa_f sched 1 (Some k) = FErr p ->
  (let f' := filter (fun q => 1 <? fst q) pa_f in
   Forall (fun d => readable sha256 d f' = true) (dhist p) /\
   readable sha256 (disk (pflush p)) f' = true)
  \/ collision sha256.
Proof.
  apply (fault_leaves_retained_intact_reachable sha256 sha256_length 0 false pa_hist [] sched eff 1 k p).
  - vm_compute. split; discriminate.
  - apply run_okb_iff. vm_compute. reflexivity.
  - apply forest_boundsb_sound. vm_compute. reflexivity.
  - apply rekey_okb_sound. vm_compute. reflexivity.
  - vm_compute. reflexivity.
  - vm_compute. reflexivity.
Qed.

Print Assumptions unfixed_read_fault_refuted.
