(** M2c: the LRU node cache of nodedb.go (cache/cache.go) in front of the node store with its write
    batch.

    The real cache is NEVER invalidated: neither pruning ([deleteFromPruning], [saveNodeFromPruning])
    nor rollback ([DeleteVersionsFrom]) touches it, and node keys [(version, nonce)] are reused after
    a rollback.  What keeps it right is that [SaveNode] overwrites the cached entry of the key it
    writes ([cache.Add] replaces the value of an existing key).  This file is the executable model:
    the LRU list, the primitive steps of nodedb.go on [{disk; batch; cache}], an operation alphabet
    with its runner, the cache-free reference runner, the decidable coherence checker the harness
    evaluates on dumps of the real cache and database, and the two seeded variants of [SaveNode].
    NodeCacheFacts.v has the proofs.

    Generic in the cached / stored value [V]; node keys are [Store.nodekey] = [(version, nonce)].
    The key [(v,1)] can also hold a ROOT RECORD that is not a node: SaveRoot / SaveEmptyRoot write,
    with a plain batch.Set and no cache action, a reference to an earlier root or an empty value
    under the node key [(v,1)] of a version committed without changes.  [is_node : V -> bool] tells
    node records from root records (instantiate [V] with [Store.entry] and [entry_is_node], or with
    the raw stored bytes).  After a rollback and such a commit the cache may still hold the old NODE
    of [(v,1)] while the disk holds a root record: harmless, GetNode((v,1)) is never called for such
    a key (GetRoot resolves the record first).

    Names: the batch writes are [cwop] / [CWSet] / [CWDel] (Store.v already has [wop]/[WSet]/[WDel]
    for the three-table database).

    Not modelled: legacy (hash-keyed) nodes, the fast-node cache, decoding errors, the mutex. *)
From IAVL Require Import Bytes Varint Tree MTree Store.
Local Open Scope Z_scope.

Section NodeCache.
  Variable V : Type.
  Variable eqV : V -> V -> bool.       (* decides equality on [V]; used by the checkers only *)
  Variable is_node : V -> bool.

  (** ** cache/cache.go: [lruCache].  The list is [ll], most recently used first; [dict] is the
      lookup by key in that list (keys are unique by construction). *)
  Definition lru := list (nodekey * V).

  (** dict lookup, no reordering *)
  Fixpoint lru_find (k : nodekey) (c : lru) : option V :=
    match c with
    | [] => None
    | (k', v) :: r => if keqb k k' then Some v else lru_find k r
    end.

  (** Has *)
  Definition lru_has (k : nodekey) (c : lru) : bool :=
    match lru_find k c with Some _ => true | None => false end.

  (** Remove (the list after the removal; the removed node is [lru_find k c]) *)
  Fixpoint lru_remove (k : nodekey) (c : lru) : lru :=
    match c with
    | [] => []
    | (k', v) :: r => if keqb k k' then r else (k', v) :: lru_remove k r
    end.

  (** Len *)
  Definition lru_len (c : lru) : nat := length c.

  (** Get: hit = MoveToFront and return the value; miss = nil, nothing changes *)
  Definition lru_get (k : nodekey) (c : lru) : option V * lru :=
    match lru_find k c with
    | Some v => (Some v, (k, v) :: lru_remove k c)
    | None => (None, c)
    end.

  (** Add: an existing key is moved to the front AND ITS VALUE IS REPLACED; a new key is pushed to
      the front, then the LAST element is dropped if the length exceeds the capacity
      ([cap = 0]: the element just pushed is dropped again, the cache keeps nothing). *)
  Definition lru_add (cap : nat) (k : nodekey) (v : V) (c : lru) : lru :=
    if lru_has k c then (k, v) :: lru_remove k c
    else
      let c' := (k, v) :: c in
      if Nat.ltb cap (length c') then removelast c' else c'.

  (** seeded variant: an existing key is moved to the front, its value is left alone *)
  Definition lru_add_keep (cap : nat) (k : nodekey) (v : V) (c : lru) : lru :=
    match lru_find k c with
    | Some v0 => (k, v0) :: lru_remove k c
    | None =>
        let c' := (k, v) :: c in
        if Nat.ltb cap (length c') then removelast c' else c'
    end.

  (** ** The node store: disk, pending batch, cache *)
  Inductive cwop := CWSet (k : nodekey) (v : V) | CWDel (k : nodekey).

  Definition dapply (d : list (nodekey * V)) (o : cwop) : list (nodekey * V) :=
    match o with
    | CWSet k v => mset kcmp k v d
    | CWDel k => mdel kcmp k d
    end.
  Definition dapply_all (d : list (nodekey * V)) (ops : list cwop) : list (nodekey * V) :=
    fold_left dapply ops d.

  Record cstate := CState {
    disk : list (nodekey * V);      (* what reads see, sorted by [kcmp] *)
    batch : list cwop;              (* pending writes, oldest first *)
    cache : lru
  }.

  (** the disk once the pending batch is written *)
  Definition vdisk (st : cstate) : list (nodekey * V) := dapply_all (disk st) (batch st).

  (** the database read of GetNode: the value under [k]; when it is absent and the nonce is 1, the
      value under [(version, 0)] ("if the node is reformatted by pruning") *)
  Definition dget (d : list (nodekey * V)) (k : nodekey) : option V :=
    match mfind kcmp k d with
    | Some v => Some v
    | None => if snd k =? 1 then mfind kcmp (fst k, 0) d else None
    end.

  (** the cache-free GetNode: the record read must be a node (MakeNode fails on a root record:
      an error, like an absent key; the side condition of the theorems excludes this read) *)
  Definition nget (d : list (nodekey * V)) (k : nodekey) : option V :=
    match dget d k with
    | Some v => if is_node v then Some v else None
    | None => None
    end.

  (** GetNode: cache hit -> the cached node, moved to the front.  Miss -> read the DISK (not the
      batch) with the fall-back; found -> cached under the REQUESTED key (MakeNode(nk, buf)), also
      when it was found under [(v,0)]; absent -> error ([None]), nothing changes. *)
  Definition get_node (cap : nat) (k : nodekey) (st : cstate) : option V * cstate :=
    match lru_get k (cache st) with
    | (Some v, c') => (Some v, CState (disk st) (batch st) c')
    | (None, _) =>
        match nget (disk st) k with
        | Some v => (Some v, CState (disk st) (batch st) (lru_add cap k v (cache st)))
        | None => (None, st)
        end
    end.

  (** SaveNode: batch.Set, then nodeCache.Add *)
  Definition save_node (cap : nat) (k : nodekey) (v : V) (st : cstate) : cstate :=
    CState (disk st) (batch st ++ [CWSet k v]) (lru_add cap k v (cache st)).

  (** saveNodeFromPruning, and SaveRoot / SaveEmptyRoot: batch.Set only, the cache is not touched *)
  Definition save_from_pruning (k : nodekey) (v : V) (st : cstate) : cstate :=
    CState (disk st) (batch st ++ [CWSet k v]) (cache st).

  (** deleteFromPruning, and the deletions of DeleteVersionsFrom: batch.Delete only, the cache is
      not touched *)
  Definition delete_from_pruning (k : nodekey) (st : cstate) : cstate :=
    CState (disk st) (batch st ++ [CWDel k]) (cache st).

  (** Commit: batch.Write *)
  Definition commit (st : cstate) : cstate :=
    CState (dapply_all (disk st) (batch st)) [] (cache st).

  (** BatchWithFlusher: the batch is written in the middle of an operation *)
  Definition flush (st : cstate) : cstate := commit st.

  (** seeded variants of SaveNode *)
  Definition save_node_keep_cached (cap : nat) (k : nodekey) (v : V) (st : cstate) : cstate :=
    CState (disk st) (batch st ++ [CWSet k v]) (lru_add_keep cap k v (cache st)).
  Definition save_node_no_cache (cap : nat) (k : nodekey) (v : V) (st : cstate) : cstate :=
    CState (disk st) (batch st ++ [CWSet k v]) (cache st).

  (** ** Operations *)
  Inductive cop :=
  | CGet (k : nodekey)             (* GetNode *)
  | CSave (k : nodekey) (v : V)    (* SaveNode *)
  | CSaveRoot (k : nodekey) (r : V) (* SaveRoot / SaveEmptyRoot: a root record, batch only *)
  | CRekey (v : Z)                 (* deleteVersion: the root (v,1) is re-keyed as (v,0) *)
  | CDel (k : nodekey)             (* deleteFromPruning / DeleteVersionsFrom *)
  | CCommit.                       (* Commit, or a flush of the batch *)

  (** what an operation answers: [OGot r] for the node read by [CGet k] and by [CRekey v] ([None] =
      GetNode's error "Value missing for key"; [CRekey] then writes nothing, as deleteVersion
      returns the error), [OUnit] for the others *)
  Inductive cout := OUnit | OGot (r : option V).

  (** [CRekey v]: root := GetNode((v,1)); saveNodeFromPruning(root re-keyed (v,0));
      deleteFromPruning((v,1)) *)
  Definition rekey (cap : nat) (w : Z) (st : cstate) : cout * cstate :=
    match get_node cap (w, 1) st with
    | (Some n, st') => (OGot (Some n), delete_from_pruning (w, 1) (save_from_pruning (w, 0) n st'))
    | (None, st') => (OGot None, st')
    end.

  (** the step function, parametrised by the implementation of SaveNode *)
  Definition cstep_with (save : nat -> nodekey -> V -> cstate -> cstate)
             (cap : nat) (st : cstate) (o : cop) : cout * cstate :=
    match o with
    | CGet k => let (r, st') := get_node cap k st in (OGot r, st')
    | CSave k v => (OUnit, save cap k v st)
    | CSaveRoot k r => (OUnit, save_from_pruning k r st)
    | CRekey w => rekey cap w st
    | CDel k => (OUnit, delete_from_pruning k st)
    | CCommit => (OUnit, commit st)
    end.

  Fixpoint crun_with (save : nat -> nodekey -> V -> cstate -> cstate)
           (cap : nat) (st : cstate) (ops : list cop) : list cout * cstate :=
    match ops with
    | [] => ([], st)
    | o :: rest =>
        let (a, st1) := cstep_with save cap st o in
        let (l, st2) := crun_with save cap st1 rest in
        (a :: l, st2)
    end.

  Definition cstep := cstep_with save_node.
  Definition crun := crun_with save_node.

  (** the seeded variants *)
  Definition crun_keep_cached := crun_with save_node_keep_cached.
  Definition crun_no_cache := crun_with save_node_no_cache.

  (** ** The cache-free reference *)
  Record dstate := DState {
    ddisk : list (nodekey * V);
    dbatch : list cwop
  }.

  Definition dvdisk (d : dstate) : list (nodekey * V) := dapply_all (ddisk d) (dbatch d).

  Definition dstep (d : dstate) (o : cop) : cout * dstate :=
    match o with
    | CGet k => (OGot (nget (ddisk d) k), d)
    | CSave k v => (OUnit, DState (ddisk d) (dbatch d ++ [CWSet k v]))
    | CSaveRoot k r => (OUnit, DState (ddisk d) (dbatch d ++ [CWSet k r]))
    | CRekey w =>
        match nget (ddisk d) (w, 1) with
        | Some n => (OGot (Some n), DState (ddisk d) ((dbatch d ++ [CWSet (w, 0) n]) ++ [CWDel (w, 1)]))
        | None => (OGot None, d)
        end
    | CDel k => (OUnit, DState (ddisk d) (dbatch d ++ [CWDel k]))
    | CCommit => (OUnit, DState (dvdisk d) [])
    end.

  Fixpoint drun (d : dstate) (ops : list cop) : list cout * dstate :=
    match ops with
    | [] => ([], d)
    | o :: rest =>
        let (a, d1) := dstep d o in
        let (l, d2) := drun d1 rest in
        (a :: l, d2)
    end.

  Definition forget (st : cstate) : dstate := DState (disk st) (batch st).

  (** ** The coherence checker (extracted, evaluated on dumps of the real cache and database) *)
  (** every cached [(k, v)] whose key reads a NODE record on the disk (with the fall-back) is read
      there with the value [v]; entries whose key holds a root record or nothing are stale and
      unconstrained *)
  Definition coherentb (d : list (nodekey * V)) (c : lru) : bool :=
    forallb (fun p => match nget d (fst p) with
                      | Some v' => eqV v' (snd p)
                      | None => true
                      end) c.

  (** the cached entries that disagree with the disk (empty iff [coherentb]) *)
  Definition incoherent_entries (d : list (nodekey * V)) (c : lru) : lru :=
    filter (fun p => match nget d (fst p) with
                     | Some v' => negb (eqV v' (snd p))
                     | None => false
                     end) c.

  (** cached keys that read no node on the disk: nodes deleted by pruning or rollback, or replaced
      by a root record, that the cache still holds *)
  Definition stale_keys (d : list (nodekey * V)) (c : lru) : list nodekey :=
    map fst (filter (fun p => match nget d (fst p) with Some _ => false | None => true end) c).

  (** ** The executable side condition of the transparency theorem, evaluated on the CACHE-FREE
      run.  [seen0]: the versions [w] whose key [(w,0)] has been asked for by a [CGet].

      - [CGet k]: the record [k] reads on the disk is a node or absent, not a root record, and the
        pending batch does not change the node [k] reads (GetNode does not see the batch);
      - [CSave k v]: the nonce is not 0 (saveNewNodes and the importer number nodes from 1);
      - [CSaveRoot k r]: [r] is not a node record;
      - [CRekey w]: as [CGet (w,1)], the node is readable, and [(w,0)] has not been asked for before
        (a version is re-keyed at most once, and [(w,0)] does not exist before that);
      - [CDel (w,1)]: not both [(w,1)] and a NODE [(w,0)] in the store with different values. *)
  Definition oeqb (a b : option V) : bool :=
    match a, b with
    | Some x, Some y => eqV x y
    | None, None => true
    | _, _ => false
    end.

  Definition batch_free (d : dstate) (k : nodekey) : bool :=
    oeqb (nget (ddisk d) k) (nget (dvdisk d) k).

  (** the record read is a node or absent *)
  Definition node_target (d : dstate) (k : nodekey) : bool :=
    match dget (ddisk d) k with Some v => is_node v | None => true end.

  Definition dstep_ok (seen0 : list Z) (d : dstate) (o : cop) : bool :=
    match o with
    | CGet k => batch_free d k && node_target d k
    | CSave k _ => negb (snd k =? 0)
    | CSaveRoot _ r => negb (is_node r)
    | CRekey w =>
        batch_free d (w, 1) &&
        match nget (ddisk d) (w, 1) with Some _ => true | None => false end &&
        negb (existsb (Z.eqb w) seen0)
    | CDel k =>
        if snd k =? 1 then
          match mfind kcmp k (dvdisk d), mfind kcmp (fst k, 0) (dvdisk d) with
          | Some a, Some b => eqV a b || negb (is_node b)
          | _, _ => true
          end
        else true
    | CCommit => true
    end.

  Definition seen0_step (seen0 : list Z) (o : cop) : list Z :=
    match o with
    | CGet k => if snd k =? 0 then fst k :: seen0 else seen0
    | _ => seen0
    end.

  Fixpoint drun_ok (seen0 : list Z) (d : dstate) (ops : list cop) : bool :=
    match ops with
    | [] => true
    | o :: rest =>
        dstep_ok seen0 d o && drun_ok (seen0_step seen0 o) (snd (dstep d o)) rest
    end.

  (** the versions whose [(w,0)] key sits in a cache: the initial [seen0] for a non-empty cache *)
  Definition cached0 (c : lru) : list Z :=
    map (fun p => fst (fst p)) (filter (fun p => snd (fst p) =? 0) c).
End NodeCache.

Arguments lru_find {V} k c.
Arguments lru_has {V} k c.
Arguments lru_remove {V} k c.
Arguments lru_len {V} c.
Arguments lru_get {V} k c.
Arguments lru_add {V} cap k v c.
Arguments lru_add_keep {V} cap k v c.
Arguments CWSet {V} k v.
Arguments CWDel {V} k.
Arguments dapply {V} d o.
Arguments dapply_all {V} d ops.
Arguments CState {V} disk batch cache.
Arguments disk {V} c.
Arguments batch {V} c.
Arguments cache {V} c.
Arguments vdisk {V} st.
Arguments dget {V} d k.
Arguments nget {V} is_node d k.
Arguments get_node {V} is_node cap k st.
Arguments save_node {V} cap k v st.
Arguments save_from_pruning {V} k v st.
Arguments delete_from_pruning {V} k st.
Arguments commit {V} st.
Arguments flush {V} st.
Arguments save_node_keep_cached {V} cap k v st.
Arguments save_node_no_cache {V} cap k v st.
Arguments CGet {V} k.
Arguments CSave {V} k v.
Arguments CSaveRoot {V} k r.
Arguments CRekey {V} v.
Arguments CDel {V} k.
Arguments CCommit {V}.
Arguments OUnit {V}.
Arguments OGot {V} r.
Arguments rekey {V} is_node cap w st.
Arguments cstep_with {V} is_node save cap st o.
Arguments crun_with {V} is_node save cap st ops.
Arguments cstep {V} is_node cap st o.
Arguments crun {V} is_node cap st ops.
Arguments crun_keep_cached {V} is_node cap st ops.
Arguments crun_no_cache {V} is_node cap st ops.
Arguments DState {V} ddisk dbatch.
Arguments ddisk {V} d.
Arguments dbatch {V} d.
Arguments dvdisk {V} d.
Arguments dstep {V} is_node d o.
Arguments drun {V} is_node d ops.
Arguments forget {V} st.
Arguments coherentb {V} eqV is_node d c.
Arguments incoherent_entries {V} eqV is_node d c.
Arguments stale_keys {V} is_node d c.
Arguments oeqb {V} eqV a b.
Arguments batch_free {V} eqV is_node d k.
Arguments node_target {V} is_node d k.
Arguments dstep_ok {V} eqV is_node seen0 d o.
Arguments seen0_step {V} seen0 o.
Arguments drun_ok {V} eqV is_node seen0 d ops.
Arguments cached0 {V} c.

(** instances for the harness: [V := Store.entry] (node records and root records) *)
Definition nodekey_eqb (a b : Z * Z) : bool := keqb a b.
Definition snode_eqb (a b : snode) : bool :=
  match a, b with
  | SLeaf k v, SLeaf k' v' => beq k k' && beq v v'
  | SInner k h s hh l r, SInner k' h' s' hh' l' r' =>
      beq k k' && (h =? h') && (s =? s') && beq hh hh' && keqb l l' && keqb r r'
  | _, _ => false
  end.

Definition entry_is_node (e : entry) : bool :=
  match e with ENode _ => true | _ => false end.
Definition entry_eqb (a b : entry) : bool :=
  match a, b with
  | ENode n, ENode n' => snode_eqb n n'
  | ERef k, ERef k' => keqb k k'
  | EEmpty, EEmpty => true
  | _, _ => false
  end.

Definition empty_cstate {V : Type} : cstate V := CState [] [] [].
