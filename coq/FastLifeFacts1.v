(** FastLifeFacts1: list-level material for the fast-index life cycle (FastLife.v):
    the bridge between the VMap vocabulary of the tree facts ([assoc], [sorted]) and the Store
    vocabulary of the index ([mfind bcmp], [msorted bcmp]); folds of [mset] / [mdel] over sorted
    lists of writes; facts about [latest_version] under the contiguity invariant; the validity
    predicate of a persisted index ([idx_valid]) and the index built by
    enableFastStorageAndCommit ([rebuild]). *)
From Coq Require Import Lia.
From IAVL Require Import Bytes Varint Tree VMap TreeFacts MTree MTreeFacts VersionFacts
  Store StoreFacts FastLife.
Local Open Scope Z_scope.

(** ** [assoc] / [sorted] versus [mfind bcmp] / [msorted bcmp] *)
Lemma assoc_mfind k (l : kvs) : assoc k l = mfind bcmp k l.
Proof.
  induction l as [|[k1 v1] l IH]; cbn [assoc mfind]; [reflexivity|].
  unfold beq. rewrite IH. destruct (bcmp k k1); reflexivity.
Qed.

Lemma sorted_msorted (l : kvs) : sorted l <-> msorted bcmp l.
Proof.
  induction l as [|[k1 v1] l IH]; cbn [sorted msorted]; [tauto|].
  rewrite IH. split; intros [F S]; (split; [|exact S]); eapply Forall_impl; try exact F;
    intros p; cbv beta; apply bcmp_Lt.
Qed.

Lemma ins_mset k v (l : kvs) : ins k v l = mset bcmp k v l.
Proof.
  induction l as [|[k1 v1] l IH]; cbn [ins mset]; [reflexivity|].
  rewrite IH. destruct (bcmp k k1); reflexivity.
Qed.

Lemma del_mdel k (l : kvs) : del k l = mdel bcmp k l.
Proof.
  induction l as [|[k1 v1] l IH]; cbn [del mdel]; [reflexivity|].
  rewrite IH. destruct (bcmp k k1); reflexivity.
Qed.

(** the walk down a well-formed tree is the list lookup *)
Lemma walk_get_assoc t k : oinv t -> walk_get t k = mfind bcmp k (oelems t).
Proof.
  intros O. destruct t as [n|]; cbn [walk_get oelems mfind]; [|reflexivity].
  destruct O as [W _]. rewrite (get_spec n k W). cbn [snd]. apply assoc_mfind.
Qed.

Lemma oelems_msorted t : oinv t -> msorted bcmp (oelems t).
Proof.
  intros O. destruct t as [n|]; cbn [oelems msorted]; [|exact I].
  destruct O as [W _]. apply sorted_msorted, wf_sorted, W.
Qed.

(** two well-formed trees with the same walks hold the same pairs *)
Lemma oelems_ext t1 t2 :
  oinv t1 -> oinv t2 -> (forall k, walk_get t1 k = walk_get t2 k) -> oelems t1 = oelems t2.
Proof.
  intros O1 O2 E. apply (msorted_ext bcmp bcmp_ok); try (apply oelems_msorted; assumption).
  intros k. rewrite <- !walk_get_assoc by assumption. apply E.
Qed.

Lemma walk_get_oelems_eq t1 t2 k :
  oinv t1 -> oinv t2 -> oelems t1 = oelems t2 -> walk_get t1 k = walk_get t2 k.
Proof. intros O1 O2 E. rewrite !walk_get_assoc by assumption. rewrite E. reflexivity. Qed.

(** ** Mapping the values of a sorted list *)
Section MapVals.
  Context {K A B : Type}.
  Variable cmp : K -> K -> comparison.
  Variable f : A -> B.

  Definition mapv (l : list (K * A)) : list (K * B) := map (fun p => (fst p, f (snd p))) l.

  Lemma mfind_mapv k l : mfind cmp k (mapv l) = option_map f (mfind cmp k l).
  Proof.
    induction l as [|[k1 a1] l IH]; cbn [mapv map mfind fst snd option_map]; [reflexivity|].
    fold (mapv l). rewrite IH. destruct (cmp k k1); reflexivity.
  Qed.

  Lemma msorted_mapv l : msorted cmp l -> msorted cmp (mapv l).
  Proof.
    induction l as [|[k1 a1] l IH]; cbn [mapv map msorted fst snd]; [tauto|].
    fold (mapv l). intros [F S]. split; [|exact (IH S)].
    unfold mapv. rewrite Forall_map. eapply Forall_impl; [|exact F]. intros p. cbn [fst]. tauto.
  Qed.
End MapVals.

(** ** Folding writes over a sorted list of writes *)
Section Folds.
  Context {K V W : Type}.
  Variable cmp : K -> K -> comparison.
  Hypothesis OK : cmp_ok cmp.

  (** the write loop of saveFastNodeAdditions: every pair of a sorted list of additions *)
  Lemma mfind_fold_mset k (ps : list (K * V)) : forall st,
    msorted cmp ps ->
    mfind cmp k (fold_left (fun acc a => mset cmp (fst a) (snd a) acc) ps st) =
      match mfind cmp k ps with Some v => Some v | None => mfind cmp k st end.
  Proof.
    induction ps as [|[k1 v1] ps IH]; intros st S; cbn [fold_left mfind fst snd]; [reflexivity|].
    destruct S as [F S]. rewrite (IH _ S), (mfind_mset cmp OK).
    destruct (cmp k k1) eqn:E; try reflexivity.
    apply (c_eq cmp OK) in E. subst k1. rewrite (mfind_lt_all cmp k ps F). reflexivity.
  Qed.

  Lemma msorted_fold_mset (ps : list (K * V)) : forall st,
    msorted cmp st -> msorted cmp (fold_left (fun acc a => mset cmp (fst a) (snd a) acc) ps st).
  Proof.
    induction ps as [|p ps IH]; intros st S; cbn [fold_left]; [exact S|].
    apply IH, (msorted_mset cmp OK), S.
  Qed.

  (** the delete loop of saveFastNodeRemovals *)
  Lemma mfind_fold_mdel k (rs : list (K * W)) : forall st : list (K * V),
    msorted cmp st ->
    mfind cmp k (fold_left (fun acc r => mdel cmp (fst r) acc) rs st) =
      match mfind cmp k rs with Some _ => None | None => mfind cmp k st end.
  Proof.
    induction rs as [|[k1 w1] rs IH]; intros st S; cbn [fold_left mfind fst]; [reflexivity|].
    rewrite (IH _ (msorted_mdel cmp k1 st S)), (mfind_mdel cmp OK _ _ _ S).
    destruct (cmp k k1); destruct (mfind cmp k rs); reflexivity.
  Qed.

  Lemma msorted_fold_mdel (rs : list (K * W)) : forall st : list (K * V),
    msorted cmp st -> msorted cmp (fold_left (fun acc r => mdel cmp (fst r) acc) rs st).
  Proof.
    induction rs as [|r rs IH]; intros st S; cbn [fold_left]; [exact S|].
    apply IH, (msorted_mdel cmp), S.
  Qed.
End Folds.

(** the overlay's addition loop writes the values only *)
Lemma mfind_fold_mset_vals {K A B} (cmp : K -> K -> comparison) (OK : cmp_ok cmp) (f : A -> B)
    k (ps : list (K * A)) : forall st,
  msorted cmp ps ->
  mfind cmp k (fold_left (fun acc a => mset cmp (fst a) (f (snd a)) acc) ps st) =
    match mfind cmp k ps with Some a => Some (f a) | None => mfind cmp k st end.
Proof.
  induction ps as [|[k1 v1] ps IH]; intros st S; cbn [fold_left mfind fst snd]; [reflexivity|].
  destruct S as [F S]. rewrite (IH _ S), (mfind_mset cmp OK).
  destruct (cmp k k1) eqn:E; try reflexivity.
  apply (c_eq cmp OK) in E. subst k1. rewrite (mfind_lt_all cmp k ps F). reflexivity.
Qed.

Lemma msorted_fold_mset_vals {K A B} (cmp : K -> K -> comparison) (OK : cmp_ok cmp) (f : A -> B)
    (ps : list (K * A)) : forall st,
  msorted cmp st -> msorted cmp (fold_left (fun acc a => mset cmp (fst a) (f (snd a)) acc) ps st).
Proof.
  induction ps as [|p ps IH]; intros st S; cbn [fold_left]; [exact S|].
  apply IH, (msorted_mset cmp OK), S.
Qed.

(** ** The retained versions under the contiguity invariant *)
Definition ltree (s : mstate) : option node :=
  match lookup (latest_version s) (forest s) with Some t => t | None => None end.

Lemma retained_le_latest s t tr :
  contig s -> lookup t (forest s) = Some tr -> first_version s <= t <= latest_version s.
Proof.
  intros C L. destruct (proj1 (in_range_lookup s t C)) as [_ R]; [eauto|]. exact R.
Qed.

Lemma latest_retained s :
  contig s -> forest s <> [] -> exists tr, lookup (latest_version s) (forest s) = Some tr.
Proof.
  intros C NE. apply (in_range_lookup s _ C). split; [exact NE|].
  destruct (contig_range s (contig_forest_ok s C) NE) as (R & _). lia.
Qed.

Lemma ltree_lookup s tr : lookup (latest_version s) (forest s) = Some tr -> ltree s = tr.
Proof. unfold ltree. intros ->. reflexivity. Qed.

Lemma ltree_empty s : forest s = [] -> ltree s = None.
Proof. unfold ltree. intros ->. reflexivity. Qed.

Lemma ltree_oinv s : state_inv s -> oinv (ltree s).
Proof.
  intros I. unfold ltree. destruct (lookup (latest_version s) (forest s)) as [t|] eqn:L.
  - exact (proj1 (state_inv_lookup s _ t I L)).
  - exact Logic.I.
Qed.

Lemma latest_empty s : forest s = [] -> latest_version s = 0.
Proof. unfold latest_version. intros ->. reflexivity. Qed.

Lemma contig_version_le_latest s : contig s -> 0 <= version s <= latest_version s.
Proof.
  intros C. destruct (available_range s C) as [(_ & _ & _ & L & V)|(_ & R1 & _ & R2 & _)]; lia.
Qed.

(** the saved tree is the retained tree of [version s] (nothing is retained on a fresh store) *)
Lemma contig_saved s :
  contig s ->
  (version s = 0 /\ forest s = [] /\ last_saved s = None) \/
  (forest s <> [] /\ lookup (version s) (forest s) = Some (last_saved s) /\ 1 <= version s).
Proof.
  intros C. destruct (contig_cases s C) as [(V & F & LS & _)|(NE & L & R & P & _)].
  - left. auto.
  - right. repeat split; auto. lia.
Qed.

(** ** Validity of a persisted index for the latest version *)
Notation vals := (mapv (fun e : Z * bytes => snd e)).

Record idx_valid (s : mstate) (ix : list (bytes * (Z * bytes))) : Prop := IdxValid {
  iv_sorted : msorted bcmp ix;
  iv_none : forall k, mfind bcmp k ix = None -> walk_get (ltree s) k = None;
  iv_some : forall k e v, mfind bcmp k ix = Some (e, v) ->
      e <= latest_version s /\
      forall t tr, lookup t (forest s) = Some tr -> e <= t <= latest_version s ->
                   walk_get tr k = Some v;
  iv_vals : vals ix = oelems (ltree s)
}.

(** the values of a sorted index that answers like a tree are the pairs of the tree *)
Lemma vals_of_find t (ix : list (bytes * (Z * bytes))) :
  oinv t -> msorted bcmp ix ->
  (forall k, option_map snd (mfind bcmp k ix) = walk_get t k) ->
  vals ix = oelems t.
Proof.
  intros O S E. apply (msorted_ext bcmp bcmp_ok).
  - apply msorted_mapv, S.
  - apply oelems_msorted, O.
  - intros k. rewrite mfind_mapv, <- walk_get_assoc by exact O. apply E.
Qed.

(** validity from the two lookup clauses *)
Lemma idx_valid_intro s ix :
  state_inv s -> contig s ->
  msorted bcmp ix ->
  (forall k, mfind bcmp k ix = None -> walk_get (ltree s) k = None) ->
  (forall k e v, mfind bcmp k ix = Some (e, v) ->
      e <= latest_version s /\ walk_get (ltree s) k = Some v /\
      forall t tr, lookup t (forest s) = Some tr -> e <= t <= latest_version s ->
                   walk_get tr k = Some v) ->
  idx_valid s ix.
Proof.
  intros I C S N P. constructor; auto.
  - intros k e v E. destruct (P k e v E) as (A & _ & B). auto.
  - apply vals_of_find; [apply ltree_oinv, I|exact S|].
    intros k. destruct (mfind bcmp k ix) as [[e v]|] eqn:E; cbn [option_map snd].
    + destruct (P k e v E) as (_ & A & _). symmetry. exact A.
    + symmetry. apply N, E.
Qed.

(** with a retained latest version, the entry of a valid index gives the latest answer *)
Lemma idx_valid_latest s ix k e v :
  contig s -> idx_valid s ix -> mfind bcmp k ix = Some (e, v) -> walk_get (ltree s) k = Some v.
Proof.
  intros C Vd E. destruct (nil_or_not (forest s)) as [F|NE].
  - exfalso. pose proof (iv_vals s ix Vd) as Vs. rewrite (ltree_empty s F) in Vs. cbn [oelems] in Vs.
    destruct ix as [|p ix]; [discriminate E|discriminate Vs].
  - destruct (latest_retained s C NE) as [tr L]. rewrite (ltree_lookup s tr L).
    destruct (iv_some s ix Vd k e v E) as [Le A]. apply (A _ _ L). lia.
Qed.

(** an index valid for a store is valid for any store with the same latest version, the same
    latest tree and fewer retained versions *)
Lemma idx_valid_shrink s s' ix :
  latest_version s' = latest_version s -> ltree s' = ltree s ->
  (forall t tr, lookup t (forest s') = Some tr -> lookup t (forest s) = Some tr) ->
  idx_valid s ix -> idx_valid s' ix.
Proof.
  intros EL ET Sub Vd. destruct Vd as [S N P Vs]. constructor.
  - exact S.
  - rewrite ET. exact N.
  - intros k e v E. destruct (P k e v E) as [A B]. rewrite EL. split; [exact A|].
    intros t tr L R. apply (B t tr (Sub _ _ L) R).
  - rewrite ET. exact Vs.
Qed.

(** ** The index written by enableFastStorageAndCommit *)
Lemma rebuild_eq s :
  rebuild s = (map (fun p => (fst p, (latest_version s, snd p))) (oelems (ltree s)),
               Some (latest_version s)).
Proof. reflexivity. Qed.

Lemma mfind_stamped (lv : Z) k (l : kvs) :
  mfind bcmp k (map (fun p => (fst p, (lv, snd p))) l) =
  option_map (fun v => (lv, v)) (mfind bcmp k l).
Proof. exact (mfind_mapv bcmp (fun v : bytes => (lv, v)) k l). Qed.

Lemma rebuild_valid s : state_inv s -> contig s -> idx_valid s (fst (rebuild s)).
Proof.
  intros I C. rewrite rebuild_eq. cbn [fst]. pose proof (ltree_oinv s I) as O.
  apply idx_valid_intro; auto.
  - exact (msorted_mapv bcmp (fun v : bytes => (latest_version s, v)) _ (oelems_msorted _ O)).
  - intros k. rewrite mfind_stamped, (walk_get_assoc _ k O).
    destruct (mfind bcmp k (oelems (ltree s))); [discriminate|reflexivity].
  - intros k e v. rewrite mfind_stamped.
    destruct (mfind bcmp k (oelems (ltree s))) as [w|] eqn:E; cbn [option_map]; [|discriminate].
    intros Q. inversion Q; subst e w. split; [lia|].
    assert (A : walk_get (ltree s) k = Some v) by (rewrite (walk_get_assoc _ k O); exact E).
    split; [exact A|]. intros t tr L R. assert (t = latest_version s) by lia. subst t.
    rewrite <- (ltree_lookup s tr L). exact A.
Qed.

(** ** [latest_version] and [ltree] after the operations that change the forest *)
Lemma prune_latest s n :
  contig s -> n < version s ->
  let s' := MState (root s) (version s) (last_saved s) (filter (fun p => n <? fst p) (forest s))
                   (init_ver s) (init_set s) (init_opt s) in
  latest_version s' = latest_version s /\ ltree s' = ltree s /\
  (forall t tr, lookup t (forest s') = Some tr -> lookup t (forest s) = Some tr).
Proof.
  intros C Hn s'. pose proof (contig_version_le_latest s C) as R.
  assert (EL : latest_version s' = latest_version s).
  { unfold latest_version, s'. cbn [forest]. apply (latest_filter_gt n (forest s)).
    change (latest_of (forest s)) with (latest_version s). lia. }
  split; [exact EL|]. split.
  - unfold ltree. rewrite EL. unfold s'. cbn [forest]. rewrite lookup_filter_gt.
    replace (n <? latest_version s) with true by (symmetry; apply Z.ltb_lt; lia). reflexivity.
  - intros t tr. unfold s'. cbn [forest]. rewrite lookup_filter_gt.
    destruct (n <? t); [tauto|discriminate].
Qed.
