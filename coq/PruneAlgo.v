(** M2p: the PHYSICAL DeleteVersionsTo of nodedb.go, transcribed operation by operation:
    [deleteVersionsTo] -> [deleteVersion] -> [traverseOrphansWithRootkeyCache] over two
    [NodeIterator]s, [GetRoot] / [GetNode] with their [(v,1) -> (v,0)] fall-backs, the two-slot
    [rootkeyCache], and the write batch with flusher (batch.go): every read goes to the DISK, every
    write goes to the PENDING batch, and the batch is written to the disk when the next write would
    overflow it - here: when the flush schedule says so.  The schedule is a parameter; theorems
    quantify over all schedules, the correspondence check feeds the schedule observed on the real
    database.

    Store.v has the specification-level deletion ([prune_ops]: "delete what only the deleted
    versions reach") and the result-level [prune_version_ops]; this file is the algorithm the code
    runs.  PruneAlgoFacts.v proves that it refines the specification.

    Not modelled: legacy (hash-keyed) nodes and the legacy branch of deleteVersionsTo, the node
    cache (every GetNode reads the disk: a cache can only make more reads succeed), version
    readers, async pruning. *)
From IAVL Require Import Bytes Varint Tree MTree Store.
Local Open Scope Z_scope.

(** results: a value, ErrVersionDoesNotExist, any other error, or model fuel exhausted *)
Inductive pres (A : Type) :=
| POk (a : A)
| PNoVersion
| PErr
| PFuel.
Arguments POk {A} a.
Arguments PNoVersion {A}.
Arguments PErr {A}.
Arguments PFuel {A}.

(** ** The node store with a write batch *)

(** one physical write on the node store *)
Definition sapply (st : store) (o : wop) : store :=
  match o with
  | WSet (KNode k) (VEntry e) => mset kcmp k e st
  | WDel (KNode k) => mdel kcmp k st
  | _ => st
  end.
Definition sapply_all (st : store) (ops : list wop) : store := fold_left sapply ops st.

(** [disk]: what reads see; [pend]: the batch, oldest first; [sched]: one boolean per future
    write, [true] = the batch is written out before this write is added (batch.go Set/Delete:
    "if batchSizeAfter > flushThreshold then Write()"); [wlog]: every write issued, in order;
    [elog]: the EFFECTIVE writes (every set, and the deletions of keys that are present in disk +
    batch at that moment); [flushes]: the positions at which the batch was written.

    Two ways of indexing the schedule.  [effmode = false]: one boolean per write issued, positions
    count the writes issued before (the theorems quantify over these schedules).
    [effmode = true]: one boolean per EFFECTIVE write, a deletion of an absent key never flushes,
    positions count the effective writes before.  The second form is what can be observed from
    outside: the node cache decides whether the code asks for an orphaned, re-keyed root under
    [(v,1)] (deleting [(v,1)] - absent - and [(v,0)]) or under [(v,0)] (deleting only that); the
    effective writes are the same.  Every [effmode = true] run is the [effmode = false] run of the
    schedule with [false] inserted at the ineffective writes (PruneAlgoFacts). *)
Record pdb := Pdb {
  disk : store;
  pend : list wop;
  sched : list bool;
  wlog : list wop;
  flushes : list nat;
  effmode : bool;
  elog : list wop;
  dhist : list store      (* every state the disk went through, oldest first *)
}.

Definition pflush (p : pdb) : pdb :=
  let d := sapply_all (disk p) (pend p) in
  Pdb d [] (sched p) (wlog p) (flushes p) (effmode p) (elog p) (dhist p ++ [d]).

Definition effective (p : pdb) (o : wop) : bool :=
  match o with
  | WDel (KNode k) => mhas kcmp k (sapply_all (disk p) (pend p))
  | _ => true
  end.

Definition pwrite (p : pdb) (o : wop) : pdb :=
  let e := effective p o in
  let elog' := if e then elog p ++ [o] else elog p in
  if effmode p && negb e then
    Pdb (disk p) (pend p ++ [o]) (sched p) (wlog p ++ [o]) (flushes p) (effmode p) elog' (dhist p)
  else
    match sched p with
    | true :: rest =>
        let d := sapply_all (disk p) (pend p) in
        Pdb d [o] rest (wlog p ++ [o])
            (flushes p ++ [length (if effmode p then elog p else wlog p)]) (effmode p) elog'
            (dhist p ++ [d])
    | false :: rest =>
        Pdb (disk p) (pend p ++ [o]) rest (wlog p ++ [o]) (flushes p) (effmode p) elog' (dhist p)
    | [] => Pdb (disk p) (pend p ++ [o]) [] (wlog p ++ [o]) (flushes p) (effmode p) elog' (dhist p)
    end.

(** ** Reads (nodedb.go GetNode, GetRoot) *)

(** GetNode(nk): the value under [nk]; when it is absent and the nonce is 1, the value under
    [(version, 0)] ("if the node is reformatted by pruning").  The node carries the key it was
    ASKED under (MakeNode(nk, buf)).  A root entry (reference / empty) under a node key does not
    decode as a node: an error. *)
Definition get_node (st : store) (k : nodekey) : option snode :=
  match mfind kcmp k st with
  | Some (ENode n) => Some n
  | Some _ => None
  | None =>
      if snd k =? 1 then
        match mfind kcmp (fst k, 0) st with
        | Some (ENode n) => Some n
        | _ => None
        end
      else None
  end.

(** GetRoot(version): [POk None] = empty root, [POk (Some k)] = the node key of the root.
    A reference to [(w,1)] whose target is absent falls back to [(w,0)] when that exists. *)
Definition get_root (st : store) (v : Z) : pres (option nodekey) :=
  match mfind kcmp (v, 1) st with
  | None => PNoVersion
  | Some EEmpty => POk None
  | Some (ERef k) =>
      match mfind kcmp k st with
      | Some _ => POk (Some k)
      | None =>
          match mfind kcmp (fst k, 0) st with
          | Some _ => POk (Some (fst k, 0))
          | None => PNoVersion
          end
      end
  | Some (ENode _) => POk (Some (v, 1))
  end.

(** the two-slot root key cache of one deleteVersionsTo call; errors are not cached *)
Record rkc := Rkc { rv0 : Z; rk0 : option nodekey; rv1 : Z; rk1 : option nodekey; rnext : bool }.
Definition rkc_new : rkc := Rkc (-1) None (-1) None false.

Definition rkc_get (c : rkc) (st : store) (v : Z) : pres (option nodekey) * rkc :=
  if rv0 c =? v then (POk (rk0 c), c)
  else if rv1 c =? v then (POk (rk1 c), c)
  else
    match get_root st v with
    | POk k =>
        (POk k, if rnext c then Rkc (rv0 c) (rk0 c) v k false else Rkc v k (rv1 c) (rk1 c) true)
    | e => (e, c)
    end.

(** ** NodeIterator (iterator.go): a stack of fetched nodes, the top is the head *)
Record nit := Nit { nstack : list (nodekey * snode); nerr : bool }.

Definition nit_new (st : store) (rk : option nodekey) : option nit :=
  match rk with
  | None => Some (Nit [] false)
  | Some k => match get_node st k with Some n => Some (Nit [(k, n)] false) | None => None end
  end.

Definition nit_valid (it : nit) : bool :=
  negb (nerr it) && match nstack it with [] => false | _ => true end.

(** Next(isSkipped): pop; unless skipped or a leaf, fetch and push right then left *)
Definition nit_next (st : store) (it : nit) (skip : bool) : nit :=
  if negb (nit_valid it) then it
  else
    match nstack it with
    | [] => it
    | (_, n) :: rest =>
        if skip then Nit rest false
        else
          match n with
          | SLeaf _ _ => Nit rest false
          | SInner _ _ _ _ lk rk =>
              match get_node st rk with
              | None => Nit rest true
              | Some rn =>
                  match get_node st lk with
                  | None => Nit ((rk, rn) :: rest) true
                  | Some ln => Nit ((lk, ln) :: (rk, rn) :: rest) false
                  end
              end
          end
    end.

(** structural equality of trees (keys, values, heights, sizes, versions, nonces, hashes) *)
Definition meta_beq (a b : meta) : bool :=
  (ver a =? ver b) && (nonce a =? nonce b) && beq (hs a) (hs b).
Fixpoint node_beq (a b : node) : bool :=
  match a, b with
  | Leaf k v m, Leaf k' v' m' => beq k k' && beq v v' && meta_beq m m'
  | Inner k h s m l r, Inner k' h' s' m' l' r' =>
      beq k k' && (h =? h') && (s =? s') && meta_beq m m' && node_beq l l' && node_beq r r'
  | _, _ => false
  end.

Section Prune.
  Variable H : bytes -> bytes.

  (** the hash of a fetched node: inner nodes store it, a leaf's is recomputed from its key,
      value and the version of the key it was asked under (node.go MakeNode) *)
  Definition fetched_hash (k : nodekey) (n : snode) : bytes :=
    match n with
    | SLeaf key v => H (leaf_preimage H (fst k) key v)
    | SInner _ _ _ h _ _ => h
    end.

  (** the orphan callback of deleteVersion(version) *)
  Definition on_orphan (version : Z) (p : pdb) (k : nodekey) : pdb :=
    if (snd k =? 1) && (fst k <? version)
    then pwrite (pwrite p (del_node k)) (del_node (fst k, 0))
    else pwrite p (del_node k).

  (** the double traversal of traverseOrphansWithRootkeyCache(prev = version, cur = version+1):
      [org] is the pending candidate of the current tree (a node of an older version); a node of
      the previous tree whose hash equals the candidate's is shared (skipped with its subtree),
      any other node of the previous tree is an orphan.  One unit of fuel per iterator step. *)
  Fixpoint orphans_loop (fuel : nat) (version : Z) (p : pdb) (cur prev : nit)
           (org : option (nodekey * snode)) : pres pdb :=
    match fuel with
    | O => PFuel
    | S fuel' =>
        if negb (nit_valid prev) then
          (if nerr cur then PErr else if nerr prev then PErr else POk p)
        else if nerr cur then PErr     (* a node of the current tree could not be read: stop *)
        else
          match org, nit_valid cur with
          | None, true =>
              match nstack cur with
              | (k, n) :: _ =>
                  if fst k <=? version
                  then orphans_loop fuel' version p (nit_next (disk p) cur true) prev (Some (k, n))
                  else orphans_loop fuel' version p (nit_next (disk p) cur false) prev None
              | [] => PErr
              end
          | _, _ =>
              match nstack prev with
              | (pk, pn) :: _ =>
                  let same :=
                    match org with
                    | Some (ok, on) => beq (fetched_hash pk pn) (fetched_hash ok on)
                    | None => false
                    end in
                  if same
                  then orphans_loop fuel' version p cur (nit_next (disk p) prev true) None
                  else
                    let p' := on_orphan version p pk in
                    orphans_loop fuel' version p' cur (nit_next (disk p') prev false) org
              | [] => PErr
              end
          end
    end.

  (** traverseOrphansWithRootkeyCache(cache, version, version+1, on_orphan) *)
  Definition traverse_orphans (fuel : nat) (version : Z) (p : pdb) (c : rkc) : pres pdb * rkc :=
    match rkc_get c (disk p) (version + 1) with
    | (POk curk, c1) =>
        match nit_new (disk p) curk with
        | None => (PErr, c1)
        | Some cur =>
            match rkc_get c1 (disk p) version with
            | (POk prevk, c2) =>
                match nit_new (disk p) prevk with
                | None => (PErr, c2)
                | Some prev => (orphans_loop fuel version p cur prev None, c2)
                end
            | (PNoVersion, c2) => (PNoVersion, c2)
            | (PErr, c2) => (PErr, c2)
            | (PFuel, c2) => (PFuel, c2)
            end
        end
    | (PNoVersion, c1) => (PNoVersion, c1)
    | (PErr, c1) => (PErr, c1)
    | (PFuel, c1) => (PFuel, c1)
    end.

  (** deleteVersion(version, cache).  Note the Go control flow: a missing version or a missing
      next version (ErrVersionDoesNotExist) does not stop the deletion. *)
  Definition delete_version (fuel : nat) (version : Z) (p : pdb) (c : rkc) : pres pdb * rkc :=
    match rkc_get c (disk p) version with
    | (PErr, c1) => (PErr, c1)
    | (PFuel, c1) => (PFuel, c1)
    | (r, c1) =>
        let rootk := match r with POk k => k | _ => None end in
        (* orphans *)
        let step1 :=
          match rootk with
          | Some _ =>
              match traverse_orphans fuel version p c1 with
              | (POk p', c2) => (POk p', c2)
              | (PNoVersion, c2) => (POk p, c2)
              | (e, c2) => (e, c2)
              end
          | None => (POk p, c1)
          end in
        match step1 with
        | (POk p1, c2) =>
            (* the root entry of a reference / empty root *)
            let p2 :=
              match rootk with
              | Some k => if keqb k (version, 1) then p1 else pwrite p1 (del_node (version, 1))
              | None => pwrite p1 (del_node (version, 1))
              end in
            (* is this version's root node the root of the next version? *)
            match rkc_get c2 (disk p2) (version + 1) with
            | (PErr, c3) => (PErr, c3)
            | (PFuel, c3) => (PFuel, c3)
            | (r3, c3) =>
                let nextk := match r3 with POk k => k | _ => None end in
                match nextk with
                | Some nk =>
                    if keqb nk (version, 1) then
                      match get_node (disk p2) nk with
                      | None => (PErr, c3)
                      | Some root =>
                          (* written under (version,0) BEFORE (version,1) is deleted *)
                          let p3 := pwrite p2 (set_node ((version, 0), ENode root)) in
                          (POk (pwrite p3 (del_node (version, 1))), c3)
                      end
                    else (POk p2, c3)
                | None => (POk p2, c3)
                end
            end
        | (e, c2) => (e, c2)
        end
    end.

  (** the loop of deleteVersionsTo: versions first..to, one cache for the whole call *)
  Fixpoint delete_range (fuel : nat) (vs : list Z) (p : pdb) (c : rkc) : pres pdb :=
    match vs with
    | [] => POk p
    | v :: rest =>
        match delete_version fuel v p c with
        | (POk p', c') => delete_range fuel rest p' c'
        | (e, _) => e
        end
    end.

  Definition versions_from_to (first to : Z) : list Z :=
    map (fun i => first + Z.of_nat i) (seq 0 (Z.to_nat (to + 1 - first))).

  (** fuel sufficient for one deleteVersion on a store of this size (PruneAlgoFacts) *)
  Definition prune_fuel (st : store) : nat := 4 * length st + 16.

  (** MutableTree.DeleteVersionsTo(to) on a store whose first / latest versions are [first] /
      [latest]: the guard, the loop, then Commit (the batch is written out).
      Result: the final disk, the writes in order (the effective ones when [eff]), the flush
      positions. *)
  Definition prune_phys (eff : bool) (st : store) (schedule : list bool) (first latest to : Z)
    : pres (store * list wop * list nat) :=
    if latest <=? to then PErr
    else
      let p0 := Pdb st [] schedule [] [] eff [] [st] in
      match delete_range (prune_fuel st) (versions_from_to first to) p0 rkc_new with
      | POk p => let pf := pflush p in POk (disk pf, (if eff then elog pf else wlog pf), flushes pf)
      | PNoVersion => PNoVersion
      | PErr => PErr
      | PFuel => PFuel
      end.

  (** the same run, returning every state the disk went through (the initial one first, the
      final one last): what a reader, or a crash, can see *)
  Definition prune_phys_disks (eff : bool) (st : store) (schedule : list bool) (first latest to : Z)
    : pres (list store) :=
    if latest <=? to then PErr
    else
      let p0 := Pdb st [] schedule [] [] eff [] [st] in
      match delete_range (prune_fuel st) (versions_from_to first to) p0 rkc_new with
      | POk p => POk (dhist (pflush p))
      | PNoVersion => PNoVersion
      | PErr => PErr
      | PFuel => PFuel
      end.

  (** ** Loading a version back from a store (GetRoot, then GetNode down to the leaves) *)
  Definition norm_nonce (k : nodekey) : Z := if snd k =? 0 then 1 else snd k.

  Fixpoint load_node (fuel : nat) (st : store) (k : nodekey) : option node :=
    match fuel with
    | O => None
    | S fuel' =>
        match get_node st k with
        | None => None
        | Some (SLeaf key v) =>
            Some (Leaf key v (Meta (fst k) (norm_nonce k) (fetched_hash k (SLeaf key v))))
        | Some (SInner key h sz hash lk rk) =>
            match load_node fuel' st lk, load_node fuel' st rk with
            | Some l, Some r => Some (Inner key h sz (Meta (fst k) (norm_nonce k) hash) l r)
            | _, _ => None
            end
        end
    end.

  (** [POk None] = the empty tree *)
  Definition load_version (fuel : nat) (st : store) (v : Z) : pres (option node) :=
    match get_root st v with
    | POk None => POk None
    | POk (Some k) => match load_node fuel st k with Some t => POk (Some t) | None => PErr end
    | PNoVersion => PNoVersion
    | PErr => PErr
    | PFuel => PFuel
    end.

  (** every version of the forest loads back, node for node, from the store *)
  Definition readable (st : store) (f : list (Z * option node)) : bool :=
    forallb (fun p =>
               match load_version (S (length st)) st (fst p), snd p with
               | POk None, None => true
               | POk (Some t), Some t' =>
                   node_beq t t'
               | _, _ => false
               end) f.
End Prune.

(** ** The physical store of a forest

    After deletions some roots live under [(v,0)] instead of [(v,1)].  The physical store of a
    forest is its [expected_store] with the keys of those roots renamed. *)
Definition rekey (r : list Z) (st : store) : store :=
  map (fun p =>
         match snd p with
         | ENode _ =>
             if (snd (fst p) =? 1) && existsb (Z.eqb (fst (fst p))) r
             then ((fst (fst p), 0), snd p) else p
         | _ => p
         end) st.

(** the versions whose root node sits under nonce 0 *)
Definition rekeyed (st : store) : list Z :=
  map (fun p => fst (fst p)) (filter (fun p => snd (fst p) =? 0) st).

Definition phys_of (r : list Z) (f : list (Z * option node)) : store :=
  rekey r (expected_store f).

Definition first_of_forest (f : list (Z * option node)) : Z :=
  match f with [] => 0 | p :: _ => fst p end.
Definition latest_of_forest (f : list (Z * option node)) : Z :=
  fold_left (fun _ p => fst p) f 0.

(** DeleteVersionsTo(to) on the physical store of forest [f] with re-keyed roots [r] *)
Definition prune_forest (H : bytes -> bytes) (eff : bool) (r : list Z) (f : list (Z * option node))
           (schedule : list bool) (to : Z) : pres (store * list wop * list nat) :=
  prune_phys H eff (phys_of r f) schedule (first_of_forest f) (latest_of_forest f) to.

Definition prune_forest_disks (H : bytes -> bytes) (eff : bool) (r : list Z) (f : list (Z * option node))
           (schedule : list bool) (to : Z) : pres (list store) :=
  prune_phys_disks H eff (phys_of r f) schedule (first_of_forest f) (latest_of_forest f) to.
