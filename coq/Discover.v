(** M2d: how a freshly opened nodeDB discovers the retained version range from the node store
    (nodedb.go getLatestVersion, getFirstVersion, hasVersion; mutable_tree.go versionExists,
    AvailableVersions).  Nothing is cached in a new tree object: the latest version is the
    version of the greatest node key, the first version is found by a BINARY SEARCH over
    [hasVersion], which looks for the key [(v,1)].

    The search is only meaningful when [hasVersion] is monotone below the latest version.  The
    re-keying of shared roots to [(v,0)] by DeleteVersionsTo exists to keep it so; a deleted
    version whose root node [(v,1)] survives as a CHILD in a retained tree (a one-leaf tree whose
    leaf is reused) breaks it: recorded finding C14-stale-root-key, delimited exactly by
    [stale_free] below (DiscoverFacts).

    Not modelled: legacy root keys, storage errors. *)
From IAVL Require Import Bytes Varint Tree MTree Store PruneAlgo.
Local Open Scope Z_scope.

Definition has_version (st : store) (v : Z) : bool := mhas kcmp (v, 1) st.

(** ReverseIterator over all node keys with version >= 1: the version of the greatest key *)
Definition discover_latest (st : store) : Z := fold_left (fun _ p => fst (fst p)) st 0.

(** for firstVersion < latestVersion { mid := (latest+first)>>1; if has(mid) latest = mid else first = mid+1 } *)
Fixpoint bsearch (fuel : nat) (st : store) (lo hi : Z) : option Z :=
  if lo <? hi then
    match fuel with
    | O => None
    | S fuel' =>
        let mid := Z.shiftr (hi + lo) 1 in
        if has_version st mid then bsearch fuel' st lo mid else bsearch fuel' st (mid + 1) hi
    end
  else Some hi.

(** 64 halvings suffice for every int64 version *)
Definition discover_first (st : store) : option Z := bsearch 64 st 0 (discover_latest st).

(** versionExists / AvailableVersions of a tree object that has cached nothing *)
Definition discovered_range (st : store) : option (Z * Z) :=
  match discover_first st with
  | Some f => Some (f, discover_latest st)
  | None => None
  end.

Definition discovered_available (st : store) : option (list Z) :=
  match discovered_range st with
  | Some (f, l) => if l =? 0 then Some [] else Some (versions_from_to f l)
  | None => None
  end.

