(** Facts about V2Leaves.v: examples, the refutation of the unaligned leaf prune (C20c),
    soundness of leaf_orphan rows, the leaf pruner keeps every replay from a retained
    checkpoint and every current leaf row, and the refutation of exactness (a leak). *)
From Coq Require Import ZArith List Bool Lia.
From IAVL Require Import Bytes Varint Tree MTree V2 V2Orphans Sha256.
From IAVL Require Import V2Leaves.
Import ListNotations.
Local Open Scope Z_scope.

(** * 0. Lists and the current-leaf map *)

Lemma key_eqb_eq a b : key_eqb a b = true <-> a = b.
Proof.
  unfold key_eqb. destruct a as [a1 a2], b as [b1 b2]. cbn [fst snd].
  rewrite andb_true_iff, !Z.eqb_eq. split; [intros [-> ->]; reflexivity|intros E; inversion E; auto].
Qed.

Lemma in_keys_true k l : in_keys k l = true -> In k l.
Proof.
  unfold in_keys. rewrite existsb_exists. intros (x & I & E). apply key_eqb_eq in E. subst. exact I.
Qed.

Lemma in_keys_In k l : In k l -> in_keys k l = true.
Proof.
  intros I. unfold in_keys. rewrite existsb_exists. exists k. split; [exact I|]. apply key_eqb_eq. reflexivity.
Qed.

Lemma nodup_snoc {A} (l : list A) x : NoDup l -> ~ In x l -> NoDup (l ++ [x]).
Proof.
  induction l as [|y l IH]; cbn [app]; intros N I.
  - constructor; [intros []|constructor].
  - inversion N as [|? ? NI N']; subst. constructor.
    + rewrite in_app_iff. intros [J|[J|[]]]; [auto|]. subst. apply I. left. reflexivity.
    + apply IH; [exact N'|]. intros J. apply I. right. exact J.
Qed.

Lemma filter_filter_imp {A} (p q : A -> bool) l :
  (forall x, In x l -> p x = true -> q x = true) -> filter p (filter q l) = filter p l.
Proof.
  induction l as [|y l IH]; cbn [filter]; intros Hx; [reflexivity|].
  assert (IH' : filter p (filter q l) = filter p l) by (apply IH; intros x I; apply Hx; right; exact I).
  destruct (q y) eqn:Q; cbn [filter].
  - rewrite IH'. reflexivity.
  - destruct (p y) eqn:P; [|exact IH']. rewrite (Hx y (or_introl eq_refl) P) in Q. discriminate.
Qed.

Lemma cur_del_In k c x : In x (cur_del k c) <-> In x c /\ fst x <> k.
Proof.
  unfold cur_del. rewrite filter_In. rewrite negb_true_iff, beq_false. split; intros [I N]; split; auto.
Qed.

Lemma cur_keys_del_incl k c nk : In nk (cur_keys (cur_del k c)) -> In nk (cur_keys c).
Proof.
  unfold cur_keys. rewrite !in_map_iff. intros (x & E & I). exists x. split; [exact E|].
  apply cur_del_In in I. apply I.
Qed.

Lemma cur_keys_del_nodup k c : NoDup (cur_keys c) -> NoDup (cur_keys (cur_del k c)).
Proof.
  induction c as [|x c IH]; cbn [cur_keys cur_del map filter]; intros N; [constructor|].
  inversion N as [|? ? NI N']; subst.
  destruct (negb (beq k (fst x))); cbn [map].
  - constructor; [|apply IH; exact N']. intros J. apply NI. apply (cur_keys_del_incl k). exact J.
  - apply IH. exact N'.
Qed.

Lemma cur_find_In k c e : cur_find k c = Some e -> In (k, e) c.
Proof.
  induction c as [|[k' e'] c IH]; cbn [cur_find]; [discriminate|].
  destruct (beq k k') eqn:B.
  - intros E. injection E as ->. apply beq_true in B. subst. left. reflexivity.
  - intros E. right. apply IH. exact E.
Qed.

Lemma nodup_map_inj {A B} (f : A -> B) l a b :
  NoDup (map f l) -> In a l -> In b l -> f a = f b -> a = b.
Proof.
  induction l as [|x l IH]; cbn [map]; intros N Ia Ib E; [destruct Ia|].
  inversion N as [|? ? NI N']; subst. destruct Ia as [->|Ia], Ib as [->|Ib].
  - reflexivity.
  - exfalso. apply NI. rewrite E. apply in_map. exact Ib.
  - exfalso. apply NI. rewrite <- E. apply in_map. exact Ia.
  - apply IH; auto.
Qed.

Lemma cur_find_del_fresh k c nk v :
  NoDup (cur_keys c) -> cur_find k c = Some (nk, v) -> ~ In nk (cur_keys (cur_del k c)).
Proof.
  intros N F J. apply cur_find_In in F. unfold cur_keys in J. apply in_map_iff in J.
  destruct J as (x & E & I). apply cur_del_In in I. destruct I as [I Nk].
  assert (x = (k, (nk, v))) as ->.
  { apply (nodup_map_inj (fun x => fst (snd x)) c); auto. }
  apply Nk. reflexivity.
Qed.

Lemma cur_keys_In c k nk v : In (k, (nk, v)) c -> In nk (cur_keys c).
Proof. intros I. unfold cur_keys. apply in_map_iff. exists (k, (nk, v)). split; [reflexivity|exact I]. Qed.

(** * 1. The invariant of a run *)

Section Inv.
  Variable H : bytes -> bytes.

  Definition row_of_entry (k : bytes) (nk : nkey2) (v : bytes) : nkey2 * leafrow :=
    (nk, LeafRow k v (H (leaf_preimage H (fst nk) k v))).

  (** within a version *)
  Definition core (s : lstate) : Prop :=
    NoDup (cur_keys (ls_cur s)) /\
    (forall nk, In nk (cur_keys (ls_cur s)) ->
       fst nk <= ls_version s + 1 /\ (fst nk = ls_version s + 1 -> snd nk <= leaf_seq_start + ls_lseq s)) /\
    (forall nk, In nk (ls_orph s) -> fst nk <= ls_version s /\ ~ In nk (cur_keys (ls_cur s))) /\
    (forall nk at_, In (nk, at_) (lorphans (ls_store s)) ->
       fst nk < at_ <= ls_version s /\ ~ In nk (cur_keys (ls_cur s))) /\
    (forall k nk v, In (k, (nk, v)) (ls_cur s) -> fst nk <= ls_version s ->
       In (row_of_entry k nk v) (leaves (ls_store s))).

  (** against the trace *)
  Definition tinv (s : lstate) (tr : ltrace) : Prop :=
    (forall nk at_ w c, In (nk, at_) (lorphans (ls_store s)) -> In (w, c) tr -> at_ <= w ->
       ~ In nk (cur_keys c)) /\
    (forall w c, In (w, c) tr -> w <= ls_version s) /\
    (forall w c k nk v, In (w, c) tr -> ls_floor s <= w -> In (k, (nk, v)) c ->
       In (row_of_entry k nk v) (leaves (ls_store s))).

  Lemma apply_frame s o :
    ls_version (ls_apply s o) = ls_version s /\ ls_store (ls_apply s o) = ls_store s /\
    ls_floor (ls_apply s o) = ls_floor s /\ ls_ckpts (ls_apply s o) = ls_ckpts s /\
    ls_dirty (ls_apply s o) = ls_dirty s.
  Proof.
    destruct o as [k v|k]; cbn [ls_apply]; [repeat split|].
    destruct (cur_find k (ls_cur s)) as [[nk v0]|]; [|repeat split].
    destruct (fst nk =? ls_version s + 1); repeat split.
  Qed.

  Lemma apply_core s o : core s -> core (ls_apply s o).
  Proof.
    intros (A & B & C & D & E).
    destruct o as [k v|k]; cbn [ls_apply].
    - (* Set *)
      set (nk' := (ls_version s + 1, leaf_seq_start + (ls_lseq s + 1))).
      assert (Fresh : ~ In nk' (cur_keys (cur_del k (ls_cur s)))).
      { intros J. apply cur_keys_del_incl in J. apply B in J. cbn [fst snd nk'] in J. lia. }
      assert (KS : forall nk, In nk (cur_keys (cur_put k nk' v (ls_cur s))) <->
                              In nk (cur_keys (cur_del k (ls_cur s))) \/ nk = nk').
      { intros nk. unfold cur_put, cur_keys. rewrite map_app, in_app_iff. cbn [map fst snd In].
        split.
        - intros [J|[J|[]]]; [left; exact J|right; symmetry; exact J].
        - intros [J| ->]; [left; exact J|right; left; reflexivity]. }
      unfold core; cbn [ls_cur ls_version ls_lseq ls_orph ls_store]. repeat split.
      + unfold cur_put, cur_keys. rewrite map_app. cbn [map fst snd].
        apply nodup_snoc; [apply cur_keys_del_nodup; exact A|exact Fresh].
      + apply KS in H0. destruct H0 as [J| ->]; [|cbn [fst nk']; lia].
        apply cur_keys_del_incl in J. apply B in J. lia.
      + intros Ev. apply KS in H0. destruct H0 as [J| ->]; [|cbn [snd nk']; lia].
        apply cur_keys_del_incl in J. apply B in J. lia.
      + apply in_app_iff in H0. destruct H0 as [J|J]; [apply C in J; lia|].
        destruct (cur_find k (ls_cur s)) as [[nk0 v0]|] eqn:F; [|destruct J].
        unfold leaf_orphan_of, leaf_dirty in J.
        destruct (fst nk0 =? ls_version s + 1) eqn:Q; cbn [orb] in J; [destruct J|].
        destruct (okey_eqb (ls_dirty s) nk0); [destruct J|]. destruct J as [<-|[]].
        apply Z.eqb_neq in Q. apply cur_find_In in F. apply cur_keys_In in F. apply B in F. lia.
      + intros J. apply KS in J. apply in_app_iff in H0. destruct H0 as [I|I].
        * apply C in I. destruct I as [I1 I2]. destruct J as [J| ->].
          -- apply I2. apply cur_keys_del_incl in J. exact J.
          -- cbn [fst nk'] in I1. lia.
        * destruct (cur_find k (ls_cur s)) as [[nk0 v0]|] eqn:F; [|destruct I].
          unfold leaf_orphan_of, leaf_dirty in I.
          destruct (fst nk0 =? ls_version s + 1) eqn:Q; cbn [orb] in I; [destruct I|].
          destruct (okey_eqb (ls_dirty s) nk0); [destruct I|]. destruct I as [<-|[]].
          destruct J as [J| ->].
          -- revert J. apply (cur_find_del_fresh k _ nk0 v0); auto.
          -- apply Z.eqb_neq in Q. cbn [fst nk'] in Q. lia.
      + apply D in H0. lia.
      + apply D in H0. lia.
      + intros J. apply KS in J. apply D in H0. destruct H0 as [I1 I2]. destruct J as [J| ->].
        * apply I2. apply cur_keys_del_incl in J. exact J.
        * cbn [fst nk'] in I1. lia.
      + intros k0 nk v1 I L. unfold cur_put in I. apply in_app_iff in I. destruct I as [I|[I|[]]].
        * apply cur_del_In in I. apply E; [apply I|exact L].
        * inversion I; subst. cbn [fst nk'] in L. lia.
    - (* Remove *)
      destruct (cur_find k (ls_cur s)) as [[nk0 v0]|] eqn:F;
        [|exact (conj A (conj B (conj C (conj D E))))].
      assert (G : core (LState (cur_del k (ls_cur s)) (ls_version s) (ls_lseq s) (ls_dels s)
                     (ls_orph s) (ls_dirty s) (ls_ckpts s) (ls_store s) (ls_floor s))).
      { unfold core; cbn [ls_cur ls_version ls_lseq ls_orph ls_store]. repeat split.
        - apply cur_keys_del_nodup; exact A.
        - apply cur_keys_del_incl in H0. apply B in H0. lia.
        - intros Ev. apply cur_keys_del_incl in H0. apply B in H0. lia.
        - apply C in H0. lia.
        - intros J. apply cur_keys_del_incl in J. apply C in H0. apply H0. exact J.
        - apply D in H0. lia.
        - apply D in H0. lia.
        - intros J. apply cur_keys_del_incl in J. apply D in H0. apply H0. exact J.
        - intros k0 nk v1 I L. apply cur_del_In in I. apply E; [apply I|exact L]. }
      destruct (fst nk0 =? ls_version s + 1); [exact G|].
      destruct G as (A' & B' & C' & D' & E').
      unfold core; cbn [ls_cur ls_version ls_lseq ls_orph ls_store] in *. repeat split; auto.
      + apply B' in H0. lia.
      + intros Ev. apply B' in H0. lia.
      + apply C' in H0. lia.
      + apply C' in H0. apply H0.
      + apply D' in H0. lia.
      + apply D' in H0. lia.
      + apply D' in H0. apply H0.
  Qed.

  Lemma apply_all_core ops : forall s, core s -> core (ls_apply_all s ops).
  Proof.
    unfold ls_apply_all. induction ops as [|o ops IH]; cbn [fold_left]; intros s C; [exact C|].
    apply IH. apply apply_core. exact C.
  Qed.

  Lemma apply_all_frame ops : forall s,
    ls_version (ls_apply_all s ops) = ls_version s /\ ls_store (ls_apply_all s ops) = ls_store s /\
    ls_floor (ls_apply_all s ops) = ls_floor s /\ ls_ckpts (ls_apply_all s ops) = ls_ckpts s.
  Proof.
    unfold ls_apply_all. induction ops as [|o ops IH]; cbn [fold_left]; intros s; [repeat split|].
    destruct (IH (ls_apply s o)) as (a & b & c & d). destruct (apply_frame s o) as (a' & b' & c' & d' & _).
    rewrite a, b, c, d. auto.
  Qed.

  Lemma tinv_frame s s' tr :
    ls_version s' = ls_version s -> ls_store s' = ls_store s -> ls_floor s' = ls_floor s ->
    tinv s tr -> tinv s' tr.
  Proof. unfold tinv. intros -> -> ->. auto. Qed.

  Lemma new_rows_In v c k nk val :
    In (k, (nk, val)) c -> fst nk = v -> In (row_of_entry k nk val) (new_leaf_rows H v c).
  Proof.
    intros I E. unfold new_leaf_rows, row_of_entry. apply in_map_iff. exists (k, (nk, val)).
    cbn [fst snd]. split; [reflexivity|]. apply filter_In. split; [exact I|]. cbn [fst snd].
    apply Z.eqb_eq. exact E.
  Qed.

  Lemma save_inv interval s tr :
    core s -> tinv s tr ->
    core (ls_save H interval s) /\
    tinv (ls_save H interval s) (tr ++ [(ls_version s + 1, ls_cur s)]).
  Proof.
    intros (A & B & C & D & E) (T1 & T2 & T3).
    assert (E' : forall k nk v, In (k, (nk, v)) (ls_cur s) ->
              In (row_of_entry k nk v)
                 (leaves (save_leaves H (ls_store s) (ls_version s + 1) (ls_cur s) (ls_dels s) (ls_orph s)))).
    { intros k nk v I. cbn [save_leaves leaves]. apply in_app_iff.
      pose proof (cur_keys_In _ _ _ _ I) as J. apply B in J.
      destruct (Z.eq_dec (fst nk) (ls_version s + 1)) as [Q|Q].
      - right. apply new_rows_In; auto.
      - left. apply E; [exact I|lia]. }
    split.
    - unfold core, ls_save; cbn [ls_cur ls_version ls_lseq ls_orph ls_store save_leaves lorphans leaves].
      repeat split; auto.
      + apply B in H0. lia.
      + intros Ev. apply B in H0. lia.
      + destruct H0.
      + apply in_app_iff in H0. destruct H0 as [I|I]; [apply D in I; lia|].
        apply in_map_iff in I. destruct I as (x & Ex & I). inversion Ex; subst. apply C in I. lia.
      + apply in_app_iff in H0. destruct H0 as [I|I]; [apply D in I; lia|].
        apply in_map_iff in I. destruct I as (x & Ex & I). inversion Ex; subst. lia.
      + apply in_app_iff in H0. destruct H0 as [I|I]; [apply D in I; apply I|].
        apply in_map_iff in I. destruct I as (x & Ex & I). inversion Ex; subst. apply C in I. apply I.
    - unfold tinv, ls_save; cbn [ls_cur ls_version ls_floor ls_store]. repeat split.
      + intros nk at_ w c I J L. cbn [save_leaves lorphans] in I.
        apply in_app_iff in I. apply in_app_iff in J. destruct J as [J|[J|[]]].
        * destruct I as [I|I]; [apply (T1 nk at_ w c); auto|].
          apply in_map_iff in I. destruct I as (x & Ex & I). inversion Ex; subst.
          apply T2 in J. lia.
        * inversion J; subst. destruct I as [I|I]; [apply D in I; apply I|].
          apply in_map_iff in I. destruct I as (x & Ex & I). inversion Ex; subst. apply C in I. apply I.
      + intros w c J. apply in_app_iff in J. destruct J as [J|[J|[]]]; [apply T2 in J; lia|].
        inversion J; subst. lia.
      + intros w c k nk v J L I. apply in_app_iff in J. destruct J as [J|[J|[]]].
        * cbn [save_leaves leaves]. apply in_app_iff. left. apply (T3 w c); auto.
        * inversion J; subst. apply E'. exact I.
  Qed.

  Lemma prune_to_inv s tr c :
    core s -> tinv s tr ->
    let s' := LState (ls_cur s) (ls_version s) (ls_lseq s) (ls_dels s) (ls_orph s) (ls_dirty s)
                     (ls_ckpts s) (prune_leaves_to (ls_store s) c) (Z.max (ls_floor s) c) in
    core s' /\ tinv s' tr.
  Proof.
    intros (A & B & C & D & E) (T1 & T2 & T3). cbn zeta.
    assert (Dead : forall nk, in_keys nk (map fst (filter (fun o => snd o <=? c) (lorphans (ls_store s)))) = true ->
              exists at_, In (nk, at_) (lorphans (ls_store s)) /\ at_ <= c).
    { intros nk J. apply in_keys_true in J. apply in_map_iff in J. destruct J as ([nk1 at_] & Ex & J).
      cbn [fst] in Ex. subst. apply filter_In in J. cbn [snd] in J. destruct J as [J L].
      apply Z.leb_le in L. exists at_. auto. }
    split.
    - unfold core; cbn [ls_cur ls_version ls_lseq ls_orph ls_store prune_leaves_to lorphans leaves].
      repeat split; auto.
      + apply B in H0. lia.
      + intros Ev. apply B in H0. lia.
      + apply C in H0. lia.
      + apply C in H0. apply H0.
      + apply filter_In in H0. destruct H0 as [I _]. apply D in I. lia.
      + apply filter_In in H0. destruct H0 as [I _]. apply D in I. lia.
      + apply filter_In in H0. destruct H0 as [I _]. apply D in I. apply I.
      + intros k nk v I L. apply filter_In. split; [apply E; auto|]. apply negb_true_iff.
        destruct (in_keys _ _) eqn:Q; [|reflexivity]. exfalso. unfold row_of_entry in Q. cbn [fst] in Q.
        apply Dead in Q. destruct Q as (at_ & Io & _). apply D in Io. apply Io.
        apply (cur_keys_In _ k nk v). exact I.
    - unfold tinv; cbn [ls_version ls_floor ls_store prune_leaves_to lorphans leaves]. repeat split.
      + intros nk at_ w c0 I. apply filter_In in I. destruct I as [I _]. apply T1. exact I.
      + exact T2.
      + intros w c0 k nk v J L I. apply filter_In. split; [apply (T3 w c0); auto; lia|].
        apply negb_true_iff. destruct (in_keys _ _) eqn:Q; [|reflexivity]. exfalso.
        unfold row_of_entry in Q. cbn [fst] in Q. apply Dead in Q. destruct Q as (at_ & Io & La).
        apply (T1 nk at_ w c0 Io J); [lia|]. apply (cur_keys_In _ k nk v). exact I.
  Qed.

  Lemma step_inv interval s tr e s' tr' :
    core s -> tinv s tr -> ls_step H false interval (s, tr) e = Some (s', tr') ->
    core s' /\ tinv s' tr'.
  Proof.
    intros C T S. destruct e as [ops|n]; cbn [ls_step] in S.
    - injection S as <- <-.
      destruct (apply_all_frame ops s) as (a & b & c & d).
      pose proof (apply_all_core ops s C) as C'.
      pose proof (tinv_frame s (ls_apply_all s ops) tr a b c T) as T'.
      destruct (save_inv interval _ _ C' T') as [C2 T2].
      split; [exact C2|]. cbn [ls_save ls_version ls_cur]. exact T2.
    - unfold prune_leaves_b in S. destruct (find_previous (ls_ckpts s) n) as [c| |]; try discriminate.
      destruct (c =? -1) eqn:Q.
      + injection S as <- <-. destruct C as (A & B & C & D & E). destruct T as (T1 & T2 & T3).
        split; [unfold core; cbn [ls_cur ls_version ls_lseq ls_orph ls_store]; repeat split; auto;
                try (apply B in H0; lia); try (apply C in H0; tauto); try (apply D in H0; tauto || lia)|].
        unfold tinv; cbn [ls_version ls_floor ls_store]. repeat split; auto.
        intros w c0 k nk v J L I. apply (T3 w c0); auto. lia.
      + injection S as <- <-. apply prune_to_inv; auto.
  Qed.

  Lemma core_empty : core ls_empty.
  Proof.
    unfold core, ls_empty; cbn. repeat split; try constructor; try contradiction.
  Qed.

  Lemma tinv_empty : tinv ls_empty [].
  Proof. unfold tinv; cbn. repeat split; contradiction. Qed.

  Lemma run_inv interval hist : forall s tr s' tr',
    core s -> tinv s tr -> ls_run_tr H false interval (s, tr) hist = Some (s', tr') ->
    core s' /\ tinv s' tr'.
  Proof.
    induction hist as [|e hist IH]; cbn [ls_run_tr]; intros s tr s' tr' C T R.
    - injection R as <- <-. auto.
    - destruct (ls_step H false interval (s, tr) e) as [[s1 tr1]|] eqn:S; [|discriminate].
      destruct (step_inv _ _ _ _ _ _ C T S) as [C1 T1]. apply (IH s1 tr1); auto.
  Qed.
End Inv.

(** * 2. The pruned run against the uninterrupted run *)

Definition with_store (s : lstate) (st : lstore) (fl : Z) : lstate :=
  LState (ls_cur s) (ls_version s) (ls_lseq s) (ls_dels s) (ls_orph s) (ls_dirty s) (ls_ckpts s) st fl.

Lemma with_apply s st fl o : ls_apply (with_store s st fl) o = with_store (ls_apply s o) st fl.
Proof.
  destruct o as [k v|k]; cbn [ls_apply with_store ls_cur ls_version ls_lseq ls_dels ls_orph ls_dirty
                              ls_ckpts ls_store ls_floor]; [reflexivity|].
  destruct (cur_find k (ls_cur s)) as [[nk v0]|]; [|reflexivity].
  destruct (fst nk =? ls_version s + 1); reflexivity.
Qed.

Lemma with_apply_all ops : forall s st fl,
  ls_apply_all (with_store s st fl) ops = with_store (ls_apply_all s ops) st fl.
Proof.
  unfold ls_apply_all. induction ops as [|o ops IH]; cbn [fold_left]; intros s st fl; [reflexivity|].
  rewrite with_apply. apply IH.
Qed.

Lemma raw_prune st c cc t :
  (forall nk at_, In (nk, at_) (lorphans st) -> fst nk < at_) -> c <= cc ->
  replay_raw (prune_leaves_to st c) cc t = replay_raw st cc t.
Proof.
  intros O L. unfold replay_raw, prune_leaves_to; cbn [leaves ldeletes]. f_equal.
  - apply filter_filter_imp. intros x _ R. unfold in_range in R. apply andb_true_iff in R.
    destruct R as [R _]. apply Z.ltb_lt in R. apply negb_true_iff.
    destruct (in_keys _ _) eqn:Q; [|reflexivity]. exfalso.
    apply in_keys_true in Q. apply in_map_iff in Q. destruct Q as ([nk at_] & Ex & J). cbn [fst] in Ex.
    subst nk. apply filter_In in J. cbn [snd] in J. destruct J as [J La]. apply Z.leb_le in La.
    apply O in J. lia.
  - apply filter_filter_imp. intros x _ R. cbv beta in R |- *. unfold in_range in R.
    apply andb_true_iff in R. destruct R as [R _]. apply Z.ltb_lt in R. apply negb_true_iff.
    apply Z.ltb_ge. apply Z.le_trans with cc; [exact L|apply Z.lt_le_incl; exact R].
Qed.

Lemma raw_save H st1 st2 v cur dels orph c t :
  replay_raw st1 c t = replay_raw st2 c t ->
  replay_raw (save_leaves H st1 v cur dels orph) c t = replay_raw (save_leaves H st2 v cur dels orph) c t.
Proof.
  unfold replay_raw, save_leaves; cbn [leaves ldeletes]. intros E. injection E as E1 E2.
  rewrite !filter_app, E1, E2. reflexivity.
Qed.

Section Sim.
  Variable H : bytes -> bytes.

  Definition raw_agree (sp sf : lstate) : Prop :=
    forall c t, ls_floor sp <= c -> replay_raw (ls_store sp) c t = replay_raw (ls_store sf) c t.

  Lemma with_save interval s st fl :
    ls_save H interval (with_store s st fl) =
    (with_store (ls_save H interval s)
               (save_leaves H st (ls_version s + 1) (ls_cur s) (ls_dels s) (ls_orph s)) fl).
  Proof. reflexivity. Qed.

  Lemma sim interval hist : forall sf stp fl tr sp' tr',
    core H (with_store sf stp fl) -> tinv H (with_store sf stp fl) tr ->
    (forall c t, fl <= c -> replay_raw stp c t = replay_raw (ls_store sf) c t) ->
    ls_run_tr H false interval (with_store sf stp fl, tr) hist = Some (sp', tr') ->
    exists sf', ls_run_tr H false interval (sf, tr) (no_prunes hist) = Some (sf', tr') /\
                sp' = with_store sf' (ls_store sp') (ls_floor sp') /\ raw_agree sp' sf'.
  Proof.
    induction hist as [|e hist IH]; intros sf stp fl tr sp' tr' C T A R.
    - cbn [ls_run_tr] in R. injection R as <- <-. exists sf. cbn [no_prunes filter ls_run_tr].
      split; [reflexivity|]. split; [reflexivity|]. exact A.
    - cbn [ls_run_tr] in R.
      destruct (ls_step H false interval (with_store sf stp fl, tr) e) as [[s1 tr1]|] eqn:S; [|discriminate].
      destruct (step_inv H _ _ _ _ _ _ C T S) as [C1 T1].
      destruct e as [ops|n].
      + cbn [no_prunes filter ls_run_tr ls_step]. fold (no_prunes hist).
        cbn [ls_step] in S. rewrite with_apply_all, with_save in S. injection S as <- <-.
        cbn [with_store ls_version ls_cur] in R, T1 |- *.
        apply (IH _ _ _ _ _ _ C1 T1); [|exact R].
        intros c t L. cbn [ls_save ls_store]. apply raw_save.
        destruct (apply_all_frame ops sf) as (_ & -> & _). apply A. exact L.
      + cbn [no_prunes filter]. fold (no_prunes hist). cbn [ls_step] in S.
        unfold prune_leaves_b in S.
        destruct (find_previous (ls_ckpts (with_store sf stp fl)) n) as [c| |]; try discriminate.
        destruct C as (_ & _ & _ & D & _). cbn [with_store ls_store] in D.
        destruct (c =? -1) eqn:Q; injection S as <- <-.
        * apply (IH sf stp (Z.max fl (-1)) _ _ _ C1 T1); [|exact R].
          intros cc t L. apply A. lia.
        * apply (IH sf (prune_leaves_to stp c) (Z.max fl c) _ _ _ C1 T1); [|exact R].
          intros cc t L. rewrite raw_prune; [apply A; lia| |lia].
          intros nk at_ I. apply D in I. lia.
  Qed.
End Sim.

(** * 3. Theorems *)

(** THEOREM 2 (partial): a [leaf_orphan] row [((v,s), at)]: [v < at <= version], and the leaf
    [(v,s)] is not a current leaf in any version from [at] on.  (The full statement adds: it
    IS a current leaf in every version of [[v, at)]: [leaf_orphans_sound] below.) *)
Theorem leaf_orphans_sound_partial H interval hist s tr nk at_ :
  ls_run_tr H false interval (ls_empty, []) hist = Some (s, tr) ->
  In (nk, at_) (lorphans (ls_store s)) ->
  fst nk < at_ <= ls_version s /\
  forall w c, In (w, c) tr -> at_ <= w -> ~ In nk (cur_keys c).
Proof.
  intros R I. destruct (run_inv H interval hist _ _ _ _ (core_empty H) (tinv_empty H) R) as [C T].
  destruct C as (_ & _ & _ & D & _). destruct T as (T1 & _). split; [apply D in I; lia|].
  intros w c J L. apply (T1 nk at_ w c); auto.
Qed.
Print Assumptions leaf_orphans_sound_partial.

(** THEOREM 3 (main).  After ANY history (versions and prunes, in any order; take a history
    ending with the prune of interest), with [ls_floor s] the largest aligned bound
    [FindPrevious(n)] any prune used: the trace of current leaves is that of the uninterrupted
    run; for every [c >= ls_floor s] (in particular every retained checkpoint) and every target
    [t] the replayed rows of [(c, t]] are exactly those of the uninterrupted run; and every
    leaf that is current in a version [w >= ls_floor s] (in particular in a retained
    checkpoint tree) still has its row. *)
Theorem prune_leaves_keeps_replay H interval hist s tr :
  ls_run_tr H false interval (ls_empty, []) hist = Some (s, tr) ->
  exists sf,
    ls_run_tr H false interval (ls_empty, []) (no_prunes hist) = Some (sf, tr) /\
    ls_cur sf = ls_cur s /\ ls_version sf = ls_version s /\ ls_ckpts sf = ls_ckpts s /\
    (forall c t, ls_floor s <= c -> replay (ls_store s) c t = replay (ls_store sf) c t) /\
    (forall w cur k nk v, In (w, cur) tr -> ls_floor s <= w -> In (k, (nk, v)) cur ->
       In (row_of_entry H k nk v) (leaves (ls_store s))).
Proof.
  intros R.
  destruct (run_inv H interval hist _ _ _ _ (core_empty H) (tinv_empty H) R) as [C T].
  destruct (sim H interval hist ls_empty lstore_empty (-1) [] s tr (core_empty H) (tinv_empty H))
    as (sf & Rf & W & A); [intros c t _; reflexivity|exact R|].
  exists sf. split; [exact Rf|]. rewrite W. cbn [with_store ls_cur ls_version ls_ckpts ls_store ls_floor].
  repeat split; auto.
  - intros c t L. unfold replay. rewrite (A c t L). reflexivity.
  - destruct T as (_ & _ & T3). rewrite W in T3. cbn [with_store ls_store ls_floor] in T3. exact T3.
Qed.
Print Assumptions prune_leaves_keeps_replay.

(** what one prune does to the store and to the bound *)
Lemma prune_step_spec H interval s tr n c :
  find_previous (ls_ckpts s) n = FPVal c ->
  exists s', ls_step H false interval (s, tr) (HPrune n) = Some (s', tr) /\
    prune_leaves (ls_ckpts s) (ls_store s) n = Some (ls_store s') /\
    ls_floor s' = Z.max (ls_floor s) c /\
    ls_store s' = (if c =? -1 then ls_store s else prune_leaves_to (ls_store s) c).
Proof.
  intros E. cbn [ls_step]. unfold prune_leaves, prune_leaves_b. rewrite E.
  destruct (c =? -1) eqn:Q; eexists; (split; [reflexivity|]); cbn [option_map fst ls_store ls_floor]; auto.
  apply Z.eqb_eq in Q. subst. auto.
Qed.

(** * 3b. The other half of soundness: an orphaned leaf was current from its version on *)

Lemma apply_cur_keys s o nk :
  In nk (cur_keys (ls_cur (ls_apply s o))) ->
  In nk (cur_keys (ls_cur s)) \/ fst nk = ls_version s + 1.
Proof.
  destruct o as [k v|k]; cbn [ls_apply].
  - cbn [ls_cur]. unfold cur_put, cur_keys. rewrite map_app, in_app_iff. cbn [map fst snd In].
    intros [J|[J|[]]]; [left; apply (cur_keys_del_incl k); exact J|right; subst nk; reflexivity].
  - destruct (cur_find k (ls_cur s)) as [[nk0 v0]|]; [|auto].
    destruct (fst nk0 =? ls_version s + 1); cbn [ls_cur]; intros J; left;
      apply (cur_keys_del_incl k); exact J.
Qed.

Lemma apply_orph s o nk :
  In nk (ls_orph (ls_apply s o)) ->
  In nk (ls_orph s) \/ (In nk (cur_keys (ls_cur s)) /\ fst nk <> ls_version s + 1).
Proof.
  destruct o as [k v|k]; cbn [ls_apply].
  - cbn [ls_orph]. rewrite in_app_iff. intros [J|J]; [left; exact J|right].
    destruct (cur_find k (ls_cur s)) as [[nk0 v0]|] eqn:F; [|destruct J].
    unfold leaf_orphan_of, leaf_dirty in J.
    destruct (fst nk0 =? ls_version s + 1) eqn:Q; cbn [orb] in J; [destruct J|].
    destruct (okey_eqb (ls_dirty s) nk0); [destruct J|]. destruct J as [<-|[]].
    apply Z.eqb_neq in Q. split; [|exact Q]. apply cur_find_In in F. apply (cur_keys_In _ _ _ _ F).
  - destruct (cur_find k (ls_cur s)) as [[nk0 v0]|]; [|auto].
    destruct (fst nk0 =? ls_version s + 1); cbn [ls_orph]; auto.
Qed.

Section Inv2.
  Variable H : bytes -> bytes.

  Definition hinv (s : lstate) (tr : ltrace) : Prop :=
    (forall nk w c, In nk (cur_keys (ls_cur s)) -> fst nk <= ls_version s -> In (w, c) tr -> fst nk <= w ->
       In nk (cur_keys c)) /\
    (forall nk w c, In nk (ls_orph s) -> In (w, c) tr -> fst nk <= w -> In nk (cur_keys c)) /\
    (forall nk at_ w c, In (nk, at_) (lorphans (ls_store s)) -> In (w, c) tr -> fst nk <= w < at_ ->
       In nk (cur_keys c)).

  Lemma apply_hinv s tr o : core H s -> hinv s tr -> hinv (ls_apply s o) tr.
  Proof.
    intros (A & B & C & D & E) (P0 & P1 & P2).
    destruct (apply_frame s o) as (a & b & _).
    unfold hinv. rewrite a, b. repeat split.
    - intros nk w c I L J Lw. apply apply_cur_keys in I. destruct I as [I|I]; [|lia].
      apply (P0 nk w c); auto.
    - intros nk w c I J Lw. apply apply_orph in I. destruct I as [I|[I N]]; [apply (P1 nk w c); auto|].
      apply (P0 nk w c); auto. apply B in I. lia.
    - exact P2.
  Qed.

  Lemma apply_all_hinv ops tr : forall s, core H s -> hinv s tr -> hinv (ls_apply_all s ops) tr.
  Proof.
    unfold ls_apply_all. induction ops as [|o ops IH]; cbn [fold_left]; intros s C P; [exact P|].
    apply IH; [apply apply_core; exact C|apply apply_hinv; auto].
  Qed.

  Lemma save_hinv interval s tr :
    core H s -> tinv H s tr -> hinv s tr ->
    hinv (ls_save H interval s) (tr ++ [(ls_version s + 1, ls_cur s)]).
  Proof.
    intros (A & B & C & D & E) (T1 & T2 & T3) (P0 & P1 & P2).
    unfold hinv, ls_save; cbn [ls_cur ls_version ls_orph ls_store save_leaves lorphans]. repeat split.
    - intros nk w c I L J Lw. apply in_app_iff in J. destruct J as [J|[J|[]]].
      + apply (P0 nk w c); auto. apply T2 in J. lia.
      + inversion J; subst. exact I.
    - intros nk w c [].
    - intros nk at_ w c I J Lw. apply in_app_iff in I. apply in_app_iff in J.
      destruct I as [I|I], J as [J|[J|[]]].
      + apply (P2 nk at_ w c); auto.
      + inversion J; subst. apply D in I. lia.
      + apply in_map_iff in I. destruct I as (x & Ex & I). inversion Ex; subst.
        apply (P1 nk w c); auto. lia.
      + inversion J; subst. apply in_map_iff in I. destruct I as (x & Ex & I). inversion Ex; subst. lia.
  Qed.

  Lemma step_hinv interval s tr e s' tr' :
    core H s -> tinv H s tr -> hinv s tr -> ls_step H false interval (s, tr) e = Some (s', tr') ->
    hinv s' tr'.
  Proof.
    intros C T P S. destruct e as [ops|n]; cbn [ls_step] in S.
    - injection S as <- <-.
      destruct (apply_all_frame ops s) as (a & b & c & d).
      pose proof (apply_all_core H ops s C) as C'.
      pose proof (tinv_frame H s (ls_apply_all s ops) tr a b c T) as T'.
      pose proof (apply_all_hinv ops tr s C P) as P'.
      cbn [ls_save ls_version ls_cur]. apply (save_hinv interval _ _ C' T' P').
    - unfold prune_leaves_b in S. destruct (find_previous (ls_ckpts s) n) as [c| |]; try discriminate.
      destruct P as (P0 & P1 & P2).
      destruct (c =? -1); injection S as <- <-; unfold hinv;
        cbn [ls_cur ls_version ls_orph ls_store prune_leaves_to lorphans]; repeat split; auto.
      intros nk at_ w c0 I. apply filter_In in I. destruct I as [I _]. apply P2. exact I.
  Qed.

  Lemma run_hinv interval hist : forall s tr s' tr',
    core H s -> tinv H s tr -> hinv s tr -> ls_run_tr H false interval (s, tr) hist = Some (s', tr') ->
    hinv s' tr'.
  Proof.
    induction hist as [|e hist IH]; cbn [ls_run_tr]; intros s tr s' tr' C T P R.
    - injection R as <- <-. exact P.
    - destruct (ls_step H false interval (s, tr) e) as [[s1 tr1]|] eqn:S; [|discriminate].
      destruct (step_inv H _ _ _ _ _ _ C T S) as [C1 T1].
      pose proof (step_hinv _ _ _ _ _ _ C T P S) as P1. apply (IH s1 tr1); auto.
  Qed.

  Lemma hinv_empty : hinv ls_empty [].
  Proof. unfold hinv; cbn. repeat split; intros; contradiction. Qed.
End Inv2.

(** THEOREM 2.  A [leaf_orphan] row [((v,s), at)] in the store after any history: [v < at],
    the leaf [(v,s)] is a current leaf (of the trace of the run: the leaves of the tree after
    every version) in every version of [[v, at)] and in no version from [at] on. *)
Theorem leaf_orphans_sound H interval hist s tr nk at_ :
  ls_run_tr H false interval (ls_empty, []) hist = Some (s, tr) ->
  In (nk, at_) (lorphans (ls_store s)) ->
  fst nk < at_ <= ls_version s /\
  (forall w c, In (w, c) tr -> fst nk <= w < at_ -> In nk (cur_keys c)) /\
  (forall w c, In (w, c) tr -> at_ <= w -> ~ In nk (cur_keys c)).
Proof.
  intros R I.
  destruct (leaf_orphans_sound_partial H interval hist s tr nk at_ R I) as [L N].
  pose proof (run_hinv H interval hist _ _ _ _ (core_empty H) (tinv_empty H) (hinv_empty) R) as (_ & _ & P2).
  split; [exact L|]. split; [|exact N]. intros w c J Lw. apply (P2 nk at_ w c); auto.
Qed.
Print Assumptions leaf_orphans_sound.

(** * 3c. The trace has every version; leaf row keys are unique (getLeaf finds THE row) *)

Lemma nodup_map_filter {A B} (f : A -> B) p l : NoDup (map f l) -> NoDup (map f (filter p l)).
Proof.
  induction l as [|x l IH]; cbn [map filter]; intros N; [constructor|].
  inversion N as [|? ? NI N']; subst. destruct (p x); cbn [map]; [|auto].
  constructor; [|auto]. intros J. apply NI. apply in_map_iff in J. destruct J as (y & E & J).
  apply filter_In in J. rewrite <- E. apply in_map. apply J.
Qed.

Lemma nodup_app_disj {A} (l1 l2 : list A) :
  NoDup l1 -> NoDup l2 -> (forall x, In x l1 -> ~ In x l2) -> NoDup (l1 ++ l2).
Proof.
  induction l1 as [|x l1 IH]; cbn [app]; intros N1 N2 D; [exact N2|].
  inversion N1 as [|? ? NI N1']; subst. constructor.
  - rewrite in_app_iff. intros [J|J]; [auto|]. apply (D x); [left; reflexivity|exact J].
  - apply IH; auto. intros y I. apply D. right. exact I.
Qed.

Lemma get_leaf_In nk row l : NoDup (map fst l) -> In (nk, row) l -> get_leaf nk l = Some row.
Proof.
  induction l as [|[k r] l IH]; cbn [map fst get_leaf]; intros N I; [destruct I|].
  inversion N as [|? ? NI N']; subst. destruct I as [I|I].
  - inversion I; subst. replace (key_eqb nk nk) with true by (symmetry; apply key_eqb_eq; reflexivity).
    reflexivity.
  - destruct (key_eqb nk k) eqn:Q; [|auto]. apply key_eqb_eq in Q. subst. exfalso. apply NI.
    apply in_map_iff. exists (k, row). auto.
Qed.

Section Inv3.
  Variable H : bytes -> bytes.

  Definition kinv (s : lstate) (tr : ltrace) : Prop :=
    NoDup (map fst (leaves (ls_store s))) /\
    (forall r, In r (leaves (ls_store s)) -> fst (fst r) <= ls_version s) /\
    0 <= ls_version s /\
    (forall w, 1 <= w <= ls_version s -> exists c, In (w, c) tr).

  Lemma new_rows_keys v c : map fst (new_leaf_rows H v c) =
    map (fun x => fst (snd x)) (filter (fun x => fst (fst (snd x)) =? v) c).
  Proof. unfold new_leaf_rows. rewrite map_map. reflexivity. Qed.

  Lemma step_kinv interval s tr e s' tr' :
    core H s -> kinv s tr -> ls_step H false interval (s, tr) e = Some (s', tr') -> kinv s' tr'.
  Proof.
    intros C (K1 & K2 & K3 & K4) S. destruct e as [ops|n]; cbn [ls_step] in S.
    - injection S as <- <-.
      destruct (apply_all_frame ops s) as (a & b & c & d).
      pose proof (apply_all_core H ops s C) as (A' & B' & _).
      unfold kinv, ls_save; cbn [ls_cur ls_version ls_store save_leaves leaves]. rewrite a, b.
      repeat split.
      + rewrite map_app. apply nodup_app_disj; [exact K1| |].
        * rewrite new_rows_keys. apply nodup_map_filter. exact A'.
        * intros x I J. apply in_map_iff in I. destruct I as (r & <- & I). apply K2 in I.
          rewrite new_rows_keys in J. apply in_map_iff in J. destruct J as (y & E & J).
          apply filter_In in J. destruct J as [_ J]. apply Z.eqb_eq in J. rewrite E in J. lia.
      + intros r I. apply in_app_iff in I. destruct I as [I|I]; [apply K2 in I; lia|].
        unfold new_leaf_rows in I. apply in_map_iff in I. destruct I as (y & <- & J). cbn [fst].
        apply filter_In in J. destruct J as [_ J]. apply Z.eqb_eq in J. lia.
      + lia.
      + intros w Lw. destruct (Z.eq_dec w (ls_version s + 1)) as [->|N].
        * eexists. apply in_app_iff. right. left. reflexivity.
        * destruct (K4 w ltac:(lia)) as (c0 & I). exists c0. apply in_app_iff. left. exact I.
    - unfold prune_leaves_b in S. destruct (find_previous (ls_ckpts s) n) as [c| |]; try discriminate.
      destruct (c =? -1); injection S as <- <-; unfold kinv;
        cbn [ls_version ls_store prune_leaves_to leaves]; repeat split; auto.
      + apply nodup_map_filter. exact K1.
      + intros r I. apply filter_In in I. apply K2. apply I.
  Qed.

  Lemma run_kinv interval hist : forall s tr s' tr',
    core H s -> tinv H s tr -> kinv s tr -> ls_run_tr H false interval (s, tr) hist = Some (s', tr') ->
    kinv s' tr'.
  Proof.
    induction hist as [|e hist IH]; cbn [ls_run_tr]; intros s tr s' tr' C T P R.
    - injection R as <- <-. exact P.
    - destruct (ls_step H false interval (s, tr) e) as [[s1 tr1]|] eqn:S; [|discriminate].
      destruct (step_inv H _ _ _ _ _ _ C T S) as [C1 T1].
      pose proof (step_kinv _ _ _ _ _ _ C P S) as P1. apply (IH s1 tr1); auto.
  Qed.

  Lemma kinv_empty : kinv ls_empty [].
  Proof. unfold kinv; cbn. repeat split; try constructor; try contradiction; try lia. Qed.
End Inv3.

(** the trace has every version of the run; [leaf] has one row per node key, so [getLeaf] of a
    leaf current at a version [>= ls_floor s] returns exactly its row *)
Theorem run_trace_and_getleaf H interval hist s tr :
  ls_run_tr H false interval (ls_empty, []) hist = Some (s, tr) ->
  (forall w, 1 <= w <= ls_version s -> exists c, In (w, c) tr) /\
  NoDup (map fst (leaves (ls_store s))) /\
  (forall w cur k nk v, In (w, cur) tr -> ls_floor s <= w -> In (k, (nk, v)) cur ->
     get_leaf nk (leaves (ls_store s)) = Some (LeafRow k v (H (leaf_preimage H (fst nk) k v)))).
Proof.
  intros R.
  destruct (run_inv H interval hist _ _ _ _ (core_empty H) (tinv_empty H) R) as [C (_ & _ & T3)].
  destruct (run_kinv H interval hist _ _ _ _ (core_empty H) (tinv_empty H) (kinv_empty) R) as (K1 & _ & _ & K4).
  split; [exact K4|]. split; [exact K1|]. intros w cur k nk v I L J.
  apply get_leaf_In; [exact K1|]. apply (T3 w cur k nk v I L J).
Qed.
Print Assumptions run_trace_and_getleaf.

(** * 3d. The main theorem in the shape "after any history, then [prune_leaves]" *)

Lemma run_app H interval h1 : forall h2 str,
  ls_run_tr H false interval str (h1 ++ h2) =
  match ls_run_tr H false interval str h1 with
  | Some str' => ls_run_tr H false interval str' h2
  | None => None
  end.
Proof.
  induction h1 as [|e h1 IH]; intros h2 str; cbn [app ls_run_tr]; [reflexivity|].
  destruct (ls_step H false interval str e) as [str1|]; [apply IH|reflexivity].
Qed.

(** After any history (with earlier prunes), [prune_leaves] with [c = find_previous cks n]:
    for every [c' >= c] (and >= the bounds of the earlier prunes; every retained checkpoint
    is) and every target [t], the rows replayed for [(c', t]] are exactly those of the
    uninterrupted run, and every leaf current in a version [w >= c] (same proviso; in
    particular in a retained checkpoint tree) is still returned by [get_leaf]. *)
Theorem prune_leaves_keeps_replay_last H interval hist s0 tr n c st' :
  ls_run_tr H false interval (ls_empty, []) hist = Some (s0, tr) ->
  find_previous (ls_ckpts s0) n = FPVal c ->
  prune_leaves (ls_ckpts s0) (ls_store s0) n = Some st' ->
  exists sf,
    ls_run_tr H false interval (ls_empty, []) (no_prunes hist) = Some (sf, tr) /\
    (forall c' t, Z.max (ls_floor s0) c <= c' -> replay st' c' t = replay (ls_store sf) c' t) /\
    (forall w cur k nk v, In (w, cur) tr -> Z.max (ls_floor s0) c <= w -> In (k, (nk, v)) cur ->
       get_leaf nk (leaves st') = Some (LeafRow k v (H (leaf_preimage H (fst nk) k v)))).
Proof.
  intros R E P.
  destruct (prune_step_spec H interval s0 tr n c E) as (s1 & S & P1 & F1 & _).
  rewrite P in P1. injection P1 as ->.
  assert (R1 : ls_run_tr H false interval (ls_empty, []) (hist ++ [HPrune n]) = Some (s1, tr)).
  { rewrite run_app, R. cbn [ls_run_tr]. rewrite S. reflexivity. }
  destruct (prune_leaves_keeps_replay H interval _ _ _ R1) as (sf & Rf & _ & _ & _ & A & _).
  destruct (run_trace_and_getleaf H interval _ _ _ R1) as (_ & _ & G).
  exists sf. split.
  - unfold no_prunes in Rf |- *. rewrite filter_app in Rf. cbn [filter] in Rf. rewrite app_nil_r in Rf. exact Rf.
  - rewrite F1 in A, G. split; [exact A|exact G].
Qed.
Print Assumptions prune_leaves_keeps_replay_last.

(** * 4. Examples (SHA-256) and refutations *)

Definition xK (n : N) : bytes := [n].

(** 9 versions, checkpoint interval 4 (checkpoints 1, 5, 9).  Updates of committed leaves
    (key 1 in versions 2, 3, 6; key 3 in 4), removals of a present key (2 in version 2, 4 in
    5, 5 in 7) and of absent keys (20 in version 2), a key set and removed in ONE version
    (6 in version 3: the leaf takes sequence 2, no [leaf] row, no [leaf_delete] row, the
    sequence is not reused: version 3 has rows 1 and 3 - NOT excluded, nothing is assumed
    about the operations), a key re-created after its removal (2 in version 7), and two
    prunes: DeleteVersionsTo(4) (aligned to 1) and DeleteVersionsTo(6) (aligned to 5). *)
Definition x_hist : list hstep :=
  [ HVersion [LSet (xK 1) (xK 11); LSet (xK 2) (xK 12); LSet (xK 3) (xK 13); LSet (xK 4) (xK 14)];
    HVersion [LSet (xK 1) (xK 21); LDel (xK 2); LDel (xK 20)];
    HVersion [LSet (xK 5) (xK 15); LSet (xK 6) (xK 16); LDel (xK 6); LSet (xK 1) (xK 31)];
    HVersion [LSet (xK 3) (xK 23)];
    HPrune 4;
    HVersion [LSet (xK 7) (xK 17); LDel (xK 4)];
    HVersion [LSet (xK 1) (xK 41)];
    HVersion [LDel (xK 5); LSet (xK 2) (xK 22)];
    HPrune 6;
    HVersion [LSet (xK 8) (xK 18)];
    HVersion [LSet (xK 9) (xK 19)] ].

(** the keys of the three tables, the checkpoints and the bound *)
Definition x_view (s : lstate) :=
  (map fst (leaves (ls_store s)), ldeletes (ls_store s), lorphans (ls_store s), ls_ckpts s, ls_floor s).

Definition sq (n : Z) : Z := leaf_seq_start + n.

(** after version 4, before any prune *)
Example x_rows_v4 :
  option_map x_view (ls_run sha256 false 4 ls_empty (firstn 4 x_hist)) =
  Some ([(1, sq 1); (1, sq 2); (1, sq 3); (1, sq 4); (2, sq 1); (3, sq 1); (3, sq 3); (4, sq 1)],
        [((2, sq 2), xK 2)],
        [((1, sq 1), 2); ((2, sq 1), 3); ((1, sq 3), 4)], [1], -1).
Proof. vm_compute. reflexivity. Qed.

(** DeleteVersionsTo(4): aligned to checkpoint 1, no orphan row has [at <= 1]: nothing deleted *)
Example x_rows_prune4 :
  option_map x_view (ls_run sha256 false 4 ls_empty (firstn 5 x_hist)) =
  Some ([(1, sq 1); (1, sq 2); (1, sq 3); (1, sq 4); (2, sq 1); (3, sq 1); (3, sq 3); (4, sq 1)],
        [((2, sq 2), xK 2)],
        [((1, sq 1), 2); ((2, sq 1), 3); ((1, sq 3), 4)], [1], 1).
Proof. vm_compute. reflexivity. Qed.

(** before and after DeleteVersionsTo(6) (aligned to checkpoint 5) *)
Example x_rows_v7 :
  option_map x_view (ls_run sha256 false 4 ls_empty (firstn 8 x_hist)) =
  Some ([(1, sq 1); (1, sq 2); (1, sq 3); (1, sq 4); (2, sq 1); (3, sq 1); (3, sq 3); (4, sq 1);
         (5, sq 1); (6, sq 1); (7, sq 2)],
        [((2, sq 2), xK 2); ((5, sq 2), xK 4); ((7, sq 1), xK 5)],
        [((1, sq 1), 2); ((2, sq 1), 3); ((1, sq 3), 4); ((3, sq 3), 6)], [1; 5], 1).
Proof. vm_compute. reflexivity. Qed.

Example x_rows_prune6 :
  option_map x_view (ls_run sha256 false 4 ls_empty (firstn 9 x_hist)) =
  Some ([(1, sq 2); (1, sq 4); (3, sq 1); (3, sq 3); (4, sq 1); (5, sq 1); (6, sq 1); (7, sq 2)],
        [((5, sq 2), xK 4); ((7, sq 1), xK 5)],
        [((3, sq 3), 6)], [1; 5], 5).
Proof. vm_compute. reflexivity. Qed.

Example x_rows_end :
  option_map x_view (ls_run sha256 false 4 ls_empty x_hist) =
  Some ([(1, sq 2); (1, sq 4); (3, sq 1); (3, sq 3); (4, sq 1); (5, sq 1); (6, sq 1); (7, sq 2);
         (8, sq 1); (9, sq 1)],
        [((5, sq 2), xK 4); ((7, sq 1), xK 5)],
        [((3, sq 3), 6)], [1; 5; 9], 5).
Proof. vm_compute. reflexivity. Qed.

(** a full [leaf] row, with its SHA-256 leaf hash *)
Example x_leaf_row :
  option_map (fun s => get_leaf (1, sq 1) (leaves (ls_store s))) (ls_run sha256 false 4 ls_empty (firstn 1 x_hist)) =
  Some (Some (LeafRow (xK 1) (xK 11) (sha256 (leaf_preimage sha256 1 (xK 1) (xK 11))))).
Proof. vm_compute. reflexivity. Qed.

(** the replay from the retained checkpoint 5 to version 9 *)
Example x_replay_5_9 :
  option_map (fun s => replay (ls_store s) 5 9) (ls_run sha256 false 4 ls_empty x_hist) =
  Some [((6, sq 1), LSet (xK 1) (xK 41)); ((7, sq 1), LDel (xK 5)); ((7, sq 2), LSet (xK 2) (xK 22));
        ((8, sq 1), LSet (xK 8) (xK 18)); ((9, sq 1), LSet (xK 9) (xK 19))].
Proof. vm_compute. reflexivity. Qed.

(** TIES.  (a) the current leaves of this model are the leaves of the tree of
    [V2Orphans.os_run] on the same history; (b) the per-version rows of the uninterrupted run
    are exactly [V2.v]'s [db_log] (so V2.v's replay theorems speak about these rows). *)
Example x_tree_tie :
  match ls_run sha256 false 4 ls_empty x_hist, os_run sha256 false false 4 ostate_empty x_hist with
  | Some s, Some o => cur_matches_tree (ls_cur s) (os_root o) && (ls_version s =? os_version o)
  | _, _ => false
  end = true.
Proof. vm_compute. reflexivity. Qed.

Definition ops_of (h : list hstep) : list (list logop * bool) :=
  flat_map (fun e => match e with HVersion ops => [(ops, false)] | HPrune _ => [] end) h.

Example x_log_tie :
  match ls_run sha256 false 4 ls_empty (no_prunes x_hist),
        v2_history sha256 4 (v2t_empty, db_empty) (ops_of x_hist) with
  | Some s, Some (_, db) =>
      Some (map (fun v => (v, replay_version_rows (ls_store s) v)) [1; 2; 3; 4; 5; 6; 7; 8; 9], ls_ckpts s)
      = Some (db_log db, db_ckpts db)
  | _, _ => False
  end.
Proof. vm_compute. reflexivity. Qed.

(** the hypotheses of the main theorem on the example, and its conclusion checked directly *)
Example x_keeps_replay_example :
  match ls_run sha256 false 4 ls_empty x_hist, ls_run sha256 false 4 ls_empty (no_prunes x_hist) with
  | Some s, Some sf =>
      ls_floor s = 5 /\ replay (ls_store s) 5 7 = replay (ls_store sf) 5 7 /\
      replay (ls_store s) 5 9 = replay (ls_store sf) 5 9 /\ replay (ls_store s) 9 9 = []
  | _, _ => False
  end.
Proof. vm_compute. repeat split; reflexivity. Qed.

(** SEEDED DEFECT C20c REFUTED.  Versions 1-4 of [x_hist], checkpoints [1] (interval 4), then
    DeleteVersionsTo(4): the aligned bound is checkpoint 1, versions 2, 3, 4 stay loadable by
    replay from checkpoint 1.  The unaligned pruner (batch opened with 4) deletes the leaf
    rows orphaned at 2, 3, 4 - among them the leaf (2, 1) written in version 2 - and every
    leaf_delete row below 4: the replay of (1, 2] from the retained checkpoint 1, needed to
    load the retained version 2, loses BOTH its rows; the code as it is keeps them. *)
Theorem leaf_prune_unaligned_refuted :
  exists hist s su sf,
    ls_run sha256 false 4 ls_empty hist = Some s /\
    ls_run sha256 true 4 ls_empty hist = Some su /\
    ls_run sha256 false 4 ls_empty (no_prunes hist) = Some sf /\
    ls_ckpts s = [1] /\ find_previous (ls_ckpts s) 4 = FPVal 1 /\
    replay (ls_store sf) 1 2 = [((2, sq 1), LSet (xK 1) (xK 21)); ((2, sq 2), LDel (xK 2))] /\
    replay (ls_store s) 1 2 = replay (ls_store sf) 1 2 /\
    replay (ls_store su) 1 2 = [] /\
    map fst (leaves (ls_store su)) = [(1, sq 2); (1, sq 4); (3, sq 1); (3, sq 3); (4, sq 1)] /\
    ldeletes (ls_store su) = [].
Proof.
  exists (firstn 5 x_hist). eexists. eexists. eexists.
  split; [vm_compute; reflexivity|]. split; [vm_compute; reflexivity|]. split; [vm_compute; reflexivity|].
  repeat split; vm_compute; reflexivity.
Qed.
Print Assumptions leaf_prune_unaligned_refuted.

(** THEOREM 4 REFUTED (exactness: "after the prune every remaining leaf row is needed: it is
    in a replay range above the bound or current in some version >= the bound").
    [recursiveRemove] records NO leaf orphan for the leaf it removes: the row of a removed key
    is never deleted.  After [x_hist] (bound 5): the row (1, 2) - key 2, removed in version 2 -
    and the row (1, 4) - key 4, removed in version 5 - are still in [leaf]; their version is
    <= 5 (no replay from a retained checkpoint reads them) and they are current in no version
    >= 5.  A leak, not a loss.  The same holds for the leaf that stays dirty in memory (a leaf
    root updated in consecutive versions, [ls_dirty]): [x_dirty_leak]. *)
Definition leaked (s : lstate) (tr : ltrace) (nk : nkey2) : bool :=
  in_keys nk (map fst (leaves (ls_store s))) && (fst nk <=? ls_floor s) &&
  forallb (fun wc => negb (ls_floor s <=? fst wc) || negb (in_keys nk (cur_keys (snd wc)))) tr.

Lemma leaked_spec s tr nk :
  leaked s tr nk = true ->
  In nk (map fst (leaves (ls_store s))) /\ fst nk <= ls_floor s /\
  forall w c, In (w, c) tr -> ls_floor s <= w -> ~ In nk (cur_keys c).
Proof.
  intros L. unfold leaked in L. apply andb_true_iff in L. destruct L as [L L3].
  apply andb_true_iff in L. destruct L as [L1 L2]. split; [|split].
  - apply in_keys_true in L1. exact L1.
  - apply Z.leb_le in L2. exact L2.
  - intros w c I Lw J. rewrite forallb_forall in L3. specialize (L3 _ I). cbn [fst snd] in L3.
    apply orb_true_iff in L3. destruct L3 as [L3|L3]; apply negb_true_iff in L3.
    + apply Z.leb_gt in L3. lia.
    + rewrite (in_keys_In _ _ J) in L3. discriminate.
Qed.

Theorem prune_leaves_exact_refuted :
  exists hist s tr nk,
    ls_run_tr sha256 false 4 (ls_empty, []) hist = Some (s, tr) /\ ls_floor s = 5 /\
    In nk (map fst (leaves (ls_store s))) /\ fst nk <= ls_floor s /\
    forall w c, In (w, c) tr -> ls_floor s <= w -> ~ In nk (cur_keys c).
Proof.
  exists x_hist. eexists. eexists. exists (1, sq 2).
  split; [vm_compute; reflexivity|]. split; [vm_compute; reflexivity|].
  apply leaked_spec. vm_compute. reflexivity.
Qed.
Print Assumptions prune_leaves_exact_refuted.

(** a root that is a leaf stays dirty in memory: its update in the next version records no
    orphan, the old row (1, 1) is never pruned *)
Example x_dirty_leak :
  option_map x_view
    (ls_run sha256 false 1 ls_empty
       [HVersion [LSet (xK 1) (xK 11)]; HVersion [LSet (xK 1) (xK 21)]; HVersion [LSet (xK 1) (xK 31)]; HPrune 3]) =
  Some ([(1, sq 1); (2, sq 1); (3, sq 1)], [], [], [1; 2; 3], 3).
Proof. vm_compute. reflexivity. Qed.

(** the orphan row left after [x_hist], ((3, 3), 6): key 1's leaf written in version 3 and
    replaced in version 6; where it is a current leaf (leaf_orphans_sound: exactly [3, 6)) *)
Example x_orphan_sound_example :
  match ls_run_tr sha256 false 4 (ls_empty, []) x_hist with
  | Some (s, tr) =>
      (lorphans (ls_store s), map (fun wc => (fst wc, in_keys (3, sq 3) (cur_keys (snd wc)))) tr)
  | None => ([], [])
  end =
  ([((3, sq 3), 6)],
   [(1, false); (2, false); (3, true); (4, true); (5, true); (6, false); (7, false); (8, false); (9, false)]).
Proof. vm_compute. reflexivity. Qed.

(** THEOREM 4, the part that holds ([prune_leaves_exact_partial]): the pruner removes exactly
    what the orphan rows name - a leaf row is deleted iff a [leaf_orphan] row with [at <= c]
    names it, no orphan row with [at <= c] and no [leaf_delete] row below [c] is left.
    (FULL statement, refuted above: "every leaf row left is in a replay range above the bound
    or is current in some version >= the bound".) *)
Theorem prune_leaves_exact_partial st c :
  (forall r, In r (leaves st) ->
     (In r (leaves (prune_leaves_to st c)) <->
      ~ exists at_, In (fst r, at_) (lorphans st) /\ at_ <= c)) /\
  (forall nk at_, In (nk, at_) (lorphans (prune_leaves_to st c)) <-> In (nk, at_) (lorphans st) /\ c < at_) /\
  (forall d, In d (ldeletes (prune_leaves_to st c)) <-> In d (ldeletes st) /\ c <= fst (fst d)).
Proof.
  unfold prune_leaves_to; cbn [leaves lorphans ldeletes]. repeat split.
  - intros I (at_ & J & L). apply filter_In in I. destruct I as [_ I]. apply negb_true_iff in I.
    rewrite in_keys_In in I; [discriminate|]. apply in_map_iff. exists (fst r, at_). split; [reflexivity|].
    apply filter_In. split; [exact J|]. cbn [snd]. apply Z.leb_le. exact L.
  - intros N. apply filter_In. split; [exact H|]. apply negb_true_iff.
    destruct (in_keys _ _) eqn:Q; [|reflexivity]. exfalso. apply N.
    apply in_keys_true in Q. apply in_map_iff in Q. destruct Q as ([nk at_] & Ex & J). cbn [fst] in Ex.
    subst nk. apply filter_In in J. cbn [snd] in J. destruct J as [J La]. apply Z.leb_le in La.
    exists at_. auto.
  - apply filter_In in H. apply H.
  - apply filter_In in H. destruct H as [_ L]. cbn [snd] in L. apply negb_true_iff, Z.leb_gt in L. exact L.
  - intros [I L]. apply filter_In. split; [exact I|]. cbn [snd]. apply negb_true_iff, Z.leb_gt. exact L.
  - apply filter_In in H. apply H.
  - apply filter_In in H. destruct H as [_ L]. apply negb_true_iff, Z.ltb_ge in L. exact L.
  - intros [I L]. apply filter_In. split; [exact I|]. apply negb_true_iff, Z.ltb_ge. exact L.
Qed.
Print Assumptions prune_leaves_exact_partial.
