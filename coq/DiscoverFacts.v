(** Proofs about version discovery on the physical node store (Discover.v).

    A freshly opened nodeDB finds the latest version as the version of the greatest node key and
    the first version by a binary search over [has_version] (existence of the key [(v,1)]).
    On the physical store [phys_of r f] of a forest [f] (roots of the versions in [r] re-keyed to
    [(v,0)]) the search is exact as soon as [has_version] is monotone below the latest version:
    that is the case exactly when no node stored under a root key [(v,1)] of a version below the
    first retained one survives in a retained tree ([stale_free]).  The finding
    C14-stale-root-key ([discover_stale_refuted]) is a reachable state where it is not.

    Nothing here depends on the hash function. *)
From Coq Require Import Lia.
From IAVL Require Import Bytes Varint Sha256 Tree VMap TreeFacts MTree MTreeFacts HashFacts
  VersionFacts Store StoreFacts PruneAlgo Discover.
Local Open Scope Z_scope.

(** no node stored under a root key of a version below the first retained one survives in a
    retained tree *)
Definition stale_free (f : forest_t) : Prop :=
  forall v t u, In (v, Some t) f -> subtree u t -> nonce (nmeta u) = 1 ->
                first_of_forest f <= ver (nmeta u).

(** ** 1. The binary search *)

Lemma shiftr1_bounds lo hi : lo < hi -> lo <= Z.shiftr (hi + lo) 1 < hi.
Proof.
  intros L. rewrite Z.shiftr_div_pow2 by lia. change (2 ^ 1) with 2.
  pose proof (Z.div_mod (hi + lo) 2 ltac:(lia)) as D.
  pose proof (Z.mod_pos_bound (hi + lo) 2 ltac:(lia)) as B. lia.
Qed.

Lemma shiftr1_halves lo hi : lo < hi ->
  2 * (Z.shiftr (hi + lo) 1 - lo) <= hi - lo /\ 2 * (hi - (Z.shiftr (hi + lo) 1 + 1)) <= hi - lo - 1.
Proof.
  intros L. rewrite Z.shiftr_div_pow2 by lia. change (2 ^ 1) with 2.
  pose proof (Z.div_mod (hi + lo) 2 ltac:(lia)) as D.
  pose proof (Z.mod_pos_bound (hi + lo) 2 ltac:(lia)) as B. lia.
Qed.

(** WITHOUT any monotonicity: the search terminates within its fuel and returns a boundary *)
Theorem bsearch_general st : forall fuel lo hi,
  lo <= hi -> hi - lo < 2 ^ Z.of_nat fuel ->
  exists m, bsearch fuel st lo hi = Some m /\
            lo <= m <= hi /\
            (has_version st m = true \/ m = hi) /\
            (m = lo \/ has_version st (m - 1) = false).
Proof.
  induction fuel as [|fuel IH]; intros lo hi L B.
  - cbn [bsearch]. change (2 ^ Z.of_nat 0) with 1 in B.
    assert (E : lo = hi) by lia. subst hi. rewrite Z.ltb_irrefl.
    exists lo. repeat split; auto; lia.
  - cbn [bsearch]. destruct (lo <? hi) eqn:C.
    2:{ apply Z.ltb_ge in C. assert (E : lo = hi) by lia. subst hi.
        exists lo. repeat split; auto; lia. }
    apply Z.ltb_lt in C. cbv zeta.
    pose proof (shiftr1_bounds lo hi C) as MB.
    pose proof (shiftr1_halves lo hi C) as MH.
    set (mid := Z.shiftr (hi + lo) 1) in *.
    assert (P2 : 2 ^ Z.of_nat (S fuel) = 2 * 2 ^ Z.of_nat fuel).
    { rewrite Nat2Z.inj_succ, Z.pow_succ_r by lia. reflexivity. }
    destruct (has_version st mid) eqn:HM.
    + destruct (IH lo mid ltac:(lia) ltac:(lia)) as (m & E & R & A1 & A2).
      exists m. split; [exact E|]. split; [lia|]. split; [|exact A2].
      left. destruct A1 as [A1| ->]; [exact A1|exact HM].
    + destruct (IH (mid + 1) hi ltac:(lia) ltac:(lia)) as (m & E & R & A1 & A2).
      exists m. split; [exact E|]. split; [lia|]. split; [exact A1|].
      right. destruct A2 as [->|A2]; [|exact A2].
      replace (mid + 1 - 1) with mid by lia. exact HM.
Qed.

(** [has_version] is monotone on [lo, hi]: false, then true *)
Definition has_mono (st : store) (lo hi : Z) : Prop :=
  forall a b, lo <= a -> a <= b -> b <= hi -> has_version st a = true -> has_version st b = true.

(** WITH monotonicity the result is the least version of [lo, hi] that exists *)
Theorem bsearch_spec st fuel lo hi :
  lo <= hi -> hi - lo < 2 ^ Z.of_nat fuel ->
  has_version st hi = true -> has_mono st lo hi ->
  exists m, bsearch fuel st lo hi = Some m /\
            lo <= m <= hi /\
            has_version st m = true /\
            (forall v, lo <= v < m -> has_version st v = false).
Proof.
  intros L B HH M.
  destruct (bsearch_general st fuel lo hi L B) as (m & E & R & A1 & A2).
  exists m. split; [exact E|]. split; [exact R|].
  assert (Hm : has_version st m = true) by (destruct A1 as [A1| ->]; assumption).
  split; [exact Hm|]. intros v Rv.
  destruct A2 as [->|A2]; [lia|].
  destruct (has_version st v) eqn:Hv; [|reflexivity].
  rewrite (M v (m - 1) ltac:(lia) ltac:(lia) ltac:(lia) Hv) in A2. discriminate.
Qed.

(** the degenerate interval needs neither fuel nor an existing version *)
Lemma bsearch_point st fuel lo : bsearch fuel st lo lo = Some lo.
Proof. destruct fuel; cbn [bsearch]; rewrite Z.ltb_irrefl; reflexivity. Qed.

(** 64 units of fuel suffice below 2^63 *)
Lemma fuel64 hi : 0 <= hi -> hi < 2 ^ 63 -> hi - 0 < 2 ^ Z.of_nat 64.
Proof. intros L B. change (2 ^ Z.of_nat 64) with (2 * 2 ^ 63). lia. Qed.

Theorem discover_first_general st :
  0 <= discover_latest st < 2 ^ 63 ->
  exists m, discover_first st = Some m /\
            0 <= m <= discover_latest st /\
            (has_version st m = true \/ m = discover_latest st) /\
            (m = 0 \/ has_version st (m - 1) = false).
Proof.
  intros [L B]. unfold discover_first.
  apply bsearch_general; [exact L|apply fuel64; assumption].
Qed.

Theorem discover_first_spec st :
  0 <= discover_latest st < 2 ^ 63 ->
  has_version st (discover_latest st) = true -> has_mono st 0 (discover_latest st) ->
  exists m, discover_first st = Some m /\
            0 <= m <= discover_latest st /\
            has_version st m = true /\
            (forall v, 0 <= v < m -> has_version st v = false).
Proof.
  intros [L B] HH M. unfold discover_first.
  apply bsearch_spec; [exact L|apply fuel64; assumption|exact HH|exact M].
Qed.

(** ** 2. [has_version] on the physical store of a forest *)

Lemma first_of_forest_eq (f : forest_t) : first_of_forest f = first_of f.
Proof. destruct f as [|[v a] f]; reflexivity. Qed.

Lemma latest_of_forest_eq (f : forest_t) : latest_of_forest f = latest_of f.
Proof. reflexivity. Qed.

Lemma NoDup_zseq a n : NoDup (zseq a n).
Proof.
  revert a. induction n as [|n IH]; intros a; cbn [zseq]; constructor; [|apply IH].
  rewrite In_zseq. lia.
Qed.

Lemma forest_ok_NoDup {A} (f : list (Z * A)) iv : forest_ok f iv -> NoDup (map fst f).
Proof. intros [C _]. rewrite C. apply NoDup_zseq. Qed.

(** a full scan finds a key iff some entry has it (no sortedness needed) *)
Lemma has_version_In (st : store) v :
  has_version st v = true <-> exists e, In ((v, 1), e) st.
Proof.
  unfold has_version, mhas. destruct (mfind kcmp (v, 1) st) as [e|] eqn:E.
  - split; [intros _|reflexivity]. exists e. apply (In_mfind kcmp kcmp_ok), E.
  - split; [discriminate|]. intros [e HI]. exfalso.
    apply (mfind_None_notin kcmp kcmp_ok) in E. apply E. apply in_map_iff.
    exists ((v, 1), e). auto.
Qed.

Definition is_enode (e : entry) : bool := match e with ENode _ => true | _ => false end.

Lemma In_rekey r (st : store) v e :
  In ((v, 1), e) (rekey r st) <->
  In ((v, 1), e) st /\ (is_enode e = true -> ~ In v r).
Proof.
  unfold rekey. rewrite in_map_iff. split.
  - intros ([[w n] e0] & Q & HI). cbn [fst snd] in Q.
    destruct e0 as [sn| |]; cbn [is_enode].
    + destruct ((n =? 1) && existsb (Z.eqb w) r) eqn:C.
      * inversion Q.
      * inversion Q; subst. split; [exact HI|]. intros _ Ir.
        rewrite Z.eqb_refl in C. cbn [andb] in C.
        assert (X : existsb (Z.eqb v) r = true).
        { apply existsb_exists. exists v. split; [exact Ir|apply Z.eqb_refl]. }
        congruence.
    + inversion Q; subst. split; [exact HI|discriminate].
    + inversion Q; subst. split; [exact HI|discriminate].
  - intros [HI N]. exists ((v, 1), e). split; [|exact HI]. cbn [fst snd].
    destruct e as [sn| |]; try reflexivity.
    destruct ((1 =? 1) && existsb (Z.eqb v) r) eqn:C; [|reflexivity].
    exfalso. apply (N eq_refl). cbn [andb Z.eqb Pos.eqb] in C.
    apply existsb_exists in C. destruct C as (x & Ix & Ex). apply Z.eqb_eq in Ex. subst x. exact Ix.
Qed.

(** general form, any [r]: the key [(v,1)] exists in the physical store iff it is the key of a
    retained node that has not been re-keyed, or [v] is a retained version whose root does not
    sit under [(v,1)] (its root entry does) *)
Theorem has_version_phys (r : list Z) (f : forest_t) v :
  forest_inv f -> NoDup (map fst f) ->
  (has_version (phys_of r f) v = true <->
   (exists u, sub_of f u /\ node_key u = (v, 1) /\ ~ In v r) \/
   (exists ro, In (v, ro) f /\ forall t, ro = Some t -> node_key t <> (v, 1))).
Proof.
  intros FI ND. rewrite has_version_In. unfold phys_of. split.
  - intros [e HI]. apply In_rekey in HI. destruct HI as [HI N].
    apply (expected_In f _ _ FI ND) in HI. apply reach_In in HI.
    destruct HI as [(u & S & K & ->)|(v' & ro & HI & E)].
    + left. exists u. split; [exact S|]. split; [symmetry; exact K|]. apply N. reflexivity.
    + right. destruct (root_entry_Some _ _ _ _ E) as [K D].
      assert (v' = v) by congruence. subst v'. exists ro. split; [exact HI|].
      intros t ->. destruct D as [[C _]|(t' & Q & _ & NK)]; [discriminate|].
      inversion Q; subst. exact NK.
  - intros [(u & S & K & N)|(ro & HI & NK)].
    + exists (ENode (snode_of u)). apply In_rekey. split; [|intros _; exact N].
      apply (expected_In f _ _ FI ND). apply reach_In. left. exists u. auto.
    + destruct (root_entry v ro) as [[k e]|] eqn:E.
      * destruct (root_entry_Some _ _ _ _ E) as [-> D]. exists e. apply In_rekey. split.
        -- apply (expected_In f _ _ FI ND). apply reach_In. right. exists v, ro. auto.
        -- destruct D as [[_ ->]|(t & _ & -> & _)]; discriminate.
      * exfalso. unfold root_entry in E. destruct ro as [t|]; [|discriminate].
        destruct (keqb (node_key t) (v, 1)) eqn:C; [|discriminate].
        apply keqb_true in C. exact (NK t eq_refl C).
Qed.

(** every retained version that is not re-keyed has its key [(v,1)] *)
Lemma has_version_retained (r : list Z) (f : forest_t) v :
  forest_inv f -> NoDup (map fst f) -> In v (map fst f) -> ~ In v r ->
  has_version (phys_of r f) v = true.
Proof.
  intros FI ND Iv N. apply (has_version_phys r f v FI ND).
  destruct (In_map_fst_pair f v Iv) as [ro HI].
  destruct ro as [t|].
  - destruct (keqb (node_key t) (v, 1)) eqn:C.
    + apply keqb_true in C. left. exists t. split; [|auto].
      exists v, t. split; [exact HI|apply sub_refl].
    + apply keqb_false in C. right. exists (Some t). split; [exact HI|].
      intros t' Q. inversion Q; subst. exact C.
  - right. exists None. split; [exact HI|]. intros t' Q. discriminate.
Qed.

(** a re-keyed root does NOT have its key [(v,1)]: it sits under [(v,0)] *)
Lemma has_version_rekeyed (r : list Z) (f : forest_t) v t :
  forest_inv f -> NoDup (map fst f) -> In (v, Some t) f -> node_key t = (v, 1) -> In v r ->
  has_version (phys_of r f) v = false.
Proof.
  intros FI ND HI K Ir. destruct (has_version (phys_of r f) v) eqn:E; [|reflexivity].
  exfalso. apply (has_version_phys r f v FI ND) in E.
  destruct E as [(u & _ & _ & N)|(ro & HI' & NK)]; [exact (N Ir)|].
  rewrite (NoDup_fst_functional f v ro (Some t) ND HI' HI) in NK. exact (NK t eq_refl K).
Qed.

(** the form used below: [r] only below the first retained version.  Every version of the range
    has its key; below the range only stale root keys remain *)
Theorem has_version_expected (r : list Z) (f : forest_t) iv v :
  forest_inv f -> forest_ok f iv -> f <> [] ->
  (forall x, In x r -> x < first_of_forest f) ->
  (has_version (phys_of r f) v = true <->
   (first_of_forest f <= v <= latest_of_forest f) \/
   (v < first_of_forest f /\ ~ In v r /\ exists u, sub_of f u /\ node_key u = (v, 1))).
Proof.
  intros FI OK NE RB. pose proof (forest_ok_NoDup f iv OK) as ND.
  rewrite first_of_forest_eq in *. rewrite latest_of_forest_eq.
  rewrite (has_version_phys r f v FI ND). split.
  - intros [(u & S & K & N)|(ro & HI & _)].
    + destruct (Z.ltb_spec v (first_of f)) as [L|L].
      * right. split; [exact L|]. split; [exact N|]. exists u. auto.
      * left. split; [exact L|]. destruct S as (w & t & HI & S).
        pose proof (fi_ver f FI w t u HI S) as B.
        assert (Iw : In w (map fst f)) by (apply in_map_iff; exists (w, Some t); auto).
        apply (forest_ok_In f iv w OK) in Iw. unfold node_key in K. inversion K. lia.
    + left. assert (Iv : In v (map fst f)) by (apply in_map_iff; exists (v, ro); auto).
      apply (forest_ok_In f iv v OK) in Iv. tauto.
  - intros [R|(L & N & u & S & K)].
    + apply (has_version_phys r f v FI ND). apply has_version_retained; auto.
      * apply (forest_ok_In f iv v OK). auto.
      * intros Ir. specialize (RB v Ir). lia.
    + left. exists u. auto.
Qed.

(** ** 3. The latest version: the version of the greatest key *)

Definition kver (p : (Z * Z) * entry) : Z := fst (fst p).

Lemma discover_latest_cons p (st : store) :
  discover_latest (p :: st) = fold_left (fun _ q => fst (fst q)) st (kver p).
Proof. reflexivity. Qed.

(** in a sorted store the last key carries the greatest version *)
Lemma fold_last_sorted (st : store) : forall d,
  msorted kcmp st -> st <> [] ->
  (forall p, In p st -> kver p <= fold_left (fun _ q => fst (fst q)) st d) /\
  (exists p, In p st /\ kver p = fold_left (fun _ q => fst (fst q)) st d).
Proof.
  induction st as [|[k e] st IH]; intros d S NE; [congruence|].
  cbn [fold_left]. destruct S as [F S]. destruct st as [|q st].
  - cbn [fold_left]. split.
    + intros p [<-|[]]. unfold kver. cbn [fst]. lia.
    + exists (k, e). split; [left; reflexivity|reflexivity].
  - destruct (IH (fst (fst (k, e))) S ltac:(discriminate)) as (A & p0 & I0 & E0).
    split.
    + intros p [<-|HI]; [|apply A, HI].
      rewrite <- E0. rewrite Forall_forall in F. specialize (F p0 I0).
      apply kcmp_Lt in F. unfold klt in F. unfold kver. cbn [fst] in *. lia.
    + exists p0. split; [right; exact I0|exact E0].
Qed.

Lemma discover_latest_sorted (st : store) :
  msorted kcmp st -> st <> [] ->
  (forall p, In p st -> kver p <= discover_latest st) /\
  (exists p, In p st /\ kver p = discover_latest st).
Proof. intros S NE. exact (fold_last_sorted st 0 S NE). Qed.

(** re-keying changes nonces only *)
Lemma discover_latest_rekey r (st : store) : discover_latest (rekey r st) = discover_latest st.
Proof.
  unfold discover_latest. generalize 0. unfold rekey.
  induction st as [|p st IH]; intros d; cbn [map fold_left]; [reflexivity|].
  rewrite IH. f_equal.
  destruct p as [[w n] e]. cbn [fst snd]. destruct e; try reflexivity.
  destruct ((n =? 1) && existsb (Z.eqb w) r); reflexivity.
Qed.

Theorem discover_latest_expected (r : list Z) (f : forest_t) iv :
  forest_inv f -> forest_ok f iv -> f <> [] ->
  discover_latest (phys_of r f) = latest_of_forest f.
Proof.
  intros FI OK NE. pose proof (forest_ok_NoDup f iv OK) as ND.
  unfold phys_of. rewrite discover_latest_rekey, latest_of_forest_eq.
  destruct (forest_ok_range f iv OK NE) as (R1 & _ & _).
  assert (Il : In (latest_of f) (map fst f)) by (apply (forest_ok_In f iv _ OK); split; [exact NE|lia]).
  destruct (In_map_fst_pair f _ Il) as [ro HI].
  destruct (expected_has_root f _ ro FI ND HI) as (e & Fe & _).
  apply (In_mfind kcmp kcmp_ok) in Fe.
  assert (NEs : expected_store f <> []) by (intros C; rewrite C in Fe; contradiction).
  destruct (discover_latest_sorted (expected_store f) (expected_sorted f) NEs) as (A & [k0 e0] & I0 & E0).
  specialize (A _ Fe). unfold kver in A, E0. cbn [fst] in A, E0.
  apply expected_In_reach in I0. pose proof (reach_key_version f iv k0 e0 FI OK I0) as B. lia.
Qed.

Lemma phys_of_nil r : phys_of r [] = [].
Proof. reflexivity. Qed.

Theorem discover_latest_empty r : discover_latest (phys_of r []) = 0.
Proof. reflexivity. Qed.

(** ** 4. Discovery is exact on a stale-free forest *)

Lemma map_seq_zseq a n : forall s,
  map (fun i => a + Z.of_nat i) (seq s n) = zseq (a + Z.of_nat s) n.
Proof.
  induction n as [|n IH]; intros s; cbn [seq map zseq]; [reflexivity|].
  rewrite IH. do 2 f_equal. lia.
Qed.

Lemma versions_from_to_zrange a b : versions_from_to a b = zrange a b.
Proof.
  unfold versions_from_to, zrange. rewrite map_seq_zseq.
  replace (a + Z.of_nat 0) with a by lia. f_equal. lia.
Qed.

(** The sharp condition, relative to the re-keyed roots: a node under a root key [(w,1)] of a
    version below the range may survive in a retained tree provided that key has been re-keyed
    to [(w,0)] (this is the very purpose of the re-keying: a deleted version whose root node is
    the root of the next version). *)
Definition stale_free_rel (r : list Z) (f : forest_t) : Prop :=
  forall v t u, In (v, Some t) f -> subtree u t -> nonce (nmeta u) = 1 ->
                first_of_forest f <= ver (nmeta u) \/ In (ver (nmeta u)) r.

Lemma stale_free_rel_of r f : stale_free f -> stale_free_rel r f.
Proof. intros SF v t u HI S K. left. exact (SF v t u HI S K). Qed.

Lemma stale_free_rel_nil f : stale_free_rel [] f <-> stale_free f.
Proof.
  split; [|apply stale_free_rel_of]. intros SF v t u HI S K.
  destruct (SF v t u HI S K) as [L|[]]. exact L.
Qed.

(** it is exactly what makes [has_version] false below the range, hence monotone *)
Lemma stale_free_no_has (r : list Z) (f : forest_t) iv v :
  forest_inv f -> forest_ok f iv -> f <> [] ->
  (forall x, In x r -> x < first_of_forest f) -> stale_free_rel r f ->
  v < first_of_forest f -> has_version (phys_of r f) v = false.
Proof.
  intros FI OK NE RB SF L. destruct (has_version (phys_of r f) v) eqn:E; [|reflexivity].
  exfalso. apply (has_version_expected r f iv v FI OK NE RB) in E.
  destruct E as [R|(_ & N & u & (w & t & HI & S) & K)]; [lia|].
  unfold node_key in K. inversion K as [[K1 K2]].
  destruct (SF w t u HI S K2) as [X|X]; [lia|]. apply N. rewrite <- K1. exact X.
Qed.

(** and conversely: [has_version] false everywhere below the range forces the condition *)
Lemma no_has_stale_free (r : list Z) (f : forest_t) iv :
  forest_inv f -> forest_ok f iv ->
  (forall v, v < first_of_forest f -> has_version (phys_of r f) v = false) ->
  stale_free_rel r f.
Proof.
  intros FI OK NH v t u HI S K. pose proof (forest_ok_NoDup f iv OK) as ND.
  destruct (Z.leb_spec (first_of_forest f) (ver (nmeta u))) as [L|L]; [left; exact L|]. right.
  destruct (in_dec Z.eq_dec (ver (nmeta u)) r) as [Ir|N]; [exact Ir|]. exfalso.
  specialize (NH _ L).
  assert (X : has_version (phys_of r f) (ver (nmeta u)) = true); [|congruence].
  apply (has_version_phys r f _ FI ND). left. exists u. split; [exists v, t; auto|].
  split; [|exact N]. unfold node_key. rewrite K. reflexivity.
Qed.

Lemma stale_free_mono (r : list Z) (f : forest_t) iv :
  forest_inv f -> forest_ok f iv -> f <> [] ->
  (forall x, In x r -> x < first_of_forest f) -> stale_free_rel r f ->
  has_mono (phys_of r f) 0 (latest_of_forest f).
Proof.
  intros FI OK NE RB SF a b La Lab Lb Ha.
  destruct (Z.ltb_spec a (first_of_forest f)) as [L|L].
  - rewrite (stale_free_no_has r f iv a FI OK NE RB SF L) in Ha. discriminate.
  - apply (has_version_expected r f iv b FI OK NE RB). left. lia.
Qed.

Theorem discover_first_exact_rel (r : list Z) (f : forest_t) iv :
  f <> [] -> forest_inv f -> forest_ok f iv -> latest_of_forest f < 2 ^ 63 ->
  stale_free_rel r f -> (forall x, In x r -> x < first_of_forest f) ->
  discover_first (phys_of r f) = Some (first_of_forest f).
Proof.
  intros NE FI OK B SF RB.
  pose proof (discover_latest_expected r f iv FI OK NE) as DL.
  destruct (forest_ok_range f iv OK NE) as (R1 & _ & _).
  rewrite <- first_of_forest_eq, <- latest_of_forest_eq in R1.
  destruct (discover_first_spec (phys_of r f)) as (m & E & Rm & Hm & Least).
  - rewrite DL. lia.
  - rewrite DL. apply (has_version_expected r f iv _ FI OK NE RB). left. lia.
  - rewrite DL. apply (stale_free_mono r f iv); assumption.
  - rewrite E. f_equal.
    destruct (Z.ltb_spec m (first_of_forest f)) as [L|L].
    + rewrite (stale_free_no_has r f iv m FI OK NE RB SF L) in Hm. discriminate.
    + destruct (Z.eq_dec m (first_of_forest f)) as [Q|Q]; [exact Q|]. exfalso.
      assert (Hf : has_version (phys_of r f) (first_of_forest f) = true).
      { apply (has_version_expected r f iv _ FI OK NE RB). left. lia. }
      rewrite (Least (first_of_forest f) ltac:(lia)) in Hf. discriminate.
Qed.

(** the main theorem in its sharp form (re-keyed stale roots allowed) *)
Theorem discover_exact_rel (r : list Z) (f : forest_t) iv :
  f <> [] -> forest_inv f -> forest_ok f iv -> latest_of_forest f < 2 ^ 63 ->
  stale_free_rel r f -> (forall x, In x r -> x < first_of_forest f) ->
  discovered_range (phys_of r f) = Some (first_of_forest f, latest_of_forest f) /\
  discovered_available (phys_of r f) = Some (map fst f).
Proof.
  intros NE FI OK B SF RB.
  assert (DR : discovered_range (phys_of r f) = Some (first_of_forest f, latest_of_forest f)).
  { unfold discovered_range. rewrite (discover_first_exact_rel r f iv NE FI OK B SF RB).
    rewrite (discover_latest_expected r f iv FI OK NE). reflexivity. }
  split; [exact DR|]. unfold discovered_available. rewrite DR.
  destruct (forest_ok_range f iv OK NE) as (R1 & _ & R).
  rewrite first_of_forest_eq, latest_of_forest_eq.
  destruct (latest_of f =? 0) eqn:C; [apply Z.eqb_eq in C; lia|].
  rewrite versions_from_to_zrange, R. reflexivity.
Qed.

Theorem discover_first_exact (r : list Z) (f : forest_t) iv :
  f <> [] -> forest_inv f -> forest_ok f iv -> latest_of_forest f < 2 ^ 63 ->
  stale_free f -> (forall x, In x r -> x < first_of_forest f) ->
  discover_first (phys_of r f) = Some (first_of_forest f).
Proof.
  intros NE FI OK B SF RB. apply (discover_first_exact_rel r f iv); auto.
  apply stale_free_rel_of, SF.
Qed.

(** THE MAIN THEOREM: a freshly opened nodeDB finds exactly the retained range *)
Theorem discover_exact (r : list Z) (f : forest_t) iv :
  f <> [] -> forest_inv f -> forest_ok f iv -> latest_of_forest f < 2 ^ 63 ->
  stale_free f -> (forall x, In x r -> x < first_of_forest f) ->
  discovered_range (phys_of r f) = Some (first_of_forest f, latest_of_forest f) /\
  discovered_available (phys_of r f) = Some (map fst f).
Proof.
  intros NE FI OK B SF RB. apply (discover_exact_rel r f iv); auto.
  apply stale_free_rel_of, SF.
Qed.

(** the empty store: no version at all *)
Theorem discover_empty :
  discovered_range [] = Some (0, 0) /\ discovered_available [] = Some [].
Proof. split; reflexivity. Qed.

Corollary discover_empty_forest r :
  discovered_range (phys_of r []) = Some (0, 0) /\ discovered_available (phys_of r []) = Some [].
Proof. exact discover_empty. Qed.

(** a stale root key that has not been re-keyed makes [has_version] answer "yes" for a deleted
    version (whatever the search then returns) *)
Theorem stale_has_version (r : list Z) (f : forest_t) iv v t u :
  forest_inv f -> forest_ok f iv ->
  In (v, Some t) f -> subtree u t -> nonce (nmeta u) = 1 -> ver (nmeta u) < first_of_forest f ->
  ~ In (ver (nmeta u)) r ->
  has_version (phys_of r f) (ver (nmeta u)) = true.
Proof.
  intros FI OK HI S K L N. pose proof (forest_ok_NoDup f iv OK) as ND.
  apply (has_version_phys r f _ FI ND). left. exists u. split; [exists v, t; auto|].
  split; [|exact N]. unfold node_key. rewrite K. reflexivity.
Qed.

(** whatever the forest (stale or not), the discovered first version is never ABOVE the real
    one, and the version just below it (if any) does not exist *)
Theorem discover_first_lower (r : list Z) (f : forest_t) iv :
  f <> [] -> forest_inv f -> forest_ok f iv -> latest_of_forest f < 2 ^ 63 ->
  (forall x, In x r -> x < first_of_forest f) ->
  exists m, discover_first (phys_of r f) = Some m /\
            0 <= m <= first_of_forest f /\
            has_version (phys_of r f) m = true /\
            (m = 0 \/ has_version (phys_of r f) (m - 1) = false).
Proof.
  intros NE FI OK B RB.
  pose proof (discover_latest_expected r f iv FI OK NE) as DL.
  destruct (forest_ok_range f iv OK NE) as (R1 & _ & _).
  rewrite <- first_of_forest_eq, <- latest_of_forest_eq in R1.
  assert (HR : forall v, first_of_forest f <= v <= latest_of_forest f ->
                         has_version (phys_of r f) v = true).
  { intros v Rv. apply (has_version_expected r f iv _ FI OK NE RB). left. exact Rv. }
  destruct (discover_first_general (phys_of r f)) as (m & E & Rm & A1 & A2).
  { rewrite DL. lia. }
  rewrite DL in Rm, A1. exists m. split; [exact E|].
  assert (Hm : has_version (phys_of r f) m = true).
  { destruct A1 as [A1| ->]; [exact A1|]. apply HR. lia. }
  split; [|split; [exact Hm|exact A2]]. split; [lia|].
  (* m <= first: otherwise m - 1 is in the range and exists *)
  destruct (Z.leb_spec m (first_of_forest f)) as [L|L]; [exact L|]. exfalso.
  destruct A2 as [->|A2]; [lia|]. rewrite (HR (m - 1) ltac:(lia)) in A2. discriminate.
Qed.

(** ** 5. Reachable states *)

Lemma rekey_nil (st : store) : rekey [] st = st.
Proof.
  unfold rekey. induction st as [|[[w n] e] st IH]; cbn [map]; [reflexivity|].
  rewrite IH. f_equal. cbn [fst snd existsb]. rewrite Bool.andb_false_r.
  destruct e; reflexivity.
Qed.

Lemma phys_of_nil_r (f : forest_t) : phys_of [] f = expected_store f.
Proof. apply rekey_nil. Qed.

(** state level: the invariants of StoreFacts suffice *)
Theorem discover_state_rel (H : bytes -> bytes) (s : mstate) (r : list Z) :
  store_ok H s -> latest_version s < 2 ^ 63 ->
  stale_free_rel r (forest s) -> (forall x, In x r -> x < first_version s) ->
  discovered_range (phys_of r (forest s)) = Some (first_version s, latest_version s) /\
  discovered_available (phys_of r (forest s)) = Some (available s).
Proof.
  intros SO B SF RB. pose proof SO as [SI HI C FI _].
  pose proof (contig_forest_ok s C) as OK.
  destruct (nil_or_not (forest s)) as [E|NE].
  - unfold first_version, latest_version, available. rewrite E. exact (discover_empty_forest r).
  - change (first_version s) with (first_of (forest s)) in *.
    rewrite <- first_of_forest_eq in *.
    exact (discover_exact_rel r (forest s) (init_ver s) NE FI OK B SF RB).
Qed.

Theorem discover_state (H : bytes -> bytes) (s : mstate) :
  store_ok H s -> latest_version s < 2 ^ 63 -> stale_free (forest s) ->
  discovered_range (expected_store (forest s)) = Some (first_version s, latest_version s) /\
  discovered_available (expected_store (forest s)) = Some (available s).
Proof.
  intros SO B SF. rewrite <- phys_of_nil_r.
  apply (discover_state_rel H s []); auto.
  - apply stale_free_rel_of, SF.
  - intros x [].
Qed.

(** every state reachable by an in-contract history: discovery on the expected store yields
    exactly [(first_version, latest_version)] / [available] when the forest is stale-free *)
Theorem discover_reachable (H : bytes -> bytes) (iv : Z) (b : bool) (ops : list op) :
  init_ok iv b -> run_ok H (init_state iv b) ops ->
  let s := fst (run H (init_state iv b) ops) in
  latest_version s < 2 ^ 63 -> stale_free (forest s) ->
  discovered_range (expected_store (forest s)) = Some (first_version s, latest_version s) /\
  discovered_available (expected_store (forest s)) = Some (available s).
Proof.
  intros IO R s B SF. apply (discover_state H s); auto.
  apply store_ok_reachable; assumption.
Qed.

(** the same on the physical store with re-keyed roots *)
Theorem discover_reachable_rel (H : bytes -> bytes) (iv : Z) (b : bool) (ops : list op) (r : list Z) :
  init_ok iv b -> run_ok H (init_state iv b) ops ->
  let s := fst (run H (init_state iv b) ops) in
  latest_version s < 2 ^ 63 ->
  stale_free_rel r (forest s) -> (forall x, In x r -> x < first_version s) ->
  discovered_range (phys_of r (forest s)) = Some (first_version s, latest_version s) /\
  discovered_available (phys_of r (forest s)) = Some (available s).
Proof.
  intros IO R s B SF RB. apply (discover_state_rel H s r); auto.
  apply store_ok_reachable; assumption.
Qed.

(** a sufficient condition that needs no inspection of the trees: nothing older than the first
    retained version is retained (in particular: no version has ever been deleted) *)
Lemma stale_free_young (f : forest_t) :
  (forall v t u, In (v, Some t) f -> subtree u t -> first_of_forest f <= ver (nmeta u)) ->
  stale_free f.
Proof. intros A v t u HI S _. exact (A v t u HI S). Qed.

(** ** Deciding the side conditions (for concrete forests) *)

Definition stale_free_relb (r : list Z) (f : forest_t) : bool :=
  forallb (fun p =>
             match snd p with
             | Some t =>
                 forallb (fun q => negb (snd (fst q) =? 1) ||
                                   (first_of_forest f <=? fst (fst q)) ||
                                   existsb (Z.eqb (fst (fst q))) r) (nodes_of t)
             | None => true
             end) f.

Definition stale_freeb (f : forest_t) : bool := stale_free_relb [] f.

Lemma stale_free_relb_iff r f : stale_free_relb r f = true <-> stale_free_rel r f.
Proof.
  unfold stale_free_relb, stale_free_rel. rewrite forallb_forall. split.
  - intros A v t u HI S K. specialize (A _ HI). cbn [snd] in A.
    rewrite forallb_forall in A.
    assert (Iq : In (node_key u, snode_of u) (nodes_of t)) by (apply nodes_of_In; exists u; auto).
    specialize (A _ Iq). unfold node_key in A. cbn [fst snd] in A.
    rewrite K in A. cbn [Z.eqb Pos.eqb negb orb] in A.
    apply Bool.orb_true_iff in A. destruct A as [A|A].
    + left. apply Z.leb_le, A.
    + right. apply existsb_exists in A. destruct A as (x & Ix & Ex).
      apply Z.eqb_eq in Ex. subst x. exact Ix.
  - intros SF [v [t|]] HI; cbn [snd]; [|reflexivity].
    apply forallb_forall. intros [k sn] Iq. cbn [fst snd].
    apply nodes_of_In in Iq. destruct Iq as (u & S & -> & _).
    unfold node_key. cbn [fst snd].
    destruct (nonce (nmeta u) =? 1) eqn:C; [|reflexivity]. apply Z.eqb_eq in C.
    cbn [negb orb]. apply Bool.orb_true_iff.
    destruct (SF v t u HI S C) as [L|Ir].
    + left. apply Z.leb_le, L.
    + right. apply existsb_exists. exists (ver (nmeta u)). split; [exact Ir|apply Z.eqb_refl].
Qed.

Lemma stale_freeb_iff f : stale_freeb f = true <-> stale_free f.
Proof. unfold stale_freeb. rewrite stale_free_relb_iff. apply stale_free_rel_nil. Qed.

Lemma stale_freeb_false f : stale_freeb f = false -> ~ stale_free f.
Proof. intros E SF. apply stale_freeb_iff in SF. congruence. Qed.

(** ** 6. The finding C14-stale-root-key

    Version 1 is a one-leaf tree: its leaf is the root, stored under [(1,1)].  Version 2 adds a
    key: the old leaf becomes a child of the new root.  DeleteVersionsTo(1) finds no orphan and
    no shared root, and leaves [(1,1)] in place.  A freshly opened nodeDB then reports the
    deleted version 1 as the first version and as available. *)
Definition stale_ka : bytes := [97%N].
Definition stale_kb : bytes := [98%N].
Definition stale_hist0 : list op := [OSet stale_ka stale_ka; OSave; OSet stale_kb stale_kb; OSave].
Definition stale_hist : list op := stale_hist0 ++ [OPrune 1].

Theorem discover_stale_refuted :
  let s0 := fst (run sha256 (init_state 0 false) stale_hist0) in
  let s := fst (run sha256 (init_state 0 false) stale_hist) in
  init_ok 0 false /\
  run_ok sha256 (init_state 0 false) stale_hist /\
  (* the physical DeleteVersionsTo(1) produces exactly the expected store of the new forest *)
  (exists w fl, prune_forest sha256 false [] (forest s0) [] 1 = POk (expected_store (forest s), w, fl)) /\
  map fst (expected_store (forest s)) = [(1, 1); (2, 1); (2, 2)] /\
  first_version s = 2 /\ latest_version s = 2 /\ available s = [2] /\
  latest_version s < 2 ^ 63 /\
  ~ stale_free (forest s) /\
  has_version (expected_store (forest s)) 1 = true /\
  discovered_range (expected_store (forest s)) = Some (1, 2) /\
  discovered_available (expected_store (forest s)) = Some [1; 2].
Proof.
  cbv zeta. split; [unfold init_ok; lia|].
  split; [apply run_okb_iff; vm_compute; reflexivity|].
  split; [eexists; eexists; vm_compute; reflexivity|].
  split; [vm_compute; reflexivity|].
  split; [vm_compute; reflexivity|].
  split; [vm_compute; reflexivity|].
  split; [vm_compute; reflexivity|].
  split; [vm_compute; reflexivity|].
  split; [apply stale_freeb_false; vm_compute; reflexivity|].
  split; [vm_compute; reflexivity|].
  split; vm_compute; reflexivity.
Qed.

(** in particular the conclusion of [discover_reachable] fails without [stale_free] *)
Corollary discover_reachable_needs_stale_free :
  exists (iv : Z) (b : bool) (ops : list op),
    init_ok iv b /\ run_ok sha256 (init_state iv b) ops /\
    let s := fst (run sha256 (init_state iv b) ops) in
    latest_version s < 2 ^ 63 /\
    discovered_range (expected_store (forest s)) <> Some (first_version s, latest_version s) /\
    discovered_available (expected_store (forest s)) <> Some (available s).
Proof.
  exists 0, false, stale_hist.
  pose proof discover_stale_refuted as P. cbv zeta in P.
  destruct P as (A & B & _ & _ & F & L & Av & Bd & _ & _ & DR & DA).
  split; [exact A|]. split; [exact B|]. cbv zeta. split; [exact Bd|].
  rewrite DR, DA, F, L, Av. split; intros Q; discriminate.
Qed.

(** Remark: under the hypotheses of [discover_exact] ([stale_free f], [r] below the range) no
    root is actually re-keyed in [phys_of r f]: a re-keyed root still present in the store IS a
    node of a retained tree under a root key below the range.  Physical stores with re-keyed
    roots are covered by [discover_exact_rel]. *)
Lemma rekey_id r (st : store) :
  (forall w sn, In ((w, 1), ENode sn) st -> ~ In w r) -> rekey r st = st.
Proof.
  unfold rekey. induction st as [|[[w n] e] st IH]; intros A; cbn [map]; [reflexivity|].
  rewrite IH by (intros w' sn' HI; apply (A w' sn'); right; exact HI). f_equal.
  cbn [fst snd]. destruct e as [sn| |]; try reflexivity.
  destruct ((n =? 1) && existsb (Z.eqb w) r) eqn:C; [|reflexivity]. exfalso.
  apply Bool.andb_true_iff in C. destruct C as [C1 C2]. apply Z.eqb_eq in C1. subst n.
  apply (A w sn (or_introl eq_refl)). apply existsb_exists in C2.
  destruct C2 as (x & Ix & Ex). apply Z.eqb_eq in Ex. subst x. exact Ix.
Qed.

Lemma phys_of_stale_free (r : list Z) (f : forest_t) :
  forest_inv f -> NoDup (map fst f) -> stale_free f ->
  (forall x, In x r -> x < first_of_forest f) ->
  phys_of r f = expected_store f.
Proof.
  intros FI ND SF RB. unfold phys_of. apply rekey_id. intros w sn HI Ir.
  apply (expected_In f _ _ FI ND) in HI. apply reach_In in HI.
  destruct HI as [(u & (v & t & HI & S) & K & _)|(v & ro & HI & E)].
  - unfold node_key in K. inversion K as [[K1 K2]]. symmetry in K2.
    pose proof (SF v t u HI S K2). specialize (RB w Ir). lia.
  - destruct (root_entry_Some _ _ _ _ E) as [_ [[_ C]|(t & _ & C & _)]]; discriminate.
Qed.

(** ** 7. Examples (SHA-256)

    Four versions: {a,b}; the same tree again (version 2 refers to the root (1,1)); {a,b,c};
    {b,c} (whose root is the old inner node (3,2): version 4 has a root reference). *)
Definition dx_a : bytes := [97%N].
Definition dx_b : bytes := [98%N].
Definition dx_c : bytes := [99%N].
Definition dx_hist : list op :=
  [OSet dx_a dx_a; OSet dx_b dx_b; OSave; OSave; OSet dx_c dx_c; OSave; ORemove dx_a; OSave].
Definition dx_state (ops : list op) : mstate := fst (run sha256 (init_state 0 false) ops).
Definition dx_keys (f : forest_t) : list (Z * list (Z * Z)) :=
  map (fun p => (fst p, match snd p with Some t => map fst (nodes_of t) | None => [] end)) f.

Example dx_forest :
  run_okb sha256 (init_state 0 false) (dx_hist ++ [OPrune 1; OPrune 2]) = true /\
  dx_keys (forest (dx_state dx_hist)) =
    [(1, [(1, 1); (1, 2); (1, 3)]); (2, [(1, 1); (1, 2); (1, 3)]);
     (3, [(3, 1); (1, 2); (3, 2); (1, 3); (3, 3)]); (4, [(3, 2); (1, 3); (3, 3)])].
Proof. vm_compute. split; reflexivity. Qed.

(** nothing deleted yet: discovery on the expected store of all four versions (theorem 5) *)
Example dx_discover_all :
  let s := dx_state dx_hist in
  stale_freeb (forest s) = true /\
  discovered_range (expected_store (forest s)) = Some (1, 4) /\
  discovered_available (expected_store (forest s)) = Some [1; 2; 3; 4] /\
  (first_version s, latest_version s, available s) = (1, 4, [1; 2; 3; 4]).
Proof. vm_compute. repeat split; reflexivity. Qed.

(** the physical DeleteVersionsTo(1) re-keys the shared root (1,1) to (1,0): the store is
    [phys_of [1]] of the remaining forest; that forest is NOT [stale_free] (the root of version
    2 is the node (1,1)) but it is [stale_free_rel [1]]; discovery is exact on the physical
    store (theorem 4, sharp form) and WRONG on the normalised store, where the root is listed
    under (1,1) *)
Example dx_discover_rekeyed :
  let f0 := forest (dx_state dx_hist) in
  let s := dx_state (dx_hist ++ [OPrune 1]) in
  (exists w fl, prune_forest sha256 false [] f0 [] 1 = POk (phys_of [1] (forest s), w, fl)) /\
  map fst (phys_of [1] (forest s)) = [(1, 0); (1, 2); (1, 3); (2, 1); (3, 1); (3, 2); (3, 3); (4, 1)] /\
  rekeyed (phys_of [1] (forest s)) = [1] /\
  stale_free_relb [1] (forest s) = true /\ stale_freeb (forest s) = false /\
  forallb (fun x => x <? first_version s) [1] = true /\
  discovered_range (phys_of [1] (forest s)) = Some (2, 4) /\
  discovered_available (phys_of [1] (forest s)) = Some [2; 3; 4] /\
  (first_version s, latest_version s, available s) = (2, 4, [2; 3; 4]) /\
  discovered_range (expected_store (forest s)) = Some (1, 4).
Proof.
  cbv zeta. split; [eexists; eexists; vm_compute; reflexivity|].
  vm_compute. repeat split; reflexivity.
Qed.

(** the same conclusion obtained from the theorem: its hypotheses hold on this state *)
Example dx_discover_rekeyed_thm :
  let s := dx_state (dx_hist ++ [OPrune 1]) in
  discovered_range (phys_of [1] (forest s)) = Some (first_version s, latest_version s) /\
  discovered_available (phys_of [1] (forest s)) = Some (available s).
Proof.
  cbv zeta. apply (discover_reachable_rel sha256 0 false (dx_hist ++ [OPrune 1]) [1]).
  - unfold init_ok. lia.
  - apply run_okb_iff. vm_compute. reflexivity.
  - vm_compute. reflexivity.
  - apply stale_free_relb_iff. vm_compute. reflexivity.
  - intros x [<-|[]]. vm_compute. reflexivity.
Qed.

(** DeleteVersionsTo(2) from there deletes the re-keyed root: the store is the expected store
    of versions 3, 4, which is stale-free; theorems 4 and 5 apply (with any [r] below 3) *)
Example dx_discover_pruned :
  let f1 := forest (dx_state (dx_hist ++ [OPrune 1])) in
  let s := dx_state (dx_hist ++ [OPrune 1; OPrune 2]) in
  (exists w fl, prune_forest sha256 false [1] f1 [] 2 = POk (expected_store (forest s), w, fl)) /\
  phys_of [1; 2] (forest s) = expected_store (forest s) /\
  map fst (expected_store (forest s)) = [(1, 2); (1, 3); (3, 1); (3, 2); (3, 3); (4, 1)] /\
  mfind kcmp (4, 1) (expected_store (forest s)) = Some (ERef (3, 2)) /\
  stale_freeb (forest s) = true /\
  discovered_range (expected_store (forest s)) = Some (3, 4) /\
  discovered_available (expected_store (forest s)) = Some [3; 4] /\
  (first_version s, latest_version s, available s) = (3, 4, [3; 4]).
Proof.
  cbv zeta. split; [eexists; eexists; vm_compute; reflexivity|].
  vm_compute. repeat split; reflexivity.
Qed.

Example dx_discover_pruned_thm :
  let s := dx_state (dx_hist ++ [OPrune 1; OPrune 2]) in
  discovered_range (expected_store (forest s)) = Some (first_version s, latest_version s) /\
  discovered_available (expected_store (forest s)) = Some (available s).
Proof.
  cbv zeta. apply (discover_reachable sha256 0 false (dx_hist ++ [OPrune 1; OPrune 2])).
  - unfold init_ok. lia.
  - apply run_okb_iff. vm_compute. reflexivity.
  - vm_compute. reflexivity.
  - apply stale_freeb_iff. vm_compute. reflexivity.
Qed.

(** the hypotheses of the forest-level main theorem on the same forest, [r = [1; 2]] *)
Example dx_discover_exact_thm :
  let f := forest (dx_state (dx_hist ++ [OPrune 1; OPrune 2])) in
  discovered_range (phys_of [1; 2] f) = Some (first_of_forest f, latest_of_forest f) /\
  discovered_available (phys_of [1; 2] f) = Some (map fst f).
Proof.
  cbv zeta.
  assert (SO : store_ok sha256 (dx_state (dx_hist ++ [OPrune 1; OPrune 2]))).
  { apply store_ok_reachable; [unfold init_ok; lia|]. apply run_okb_iff. vm_compute. reflexivity. }
  apply (discover_exact [1; 2] _ 0).
  - vm_compute. discriminate.
  - apply (so_forest _ _ SO).
  - exact (contig_forest_ok _ (so_contig _ _ SO)).
  - vm_compute. reflexivity.
  - apply stale_freeb_iff. vm_compute. reflexivity.
  - intros x [<-|[<-|[]]]; vm_compute; reflexivity.
Qed.

(** the search itself: 64 units of fuel are enough at the top of the int64 range, and the
    result without monotonicity is only a local boundary *)
Example bsearch_big :
  bsearch 64 [((2 ^ 63 - 1, 1), EEmpty)] 0 (2 ^ 63 - 1) = Some (2 ^ 63 - 1) /\
  bsearch 62 [((2 ^ 63 - 1, 1), EEmpty)] 0 (2 ^ 63 - 1) = None.
Proof. vm_compute. split; reflexivity. Qed.

Example bsearch_non_monotone :
  let st : list ((Z * Z) * entry) := [((3, 1), EEmpty); ((5, 1), EEmpty); ((6, 1), EEmpty)] in
  let st' : list ((Z * Z) * entry) := [((1, 1), EEmpty); ((5, 1), EEmpty); ((6, 1), EEmpty)] in
  bsearch 64 st 0 6 = Some 3 /\ has_version st 4 = false /\
  bsearch 64 st' 0 6 = Some 5 /\ has_version st' 1 = true.
Proof. vm_compute. repeat split; reflexivity. Qed.
