(** PhysCommitFacts: the physical batches of a commit produce the byte image of the new state.

    [PhysCommit.commit_bops H st] is the byte-level write stream of SaveVersion for the FastLife
    state [st].  The byte image of the database of [st] is
      [img r st = encode_image (phys_of r (forest (ms st))) (fidx st) (dlabel st)]
    ([r]: the versions whose root node was re-keyed to nonce 0 by deletions).  CHOICE: the image
    is used AS the [VMap.kvs] the flusher model writes to - [DbImage.image] and [VMap.kvs] are both
    [list (bytes * bytes)], and the image lists its pairs in ascending db-key order
    (DbImageFacts.encode_image_sorted), so no conversion is needed; [VMap.ins]/[VMap.del] are
    [mset bcmp]/[mdel bcmp] (FastLifeFacts1.ins_mset).

    Proved (all in full generality: index on or off, any [r], any initial version):
    1. [commit_bops_apply]: [kv_apply_ops (img r st) (commit_bops H st) = img r (fst (fstep H st FSave))]
       when the version does not exist yet (then the commit cannot fail: [MTree.do_save]).
       Hypotheses: [store_ok H (ms st)] (StoreFacts.store_ok_reachable: every reachable state),
       [rekey_ok r (forest (ms st))] (PruneAlgoFacts11.phys_run_inv: every reachable physical
       store; decidable form [rekey_okb]), and the decidable bounds [store_okb] of the physical
       store before and after (keys with a version in [0, 2^63) and a uint32 nonce: the byte order
       of the node keys is then the order of (version, nonce)).  [commit_bops_apply_b]: the same
       from [rekey_okb] and [forest_image_okb] of the new forest only.
    2. [commit_batches_apply] (every threshold), [commit_crash_images] (prefix at a cut position).
    3. [commit_node_bops_map], [commit_bops_node_suffix], [commit_bops_prefix]: the node part is
       [map node_bop] over the same list ([StoreFacts.node_writes]) of which [Store.commit_node_ops]
       is [map set_node]; [commit_prefix_image]: the database after the index part and [n] node
       writes is the byte image of the entry-level store with the first [n] writes of
       [Store.commit_ops H false] applied, under the new index and label - so CrashFacts'
       classification of the prefixes of [commit_ops] applies to these bytes.
    4. [commit_bops_sizes] (13-byte node keys, [FlusherFacts.keys_ok]),
       [commit_write_failure_reported].
    5. Examples with SHA-256: the stream, the batches for thresholds 150 / 100000, the equation of
       1 computed on four states (index on with removal and update; re-keyed root; initial
       version; index off), and the hypotheses of 1 established for the first one. *)
From Coq Require Import List ZArith Lia Bool Sorted.
Import ListNotations.
From IAVL Require Import Bytes Varint Sha256 Tree VMap TreeFacts MTree MTreeFacts VersionFacts
  Codec CodecFacts Store StoreFacts PruneAlgo PruneAlgoFacts2 PruneAlgoFacts6 PruneAlgoFacts10 PruneAlgoFacts11
  FastLife FastLifeFacts1 DbImage DbImageFacts Flusher FlusherFacts PhysCommit.
Local Open Scope Z_scope.

(** * 0. [ins] / [del] on a concatenation *)
Lemma ins_app_l k v (A B : kvs) :
  Forall (fun y => bcmp k (fst y) = Lt) B -> ins k v (A ++ B) = ins k v A ++ B.
Proof.
  intros F. induction A as [|[k' v'] A IH]; cbn [app ins].
  - destruct B as [|[kb vb] B]; [reflexivity|]. inversion F as [|? ? Hb _]; subst.
    cbn [fst] in Hb. cbn [ins]. rewrite Hb. reflexivity.
  - destruct (bcmp k k'); cbn [app]; [reflexivity|reflexivity|rewrite IH; reflexivity].
Qed.

Lemma del_app_l k (A B : kvs) :
  Forall (fun y => bcmp k (fst y) = Lt) B -> del k (A ++ B) = del k A ++ B.
Proof.
  intros F. induction A as [|[k' v'] A IH]; cbn [app del].
  - destruct B as [|[kb vb] B]; [reflexivity|]. inversion F as [|? ? Hb _]; subst.
    cbn [fst] in Hb. cbn [del]. rewrite Hb. reflexivity.
  - destruct (bcmp k k'); cbn [app]; [reflexivity|reflexivity|rewrite IH; reflexivity].
Qed.

Lemma ins_app_r k v (A B : kvs) :
  Forall (fun x => bcmp k (fst x) = Gt) A -> ins k v (A ++ B) = A ++ ins k v B.
Proof.
  induction A as [|[k' v'] A IH]; intros F; cbn [app]; [reflexivity|].
  inversion F as [|? ? Ha Fa]; subst. cbn [fst] in Ha. cbn [ins]. rewrite Ha, (IH Fa). reflexivity.
Qed.

Lemma kv_apply_ops_app m a b : kv_apply_ops m (a ++ b) = kv_apply_ops (kv_apply_ops m a) b.
Proof. unfold kv_apply_ops. apply fold_left_app. Qed.

(** * 1. The encoders commute with the writes *)
Lemma bcmp_fast_key a b : bcmp (db_fast_key a) (db_fast_key b) = bcmp a b.
Proof. unfold db_fast_key. cbn [bcmp]. rewrite N.compare_refl. reflexivity. Qed.

Lemma encode_fast_mset k (e : Z * bytes) (fi : list (bytes * (Z * bytes))) :
  encode_fast (mset bcmp k e fi)
  = ins (db_fast_key k) (encode_fast_node (fst e) (snd e)) (encode_fast fi).
Proof.
  induction fi as [|[k' e'] fi IH]; [reflexivity|].
  cbn [mset encode_fast map ins fst snd]. rewrite bcmp_fast_key.
  destruct (bcmp k k'); cbn [map fst snd]; [reflexivity|reflexivity|].
  unfold encode_fast in IH. rewrite IH. reflexivity.
Qed.

Lemma encode_fast_mdel k (fi : list (bytes * (Z * bytes))) :
  encode_fast (mdel bcmp k fi) = del (db_fast_key k) (encode_fast fi).
Proof.
  induction fi as [|[k' e'] fi IH]; [reflexivity|].
  cbn [mdel encode_fast map del fst snd]. rewrite bcmp_fast_key.
  destruct (bcmp k k'); cbn [map fst snd]; [reflexivity|reflexivity|].
  unfold encode_fast in IH. rewrite IH. reflexivity.
Qed.

(** node keys: the byte order of the stored keys is the order of (version, nonce) *)
Definition keys_okb (st : list ((Z * Z) * entry)) : bool := forallb (fun p => skey_okb (fst p)) st.

Lemma store_okb_keys st : store_okb st = true -> keys_okb st = true.
Proof.
  unfold store_okb, keys_okb. rewrite !forallb_forall. intros A p Ip.
  specialize (A p Ip). apply andb_true_iff in A. tauto.
Qed.

Lemma bcmp_node_key a b :
  skey_okb a = true -> skey_okb b = true -> bcmp (node_db_key a) (node_db_key b) = kcmp a b.
Proof.
  intros Ka Kb. apply skey_okb_in in Ka, Kb. destruct Ka as [Va Na], Kb as [Vb Nb].
  unfold node_db_key.
  pose proof (db_node_key_order (fst a) (snd a) (fst b) (snd b) Va Vb Na Nb) as Oab.
  pose proof (db_node_key_order (fst b) (snd b) (fst a) (snd a) Vb Va Nb Na) as Oba.
  destruct (kcmp a b) eqn:C.
  - apply kcmp_Eq in C. subst b. apply bcmp_refl.
  - apply kcmp_Lt in C. apply Oab. exact C.
  - assert (C' : kcmp b a = Lt).
    { destruct kcmp_ok as [_ _ Anti _]. rewrite Anti, C. reflexivity. }
    apply kcmp_Lt in C'. apply Oba in C'. rewrite bcmp_antisym, C'. reflexivity.
Qed.

Lemma encode_store_mset k e (st : list ((Z * Z) * entry)) :
  skey_okb k = true -> keys_okb st = true ->
  encode_store (mset kcmp k e st) = ins (node_db_key k) (encode_entry k e) (encode_store st).
Proof.
  induction st as [|[k' e'] st IH]; intros Kk Ks; [reflexivity|].
  cbn [keys_okb forallb fst] in Ks. apply andb_true_iff in Ks. destruct Ks as [Kk' Ks].
  cbn [mset encode_store map ins fst snd]. rewrite (bcmp_node_key k k' Kk Kk').
  destruct (kcmp k k'); cbn [map fst snd]; [reflexivity|reflexivity|].
  unfold encode_store in IH. rewrite (IH Kk Ks). reflexivity.
Qed.

Lemma keys_okb_mset k e (st : list ((Z * Z) * entry)) :
  skey_okb k = true -> keys_okb st = true -> keys_okb (mset kcmp k e st) = true.
Proof.
  induction st as [|[k' e'] st IH]; intros Kk Ks; cbn [mset].
  - cbn [keys_okb forallb fst]. rewrite Kk. reflexivity.
  - pose proof Ks as Ks0. cbn [keys_okb forallb fst] in Ks. apply andb_true_iff in Ks.
    destruct Ks as [Kk' Ks]. destruct (kcmp k k').
    + cbn [keys_okb forallb fst]. rewrite Kk. exact Ks.
    + change (keys_okb ((k, e) :: (k', e') :: st)) with (skey_okb k && keys_okb ((k', e') :: st)).
      rewrite Kk, Ks0. reflexivity.
    + change (keys_okb ((k', e') :: mset kcmp k e st)) with (skey_okb k' && keys_okb (mset kcmp k e st)).
      rewrite Kk', (IH Kk Ks). reflexivity.
Qed.

Lemma keys_okb_In (st : list ((Z * Z) * entry)) k :
  keys_okb st = true -> In k (map fst st) -> skey_okb k = true.
Proof.
  unfold keys_okb. rewrite forallb_forall. intros A Ik. apply in_map_iff in Ik.
  destruct Ik as (p & <- & Ip). exact (A p Ip).
Qed.

(** the byte-level operation of one node write *)
Definition node_bop (p : (Z * Z) * entry) : bop :=
  BSet (node_db_key (fst p)) (encode_entry (fst p) (snd p)).

Lemma bops_of_set_nodes wv (ws : list ((Z * Z) * entry)) :
  flat_map (bop_of_wop wv) (map set_node ws) = map node_bop ws.
Proof.
  induction ws as [|[k e] ws IH]; [reflexivity|].
  cbn [map flat_map set_node bop_of_wop fst snd app]. rewrite IH. reflexivity.
Qed.

Definition wkeys_ok (ws : list ((Z * Z) * entry)) : Prop :=
  Forall (fun p => skey_okb (fst p) = true) ws.

Lemma encode_store_writes ws : forall st : list ((Z * Z) * entry),
  keys_okb st = true -> wkeys_ok ws ->
  kv_apply_ops (encode_store st) (map node_bop ws)
  = encode_store (sapply_all st (map set_node ws)).
Proof.
  induction ws as [|[k e] ws IH]; intros st Ks F; [reflexivity|].
  inversion F as [|? ? Kk F']; subst. cbn [fst] in Kk.
  cbn [map kv_apply_ops fold_left kv_apply node_bop fst snd sapply_all set_node sapply].
  rewrite <- (encode_store_mset k e st Kk Ks).
  apply (IH (mset kcmp k e st)); [apply keys_okb_mset; assumption|exact F'].
Qed.

(** the three regions of the image *)
Definition above_fast (B : kvs) : Prop :=
  Forall (fun y => forall k, bcmp (db_fast_key k) (fst y) = Lt) B.

Lemma node_key_above_fast (st : list ((Z * Z) * entry)) l :
  above_fast (encode_label l ++ encode_store st).
Proof.
  unfold above_fast. apply Forall_forall. intros y Iy k. apply in_app_or in Iy.
  destruct Iy as [Iy|Iy].
  - rewrite (In_encode_label l y Iy). reflexivity.
  - destruct (In_encode_store st y Iy) as (nk & ->). reflexivity.
Qed.

Lemma below_node (fi : list (bytes * (Z * bytes))) l k :
  Forall (fun x => bcmp (node_db_key k) (fst x) = Gt) (encode_fast fi ++ encode_label l).
Proof.
  apply Forall_forall. intros x Ix. rewrite node_db_key_exact. apply in_app_or in Ix.
  destruct Ix as [Ix|Ix].
  - destruct (In_encode_fast fi x Ix) as (key & ->). reflexivity.
  - rewrite (In_encode_label l x Ix). reflexivity.
Qed.

Lemma image_node_writes fi l ws : forall st : list ((Z * Z) * entry),
  keys_okb st = true -> wkeys_ok ws ->
  kv_apply_ops (encode_image st fi l) (map node_bop ws)
  = encode_image (sapply_all st (map set_node ws)) fi l.
Proof.
  intros st Ks F. unfold encode_image. rewrite <- (encode_store_writes ws st Ks F).
  rewrite !app_assoc.
  generalize (encode_store st). clear st Ks.
  induction ws as [|[k e] ws IH]; intros S; [reflexivity|].
  inversion F as [|? ? Kk F']; subst.
  cbn [map kv_apply_ops fold_left kv_apply node_bop fst snd].
  rewrite (ins_app_r _ _ _ S (below_node fi l k)). exact (IH F' _).
Qed.

(** the keys written are keys of the resulting store *)
Lemma mset_key_in k e (st : list ((Z * Z) * entry)) : In k (map fst (mset kcmp k e st)).
Proof.
  induction st as [|[k' e'] st IH]; cbn [mset]; [left; reflexivity|].
  destruct (kcmp k k'); cbn [map fst In]; auto.
Qed.

Lemma mset_key_keep k e k0 (st : list ((Z * Z) * entry)) :
  In k0 (map fst st) -> In k0 (map fst (mset kcmp k e st)).
Proof.
  induction st as [|[k' e'] st IH]; cbn [mset map fst In]; [tauto|].
  intros [E|I]; destruct (kcmp k k') eqn:C; cbn [map fst In]; auto.
  apply kcmp_Eq in C. subst. auto.
Qed.

Lemma sapply_sets_keep ws : forall (st : list ((Z * Z) * entry)) k0,
  In k0 (map fst st) -> In k0 (map fst (sapply_all st (map set_node ws))).
Proof.
  induction ws as [|[k e] ws IH]; intros st k0 I0; [exact I0|].
  cbn [map sapply_all fold_left set_node sapply fst snd]. apply (IH (mset kcmp k e st)).
  apply mset_key_keep, I0.
Qed.

Lemma sapply_sets_keys ws : forall (st : list ((Z * Z) * entry)),
  Forall (fun p => In (fst p) (map fst (sapply_all st (map set_node ws)))) ws.
Proof.
  induction ws as [|[k e] ws IH]; intros st; constructor.
  - cbn [map sapply_all fold_left set_node sapply fst snd].
    apply (sapply_sets_keep ws (mset kcmp k e st)), mset_key_in.
  - exact (IH (mset kcmp k e st)).
Qed.

Lemma wkeys_ok_of_result ws (st : list ((Z * Z) * entry)) :
  keys_okb (sapply_all st (map set_node ws)) = true -> wkeys_ok ws.
Proof.
  intros K. eapply Forall_impl; [|apply (sapply_sets_keys ws st)].
  intros p Ip. exact (keys_okb_In _ _ K Ip).
Qed.

Lemma kv_apply_ops_cons m o r : kv_apply_ops m (o :: r) = kv_apply_ops (kv_apply m o) r.
Proof. reflexivity. Qed.

Lemma above_fast_lt B k : above_fast B -> Forall (fun y => bcmp (db_fast_key k) (fst y) = Lt) B.
Proof. intros AB. eapply Forall_impl; [|exact AB]. intros y Hy. apply Hy. Qed.

Lemma image_fast_adds B (ads : list (bytes * (Z * bytes))) :
  above_fast B -> forall fi : list (bytes * (Z * bytes)),
  kv_apply_ops (encode_fast fi ++ B)
    (map (fun a => BSet (db_fast_key (fst a)) (encode_fast_node (fst (snd a)) (snd (snd a)))) ads)
  = encode_fast (fold_left (fun acc a => mset bcmp (fst a) (snd a) acc) ads fi) ++ B.
Proof.
  intros AB. induction ads as [|a ads IH]; intros fi; [reflexivity|].
  cbn [map fold_left]. rewrite kv_apply_ops_cons. cbn [kv_apply].
  rewrite (ins_app_l _ _ _ B (above_fast_lt B _ AB)).
  rewrite <- (encode_fast_mset (fst a) (snd a) fi). apply IH.
Qed.

Lemma image_fast_rems B (rms : list (bytes * unit)) :
  above_fast B -> forall fi : list (bytes * (Z * bytes)),
  kv_apply_ops (encode_fast fi ++ B) (map (fun r => BDel (db_fast_key (fst r))) rms)
  = encode_fast (fold_left (fun acc r => mdel bcmp (fst r) acc) rms fi) ++ B.
Proof.
  intros AB. induction rms as [|a rms IH]; intros fi; [reflexivity|].
  cbn [map fold_left]. rewrite kv_apply_ops_cons. cbn [kv_apply].
  rewrite (del_app_l _ _ B (above_fast_lt B _ AB)).
  rewrite <- (encode_fast_mdel (fst a) fi). apply IH.
Qed.

Lemma bcmp_meta_node nk : bcmp db_meta_key (prefix_node :: nk) = Lt.
Proof. reflexivity. Qed.

Lemma image_set_label (st : list ((Z * Z) * entry)) (fi : list (bytes * (Z * bytes))) l wv :
  kv_apply (encode_image st fi l) (BSet db_meta_key (fast_storage_label wv))
  = encode_image st fi (Some wv).
Proof.
  unfold encode_image. cbn [kv_apply]. rewrite ins_app_r.
  2:{ apply Forall_forall. intros x Ix. destruct (In_encode_fast fi x Ix) as (key & ->).
      reflexivity. }
  f_equal. destruct l as [u|]; cbn [encode_label app ins].
  - rewrite bcmp_refl. reflexivity.
  - destruct st as [|[k e] st]; [reflexivity|]. cbn [encode_store map app ins fst].
    rewrite node_db_key_exact, bcmp_meta_node. reflexivity.
Qed.

(** the index part of a commit on the whole image *)
Lemma image_fast_part (st : list ((Z * Z) * entry)) (fi : list (bytes * (Z * bytes))) l
      (ads : list (bytes * (Z * bytes))) (rms : list (bytes * unit)) wv :
  kv_apply_ops (encode_image st fi l)
    (map (fun a => BSet (db_fast_key (fst a)) (encode_fast_node (fst (snd a)) (snd (snd a)))) ads ++
     map (fun r => BDel (db_fast_key (fst r))) rms ++
     [BSet db_meta_key (fast_storage_label wv)])
  = encode_image st
      (fold_left (fun acc r => mdel bcmp (fst r) acc) rms
         (fold_left (fun acc a => mset bcmp (fst a) (snd a) acc) ads fi))
      (Some wv).
Proof.
  rewrite !kv_apply_ops_app. unfold encode_image at 1.
  rewrite (image_fast_adds _ ads (node_key_above_fast st l)).
  rewrite (image_fast_rems _ rms (node_key_above_fast st l)).
  rewrite kv_apply_ops_cons. cbn [kv_apply_ops fold_left].
  apply (image_set_label st _ l wv).
Qed.

Section Commit.
  Variable H : bytes -> bytes.

  (** the physical store after a commit that creates a version: the node writes applied to the
      physical store before (the re-keyed roots [r] are below every retained version) *)
  Lemma phys_commit r s :
    store_ok H s -> rekey_ok r (forest s) -> lookup (working_version s) (forest s) = None ->
    phys_of r (forest (fst (do_save H s)))
    = sapply_all (phys_of r (forest s)) (map set_node (node_writes H s)).
  Proof.
    intros SO RK L.
    set (E := expected_store (forest s)).
    pose proof (commit_exact H false s (Db E [] None) SO eq_refl) as CE.
    rewrite nodes_apply_ops in CE. cbn [nodes] in CE.
    rewrite (commit_ops_new H false s L) in CE. cbn [commit_meta_ops app] in CE.
    rewrite commit_node_ops_eq in CE.
    unfold phys_of. rewrite <- CE. fold E. apply rekey_sapply_all.
    apply Forall_forall. intros o Io. apply in_map_iff in Io. destruct Io as ([k e] & <- & Ip).
    cbn [set_node ver_free fst snd].
    destruct (commit_keys_fresh H s SO L _ Ip) as [Vk _]. cbn [fst] in Vk. rewrite Vk.
    intros Ir. destruct RK as [_ RK]. destruct (RK _ Ir) as (Lt & u & (v & t & Iv & _) & _).
    destruct (save_fresh H s SO L) as (_ & Fr & _).
    assert (NE : forest s <> []) by (intros Q; rewrite Q in Iv; contradiction).
    destruct (first_in_forest (forest s) NE) as (rt & If). specialize (Fr _ _ If). lia.
  Qed.

  Lemma fstep_save_new st :
    version_exists (ms st) (working_version (ms st)) = false ->
    fst (fstep H st FSave) =
    if skipf st then with_ms st (fst (do_save H (ms st)))
    else FS (fst (do_save H (ms st)))
            (fold_left (fun acc r => mdel bcmp (fst r) acc) (rems st)
               (fold_left (fun acc a => mset bcmp (fst a) (snd a) acc) (adds st) (fidx st)))
            (Some (working_version (ms st))) (Some (working_version (ms st))) (skipf st) [] [].
  Proof.
    intros V. cbn [fstep step]. rewrite V. unfold do_save. rewrite V. cbn [fst snd].
    reflexivity.
  Qed.

  Definition img (r : list Z) (st : fstate) : kvs :=
    encode_image (phys_of r (forest (ms st))) (fidx st) (dlabel st).

  Theorem commit_bops_apply r st :
    store_ok H (ms st) -> rekey_ok r (forest (ms st)) ->
    store_okb (phys_of r (forest (ms st))) = true ->
    store_okb (phys_of r (forest (ms (fst (fstep H st FSave))))) = true ->
    version_exists (ms st) (working_version (ms st)) = false ->
    kv_apply_ops (img r st) (commit_bops H st) = img r (fst (fstep H st FSave)).
  Proof.
    intros SO RK OK0 OK1 V.
    assert (L : lookup (working_version (ms st)) (forest (ms st)) = None).
    { unfold version_exists in V. destruct (lookup (working_version (ms st)) (forest (ms st))); congruence. }
    rewrite (fstep_save_new st V) in *.
    pose proof (phys_commit r (ms st) SO RK L) as PC.
    assert (OK1' : store_okb (phys_of r (forest (fst (do_save H (ms st))))) = true).
    { destruct (skipf st); exact OK1. }
    assert (WK : wkeys_ok (node_writes H (ms st))).
    { apply (wkeys_ok_of_result _ (phys_of r (forest (ms st)))). rewrite <- PC.
      apply store_okb_keys, OK1'. }
    pose proof (store_okb_keys _ OK0) as K0.
    unfold commit_bops. rewrite V. unfold commit_node_bops.
    rewrite commit_node_ops_eq, bops_of_set_nodes, kv_apply_ops_app.
    unfold commit_fast_bops, img. destruct (skipf st) eqn:SK.
    - cbn [kv_apply_ops fold_left with_ms ms fidx dlabel].
      rewrite (image_node_writes _ _ _ _ K0 WK), <- PC. reflexivity.
    - cbn [ms fidx dlabel]. rewrite image_fast_part.
      rewrite (image_node_writes _ _ _ _ K0 WK), <- PC. reflexivity.
  Qed.
End Commit.

Section Commit2.
  Variable H : bytes -> bytes.

  Lemma forest_image_okb_old s :
    lookup (working_version s) (forest s) = None ->
    forest_image_okb (forest (fst (do_save H s))) = true -> forest_image_okb (forest s) = true.
  Proof.
    intros L. destruct (do_save_new_forest H s L) as (Ef & _). rewrite Ef.
    unfold forest_image_okb. rewrite forallb_app, andb_true_iff. tauto.
  Qed.

  Lemma fstep_save_ms st :
    version_exists (ms st) (working_version (ms st)) = false ->
    ms (fst (fstep H st FSave)) = fst (do_save H (ms st)).
  Proof. intros V. rewrite (fstep_save_new H st V). destruct (skipf st); reflexivity. Qed.

  (** THEOREM 1 with decidable side conditions only (besides [store_ok], which holds in every
      reachable state: StoreFacts.store_ok_reachable) *)
  Theorem commit_bops_apply_b r st :
    store_ok H (ms st) ->
    rekey_okb r (forest (ms st)) = true ->
    forest_image_okb (forest (ms (fst (fstep H st FSave)))) = true ->
    version_exists (ms st) (working_version (ms st)) = false ->
    kv_apply_ops (img r st) (commit_bops H st) = img r (fst (fstep H st FSave)).
  Proof.
    intros SO RK FO V.
    assert (L : lookup (working_version (ms st)) (forest (ms st)) = None).
    { unfold version_exists in V.
      destruct (lookup (working_version (ms st)) (forest (ms st))); congruence. }
    apply (commit_bops_apply H r st SO (rekey_okb_sound _ _ RK)); [| |exact V].
    - apply forest_image_ok_store. rewrite (fstep_save_ms st V) in FO.
      exact (forest_image_okb_old _ L FO).
    - apply forest_image_ok_store, FO.
  Qed.

  (** ** THEOREM 2: through the flusher, for every threshold; crash images *)
  Theorem commit_batches_apply th r st :
    store_ok H (ms st) -> rekey_ok r (forest (ms st)) ->
    store_okb (phys_of r (forest (ms st))) = true ->
    store_okb (phys_of r (forest (ms (fst (fstep H st FSave))))) = true ->
    version_exists (ms st) (working_version (ms st)) = false ->
    kv_apply_batches (img r st) (commit_batches H th st) = img r (fst (fstep H st FSave)).
  Proof.
    intros SO RK OK0 OK1 V. unfold commit_batches. rewrite fl_apply_same.
    apply commit_bops_apply; assumption.
  Qed.

  (** after any number [i] of physical batches the database is the image with a prefix of the
      write stream applied, cut at one of the flusher's cut positions (or nothing / everything) *)
  Theorem commit_crash_images th r st i :
    exists n,
      In n (0%nat :: cut_positions th (commit_bops H st) ++ [length (commit_bops H st)]) /\
      kv_apply_batches (img r st) (firstn i (commit_batches H th st))
      = kv_apply_ops (img r st) (firstn n (commit_bops H st)).
  Proof. unfold commit_batches. apply fl_prefix_db_exists. Qed.

  (** ** THEOREM 3: the node part is the byte encoding of [Store.commit_node_ops], write by write *)
  Theorem commit_node_bops_map st :
    commit_node_bops H st = map node_bop (node_writes H (ms st)) /\
    commit_node_ops H (ms st) = map set_node (node_writes H (ms st)).
  Proof.
    split; [|apply commit_node_ops_eq].
    unfold commit_node_bops. rewrite commit_node_ops_eq. apply bops_of_set_nodes.
  Qed.

  Theorem commit_bops_node_suffix st :
    version_exists (ms st) (working_version (ms st)) = false ->
    commit_bops H st = commit_fast_bops st ++ map node_bop (node_writes H (ms st)) /\
    commit_ops H false (ms st) = map set_node (node_writes H (ms st)).
  Proof.
    intros V. unfold commit_bops, commit_ops. rewrite V. cbn [commit_meta_ops app].
    destruct (commit_node_bops_map st) as [A B]. rewrite A, B. auto.
  Qed.

  (** a prefix of the byte stream that contains the index part and [n] node writes is the index
      part followed by the encoding of the first [n] writes of [Store.commit_ops] *)
  Theorem commit_bops_prefix st n :
    version_exists (ms st) (working_version (ms st)) = false ->
    firstn (length (commit_fast_bops st) + n) (commit_bops H st)
    = commit_fast_bops st ++ map node_bop (firstn n (node_writes H (ms st))) /\
    firstn n (commit_ops H false (ms st)) = map set_node (firstn n (node_writes H (ms st))).
  Proof.
    intros V. destruct (commit_bops_node_suffix st V) as [A B]. rewrite A, B.
    rewrite firstn_app_2, !firstn_map. auto.
  Qed.

  (** ... and the database it leaves is the byte image of the entry-level store with the first
      [n] node writes applied, the index and the label being those of the completed commit:
      CrashFacts' classification of the prefixes of [commit_ops] speaks about these bytes *)
  Theorem commit_prefix_image r st n :
    store_ok H (ms st) -> rekey_ok r (forest (ms st)) ->
    store_okb (phys_of r (forest (ms st))) = true ->
    store_okb (phys_of r (forest (ms (fst (fstep H st FSave))))) = true ->
    version_exists (ms st) (working_version (ms st)) = false ->
    kv_apply_ops (img r st) (firstn (length (commit_fast_bops st) + n) (commit_bops H st))
    = encode_image
        (sapply_all (phys_of r (forest (ms st))) (firstn n (commit_ops H false (ms st))))
        (fidx (fst (fstep H st FSave))) (dlabel (fst (fstep H st FSave))).
  Proof.
    intros SO RK OK0 OK1 V.
    assert (L : lookup (working_version (ms st)) (forest (ms st)) = None).
    { unfold version_exists in V.
      destruct (lookup (working_version (ms st)) (forest (ms st))); congruence. }
    destruct (commit_bops_prefix st n V) as [A B]. rewrite A, B.
    rewrite (fstep_save_ms st V) in OK1.
    pose proof (phys_commit H r (ms st) SO RK L) as PC.
    assert (WK : wkeys_ok (node_writes H (ms st))).
    { apply (wkeys_ok_of_result _ (phys_of r (forest (ms st)))). rewrite <- PC.
      apply store_okb_keys, OK1. }
    assert (WKn : wkeys_ok (firstn n (node_writes H (ms st)))).
    { unfold wkeys_ok in *. rewrite Forall_forall in *. intros p Ip.
      apply WK. eapply In_firstn, Ip. }
    pose proof (store_okb_keys _ OK0) as K0.
    rewrite (fstep_save_new H st V), kv_apply_ops_app.
    unfold commit_fast_bops, img. destruct (skipf st) eqn:SK.
    - cbn [kv_apply_ops fold_left with_ms ms fidx dlabel].
      apply (image_node_writes _ _ _ _ K0 WKn).
    - cbn [ms fidx dlabel]. rewrite image_fast_part.
      apply (image_node_writes _ _ _ _ K0 WKn).
  Qed.

  (** ** THEOREM 4: sizes of keys; a failing backend write is reported *)
  Lemma node_db_key_length k : length (node_db_key k) = 13%nat.
  Proof. rewrite node_db_key_exact. cbn [length]. rewrite node_key_bytes_length. reflexivity. Qed.

  Theorem commit_bops_sizes st :
    Forall (fun o => length (op_key o) = 13%nat) (commit_node_bops H st) /\
    keys_ok (commit_bops H st).
  Proof.
    destruct (commit_node_bops_map st) as [A _]. split.
    - rewrite A. apply Forall_forall. intros o Io. apply in_map_iff in Io.
      destruct Io as (p & <- & _). apply node_db_key_length.
    - unfold keys_ok, commit_bops.
      destruct (version_exists (ms st) (working_version (ms st))); [constructor|].
      apply Forall_app. split.
      + unfold commit_fast_bops. destruct (skipf st); [constructor|].
        apply Forall_app. split; [|apply Forall_app; split].
        * apply Forall_forall. intros o Io. apply in_map_iff in Io. destruct Io as (a & <- & _).
          discriminate.
        * apply Forall_forall. intros o Io. apply in_map_iff in Io. destruct Io as (a & <- & _).
          discriminate.
        * constructor; [discriminate|constructor].
      + rewrite A. apply Forall_forall. intros o Io. apply in_map_iff in Io.
        destruct Io as (p & <- & _). cbn [node_bop op_key]. rewrite node_db_key_exact. discriminate.
  Qed.

  (** the [n]-th backend [Write] of a commit fails: SaveVersion's batch reports it (no
      [errKeyEmpty] can mask it), the database then holds exactly the first [n-1] physical
      batches, i.e. the image with a prefix of the stream applied, cut at a cut position *)
  Theorem commit_write_failure_reported th n st :
    (1 <= n <= length (commit_batches H th st))%nat ->
    exists s, ffl_commit th n (commit_bops H st) = FErr EWriteFailed s /\ nwrites s = n /\
      ffl_db_batches (FErr EWriteFailed s) = firstn (n - 1) (commit_batches H th st) /\
      forall m, kv_apply_batches m (ffl_db_batches (FErr EWriteFailed s))
                = kv_apply_ops m
                    (firstn (nth (n - 1) (0%nat :: cut_positions th (commit_bops H st) ++
                                          [length (commit_bops H st)]) (length (commit_bops H st)))
                            (commit_bops H st)).
  Proof.
    intros Hn. destruct (commit_bops_sizes st) as [_ K].
    destruct (fl_fault_reported th n (commit_bops H st) K Hn) as (s & E & Nw).
    exists s. split; [exact E|]. split; [exact Nw|].
    destruct (fl_fault_prefix th n (commit_bops H st) s E) as (A & _ & C). auto.
  Qed.
End Commit2.

(** * 5. Examples (SHA-256, computed) *)
Definition pc_a : bytes := [97%N].
Definition pc_b : bytes := [98%N].
Definition pc_c : bytes := [99%N].
Definition pc_d : bytes := [100%N].
Definition pc_e : bytes := [101%N].
Definition pc_1 : bytes := [49%N].
Definition pc_2 : bytes := [50%N].
Definition pc_3 : bytes := [51%N].

(** index enabled; two commits; then a removal, an update and an insertion, not yet committed *)
Definition pc_ex_hist : list fop :=
  [FOpen false; FSet pc_a pc_1; FSet pc_b pc_1; FSet pc_c pc_1; FSave; FSet pc_d pc_2; FSave;
   FRemove pc_a; FSet pc_b pc_3; FSet pc_e pc_3].
Definition pc_ex_st : fstate := Eval vm_compute in fst (frun sha256 (finit 0 false) pc_ex_hist).
Definition pc_ex_ops : list bop := Eval vm_compute in commit_bops sha256 pc_ex_st.

Example pc_ex_unsaved :
  adds pc_ex_st = [(pc_b, (3, pc_3)); (pc_e, (3, pc_3))] /\ rems pc_ex_st = [(pc_a, tt)] /\
  dlabel pc_ex_st = Some 2 /\ skipf pc_ex_st = false /\ working_version (ms pc_ex_st) = 3.
Proof. vm_compute. repeat split. Qed.

(** the stream: two index sets, one index delete, the label, five nodes (post-order, root last) *)
Example pc_ex_ops_shape :
  map (fun o => (op_key o, op_size o)) pc_ex_ops =
  [(db_fast_key pc_b, 5); (db_fast_key pc_e, 5); (db_fast_key pc_a, 2); (db_meta_key, 23);
   (node_db_key (3, 3), 19); (node_db_key (3, 2), 55); (node_db_key (3, 5), 19);
   (node_db_key (3, 4), 55); (node_db_key (3, 1), 55)].
Proof. vm_compute. reflexivity. Qed.

Example pc_ex_batches :
  map (@length bop) (commit_batches sha256 150 pc_ex_st) = [4; 1; 1; 1; 1; 1]%nat /\
  cut_positions 150 pc_ex_ops = [4; 5; 6; 7; 8]%nat /\
  commit_batches sha256 100000 pc_ex_st = [pc_ex_ops].
Proof. vm_compute. repeat split. Qed.

(** the equation of theorem 1, computed *)
Example pc_ex_equation :
  kv_apply_ops (img [] pc_ex_st) (commit_bops sha256 pc_ex_st)
  = img [] (fst (fstep sha256 pc_ex_st FSave)).
Proof. vm_compute. reflexivity. Qed.

(** ... and the hypotheses of theorem 1 hold of this state *)
Example pc_ex_hypotheses :
  store_ok sha256 (ms pc_ex_st) /\ rekey_okb [] (forest (ms pc_ex_st)) = true /\
  forest_image_okb (forest (ms (fst (fstep sha256 pc_ex_st FSave)))) = true /\
  version_exists (ms pc_ex_st) (working_version (ms pc_ex_st)) = false.
Proof.
  split; [|vm_compute; repeat split].
  assert (E : ms pc_ex_st = fst (run sha256 (init_state 0 false) (map logical pc_ex_hist)))
    by (vm_compute; reflexivity).
  rewrite E. apply store_ok_reachable; [cbn; lia|]. apply run_okb_iff. vm_compute. reflexivity.
Qed.

Example pc_ex_by_theorem :
  kv_apply_batches (img [] pc_ex_st) (commit_batches sha256 150 pc_ex_st)
  = img [] (fst (fstep sha256 pc_ex_st FSave)).
Proof.
  destruct pc_ex_hypotheses as (SO & RK & FO & V).
  unfold commit_batches. rewrite fl_apply_same. apply commit_bops_apply_b; assumption.
Qed.

(** a store with a re-keyed root: version 2 is committed without changes (its root entry refers
    to the root node (1,1)), version 1 is deleted (the node moves to (1,0)); then changes *)
Definition pc_ex_hist_rk : list fop :=
  [FOpen false; FSet pc_a pc_1; FSet pc_b pc_1; FSave; FSave; FPrune 1; FSet pc_c pc_2; FRemove pc_a].
Definition pc_ex_st_rk : fstate := Eval vm_compute in fst (frun sha256 (finit 0 false) pc_ex_hist_rk).

Example pc_ex_rk_equation :
  rekey_okb [1] (forest (ms pc_ex_st_rk)) = true /\
  map fst (phys_of [1] (forest (ms pc_ex_st_rk))) = [(1, 0); (1, 2); (1, 3); (2, 1)] /\
  kv_apply_ops (img [1] pc_ex_st_rk) (commit_bops sha256 pc_ex_st_rk)
  = img [1] (fst (fstep sha256 pc_ex_st_rk FSave)).
Proof. vm_compute. repeat split. Qed.

(** an initial version: the first commit creates version 7, the unsaved additions carry the stamp
    [tree.version + 1 = 1] (what Go writes); index off: only nodes are written *)
Definition pc_ex_st_iv : fstate :=
  Eval vm_compute in fst (frun sha256 (finit 7 true) [FOpen false; FSet pc_a pc_1; FSet pc_b pc_1]).
Definition pc_ex_st_off : fstate :=
  Eval vm_compute in fst (frun sha256 (finit 0 false) [FOpen true; FSet pc_a pc_1; FSet pc_b pc_1]).

Example pc_ex_iv_equation :
  working_version (ms pc_ex_st_iv) = 7 /\ map (fun a => fst (snd a)) (adds pc_ex_st_iv) = [1; 1] /\
  kv_apply_ops (img [] pc_ex_st_iv) (commit_bops sha256 pc_ex_st_iv)
  = img [] (fst (fstep sha256 pc_ex_st_iv FSave)).
Proof. vm_compute. repeat split. Qed.

Example pc_ex_off_equation :
  commit_fast_bops pc_ex_st_off = [] /\ length (commit_bops sha256 pc_ex_st_off) = 3%nat /\
  kv_apply_ops (img [] pc_ex_st_off) (commit_bops sha256 pc_ex_st_off)
  = img [] (fst (fstep sha256 pc_ex_st_off FSave)).
Proof. vm_compute. repeat split. Qed.

Print Assumptions commit_bops_apply.
Print Assumptions commit_bops_apply_b.
Print Assumptions commit_batches_apply.
Print Assumptions commit_crash_images.
Print Assumptions commit_bops_node_suffix.
Print Assumptions commit_bops_prefix.
Print Assumptions commit_prefix_image.
Print Assumptions commit_bops_sizes.
Print Assumptions commit_write_failure_reported.
Print Assumptions pc_ex_by_theorem.
