(** The database an import writes, end to end (ExportImport.v composed with Store / PruneAlgo /
    Discover / DbImage).

    The importer (ExportImport.imp_run, cimp_run for the compressed codec) rebuilds the tree
    bottom-up from the post-order export stream and assigns the node keys itself: version = the
    exported node's version, nonce = 1 + the per-version counter after its increment (so nonces
    start at 2 within each version), the root gets nonce 1 at Commit.  The node store it writes is
    [Store.expected_store [(V, Some t')]] for the returned tree [t']: the nodes of [t'] under those
    keys and, under [(V,1)], the root itself or a reference to it when the root's version is below
    [V].

    1. [imp_run_export] / [cimp_run_export]: the imported tree as an explicit function
       [imported H t] of the exported tree (both codecs give the same tree); [rebuild_nonces]: the
       assigned keys are pairwise distinct, every non-root nonce is at least 2 (under
       [ncount t + 1 < 2^32]: the uint32 counters do not wrap).
    2. [import_forest_inv]: the one-version forest [[(V, Some t')]] satisfies [forest_inv],
       [NoDup], [forest_ok], [wf], [hashed] / [leaf_hashes].
    3. [import_reopens] (and [import_loads_back], [import_reopens_reachable] for a tree exported
       from a reachable state): a new tree object opened on the BYTES of the imported database finds
       version [V] and loads it back as exactly [t'] (hence with the shape, contents and hashes of
       the exported tree: [imported_same]); when the root of the exported tree was written at
       version [V], nothing else is found: [open_forest = DbOk [(V, Some t')]].
    4. [import_inherited_root_discovers_more_refuted]: when the root is older than [V] its key
       [(w,1)] looks like a root key of version [w]: a concrete history where the imported store
       reports versions 2..5 although only 5 was imported (an observation made on the real
       library); version 5 still loads back exactly.
    5. [import_empty_reopens]: the empty tree.  Examples with SHA-256, both codecs. *)
From Coq Require Import Lia ZifyBool Sorted.
From IAVL Require Import Bytes Varint VarintFacts Sha256 Tree VMap TreeFacts MTree MTreeFacts HashFacts
  VersionFacts ExportImport ExportImportFacts Codec CodecFacts Store StoreFacts PruneAlgo FastLife
  Discover DiscoverFacts PruneAlgoFacts2 PruneAlgoFacts4 PruneAlgoFacts6 PruneAlgoFacts7 PruneAlgoFacts8 PruneAlgoFacts10
  DbImage DbImageFacts.
Local Open Scope Z_scope.

(** ** 1. The importer on an export stream, as a function *)

(** number of nodes *)
Fixpoint ncount (t : node) : Z :=
  match t with
  | Leaf _ _ _ => 1
  | Inner _ _ _ _ l r => ncount l + ncount r + 1
  end.

Lemma ncount_pos t : 1 <= ncount t.
Proof. induction t; cbn [ncount]; lia. Qed.

Definition set_root_nonce (t : node) (n : Z) : node :=
  match t with
  | Leaf k v m => Leaf k v (Meta (ver m) n (hs m))
  | Inner k h s m l r => Inner k h s (Meta (ver m) n (hs m)) l r
  end.

Section Rebuild.
  Variable H : bytes -> bytes.

  (** what Importer.Add builds from the post-order stream of [t]: the same keys, values, heights,
      sizes and versions; the hashes recomputed; the nonce of a node = 1 + the value of the
      per-version counter [i.nonces[version]] after its increment.  Returns the counters too. *)
  Fixpoint rebuild (nn : list (Z * Z)) (t : node) : node * list (Z * Z) :=
    match t with
    | Leaf k v m =>
        let c := u32 (nonce_get (ver m) nn + 1) in
        (Leaf k v (Meta (ver m) (u32 (c + 1)) (H (leaf_preimage H (ver m) k v))),
         nonce_set (ver m) c nn)
    | Inner k h s m l r =>
        let (l', nn1) := rebuild nn l in
        let (r', nn2) := rebuild nn1 r in
        let c := u32 (nonce_get (ver m) nn2 + 1) in
        (Inner k h s (Meta (ver m) (u32 (c + 1))
                        (H (inner_preimage h s (ver m) (hs (nmeta l')) (hs (nmeta r'))))) l' r',
         nonce_set (ver m) c nn2)
    end.

  (** the stack entry of a written node *)
  Definition pn_of (t : node) : pnode :=
    match t with
    | Leaf k v m => PNode (Some k) (Some v) 0 1 (ver m) (nonce m) None
    | Inner k h s m l r => PNode (Some k) None h s (ver m) (nonce m) (Some (l, r))
    end.

  Lemma rebuild_shape nn t : shape_eq (fst (rebuild nn t)) t /\ hashed H (fst (rebuild nn t)).
  Proof.
    revert nn. induction t as [k v m|k h s m l IHl r IHr]; intros nn; cbn [rebuild].
    - cbn [fst shape_eq hashed ver hs]. auto.
    - destruct (rebuild nn l) as [l' nn1] eqn:El. destruct (rebuild nn1 r) as [r' nn2] eqn:Er.
      pose proof (IHl nn) as A. rewrite El in A. pose proof (IHr nn1) as B. rewrite Er in B.
      cbn [fst] in *. cbn [shape_eq hashed ver hs nmeta]. tauto.
  Qed.

  Lemma write_pn_of t t' nc :
    shape_eq t' t -> hashed H t' -> wf t -> 1 <= ver (nmeta t) ->
    ExportImport.write_node H (set_nonce (pn_of t') nc) = Some (set_root_nonce t' nc).
  Proof.
    intros S Hh W V. pose proof (shape_eq_wf _ _ S W) as W'.
    destruct (shape_eq_basic _ _ S) as (_ & _ & _ & Ev & _). rewrite <- Ev in V.
    pose proof (height_nonneg _ W') as Hn. pose proof (size_pos _ W') as Sp.
    destruct t' as [k v m|k h s m l r]; cbn [pn_of set_nonce set_root_nonce ExportImport.write_node p_key p_value
      p_height p_size p_ver p_nonce p_kids nmeta height size] in *.
    - destruct (ver m <=? 0) eqn:E1; [lia|]. cbn [Z.ltb Z.eqb Z.compare negb Pos.compare].
      cbn [hashed] in Hh. rewrite <- Hh. reflexivity.
    - destruct (ver m <=? 0) eqn:E1; [lia|]. destruct (h <? 0) eqn:E2; [lia|].
      destruct (s <? 1) eqn:E3; [lia|].
      cbn [wf] in W'. destruct W' as (Wl & Wr & _ & _ & _ & Eh & _).
      pose proof (height_nonneg _ Wl). pose proof (height_nonneg _ Wr).
      destruct (h =? 0) eqn:E4; [lia|].
      cbn [hashed] in Hh. destruct Hh as [Hh _]. rewrite <- Hh. reflexivity.
  Qed.
End Rebuild.

Section Rebuild2.
  Variable H : bytes -> bytes.

  Lemma set_nonce_pn_of t : set_nonce (pn_of t) (nonce (nmeta t)) = pn_of t.
  Proof. destruct t; reflexivity. Qed.

  Lemma set_root_nonce_id t : set_root_nonce t (nonce (nmeta t)) = t.
  Proof. destruct t as [k v [a b c]|k h s [a b c] l r]; reflexivity. Qed.

  Lemma write_pn_of_same t t' :
    shape_eq t' t -> hashed H t' -> wf t -> 1 <= ver (nmeta t) ->
    ExportImport.write_node H (pn_of t') = Some t'.
  Proof.
    intros S Hh W V. pose proof (write_pn_of H t t' (nonce (nmeta t')) S Hh W V) as X.
    rewrite set_nonce_pn_of, set_root_nonce_id in X. exact X.
  Qed.

  Lemma imp_adds_rebuild v t : forall stk nn rest,
    wf t -> versions_in v t ->
    imp_adds H (IState v stk nn false) (map Some (export_node t) ++ rest) =
    imp_adds H (IState v (pn_of (fst (rebuild H nn t)) :: stk) (snd (rebuild H nn t)) false) rest.
  Proof.
    induction t as [k w m|k h s m l IHl r IHr]; intros stk nn rest W V.
    - cbn [versions_in] in V. cbn [export_node map app imp_adds rebuild fst snd pn_of ver nonce].
      unfold imp_add. cbn [i_closed i_version i_stack i_nonces e_version e_height e_key e_value].
      destruct (v <? ver m) eqn:E1; [lia|]. destruct (ver m <? 0) eqn:E0; [lia|]. cbn [Z.eqb orb].
      destruct (v + 1 <=? ver m) eqn:E2; [lia|]. reflexivity.
    - pose proof W as W0. pose proof V as V0.
      cbn [wf] in W. destruct W as (Wl & Wr & _ & _ & _ & Eh & Es).
      cbn [versions_in] in V. destruct V as (Vm & Vl & Vr).
      cbn [export_node]. rewrite !map_app, <- !app_assoc.
      rewrite (IHl stk nn _ Wl Vl).
      cbn [rebuild].
      destruct (rebuild H nn l) as [l' nn1] eqn:El. cbn [fst snd].
      rewrite (IHr (pn_of l' :: stk) nn1 _ Wr Vr).
      destruct (rebuild H nn1 r) as [r' nn2] eqn:Er. cbn [fst snd].
      pose proof (rebuild_shape H nn l) as [Sl Hl]. rewrite El in Sl, Hl. cbn [fst] in Sl, Hl.
      pose proof (rebuild_shape H nn1 r) as [Sr Hr]. rewrite Er in Sr, Hr. cbn [fst] in Sr, Hr.
      destruct (shape_eq_basic _ _ Sl) as (_ & Ehl & Esl & _).
      destruct (shape_eq_basic _ _ Sr) as (_ & Ehr & Esr & _).
      pose proof (height_nonneg _ Wl). pose proof (height_nonneg _ Wr).
      cbn [map app imp_adds]. unfold imp_add.
      cbn [i_closed i_version i_stack i_nonces e_version e_height e_key e_value].
      destruct (v <? ver m) eqn:E1; [lia|]. destruct (ver m <? 0) eqn:E0; [lia|].
      destruct (h =? 0) eqn:E2; [lia|].
      assert (Phl : p_height (pn_of l') = height l') by (destruct l'; reflexivity).
      assert (Phr : p_height (pn_of r') = height r') by (destruct r'; reflexivity).
      assert (Psl : p_size (pn_of l') = size l') by (destruct l'; reflexivity).
      assert (Psr : p_size (pn_of r') = size r') by (destruct r'; reflexivity).
      rewrite Phl, Phr, Psl, Psr.
      destruct ((height r' <? h) && (height l' <? h)) eqn:E3; [|lia].
      rewrite (write_pn_of_same l l' Sl Hl Wl (proj1 (versions_in_pos _ _ Vl))).
      rewrite (write_pn_of_same r r' Sr Hr Wr (proj1 (versions_in_pos _ _ Vr))).
      cbn [orb]. destruct (v + 1 <=? ver m) eqn:E4; [lia|]. cbn [ibind].
      cbn [pn_of ver nonce]. rewrite Esl, Esr, <- Es. reflexivity.
  Qed.

  (** THE IMPORTED TREE, explicitly *)
  Definition imported (t : node) : node := set_root_nonce (fst (rebuild H [] t)) 1.

  Theorem imp_run_export v t :
    wf t -> versions_in v t -> v < max_nonces_len ->
    imp_run H v (map Some (export (Some t))) = IOk (Some (imported t)).
  Proof.
    intros W V B. pose proof (versions_in_pos _ _ V) as P.
    unfold imp_run. rewrite imp_new_ok by lia. cbn [ibind export].
    pose proof (imp_adds_rebuild v t [] [] [] W V) as E. rewrite app_nil_r in E. rewrite E.
    cbn [imp_adds ibind]. unfold imp_commit. cbn [i_closed i_stack].
    destruct (rebuild_shape H [] t) as [S Hh].
    rewrite (write_pn_of H t _ 1 S Hh W (proj1 P)). reflexivity.
  Qed.
End Rebuild2.

(** ** 2. The keys the importer assigns *)
Lemma nonce_get_set w v c nn :
  nonce_get w (nonce_set v c nn) = if w =? v then c else nonce_get w nn.
Proof.
  induction nn as [|[x n] nn IH]; cbn [nonce_set nonce_get].
  - destruct (w =? v) eqn:E; [apply Z.eqb_eq in E; subst; rewrite Z.eqb_refl; reflexivity|].
    rewrite Z.eqb_sym, E. reflexivity.
  - destruct (x =? v) eqn:E1; cbn [nonce_get].
    + apply Z.eqb_eq in E1. subst x. rewrite (Z.eqb_sym v w). destruct (w =? v); reflexivity.
    + destruct (x =? w) eqn:E2; [|exact IH].
      apply Z.eqb_eq in E2. subst x. rewrite E1. reflexivity.
Qed.

Lemma u32_small z : 0 <= z < 2 ^ 32 -> u32 z = z.
Proof. intros B. unfold u32. change 4294967296 with (2 ^ 32). apply Z.mod_small, B. Qed.

Section Nonces.
  Variable H : bytes -> bytes.

  Theorem rebuild_nonces t : forall nn,
    (forall v, 0 <= nonce_get v nn) -> (forall v, nonce_get v nn + ncount t + 1 < 2 ^ 32) ->
    (forall v, nonce_get v nn <= nonce_get v (snd (rebuild H nn t)) <= nonce_get v nn + ncount t) /\
    (forall u, subtree u (fst (rebuild H nn t)) ->
       nonce_get (ver (nmeta u)) nn + 2 <= nonce (nmeta u)
         <= nonce_get (ver (nmeta u)) (snd (rebuild H nn t)) + 1) /\
    (forall u u', subtree u (fst (rebuild H nn t)) -> subtree u' (fst (rebuild H nn t)) ->
       node_key u = node_key u' -> u = u').
  Proof.
    induction t as [k w m|k h s m l IHl r IHr]; intros nn P B.
    - cbn [rebuild fst snd ncount] in *.
      pose proof (P (ver m)). pose proof (B (ver m)).
      rewrite !u32_small by (rewrite ?u32_small; lia).
      split; [|split].
      + intros v. rewrite nonce_get_set. destruct (v =? ver m) eqn:E; [apply Z.eqb_eq in E; subst v|]; lia.
      + intros u S. apply sub_leaf in S. subst u. cbn [nmeta ver nonce].
        rewrite nonce_get_set, Z.eqb_refl. lia.
      + intros u u' S S' _. apply sub_leaf in S, S'. congruence.
    - cbn [rebuild ncount] in *.
      pose proof (ncount_pos l) as Cl. pose proof (ncount_pos r) as Cr.
      destruct (IHl nn P) as (Al & Nl & Kl); [intros v; specialize (B v); lia|].
      destruct (rebuild H nn l) as [l' nn1]. cbn [fst snd] in *.
      assert (P1 : forall v, 0 <= nonce_get v nn1) by (intros v; specialize (Al v); specialize (P v); lia).
      destruct (IHr nn1 P1) as (Ar & Nr & Kr); [intros v; specialize (B v); specialize (Al v); lia|].
      destruct (rebuild H nn1 r) as [r' nn2]. cbn [fst snd] in *.
      pose proof (P (ver m)) as Pm. pose proof (B (ver m)) as Bm.
      pose proof (Al (ver m)) as Alm. pose proof (Ar (ver m)) as Arm.
      rewrite !u32_small by (rewrite ?u32_small; lia).
      set (root := Inner k h s (Meta (ver m) (nonce_get (ver m) nn2 + 1 + 1)
                     (H (inner_preimage h s (ver m) (hs (nmeta l')) (hs (nmeta r'))))) l' r').
      assert (G3 : forall v, nonce_get v (nonce_set (ver m) (nonce_get (ver m) nn2 + 1) nn2) =
                             if v =? ver m then nonce_get (ver m) nn2 + 1 else nonce_get v nn2).
      { intros v. apply nonce_get_set. }
      (* the nonce ranges of the three parts *)
      assert (Rl : forall u, subtree u l' ->
                 nonce_get (ver (nmeta u)) nn + 2 <= nonce (nmeta u) <= nonce_get (ver (nmeta u)) nn1 + 1)
        by exact Nl.
      assert (Rr : forall u, subtree u r' ->
                 nonce_get (ver (nmeta u)) nn1 + 2 <= nonce (nmeta u) <= nonce_get (ver (nmeta u)) nn2 + 1)
        by exact Nr.
      split; [|split].
      + intros v. rewrite G3. specialize (Al v). specialize (Ar v).
        destruct (v =? ver m) eqn:E; [apply Z.eqb_eq in E; subst v|]; lia.
      + intros u S. apply sub_inv in S. destruct S as [->|[S|S]].
        * cbn [root nmeta ver nonce]. rewrite G3, Z.eqb_refl. lia.
        * specialize (Rl u S). pose proof (Ar (ver (nmeta u))). rewrite G3.
          destruct (ver (nmeta u) =? ver m) eqn:E; [apply Z.eqb_eq in E; rewrite <- E|]; lia.
        * specialize (Rr u S). pose proof (Al (ver (nmeta u))). rewrite G3.
          destruct (ver (nmeta u) =? ver m) eqn:E; [apply Z.eqb_eq in E; rewrite <- E|]; lia.
      + assert (Root_l : forall u, subtree u l' -> node_key u <> node_key root).
        { intros u S E. unfold node_key in E. cbn [root nmeta ver nonce] in E. inversion E as [[Ev En]].
          pose proof (Rl u S) as X. pose proof (Ar (ver (nmeta u))) as Y. rewrite Ev in *. lia. }
        assert (Root_r : forall u, subtree u r' -> node_key u <> node_key root).
        { intros u S E. unfold node_key in E. cbn [root nmeta ver nonce] in E. inversion E as [[Ev En]].
          pose proof (Rr u S) as X. rewrite Ev in *. lia. }
        assert (L_r : forall u u', subtree u l' -> subtree u' r' -> node_key u <> node_key u').
        { intros u u' S S' E. unfold node_key in E. inversion E as [[Ev En]].
          pose proof (Rl u S) as X. pose proof (Rr u' S') as X'. rewrite Ev in *. lia. }
        intros u u' S S' E. apply sub_inv in S, S'.
        destruct S as [->|[S|S]]; destruct S' as [->|[S'|S']].
        * reflexivity.
        * exfalso. exact (Root_l _ S' (eq_sym E)).
        * exfalso. exact (Root_r _ S' (eq_sym E)).
        * exfalso. exact (Root_l _ S E).
        * exact (Kl u u' S S' E).
        * exfalso. exact (L_r _ _ S S' E).
        * exfalso. exact (Root_r _ S E).
        * exfalso. exact (L_r _ _ S' S (eq_sym E)).
        * exact (Kr u u' S S' E).
  Qed.
End Nonces.

(** ** 3. The imported tree as a one-version forest *)
Lemma versions_in_subtree v u t : subtree u t -> versions_in v t -> 1 <= ver (nmeta u) <= v.
Proof.
  induction 1 as [t|u k h s m l r _ IH|u k h s m l r _ IH]; intros V.
  - apply versions_in_pos, V.
  - cbn [versions_in] in V. apply IH. tauto.
  - cbn [versions_in] in V. apply IH. tauto.
Qed.

Lemma hashed_subtree H u t : subtree u t -> hashed H t -> hashed H u.
Proof.
  induction 1 as [t|u k h s m l r _ IH|u k h s m l r _ IH]; intros Hh; [exact Hh| |];
    cbn [hashed] in Hh; apply IH; tauto.
Qed.

Lemma hashed_fhash H u : hashed H u -> fhash H u = hs (nmeta u).
Proof. destruct u as [k v m|k h s m l r]; cbn [hashed fhash nmeta]; [intros ->|]; reflexivity. Qed.

Lemma imported_shape H t :
  shape_eq (imported H t) t /\ hashed H (imported H t) /\ nonce (nmeta (imported H t)) = 1.
Proof.
  destruct (rebuild_shape H [] t) as [S Hh]. unfold imported.
  destruct (fst (rebuild H [] t)) as [k v m|k h s m l r]; destruct t as [k1 v1 m1|k1 h1 s1 m1 l1 r1];
    cbn [shape_eq] in S; try contradiction;
    cbn [set_root_nonce shape_eq hashed nmeta ver hs nonce] in *.
  - split; [exact S|]. split; [exact Hh|reflexivity].
  - split; [exact S|]. split; [exact Hh|reflexivity].
Qed.

Section Imported.
  Variable H : bytes -> bytes.
  Variable t : node.
  Variable V : Z.
  Hypothesis W : wf t.
  Hypothesis Vin : versions_in V t.
  (** no wrap of the uint32 nonce counters: fewer than 2^32 - 2 nodes *)
  Hypothesis Cnt : ncount t + 1 < 2 ^ 32.

  Let t0 := fst (rebuild H [] t).
  Let t' := imported H t.

  Lemma imported_wf : wf t'.
  Proof. exact (shape_eq_wf _ _ (proj1 (imported_shape H t)) W). Qed.

  Lemma imported_versions : versions_in V t'.
  Proof. exact (shape_eq_versions V _ _ (proj1 (imported_shape H t)) Vin). Qed.

  (** a node of the imported tree is the root (nonce 1) or a node of the tree built by Add, with
      a nonce of 2 or more *)
  Lemma imported_sub u :
    subtree u t' -> u = t' \/ (subtree u t0 /\ 2 <= nonce (nmeta u)).
  Proof.
    intros S. destruct (rebuild_nonces H t []) as (_ & N & _).
    { intros v. cbn. lia. } { intros v. cbn [nonce_get]. lia. }
    fold t0 in N. unfold t', imported in *. fold t0 in S |- *.
    destruct t0 as [k v m|k h s m l r]; cbn [set_root_nonce] in *.
    - left. apply sub_leaf in S. exact S.
    - apply sub_inv in S. destruct S as [->|[S|S]]; [left; reflexivity| |]; right.
      + assert (S0 : subtree u (Inner k h s m l r)) by (apply sub_left, S).
        split; [exact S0|]. specialize (N u S0). cbn [nonce_get] in N. lia.
      + assert (S0 : subtree u (Inner k h s m l r)) by (apply sub_right, S).
        split; [exact S0|]. specialize (N u S0). cbn [nonce_get] in N. lia.
  Qed.

  Lemma imported_coherent u u' :
    subtree u t' -> subtree u' t' -> node_key u = node_key u' -> u = u'.
  Proof.
    intros S S' E. destruct (rebuild_nonces H t []) as (_ & _ & K).
    { intros v. cbn. lia. } { intros v. cbn [nonce_get]. lia. }
    fold t0 in K. destruct (imported_shape H t) as (_ & _ & N1). fold t' in N1.
    destruct (imported_sub u S) as [->|[S0 N]]; destruct (imported_sub u' S') as [->|[S0' N']].
    - reflexivity.
    - exfalso. unfold node_key in E. inversion E. lia.
    - exfalso. unfold node_key in E. inversion E. lia.
    - exact (K u u' S0 S0' E).
  Qed.

  Definition imp_forest : forest_t := [(V, Some t')].

  Lemma imp_sub_of u : sub_of imp_forest u <-> subtree u t'.
  Proof.
    unfold sub_of, imp_forest. split.
    - intros (v & x & [Q|[]] & S). injection Q as <- <-. exact S.
    - intros S. exists V, t'. split; [left; reflexivity|exact S].
  Qed.

  (** STATEMENT 1: the keys the importer assigns are unique and well-formed *)
  Theorem import_forest_inv :
    forest_inv imp_forest /\ NoDup (map fst imp_forest) /\
    (forall iv, iv <= V -> forest_ok imp_forest iv) /\
    (forall w x, In (w, Some x) imp_forest -> wf x) /\
    (forall w x, In (w, Some x) imp_forest -> hashed H x /\ versions_in V x) /\
    leaf_hashes H imp_forest.
  Proof.
    pose proof (versions_in_pos _ _ Vin) as PV.
    split; [|split; [|split; [|split; [|split]]]].
    - constructor.
      + intros u u' S S'. apply imp_sub_of in S, S'. exact (imported_coherent u u' S S').
      + intros v x u [Q|[]] S. injection Q as <- <-. exact (versions_in_subtree V u _ S imported_versions).
      + intros v r u [Q|[]] S E. injection Q as <- <-. apply imp_sub_of in S. f_equal.
        destruct (imported_sub u S) as [->|[_ N]]; [reflexivity|].
        unfold node_key in E. inversion E. lia.
      + intros v x u r0 [Q|[]] S L [Q'|[]]. injection Q as <- <-. injection Q' as E' _. lia.
      + intros v x u [Q|[]] S. injection Q as <- <-.
        destruct (imported_sub u S) as [->|[_ N]]; [|lia].
        destruct (imported_shape H t) as (_ & _ & N1). fold t' in N1. lia.
    - cbn. constructor; [intros []|constructor].
    - intros iv L. split; [reflexivity|]. cbn [imp_forest map fst]. constructor; [lia|constructor].
    - intros w x [Q|[]]. injection Q as <- <-. exact imported_wf.
    - intros w x [Q|[]]. injection Q as <- <-. split; [apply (imported_shape H t)|exact imported_versions].
    - intros u S. apply imp_sub_of in S. apply hashed_fhash.
      exact (hashed_subtree H u _ S (proj1 (proj2 (imported_shape H t)))).
  Qed.
End Imported.

(** ** 4. Opening the physical store of a forest (forest-level form of DbImageFacts.open_store_state:
    an imported database is not a state of the MutableTree machine) *)
Section OpenForest.
  Variable H : bytes -> bytes.
  Variable f : forest_t.
  Variable iv0 : Z.
  Hypothesis FI : forest_inv f.
  Hypothesis ND : NoDup (map fst f).
  Hypothesis OK : forest_ok f iv0.
  Hypothesis WF : forall w t, In (w, Some t) f -> wf t.
  Hypothesis LH : leaf_hashes H f.
  Hypothesis NE : f <> [].
  Hypothesis B : latest_of_forest f < 2 ^ 63.

  Lemma forest_readable r : rekey_ok r f -> readable H (phys_of r f) f = true.
  Proof.
    intros RK. apply disk_ok_readable; auto. exact (phys_disk_ok f iv0 r FI ND OK NE RK).
  Qed.

  Theorem open_store_forest r iv :
    rekey_ok r f -> stale_free_rel r f ->
    (0 <? first_of_forest f) && (first_of_forest f <? iv) = false ->
    open_store H iv (phys_of r f) = DbOk (map (fun p => (fst p, POk (snd p))) f).
  Proof.
    intros RK SF IC.
    destruct (discover_exact_rel r f iv0 NE FI OK B SF (rekey_ok_below r f RK)) as [DR _].
    unfold open_store. rewrite DR, IC.
    destruct (forest_ok_range f iv0 OK NE) as (R1 & _ & R).
    rewrite <- first_of_forest_eq, <- latest_of_forest_eq in R1, R.
    destruct (latest_of_forest f =? 0) eqn:C; [lia|].
    rewrite versions_from_to_zrange, <- R. f_equal.
    exact (readable_loads H _ _ (forest_readable r RK)).
  Qed.

  Theorem open_store_forest_any r iv :
    rekey_ok r f ->
    exists m lst,
      0 <= m <= first_of_forest f /\
      (m = 0 \/ has_version (phys_of r f) (m - 1) = false) /\
      open_store H iv (phys_of r f) =
        (if (0 <? m) && (m <? iv) then DbInitial m else DbOk lst) /\
      filter (fun p => first_of_forest f <=? fst p) lst = map (fun p => (fst p, POk (snd p))) f /\
      (forall p, In p lst -> m <= fst p <= latest_of_forest f).
  Proof.
    intros RK.
    destruct (discover_first_lower r f iv0 NE FI OK B (rekey_ok_below r f RK)) as (m & DF & Rm & _ & Bd).
    pose proof (discover_latest_expected r f iv0 FI OK NE) as DL.
    destruct (forest_ok_range f iv0 OK NE) as (R1 & _ & R).
    rewrite <- first_of_forest_eq, <- latest_of_forest_eq in R1, R.
    set (st := phys_of r f) in *.
    exists m, (loads H st (zrange m (latest_of_forest f))).
    split; [exact Rm|]. split; [exact Bd|]. split; [|split].
    - unfold open_store, discovered_range. rewrite DF, DL.
      destruct ((0 <? m) && (m <? iv)); [reflexivity|].
      destruct (latest_of_forest f =? 0) eqn:C; [lia|].
      rewrite versions_from_to_zrange. reflexivity.
    - rewrite filter_loads, filter_zrange_ge by lia. rewrite <- R.
      exact (readable_loads H _ _ (forest_readable r RK)).
    - intros p Ip. unfold loads in Ip. apply in_map_iff in Ip. destruct Ip as (v & <- & Iv).
      cbn [fst]. apply In_zrange in Iv. exact Iv.
  Qed.
End OpenForest.

Lemma rekey_ok_nil f : rekey_ok [] f.
Proof. split; [constructor|intros w []]. Qed.

(** ** 5. STATEMENT 2: the database an import writes reopens to the imported tree *)
Section ImportReopens.
  Variable H : bytes -> bytes.

  (** the compressed codec delivers the same tree *)
  Theorem cimp_run_export v t :
    wf t -> keys_all key_small t -> versions_in v t -> v < max_nonces_len ->
    exists cs, compress (export (Some t)) = IOk cs /\
               cimp_run H v (map Some cs) = IOk (Some (imported H t)).
  Proof.
    intros W K V B.
    assert (V64 : versions_int64 t)
      by (apply (versions_in_int64 v); [exact V|unfold max_nonces_len in B; lia]).
    destruct (compress_roundtrip t W K V64) as (cs & C & D & _).
    exists cs. split; [exact C|].
    pose proof (imp_run_export H v t W V B) as E. unfold imp_run in E. unfold cimp_run.
    destruct (imp_new 0 true v) as [st| |]; cbn [ibind] in E |- *; try discriminate.
    rewrite (cimp_adds_decompress H cs cimp_init st _ D). exact E.
  Qed.

  Section OneTree.
    Variable t : node.
    Variable V : Z.
    Hypothesis W : wf t.
    Hypothesis Vin : versions_in V t.
    Hypothesis BV : V < max_nonces_len.
    Hypothesis Cnt : ncount t + 1 < 2 ^ 32.

    Let t' := imported H t.
    Let f : forest_t := [(V, Some t')].
    Let st := expected_store f.

    (** what the imported tree has in common with the exported one *)
    Theorem imported_same :
      imp_run H V (map Some (export (Some t))) = IOk (Some t') /\
      shape_eq t' t /\ hashed H t' /\ nonce (nmeta t') = 1 /\ wf t' /\ (avl t -> avl t') /\
      elems t' = elems t /\
      (forall wv, root_hash H wv (Some t') = pure_hash H wv t) /\
      (hashed H t -> hs (nmeta t') = hs (nmeta t)).
    Proof.
      unfold t'. destruct (imported_shape H t) as (S & Hh & N1).
      pose proof (shape_eq_versions V _ _ S Vin) as V'.
      split; [exact (imp_run_export H V t W Vin BV)|]. split; [exact S|]. split; [exact Hh|].
      split; [exact N1|]. split; [exact (shape_eq_wf _ _ S W)|].
      split; [intros A; exact (shape_eq_avl _ _ S A)|]. split; [apply shape_eq_basic, S|]. split.
      - intros wv. cbn [root_hash]. rewrite (hashed_node_hash H V wv _ Hh V').
        apply shape_eq_pure_hash, S.
      - intros Ht. rewrite (hashed_pure H V 0 _ Hh V'), (hashed_pure H V 0 _ Ht Vin).
        apply shape_eq_pure_hash, S.
    Qed.

    Lemma imp_forest_facts :
      forest_inv f /\ NoDup (map fst f) /\ forest_ok f 0 /\
      (forall w x, In (w, Some x) f -> wf x) /\ leaf_hashes H f /\ f <> [] /\
      latest_of_forest f < 2 ^ 63 /\ first_of_forest f = V /\ latest_of_forest f = V.
    Proof.
      destruct (import_forest_inv H t V W Vin Cnt) as (FI & ND & OK & WF & _ & LH).
      pose proof (versions_in_pos _ _ Vin) as PV.
      split; [exact FI|]. split; [exact ND|]. split; [apply OK; lia|]. split; [exact WF|].
      split; [exact LH|]. split; [discriminate|]. split; [|split; reflexivity].
      cbn. unfold max_nonces_len in BV. lia.
    Qed.

    (** version V loads back as exactly the tree the importer returned *)
    Theorem import_loads_back : load_version H (S (length st)) st V = POk (Some t').
    Proof.
      destruct imp_forest_facts as (FI & ND & OK & WF & LH & NE & B & _).
      pose proof (forest_readable H f 0 FI ND OK WF LH NE [] (rekey_ok_nil f)) as R.
      rewrite phys_of_nil_r in R. apply readable_loads in R.
      unfold loads in R. cbn [f map fst snd] in R. injection R as R. exact R.
    Qed.

    (** a new tree object on the bytes of the imported database: version V is found and loads
        back exactly; when the root was written at version V nothing else is found *)
    Theorem import_reopens iv fi l :
      image_ok st fi l = true ->
      (exists m lst,
         0 <= m <= V /\
         (m = 0 \/ has_version st (m - 1) = false) /\
         open_image H iv (encode_image st fi l) =
           (if (0 <? m) && (m <? iv) then DbInitial m else DbOk lst) /\
         filter (fun p => V <=? fst p) lst = [(V, POk (Some t'))] /\
         (forall p, In p lst -> m <= fst p <= V)) /\
      (ver (nmeta t) = V -> iv <= V ->
         open_image H iv (encode_image st fi l) = DbOk [(V, POk (Some t'))] /\
         open_forest H iv (encode_image st fi l) = DbOk [(V, Some t')] /\
         discovered_range st = Some (V, V) /\ discovered_available st = Some [V]).
    Proof.
      intros IOK. destruct imp_forest_facts as (FI & ND & OK & WF & LH & NE & B & EF & EL).
      rewrite (open_image_encode H iv st fi l IOK).
      assert (Est : st = phys_of [] f) by (symmetry; apply phys_of_nil_r).
      split.
      - destruct (open_store_forest_any H f 0 FI ND OK WF LH NE B [] iv (rekey_ok_nil f))
          as (m & lst & Rm & Bd & E & Fl & Rg).
        rewrite EF in Rm, Fl. rewrite EL in Rg. rewrite <- Est in Bd, E.
        exists m, lst. auto.
      - intros EV L.
        assert (SF : stale_free_rel [] f).
        { intros v x u [Q|[]] S N. injection Q as <- <-. left. rewrite EF.
          destruct (imported_sub H t Cnt u S) as [->|[_ N2]]; [|lia].
          destruct (imported_shape H t) as (Sh & _).
          destruct (shape_eq_basic _ _ Sh) as (_ & _ & _ & Ev2 & _). lia. }
        assert (IC : (0 <? first_of_forest f) && (first_of_forest f <? iv) = false) by (rewrite EF; lia).
        pose proof (open_store_forest H f 0 FI ND OK WF LH NE B [] iv (rekey_ok_nil f) SF IC) as E.
        rewrite <- Est in E. cbn [f map fst snd] in E.
        destruct (discover_exact_rel [] f 0 NE FI OK B SF (rekey_ok_below [] f (rekey_ok_nil f))) as [DR DA].
        rewrite <- Est, EF, EL in DR. rewrite <- Est in DA.
        split; [exact E|]. split; [|split; [exact DR|exact DA]].
        unfold open_forest. rewrite (open_image_encode H iv st fi l IOK), E. reflexivity.
    Qed.
  End OneTree.

  (** STATEMENT 4: the empty tree *)
  Theorem import_empty_reopens V iv fi l :
    1 <= V < max_nonces_len -> iv <= V -> fast_okb fi = true -> label_okb l = true ->
    imp_run H V [] = IOk None /\
    expected_store [(V, None)] = [((V, 1), EEmpty)] /\
    open_forest H iv (encode_image [((V, 1), EEmpty)] fi l) = DbOk [(V, None)].
  Proof.
    intros BV L Of Ol. split; [apply import_empty; lia|]. split; [reflexivity|].
    assert (IOK : image_ok [((V, 1), EEmpty)] fi l = true).
    { unfold image_ok. rewrite Of, Ol. cbn [store_okb forallb fst snd skey_okb entry_okb].
      unfold skey_okb, uint32b, max_nonces_len in *. cbn [fst snd]. lia. }
    unfold open_forest. rewrite (open_image_encode H iv _ fi l IOK).
    set (f := [(V, @None node)] : forest_t).
    assert (FI : forest_inv f).
    { constructor.
      - intros u u' (v & x & [Q|[]] & _). discriminate Q.
      - intros v x u [Q|[]]. discriminate Q.
      - intros v r u _ (w & x & [Q|[]] & _). discriminate Q.
      - intros v x u r0 [Q|[]]. discriminate Q.
      - intros v x u [Q|[]]. discriminate Q. }
    assert (SF : stale_free_rel [] f) by (intros v x u [Q|[]]; discriminate Q).
    assert (E : open_store H iv (phys_of [] f) = DbOk (map (fun p => (fst p, POk (snd p))) f)).
    { apply (open_store_forest H f 0); auto.
      - cbn. constructor; [intros []|constructor].
      - split; [reflexivity|]. cbn [f map fst]. constructor; [lia|constructor].
      - intros w x [Q|[]]. discriminate Q.
      - intros u (w & x & [Q|[]] & _). discriminate Q.
      - discriminate.
      - cbn. unfold max_nonces_len in BV. lia.
      - apply rekey_ok_nil.
      - cbn [f first_of_forest fst]. lia. }
    change (phys_of [] f) with [((V, 1), EEmpty)] in E. rewrite E. reflexivity.
  Qed.
End ImportReopens.

(** ** 6. The exported tree is a retained version of a reachable state *)
Lemma versions_in_of_subtrees v t :
  (forall u, subtree u t -> 1 <= ver (nmeta u) <= v) -> versions_in v t.
Proof.
  induction t as [k w m|k h s m l IHl r IHr]; intros A; cbn [versions_in].
  - exact (A _ (sub_refl _)).
  - split; [exact (A _ (sub_refl _))|]. split.
    + apply IHl. intros u S. apply A, sub_left, S.
    + apply IHr. intros u S. apply A, sub_right, S.
Qed.

Section FromState.
  Variable H : bytes -> bytes.

  Lemma state_tree_importable s V t :
    store_ok H s -> In (V, Some t) (forest s) -> wf t /\ versions_in V t.
  Proof.
    intros SO I. destruct (store_ok_forest H s SO) as (FI & _ & _ & WF & _).
    split; [exact (WF V t I)|]. apply versions_in_of_subtrees. intros u S.
    exact (fi_ver _ FI V t u I S).
  Qed.

  (** export version [V] of a reachable state, import it at [V] into an empty database, open a
      new tree object on the bytes of that database *)
  Theorem import_reopens_reachable iv0 b ops V t iv fi l :
    init_ok iv0 b -> run_ok H (init_state iv0 b) ops ->
    let s := fst (run H (init_state iv0 b) ops) in
    In (V, Some t) (forest s) -> V < max_nonces_len -> ncount t + 1 < 2 ^ 32 ->
    let t' := imported H t in
    let st := expected_store [(V, Some t')] in
    image_ok st fi l = true ->
    imp_run H V (map Some (export (Some t))) = IOk (Some t') /\
    shape_eq t' t /\ elems t' = elems t /\
    (forall wv, root_hash H wv (Some t') = pure_hash H wv t) /\
    load_version H (S (length st)) st V = POk (Some t') /\
    (exists m lst,
       0 <= m <= V /\
       open_image H iv (encode_image st fi l) =
         (if (0 <? m) && (m <? iv) then DbInitial m else DbOk lst) /\
       filter (fun p => V <=? fst p) lst = [(V, POk (Some t'))]) /\
    (ver (nmeta t) = V -> iv <= V ->
       open_forest H iv (encode_image st fi l) = DbOk [(V, Some t')] /\
       discovered_available st = Some [V]).
  Proof.
    intros IO R s I BV Cnt t' st IOK.
    assert (SO : store_ok H s) by (apply store_ok_reachable; assumption).
    destruct (state_tree_importable s V t SO I) as [W Vin].
    destruct (imported_same H t V W Vin BV) as (E & Sh & _ & _ & _ & _ & El & Rh & _).
    destruct (import_reopens H t V W Vin BV Cnt iv fi l IOK) as [(m & lst & Rm & _ & Eo & Fl & _) X].
    split; [exact E|]. split; [exact Sh|]. split; [exact El|]. split; [exact Rh|].
    split; [exact (import_loads_back H t V W Vin BV Cnt)|].
    split; [exists m, lst; auto|].
    intros EV L. destruct (X EV L) as (_ & A & _ & B). auto.
  Qed.
End FromState.

(** ** 7. STATEMENT 3: an inherited root makes a new tree object report versions that were never
    imported.

    Versions 1 and 2 write; versions 3, 4, 5 are commits without writes (their root entries
    refer to the root node (2,1)).  Version 5 is exported and imported at 5 into an empty
    database.  The root of the imported tree keeps version 2, so it is stored under (2,1), which
    is also what a root key of version 2 looks like: the binary search of getFirstVersion stops
    there, and versions 2, 3, 4, 5 are reported as available although only 5 was imported.
    Version 2 even "loads" (the imported tree itself); 3 and 4 do not exist; 5 loads back exactly. *)
Definition ir_a : bytes := [97%N].
Definition ir_b : bytes := [98%N].
Definition ir_hist : list op := [OSet ir_a ir_a; OSave; OSet ir_b ir_b; OSave; OSave; OSave; OSave].

Theorem import_inherited_root_discovers_more_refuted :
  exists (ops : list op) (V : Z) (t : node),
    let s := fst (run sha256 (init_state 0 false) ops) in
    let t' := imported sha256 t in
    let st := expected_store [(V, Some t')] in
    run_ok sha256 (init_state 0 false) ops /\
    available s = [1; 2; 3; 4; 5] /\ In (V, Some t) (forest s) /\ V = 5 /\
    imp_run sha256 V (map Some (export (Some t))) = IOk (Some t') /\
    node_key t' = (2, 1) /\
    map fst st = [(1, 2); (2, 1); (2, 2); (5, 1)] /\ mfind kcmp (5, 1) st = Some (ERef (2, 1)) /\
    image_ok st [] None = true /\
    (* only version 5 was imported, four versions are reported *)
    discovered_available st = Some [2; 3; 4; 5] /\
    open_image sha256 0 (encode_image st [] None) =
      DbOk [(2, POk (Some t')); (3, PNoVersion); (4, PNoVersion); (5, POk (Some t'))] /\
    open_forest sha256 0 (encode_image st [] None) = DbLoadFailed 3 /\
    (* version 5 still loads back exactly *)
    load_version sha256 (S (length st)) st V = POk (Some t') /\
    root_hash sha256 6 (Some t') = root_hash sha256 6 (Some t).
Proof.
  exists ir_hist, 5.
  eexists. cbv zeta.
  split; [apply run_okb_iff; vm_compute; reflexivity|].
  split; [vm_compute; reflexivity|].
  split; [vm_compute; right; right; right; right; left; reflexivity|].
  vm_compute. repeat split; reflexivity.
Qed.

(** ** 8. Examples (SHA-256), both codecs

    {a,b} saved as version 1, c added and saved as version 2 (root written at version 2), a
    removed and saved as version 3 (the root of version 3 is the old inner node (2,2)). *)
Definition ip_a : bytes := [97%N].
Definition ip_b : bytes := [98%N].
Definition ip_c : bytes := [99%N].
Definition ip_hist : list op :=
  [OSet ip_a ip_a; OSet ip_b ip_b; OSave; OSet ip_c ip_c; OSave; ORemove ip_a; OSave].
Definition ip_s : mstate := fst (run sha256 (init_state 0 false) ip_hist).
Definition ip_tree (v : Z) : node :=
  match lookup v (forest ip_s) with Some (Some t) => t | _ => Leaf [] [] new_meta end.
Definition ip_fast (v : Z) (t : node) : list (bytes * (Z * bytes)) :=
  map (fun p => (fst p, (v, snd p))) (elems t).

(** version 2 exported and imported at 2, plain and compressed stream: the same tree, keys
    assigned by the importer (nonces per version from 2, the root 1); its database image reopens
    to exactly that tree, and only version 2 is found *)
Example ip_exact :
  let t := ip_tree 2 in
  let t' := imported sha256 t in
  let st := expected_store [(2, Some t')] in
  let img := encode_image st (ip_fast 2 t') (Some 2) in
  map fst (nodes_of t) = [(2, 1); (1, 2); (2, 2); (1, 3); (2, 3)] /\
  map fst (nodes_of t') = [(2, 1); (1, 2); (2, 3); (1, 3); (2, 2)] /\
  imp_run sha256 2 (map Some (export (Some t))) = IOk (Some t') /\
  (exists cs, compress (export (Some t)) = IOk cs /\
              map e_key cs <> map e_key (export (Some t)) /\
              cimp_run sha256 2 (map Some cs) = IOk (Some t')) /\
  hs (nmeta t') = hs (nmeta t) /\ elems t' = elems t /\
  image_ok st (ip_fast 2 t') (Some 2) = true /\
  map fst st = [(1, 2); (1, 3); (2, 1); (2, 2); (2, 3)] /\
  decode_image img = Some (st, ip_fast 2 t', Some 2) /\
  discovered_available st = Some [2] /\
  open_image sha256 0 img = DbOk [(2, POk (Some t'))] /\
  open_forest sha256 0 img = DbOk [(2, Some t')].
Proof.
  cbv zeta. split; [vm_compute; reflexivity|]. split; [vm_compute; reflexivity|].
  split; [vm_compute; reflexivity|].
  split; [eexists; split; [vm_compute; reflexivity|split; [vm_compute; discriminate|vm_compute; reflexivity]]|].
  vm_compute. repeat split; reflexivity.
Qed.

(** the same conclusion from the theorem: its hypotheses hold here *)
Example ip_exact_thm :
  let t' := imported sha256 (ip_tree 2) in
  open_forest sha256 0 (encode_image (expected_store [(2, Some t')]) (ip_fast 2 t') (Some 2))
    = DbOk [(2, Some t')].
Proof.
  cbv zeta.
  destruct (import_reopens_reachable sha256 0 false ip_hist 2 (ip_tree 2) 0
              (ip_fast 2 (imported sha256 (ip_tree 2))) (Some 2)) as (_ & _ & _ & _ & _ & _ & X).
  - unfold init_ok. lia.
  - apply run_okb_iff. vm_compute. reflexivity.
  - vm_compute. right. left. reflexivity.
  - vm_compute. reflexivity.
  - vm_compute. reflexivity.
  - vm_compute. reflexivity.
  - apply X; [vm_compute; reflexivity|lia].
Qed.

(** version 3 (root inherited from version 2) imported at 3, both codecs: version 3 loads back
    exactly; the new object also reports version 2 *)
Example ip_inherited :
  let t := ip_tree 3 in
  let t' := imported sha256 t in
  let st := expected_store [(3, Some t')] in
  let img := encode_image st (ip_fast 3 t') (Some 3) in
  node_key t = (2, 2) /\ node_key t' = (2, 1) /\
  imp_run sha256 3 (map Some (export (Some t))) = IOk (Some t') /\
  (exists cs, compress (export (Some t)) = IOk cs /\ cimp_run sha256 3 (map Some cs) = IOk (Some t')) /\
  hs (nmeta t') = hs (nmeta t) /\
  map fst st = [(1, 2); (2, 1); (2, 2); (3, 1)] /\ mfind kcmp (3, 1) st = Some (ERef (2, 1)) /\
  image_ok st (ip_fast 3 t') (Some 3) = true /\
  load_version sha256 (S (length st)) st 3 = POk (Some t') /\
  open_image sha256 0 img = DbOk [(2, POk (Some t')); (3, POk (Some t'))] /\
  discovered_available st = Some [2; 3].
Proof.
  cbv zeta. split; [vm_compute; reflexivity|]. split; [vm_compute; reflexivity|].
  split; [vm_compute; reflexivity|].
  split; [eexists; split; [vm_compute; reflexivity|vm_compute; reflexivity]|].
  vm_compute. repeat split; reflexivity.
Qed.

(** the empty tree *)
Example ip_empty :
  imp_run sha256 7 [] = IOk None /\
  open_forest sha256 0 (encode_image (expected_store [(7, None)]) [] None) = DbOk [(7, None)].
Proof. vm_compute. split; reflexivity. Qed.

Print Assumptions imp_run_export.
Print Assumptions cimp_run_export.
Print Assumptions rebuild_nonces.
Print Assumptions import_forest_inv.
Print Assumptions imported_same.
Print Assumptions import_loads_back.
Print Assumptions import_reopens.
Print Assumptions import_reopens_reachable.
Print Assumptions import_empty_reopens.
Print Assumptions import_inherited_root_discovers_more_refuted.
