(** Proofs about the node store model (Store.v): property C12.

    Plan.  A sorted association list is determined by its lookup function ([msorted_ext]), so
    every "the store is exactly ..." statement is proved through [mfind].  [expected_store f] is
    characterised by membership in [reach f] ([expected_find]), which is a functional relation
    on forests satisfying [forest_inv] (same node key => same node; a node with key (v,1) of a
    retained version v is the root of v; node versions are bounded by the version of the tree
    they occur in; a node older than its tree occurs in the previous retained tree).
    [forest_inv] holds in every state reachable within the usage contract ([store_ok_step]). *)
From Coq Require Import Lia.
From IAVL Require Import Bytes Varint Tree VMap TreeFacts MTree MTreeFacts HashFacts VersionFacts Store.
Local Open Scope Z_scope.

(** ** Sorted association lists *)
Record cmp_ok {K : Type} (cmp : K -> K -> comparison) : Prop := CmpOk {
  c_eq : forall a b, cmp a b = Eq -> a = b;
  c_refl : forall a, cmp a a = Eq;
  c_antisym : forall a b, cmp b a = CompOpp (cmp a b);
  c_trans : forall a b c, cmp a b = Lt -> cmp b c = Lt -> cmp a c = Lt
}.

Section SMapFacts.
  Context {K V : Type}.
  Variable cmp : K -> K -> comparison.
  Hypothesis OK : cmp_ok cmp.

  Fixpoint msorted (l : list (K * V)) : Prop :=
    match l with
    | [] => True
    | (k, _) :: r => Forall (fun p => cmp k (fst p) = Lt) r /\ msorted r
    end.

  Lemma cmp_gt_lt a b : cmp a b = Gt -> cmp b a = Lt.
  Proof. intros E. rewrite (c_antisym cmp OK a b), E. reflexivity. Qed.

  Lemma cmp_lt_gt a b : cmp a b = Lt -> cmp b a = Gt.
  Proof. intros E. rewrite (c_antisym cmp OK a b), E. reflexivity. Qed.

  Lemma cmp_eq_sym a b : cmp a b = Eq -> cmp b a = Eq.
  Proof. intros E. rewrite (c_antisym cmp OK a b), E. reflexivity. Qed.

  Lemma mfind_mset k k' v (l : list (K * V)) :
    mfind cmp k (mset cmp k' v l) = match cmp k k' with Eq => Some v | _ => mfind cmp k l end.
  Proof.
    induction l as [|[k1 v1] r IH]; cbn [mset mfind]; [reflexivity|].
    destruct (cmp k' k1) eqn:E1; cbn [mfind].
    - apply (c_eq cmp OK) in E1. subst k1. destruct (cmp k k'); reflexivity.
    - reflexivity.
    - rewrite IH. destruct (cmp k k1) eqn:E2; try reflexivity.
      destruct (cmp k k') eqn:E3; try reflexivity.
      apply (c_eq cmp OK) in E2, E3. subst. rewrite (c_refl cmp OK) in E1. discriminate.
  Qed.

  Lemma mfind_lt_all k (l : list (K * V)) :
    Forall (fun p => cmp k (fst p) = Lt) l -> mfind cmp k l = None.
  Proof.
    induction l as [|[k1 v1] r IH]; intros F; cbn [mfind]; [reflexivity|].
    inversion F as [|x xs F1 F2]; subst. cbn [fst] in F1. rewrite F1. auto.
  Qed.

  Lemma Forall_lt_trans a b (l : list (K * V)) :
    cmp a b = Lt -> Forall (fun p => cmp b (fst p) = Lt) l -> Forall (fun p => cmp a (fst p) = Lt) l.
  Proof.
    intros E F. rewrite Forall_forall in *. intros p I. exact (c_trans cmp OK _ _ _ E (F p I)).
  Qed.

  Lemma mfind_mdel k k' (l : list (K * V)) :
    msorted l ->
    mfind cmp k (mdel cmp k' l) = match cmp k k' with Eq => None | _ => mfind cmp k l end.
  Proof.
    induction l as [|[k1 v1] r IH]; cbn [mdel mfind msorted]; intros S.
    - destruct (cmp k k'); reflexivity.
    - destruct S as [F S]. destruct (cmp k' k1) eqn:E1; cbn [mfind].
      + apply (c_eq cmp OK) in E1. subst k1.
        destruct (cmp k k') eqn:E2; try reflexivity.
        apply (c_eq cmp OK) in E2. subst k. apply mfind_lt_all, F.
      + destruct (cmp k k') eqn:E2; try reflexivity.
        apply (c_eq cmp OK) in E2. subst k. rewrite E1. apply mfind_lt_all.
        exact (Forall_lt_trans _ _ _ E1 F).
      + rewrite (IH S). destruct (cmp k k') eqn:E2; try reflexivity.
        apply (c_eq cmp OK) in E2. subst k. rewrite E1. reflexivity.
  Qed.

  Lemma Forall_mset (P : K * V -> Prop) k v l : P (k, v) -> Forall P l -> Forall P (mset cmp k v l).
  Proof.
    intros Pk. induction l as [|[k1 v1] r IH]; cbn [mset]; intros F.
    - constructor; auto.
    - inversion F; subst. destruct (cmp k k1); repeat constructor; auto.
  Qed.

  Lemma Forall_mdel (P : K * V -> Prop) k l : Forall P l -> Forall P (mdel cmp k l).
  Proof.
    induction l as [|[k1 v1] r IH]; cbn [mdel]; intros F; [constructor|].
    inversion F; subst. destruct (cmp k k1); auto.
  Qed.

  Lemma msorted_mset k v l : msorted l -> msorted (mset cmp k v l).
  Proof.
    induction l as [|[k1 v1] r IH]; cbn [mset msorted]; intros S.
    - split; [constructor|exact I].
    - destruct S as [F S]. destruct (cmp k k1) eqn:E; cbn [msorted].
      + apply (c_eq cmp OK) in E. subst k1. auto.
      + split; [|auto]. constructor; [exact E|]. exact (Forall_lt_trans _ _ _ E F).
      + split; [|auto]. apply Forall_mset; [|exact F]. cbn [fst]. apply cmp_gt_lt, E.
  Qed.

  Lemma msorted_mdel k l : msorted l -> msorted (mdel cmp k l).
  Proof.
    induction l as [|[k1 v1] r IH]; cbn [mdel msorted]; intros S; [exact I|].
    destruct S as [F S]. destruct (cmp k k1) eqn:E; cbn [msorted]; auto.
    split; [apply Forall_mdel, F|auto].
  Qed.

  Lemma mfind_In k v (l : list (K * V)) : msorted l -> In (k, v) l -> mfind cmp k l = Some v.
  Proof.
    induction l as [|[k1 v1] r IH]; cbn [msorted mfind In]; intros S HI; [contradiction|].
    destruct S as [F S]. destruct HI as [E|HI].
    - inversion E; subst. rewrite (c_refl cmp OK). reflexivity.
    - rewrite Forall_forall in F. specialize (F _ HI). cbn [fst] in F.
      rewrite (cmp_lt_gt _ _ F). auto.
  Qed.

  Lemma In_mfind k v (l : list (K * V)) : mfind cmp k l = Some v -> In (k, v) l.
  Proof.
    induction l as [|[k1 v1] r IH]; cbn [mfind In]; [discriminate|].
    destruct (cmp k k1) eqn:E; auto.
    intros Hv. inversion Hv; subst. apply (c_eq cmp OK) in E. subst. auto.
  Qed.

  Lemma mfind_None_notin k (l : list (K * V)) : mfind cmp k l = None -> ~ In k (map fst l).
  Proof.
    induction l as [|[k1 v1] r IH]; cbn [mfind map In fst]; [tauto|].
    destruct (cmp k k1) eqn:E; [discriminate| |]; intros N [C|C]; try (exact (IH N C));
      subst; rewrite (c_refl cmp OK) in E; discriminate.
  Qed.

  Lemma notin_mfind_None k (l : list (K * V)) : ~ In k (map fst l) -> mfind cmp k l = None.
  Proof.
    intros N. destruct (mfind cmp k l) as [v|] eqn:E; [|reflexivity].
    exfalso. apply N. apply In_mfind in E. apply in_map_iff. exists (k, v). auto.
  Qed.

  Lemma msorted_NoDup (l : list (K * V)) : msorted l -> NoDup (map fst l).
  Proof.
    induction l as [|[k1 v1] r IH]; cbn [msorted map fst]; intros S; [constructor|].
    destruct S as [F S]. constructor; [|auto].
    intros C. apply in_map_iff in C. destruct C as (p & E & HI).
    rewrite Forall_forall in F. specialize (F _ HI). rewrite E, (c_refl cmp OK) in F. discriminate.
  Qed.

  (** a sorted list is determined by its lookup function *)
  Lemma msorted_ext (l1 : list (K * V)) : forall l2,
    msorted l1 -> msorted l2 -> (forall k, mfind cmp k l1 = mfind cmp k l2) -> l1 = l2.
  Proof.
    induction l1 as [|[k1 v1] r1 IH]; intros [|[k2 v2] r2] S1 S2 E.
    - reflexivity.
    - specialize (E k2). cbn [mfind] in E. rewrite (c_refl cmp OK) in E. discriminate.
    - specialize (E k1). cbn [mfind] in E. rewrite (c_refl cmp OK) in E. discriminate.
    - cbn [msorted] in S1, S2. destruct S1 as [F1 S1], S2 as [F2 S2].
      assert (Ek : k1 = k2).
      { pose proof (E k1) as A. pose proof (E k2) as B. cbn [mfind] in A, B.
        rewrite (c_refl cmp OK) in A, B.
        destruct (cmp k1 k2) eqn:C; [apply (c_eq cmp OK), C| |].
        - (* k1 < k2: k1 is below everything of l2 *)
          rewrite (mfind_lt_all k1 r2 (Forall_lt_trans _ _ _ C F2)) in A. discriminate.
        - apply cmp_gt_lt in C.
          rewrite C, (mfind_lt_all k2 r1 (Forall_lt_trans _ _ _ C F1)) in B. discriminate. }
      subst k2.
      assert (Ev : v1 = v2).
      { specialize (E k1). cbn [mfind] in E. rewrite (c_refl cmp OK) in E. congruence. }
      subst v2. f_equal. apply IH; auto.
      intros k. specialize (E k). cbn [mfind] in E.
      destruct (cmp k k1) eqn:C; auto.
      apply (c_eq cmp OK) in C. subst k.
      rewrite (mfind_lt_all k1 r1 F1), (mfind_lt_all k1 r2 F2). reflexivity.
  Qed.

  (** *** folding writes *)
  Definition mset_all (ps : list (K * V)) (st : list (K * V)) : list (K * V) :=
    fold_left (fun st p => mset cmp (fst p) (snd p) st) ps st.
  Definition mdel_all (ks : list K) (st : list (K * V)) : list (K * V) :=
    fold_left (fun st k => mdel cmp k st) ks st.

  (** the last binding of [k] in a list of writes *)
  Fixpoint lastb (k : K) (ps : list (K * V)) : option V :=
    match ps with
    | [] => None
    | p :: r =>
        match lastb k r with
        | Some v => Some v
        | None => match cmp k (fst p) with Eq => Some (snd p) | _ => None end
        end
    end.

  Lemma mfind_mset_all k ps : forall st,
    mfind cmp k (mset_all ps st) =
      match lastb k ps with Some v => Some v | None => mfind cmp k st end.
  Proof.
    unfold mset_all. induction ps as [|p r IH]; intros st; cbn [fold_left lastb]; [reflexivity|].
    rewrite IH, mfind_mset. destruct (lastb k r); [reflexivity|].
    destruct (cmp k (fst p)); reflexivity.
  Qed.

  Lemma msorted_mset_all ps : forall st, msorted st -> msorted (mset_all ps st).
  Proof.
    unfold mset_all. induction ps as [|p r IH]; intros st S; cbn [fold_left]; auto.
    apply IH, msorted_mset, S.
  Qed.

  Lemma msorted_mdel_all ks : forall st, msorted st -> msorted (mdel_all ks st).
  Proof.
    unfold mdel_all. induction ks as [|p r IH]; intros st S; cbn [fold_left]; auto.
    apply IH, msorted_mdel, S.
  Qed.

  Lemma lastb_In k v ps : lastb k ps = Some v -> In (k, v) ps.
  Proof.
    induction ps as [|[k1 v1] r IH]; cbn [lastb In fst snd]; [discriminate|].
    destruct (lastb k r) as [w|].
    - intros E. right. apply IH. exact E.
    - destruct (cmp k k1) eqn:C; try discriminate.
      intros E. inversion E; subst. apply (c_eq cmp OK) in C. subst. auto.
  Qed.

  Lemma lastb_None k ps : lastb k ps = None -> ~ In k (map fst ps).
  Proof.
    induction ps as [|[k1 v1] r IH]; cbn [lastb In map fst snd]; [tauto|].
    destruct (lastb k r) as [w|]; [discriminate|].
    destruct (cmp k k1) eqn:C; [discriminate| |]; intros _ [E|E]; try (exact (IH eq_refl E));
      subst; rewrite (c_refl cmp OK) in C; discriminate.
  Qed.

  Lemma lastb_notin k ps : ~ In k (map fst ps) -> lastb k ps = None.
  Proof.
    intros N. destruct (lastb k ps) as [v|] eqn:E; [|reflexivity].
    exfalso. apply N. apply lastb_In in E. apply in_map_iff. exists (k, v). auto.
  Qed.

  Lemma lastb_functional k v ps :
    In (k, v) ps -> (forall v', In (k, v') ps -> v' = v) -> lastb k ps = Some v.
  Proof.
    intros HI F. destruct (lastb k ps) as [w|] eqn:E.
    - f_equal. apply F, lastb_In, E.
    - exfalso. apply (lastb_None _ _ E). apply in_map_iff. exists (k, v). auto.
  Qed.

  Definition ceqb (a b : K) : bool := match cmp a b with Eq => true | _ => false end.

  Lemma ceqb_true a b : ceqb a b = true <-> a = b.
  Proof.
    unfold ceqb. split.
    - destruct (cmp a b) eqn:E; try discriminate. intros _. apply (c_eq cmp OK), E.
    - intros ->. rewrite (c_refl cmp OK). reflexivity.
  Qed.

  Lemma existsb_ceqb k ks : existsb (ceqb k) ks = true <-> In k ks.
  Proof.
    rewrite existsb_exists. split.
    - intros (x & HI & E). apply ceqb_true in E. subst. exact HI.
    - intros HI. exists k. split; [exact HI|]. apply ceqb_true. reflexivity.
  Qed.

  Lemma mfind_mdel_all k ks : forall st, msorted st ->
    mfind cmp k (mdel_all ks st) = if existsb (ceqb k) ks then None else mfind cmp k st.
  Proof.
    unfold mdel_all. induction ks as [|k1 r IH]; intros st S; cbn [fold_left existsb]; [reflexivity|].
    rewrite (IH _ (msorted_mdel k1 st S)), (mfind_mdel _ _ _ S). unfold ceqb at 2.
    destruct (existsb (ceqb k) r); [rewrite Bool.orb_true_r; reflexivity|].
    rewrite Bool.orb_false_r. destruct (cmp k k1); reflexivity.
  Qed.

  Lemma mfind_mdel_all_in k ks st : msorted st -> In k ks -> mfind cmp k (mdel_all ks st) = None.
  Proof.
    intros S HI. rewrite (mfind_mdel_all _ _ _ S).
    apply existsb_ceqb in HI. rewrite HI. reflexivity.
  Qed.

  Lemma mfind_mdel_all_notin k ks st :
    msorted st -> ~ In k ks -> mfind cmp k (mdel_all ks st) = mfind cmp k st.
  Proof.
    intros S N. rewrite (mfind_mdel_all _ _ _ S).
    destruct (existsb (ceqb k) ks) eqn:E; [|reflexivity].
    apply existsb_ceqb in E. contradiction.
  Qed.
End SMapFacts.

Arguments msorted {K V} cmp l.
Arguments lastb {K V} cmp k ps.
Arguments mset_all {K V} cmp ps st.
Arguments mdel_all {K V} cmp ks st.

(** ** The two key orders *)
Definition klt (a b : nodekey) : Prop := fst a < fst b \/ (fst a = fst b /\ snd a < snd b).

Lemma kcmp_Lt a b : kcmp a b = Lt <-> klt a b.
Proof.
  destruct a as [a1 a2], b as [b1 b2]. unfold kcmp, klt. cbn [fst snd].
  destruct (Z.compare_spec a1 b1) as [E|E|E].
  - rewrite Z.compare_lt_iff. lia.
  - split; [left; exact E|reflexivity].
  - split; [discriminate|lia].
Qed.

Lemma kcmp_Eq a b : kcmp a b = Eq <-> a = b.
Proof.
  destruct a as [a1 a2], b as [b1 b2]. unfold kcmp. cbn [fst snd].
  destruct (Z.compare_spec a1 b1) as [E|E|E].
  - rewrite Z.compare_eq_iff. split; [intros ->; subst; reflexivity|intros Q; inversion Q; reflexivity].
  - split; [discriminate|intros Q; inversion Q; lia].
  - split; [discriminate|intros Q; inversion Q; lia].
Qed.

Lemma kcmp_ok : cmp_ok kcmp.
Proof.
  constructor.
  - intros a b. apply kcmp_Eq.
  - intros a. apply kcmp_Eq. reflexivity.
  - intros [a1 a2] [b1 b2]. unfold kcmp. cbn [fst snd].
    rewrite (Z.compare_antisym a1 b1), (Z.compare_antisym a2 b2).
    destruct (a1 ?= b1); reflexivity.
  - intros a b c. rewrite !kcmp_Lt. unfold klt. lia.
Qed.

Lemma bcmp_ok : cmp_ok bcmp.
Proof.
  constructor.
  - exact bcmp_eq.
  - exact bcmp_refl.
  - exact bcmp_antisym.
  - exact bcmp_lt_trans.
Qed.

Lemma keqb_true a b : keqb a b = true <-> a = b.
Proof.
  destruct a as [a1 a2], b as [b1 b2]. unfold keqb. cbn [fst snd].
  rewrite Bool.andb_true_iff, !Z.eqb_eq. split; [intros [-> ->]; reflexivity|intros Q; inversion Q; auto].
Qed.

Lemma keqb_false a b : keqb a b = false <-> a <> b.
Proof.
  rewrite <- keqb_true. destruct (keqb a b); split; congruence.
Qed.

#[export] Hint Resolve kcmp_ok bcmp_ok : core.

(** ** Subtrees *)
Lemma sub_inv u t :
  subtree u t ->
  u = t \/ match t with Leaf _ _ _ => False | Inner _ _ _ _ l r => subtree u l \/ subtree u r end.
Proof. intros S. inversion S; subst; auto. Qed.

Lemma sub_trans a b c : subtree a b -> subtree b c -> subtree a c.
Proof.
  intros S1 S2. induction S2 as [t|u k h s m l r _ IH|u k h s m l r _ IH]; [exact S1| |].
  - apply sub_left, IH, S1.
  - apply sub_right, IH, S1.
Qed.

Lemma sub_leaf u k v m : subtree u (Leaf k v m) -> u = Leaf k v m.
Proof. intros S. apply sub_inv in S. destruct S as [E|[]]. exact E. Qed.

(** every persisted subtree of [t] is a subtree of [base] *)
Definition from_old (t base : node) : Prop :=
  forall u, subtree u t -> ver (nmeta u) <> 0 -> subtree u base.

Lemma from_old_subtree t b : subtree t b -> from_old t b.
Proof. intros S u Su _. exact (sub_trans _ _ _ Su S). Qed.

Lemma from_old_refl t : from_old t t.
Proof. apply from_old_subtree, sub_refl. Qed.

Lemma from_old_trans a b c : from_old a b -> from_old b c -> from_old a c.
Proof. intros F1 F2 u Su P. exact (F2 u (F1 u Su P) P). Qed.

Lemma from_old_leaf k v b : from_old (Leaf k v new_meta) b.
Proof. intros u Su P. apply sub_leaf in Su. subst u. cbn in P. congruence. Qed.

Lemma from_old_inner k h s l r b :
  from_old l b -> from_old r b -> from_old (Inner k h s new_meta l r) b.
Proof.
  intros Fl Fr u Su P. apply sub_inv in Su. destruct Su as [E|[Su|Su]].
  - subst u. cbn in P. congruence.
  - exact (Fl u Su P).
  - exact (Fr u Su P).
Qed.

Lemma from_old_mk k l r b : from_old l b -> from_old r b -> from_old (mk k l r) b.
Proof. unfold mk. apply from_old_inner. Qed.

Ltac sub_tac := auto 7 using sub_refl, sub_left, sub_right.
Ltac old_nodes :=
  repeat first [ assumption | apply from_old_leaf | apply from_old_inner
               | (apply from_old_subtree; solve [sub_tac]) ].

Lemma rotR_from_old t : from_old (rotR t) t.
Proof.
  destruct t as [k v m|k h s m l r]; [apply from_old_refl|].
  destruct l as [lk lv lm|lk lh ls lm ll lr]; [apply from_old_refl|].
  unfold rotR, mk. old_nodes.
Qed.

Lemma rotL_from_old t : from_old (rotL t) t.
Proof.
  destruct t as [k v m|k h s m l r]; [apply from_old_refl|].
  destruct r as [rk rv rm|rk rh rs rm rl rr]; [apply from_old_refl|].
  unfold rotL, mk. old_nodes.
Qed.

Lemma balance_from_old t : from_old (balance t) t.
Proof.
  destruct t as [k v m|k h s m l r]; [apply from_old_refl|].
  unfold balance.
  destruct (1 <? height l - height r) eqn:E1.
  - destruct (0 <=? bal_of l) eqn:E2; [apply rotR_from_old|].
    destruct l as [lk lv lm|lk lh ls lm ll lr]; [apply from_old_refl|].
    destruct lr as [ak av am|ak ah asz am al ar].
    + unfold rotL, rotR, mk. old_nodes.
    + unfold rotL, rotR, mk. old_nodes.
  - destruct (height l - height r <? -1) eqn:E3; [|apply from_old_refl].
    destruct (bal_of r <=? 0) eqn:E2; [apply rotL_from_old|].
    destruct r as [rk rv rm|rk rh rs rm rl rr]; [apply from_old_refl|].
    destruct rl as [ak av am|ak ah asz am al ar].
    + unfold rotR, rotL, mk. old_nodes.
    + unfold rotR, rotL, mk. old_nodes.
Qed.

(** Set and Remove build new nodes over untouched persisted subtrees *)
Theorem set_from_old t k v : from_old (fst (set t k v)) t.
Proof.
  induction t as [lk lv m|nk h s m l IHl r IHr]; cbn [set].
  - destruct (bcmp k lk); cbn [fst]; old_nodes.
  - destruct (blt k nk).
    + destruct (set l k v) as [l' upd]. cbn [fst] in IHl.
      assert (Fl : from_old l' (Inner nk h s m l r)).
      { eapply from_old_trans; [exact IHl|]. apply from_old_subtree. sub_tac. }
      destruct upd; cbn [fst]; [old_nodes|].
      eapply from_old_trans; [apply balance_from_old|]. apply from_old_mk; old_nodes.
    + destruct (set r k v) as [r' upd]. cbn [fst] in IHr.
      assert (Fr : from_old r' (Inner nk h s m l r)).
      { eapply from_old_trans; [exact IHr|]. apply from_old_subtree. sub_tac. }
      destruct upd; cbn [fst]; [old_nodes|].
      eapply from_old_trans; [apply balance_from_old|]. apply from_old_mk; old_nodes.
Qed.

Theorem remove_from_old t k : forall t', rm_self (remove t k) = Some t' -> from_old t' t.
Proof.
  induction t as [lk lv m|nk h s m l IHl r IHr]; intros t'; cbn [remove]; cbv zeta.
  - destruct (beq k lk); cbn [rm_self]; intros E; [discriminate E|].
    injection E as <-. apply from_old_refl.
  - destruct (blt k nk).
    + destruct (rm_val (remove l k)) as [val|].
      * destruct (rm_self (remove l k)) as [l'|]; cbn [rm_self]; intros E; injection E as <-.
        -- assert (Fl : from_old l' (Inner nk h s m l r)).
           { eapply from_old_trans; [apply IHl; reflexivity|]. apply from_old_subtree. sub_tac. }
           eapply from_old_trans; [apply balance_from_old|]. apply from_old_mk; old_nodes.
        -- old_nodes.
      * cbn [rm_self]. intros E. injection E as <-. apply from_old_refl.
    + destruct (rm_val (remove r k)) as [val|].
      * destruct (rm_self (remove r k)) as [r'|]; cbn [rm_self]; intros E; injection E as <-.
        -- assert (Fr : from_old r' (Inner nk h s m l r)).
           { eapply from_old_trans; [apply IHr; reflexivity|]. apply from_old_subtree. sub_tac. }
           eapply from_old_trans; [apply balance_from_old|]. apply from_old_mk; old_nodes.
        -- old_nodes.
      * cbn [rm_self]. intros E. injection E as <-. apply from_old_refl.
Qed.

(** ** saveNewNodes: [assign] is [stamp] plus the list of writes *)
Section Assign.
  Variable H : bytes -> bytes.

  Lemma is_new_false t : is_new t = false <-> ver (nmeta t) <> 0.
  Proof. unfold is_new. apply Z.eqb_neq. Qed.
  Lemma is_new_true t : is_new t = true <-> ver (nmeta t) = 0.
  Proof. unfold is_new. apply Z.eqb_eq. Qed.

  Lemma assign_old wv n t : is_new t = false -> assign H wv n t = (t, n, []).
  Proof. intros E. destruct t; cbn [assign]; rewrite E; reflexivity. Qed.

  Lemma assign_leaf wv n k v m :
    is_new (Leaf k v m) = true ->
    assign H wv n (Leaf k v m) =
      (Leaf k v (Meta wv (n + 1) (H (leaf_preimage H wv k v))), n + 1,
       [((wv, n + 1), SLeaf k v)]).
  Proof. intros E. cbn [assign]. rewrite E. reflexivity. Qed.

  Lemma assign_inner wv n k h s m l r :
    is_new (Inner k h s m l r) = true ->
    assign H wv n (Inner k h s m l r) =
      (let '(l', n1, wl) := assign H wv (n + 1) l in
       let '(r', n2, wr) := assign H wv n1 r in
       let t' := Inner k h s (Meta wv (n + 1)
                   (H (inner_preimage h s wv (hs (nmeta l')) (hs (nmeta r'))))) l' r' in
       (t', n2, wl ++ wr ++ [(node_key t', snode_of t')])).
  Proof. intros E. cbn [assign]. rewrite E. reflexivity. Qed.

  Lemma stamp_old wv n t : is_new t = false -> stamp H wv n t = (t, n).
  Proof. intros E. destruct t; cbn [stamp]; rewrite E; reflexivity. Qed.

  (** the tree and the nonce counter are those of [Tree.stamp] *)
  Lemma assign_stamp wv t : forall n, fst (assign H wv n t) = stamp H wv n t.
  Proof.
    induction t as [k v m|k h s m l IHl r IHr]; intros n.
    - destruct (is_new (Leaf k v m)) eqn:E.
      + rewrite (assign_leaf _ _ _ _ _ E). rewrite stamp_leaf, E. reflexivity.
      + rewrite (assign_old _ _ _ E), (stamp_old _ _ _ E). reflexivity.
    - destruct (is_new (Inner k h s m l r)) eqn:E.
      + rewrite (assign_inner _ _ _ _ _ _ _ _ E). rewrite stamp_inner, E. cbn [negb].
        specialize (IHl (n + 1)). destruct (assign H wv (n + 1) l) as [[l' n1] wl].
        cbn [fst] in IHl. rewrite <- IHl.
        specialize (IHr n1). destruct (assign H wv n1 r) as [[r' n2] wr].
        cbn [fst] in IHr. rewrite <- IHr. reflexivity.
      + rewrite (assign_old _ _ _ E), (stamp_old _ _ _ E). reflexivity.
  Qed.

  (** keys of the writes: version [wv], nonces in (n, n2] *)
  Lemma assign_keys wv t : forall n,
    n <= snd (fst (assign H wv n t)) /\
    forall p, In p (snd (assign H wv n t)) ->
      fst (fst p) = wv /\ n < snd (fst p) <= snd (fst (assign H wv n t)).
  Proof.
    induction t as [k v m|k h s m l IHl r IHr]; intros n.
    - destruct (is_new (Leaf k v m)) eqn:E.
      + rewrite (assign_leaf _ _ _ _ _ E). cbn [fst snd]. split; [lia|].
        intros p [<-|[]]. cbn [fst snd]. lia.
      + rewrite (assign_old _ _ _ E). cbn [fst snd]. split; [lia|]. intros p [].
    - destruct (is_new (Inner k h s m l r)) eqn:E.
      + rewrite (assign_inner _ _ _ _ _ _ _ _ E).
        specialize (IHl (n + 1)). destruct (assign H wv (n + 1) l) as [[l' n1] wl].
        specialize (IHr n1). destruct (assign H wv n1 r) as [[r' n2] wr].
        cbn [fst snd] in *. destruct IHl as [Ll Kl], IHr as [Lr Kr]. split; [lia|].
        intros p HI. apply in_app_or in HI. destruct HI as [HI|HI].
        * specialize (Kl p HI). lia.
        * apply in_app_or in HI. destruct HI as [HI|[<-|[]]].
          -- specialize (Kr p HI). lia.
          -- unfold node_key. cbn [fst snd nmeta ver nonce]. lia.
      + rewrite (assign_old _ _ _ E). cbn [fst snd]. split; [lia|]. intros p [].
  Qed.

  (** the root is written last, under nonce n+1; everything before has a larger nonce *)
  Lemma assign_last wv n t :
    is_new t = true ->
    let t' := fst (fst (assign H wv n t)) in
    node_key t' = (wv, n + 1) /\
    exists W0, snd (assign H wv n t) = W0 ++ [(node_key t', snode_of t')] /\
               forall p, In p W0 -> fst (fst p) = wv /\ n + 1 < snd (fst p).
  Proof.
    intros E. destruct t as [k v m|k h s m l r].
    - rewrite (assign_leaf _ _ _ _ _ E). cbn [fst snd]. split; [reflexivity|].
      exists []. split; [reflexivity|]. intros p [].
    - rewrite (assign_inner _ _ _ _ _ _ _ _ E).
      pose proof (assign_keys wv l (n + 1)) as Kl.
      destruct (assign H wv (n + 1) l) as [[l' n1] wl].
      pose proof (assign_keys wv r n1) as Kr.
      destruct (assign H wv n1 r) as [[r' n2] wr].
      cbn [fst snd] in *. split; [reflexivity|].
      exists (wl ++ wr). split; [rewrite app_assoc; reflexivity|].
      destruct Kl as [Ll Kl], Kr as [Lr Kr].
      intros p HI. apply in_app_or in HI. destruct HI as [HI|HI].
      + specialize (Kl p HI). lia.
      + specialize (Kr p HI). lia.
  Qed.

  (** precondition: the persisted subtrees are persisted all the way down and older than wv *)
  Definition oldok (wv : Z) (t : node) : Prop :=
    forall u, subtree u t -> ver (nmeta u) <> 0 -> ver (nmeta u) <> wv /\ all_persisted u.

  Lemma oldok_sub wv t u : oldok wv t -> subtree u t -> oldok wv u.
  Proof. intros O S w Sw. apply O. exact (sub_trans _ _ _ Sw S). Qed.

  Lemma oldok_persisted wv t u :
    oldok wv t -> is_new t = false -> subtree u t -> ver (nmeta u) <> 0 /\ ver (nmeta u) <> wv.
  Proof.
    intros O E S. apply is_new_false in E.
    destruct (O t (sub_refl t) E) as [_ P].
    pose proof (all_persisted_root u (all_persisted_subtree u t S P)) as Pu.
    split; [exact Pu|]. apply (O u S Pu).
  Qed.

  (** the subtrees of the stamped tree: untouched old ones, and new ones with their nonce range *)
  Lemma assign_sub wv t : wv <> 0 -> oldok wv t -> forall n u,
    subtree u (fst (fst (assign H wv n t))) ->
    (ver (nmeta u) <> wv /\ ver (nmeta u) <> 0 /\ subtree u t) \/
    (ver (nmeta u) = wv /\ n < nonce (nmeta u) <= snd (fst (assign H wv n t))).
  Proof.
    intros Hwv. induction t as [k v m|k h s m l IHl r IHr]; intros O n u S.
    - destruct (is_new (Leaf k v m)) eqn:E.
      + rewrite (assign_leaf _ _ _ _ _ E) in *. cbn [fst snd] in *.
        apply sub_leaf in S. subst u. right. cbn [nmeta ver nonce]. lia.
      + rewrite (assign_old _ _ _ E) in *. cbn [fst snd] in *.
        destruct (oldok_persisted _ _ _ O E S). left. auto.
    - destruct (is_new (Inner k h s m l r)) eqn:E.
      + rewrite (assign_inner _ _ _ _ _ _ _ _ E) in *.
        assert (Ol : oldok wv l) by (apply (oldok_sub _ _ _ O); sub_tac).
        assert (Or : oldok wv r) by (apply (oldok_sub _ _ _ O); sub_tac).
        specialize (IHl Ol (n + 1)). pose proof (assign_keys wv l (n + 1)) as [Ll _].
        destruct (assign H wv (n + 1) l) as [[l' n1] wl].
        specialize (IHr Or n1). pose proof (assign_keys wv r n1) as [Lr _].
        destruct (assign H wv n1 r) as [[r' n2] wr].
        cbn [fst snd] in *. apply sub_inv in S. destruct S as [->|[S|S]].
        * right. cbn [nmeta ver nonce]. lia.
        * destruct (IHl u S) as [(A & B & C)|(A & B)]; [left|right; lia].
          split; [exact A|]. split; [exact B|]. apply sub_left, C.
        * destruct (IHr u S) as [(A & B & C)|(A & B)]; [left|right; lia].
          split; [exact A|]. split; [exact B|]. apply sub_right, C.
      + rewrite (assign_old _ _ _ E) in *. cbn [fst snd] in *.
        destruct (oldok_persisted _ _ _ O E S). left. auto.
  Qed.

  (** new nodes are identified by their nonce *)
  Lemma assign_inj wv t : wv <> 0 -> oldok wv t -> forall n u1 u2,
    subtree u1 (fst (fst (assign H wv n t))) -> subtree u2 (fst (fst (assign H wv n t))) ->
    ver (nmeta u1) = wv -> ver (nmeta u2) = wv -> nonce (nmeta u1) = nonce (nmeta u2) -> u1 = u2.
  Proof.
    intros Hwv. induction t as [k v m|k h s m l IHl r IHr]; intros O n u1 u2 S1 S2 V1 V2 N.
    - destruct (is_new (Leaf k v m)) eqn:E.
      + rewrite (assign_leaf _ _ _ _ _ E) in *. cbn [fst snd] in *.
        apply sub_leaf in S1, S2. congruence.
      + rewrite (assign_old _ _ _ E) in *. cbn [fst snd] in *.
        destruct (oldok_persisted _ _ _ O E S1). congruence.
    - destruct (is_new (Inner k h s m l r)) eqn:E.
      + assert (Ol : oldok wv l) by (apply (oldok_sub _ _ _ O); sub_tac).
        assert (Or : oldok wv r) by (apply (oldok_sub _ _ _ O); sub_tac).
        pose proof (assign_sub wv l Hwv Ol (n + 1)) as Bl.
        specialize (IHl Ol (n + 1)). pose proof (assign_keys wv l (n + 1)) as [Ll _].
        rewrite (assign_inner _ _ _ _ _ _ _ _ E) in *.
        destruct (assign H wv (n + 1) l) as [[l' n1] wl].
        pose proof (assign_sub wv r Hwv Or n1) as Br.
        specialize (IHr Or n1). pose proof (assign_keys wv r n1) as [Lr _].
        destruct (assign H wv n1 r) as [[r' n2] wr].
        cbn [fst snd] in *.
        apply sub_inv in S1. apply sub_inv in S2.
        destruct S1 as [->|[S1|S1]]; destruct S2 as [->|[S2|S2]]; try reflexivity;
          cbn [nmeta ver nonce] in *;
          try (destruct (Bl _ S1) as [(A1 & _)|(_ & B1)]; [congruence|]);
          try (destruct (Br _ S1) as [(A1 & _)|(_ & B1)]; [congruence|]);
          try (destruct (Bl _ S2) as [(A2 & _)|(_ & B2)]; [congruence|]);
          try (destruct (Br _ S2) as [(A2 & _)|(_ & B2)]; [congruence|]);
          try lia.
        * apply IHl; assumption.
        * apply IHr; assumption.
      + rewrite (assign_old _ _ _ E) in *. cbn [fst snd] in *.
        destruct (oldok_persisted _ _ _ O E S1). congruence.
  Qed.

  (** the writes are exactly the new nodes of the stamped tree *)
  Lemma assign_writes wv t : wv <> 0 -> oldok wv t -> forall n k sn,
    In (k, sn) (snd (assign H wv n t)) <->
    exists u, subtree u (fst (fst (assign H wv n t))) /\ ver (nmeta u) = wv /\
              k = node_key u /\ sn = snode_of u.
  Proof.
    intros Hwv. induction t as [kk v m|kk h s m l IHl r IHr]; intros O n k sn.
    - destruct (is_new (Leaf kk v m)) eqn:E.
      + rewrite (assign_leaf _ _ _ _ _ E). cbn [fst snd In]. split.
        * intros [Q|[]]. inversion Q; subst. eexists. split; [apply sub_refl|].
          cbn. auto.
        * intros (u & S & V & -> & ->). apply sub_leaf in S. subst u. left. reflexivity.
      + rewrite (assign_old _ _ _ E). cbn [fst snd In]. split; [tauto|].
        intros (u & S & V & _). destruct (oldok_persisted _ _ _ O E S). congruence.
    - destruct (is_new (Inner kk h s m l r)) eqn:E.
      + assert (Ol : oldok wv l) by (apply (oldok_sub _ _ _ O); sub_tac).
        assert (Or : oldok wv r) by (apply (oldok_sub _ _ _ O); sub_tac).
        specialize (IHl Ol (n + 1)). rewrite (assign_inner _ _ _ _ _ _ _ _ E).
        destruct (assign H wv (n + 1) l) as [[l' n1] wl].
        specialize (IHr Or n1).
        destruct (assign H wv n1 r) as [[r' n2] wr].
        cbn [fst snd] in *. rewrite !in_app_iff, IHl, IHr. cbn [In]. split.
        * intros [(u & S & R)|[(u & S & R)|[Q|[]]]].
          -- exists u. split; [apply sub_left, S|exact R].
          -- exists u. split; [apply sub_right, S|exact R].
          -- inversion Q; subst. eexists. split; [apply sub_refl|]. cbn. auto.
        * intros (u & S & V & -> & ->). apply sub_inv in S. destruct S as [->|[S|S]].
          -- right. right. left. reflexivity.
          -- left. exists u. auto.
          -- right. left. exists u. auto.
      + rewrite (assign_old _ _ _ E). cbn [fst snd In]. split; [tauto|].
        intros (u & S & V & _). destruct (oldok_persisted _ _ _ O E S). congruence.
  Qed.
End Assign.

(** ** Forests *)
Definition forest_t := list (Z * option node).

(** [u] is a node of some retained tree *)
Definition sub_of (f : forest_t) (u : node) : Prop :=
  exists v t, In (v, Some t) f /\ subtree u t.

Record forest_inv (f : forest_t) : Prop := ForestInv {
  (* a node key identifies a node (with its whole subtree) *)
  fi_coh : forall u u', sub_of f u -> sub_of f u' -> node_key u = node_key u' -> u = u';
  (* nodes are persisted and not younger than the tree they occur in *)
  fi_ver : forall v t u, In (v, Some t) f -> subtree u t -> 1 <= ver (nmeta u) <= v;
  (* a node stored under the root key of a retained version is the root of that version *)
  fi_root : forall v r u, In (v, r) f -> sub_of f u -> node_key u = (v, 1) -> r = Some u;
  (* a node older than its tree comes from the previous version's tree (if that is retained) *)
  fi_chain : forall v t u r0, In (v, Some t) f -> subtree u t -> ver (nmeta u) < v ->
                              In (v - 1, r0) f -> exists t0, r0 = Some t0 /\ subtree u t0;
  (* nonces start at 1 (nonce 0 is only used physically, for re-keyed roots) *)
  fi_nonce : forall v t u, In (v, Some t) f -> subtree u t -> 1 <= nonce (nmeta u)
}.

Lemma forest_inv_nil : forest_inv [].
Proof.
  constructor.
  - intros u u' (v & t & [] & _).
  - intros v t u [].
  - intros v r u [].
  - intros v t u r0 [].
  - intros v t u [].
Qed.

Lemma sub_of_filter (p : Z * option node -> bool) f u : sub_of (filter p f) u -> sub_of f u.
Proof. intros (v & t & HI & S). apply filter_In in HI. exists v, t. tauto. Qed.

(** deleting whole versions keeps the invariant *)
Lemma forest_inv_filter (p : Z * option node -> bool) f : forest_inv f -> forest_inv (filter p f).
Proof.
  intros [C V R Ch Nn]. constructor.
  - intros u u' S1 S2. apply C; eapply sub_of_filter; eauto.
  - intros v t u HI. apply filter_In in HI. apply V, HI.
  - intros v r u HI S. apply filter_In in HI. apply (R v r u); [apply HI|eapply sub_of_filter; eauto].
  - intros v t u r0 HI S L HI0. apply filter_In in HI, HI0. apply (Ch v t u r0); tauto.
  - intros v t u HI. apply filter_In in HI. apply (Nn v t u), HI.
Qed.

Lemma NoDup_fst_functional {A} (f : list (Z * A)) v a b :
  NoDup (map fst f) -> In (v, a) f -> In (v, b) f -> a = b.
Proof.
  induction f as [|[w c] f IH]; cbn [map fst In]; intros N I1 I2; [contradiction|].
  inversion N as [|x xs NI N']; subst.
  destruct I1 as [E1|I1], I2 as [E2|I2].
  - congruence.
  - inversion E1; subst. exfalso. apply NI. apply in_map_iff. exists (v, b). auto.
  - inversion E2; subst. exfalso. apply NI. apply in_map_iff. exists (v, a). auto.
  - eauto.
Qed.

(** *** what [reach] contains *)
Lemma nodes_of_In t k sn :
  In (k, sn) (nodes_of t) <-> exists u, subtree u t /\ k = node_key u /\ sn = snode_of u.
Proof.
  induction t as [kk v m|kk h s m l IHl r IHr]; cbn [nodes_of In].
  - split.
    + intros [Q|[]]. inversion Q; subst. eexists. split; [apply sub_refl|auto].
    + intros (u & S & -> & ->). apply sub_leaf in S. subst. left. reflexivity.
  - rewrite in_app_iff, IHl, IHr. split.
    + intros [Q|[(u & S & R)|(u & S & R)]].
      * inversion Q; subst. eexists. split; [apply sub_refl|auto].
      * exists u. split; [apply sub_left, S|exact R].
      * exists u. split; [apply sub_right, S|exact R].
    + intros (u & S & -> & ->). apply sub_inv in S. destruct S as [->|[S|S]].
      * left. reflexivity.
      * right. left. exists u. auto.
      * right. right. exists u. auto.
Qed.

Lemma root_entry_Some v r k e :
  root_entry v r = Some (k, e) ->
  k = (v, 1) /\
  ((r = None /\ e = EEmpty) \/
   (exists t, r = Some t /\ e = ERef (node_key t) /\ node_key t <> (v, 1))).
Proof.
  unfold root_entry. destruct r as [t|].
  - destruct (keqb (node_key t) (v, 1)) eqn:E; [discriminate|].
    intros Q. inversion Q; subst. split; [reflexivity|]. right. exists t.
    apply keqb_false in E. auto.
  - intros Q. inversion Q; subst. auto.
Qed.

Lemma root_entry_root v t : node_key t = (v, 1) -> root_entry v (Some t) = None.
Proof. intros E. unfold root_entry. rewrite E. rewrite (proj2 (keqb_true _ _) eq_refl). reflexivity. Qed.

Lemma tree_entries_In v r k e :
  In (k, e) (tree_entries (v, r)) <->
  (exists t u, r = Some t /\ subtree u t /\ k = node_key u /\ e = ENode (snode_of u)) \/
  root_entry v r = Some (k, e).
Proof.
  unfold tree_entries. cbn [fst snd]. rewrite in_app_iff. split.
  - intros [HI|HI].
    + left. destruct r as [t|]; [|contradiction]. apply in_map_iff in HI.
      destruct HI as ([k0 sn] & Q & HI). cbn [fst snd] in Q. inversion Q; subst.
      apply nodes_of_In in HI. destruct HI as (u & S & -> & ->). exists t, u. auto.
    + right. destruct (root_entry v r) as [p|]; [|contradiction].
      destruct HI as [->|[]]. reflexivity.
  - intros [(t & u & -> & S & -> & ->)|E].
    + left. apply in_map_iff. exists (node_key u, snode_of u). split; [reflexivity|].
      apply nodes_of_In. exists u. auto.
    + right. rewrite E. left. reflexivity.
Qed.

Lemma reach_In f k e :
  In (k, e) (reach f) <->
  (exists u, sub_of f u /\ k = node_key u /\ e = ENode (snode_of u)) \/
  (exists v r, In (v, r) f /\ root_entry v r = Some (k, e)).
Proof.
  unfold reach. rewrite in_flat_map. split.
  - intros ([v r] & HI & T). apply tree_entries_In in T.
    destruct T as [(t & u & -> & S & R)|E].
    + left. exists u. split; [|exact R]. exists v, t. auto.
    + right. exists v, r. auto.
  - intros [(u & (v & t & HI & S) & R)|(v & r & HI & E)].
    + exists (v, Some t). split; [exact HI|]. apply tree_entries_In. left. exists t, u. auto.
    + exists (v, r). split; [exact HI|]. apply tree_entries_In. right. exact E.
Qed.

Lemma reach_app f g : reach (f ++ g) = reach f ++ reach g.
Proof. unfold reach. apply flat_map_app. Qed.

Lemma reach_filter_incl (p : Z * option node -> bool) f x : In x (reach (filter p f)) -> In x (reach f).
Proof.
  unfold reach. rewrite !in_flat_map. intros (y & HI & T). apply filter_In in HI.
  exists y. tauto.
Qed.

(** [reach] is a functional relation *)
Lemma reach_functional f k e e' :
  forest_inv f -> NoDup (map fst f) -> In (k, e) (reach f) -> In (k, e') (reach f) -> e = e'.
Proof.
  intros FI ND I1 I2. apply reach_In in I1, I2.
  destruct I1 as [(u & S & -> & ->)|(v & r & HI & E)];
    destruct I2 as [(u' & S' & K' & ->)|(v' & r' & HI' & E')].
  - rewrite (fi_coh f FI u u' S S' K'). reflexivity.
  - exfalso. destruct (root_entry_Some _ _ _ _ E') as [K _].
    pose proof (fi_root f FI v' r' u HI' S K) as ->.
    rewrite (root_entry_root _ _ K) in E'. discriminate.
  - exfalso. destruct (root_entry_Some _ _ _ _ E) as [K _]. rewrite K in K'. symmetry in K'.
    pose proof (fi_root f FI v r u' HI S' K') as ->.
    rewrite (root_entry_root _ _ K') in E. discriminate.
  - destruct (root_entry_Some _ _ _ _ E) as [K _].
    destruct (root_entry_Some _ _ _ _ E') as [K' _].
    assert (v' = v) by congruence. subst v'.
    rewrite (NoDup_fst_functional f v r r' ND HI HI') in E. congruence.
Qed.

(** *** the expected store *)
Lemma expected_store_unfold f : expected_store f = mset_all kcmp (reach f) [].
Proof. reflexivity. Qed.

Lemma expected_sorted f : msorted kcmp (expected_store f).
Proof. rewrite expected_store_unfold. apply msorted_mset_all; [auto|exact I]. Qed.

Theorem expected_find f k e :
  forest_inv f -> NoDup (map fst f) ->
  (mfind kcmp k (expected_store f) = Some e <-> In (k, e) (reach f)).
Proof.
  intros FI ND. rewrite expected_store_unfold, (mfind_mset_all kcmp kcmp_ok). cbn [mfind]. split.
  - destruct (lastb kcmp k (reach f)) as [v|] eqn:L; [|discriminate].
    intros Q. inversion Q; subst. apply (lastb_In kcmp kcmp_ok), L.
  - intros HI. rewrite (lastb_functional kcmp kcmp_ok k e (reach f) HI); [reflexivity|].
    intros e' HI'. exact (reach_functional f k e' e FI ND HI' HI).
Qed.

Lemma option_ext {A} (a b : option A) : (forall x, a = Some x <-> b = Some x) -> a = b.
Proof.
  intros E. destruct a as [x|], b as [y|]; try reflexivity.
  - apply E. reflexivity.
  - symmetry. apply E. reflexivity.
  - apply E. reflexivity.
Qed.

(** a sorted store with the lookups of [reach f] IS the expected store *)
Theorem store_unique f st :
  forest_inv f -> NoDup (map fst f) -> msorted kcmp st ->
  (forall k e, mfind kcmp k st = Some e <-> In (k, e) (reach f)) ->
  st = expected_store f.
Proof.
  intros FI ND S E. apply (msorted_ext kcmp kcmp_ok); [exact S|apply expected_sorted|].
  intros k. apply option_ext. intros e. rewrite E, (expected_find f k e FI ND). tauto.
Qed.

(** the entries of the expected store are exactly [reach f] *)
Corollary expected_In f k e :
  forest_inv f -> NoDup (map fst f) -> (In (k, e) (expected_store f) <-> In (k, e) (reach f)).
Proof.
  intros FI ND. rewrite <- (expected_find f k e FI ND). split.
  - apply (mfind_In kcmp kcmp_ok), expected_sorted.
  - apply (In_mfind kcmp kcmp_ok).
Qed.

(** every retained node is stored under its key *)
Corollary expected_has_node f u :
  forest_inv f -> NoDup (map fst f) -> sub_of f u ->
  mfind kcmp (node_key u) (expected_store f) = Some (ENode (snode_of u)).
Proof.
  intros FI ND S. apply (expected_find f _ _ FI ND). apply reach_In. left. exists u. auto.
Qed.

(** every retained version has something under its root key *)
Corollary expected_has_root f v r :
  forest_inv f -> NoDup (map fst f) -> In (v, r) f ->
  exists e, mfind kcmp (v, 1) (expected_store f) = Some e /\
            match r with
            | None => e = EEmpty
            | Some t => if keqb (node_key t) (v, 1) then e = ENode (snode_of t)
                        else e = ERef (node_key t)
            end.
Proof.
  intros FI ND HI. destruct r as [t|].
  - destruct (keqb (node_key t) (v, 1)) eqn:E.
    + apply keqb_true in E. exists (ENode (snode_of t)). split; [|reflexivity].
      rewrite <- E. apply expected_has_node; auto. exists v, t. split; [exact HI|apply sub_refl].
    + exists (ERef (node_key t)). split; [|reflexivity].
      apply (expected_find f _ _ FI ND). apply reach_In. right. exists v, (Some t).
      split; [exact HI|]. unfold root_entry. rewrite E. reflexivity.
  - exists EEmpty. split; [|reflexivity].
    apply (expected_find f _ _ FI ND). apply reach_In. right. exists v, None. auto.
Qed.

(** ** Applying writes: the three components *)
Lemma apply_ops_app d a b : apply_ops d (a ++ b) = apply_ops (apply_ops d a) b.
Proof. unfold apply_ops. apply fold_left_app. Qed.

Lemma apply_ops_cons d o ops : apply_ops d (o :: ops) = apply_ops (apply_op d o) ops.
Proof. reflexivity. Qed.

Definition node_op (o : wop) : bool :=
  match o with WSet (KNode _) _ | WDel (KNode _) => true | _ => false end.
Definition fast_op (o : wop) : bool :=
  match o with WSet (KFast _) _ | WDel (KFast _) => true | _ => false end.
Definition label_op (o : wop) : bool :=
  match o with WSet KLabel _ | WDel KLabel => true | _ => false end.

Lemma nodes_other ops : forall d,
  Forall (fun o => node_op o = false) ops -> nodes (apply_ops d ops) = nodes d.
Proof.
  induction ops as [|o ops IH]; intros d F; [reflexivity|].
  inversion F as [|x xs F1 F2]; subst. rewrite apply_ops_cons, (IH _ F2).
  destruct o as [[k|k|] [e|e|e]|[k|k|]]; cbn in F1; try discriminate; reflexivity.
Qed.

Lemma fast_other ops : forall d,
  Forall (fun o => fast_op o = false) ops -> fastidx (apply_ops d ops) = fastidx d.
Proof.
  induction ops as [|o ops IH]; intros d F; [reflexivity|].
  inversion F as [|x xs F1 F2]; subst. rewrite apply_ops_cons, (IH _ F2).
  destruct o as [[k|k|] [e|e|e]|[k|k|]]; cbn in F1; try discriminate; reflexivity.
Qed.

Lemma label_other ops : forall d,
  Forall (fun o => label_op o = false) ops -> label (apply_ops d ops) = label d.
Proof.
  induction ops as [|o ops IH]; intros d F; [reflexivity|].
  inversion F as [|x xs F1 F2]; subst. rewrite apply_ops_cons, (IH _ F2).
  destruct o as [[k|k|] [e|e|e]|[k|k|]]; cbn in F1; try discriminate; reflexivity.
Qed.

Lemma Forall_map_const {A B} (g : A -> B) (P : B -> Prop) l : (forall a, P (g a)) -> Forall P (map g l).
Proof. intros E. apply Forall_forall. intros x HI. apply in_map_iff in HI. destruct HI as (a & <- & _). apply E. Qed.

Lemma nodes_set_nodes ps : forall d,
  nodes (apply_ops d (map set_node ps)) = mset_all kcmp ps (nodes d).
Proof.
  induction ps as [|p ps IH]; intros d; [reflexivity|].
  cbn [map]. rewrite apply_ops_cons, IH. reflexivity.
Qed.

Lemma nodes_set_snodes ps d :
  nodes (apply_ops d (map set_snode ps)) =
  mset_all kcmp (map (fun q => (fst q, ENode (snd q))) ps) (nodes d).
Proof.
  rewrite <- nodes_set_nodes, map_map. reflexivity.
Qed.

Lemma nodes_del_nodes ks : forall d,
  nodes (apply_ops d (map del_node ks)) = mdel_all kcmp ks (nodes d).
Proof.
  induction ks as [|k ks IH]; intros d; [reflexivity|].
  cbn [map]. rewrite apply_ops_cons, IH. reflexivity.
Qed.

Lemma fast_set_fast ps : forall d,
  fastidx (apply_ops d (map set_fast ps)) = mset_all bcmp ps (fastidx d).
Proof.
  induction ps as [|p ps IH]; intros d; [reflexivity|].
  cbn [map]. rewrite apply_ops_cons, IH. reflexivity.
Qed.

Lemma fast_del_fast ks : forall d,
  fastidx (apply_ops d (map del_fast ks)) = mdel_all bcmp ks (fastidx d).
Proof.
  induction ks as [|k ks IH]; intros d; [reflexivity|].
  cbn [map]. rewrite apply_ops_cons, IH. reflexivity.
Qed.

(** ** Deleting whole versions at specification level (C12 item 3) *)
Lemma NoDup_filter_fst (p : Z * option node -> bool) (f : forest_t) :
  NoDup (map fst f) -> NoDup (map fst (filter p f)).
Proof. apply NoDup_map_filter. Qed.

Lemma reach_split (p : Z * option node -> bool) f x :
  In x (reach f) -> In x (reach (filter p f)) \/ In x (reach (filter (fun y => negb (p y)) f)).
Proof.
  unfold reach. rewrite !in_flat_map. intros (y & HI & T).
  destruct (p y) eqn:E.
  - left. exists y. split; [apply filter_In; auto|exact T].
  - right. exists y. split; [apply filter_In; rewrite E; auto|exact T].
Qed.

Lemma expected_In_reach f k e : In (k, e) (expected_store f) -> In (k, e) (reach f).
Proof.
  intros HI. apply (mfind_In kcmp kcmp_ok _ _ _ (expected_sorted f)) in HI.
  rewrite expected_store_unfold, (mfind_mset_all kcmp kcmp_ok) in HI. cbn [mfind] in HI.
  destruct (lastb kcmp k (reach f)) as [v|] eqn:L; [|discriminate].
  inversion HI; subst. apply (lastb_In kcmp kcmp_ok), L.
Qed.

Lemma mhas_true {K V} (cmp : K -> K -> comparison) k (l : list (K * V)) :
  mhas cmp k l = true <-> exists v, mfind cmp k l = Some v.
Proof.
  unfold mhas. destruct (mfind cmp k l) as [v|]; split; try discriminate; eauto.
  intros [v E]. discriminate.
Qed.

Lemma In_firstn {A} i (l : list A) x : In x (firstn i l) -> In x l.
Proof. intros HI. rewrite <- (firstn_skipn i l). apply in_or_app. left. exact HI. Qed.

Theorem drop_exact keep f d :
  forest_inv f -> NoDup (map fst f) -> nodes d = expected_store f ->
  nodes (apply_ops d (drop_ops keep f)) = expected_store (filter (fun p => keep (fst p)) f).
Proof.
  intros FI ND E.
  set (pk := fun p : Z * option node => keep (fst p)).
  assert (FIk : forest_inv (filter pk f)) by (apply forest_inv_filter, FI).
  assert (NDk : NoDup (map fst (filter pk f))) by (apply NoDup_filter_fst, ND).
  assert (FIg : forest_inv (filter (fun y => negb (pk y)) f)) by (apply forest_inv_filter, FI).
  assert (NDg : NoDup (map fst (filter (fun y => negb (pk y)) f))) by (apply NoDup_filter_fst, ND).
  unfold drop_ops. fold pk. rewrite nodes_del_nodes, E.
  apply store_unique; [exact FIk|exact NDk| |].
  { apply (msorted_mdel_all kcmp), expected_sorted. }
  intros k e. rewrite (mfind_mdel_all kcmp kcmp_ok _ _ _ (expected_sorted f)).
  match goal with |- context [existsb _ ?l] => set (Ks := l) end.
  split.
  - destruct (existsb (ceqb kcmp k) Ks) eqn:X; [discriminate|].
    intros Fk. apply (expected_find f k e FI ND) in Fk.
    destruct (reach_split pk f _ Fk) as [A|A]; [exact A|].
    (* reached from a deleted version: it was not deleted, so a kept version reaches it *)
    assert (Hk : mhas kcmp k (expected_store (filter pk f)) = true).
    { destruct (mhas kcmp k (expected_store (filter pk f))) eqn:M; [reflexivity|]. exfalso.
      assert (Y : In k Ks).
      { unfold Ks. apply filter_In. split; [|rewrite M; reflexivity].
        apply in_map_iff. exists (k, e). split; [reflexivity|].
        apply (expected_In _ k e FIg NDg), A. }
      apply (existsb_ceqb kcmp kcmp_ok) in Y. congruence. }
    apply mhas_true in Hk. destruct Hk as [e' Fe'].
    apply (expected_find _ k e' FIk NDk) in Fe'.
    rewrite (reach_functional f k e e' FI ND Fk (reach_filter_incl pk f _ Fe')). exact Fe'.
  - intros A.
    assert (Fe : mfind kcmp k (expected_store (filter pk f)) = Some e)
      by (apply (expected_find _ k e FIk NDk), A).
    destruct (existsb (ceqb kcmp k) Ks) eqn:X.
    + exfalso. apply (existsb_ceqb kcmp kcmp_ok) in X. unfold Ks in X. apply filter_In in X.
      destruct X as [_ X]. unfold mhas in X. rewrite Fe in X. discriminate.
    + apply (expected_find f k e FI ND). exact (reach_filter_incl pk f _ A).
Qed.

Theorem prune_spec_exact_forest f n d :
  forest_inv f -> NoDup (map fst f) -> nodes d = expected_store f ->
  nodes (apply_ops d (prune_ops f n)) = expected_store (filter (fun p => n <? fst p) f).
Proof. intros FI ND E. exact (drop_exact (fun v => n <? v) f d FI ND E). Qed.

(** every prefix of the specification-level deletes leaves every retained entry in place *)
Theorem drop_prefix_safe keep f d i k e :
  forest_inv f -> NoDup (map fst f) -> nodes d = expected_store f ->
  In (k, e) (reach (filter (fun p => keep (fst p)) f)) ->
  mfind kcmp k (nodes (apply_ops d (firstn i (drop_ops keep f)))) = Some e.
Proof.
  intros FI ND E A.
  set (pk := fun p : Z * option node => keep (fst p)) in *.
  assert (FIk : forest_inv (filter pk f)) by (apply forest_inv_filter, FI).
  assert (NDk : NoDup (map fst (filter pk f))) by (apply NoDup_filter_fst, ND).
  unfold drop_ops. fold pk. rewrite firstn_map, nodes_del_nodes, E.
  rewrite (mfind_mdel_all kcmp kcmp_ok _ _ _ (expected_sorted f)).
  match goal with |- context [existsb _ ?l] => set (Ks := l) end.
  assert (Fe : mfind kcmp k (expected_store (filter pk f)) = Some e)
    by (apply (expected_find _ k e FIk NDk), A).
  destruct (existsb (ceqb kcmp k) Ks) eqn:X.
  - exfalso. apply (existsb_ceqb kcmp kcmp_ok) in X. unfold Ks in X.
    apply In_firstn in X. apply filter_In in X.
    destruct X as [_ X]. unfold mhas in X. rewrite Fe in X. discriminate.
  - apply (expected_find f k e FI ND). exact (reach_filter_incl pk f _ A).
Qed.

(** ** Emptied trees (C12 item 4) *)
Theorem empty_store f :
  (forall v r, In (v, r) f -> r = None) ->
  forall k e, In (k, e) (expected_store f) -> e = EEmpty /\ snd k = 1 /\ In (fst k) (map fst f).
Proof.
  intros A k e HI. apply expected_In_reach, reach_In in HI.
  destruct HI as [(u & (v & t & HI & _) & _)|(v & r & HI & E)].
  - specialize (A _ _ HI). discriminate.
  - pose proof (A _ _ HI) as ->. cbn [root_entry] in E. inversion E; subst. cbn [fst snd].
    split; [reflexivity|]. split; [reflexivity|]. apply in_map_iff. exists (v, None).
    split; [reflexivity|exact HI].
Qed.

Corollary empty_store_no_node f :
  (forall v r, In (v, r) f -> r = None) -> forall k n, ~ In (k, ENode n) (expected_store f).
Proof. intros A k n HI. destruct (empty_store f A _ _ HI) as [C _]. discriminate. Qed.

(** ** The latest version of a store *)
Lemma fold_max_spec (st : store) : forall a,
  a <= fold_left (fun acc p => Z.max acc (fst (fst p))) st a /\
  (forall p, In p st -> fst (fst p) <= fold_left (fun acc p => Z.max acc (fst (fst p))) st a) /\
  (forall m, a <= m -> (forall p, In p st -> fst (fst p) <= m) ->
             fold_left (fun acc p => Z.max acc (fst (fst p))) st a <= m).
Proof.
  induction st as [|q st IH]; intros a; cbn [fold_left In].
  - split; [lia|]. split; [tauto|]. intros m L _. exact L.
  - destruct (IH (Z.max a (fst (fst q)))) as (A & B & C). split; [lia|]. split.
    + intros p [<-|HI]; [lia|]. apply B, HI.
    + intros m L F. apply C; [|intros p HI; apply F; right; exact HI].
      specialize (F q (or_introl eq_refl)). lia.
Qed.

Lemma store_latest_nonneg st : 0 <= store_latest st.
Proof. apply (fold_max_spec st 0). Qed.

Lemma store_latest_ge st p : In p st -> fst (fst p) <= store_latest st.
Proof. apply (fold_max_spec st 0). Qed.

Lemma store_latest_le st m : 0 <= m -> (forall p, In p st -> fst (fst p) <= m) -> store_latest st <= m.
Proof. apply (fold_max_spec st 0). Qed.

Lemma store_latest_eq st m :
  0 <= m -> (forall p, In p st -> fst (fst p) <= m) -> (exists p, In p st /\ fst (fst p) = m) ->
  store_latest st = m.
Proof.
  intros L U (p & HI & E). pose proof (store_latest_le st m L U). pose proof (store_latest_ge st p HI). lia.
Qed.

(** versions of the keys of an expected store *)
Lemma reach_key_version f iv k e :
  forest_inv f -> forest_ok f iv -> In (k, e) (reach f) -> 1 <= fst k <= latest_of f.
Proof.
  intros FI OK HI. apply reach_In in HI.
  destruct HI as [(u & (v & t & HI & S) & -> & _)|(v & r & HI & E)].
  - pose proof (fi_ver f FI v t u HI S) as B. unfold node_key. cbn [fst].
    assert (Iv : In v (map fst f)) by (apply in_map_iff; exists (v, Some t); auto).
    apply (forest_ok_In f iv v OK) in Iv. destruct Iv as [_ R]. lia.
  - destruct (root_entry_Some _ _ _ _ E) as [-> _]. cbn [fst].
    assert (Iv : In v (map fst f)) by (apply in_map_iff; exists (v, r); auto).
    pose proof Iv as Iv'. apply (forest_ok_In f iv v OK) in Iv. destruct Iv as [NE R].
    destruct (forest_ok_range f iv OK NE) as (R1 & _). lia.
Qed.

Lemma In_map_fst_pair {A} (f : list (Z * A)) v : In v (map fst f) -> exists a, In (v, a) f.
Proof. intros HI. apply in_map_iff in HI. destruct HI as ([w a] & <- & HI). exists a. exact HI. Qed.

Theorem store_latest_expected f iv :
  forest_inv f -> forest_ok f iv -> NoDup (map fst f) -> f <> [] ->
  store_latest (expected_store f) = latest_of f.
Proof.
  intros FI OK ND NE. destruct (forest_ok_range f iv OK NE) as (R1 & _ & _).
  apply store_latest_eq; [lia| |].
  - intros [k e] HI. cbn [fst]. apply expected_In_reach in HI.
    apply (reach_key_version f iv k e FI OK HI).
  - assert (Il : In (latest_of f) (map fst f)) by (apply (forest_ok_In f iv _ OK); split; [exact NE|lia]).
    destruct (In_map_fst_pair f _ Il) as [r HI].
    destruct (expected_has_root f _ r FI ND HI) as (e & Fe & _).
    exists ((latest_of f, 1), e). split; [|reflexivity]. apply (In_mfind kcmp kcmp_ok), Fe.
Qed.

(** ** Rollback: DeleteVersionsFrom (C12 item 2) *)

(** a node no younger than [v] that occurs in a later retained tree occurs in the tree of [v] *)
Lemma chain_down f iv v : forest_inv f -> forest_ok f iv -> In v (map fst f) ->
  forall (d : nat) v' t u, v' = v + Z.of_nat d -> In (v', Some t) f -> subtree u t -> ver (nmeta u) <= v ->
  exists t0, In (v, Some t0) f /\ subtree u t0.
Proof.
  intros FI OK Iv. induction d as [|d IH]; intros v' t u E HI S L.
  - replace v' with v in HI by lia. exists t. auto.
  - assert (Iv' : In v' (map fst f)) by (apply in_map_iff; exists (v', Some t); auto).
    apply (forest_ok_In f iv v OK) in Iv. apply (forest_ok_In f iv v' OK) in Iv'.
    assert (Ip : In (v' - 1) (map fst f)) by (apply (forest_ok_In f iv _ OK); split; [tauto|lia]).
    destruct (In_map_fst_pair f _ Ip) as [r0 HI0].
    destruct (fi_chain f FI v' t u r0 HI S ltac:(lia) HI0) as (t0 & -> & S0).
    apply (IH (v' - 1) t0 u); [lia|exact HI0|exact S0|exact L].
Qed.

Theorem rollback_exact_forest f iv d v :
  forest_inv f -> forest_ok f iv -> NoDup (map fst f) -> In v (map fst f) ->
  nodes d = expected_store f ->
  nodes (apply_ops d (rollback_ops d v)) = expected_store (filter (fun p => fst p <=? v) f).
Proof.
  intros FI OK ND Iv E.
  assert (NE : f <> []) by (intros C; subst f; contradiction).
  pose proof (store_latest_expected f iv FI OK ND NE) as SL.
  unfold rollback_ops. rewrite E, SL.
  destruct (latest_of f <? v + 1) eqn:C.
  - (* nothing above v *)
    apply Z.ltb_lt in C. cbn [apply_ops fold_left]. rewrite E. f_equal. symmetry.
    apply filter_all. intros [w r] HI. cbn [fst]. apply Z.leb_le.
    assert (Iw : In w (map fst f)) by (apply in_map_iff; exists (w, r); auto).
    apply (forest_ok_In f iv w OK) in Iw. lia.
  - rewrite apply_ops_app, nodes_other.
    2:{ destruct (label d); repeat constructor. }
    rewrite nodes_del_nodes, E.
    set (pk := fun p : Z * option node => fst p <=? v).
    assert (FIk : forest_inv (filter pk f)) by (apply forest_inv_filter, FI).
    assert (NDk : NoDup (map fst (filter pk f))) by (apply NoDup_filter_fst, ND).
    apply store_unique; [exact FIk|exact NDk| |].
    { apply (msorted_mdel_all kcmp), expected_sorted. }
    intros k e. rewrite (mfind_mdel_all kcmp kcmp_ok _ _ _ (expected_sorted f)).
    match goal with |- context [existsb _ ?l] => set (Ks := l) end.
    assert (KsIn : forall k0, In k0 Ks <-> (v < fst k0 /\ In k0 (map fst (expected_store f)))).
    { intros k0. unfold Ks. rewrite in_map_iff. split.
      - intros ([k1 e1] & <- & HI). apply filter_In in HI. cbn [fst] in *.
        destruct HI as [HI C1]. apply Z.ltb_lt in C1. split; [exact C1|].
        apply in_map_iff. exists (k1, e1). auto.
      - intros [C1 HI]. apply in_map_iff in HI. destruct HI as ([k1 e1] & <- & HI).
        exists (k1, e1). split; [reflexivity|]. apply filter_In. split; [exact HI|].
        cbn [fst]. apply Z.ltb_lt, C1. }
    split.
    + destruct (existsb (ceqb kcmp k) Ks) eqn:X; [discriminate|].
      intros Fk.
      assert (Lk : fst k <= v).
      { destruct (Z.leb_spec (fst k) v) as [L|L]; [exact L|]. exfalso.
        assert (Y : In k Ks).
        { apply KsIn. split; [exact L|]. apply in_map_iff. exists (k, e). split; [reflexivity|].
          apply (In_mfind kcmp kcmp_ok), Fk. }
        apply (existsb_ceqb kcmp kcmp_ok) in Y. congruence. }
      apply (expected_find f k e FI ND) in Fk. apply reach_In in Fk. apply reach_In.
      destruct Fk as [(u & (v' & t & HI & S) & -> & ->)|(v' & r & HI & Er)].
      * left. exists u. split; [|auto]. unfold node_key in Lk. cbn [fst] in Lk.
        destruct (Z.leb_spec v' v) as [L|L].
        -- exists v', t. split; [|exact S]. apply filter_In. split; [exact HI|].
           unfold pk. cbn [fst]. apply Z.leb_le, L.
        -- destruct (chain_down f iv v FI OK Iv (Z.to_nat (v' - v)) v' t u ltac:(lia) HI S Lk)
             as (t0 & HI0 & S0).
           exists v, t0. split; [|exact S0]. apply filter_In. split; [exact HI0|].
           unfold pk. cbn [fst]. apply Z.leb_refl.
      * right. exists v', r. split; [|exact Er]. apply filter_In. split; [exact HI|].
        destruct (root_entry_Some _ _ _ _ Er) as [-> _]. cbn [fst] in Lk.
        unfold pk. cbn [fst]. apply Z.leb_le, Lk.
    + intros A.
      assert (Lk : fst k <= v).
      { apply reach_In in A.
        destruct A as [(u & (v' & t & HI & S) & -> & _)|(v' & r & HI & Er)].
        - apply filter_In in HI. destruct HI as [HI C1]. unfold pk in C1. cbn [fst] in C1.
          apply Z.leb_le in C1. pose proof (fi_ver f FI v' t u HI S). unfold node_key. cbn [fst]. lia.
        - apply filter_In in HI. destruct HI as [HI C1]. unfold pk in C1. cbn [fst] in C1.
          apply Z.leb_le in C1. destruct (root_entry_Some _ _ _ _ Er) as [-> _]. exact C1. }
      destruct (existsb (ceqb kcmp k) Ks) eqn:X.
      * exfalso. apply (existsb_ceqb kcmp kcmp_ok) in X. apply KsIn in X. lia.
      * apply (expected_find f k e FI ND). exact (reach_filter_incl pk f _ A).
Qed.

(** ** The store invariant of the state machine *)

(** the persisted part of the working tree comes from the last saved tree *)
Definition based (s : mstate) : Prop :=
  match root s with
  | None => True
  | Some n => forall u, subtree u n -> ver (nmeta u) <> 0 ->
                        exists b, last_saved s = Some b /\ subtree u b
  end.

Record store_ok (H : bytes -> bytes) (s : mstate) : Prop := StoreOk {
  so_inv : state_inv s;
  so_hash : hash_inv H s;
  so_contig : contig s;
  so_forest : forest_inv (forest s);
  so_based : based s
}.

Section Commit.
  Variable H : bytes -> bytes.

  Definition saved_root (s : mstate) : option node :=
    match root s with
    | None => None
    | Some n => Some (fst (stamp H (working_version s) 0 n))
    end.

  Lemma do_save_new_forest s :
    lookup (working_version s) (forest s) = None ->
    forest (fst (do_save H s)) = forest s ++ [(working_version s, saved_root s)] /\
    root (fst (do_save H s)) = saved_root s /\ last_saved (fst (do_save H s)) = saved_root s.
  Proof.
    intros L. unfold do_save, version_exists. cbv zeta. rewrite L. cbn [fst forest root last_saved].
    auto.
  Qed.

  Lemma do_save_old_forest s e :
    lookup (working_version s) (forest s) = Some e -> forest (fst (do_save H s)) = forest s.
  Proof. intros L. destruct (do_save_existing H s e L) as [E|E]; rewrite E; reflexivity. Qed.

  Lemma commit_ops_old fast s e :
    lookup (working_version s) (forest s) = Some e -> commit_ops H fast s = [].
  Proof. intros L. unfold commit_ops, version_exists. rewrite L. reflexivity. Qed.

  Lemma commit_ops_new fast s :
    lookup (working_version s) (forest s) = None ->
    commit_ops H fast s = commit_meta_ops fast s ++ commit_node_ops H s.
  Proof. intros L. unfold commit_ops, version_exists. rewrite L. reflexivity. Qed.

  (** where the persisted part of the working tree lives *)
  Lemma based_sub_of s n u :
    contig s -> based s -> root s = Some n -> subtree u n -> ver (nmeta u) <> 0 ->
    exists b, last_saved s = Some b /\ subtree u b /\ In (version s, Some b) (forest s).
  Proof.
    intros C B R S P. unfold based in B. rewrite R in B. destruct (B u S P) as (b & Lb & Sb).
    exists b. split; [exact Lb|]. split; [exact Sb|].
    destruct C as (_ & [(_ & _ & N & _)|Lk] & _); [congruence|].
    rewrite Lb in Lk. apply lookup_In, Lk.
  Qed.

  (** a commit that creates a version: that version is above every retained one *)
  Lemma save_fresh s :
    store_ok H s -> lookup (working_version s) (forest s) = None ->
    1 <= working_version s /\
    (forall v r, In (v, r) (forest s) -> v < working_version s) /\
    (forest s <> [] -> version s = working_version s - 1).
  Proof.
    intros [SI HI C _ _] L. pose proof (working_version_pos H s SI HI) as P.
    split; [lia|].
    destruct (do_save_numbering s C L) as [(F & _ & _)|(NE & V & W)].
    - rewrite F. split; [intros v r []|congruence].
    - split; [|intros _; lia]. intros v r HI'.
      assert (Iv : In v (map fst (forest s))) by (apply in_map_iff; exists (v, r); auto).
      apply (forest_ok_In (forest s) (init_ver s) v (contig_forest_ok s C)) in Iv.
      change (latest_of (forest s)) with (latest_version s) in Iv. lia.
  Qed.

  Lemma root_oldok s n :
    store_ok H s -> lookup (working_version s) (forest s) = None -> root s = Some n ->
    oldok (working_version s) n.
  Proof.
    intros SO L R u S P. destruct (save_fresh s SO L) as (_ & Fr & _).
    destruct SO as [SI HI C FI B].
    pose proof (hi_root H s HI) as Hr. rewrite R in Hr. cbn [onode_ok] in Hr.
    destruct (hash_ok_root H u (hash_ok_subtree H u n S Hr) P) as [_ AP].
    split; [|exact AP].
    destruct (based_sub_of s n u C B R S P) as (b & _ & Sb & Ib).
    pose proof (fi_ver _ FI _ _ _ Ib Sb). specialize (Fr _ _ Ib). lia.
  Qed.

  Lemma sub_of_snoc_none f v u : sub_of (f ++ [(v, None)]) u <-> sub_of f u.
  Proof.
    split; intros (w & t & HI & S); exists w, t; (split; [|exact S]).
    - apply in_app_or in HI. destruct HI as [HI|[Q|[]]]; [exact HI|discriminate].
    - apply in_or_app. left. exact HI.
  Qed.

  Lemma sub_of_snoc_some f v t u : sub_of (f ++ [(v, Some t)]) u <-> sub_of f u \/ subtree u t.
  Proof.
    split.
    - intros (w & t' & HI & S). apply in_app_or in HI. destruct HI as [HI|[Q|[]]].
      + left. exists w, t'. auto.
      + inversion Q; subst. right. exact S.
    - intros [(w & t' & HI & S)|S].
      + exists w, t'. split; [apply in_or_app; left; exact HI|exact S].
      + exists v, t. split; [apply in_or_app; right; left; reflexivity|exact S].
  Qed.

  (** the invariant survives a commit (the new nodes carry a fresh version) *)
  Theorem forest_inv_save s :
    store_ok H s -> lookup (working_version s) (forest s) = None ->
    forest_inv (forest s ++ [(working_version s, saved_root s)]).
  Proof.
    intros SO L. destruct (save_fresh s SO L) as (Wpos & Fr & Vprev).
    pose proof SO as [SI HI C FI B].
    set (wv := working_version s) in *. set (f := forest s) in *.
    assert (Hwv : wv <> 0) by lia.
    assert (OldLt : forall u, sub_of f u -> ver (nmeta u) < wv).
    { intros u (v & t & HI' & S). pose proof (fi_ver f FI v t u HI' S). specialize (Fr _ _ HI'). lia. }
    assert (Prev : forall x v r0, In (v - 1, r0) (f ++ [(wv, x)]) -> v <= wv -> v <> wv ->
                                In (v - 1, r0) f).
    { intros x v r0 HI' Le Ne. apply in_app_or in HI'. destruct HI' as [HI'|[Q|[]]]; [exact HI'|].
      inversion Q. lia. }
    unfold saved_root. fold wv. destruct (root s) as [n|] eqn:R.
    - (* a non-empty working tree *)
      pose proof (root_oldok s n SO L R) as O. fold wv in O.
      rewrite <- (assign_stamp H wv n 0).
      pose proof (assign_sub H wv n Hwv O 0) as ASub.
      pose proof (assign_inj H wv n Hwv O 0) as AInj.
      pose proof (assign_last H wv 0 n) as ALast.
      pose proof (assign_old H wv 0 n) as AOld.
      set (n' := fst (fst (assign H wv 0 n))) in *.
      (* a node of the new tree is an old retained node or a fresh one *)
      assert (Cases : forall u, subtree u n' ->
                (sub_of f u /\ ver (nmeta u) <> wv /\ subtree u n) \/ ver (nmeta u) = wv).
      { intros u S. destruct (ASub u S) as [(A1 & A2 & A3)|(A1 & _)]; [left|right; exact A1].
        destruct (based_sub_of s n u C B R A3 A2) as (b & _ & Sb & Ib).
        split; [exists (version s), b; auto|auto]. }
      constructor.
      + intros u u' S1 S2 K. apply sub_of_snoc_some in S1, S2.
        assert (KV : ver (nmeta u) = ver (nmeta u')) by (unfold node_key in K; congruence).
        assert (KN : nonce (nmeta u) = nonce (nmeta u')) by (unfold node_key in K; congruence).
        destruct S1 as [S1|S1]; destruct S2 as [S2|S2].
        * apply (fi_coh f FI); assumption.
        * destruct (Cases _ S2) as [(S2' & _)|V2]; [apply (fi_coh f FI); assumption|].
          pose proof (OldLt _ S1). lia.
        * destruct (Cases _ S1) as [(S1' & _)|V1]; [apply (fi_coh f FI); assumption|].
          pose proof (OldLt _ S2). lia.
        * destruct (Cases _ S1) as [(S1' & N1 & _)|V1]; destruct (Cases _ S2) as [(S2' & N2 & _)|V2].
          -- apply (fi_coh f FI); assumption.
          -- congruence.
          -- congruence.
          -- apply AInj; congruence.
      + intros v t u HI' S. apply in_app_or in HI'. destruct HI' as [HI'|[Q|[]]].
        * exact (fi_ver f FI v t u HI' S).
        * inversion Q; subst v t. destruct (Cases _ S) as [(S' & _)|V]; [|lia].
          destruct S' as (v & t & HI' & S'). pose proof (fi_ver f FI v t u HI' S').
          specialize (Fr _ _ HI'). lia.
      + intros v r u HI' S K. apply sub_of_snoc_some in S.
        assert (KV : ver (nmeta u) = v) by (unfold node_key in K; congruence).
        assert (KN : nonce (nmeta u) = 1) by (unfold node_key in K; congruence).
        apply in_app_or in HI'. destruct HI' as [HI'|[Q|[]]].
        * specialize (Fr _ _ HI'). destruct S as [S|S].
          -- exact (fi_root f FI v r u HI' S K).
          -- destruct (Cases _ S) as [(S' & _)|V]; [exact (fi_root f FI v r u HI' S' K)|lia].
        * inversion Q; subst v r. f_equal.
          assert (Su : subtree u n').
          { destruct S as [S|S]; [|exact S]. pose proof (OldLt _ S). lia. }
          destruct (is_new n) eqn:En.
          -- destruct (ALast eq_refl) as (Kn & _). cbv zeta in Kn. unfold node_key in Kn.
             assert (Kv : ver (nmeta n') = wv) by congruence.
             assert (Kc : nonce (nmeta n') = 1) by (inversion Kn; lia).
             symmetry. apply AInj; [exact Su|apply sub_refl|congruence|exact Kv|congruence].
          -- exfalso. unfold n' in Su. rewrite (AOld eq_refl) in Su. cbn [fst] in Su.
             destruct (oldok_persisted wv n u O En Su). congruence.
      + intros v t u r0 HI' S Lt HI0. apply in_app_or in HI'. destruct HI' as [HI'|[Q|[]]].
        * specialize (Fr _ _ HI').
          apply (fi_chain f FI v t u r0 HI' S Lt). eapply Prev; [exact HI0|lia|lia].
        * inversion Q; subst v t.
          destruct (ASub u S) as [(A1 & A2 & A3)|(A1 & _)]; [|lia].
          destruct (based_sub_of s n u C B R A3 A2) as (b & _ & Sb & Ib).
          apply in_app_or in HI0. destruct HI0 as [HI0|[Q0|[]]]; [|inversion Q0; lia].
          assert (NE : f <> []) by (intros E; rewrite E in HI0; contradiction).
          specialize (Vprev NE). fold wv in Vprev. rewrite Vprev in Ib.
          exists b. split; [|exact Sb].
          exact (NoDup_fst_functional f (wv - 1) r0 (Some b) (inv_nodup s SI) HI0 Ib).
      + intros v t u HI' S. apply in_app_or in HI'. destruct HI' as [HI'|[Q|[]]].
        * exact (fi_nonce f FI v t u HI' S).
        * inversion Q; subst v t.
          destruct (ASub u S) as [(A1 & A2 & A3)|(A1 & A2)]; [|lia].
          destruct (based_sub_of s n u C B R A3 A2) as (b & _ & Sb & Ib).
          exact (fi_nonce f FI _ b u Ib Sb).
    - (* an empty working tree *)
      constructor.
      + intros u u' S1 S2. apply (proj1 (sub_of_snoc_none _ _ _)) in S1.
        apply (proj1 (sub_of_snoc_none _ _ _)) in S2. apply (fi_coh f FI); assumption.
      + intros v t u HI' S. apply in_app_or in HI'. destruct HI' as [HI'|[Q|[]]]; [|discriminate].
        exact (fi_ver f FI v t u HI' S).
      + intros v r u HI' S K. apply (proj1 (sub_of_snoc_none _ _ _)) in S.
        apply in_app_or in HI'. destruct HI' as [HI'|[Q|[]]].
        * exact (fi_root f FI v r u HI' S K).
        * inversion Q; subst v r. exfalso. pose proof (OldLt _ S).
          unfold node_key in K. assert (ver (nmeta u) = wv) by congruence. lia.
      + intros v t u r0 HI' S Lt HI0. apply in_app_or in HI'. destruct HI' as [HI'|[Q|[]]]; [|discriminate].
        specialize (Fr _ _ HI').
        apply (fi_chain f FI v t u r0 HI' S Lt). eapply Prev; [exact HI0|lia|lia].
      + intros v t u HI' S. apply in_app_or in HI'. destruct HI' as [HI'|[Q|[]]]; [|discriminate].
        exact (fi_nonce f FI v t u HI' S).
  Qed.
End Commit.

(** ** Commit (C12 items 1 and 5) *)
Section CommitExact.
  Variable H : bytes -> bytes.

  (** the node writes of a commit as key/entry pairs *)
  Definition node_writes (s : mstate) : list (nodekey * entry) :=
    let wv := working_version s in
    match root s with
    | None => [((wv, 1), EEmpty)]
    | Some n =>
        if is_new n then map (fun q => (fst q, ENode (snd q))) (snd (assign H wv 0 n))
        else [((wv, 1), ERef (node_key n))]
    end.

  Lemma commit_node_ops_eq s : commit_node_ops H s = map set_node (node_writes s).
  Proof.
    unfold commit_node_ops, node_writes. cbv zeta. destruct (root s) as [n|]; [|reflexivity].
    destruct (is_new n); [|reflexivity]. rewrite map_map. reflexivity.
  Qed.

  Lemma meta_not_node fast s : Forall (fun o => node_op o = false) (commit_meta_ops fast s).
  Proof.
    unfold commit_meta_ops. destruct fast; [|constructor].
    apply Forall_app. split; [apply Forall_map_const; reflexivity|].
    apply Forall_app. split; [apply Forall_map_const; reflexivity|]. repeat constructor.
  Qed.

  Lemma node_ops_not_fast s : Forall (fun o => fast_op o = false) (commit_node_ops H s).
  Proof. rewrite commit_node_ops_eq. apply Forall_map_const. reflexivity. Qed.

  Lemma node_ops_not_label s : Forall (fun o => label_op o = false) (commit_node_ops H s).
  Proof. rewrite commit_node_ops_eq. apply Forall_map_const. reflexivity. Qed.

  Lemma saved_root_assign s n :
    root s = Some n -> saved_root H s = Some (fst (fst (assign H (working_version s) 0 n))).
  Proof. intros R. unfold saved_root. rewrite R, assign_stamp. reflexivity. Qed.

  (** the writes are entries of the new tree, and every entry of the new tree is written or
      already stored *)
  Lemma node_writes_spec s :
    store_ok H s -> lookup (working_version s) (forest s) = None ->
    (forall p, In p (node_writes s) -> In p (tree_entries (working_version s, saved_root H s))) /\
    (forall p, In p (tree_entries (working_version s, saved_root H s)) ->
               In p (node_writes s) \/ In p (reach (forest s))).
  Proof.
    intros SO L. destruct (save_fresh H s SO L) as (Wpos & Fr & _).
    pose proof SO as [SI HI C FI B].
    set (wv := working_version s) in *. assert (Hwv : wv <> 0) by lia.
    unfold node_writes. fold wv. destruct (root s) as [n|] eqn:R.
    - pose proof (root_oldok H s n SO L R) as O. fold wv in O.
      rewrite (saved_root_assign s n R). fold wv.
      assert (OldReach : forall u, subtree u n -> ver (nmeta u) <> 0 ->
                 In (node_key u, ENode (snode_of u)) (reach (forest s)) /\ ver (nmeta u) < wv).
      { intros u S P. destruct (based_sub_of s n u C B R S P) as (b & _ & Sb & Ib). split.
        - apply reach_In. left. exists u. split; [exists (version s), b; auto|auto].
        - pose proof (fi_ver _ FI _ _ _ Ib Sb). specialize (Fr _ _ Ib). lia. }
      destruct (is_new n) eqn:En.
      + destruct (assign_last H wv 0 n En) as (Kn & _). cbv zeta in Kn.
        pose proof (assign_sub H wv n Hwv O 0) as ASub.
        pose proof (assign_writes H wv n Hwv O 0) as AW.
        set (n' := fst (fst (assign H wv 0 n))) in *. split.
        * intros [k e] HI'. apply in_map_iff in HI'. destruct HI' as ([k0 sn] & Q & HI').
          cbn [fst snd] in Q. inversion Q; subst k0 e. apply AW in HI'.
          destruct HI' as (u & S & _ & -> & ->). apply tree_entries_In. left. exists n', u. auto.
        * intros [k e] HI'. apply tree_entries_In in HI'.
          destruct HI' as [(t & u & Q & S & -> & ->)|E].
          -- inversion Q; subst t. destruct (ASub u S) as [(_ & A2 & A3)|(A1 & _)].
             ++ right. apply OldReach; assumption.
             ++ left. apply in_map_iff. exists (node_key u, snode_of u). split; [reflexivity|].
                apply AW. exists u. auto.
          -- rewrite (root_entry_root wv n' Kn) in E. discriminate.
      + rewrite (assign_old H wv 0 n En). cbn [fst].
        assert (Kn : keqb (node_key n) (wv, 1) = false).
        { apply keqb_false. intros K. apply is_new_false in En.
          destruct (OldReach n (sub_refl n) En) as [_ Lt]. unfold node_key in K.
          assert (ver (nmeta n) = wv) by congruence. lia. }
        split.
        * intros p [<-|[]]. apply tree_entries_In. right. unfold root_entry. rewrite Kn. reflexivity.
        * intros [k e] HI'. apply tree_entries_In in HI'.
          destruct HI' as [(t & u & Q & S & -> & ->)|E].
          -- inversion Q; subst t. right.
             destruct (oldok_persisted wv n u O En S) as [P _]. apply OldReach; assumption.
          -- left. unfold root_entry in E. rewrite Kn in E. inversion E. left. reflexivity.
    - unfold saved_root. rewrite R. split.
      + intros p [<-|[]]. apply tree_entries_In. right. reflexivity.
      + intros [k e] HI'. apply tree_entries_In in HI'.
        destruct HI' as [(t & u & Q & _)|E]; [discriminate|].
        left. cbn [root_entry] in E. inversion E. left. reflexivity.
  Qed.

  Lemma do_save_nodup s : store_ok H s -> NoDup (map fst (forest (fst (do_save H s)))).
  Proof. intros SO. apply inv_nodup, do_save_inv, SO. Qed.

  (** C12.1: after all the writes of a commit the store is exactly the expected store of the
      new forest *)
  Theorem commit_exact fast s d :
    store_ok H s -> nodes d = expected_store (forest s) ->
    nodes (apply_ops d (commit_ops H fast s)) = expected_store (forest (fst (do_save H s))).
  Proof.
    intros SO E. destruct (lookup (working_version s) (forest s)) as [e0|] eqn:L.
    - rewrite (commit_ops_old H fast s e0 L), (do_save_old_forest H s e0 L). exact E.
    - rewrite (commit_ops_new H fast s L), apply_ops_app.
      pose proof (do_save_nodup s SO) as ND'.
      destruct (do_save_new_forest H s L) as (Ef & _). rewrite Ef in *.
      pose proof (forest_inv_save H s SO L) as FI'.
      destruct (node_writes_spec s SO L) as [W1 W2].
      pose proof SO as [SI HI C FI B]. pose proof (inv_nodup s SI) as ND.
      rewrite commit_node_ops_eq, nodes_set_nodes, (nodes_other _ _ (meta_not_node fast s)), E.
      set (f := forest s) in *. set (wv := working_version s) in *.
      assert (Rf : forall x, In x (reach (f ++ [(wv, saved_root H s)])) <->
                             In x (reach f) \/ In x (tree_entries (wv, saved_root H s))).
      { intros x. rewrite reach_app, in_app_iff. unfold reach at 2. cbn [flat_map].
        rewrite app_nil_r. tauto. }
      apply store_unique; [exact FI'|exact ND'| |].
      { apply (msorted_mset_all kcmp kcmp_ok), expected_sorted. }
      intros k e. rewrite (mfind_mset_all kcmp kcmp_ok). split.
      + destruct (lastb kcmp k (node_writes s)) as [e2|] eqn:Lb.
        * intros Q. inversion Q; subst e2. apply Rf. right. apply W1.
          apply (lastb_In kcmp kcmp_ok), Lb.
        * intros Fe. apply Rf. left. apply (expected_find f k e FI ND), Fe.
      + intros A.
        destruct (lastb kcmp k (node_writes s)) as [e2|] eqn:Lb.
        * f_equal. apply (lastb_In kcmp kcmp_ok) in Lb.
          apply (reach_functional _ k e2 e FI' ND'); [|exact A]. apply Rf. right. apply W1, Lb.
        * apply (expected_find f k e FI ND). apply Rf in A. destruct A as [A|A]; [exact A|].
          destruct (W2 _ A) as [A'|A']; [|exact A'].
          exfalso. apply (lastb_None kcmp kcmp_ok) in Lb. apply Lb.
          apply in_map_iff. exists (k, e). auto.
  Qed.

  (** the keys written by a commit that creates a version are fresh *)
  Theorem commit_keys_fresh s :
    store_ok H s -> lookup (working_version s) (forest s) = None ->
    forall p, In p (node_writes s) ->
      fst (fst p) = working_version s /\ mfind kcmp (fst p) (expected_store (forest s)) = None.
  Proof.
    intros SO L p HI'. destruct (save_fresh H s SO L) as (Wpos & Fr & _).
    pose proof SO as [SI HI C FI B].
    assert (V : fst (fst p) = working_version s).
    { unfold node_writes in HI'. cbv zeta in HI'. destruct (root s) as [n|].
      - destruct (is_new n).
        + apply in_map_iff in HI'. destruct HI' as (q & <- & HI'). cbn [fst].
          apply (proj2 (assign_keys H (working_version s) n 0) q HI').
        + destruct HI' as [<-|[]]. reflexivity.
      - destruct HI' as [<-|[]]. reflexivity. }
    split; [exact V|].
    destruct (mfind kcmp (fst p) (expected_store (forest s))) as [e|] eqn:Fe; [|reflexivity].
    exfalso. apply (In_mfind kcmp kcmp_ok), expected_In_reach in Fe.
    pose proof (reach_key_version _ _ _ _ FI (contig_forest_ok s C) Fe) as [_ Ub].
    destruct (nil_or_not (forest s)) as [En|NE]; [rewrite En in Fe; contradiction|].
    assert (Il : In (latest_of (forest s)) (map fst (forest s))).
    { destruct (forest_ok_range _ _ (contig_forest_ok s C) NE) as (R1 & _).
      apply (forest_ok_In _ _ _ (contig_forest_ok s C)). split; [exact NE|lia]. }
    destruct (In_map_fst_pair _ _ Il) as [r HIr]. specialize (Fr _ _ HIr). lia.
  Qed.

  (** *** the fast index *)
  Lemma sorted_msorted (l : kvs) : sorted l <-> msorted bcmp l.
  Proof.
    induction l as [|[k v] l IH]; cbn [sorted msorted]; [tauto|]. rewrite IH.
    assert (F : Forall (fun p => k <b fst p) l <-> Forall (fun p => bcmp k (fst p) = Lt) l).
    { split; apply Forall_impl; intros p; apply bcmp_Lt. }
    rewrite F. tauto.
  Qed.

  Lemma new_leaves_In t k v : In (k, v) (new_leaves t) -> In (k, v) (elems t).
  Proof.
    induction t as [kk vv m|kk h s m l IHl r IHr]; cbn [new_leaves elems].
    - destruct (ver m =? 0); [auto|intros []].
    - rewrite !in_app_iff. tauto.
  Qed.

  Lemma elems_new_or_old t k v :
    In (k, v) (elems t) ->
    In (k, v) (new_leaves t) \/ exists m, subtree (Leaf k v m) t /\ ver m <> 0.
  Proof.
    induction t as [kk vv m|kk h s m l IHl r IHr]; cbn [new_leaves elems].
    - intros [Q|[]]. inversion Q; subst. destruct (ver m =? 0) eqn:E.
      + left. left. reflexivity.
      + right. exists m. split; [apply sub_refl|apply Z.eqb_neq, E].
    - rewrite !in_app_iff. intros [HI|HI].
      + destruct (IHl HI) as [A|(m' & S & P)]; [auto|]. right. exists m'. split; [apply sub_left, S|exact P].
      + destruct (IHr HI) as [A|(m' & S & P)]; [auto|]. right. exists m'. split; [apply sub_right, S|exact P].
  Qed.

  Lemma sub_elems u t p : subtree u t -> In p (elems u) -> In p (elems t).
  Proof.
    induction 1 as [t|u k h s m l r _ IH|u k h s m l r _ IH]; intros HI; [exact HI| |];
      cbn [elems]; apply in_or_app; auto.
  Qed.

  Lemma osorted_elems (t : option node) : oinv t -> msorted bcmp (oelems t).
  Proof.
    destruct t as [n|]; cbn [oinv oelems]; [|intros _; exact I].
    intros [W _]. apply sorted_msorted, wf_sorted, W.
  Qed.

  (** C12.5 (model level): the commit turns the index of the last saved tree into the index of
      the committed tree and labels it with the new version *)
  Theorem index_exact s d :
    store_ok H s -> lookup (working_version s) (forest s) = None ->
    fastidx d = oelems (last_saved s) ->
    fastidx (apply_ops d (commit_ops H true s)) = oelems (root (fst (do_save H s))) /\
    label (apply_ops d (commit_ops H true s)) = Some (working_version s).
  Proof.
    intros SO L E. pose proof SO as [SI HI C FI B].
    rewrite (commit_ops_new H true s L), apply_ops_app.
    rewrite (fast_other _ _ (node_ops_not_fast s)), (label_other _ _ (node_ops_not_label s)).
    unfold commit_meta_ops. rewrite !apply_ops_app. split; [|reflexivity].
    cbn [apply_ops fold_left apply_op set_label fastidx].
    rewrite fast_del_fast, fast_set_fast, E.
    destruct (do_save_new_forest H s L) as (_ & Er & _). rewrite Er.
    assert (Es : oelems (saved_root H s) = oelems (root s)).
    { unfold saved_root. destruct (root s); cbn [oelems]; [apply stamp_elems|reflexivity]. }
    rewrite Es.
    pose proof (osorted_elems _ (inv_root s SI)) as Sr.
    pose proof (osorted_elems _ (inv_saved s SI)) as Sl.
    assert (Sa : msorted bcmp (mset_all bcmp (fast_adds s) (oelems (last_saved s))))
      by (apply (msorted_mset_all bcmp bcmp_ok), Sl).
    apply (msorted_ext bcmp bcmp_ok); [apply (msorted_mdel_all bcmp), Sa|exact Sr|].
    intros k. rewrite (mfind_mdel_all bcmp bcmp_ok _ _ _ Sa), (mfind_mset_all bcmp bcmp_ok).
    (* facts about additions and removals *)
    assert (AddIn : forall v, In (k, v) (fast_adds s) -> In (k, v) (oelems (root s))).
    { unfold fast_adds. destruct (root s) as [n|]; [apply new_leaves_In|intros v []]. }
    assert (Split : forall v, In (k, v) (oelems (root s)) ->
               In (k, v) (fast_adds s) \/ In (k, v) (oelems (last_saved s))).
    { intros v HI'. unfold fast_adds. unfold based in B. destruct (root s) as [n|]; [|contradiction].
      cbn [oelems] in HI'. destruct (elems_new_or_old n k v HI') as [A|(m & S & P)]; [auto|].
      right. destruct (B _ S P) as (b & -> & Sb). cbn [oelems].
      apply (sub_elems _ _ _ Sb). left. reflexivity. }
    assert (Uniq : forall (t : option node) v v', msorted bcmp (oelems t) ->
               In (k, v) (oelems t) -> In (k, v') (oelems t) -> v = v').
    { intros t v v' St I1 I2. apply (mfind_In bcmp bcmp_ok _ _ _ St) in I1, I2. congruence. }
    assert (Rem : existsb (ceqb bcmp k) (fast_rems s) = true <->
                  In k (map fst (oelems (last_saved s))) /\ mhas bcmp k (oelems (root s)) = false).
    { rewrite (existsb_ceqb bcmp bcmp_ok). unfold fast_rems. rewrite filter_In, Bool.negb_true_iff. tauto. }
    apply option_ext. intros v.
    assert (Fr : mfind bcmp k (oelems (root s)) = Some v <-> In (k, v) (oelems (root s))).
    { split; [apply (In_mfind bcmp bcmp_ok)|apply (mfind_In bcmp bcmp_ok), Sr]. }
    rewrite Fr. split.
    - destruct (existsb (ceqb bcmp k) (fast_rems s)) eqn:X; [discriminate|].
      destruct (lastb bcmp k (fast_adds s)) as [v2|] eqn:Lb.
      + intros Q. inversion Q; subst v2. apply AddIn, (lastb_In bcmp bcmp_ok), Lb.
      + intros Fe. apply (In_mfind bcmp bcmp_ok) in Fe.
        assert (Hk : mhas bcmp k (oelems (root s)) = true).
        { destruct (mhas bcmp k (oelems (root s))) eqn:M; [reflexivity|]. exfalso.
          assert (Y : false = true).
          { apply Rem. split; [|reflexivity]. apply in_map_iff. exists (k, v). auto. }
          discriminate Y. }
        apply mhas_true in Hk. destruct Hk as [v' Fv']. apply (In_mfind bcmp bcmp_ok) in Fv'.
        destruct (Split v' Fv') as [A|A].
        * exfalso. apply (lastb_None bcmp bcmp_ok) in Lb. apply Lb. apply in_map_iff. exists (k, v'). auto.
        * rewrite (Uniq (last_saved s) v v' Sl Fe A). exact Fv'.
    - intros A.
      destruct (existsb (ceqb bcmp k) (fast_rems s)) eqn:X.
      + exfalso. destruct (proj1 Rem eq_refl) as [_ X']. unfold mhas in X'.
        rewrite (proj2 Fr A) in X'. discriminate.
      + destruct (lastb bcmp k (fast_adds s)) as [v2|] eqn:Lb.
        * f_equal. apply (lastb_In bcmp bcmp_ok) in Lb. exact (Uniq (root s) v2 v Sr (AddIn _ Lb) A).
        * destruct (Split v A) as [A'|A'].
          -- exfalso. apply (lastb_None bcmp bcmp_ok) in Lb. apply Lb. apply in_map_iff. exists (k, v). auto.
          -- apply (mfind_In bcmp bcmp_ok), A'. exact Sl.
  Qed.
End CommitExact.

(** ** The invariant holds in every state reachable within the usage contract *)
Section Reachable.
  Variable H : bytes -> bytes.

  Lemma based_leaf_new k v ls f iv a b ver0 :
    based (MState (Some (Leaf k v new_meta)) ver0 ls f iv a b).
  Proof.
    unfold based. cbn [root last_saved]. intros u S P. apply sub_leaf in S. subst u.
    cbn in P. congruence.
  Qed.

  Lemma based_same r ver0 f iv a b : based (MState r ver0 r f iv a b).
  Proof.
    unfold based. cbn [root last_saved]. destruct r as [n|]; [|exact I].
    intros u S _. exists n. auto.
  Qed.

  Lemma based_none ver0 ls f iv a b : based (MState None ver0 ls f iv a b).
  Proof. exact I. Qed.

  Lemma step_based s o : based s -> based (fst (step H s o)).
  Proof.
    intros B. destruct o as [k v|k|k| | | |v|n|v|t r|k v|v| | | | | ]; cbn [step]; try exact B.
    - (* Set *)
      unfold do_set. destruct (root s) as [n|] eqn:R.
      + pose proof (set_from_old n k v) as F. destruct (set n k v) as [n' upd]. cbn [fst] in *.
        unfold based in *. rewrite R in B. cbn [root last_saved]. intros u S P.
        apply B; [apply F; assumption|exact P].
      + cbn [fst]. apply based_leaf_new.
    - (* Remove *)
      unfold do_remove. cbv zeta. destruct (root s) as [n|] eqn:R.
      2:{ cbn [fst]. unfold based. rewrite R. exact I. }
      destruct (rm_val (remove n k)) as [val|] eqn:EV.
      2:{ cbn [fst]. unfold based. rewrite R. unfold based in B. rewrite R in B. exact B. }
      cbn [fst]. unfold based in *. rewrite R in B. cbn [root last_saved].
      destruct (rm_self (remove n k)) as [t'|] eqn:ES; [|exact I].
      intros u S P. apply B; [apply (remove_from_old n k t' ES); assumption|exact P].
    - (* Save *)
      destruct (lookup (working_version s) (forest s)) as [e|] eqn:L.
      + destruct (do_save_existing H s e L) as [E|E]; rewrite E; cbn [fst].
        * apply based_same.
        * exact B.
      + unfold do_save, version_exists. cbv zeta. rewrite L. cbn [fst]. apply based_same.
    - (* Rollback *)
      cbn [fst]. destruct (0 <? version s); [apply based_same|apply based_none].
    - (* Reopen *)
      destruct (do_reopen_cases s) as [E|[(_ & E)|(tv & r & _ & E)]]; rewrite E; cbn [fst];
        try apply based_none. apply based_same.
    - (* Load *)
      destruct (do_load_cases s v) as [E|[(_ & _ & E)|(tv & r & _ & E)]]; rewrite E; cbn [fst];
        try exact B. apply based_same.
    - (* Prune *)
      destruct (do_prune_cases s n) as [[_ E]|[_ E]]; rewrite E; cbn [fst]; exact B.
    - (* Lvfo *)
      destruct (do_lvfo_cases s v) as [E|[(_ & _ & E)|(tv & r & _ & E)]]; rewrite E; cbn [fst];
        try exact B. apply based_same.
    - destruct t as [|v]; [exact B|]. destruct (lookup v (forest s)); exact B.
    - destruct (lookup v (forest s)) as [[n|]|]; exact B.
  Qed.

  Lemma step_forest_inv s o :
    store_ok H s -> forest_inv (forest (fst (step H s o))).
  Proof.
    intros SO. pose proof SO as [SI HI C FI B].
    destruct o as [k v|k|k| | | |v|n|v|t r|k v|v| | | | | ]; cbn [step]; try exact FI.
    - destruct (do_set_same s k v) as (_ & _ & Ef & _). rewrite Ef. exact FI.
    - destruct (do_remove_same s k) as (_ & _ & Ef & _). rewrite Ef. exact FI.
    - destruct (lookup (working_version s) (forest s)) as [e|] eqn:L.
      + rewrite (do_save_old_forest H s e L). exact FI.
      + destruct (do_save_new_forest H s L) as (Ef & _). rewrite Ef.
        apply forest_inv_save; assumption.
    - rewrite do_reopen_forest. exact FI.
    - rewrite do_load_forest. exact FI.
    - destruct (do_prune_cases s n) as [[_ E]|[_ E]]; rewrite E; cbn [fst forest]; [exact FI|].
      apply forest_inv_filter, FI.
    - destruct (do_lvfo_cases s v) as [E|[(_ & _ & E)|(tv & r & _ & E)]]; rewrite E; cbn [fst forest].
      + exact FI.
      + apply forest_inv_nil.
      + apply forest_inv_filter, FI.
    - destruct t as [|v]; [exact FI|]. destruct (lookup v (forest s)); exact FI.
    - destruct (lookup v (forest s)) as [[n|]|]; exact FI.
  Qed.

  Theorem store_ok_step s o :
    store_ok H s -> in_contract s o -> store_ok H (fst (step H s o)).
  Proof.
    intros SO IC. pose proof SO as [SI HI C FI B]. constructor.
    - apply step_inv, SI.
    - apply step_hash_inv; assumption.
    - apply step_contig; assumption.
    - apply step_forest_inv, SO.
    - apply step_based, B.
  Qed.

  Theorem store_ok_run ops : forall s,
    store_ok H s -> run_ok H s ops -> store_ok H (fst (run H s ops)).
  Proof.
    induction ops as [|o ops IH]; intros s SO R; [exact SO|].
    rewrite run_cons. cbn [fst]. destruct R as [IC R]. apply IH; [|exact R].
    apply store_ok_step; assumption.
  Qed.

  Lemma store_ok_init iv b : init_ok iv b -> store_ok H (init_state iv b).
  Proof.
    intros IO. assert (0 <= iv /\ (iv <> 0 \/ b = false)) as [A1 A2].
    { unfold init_ok in IO. destruct b; split; try lia; try (right; reflexivity); try (left; lia). }
    constructor.
    - apply state_inv_init, A1.
    - apply hash_inv_init, A2.
    - apply contig_init, IO.
    - apply forest_inv_nil.
    - exact I.
  Qed.

  Theorem store_ok_reachable iv b ops :
    init_ok iv b -> run_ok H (init_state iv b) ops ->
    store_ok H (fst (run H (init_state iv b) ops)).
  Proof. intros IO R. apply store_ok_run; [apply store_ok_init, IO|exact R]. Qed.

  (** *** the exactness theorems at state level *)

  (** C12.2: after DeleteVersionsFrom the store is exactly the expected store of the versions
      up to [v] *)
  Theorem rollback_exact s d v :
    store_ok H s -> in_range s v -> nodes d = expected_store (forest s) ->
    forest (fst (step H s (OLvfo v))) = filter (fun p => fst p <=? v) (forest s) /\
    nodes (apply_ops d (rollback_ops d v)) = expected_store (forest (fst (step H s (OLvfo v)))).
  Proof.
    intros SO IR E. pose proof SO as [SI HI C FI B].
    destruct (lvfo_removes_exactly H s v C IR) as (t & _ & Es & _).
    rewrite Es. cbn [fst forest]. split; [reflexivity|].
    apply (rollback_exact_forest (forest s) (init_ver s)); auto.
    - apply contig_forest_ok, C.
    - apply (inv_nodup s SI).
    - apply (in_range_available s v C), IR.
  Qed.

  (** C12.3: after the specification-level deletion of the versions up to [n] the store is
      exactly the expected store of the later versions *)
  Theorem prune_spec_exact s d n :
    store_ok H s -> n < latest_version s -> nodes d = expected_store (forest s) ->
    forest (fst (step H s (OPrune n))) = filter (fun p => n <? fst p) (forest s) /\
    nodes (apply_ops d (prune_ops (forest s) n)) =
      expected_store (forest (fst (step H s (OPrune n)))).
  Proof.
    intros SO Ln E. pose proof SO as [SI HI C FI B]. cbn [step].
    destruct (do_prune_cases s n) as [[Ge _]|[_ Es]]; [lia|].
    rewrite Es. cbn [fst forest]. split; [reflexivity|].
    apply prune_spec_exact_forest; auto. apply (inv_nodup s SI).
  Qed.
End Reachable.

(** ** More about membership (used by CrashFacts) *)
Section SMapMore.
  Context {K V : Type}.
  Variable cmp : K -> K -> comparison.

  Lemma In_mset p k v (l : list (K * V)) : In p (mset cmp k v l) -> p = (k, v) \/ In p l.
  Proof.
    induction l as [|[k1 v1] r IH]; cbn [mset In]; [intros [E|[]]; auto|].
    destruct (cmp k k1); cbn [In].
    - intros [E|HI]; auto.
    - intros [E|[E|HI]]; auto.
    - intros [E|HI]; auto. destruct (IH HI); auto.
  Qed.

  Lemma In_mset_all p ps : forall st : list (K * V), In p (mset_all cmp ps st) -> In p ps \/ In p st.
  Proof.
    unfold mset_all. induction ps as [|[k v] r IH]; intros st; cbn [fold_left In]; [tauto|].
    intros HI. destruct (IH _ HI) as [A|A]; [tauto|]. cbn [fst snd] in A.
    apply In_mset in A. destruct A as [A|A]; auto.
  Qed.

  Lemma In_mdel p k (l : list (K * V)) : In p (mdel cmp k l) -> In p l.
  Proof.
    induction l as [|[k1 v1] r IH]; cbn [mdel In]; [tauto|].
    destruct (cmp k k1); cbn [In]; tauto.
  Qed.

  Lemma In_mdel_all p ks : forall st : list (K * V), In p (mdel_all cmp ks st) -> In p st.
  Proof.
    unfold mdel_all. induction ks as [|k r IH]; intros st; cbn [fold_left]; [tauto|].
    intros HI. apply IH in HI. apply In_mdel in HI. exact HI.
  Qed.
End SMapMore.

Lemma reach_key_nonce f k e : forest_inv f -> In (k, e) (reach f) -> 1 <= snd k.
Proof.
  intros FI HI. apply reach_In in HI.
  destruct HI as [(u & (v & t & HI & S) & -> & _)|(v & r & HI & E)].
  - unfold node_key. cbn [snd]. exact (fi_nonce f FI v t u HI S).
  - destruct (root_entry_Some _ _ _ _ E) as [-> _]. cbn [snd]. lia.
Qed.

Lemma Forall_firstn {A} (P : A -> Prop) i l : Forall P l -> Forall P (firstn i l).
Proof. intros F. rewrite Forall_forall in *. intros x HI. apply F, (In_firstn i l x HI). Qed.

(** ** Children are never younger than their parent *)
Definition child_of (c u : node) : Prop :=
  match u with Leaf _ _ _ => False | Inner _ _ _ _ l r => c = l \/ c = r end.

(** stated for persisted nodes (a new node has version 0 until it is stamped) *)
Definition ver_mono (t : node) : Prop :=
  forall u c, subtree u t -> ver (nmeta u) <> 0 -> child_of c u -> ver (nmeta c) <= ver (nmeta u).

Lemma child_subtree c u : child_of c u -> subtree c u.
Proof. destruct u as [k v m|k h s m l r]; cbn [child_of]; [tauto|]. intros [->| ->]; sub_tac. Qed.

Lemma ver_mono_from_old t b : from_old t b -> ver_mono b -> ver_mono t.
Proof. intros F M u c S P Ch. exact (M u c (F u S P) P Ch). Qed.

Lemma ver_mono_sub t u : ver_mono t -> subtree u t -> ver_mono u.
Proof. intros M S w c Sw. apply M. exact (sub_trans _ _ _ Sw S). Qed.

(** preserved by Set and Remove ... *)
Theorem set_ver_mono t k v : ver_mono t -> ver_mono (fst (set t k v)).
Proof. apply ver_mono_from_old, set_from_old. Qed.

Theorem remove_ver_mono t k t' : rm_self (remove t k) = Some t' -> ver_mono t -> ver_mono t'.
Proof. intros E. apply ver_mono_from_old, (remove_from_old t k t' E). Qed.

(** ... and by saveNewNodes, when the persisted part is older than the new version *)
Theorem stamp_ver_mono (H : bytes -> bytes) wv n t :
  wv <> 0 -> oldok wv t ->
  (forall u, subtree u t -> ver (nmeta u) <> 0 -> ver (nmeta u) < wv) ->
  ver_mono t -> ver_mono (fst (stamp H wv n t)).
Proof.
  intros Hwv O Lt M. rewrite <- assign_stamp.
  pose proof (assign_sub H wv t Hwv O n) as ASub.
  intros u c S P Ch.
  assert (Sc : subtree c (fst (fst (assign H wv n t)))) by exact (sub_trans _ _ _ (child_subtree c u Ch) S).
  destruct (ASub u S) as [(A1 & A2 & A3)|(A1 & _)].
  - exact (M u c A3 A2 Ch).
  - destruct (ASub c Sc) as [(C1 & C2 & C3)|(C1 & _)]; [|lia].
    specialize (Lt c C3 C2). lia.
Qed.

Section Mono.
  Variable H : bytes -> bytes.

  Definition mono_ok (s : mstate) : Prop :=
    forall v t, In (v, Some t) (forest s) -> ver_mono t.

  Lemma working_mono s n : store_ok H s -> mono_ok s -> root s = Some n -> ver_mono n.
  Proof.
    intros SO M R u c S P Ch. pose proof SO as [SI HI C FI B].
    assert (F : forall w, subtree w n -> ver (nmeta w) <> 0 ->
                          exists b, subtree w b /\ In (version s, Some b) (forest s)).
    { intros w Sw Pw. destruct (based_sub_of s n w C B R Sw Pw) as (b & _ & Sb & Ib). eauto. }
    destruct (F u S P) as (b & Sb & Ib). exact (M _ b Ib u c Sb P Ch).
  Qed.

  Theorem mono_ok_step s o : store_ok H s -> mono_ok s -> mono_ok (fst (step H s o)).
  Proof.
    intros SO M. pose proof SO as [SI HI C FI B].
    assert (Filt : forall p, mono_ok (MState (root s) (version s) (last_saved s) (filter p (forest s))
                                            (init_ver s) (init_set s) (init_opt s))).
    { intros p v t HI'. cbn [forest] in HI'. apply filter_In in HI'. apply (M v t), HI'. }
    destruct o as [k v|k|k| | | |v|n|v|t r|k v|v| | | | | ]; cbn [step]; try exact M.
    - destruct (do_set_same s k v) as (_ & _ & Ef & _). unfold mono_ok. rewrite Ef. exact M.
    - destruct (do_remove_same s k) as (_ & _ & Ef & _). unfold mono_ok. rewrite Ef. exact M.
    - destruct (lookup (working_version s) (forest s)) as [e|] eqn:L.
      + unfold mono_ok. rewrite (do_save_old_forest H s e L). exact M.
      + destruct (do_save_new_forest H s L) as (Ef & _). unfold mono_ok. rewrite Ef.
        intros v t HI'. apply in_app_or in HI'. destruct HI' as [HI'|[Q|[]]]; [exact (M v t HI')|].
        unfold saved_root in Q. destruct (root s) as [n|] eqn:R; [|discriminate].
        inversion Q; subst v t. destruct (save_fresh H s SO L) as (Wpos & Fr & _).
        apply stamp_ver_mono.
        * lia.
        * apply (root_oldok H s n SO L R).
        * intros u S P. destruct (based_sub_of s n u C B R S P) as (b & _ & Sb & Ib).
          pose proof (fi_ver _ FI _ _ _ Ib Sb). specialize (Fr _ _ Ib). lia.
        * apply (working_mono s n SO M R).
    - unfold mono_ok. rewrite do_reopen_forest. exact M.
    - unfold mono_ok. rewrite do_load_forest. exact M.
    - destruct (do_prune_cases s n) as [[_ E]|[_ E]]; rewrite E; cbn [fst]; [exact M|apply Filt].
    - destruct (do_lvfo_cases s v) as [E|[(_ & _ & E)|(tv & r & _ & E)]]; rewrite E; cbn [fst].
      + exact M.
      + intros w t [].
      + intros w t HI'. cbn [forest] in HI'. apply filter_In in HI'. apply (M w t), HI'.
    - destruct t as [|v]; [exact M|]. destruct (lookup v (forest s)); exact M.
    - destruct (lookup v (forest s)) as [[n|]|]; exact M.
  Qed.

  Theorem mono_ok_reachable iv b ops :
    init_ok iv b -> run_ok H (init_state iv b) ops ->
    mono_ok (fst (run H (init_state iv b) ops)).
  Proof.
    intros IO. assert (G : forall ops s, store_ok H s -> mono_ok s -> run_ok H s ops ->
                                          mono_ok (fst (run H s ops))).
    { clear ops. induction ops as [|o ops IH]; intros s SO M R; [exact M|].
      rewrite run_cons. cbn [fst]. destruct R as [IC R].
      apply IH; [apply store_ok_step; assumption|apply mono_ok_step; assumption|exact R]. }
    intros R. apply G; [apply store_ok_init, IO| |exact R]. intros v t [].
  Qed.
End Mono.

(** ** The index rebuild (enableFastStorageAndCommitIfNotEnabled) *)
Lemma osorted_elems0 (t : option node) : oinv t -> msorted bcmp (oelems t).
Proof. exact (osorted_elems (fun b => b) t). Qed.

Theorem rebuild_exact d latest (t : option node) :
  oinv t -> msorted bcmp (fastidx d) ->
  fastidx (apply_ops d (rebuild_ops d latest t)) = oelems t /\
  label (apply_ops d (rebuild_ops d latest t)) = Some latest /\
  nodes (apply_ops d (rebuild_ops d latest t)) = nodes d.
Proof.
  intros O S. unfold rebuild_ops. rewrite !apply_ops_app. split; [|split].
  - cbn [apply_ops fold_left apply_op set_label fastidx].
    rewrite fast_set_fast, fast_del_fast.
    pose proof (osorted_elems0 t O) as St.
    apply (msorted_ext bcmp bcmp_ok); [|exact St|].
    { apply (msorted_mset_all bcmp bcmp_ok), (msorted_mdel_all bcmp), S. }
    intros k. rewrite (mfind_mset_all bcmp bcmp_ok).
    assert (Gone : mfind bcmp k (mdel_all bcmp (map fst (fastidx d)) (fastidx d)) = None).
    { rewrite (mfind_mdel_all bcmp bcmp_ok _ _ _ S).
      destruct (existsb (ceqb bcmp k) (map fst (fastidx d))) eqn:X; [reflexivity|].
      apply (notin_mfind_None bcmp bcmp_ok). intros C. apply (existsb_ceqb bcmp bcmp_ok) in C. congruence. }
    rewrite Gone. apply option_ext. intros v. split.
    + destruct (lastb bcmp k (oelems t)) as [v2|] eqn:Lb; [|discriminate].
      intros Q. inversion Q; subst v2. apply (mfind_In bcmp bcmp_ok); [exact St|].
      apply (lastb_In bcmp bcmp_ok), Lb.
    + intros Fe. apply (In_mfind bcmp bcmp_ok) in Fe.
      rewrite (lastb_functional bcmp bcmp_ok k v (oelems t) Fe); [reflexivity|].
      intros v' HI. apply (mfind_In bcmp bcmp_ok _ _ _ St) in HI, Fe. congruence.
  - reflexivity.
  - cbn [apply_ops fold_left apply_op set_label nodes].
    rewrite !nodes_other; [reflexivity| |]; apply Forall_map_const; reflexivity.
Qed.

(** a cut inside the rebuild leaves the label untouched: after a rollback (label reset) the
    next reopening rebuilds again *)
Theorem rebuild_prefix_label d latest t i :
  (i < length (rebuild_ops d latest t))%nat ->
  label (apply_ops d (firstn i (rebuild_ops d latest t))) = label d /\
  nodes (apply_ops d (firstn i (rebuild_ops d latest t))) = nodes d.
Proof.
  unfold rebuild_ops. rewrite app_assoc. set (A := map del_fast _ ++ map set_fast _).
  rewrite app_length. cbn [length]. intros Li.
  assert (i <= length A)%nat by lia.
  rewrite firstn_app. replace (i - length A)%nat with 0%nat by lia. cbn [firstn]. rewrite app_nil_r.
  split.
  - apply label_other, Forall_firstn. unfold A. apply Forall_app. split; apply Forall_map_const; reflexivity.
  - apply nodes_other, Forall_firstn. unfold A. apply Forall_app. split; apply Forall_map_const; reflexivity.
Qed.

(** ** No node is older than the initial version *)
Section Lo.
  Variable H : bytes -> bytes.

  Definition forest_lo (iv : Z) (f : forest_t) : Prop :=
    forall u, sub_of f u -> iv <= ver (nmeta u).

  Definition lo_ok (s : mstate) : Prop := forest_lo (init_ver s) (forest s).

  Lemma init_ver_step s o : init_ver (fst (step H s o)) = init_ver s.
  Proof.
    destruct o as [k v|k|k| | | |v|n|v|t r|k v|v| | | | | ]; cbn [step]; try reflexivity.
    - destruct (do_set_same s k v) as (_ & _ & _ & E & _). exact E.
    - destruct (do_remove_same s k) as (_ & _ & _ & E & _). exact E.
    - destruct (lookup (working_version s) (forest s)) as [e|] eqn:L.
      + destruct (do_save_existing H s e L) as [E|E]; rewrite E; reflexivity.
      + unfold do_save, version_exists. cbv zeta. rewrite L. reflexivity.
    - destruct (do_reopen_cases s) as [E|[(_ & E)|(tv & r & _ & E)]]; rewrite E; reflexivity.
    - destruct (do_load_cases s v) as [E|[(_ & _ & E)|(tv & r & _ & E)]]; rewrite E; reflexivity.
    - destruct (do_prune_cases s n) as [[_ E]|[_ E]]; rewrite E; reflexivity.
    - destruct (do_lvfo_cases s v) as [E|[(_ & _ & E)|(tv & r & _ & E)]]; rewrite E; reflexivity.
    - destruct t as [|v]; [reflexivity|]. destruct (lookup v (forest s)); reflexivity.
    - destruct (lookup v (forest s)) as [[n|]|]; reflexivity.
  Qed.

  Theorem lo_ok_step s o : store_ok H s -> lo_ok s -> lo_ok (fst (step H s o)).
  Proof.
    intros SO M. pose proof SO as [SI HI C FI B]. unfold lo_ok. rewrite init_ver_step.
    destruct o as [k v|k|k| | | |v|n|v|t r|k v|v| | | | | ]; cbn [step]; try exact M.
    - destruct (do_set_same s k v) as (_ & _ & Ef & _). rewrite Ef. exact M.
    - destruct (do_remove_same s k) as (_ & _ & Ef & _). rewrite Ef. exact M.
    - destruct (lookup (working_version s) (forest s)) as [e|] eqn:L.
      + rewrite (do_save_old_forest H s e L). exact M.
      + pose proof (do_save_contig H s C) as C'.
        destruct (do_save_new_forest H s L) as (Ef & _). 
        pose proof (contig_forest_ok _ C') as [_ OKv]. rewrite Ef in *.
        assert (Wlo : init_ver s <= working_version s).
        { rewrite Forall_forall in OKv.
          assert (E0 : init_ver (fst (do_save H s)) = init_ver s) by exact (init_ver_step s OSave).
          rewrite E0 in OKv.
          apply (OKv (working_version s)). rewrite map_app. apply in_or_app. right. left. reflexivity. }
        intros u Su. unfold saved_root in Su. destruct (root s) as [n|] eqn:R.
        * apply sub_of_snoc_some in Su. destruct Su as [Su|Su]; [exact (M u Su)|].
          destruct (save_fresh H s SO L) as (Wpos & _ & _).
          rewrite <- assign_stamp in Su.
          destruct (assign_sub H (working_version s) n ltac:(lia) (root_oldok H s n SO L R) 0 u Su)
            as [(_ & A2 & A3)|(A1 & _)]; [|lia].
          destruct (based_sub_of s n u C B R A3 A2) as (b & _ & Sb & Ib).
          apply M. exists (version s), b. auto.
        * apply (proj1 (sub_of_snoc_none _ _ _)) in Su. exact (M u Su).
    - rewrite do_reopen_forest. exact M.
    - rewrite do_load_forest. exact M.
    - destruct (do_prune_cases s n) as [[_ E]|[_ E]]; rewrite E; cbn [fst forest]; [exact M|].
      intros u Su. apply M. eapply sub_of_filter, Su.
    - destruct (do_lvfo_cases s v) as [E|[(_ & _ & E)|(tv & r & _ & E)]]; rewrite E; cbn [fst forest].
      + exact M.
      + intros u (w & t & [] & _).
      + intros u Su. apply M. eapply sub_of_filter, Su.
    - destruct t as [|v]; [exact M|]. destruct (lookup v (forest s)); exact M.
    - destruct (lookup v (forest s)) as [[n|]|]; exact M.
  Qed.

  Theorem lo_ok_reachable iv b ops :
    init_ok iv b -> run_ok H (init_state iv b) ops ->
    lo_ok (fst (run H (init_state iv b) ops)).
  Proof.
    intros IO. assert (G : forall ops s, store_ok H s -> lo_ok s -> run_ok H s ops ->
                                          lo_ok (fst (run H s ops))).
    { clear ops. induction ops as [|o ops IH]; intros s SO M R; [exact M|].
      rewrite run_cons. cbn [fst]. destruct R as [IC R].
      apply IH; [apply store_ok_step; assumption|apply lo_ok_step; assumption|exact R]. }
    intros R. apply G; [apply store_ok_init, IO| |exact R]. intros u (w & t & [] & _).
  Qed.
End Lo.
