(** Hash facts (property C02).

    [pure_hash] is the independent specification of the IAVL+ hash: it recomputes the hash
    of every node from scratch, trusting nothing that is stored in the tree.  The code
    ([node_hash], Go's [_hash] / [hashWithCount]) trusts the hash stored in every persisted
    node, and [stamp] (Go's [saveNewNodes]) stores a hash in every node it persists.  This
    file proves that on every reachable state the two agree, that the hash returned by a
    commit is the working hash computed just before it, that it is the hash read back from
    the saved version afterwards (after reopening, loading, pruning other versions, rollback
    and redo), that the hash ignores nonces, stored hashes and routing keys, and that
    read-only operations can be erased from a history without changing any state or any
    remaining output. *)
From IAVL Require Import Bytes Varint Tree VMap TreeFacts MTree MTreeFacts.
Local Open Scope Z_scope.

(** ** Persisted subtrees *)

(** every node of [t] is persisted (Go: nodeKey <> nil) *)
Fixpoint all_persisted (t : node) : Prop :=
  match t with
  | Leaf _ _ m => ver m <> 0
  | Inner _ _ _ m l r => ver m <> 0 /\ all_persisted l /\ all_persisted r
  end.

Lemma all_persisted_root t : all_persisted t -> ver (nmeta t) <> 0.
Proof. destruct t; cbn [all_persisted nmeta]; tauto. Qed.

Inductive subtree : node -> node -> Prop :=
| sub_refl t : subtree t t
| sub_left u k h s m l r : subtree u l -> subtree u (Inner k h s m l r)
| sub_right u k h s m l r : subtree u r -> subtree u (Inner k h s m l r).

Lemma all_persisted_subtree u t : subtree u t -> all_persisted t -> all_persisted u.
Proof.
  induction 1 as [t|u k h s m l r _ IH|u k h s m l r _ IH]; intros P; [exact P| |];
    cbn [all_persisted] in P; apply IH; tauto.
Qed.

(** a persisted node has only persisted descendants *)
Definition persisted_closed (t : node) : Prop :=
  forall u, subtree u t -> ver (nmeta u) <> 0 -> all_persisted u.

Lemma eff_ver_new wv m : ver m = 0 -> eff_ver wv m = wv.
Proof. intros E. unfold eff_ver. rewrite E. reflexivity. Qed.

Lemma eff_ver_old wv m : ver m <> 0 -> eff_ver wv m = ver m.
Proof. intros E. unfold eff_ver. apply Z.eqb_neq in E. rewrite E. reflexivity. Qed.

(** ** Shape: what the hash may depend on.
    Same constructors, same key/value in the leaves, same height/size in the inner nodes,
    same effective version everywhere.  Nonces, stored hashes and routing keys are free. *)
Fixpoint shape_eq (wv : Z) (t1 t2 : node) : Prop :=
  match t1, t2 with
  | Leaf k1 v1 m1, Leaf k2 v2 m2 => k1 = k2 /\ v1 = v2 /\ eff_ver wv m1 = eff_ver wv m2
  | Inner _ h1 s1 m1 l1 r1, Inner _ h2 s2 m2 l2 r2 =>
      h1 = h2 /\ s1 = s2 /\ eff_ver wv m1 = eff_ver wv m2 /\
      shape_eq wv l1 l2 /\ shape_eq wv r1 r2
  | _, _ => False
  end.

Lemma shape_eq_refl wv t : shape_eq wv t t.
Proof. induction t; cbn [shape_eq]; auto. Qed.

Lemma shape_eq_sym wv t1 : forall t2, shape_eq wv t1 t2 -> shape_eq wv t2 t1.
Proof.
  induction t1 as [k v m|k h s m l IHl r IHr]; intros [k2 v2 m2|k2 h2 s2 m2 l2 r2];
    cbn [shape_eq]; try tauto.
  - intros (A & B & C). auto.
  - intros (A & B & C & D & E). auto 6.
Qed.

Lemma shape_eq_trans wv t1 : forall t2 t3,
  shape_eq wv t1 t2 -> shape_eq wv t2 t3 -> shape_eq wv t1 t3.
Proof.
  induction t1 as [k v m|k h s m l IHl r IHr]; intros [k2 v2 m2|k2 h2 s2 m2 l2 r2]
    [k3 v3 m3|k3 h3 s3 m3 l3 r3]; cbn [shape_eq]; try tauto.
  - intros (A & B & C) (A' & B' & C'). repeat split; congruence.
  - intros (A & B & C & D & E) (A' & B' & C' & D' & E').
    split; [congruence|]. split; [congruence|]. split; [congruence|]. split; eauto.
Qed.

(** the shape fixes the logical content, the height and the size *)
Lemma shape_eq_elems wv t1 : forall t2, shape_eq wv t1 t2 -> elems t1 = elems t2.
Proof.
  induction t1 as [k v m|k h s m l IHl r IHr]; intros [k2 v2 m2|k2 h2 s2 m2 l2 r2];
    cbn [shape_eq elems]; try tauto.
  - intros (A & B & _). subst. reflexivity.
  - intros (_ & _ & _ & D & E). rewrite (IHl _ D), (IHr _ E). reflexivity.
Qed.

Lemma shape_eq_height_size wv t1 t2 :
  shape_eq wv t1 t2 -> height t1 = height t2 /\ size t1 = size t2.
Proof.
  destruct t1, t2; cbn [shape_eq height size]; tauto.
Qed.

Section WithHash.
  Variable H : bytes -> bytes.

  (** ** The hash depends on the shape only (item 6) *)
  Theorem pure_hash_ext wv t1 : forall t2,
    shape_eq wv t1 t2 -> pure_hash H wv t1 = pure_hash H wv t2.
  Proof.
    induction t1 as [k v m|k h s m l IHl r IHr]; intros [k2 v2 m2|k2 h2 s2 m2 l2 r2];
      cbn [shape_eq pure_hash]; try tauto.
    - intros (A & B & C). subst. rewrite C. reflexivity.
    - intros (A & B & C & D & E). subst. rewrite C, (IHl _ D), (IHr _ E). reflexivity.
  Qed.

  (** on a fully persisted tree the working version is irrelevant *)
  Lemma pure_hash_persisted t : all_persisted t ->
    forall wv wv', pure_hash H wv t = pure_hash H wv' t.
  Proof.
    induction t as [k v m|k h s m l IHl r IHr]; cbn [all_persisted pure_hash]; intros P wv wv'.
    - rewrite (eff_ver_old wv m P), (eff_ver_old wv' m P). reflexivity.
    - destruct P as (Pm & Pl & Pr).
      rewrite (eff_ver_old wv m Pm), (eff_ver_old wv' m Pm), (IHl Pl wv wv'), (IHr Pr wv wv').
      reflexivity.
  Qed.

  (** ** Hash consistency of a tree (item 1) *)
  Fixpoint hash_ok (t : node) : Prop :=
    (ver (nmeta t) <> 0 -> hs (nmeta t) = pure_hash H 0 t /\ all_persisted t) /\
    match t with
    | Leaf _ _ _ => True
    | Inner _ _ _ _ l r => hash_ok l /\ hash_ok r
    end.

  Lemma hash_ok_root t :
    hash_ok t -> ver (nmeta t) <> 0 -> hs (nmeta t) = pure_hash H 0 t /\ all_persisted t.
  Proof. destruct t; intros [A _]; exact A. Qed.

  Lemma hash_ok_children k h s m l r : hash_ok (Inner k h s m l r) -> hash_ok l /\ hash_ok r.
  Proof. intros [_ A]. exact A. Qed.

  Lemma hash_ok_intro_leaf k v m :
    (ver m <> 0 -> hs m = pure_hash H 0 (Leaf k v m)) -> hash_ok (Leaf k v m).
  Proof.
    intros A. split; [|exact I]. cbn [nmeta all_persisted]. intros N. split; [exact (A N)|exact N].
  Qed.

  Lemma hash_ok_intro_inner k h s m l r :
    (ver m <> 0 -> hs m = pure_hash H 0 (Inner k h s m l r) /\ all_persisted (Inner k h s m l r)) ->
    hash_ok l -> hash_ok r -> hash_ok (Inner k h s m l r).
  Proof. intros A B C. split; [exact A|split; assumption]. Qed.

  Lemma hash_ok_new_leaf k v : hash_ok (Leaf k v new_meta).
  Proof. apply hash_ok_intro_leaf. cbn [new_meta ver]. intros C. contradiction C. reflexivity. Qed.

  Lemma hash_ok_new_inner k h s l r :
    hash_ok l -> hash_ok r -> hash_ok (Inner k h s new_meta l r).
  Proof.
    intros A B. apply hash_ok_intro_inner; try assumption.
    cbn [new_meta ver]. intros C. contradiction C. reflexivity.
  Qed.

  Lemma hash_ok_mk k l r : hash_ok l -> hash_ok r -> hash_ok (mk k l r).
  Proof. unfold mk. apply hash_ok_new_inner. Qed.

  (** the formulation by subtrees: every persisted subtree stores its structural hash and
      is persisted all the way down *)
  Lemma hash_ok_subtrees t :
    hash_ok t <->
    (forall u, subtree u t -> ver (nmeta u) <> 0 ->
               hs (nmeta u) = pure_hash H 0 u /\ all_persisted u).
  Proof.
    split.
    - intros Hok u Hsub. revert Hok.
      induction Hsub as [t|u k h s m l r _ IH|u k h s m l r _ IH]; intros Hok.
      + apply hash_ok_root, Hok.
      + apply IH. apply (hash_ok_children _ _ _ _ _ _ Hok).
      + apply IH. apply (hash_ok_children _ _ _ _ _ _ Hok).
    - induction t as [k v m|k h s m l IHl r IHr]; intros A.
      + apply hash_ok_intro_leaf. intros N. apply (A _ (sub_refl _) N).
      + apply hash_ok_intro_inner.
        * apply (A _ (sub_refl _)).
        * apply IHl. intros u S. apply A. apply sub_left, S.
        * apply IHr. intros u S. apply A. apply sub_right, S.
  Qed.

  Lemma hash_ok_persisted_closed t : hash_ok t -> persisted_closed t.
  Proof. intros Hok u S N. apply (proj1 (hash_ok_subtrees t) Hok u S N). Qed.

  Lemma hash_ok_subtree u t : subtree u t -> hash_ok t -> hash_ok u.
  Proof.
    induction 1 as [t|u k h s m l r _ IH|u k h s m l r _ IH]; intros Hok; [exact Hok| |];
      apply IH; apply (hash_ok_children _ _ _ _ _ _ Hok).
  Qed.

  (** ** The code's hash is the structural hash (item 2) *)
  Lemma node_hash_leaf wv k v m :
    node_hash H wv (Leaf k v m) =
      if negb (is_new (Leaf k v m)) then hs m else H (leaf_preimage H wv k v).
  Proof. reflexivity. Qed.

  Lemma node_hash_inner wv k h s m l r :
    node_hash H wv (Inner k h s m l r) =
      if negb (is_new (Inner k h s m l r)) then hs m
      else H (inner_preimage h s wv (node_hash H wv l) (node_hash H wv r)).
  Proof. reflexivity. Qed.

  Lemma node_hash_stored wv t : ver (nmeta t) <> 0 -> node_hash H wv t = hs (nmeta t).
  Proof.
    intros N. apply Z.eqb_neq in N.
    destruct t; [rewrite node_hash_leaf|rewrite node_hash_inner]; unfold is_new; rewrite N;
      reflexivity.
  Qed.

  Theorem node_hash_pure wv t : hash_ok t -> node_hash H wv t = pure_hash H wv t.
  Proof.
    induction t as [k v m|k h s m l IHl r IHr]; intros Hok.
    - destruct (Z.eq_dec (ver m) 0) as [E|N].
      + rewrite node_hash_leaf. unfold is_new. cbn [nmeta]. rewrite E. cbn [Z.eqb negb pure_hash].
        rewrite (eff_ver_new wv m E). reflexivity.
      + rewrite (node_hash_stored wv (Leaf k v m) N).
        destruct (hash_ok_root _ Hok N) as [Hh Pa]. rewrite Hh.
        apply pure_hash_persisted, Pa.
    - destruct (Z.eq_dec (ver m) 0) as [E|N].
      + destruct (hash_ok_children _ _ _ _ _ _ Hok) as [Hl Hr].
        rewrite node_hash_inner. unfold is_new. cbn [nmeta]. rewrite E. cbn [Z.eqb negb pure_hash].
        rewrite (eff_ver_new wv m E), (IHl Hl), (IHr Hr). reflexivity.
      + rewrite (node_hash_stored wv (Inner k h s m l r) N).
        destruct (hash_ok_root _ Hok N) as [Hh Pa]. rewrite Hh.
        apply pure_hash_persisted, Pa.
  Qed.

  (** the hash of a persisted consistent tree does not depend on the working version *)
  Lemma node_hash_saved t wv :
    hash_ok t -> all_persisted t -> node_hash H wv t = pure_hash H 0 t.
  Proof.
    intros Hok P. rewrite (node_hash_pure wv t Hok). apply pure_hash_persisted, P.
  Qed.

  (** ** Stamping (saveNewNodes) (item 3) *)
  Lemma stamp_spec wv t : wv <> 0 -> hash_ok t -> forall n,
    hash_ok (fst (stamp H wv n t)) /\
    all_persisted (fst (stamp H wv n t)) /\
    hs (nmeta (fst (stamp H wv n t))) = pure_hash H wv t /\
    pure_hash H 0 (fst (stamp H wv n t)) = pure_hash H wv t.
  Proof.
    intros Hwv.
    assert (EV : forall a b, eff_ver 0 (Meta wv a b) = wv).
    { intros a b. apply eff_ver_old. exact Hwv. }
    induction t as [k v m|k h s m l IHl r IHr]; intros Hok n.
    - rewrite stamp_leaf. unfold is_new. cbn [nmeta].
      destruct (ver m =? 0) eqn:E; cbn [negb fst].
      + apply Z.eqb_eq in E.
        assert (P0 : pure_hash H 0 (Leaf k v (Meta wv (n + 1) (H (leaf_preimage H wv k v)))) =
                     pure_hash H wv (Leaf k v m)).
        { cbn [pure_hash]. rewrite EV, (eff_ver_new wv m E). reflexivity. }
        split; [|split; [|split]].
        * apply hash_ok_intro_leaf. intros _. cbn [hs]. rewrite P0. cbn [pure_hash].
          rewrite (eff_ver_new wv m E). reflexivity.
        * cbn [all_persisted ver]. exact Hwv.
        * cbn [nmeta hs pure_hash]. rewrite (eff_ver_new wv m E). reflexivity.
        * exact P0.
      + apply Z.eqb_neq in E. destruct (hash_ok_root _ Hok E) as [Hh Pa]. cbn [nmeta] in Hh.
        split; [exact Hok|]. split; [exact Pa|]. cbn [nmeta]. rewrite Hh.
        split; apply pure_hash_persisted, Pa.
    - rewrite stamp_inner. unfold is_new. cbn [nmeta].
      destruct (ver m =? 0) eqn:E; cbn [negb].
      + apply Z.eqb_eq in E. destruct (hash_ok_children _ _ _ _ _ _ Hok) as [Hl Hr].
        specialize (IHl Hl (n + 1)). destruct (stamp H wv (n + 1) l) as [l' n1].
        specialize (IHr Hr n1). destruct (stamp H wv n1 r) as [r' n2].
        cbn [fst] in *.
        destruct IHl as (Ol & Pl & Sl & Ql). destruct IHr as (Or & Pr & Sr & Qr).
        rewrite Sl, Sr.
        assert (P0 : pure_hash H 0
                       (Inner k h s (Meta wv (n + 1)
                          (H (inner_preimage h s wv (pure_hash H wv l) (pure_hash H wv r)))) l' r') =
                     pure_hash H wv (Inner k h s m l r)).
        { cbn [pure_hash]. rewrite EV, Ql, Qr, (eff_ver_new wv m E). reflexivity. }
        assert (PA : all_persisted
                       (Inner k h s (Meta wv (n + 1)
                          (H (inner_preimage h s wv (pure_hash H wv l) (pure_hash H wv r)))) l' r')).
        { cbn [all_persisted ver]. auto. }
        split; [|split; [|split]].
        * apply hash_ok_intro_inner; try assumption. intros _. split; [|exact PA].
          cbn [hs]. rewrite P0. cbn [pure_hash]. rewrite (eff_ver_new wv m E). reflexivity.
        * exact PA.
        * cbn [nmeta hs pure_hash]. rewrite (eff_ver_new wv m E). reflexivity.
        * exact P0.
      + apply Z.eqb_neq in E. destruct (hash_ok_root _ Hok E) as [Hh Pa]. cbn [nmeta] in Hh.
        cbn [fst]. split; [exact Hok|]. split; [exact Pa|]. cbn [nmeta]. rewrite Hh.
        split; apply pure_hash_persisted, Pa.
  Qed.

  (** The hash stored in the root by the commit is the working hash computed just before
      it, and both are the structural hash of the working tree. *)
  Theorem stamp_hash_ok wv n t : hash_ok t -> 0 < wv ->
    hash_ok (fst (stamp H wv n t)) /\
    all_persisted (fst (stamp H wv n t)) /\
    hs (nmeta (fst (stamp H wv n t))) = pure_hash H wv t /\
    hs (nmeta (fst (stamp H wv n t))) = node_hash H wv t.
  Proof.
    intros Hok Hwv. assert (Hne : wv <> 0) by lia.
    destruct (stamp_spec wv t Hne Hok n) as (A & B & C & _).
    rewrite (node_hash_pure wv t Hok). auto.
  Qed.

  (** stamping changes nothing the hash depends on *)
  Lemma stamp_shape_eq wv t : wv <> 0 -> forall n, shape_eq wv t (fst (stamp H wv n t)).
  Proof.
    intros Hwv. induction t as [k v m|k h s m l IHl r IHr]; intros n.
    - rewrite stamp_leaf. unfold is_new. cbn [nmeta].
      destruct (ver m =? 0) eqn:E; cbn [negb fst]; [|apply shape_eq_refl].
      apply Z.eqb_eq in E. cbn [shape_eq].
      rewrite (eff_ver_new wv m E), eff_ver_old by exact Hwv. auto.
    - rewrite stamp_inner. unfold is_new. cbn [nmeta].
      destruct (ver m =? 0) eqn:E; cbn [negb fst]; [|apply shape_eq_refl].
      apply Z.eqb_eq in E.
      specialize (IHl (n + 1)). destruct (stamp H wv (n + 1) l) as [l' n1].
      specialize (IHr n1). destruct (stamp H wv n1 r) as [r' n2].
      cbn [fst] in *. cbn [shape_eq].
      rewrite (eff_ver_new wv m E), eff_ver_old by exact Hwv. auto 6.
  Qed.

  Lemma stamp_pure_hash wv n t :
    wv <> 0 -> pure_hash H wv (fst (stamp H wv n t)) = pure_hash H wv t.
  Proof. intros Hwv. symmetry. apply pure_hash_ext, stamp_shape_eq, Hwv. Qed.

  (** ** The writes preserve hash consistency (item 4) *)
  Ltac new_nodes :=
    repeat first [ assumption | apply hash_ok_new_leaf | apply hash_ok_new_inner ].

  Lemma rotR_hash_ok t : hash_ok t -> hash_ok (rotR t).
  Proof.
    intros Hok. destruct t as [k v m|k h s m l r]; [exact Hok|].
    destruct l as [lk lv lm|lk lh ls lm ll lr]; [exact Hok|].
    destruct (hash_ok_children _ _ _ _ _ _ Hok) as [Hl Hr].
    destruct (hash_ok_children _ _ _ _ _ _ Hl) as [Hll Hlr].
    unfold rotR, mk. new_nodes.
  Qed.

  Lemma rotL_hash_ok t : hash_ok t -> hash_ok (rotL t).
  Proof.
    intros Hok. destruct t as [k v m|k h s m l r]; [exact Hok|].
    destruct r as [rk rv rm|rk rh rs rm rl rr]; [exact Hok|].
    destruct (hash_ok_children _ _ _ _ _ _ Hok) as [Hl Hr].
    destruct (hash_ok_children _ _ _ _ _ _ Hr) as [Hrl Hrr].
    unfold rotL, mk. new_nodes.
  Qed.

  Theorem balance_hash_ok t : hash_ok t -> hash_ok (balance t).
  Proof.
    intros Hok. destruct t as [k v m|k h s m l r]; [exact Hok|].
    destruct (hash_ok_children _ _ _ _ _ _ Hok) as [Hl Hr].
    unfold balance.
    destruct (1 <? height l - height r) eqn:E1.
    - destruct (0 <=? bal_of l) eqn:E2; [apply rotR_hash_ok, Hok|].
      destruct l as [lk lv lm|lk lh ls lm ll lr]; [exact Hok|].
      destruct (hash_ok_children _ _ _ _ _ _ Hl) as [Hll Hlr].
      destruct lr as [ak av am|ak ah asz am al ar].
      + unfold rotL, rotR, mk. new_nodes.
      + destruct (hash_ok_children _ _ _ _ _ _ Hlr) as [Hal Har].
        unfold rotL, rotR, mk. new_nodes.
    - destruct (height l - height r <? -1) eqn:E3; [|exact Hok].
      destruct (bal_of r <=? 0) eqn:E2; [apply rotL_hash_ok, Hok|].
      destruct r as [rk rv rm|rk rh rs rm rl rr]; [exact Hok|].
      destruct (hash_ok_children _ _ _ _ _ _ Hr) as [Hrl Hrr].
      destruct rl as [ak av am|ak ah asz am al ar].
      + unfold rotR, rotL, mk. new_nodes.
      + destruct (hash_ok_children _ _ _ _ _ _ Hrl) as [Hal Har].
        unfold rotR, rotL, mk. new_nodes.
  Qed.

  Theorem set_hash_ok t k v : hash_ok t -> hash_ok (fst (set t k v)).
  Proof.
    induction t as [lk lv m|nk h s m l IHl r IHr]; intros Hok; cbn [set].
    - destruct (bcmp k lk); cbn [fst]; new_nodes.
    - destruct (hash_ok_children _ _ _ _ _ _ Hok) as [Hl Hr].
      destruct (blt k nk).
      + specialize (IHl Hl). destruct (set l k v) as [l' upd]. cbn [fst] in IHl.
        destruct upd; cbn [fst]; [new_nodes|]. apply balance_hash_ok, hash_ok_mk; assumption.
      + specialize (IHr Hr). destruct (set r k v) as [r' upd]. cbn [fst] in IHr.
        destruct upd; cbn [fst]; [new_nodes|]. apply balance_hash_ok, hash_ok_mk; assumption.
  Qed.

  Theorem remove_hash_ok t k :
    hash_ok t -> forall t', rm_self (remove t k) = Some t' -> hash_ok t'.
  Proof.
    induction t as [lk lv m|nk h s m l IHl r IHr]; intros Hok t'; cbn [remove]; cbv zeta.
    - destruct (beq k lk); cbn [rm_self]; intros E; [discriminate E|].
      injection E as <-. exact Hok.
    - destruct (hash_ok_children _ _ _ _ _ _ Hok) as [Hl Hr].
      destruct (blt k nk).
      + specialize (IHl Hl).
        destruct (rm_val (remove l k)) as [val|].
        * destruct (rm_self (remove l k)) as [l'|]; cbn [rm_self]; intros E; injection E as <-.
          -- apply balance_hash_ok, hash_ok_mk; [apply IHl; reflexivity|exact Hr].
          -- exact Hr.
        * cbn [rm_self]. intros E. injection E as <-. exact Hok.
      + specialize (IHr Hr).
        destruct (rm_val (remove r k)) as [val|].
        * destruct (rm_self (remove r k)) as [r'|]; cbn [rm_self]; intros E; injection E as <-.
          -- apply balance_hash_ok, hash_ok_mk; [exact Hl|apply IHr; reflexivity].
          -- exact Hl.
        * cbn [rm_self]. intros E. injection E as <-. exact Hok.
  Qed.

  (** Two persisted consistent trees of the same shape store the same root hash, whatever
      their nonces and routing keys (re-keying by export/import or pruning keeps the hash). *)
  Theorem saved_hash_ext t1 t2 :
    hash_ok t1 -> hash_ok t2 -> all_persisted t1 -> all_persisted t2 ->
    shape_eq 0 t1 t2 -> hs (nmeta t1) = hs (nmeta t2).
  Proof.
    intros O1 O2 P1 P2 S.
    destruct (hash_ok_root t1 O1 (all_persisted_root t1 P1)) as [E1 _].
    destruct (hash_ok_root t2 O2 (all_persisted_root t2 P2)) as [E2 _].
    rewrite E1, E2. apply pure_hash_ext, S.
  Qed.
End WithHash.

(** ** State level *)

(** a working tree: hash-consistent *)
Definition onode_ok (H : bytes -> bytes) (t : option node) : Prop :=
  match t with None => True | Some n => hash_ok H n end.

(** a saved tree: hash-consistent and persisted all the way down *)
Definition osaved (H : bytes -> bytes) (t : option node) : Prop :=
  match t with None => True | Some n => hash_ok H n /\ all_persisted n end.

(** The independent specification of the root hash: recompute everything. *)
Definition opure_hash (H : bytes -> bytes) (wv : Z) (t : option node) : bytes :=
  match t with None => H [] | Some n => pure_hash H wv n end.

Record hash_inv (H : bytes -> bytes) (s : mstate) : Prop := HashInv {
  hi_root : onode_ok H (root s);
  hi_saved : osaved H (last_saved s);
  hi_forest : Forall (fun p => osaved H (snd p)) (forest s);
  (* the initial version, whenever it can be used, is not 0 (version 0 is "new" in the model) *)
  hi_init : init_set s = true \/ init_opt s = true -> init_ver s <> 0
}.

(** ** Read-only operations (item 5) *)
Definition read_only (o : op) : bool :=
  match o with
  | ORead _ _ | OGetVersioned _ _ | OVersionExists _ | OLatest | OAvailable
  | OWorkingHash | OWorkingVersion | OHash => true
  | _ => false
  end.

Definition erase (ops : list op) : list op := filter (fun o => negb (read_only o)) ops.

(** the outputs of the operations that survive [erase] *)
Fixpoint erase_outs (ops : list op) (xs : list out) : list out :=
  match ops, xs with
  | o :: ops', x :: xs' =>
      if read_only o then erase_outs ops' xs' else x :: erase_outs ops' xs'
  | _, _ => []
  end.

(** operations that can only change the working tree *)
Definition root_only (o : op) : bool :=
  match o with
  | OSet _ _ | OSetNil _ | ORemove _ => true
  | _ => read_only o
  end.

(** operations that cannot delete version [v] *)
Definition keeps (v : Z) (o : op) : bool :=
  match o with
  | OPrune n => n <? v
  | OLvfo w => v <=? w
  | _ => true
  end.

(** the working tree carries no uncommitted change *)
Definition clean (s : mstate) : Prop :=
  root s = (if 0 <? version s then last_saved s else None).

Section StateHash.
  Variable H : bytes -> bytes.

  Lemma hash_inv_intro r ver ls f iv a b :
    onode_ok H r -> osaved H ls -> Forall (fun p => osaved H (snd p)) f ->
    (a = true \/ b = true -> iv <> 0) -> hash_inv H (MState r ver ls f iv a b).
  Proof. intros. constructor; assumption. Qed.

  Lemma osaved_onode t : osaved H t -> onode_ok H t.
  Proof. destruct t; cbn [osaved onode_ok]; tauto. Qed.

  Lemma hash_inv_init iv b : iv <> 0 \/ b = false -> hash_inv H (init_state iv b).
  Proof.
    intros C. unfold init_state. apply hash_inv_intro; cbn [onode_ok osaved]; auto.
    intros [E|E]; destruct C as [C|C]; congruence.
  Qed.

  Lemma hash_inv_lookup s v t : hash_inv H s -> lookup v (forest s) = Some t -> osaved H t.
  Proof.
    intros HI L. apply lookup_In in L. pose proof (hi_forest H s HI) as F.
    rewrite Forall_forall in F. exact (F _ L).
  Qed.

  Lemma working_version_pos s : state_inv s -> hash_inv H s -> 0 < working_version s.
  Proof.
    intros SI HI. pose proof (inv_version s SI) as V. pose proof (inv_init s SI) as IV.
    unfold working_version. destruct ((version s + 1 =? 1) && init_set s) eqn:E; [|lia].
    apply andb_prop in E. destruct E as [_ E].
    pose proof (hi_init H s HI (or_introl E)). lia.
  Qed.

  (** *** root hash lemmas *)
  Lemma root_hash_pure wv t : onode_ok H t -> root_hash H wv t = opure_hash H wv t.
  Proof. destruct t as [n|]; cbn [onode_ok root_hash opure_hash]; [apply node_hash_pure|reflexivity]. Qed.

  Lemma root_hash_saved wv t : osaved H t -> root_hash H wv t = opure_hash H 0 t.
  Proof.
    destruct t as [n|]; cbn [osaved root_hash opure_hash]; [|reflexivity].
    intros [A B]. apply node_hash_saved; assumption.
  Qed.

  Lemma root_hash_saved_any wv wv' t : osaved H t -> root_hash H wv t = root_hash H wv' t.
  Proof. intros S. rewrite (root_hash_saved wv t S), (root_hash_saved wv' t S). reflexivity. Qed.

  Lemma root_hash_stored wv n : all_persisted n -> root_hash H wv (Some n) = hs (nmeta n).
  Proof. intros P. cbn [root_hash]. apply node_hash_stored, all_persisted_root, P. Qed.

  (** *** every operation preserves the invariant *)
  Lemma do_set_hash_inv s k v : hash_inv H s -> hash_inv H (fst (do_set s k v)).
  Proof.
    intros HI. pose proof (hi_root H s HI) as Hr. unfold do_set.
    destruct (root s) as [n|].
    - cbn [onode_ok] in Hr. pose proof (set_hash_ok H n k v Hr) as Hn.
      destruct (set n k v) as [n' upd]. cbn [fst] in *.
      apply hash_inv_intro; try apply HI. exact Hn.
    - cbn [fst]. apply hash_inv_intro; try apply HI. cbn [onode_ok]. apply hash_ok_new_leaf.
  Qed.

  Lemma do_remove_hash_inv s k : hash_inv H s -> hash_inv H (fst (do_remove s k)).
  Proof.
    intros HI. pose proof (hi_root H s HI) as Hr. unfold do_remove. cbv zeta.
    destruct (root s) as [n|] eqn:R; [|exact HI].
    cbn [onode_ok] in Hr.
    destruct (rm_val (remove n k)) as [val|]; [|exact HI].
    cbn [fst]. apply hash_inv_intro; try apply HI.
    destruct (rm_self (remove n k)) as [t'|] eqn:E; cbn [onode_ok]; [|exact I].
    exact (remove_hash_ok H n k Hr t' E).
  Qed.

  Lemma stamped_osaved s :
    state_inv s -> hash_inv H s ->
    osaved H (match root s with
              | None => None
              | Some n => Some (fst (stamp H (working_version s) 0 n))
              end).
  Proof.
    intros SI HI. pose proof (working_version_pos s SI HI) as Hwv.
    pose proof (hi_root H s HI) as Hr.
    destruct (root s) as [n|]; cbn [osaved onode_ok] in *; [|exact I].
    destruct (stamp_hash_ok H (working_version s) 0 n Hr Hwv) as (A & B & _). auto.
  Qed.

  Lemma do_save_hash_inv s : state_inv s -> hash_inv H s -> hash_inv H (fst (do_save H s)).
  Proof.
    intros SI HI.
    assert (Hi : false = true \/ init_opt s = true -> init_ver s <> 0).
    { intros [C|C]; [discriminate C|]. apply (hi_init H s HI). right. exact C. }
    destruct (lookup (working_version s) (forest s)) as [e|] eqn:L.
    - pose proof (hash_inv_lookup s _ e HI L) as Oe.
      destruct (do_save_existing H s e L) as [E|E]; rewrite E; cbn [fst];
        apply hash_inv_intro; try apply HI; try assumption.
      apply osaved_onode, Oe.
    - pose proof (stamped_osaved s SI HI) as Or.
      unfold do_save, version_exists. cbv zeta. rewrite L. cbn [fst].
      apply hash_inv_intro; try assumption.
      + apply osaved_onode, Or.
      + apply Forall_app. split; [apply HI|]. constructor; [exact Or|constructor].
  Qed.

  Lemma do_load_hash_inv s v : hash_inv H s -> hash_inv H (fst (do_load s v)).
  Proof.
    intros HI. destruct (do_load_cases s v) as [E|[(_ & _ & E)|(tv & r & L & E)]]; rewrite E;
      cbn [fst]; try exact HI.
    pose proof (hash_inv_lookup s tv r HI L) as Or.
    apply hash_inv_intro; try apply HI; try assumption. apply osaved_onode, Or.
  Qed.

  Lemma do_prune_hash_inv s n : hash_inv H s -> hash_inv H (fst (do_prune s n)).
  Proof.
    intros HI. destruct (do_prune_cases s n) as [[_ E]|[_ E]]; rewrite E; cbn [fst]; [exact HI|].
    apply hash_inv_intro; try apply HI. apply Forall_filter_keep, HI.
  Qed.

  Lemma do_lvfo_hash_inv s v : hash_inv H s -> hash_inv H (fst (do_lvfo s v)).
  Proof.
    intros HI. pose proof (do_load_hash_inv s v HI) as HI'. unfold do_lvfo.
    destruct (do_load s v) as [s' x]. cbn [fst] in HI'.
    destruct x; cbn [fst]; try exact HI'.
    apply hash_inv_intro; try apply HI'. apply Forall_filter_keep, HI'.
  Qed.

  Lemma do_reopen_hash_inv s : hash_inv H s -> hash_inv H (fst (do_reopen s)).
  Proof.
    intros HI. unfold do_reopen. cbv zeta.
    set (fresh := MState None 0 None (forest s) (init_ver s) (init_opt s) (init_opt s)).
    assert (HI0 : hash_inv H fresh).
    { unfold fresh. apply hash_inv_intro; cbn [onode_ok osaved]; auto; [apply HI|].
      intros C. apply (hi_init H s HI). right. destruct C; assumption. }
    pose proof (do_load_hash_inv fresh 0 HI0) as HI'.
    destruct (do_load fresh 0) as [s' x]. cbn [fst] in HI'.
    destruct x; cbn [fst]; exact HI'.
  Qed.

  Lemma rollback_hash_inv s :
    hash_inv H s ->
    hash_inv H (MState (if 0 <? version s then last_saved s else None) (version s) (last_saved s)
                       (forest s) (init_ver s) (init_set s) (init_opt s)).
  Proof.
    intros HI. apply hash_inv_intro; try apply HI.
    destruct (0 <? version s); [apply osaved_onode, HI | exact I].
  Qed.

  (** *** read-only operations do not change the state *)
  Theorem step_read_only s o : read_only o = true -> fst (step H s o) = s.
  Proof.
    destruct o as [k v|k|k| | | |v|n|v|t r|k v|v| | | | | ]; cbn [read_only]; intros E;
      try discriminate E; cbn [step]; try reflexivity.
    - destruct t as [|v]; [reflexivity|]. destruct (lookup v (forest s)); reflexivity.
    - destruct (lookup v (forest s)) as [[n|]|]; reflexivity.
  Qed.

  Theorem step_hash_inv s o :
    state_inv s -> hash_inv H s -> hash_inv H (fst (step H s o)).
  Proof.
    intros SI HI. destruct (read_only o) eqn:RO; [rewrite (step_read_only s o RO); exact HI|].
    destruct o as [k v|k|k| | | |v|n|v|t r|k v|v| | | | | ]; cbn [read_only] in RO;
      try discriminate RO; cbn [step].
    - apply do_set_hash_inv, HI.
    - exact HI.
    - apply do_remove_hash_inv, HI.
    - apply do_save_hash_inv; assumption.
    - cbn [fst]. apply rollback_hash_inv, HI.
    - apply do_reopen_hash_inv, HI.
    - apply do_load_hash_inv, HI.
    - apply do_prune_hash_inv, HI.
    - apply do_lvfo_hash_inv, HI.
  Qed.

  Theorem run_hash_inv ops : forall s,
    state_inv s -> hash_inv H s ->
    state_inv (fst (run H s ops)) /\ hash_inv H (fst (run H s ops)).
  Proof.
    induction ops as [|o ops IH]; intros s SI HI; cbn [run]; [split; assumption|].
    pose proof (step_inv H s o SI) as SI1. pose proof (step_hash_inv s o SI HI) as HI1.
    destruct (step H s o) as [s1 x]. cbn [fst] in SI1, HI1.
    specialize (IH s1 SI1 HI1). destruct (run H s1 ops) as [s2 xs]. exact IH.
  Qed.

  (** Every reachable state is hash-consistent.  ([init_state 0 true] is excluded: its first
      commit is version 0, which the model cannot tell from "new".) *)
  Theorem hash_inv_reachable iv ivset ops :
    0 <= iv -> iv <> 0 \/ ivset = false ->
    state_inv (fst (run H (init_state iv ivset) ops)) /\
    hash_inv H (fst (run H (init_state iv ivset) ops)).
  Proof.
    intros Hiv C. apply run_hash_inv; [apply state_inv_init, Hiv | apply hash_inv_init, C].
  Qed.

  (** hence: on every reachable state the working hash the code computes (trusting stored
      hashes) is the from-scratch structural hash of the working tree, and the hash of every
      retained version is the from-scratch hash of that version's tree. *)
  Theorem reachable_hashes_pure iv ivset ops :
    0 <= iv -> iv <> 0 \/ ivset = false ->
    let s := fst (run H (init_state iv ivset) ops) in
    snd (step H s OWorkingHash) =
      XBytes (Some (opure_hash H (working_version s) (root s))) /\
    snd (step H s OHash) = XBytes (Some (opure_hash H 0 (last_saved s))) /\
    (forall v t, lookup v (forest s) = Some t ->
       snd (step H s (ORead (TVersion v) RHash)) = XBytes (Some (opure_hash H 0 t))).
  Proof.
    intros Hiv C s. destruct (hash_inv_reachable iv ivset ops Hiv C) as [SI HI]. fold s in SI, HI.
    split; [|split].
    - cbn [step snd]. rewrite (root_hash_pure _ _ (hi_root H s HI)). reflexivity.
    - cbn [step snd]. rewrite (root_hash_saved _ _ (hi_saved H s HI)). reflexivity.
    - intros v t L. cbn [step]. rewrite L. cbn [snd tree_read].
      rewrite (root_hash_saved _ _ (hash_inv_lookup s v t HI L)). reflexivity.
  Qed.

  (** *** erasing read-only operations *)
  Theorem run_erase ops : forall s,
    run H s (erase ops) = (fst (run H s ops), erase_outs ops (snd (run H s ops))).
  Proof.
    induction ops as [|o ops IH]; intros s; cbn [erase filter run erase_outs fst snd]; [reflexivity|].
    fold (erase ops).
    destruct (read_only o) eqn:RO; cbn [negb].
    - pose proof (step_read_only s o RO) as E.
      destruct (step H s o) as [s1 x]. cbn [fst] in E. subst s1.
      rewrite IH. destruct (run H s ops) as [s2 xs]. cbn [fst snd erase_outs]. rewrite ?RO.
      reflexivity.
    - cbn [run]. destruct (step H s o) as [s1 x]. rewrite IH.
      destruct (run H s1 ops) as [s2 xs]. cbn [fst snd erase_outs]. rewrite ?RO. reflexivity.
  Qed.

  Corollary run_erase_state s ops : fst (run H s ops) = fst (run H s (erase ops)).
  Proof. rewrite run_erase. reflexivity. Qed.

  Corollary run_erase_outs s ops :
    snd (run H s (erase ops)) = erase_outs ops (snd (run H s ops)).
  Proof. rewrite run_erase. reflexivity. Qed.

  (** two histories that differ only by read-only calls, interleaved anywhere, reach the
      same state and give the same outputs (hence the same hashes) for all other calls *)
  Corollary same_writes_same_hashes s ops1 ops2 :
    erase ops1 = erase ops2 ->
    fst (run H s ops1) = fst (run H s ops2) /\
    erase_outs ops1 (snd (run H s ops1)) = erase_outs ops2 (snd (run H s ops2)).
  Proof.
    intros E. split.
    - rewrite (run_erase_state s ops1), (run_erase_state s ops2), E. reflexivity.
    - rewrite <- (run_erase_outs s ops1), <- (run_erase_outs s ops2), E. reflexivity.
  Qed.

  Lemma run_app s a b :
    run H s (a ++ b) =
      (fst (run H (fst (run H s a)) b), snd (run H s a) ++ snd (run H (fst (run H s a)) b)).
  Proof.
    revert s. induction a as [|o a IH]; intros s; cbn [app run fst snd].
    - destruct (run H s b); reflexivity.
    - destruct (step H s o) as [s1 x]. rewrite IH.
      destruct (run H s1 a) as [s2 xs]. cbn [fst snd app]. reflexivity.
  Qed.

  (** *** the commit (item 3 at state level) *)

  (** The commit either fails (only when the version already exists with another hash) or
      returns exactly the working hash computed just before it. *)
  Theorem save_returns_working_hash s :
    state_inv s -> hash_inv H s ->
    (version_exists s (working_version s) = false ->
       snd (step H s OSave) = XPair (snd (step H s OWorkingHash)) (XInt (working_version s))) /\
    (snd (step H s OSave) = XErr \/
     snd (step H s OSave) = XPair (snd (step H s OWorkingHash)) (XInt (working_version s))).
  Proof.
    intros SI HI. pose proof (working_version_pos s SI HI) as Hwv.
    assert (N : version_exists s (working_version s) = false ->
       snd (step H s OSave) = XPair (snd (step H s OWorkingHash)) (XInt (working_version s))).
    { intros VE. cbn [step snd]. unfold do_save. cbv zeta. rewrite VE. cbn [snd].
      pose proof (hi_root H s HI) as Hr.
      destruct (root s) as [n|]; [|reflexivity].
      cbn [onode_ok] in Hr.
      destruct (stamp_hash_ok H (working_version s) 0 n Hr Hwv) as (A & B & C & D).
      rewrite (root_hash_stored _ _ B), D. reflexivity. }
    split; [exact N|].
    destruct (version_exists s (working_version s)) eqn:VE; [|right; apply N; reflexivity].
    unfold version_exists in VE.
    destruct (lookup (working_version s) (forest s)) as [e|] eqn:L; [|discriminate VE].
    cbn [step]. destruct (do_save_existing H s e L) as [E|E]; rewrite E; cbn [snd]; auto.
  Qed.

  (** After a successful commit, [Hash()], [WorkingHash()] and the hash read from the saved
      version all return the hash the commit returned; the saved version is retained and the
      state is clean. *)
  Theorem save_then_hashes s h v :
    state_inv s -> hash_inv H s ->
    snd (step H s OSave) = XPair (XBytes (Some h)) (XInt v) ->
    let s' := fst (step H s OSave) in
    v = working_version s /\
    snd (step H s OWorkingHash) = XBytes (Some h) /\
    h = opure_hash H v (root s) /\
    snd (step H s' OHash) = XBytes (Some h) /\
    snd (step H s' OWorkingHash) = XBytes (Some h) /\
    snd (step H s' (ORead (TVersion v) RHash)) = XBytes (Some h) /\
    lookup v (forest s') = Some (root s') /\ last_saved s' = root s' /\ version s' = v /\
    clean s'.
  Proof.
    intros SI HI E s'.
    destruct (save_returns_working_hash s SI HI) as [_ [C|C]]; [rewrite C in E; discriminate E|].
    rewrite C in E. cbn [step snd] in E.
    assert (Ev : working_version s = v) by (injection E; auto).
    assert (Ehh : h = root_hash H (working_version s) (root s)) by (injection E; auto).
    clear E. subst v.
    pose proof (working_version_pos s SI HI) as Hwv.
    pose proof (step_hash_inv s OSave SI HI) as HI'. fold s' in HI'.
    (* the shape of the new state *)
    assert (S : lookup (working_version s) (forest s') = Some (root s') /\
                last_saved s' = root s' /\ version s' = working_version s /\
                forall w, root_hash H w (root s') = h).
    { unfold s'. cbn [step]. unfold do_save in *. cbv zeta in *.
      destruct (version_exists s (working_version s)) eqn:VE.
      - unfold version_exists in VE.
        destruct (lookup (working_version s) (forest s)) as [e|] eqn:L; [|discriminate VE].
        pose proof (hash_inv_lookup s _ e HI L) as Oe.
        cbn [step] in C. unfold do_save in C. cbv zeta in C. unfold version_exists in C.
        rewrite L in C.
        destruct e as [e|].
        + destruct (list_eq_dec N.eq_dec (hs (nmeta e))
                      (root_hash H (working_version s) (root s))) as [Q|Q];
            [|cbn [snd] in C; discriminate C].
          cbn [fst root last_saved version forest]. repeat split; try assumption.
          intros w. cbn [osaved] in Oe. rewrite (root_hash_stored w e (proj2 Oe)). congruence.
        + destruct (root s) as [n|]; [cbn [snd] in C; discriminate C|].
          cbn [fst root last_saved version forest]. repeat split; try assumption.
          intros w. subst h. reflexivity.
      - unfold version_exists in VE.
        destruct (lookup (working_version s) (forest s)) as [e|] eqn:L; [discriminate VE|].
        cbn [fst root last_saved version forest].
        split; [rewrite (lookup_snoc _ _ _ _ L), Z.eqb_refl; reflexivity|].
        repeat split.
        pose proof (hi_root H s HI) as Hr. intros w.
        destruct (root s) as [n|]; [|subst h; reflexivity].
        cbn [onode_ok] in Hr.
        destruct (stamp_hash_ok H (working_version s) 0 n Hr Hwv) as (A & B & C' & D).
        rewrite (root_hash_stored _ _ B), D. subst h. reflexivity. }
    destruct S as (S1 & S2 & S3 & S4).
    split; [reflexivity|]. split; [cbn [step snd]; congruence|].
    split; [rewrite Ehh; apply root_hash_pure, HI|].
    split; [cbn [step snd]; rewrite S2, S4; reflexivity|].
    split; [cbn [step snd]; rewrite S4; reflexivity|].
    split; [cbn [step]; rewrite S1; cbn [snd tree_read]; rewrite S4; reflexivity|].
    split; [exact S1|]. split; [exact S2|]. split; [exact S3|].
    unfold clean. rewrite S3, S2. replace (0 <? working_version s) with true; [reflexivity|].
    symmetry. apply Z.ltb_lt, Hwv.
  Qed.

  (** *** retained versions never change (item 7) *)
  Lemma do_load_forest s v : forest (fst (do_load s v)) = forest s.
  Proof.
    destruct (do_load_cases s v) as [E|[(_ & _ & E)|(tv & r & L & E)]]; rewrite E; reflexivity.
  Qed.

  Lemma do_reopen_forest s : forest (fst (do_reopen s)) = forest s.
  Proof.
    destruct (do_reopen_cases s) as [E|[(_ & E)|(tv & r & L & E)]]; rewrite E; reflexivity.
  Qed.

  (** reopening the database or loading a version leaves every retained version untouched *)
  Theorem reopen_load_keep_versions s v :
    lookup v (forest (fst (step H s OReopen))) = lookup v (forest s) /\
    forall w, lookup v (forest (fst (step H s (OLoad w)))) = lookup v (forest s).
  Proof.
    cbn [step]. rewrite do_reopen_forest. split; [reflexivity|].
    intros w. rewrite do_load_forest. reflexivity.
  Qed.

  Theorem step_keeps v o s t :
    keeps v o = true -> lookup v (forest s) = Some t ->
    lookup v (forest (fst (step H s o))) = Some t.
  Proof.
    intros K L. destruct (read_only o) eqn:RO; [rewrite (step_read_only s o RO); exact L|].
    destruct o as [k v'|k|k| | | |w|n|w|tg r|k v'|w| | | | | ]; cbn [read_only] in RO;
      try discriminate RO; cbn [step keeps] in *.
    - unfold do_set. destruct (root s) as [n|]; [destruct (set n k v')|]; exact L.
    - exact L.
    - unfold do_remove. cbv zeta. destruct (root s) as [n|]; [|exact L].
      destruct (rm_val (remove n k)); exact L.
    - apply do_save_keeps, L.
    - exact L.
    - rewrite do_reopen_forest. exact L.
    - rewrite do_load_forest. exact L.
    - destruct (do_prune_cases s n) as [[_ E]|[_ E]]; rewrite E; cbn [fst forest]; [exact L|].
      rewrite lookup_filter_gt, K. exact L.
    - destruct (do_lvfo_cases s w) as [E|[(F & _ & E)|(tv & r & _ & E)]]; rewrite E;
        cbn [fst forest]; [exact L| |].
      + rewrite F in L. discriminate L.
      + rewrite lookup_filter_le, K. exact L.
  Qed.

  Theorem run_keeps v ops : forall s t,
    forallb (keeps v) ops = true -> lookup v (forest s) = Some t ->
    lookup v (forest (fst (run H s ops))) = Some t.
  Proof.
    induction ops as [|o ops IH]; intros s t K L; cbn [run]; [exact L|].
    cbn [forallb] in K. apply andb_prop in K. destruct K as [Ko K].
    pose proof (step_keeps v o s t Ko L) as L1.
    destruct (step H s o) as [s1 x]. cbn [fst] in L1.
    specialize (IH s1 t K L1). destruct (run H s1 ops) as [s2 xs]. exact IH.
  Qed.

  (** The hash of a retained version is the same whenever it is read: after any history
      that does not delete that version (reopening, loading other versions, more commits,
      rollbacks, pruning of other versions). *)
  Theorem version_hash_stable v ops s t :
    forallb (keeps v) ops = true -> lookup v (forest s) = Some t ->
    snd (step H (fst (run H s ops)) (ORead (TVersion v) RHash)) =
    snd (step H s (ORead (TVersion v) RHash)).
  Proof.
    intros K L. pose proof (run_keeps v ops s t K L) as L'.
    cbn [step]. rewrite L, L'. reflexivity.
  Qed.

  (** in particular the hash returned by a commit is what is read back later *)
  Theorem commit_hash_read_back s h v ops :
    state_inv s -> hash_inv H s ->
    snd (step H s OSave) = XPair (XBytes (Some h)) (XInt v) ->
    forallb (keeps v) ops = true ->
    snd (step H (fst (run H (fst (step H s OSave)) ops)) (ORead (TVersion v) RHash)) =
      XBytes (Some h).
  Proof.
    intros SI HI E K.
    destruct (save_then_hashes s h v SI HI E) as (_ & _ & _ & _ & _ & R & L & _).
    rewrite (version_hash_stable v ops _ _ K L). exact R.
  Qed.

  (** *** rollback and redo *)
  Lemma step_root_only s o : root_only o = true -> same_but_root s (fst (step H s o)).
  Proof.
    intros RO. destruct (read_only o) eqn:R.
    - rewrite (step_read_only s o R). unfold same_but_root. repeat split; reflexivity.
    - destruct o as [k v|k|k| | | |v|n|v|t r|k v|v| | | | | ]; cbn [read_only root_only] in *;
        try discriminate R; try discriminate RO; cbn [step]; unfold same_but_root.
      + unfold do_set. destruct (root s) as [n|]; [destruct (set n k v)|]; cbn [fst];
          repeat split; reflexivity.
      + repeat split; reflexivity.
      + unfold do_remove. cbv zeta. destruct (root s) as [n|]; [|repeat split; reflexivity].
        destruct (rm_val (remove n k)); cbn [fst]; repeat split; reflexivity.
  Qed.

  Lemma run_root_only ops : forall s,
    forallb root_only ops = true -> same_but_root s (fst (run H s ops)).
  Proof.
    induction ops as [|o ops IH]; intros s K; cbn [run].
    - unfold same_but_root. repeat split; reflexivity.
    - cbn [forallb] in K. apply andb_prop in K. destruct K as [Ko K].
      pose proof (step_root_only s o Ko) as S1.
      destruct (step H s o) as [s1 x]. cbn [fst] in S1.
      specialize (IH s1 K). destruct (run H s1 ops) as [s2 xs]. cbn [fst] in *.
      unfold same_but_root in *.
      destruct S1 as (A1 & A2 & A3 & A4 & A5 & A6). destruct IH as (B1 & B2 & B3 & B4 & B5 & B6).
      repeat split; congruence.
  Qed.

  (** uncommitted writes followed by a rollback restore the clean state exactly *)
  Theorem rollback_undoes_writes s ws :
    clean s -> forallb root_only ws = true -> fst (run H s (ws ++ [ORollback])) = s.
  Proof.
    intros C K. rewrite run_app. cbn [fst].
    pose proof (run_root_only ws s K) as S. destruct (run H s ws) as [s1 xs]. cbn [fst] in *.
    cbn [run step fst].
    destruct S as (A1 & A2 & A3 & A4 & A5 & A6). rewrite A1, A2, A3, A4, A5, A6.
    unfold clean in C. rewrite <- C. destruct s; reflexivity.
  Qed.

  (** ... so whatever is done afterwards (the redo) gives the same states and outputs,
      in particular the same hashes, as if the rolled-back writes had never happened *)
  Theorem rollback_redo s ws ops :
    clean s -> forallb root_only ws = true ->
    fst (run H s (ws ++ [ORollback] ++ ops)) = fst (run H s ops) /\
    snd (run H s (ws ++ [ORollback] ++ ops)) =
      snd (run H s (ws ++ [ORollback])) ++ snd (run H s ops).
  Proof.
    intros C K. rewrite app_assoc, run_app. cbn [fst snd].
    rewrite (rollback_undoes_writes s ws C K). auto.
  Qed.
End StateHash.
