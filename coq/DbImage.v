(** M2b: the BYTE-LEVEL database image.

    The glue between the entry-level database of Store.v / PruneAlgo.v / FastLife.v (node store
    [nodekey -> entry], fast index [key -> (version, value)], storage label) and the bytes of
    Codec.v, as ONE pair of functions:

    - [encode_image st fi l]: the list of (db key, db value) pairs an ordered key-value store
      holding that database returns when it is iterated from the first key to the last
      (keys ascending in [bcmp] order: prefix 'f' = 102 (fast index), then 'm' = 109 (label), then
      's' = 115 (nodes and root entries));
    - [decode_image img]: what the code sees in such a list: every pair is classified by the
      prefix and the length of its key and decoded with the Codec decoders ([parse_node_key],
      [classify_root], [decode_node], [decode_fast_node], [parse_storage_label]); [None] as soon as
      one recognised pair does not decode; pairs with another prefix are ignored
      ([image_unknown] counts them);
    - [open_image H iv img]: what a NEW tree object sees when it opens the database (no cache,
      nothing remembered): [decode_image], then the discovery of the version range
      (Discover.discovered_range: greatest key, binary search over the root keys), the check of
      Options.InitialVersion done by LoadVersion, then PruneAlgo.load_version (GetRoot, GetNode down
      to the leaves, leaf hashes recomputed with [H]) of every discovered version.

    DbImageFacts.v: [decode_image (encode_image st fi l) = Some (st, fi, l)], the image is sorted
    and determines the database, and the end-to-end theorem: for every reachable state the image of
    its physical store opens to exactly the retained forest.

    These functions replace the hand-written OCaml glue of the harness (driver.ml [encode_db],
    [decode_raw_nodes]): same bytes, same classification.

    Not modelled: legacy (hash-keyed, prefix 'n' / 'o' / 'r') entries - ignored as unknown; inner
    nodes with a legacy child ([RefLegacy]) do not decode. *)
From IAVL Require Import Bytes Varint Tree MTree Store Codec PruneAlgo FastLife Discover.
Local Open Scope Z_scope.

Notation image := (list (bytes * bytes)) (only parsing).

(** ** Encoding *)

(** what node.go writeBytes is given for a stored node: a leaf has height 0 and size 1, no hash
    and no children; an inner node has its hash and the node keys of its two children *)
Definition raw_of_snode (n : snode) : raw_node :=
  match n with
  | SLeaf k v => mk_raw_node 0 1 k (Some v) [] RefNone RefNone
  | SInner k h s hash l r =>
      mk_raw_node h s k None hash (RefNew (fst l) (snd l)) (RefNew (fst r) (snd r))
  end.

(** the value stored under node key [k] (the key is not part of the value) *)
Definition encode_entry (k : nodekey) (e : entry) : bytes :=
  match e with
  | ENode n => encode_node (raw_of_snode n)
  | ERef r => root_ref_value (fst r) (snd r)
  | EEmpty => root_empty_value
  end.

Definition node_db_key (k : nodekey) : bytes := db_node_key (node_key_bytes (fst k) (snd k)).

Definition encode_store (st : store) : image :=
  map (fun p => (node_db_key (fst p), encode_entry (fst p) (snd p))) st.

Definition encode_fast (fi : findex) : image :=
  map (fun p => (db_fast_key (fst p), encode_fast_node (fst (snd p)) (snd (snd p)))) fi.

(** [None]: the default storage version, nothing is stored *)
Definition encode_label (l : option Z) : image :=
  match l with
  | None => []
  | Some v => [(db_meta_key, fast_storage_label v)]
  end.

(** in db-key order: 'f' < 'm' < 's' *)
Definition encode_image (st : store) (fi : findex) (l : option Z) : image :=
  encode_fast fi ++ encode_label l ++ encode_store st.

(** ** Decoding *)

Inductive ikind :=
| IKNode (nk : bytes)      (* 's' + 12 bytes *)
| IKFast (key : bytes)     (* 'f' + key *)
| IKLabel                  (* 'm' + "storage_version" *)
| IKOther.

Definition classify_key (k : bytes) : ikind :=
  match k with
  | [] => IKOther
  | p :: rest =>
      if (p =? prefix_node)%N then
        if (length rest =? 12)%nat then IKNode rest else IKOther
      else if (p =? prefix_fast)%N then IKFast rest
      else if beq k db_meta_key then IKLabel
      else IKOther
  end.

Definition child_key (c : child_ref) : option nodekey :=
  match c with
  | RefNew v n => Some (v, n)
  | _ => None
  end.

(** a decoded node as a store entry; a decoded leaf carries its value ([MakeNode]: height 0), its
    stored size is not kept (Go does not check it either) *)
Definition snode_of_raw (n : raw_node) : option snode :=
  match rn_value n with
  | Some v => Some (SLeaf (rn_key n) v)
  | None =>
      match child_key (rn_left n), child_key (rn_right n) with
      | Some l, Some r => Some (SInner (rn_key n) (rn_height n) (rn_size n) (rn_hash n) l r)
      | _, _ => None
      end
  end.

(** the value under the 12-byte node key [nk]: classified as GetRoot does ([classify_root]);
    anything that is neither empty nor a reference is a node body ([MakeNode]) *)
Definition decode_entry (nk v : bytes) : option entry :=
  match classify_root v with
  | RootEmpty => Some EEmpty
  | RootRef13 rv rn => Some (ERef (rv, rn))
  | RootRef9 rv => Some (ERef (rv, 1))
  | RootBadRef => None
  | RootNode =>
      match decode_node nk v with
      | DOk n =>
          match snode_of_raw n with
          | Some sn => Some (ENode sn)
          | None => None
          end
      | _ => None
      end
  end.

(** the stored label: below "1.1.0" the store has not been upgraded ([None]); otherwise it must be
    "<storage version>-<latest>" *)
Definition decode_label (v : bytes) : option (option Z) :=
  if has_fast_storage v then
    match parse_storage_label v with
    | Some (_, Some z) => Some (Some z)
    | _ => None
    end
  else Some None.

(** one pair in front of an already decoded database *)
Definition decode_pair (k v : bytes) (d : list ((Z * Z) * entry) * list (bytes * (Z * bytes)) * option Z)
  : option (list ((Z * Z) * entry) * list (bytes * (Z * bytes)) * option Z) :=
  let '(st, fi, l) := d in
  match classify_key k with
  | IKNode nk =>
      match parse_node_key nk, decode_entry nk v with
      | DOk key, Some e => Some ((key, e) :: st, fi, l)
      | _, _ => None
      end
  | IKFast key =>
      match decode_fast_node key v with
      | DOk n => Some (st, (key, (fn_version n, fn_value n)) :: fi, l)
      | _ => None
      end
  | IKLabel =>
      match decode_label v with
      | Some l' => Some (st, fi, l')
      | None => None
      end
  | IKOther => Some d
  end.

(** total; the pairs keep the order of the image *)
Fixpoint decode_image (img : image)
  : option (list ((Z * Z) * entry) * list (bytes * (Z * bytes)) * option Z) :=
  match img with
  | [] => Some ([], [], None)
  | (k, v) :: rest =>
      match decode_image rest with
      | Some d => decode_pair k v d
      | None => None
      end
  end.

(** the pairs [decode_image] ignores *)
Definition image_unknown (img : image) : nat :=
  length (filter (fun p => match classify_key (fst p) with IKOther => true | _ => false end) img).

(** ** The guards under which a database is encodable (DbImageFacts.decode_encode_image) *)

Definition int64b (z : Z) : bool := (- 2 ^ 63 <=? z) && (z <? 2 ^ 63).
Definition uint32b (z : Z) : bool := (0 <=? z) && (z <? 2 ^ 32).
Definition short_b (b : bytes) : bool := (N.of_nat (length b) <? 2 ^ 63 - 1)%N.
(** a storage key: the version is non-negative (the byte order of the keys is then the order of
    (version, nonce)) *)
Definition skey_okb (k : nodekey) : bool := (0 <=? fst k) && (fst k <? 2 ^ 63) && uint32b (snd k).
(** a node key stored inside a value *)
Definition ref_okb (k : nodekey) : bool := int64b (fst k) && uint32b (snd k).

Definition snode_okb (n : snode) : bool :=
  match n with
  | SLeaf k v => short_b k && short_b v
  | SInner k h s hash l r =>
      (1 <=? h) && (h <=? 127) && int64b s && short_b k && (length hash =? 32)%nat &&
      ref_okb l && ref_okb r
  end.

Definition entry_okb (e : entry) : bool :=
  match e with
  | ENode n => snode_okb n
  | ERef k => ref_okb k
  | EEmpty => true
  end.

Definition store_okb (st : store) : bool :=
  forallb (fun p => skey_okb (fst p) && entry_okb (snd p)) st.

Definition fast_okb (fi : findex) : bool :=
  forallb (fun p => int64b (fst (snd p)) && short_b (snd (snd p))) fi.

Definition label_okb (l : option Z) : bool :=
  match l with None => true | Some v => 0 <=? v end.

Definition image_ok (st : store) (fi : findex) (l : option Z) : bool :=
  store_okb st && fast_okb fi && label_okb l.

(** ** Opening the database with a new tree object *)

Inductive dbres (A : Type) : Type :=
| DbOk (a : A)
| DbBadImage                 (* a recognised pair does not decode *)
| DbSearchFuel               (* the binary search for the first version ran out of fuel *)
| DbInitial (first : Z)      (* "initial version set to iv, but found earlier version first" *)
| DbLoadFailed (v : Z).      (* a discovered version does not load *)
Arguments DbOk {A} a.
Arguments DbBadImage {A}.
Arguments DbSearchFuel {A}.
Arguments DbInitial {A} first.
Arguments DbLoadFailed {A} v.

Section Open.
  Variable H : bytes -> bytes.

  (** every version of the discovered range with what loading it gives (GetRoot, then GetNode down
      to the leaves; fuel = more than the number of stored entries, as in [PruneAlgo.readable]) *)
  Definition open_store (iv : Z) (st : store) : dbres (list (Z * pres (option node))) :=
    match discovered_range st with
    | None => DbSearchFuel
    | Some (first, latest) =>
        (* LoadVersion: firstVersion > 0 && firstVersion < InitialVersion *)
        if (0 <? first) && (first <? iv) then DbInitial first
        else if latest =? 0 then DbOk []
        else DbOk (map (fun v => (v, load_version H (S (length st)) st v))
                      (versions_from_to first latest))
    end.

  Definition open_image (iv : Z) (img : image) : dbres (list (Z * pres (option node))) :=
    match decode_image img with
    | None => DbBadImage
    | Some (st, _, _) => open_store iv st
    end.

  (** all the discovered versions must load: the forest, or the first version that does not *)
  Fixpoint all_loaded (l : list (Z * pres (option node))) : dbres (list (Z * option node)) :=
    match l with
    | [] => DbOk []
    | (v, POk t) :: rest =>
        match all_loaded rest with
        | DbOk f => DbOk ((v, t) :: f)
        | e => e
        end
    | (v, _) :: _ => DbLoadFailed v
    end.

  Definition open_forest (iv : Z) (img : image) : dbres (list (Z * option node)) :=
    match open_image iv img with
    | DbOk l => all_loaded l
    | DbBadImage => DbBadImage
    | DbSearchFuel => DbSearchFuel
    | DbInitial f => DbInitial f
    | DbLoadFailed v => DbLoadFailed v
    end.
End Open.
