(** PruneAlgoFacts: the physical DeleteVersionsTo of nodedb.go (PruneAlgo.v) refines its
    specification (Store.v) - summary file.

    Files: PruneAlgoFacts1 (order of the maximal common subtrees of two BSTs), 2 (stores described
    by their lookups, the physical store of a forest, safe disks), 3 (the invariant of the write
    batch, the single writes of deleteVersion), 4 (node iterator, root key cache, the traversal
    loop), 5 (deleteVersion), 6 (the loop over the versions), 7 (final store, reading a disk back),
    8 (forest-level theorems for forests without look-alike nodes), 9 (look-alike nodes give a hash
    collision), 10 (THE MAIN THEOREMS at state level, Stages 1-4, the swapped-order variant, boolean
    checkers), 11 (Stage 6: the physical store along a history), 12 (Stage 5: effective-mode runs
    are plain-mode runs), 13 (Stage 2: the keys that disappear are those [prune_version_ops] deletes).

    This file restates the main theorems in full (proofs: [exact]), prints their assumptions, and
    evaluates them on a concrete SHA-256 history. *)
From Coq Require Import Lia Sorted.
From IAVL Require Import Bytes Varint Sha256 Tree VMap TreeFacts MTree MTreeFacts HashFacts
  VersionFacts Ics23Facts Store StoreFacts PruneAlgo PruneAlgoFacts1 PruneAlgoFacts2 PruneAlgoFacts3
  PruneAlgoFacts4 PruneAlgoFacts5 PruneAlgoFacts6 PruneAlgoFacts7 PruneAlgoFacts8 PruneAlgoFacts9
  PruneAlgoFacts10 PruneAlgoFacts11 PruneAlgoFacts12 PruneAlgoFacts13.
Local Open Scope Z_scope.

(** ** The statements *)

(** Stage 1: the physical store of a forest reads every version back; so does every [disk_ok]
    (= [safe]) store, the generalisation needed for the lagging disk *)
Theorem PA_phys_readable :
  forall (H : bytes -> bytes) (s : mstate) (r : list Z),
    store_ok H s -> rekey_ok r (forest s) ->
    readable H (phys_of r (forest s)) (forest s) = true.
Proof. exact phys_readable. Qed.

Theorem PA_disk_ok_readable :
  forall (H : bytes -> bytes) (f : forest_t) (d : store),
    forest_inv f -> (forall w t, In (w, Some t) f -> wf t) -> leaf_hashes H f ->
    disk_ok f d -> readable H d f = true.
Proof. exact disk_ok_readable. Qed.

(** Stage 2: one deleteVersion on the first version, any schedule, either flush mode: POk with
    [prune_fuel], the effective result is the physical store of the rest (with the explicit list of
    re-keyed versions [rk_next]), every disk state met is [disk_ok] for the rest *)
Theorem PA_delete_version_first :
  forall (H : bytes -> bytes) (f : forest_t) (iv : Z) (r : list Z) (sched : list bool) (eff : bool)
         (v : Z) (rv rn : option node) (f'' : forest_t),
    forest_inv f -> NoDup (map fst f) -> forest_ok f iv ->
    (forall w t, In (w, Some t) f -> wf t) -> no_confusion H f ->
    f = (v, rv) :: (v + 1, rn) :: f'' -> rekey_ok r f ->
    exists p' c',
      delete_version H (prune_fuel (phys_of r f)) v
        (Pdb (phys_of r f) [] sched [] [] eff [] [phys_of r f]) rkc_new = (POk p', c') /\
      let f' := (v + 1, rn) :: f'' in
      disk (pflush p') = phys_of (rk_next v rn r) f' /\
      Forall (disk_ok f') (dhist (pflush p')).
Proof. exact delete_version_first. Qed.

(** Stage 2, the deleted keys: the keys present in the physical store before deleteVersion(v) and
    absent from its effective result (by [PA_delete_version_first]: [phys_of (rk_next v rn r) f'])
    are exactly the keys deleted by [Store.prune_version_ops f v] that were present *)
Theorem PA_version_keys_exact :
  forall (f : forest_t) (iv : Z),
    forest_inv f -> NoDup (map fst f) -> forest_ok f iv ->
    forall (v : Z) (rv rn : option node) (f'' : forest_t) (r : list Z),
      f = (v, rv) :: (v + 1, rn) :: f'' -> rekey_ok r f ->
      forall k,
        (mfind kcmp k (phys_of r f) <> None /\
         mfind kcmp k (phys_of (rk_next v rn r) ((v + 1, rn) :: f'')) = None) <->
        (In k (del_keys (prune_version_ops f v)) /\ mfind kcmp k (phys_of r f) <> None).
Proof. exact version_keys_exact. Qed.

(** Stage 3: THE MAIN THEOREM *)
Theorem PA_prune_refines :
  forall (H : bytes -> bytes), (forall x, length (H x) = 32%nat) ->
  forall (s : mstate) (r : list Z) (sched : list bool) (eff : bool) (n : Z),
    store_ok H s -> forest_bounds (forest s) ->
    rekey_ok r (forest s) -> n < latest_version s ->
    (exists st' log fl,
       prune_forest H eff r (forest s) sched n = POk (st', log, fl) /\
       let f' := filter (fun p => n <? fst p) (forest s) in
       st' = phys_of (rekeyed st') f' /\ rekey_ok (rekeyed st') f' /\
       norm_store st' = expected_store f')
    \/ collision H.
Proof. exact prune_refines. Qed.

Theorem PA_prune_refines_reachable :
  forall (H : bytes -> bytes), (forall x, length (H x) = 32%nat) ->
  forall (iv : Z) (b : bool) (ops : list op) (r : list Z) (sched : list bool) (eff : bool) (n : Z),
    init_ok iv b -> run_ok H (init_state iv b) ops ->
    let s := fst (run H (init_state iv b) ops) in
    forest_bounds (forest s) -> rekey_ok r (forest s) -> n < version s -> n < latest_version s ->
    (exists st' log fl,
       prune_forest H eff r (forest s) sched n = POk (st', log, fl) /\
       let f' := filter (fun p => n <? fst p) (forest s) in
       st' = phys_of (rekeyed st') f' /\ rekey_ok (rekeyed st') f' /\
       norm_store st' = expected_store f')
    \/ collision H.
Proof. exact prune_refines_reachable. Qed.

(** the same without any hypothesis on the hash function: the alternative is an explicit pair of
    different nodes of one tree with the same iterator hash *)
Theorem PA_prune_forest_or_confusion :
  forall (H : bytes -> bytes) (f : forest_t) (iv : Z),
    forest_inv f -> NoDup (map fst f) -> forest_ok f iv -> (forall w t, In (w, Some t) f -> wf t) ->
    forall (r : list Z) (sched : list bool) (eff : bool) (n : Z),
      rekey_ok r f -> n < latest_of_forest f ->
      (exists st' log fl,
         prune_forest H eff r f sched n = POk (st', log, fl) /\
         let f' := filter (fun p => n <? fst p) f in
         st' = phys_of (rekeyed st') f' /\ rekey_ok (rekeyed st') f' /\
         norm_store st' = expected_store f')
      \/ confusion H f.
Proof. exact prune_forest_or_confusion. Qed.

(** corollary: the final store does not depend on the schedule (nor on the flush mode) *)
Theorem PA_prune_schedule_independent :
  forall (H : bytes -> bytes), (forall x, length (H x) = 32%nat) ->
  forall (s : mstate) (r : list Z) (sched1 : list bool) (eff1 : bool) (sched2 : list bool) (eff2 : bool)
         (n : Z) st1 log1 fl1 st2 log2 fl2,
    store_ok H s -> forest_bounds (forest s) ->
    rekey_ok r (forest s) -> n < latest_version s ->
    prune_forest H eff1 r (forest s) sched1 n = POk (st1, log1, fl1) ->
    prune_forest H eff2 r (forest s) sched2 n = POk (st2, log2, fl2) ->
    st1 = st2 \/ collision H.
Proof. exact prune_schedule_independent. Qed.

(** Stage 4: safety at every moment *)
Theorem PA_prune_safe_at_every_moment :
  forall (H : bytes -> bytes), (forall x, length (H x) = 32%nat) ->
  forall (s : mstate) (r : list Z) (sched : list bool) (eff : bool) (n : Z),
    store_ok H s -> forest_bounds (forest s) ->
    rekey_ok r (forest s) -> n < latest_version s ->
    (exists disks,
       prune_forest_disks H eff r (forest s) sched n = POk disks /\
       Forall (fun d => readable H d (filter (fun p => n <? fst p) (forest s)) = true) disks)
    \/ collision H.
Proof. exact prune_safe_at_every_moment. Qed.

Theorem PA_prune_safe_reachable :
  forall (H : bytes -> bytes), (forall x, length (H x) = 32%nat) ->
  forall (iv : Z) (b : bool) (ops : list op) (r : list Z) (sched : list bool) (eff : bool) (n : Z),
    init_ok iv b -> run_ok H (init_state iv b) ops ->
    let s := fst (run H (init_state iv b) ops) in
    forest_bounds (forest s) -> rekey_ok r (forest s) -> n < version s -> n < latest_version s ->
    (exists disks,
       prune_forest_disks H eff r (forest s) sched n = POk disks /\
       Forall (fun d => readable H d (filter (fun p => n <? fst p) (forest s)) = true) disks)
    \/ collision H.
Proof. exact prune_safe_reachable. Qed.

(** Stage 6: the physical store along every in-contract history, all oracles *)
Theorem PA_phys_run_reachable :
  forall (H : bytes -> bytes), (forall x, length (H x) = 32%nat) ->
  forall (fast : bool) (iv : Z) (b : bool) (ops : list op) (orcs : list (list bool * bool)),
    init_ok iv b -> run_ok H (init_state iv b) ops -> bounded_run H (init_state iv b) ops ->
    Forall phys_inv (phys_trace H fast (init_state iv b) [] ops orcs) \/ collision H.
Proof. exact phys_run_reachable. Qed.

Theorem PA_phys_step_inv :
  forall (H : bytes -> bytes), (forall x, length (H x) = 32%nat) ->
  forall (fast : bool) (s : mstate) (st : store) (o : op) (orc : list bool * bool),
    store_ok H s -> in_contract s o -> forest_bounds (forest s) -> phys_inv (s, st) ->
    phys_inv (fst (step H s o), phys_step H fast s st o orc) \/ collision H.
Proof. exact phys_step_inv. Qed.

(** Stage 5: a run whose schedule is indexed by the EFFECTIVE writes is the run of a schedule
    indexed by the writes issued (one boolean per write: [false] at every ineffective deletion,
    the next boolean of the given schedule at every effective write, [false] once it is exhausted;
    built in [PruneAlgoFacts12.simp_pwrite]): same disk, batch, writes, effective writes and disk
    history.  (Stages 3, 4 and 6 above are stated for both modes directly.) *)
Theorem PA_eff_run_is_plain_run :
  forall (H : bytes -> bytes) (fuel : nat) (vs : list Z) (st : store) (schedule : list bool) (c : rkc),
    exists schedule',
      twr (delete_range H fuel vs (Pdb st [] schedule [] [] true [] [st]) c)
          (delete_range H fuel vs (Pdb st [] schedule' [] [] false [] [st]) c).
Proof. exact eff_run_is_plain_run. Qed.

Theorem PA_eff_disks_plain :
  forall (H : bytes -> bytes) (st : store) (schedule : list bool) (first latest to : Z),
    exists schedule',
      prune_phys_disks H true st schedule first latest to =
      prune_phys_disks H false st schedule' first latest to.
Proof. exact eff_disks_plain. Qed.

Theorem PA_eff_store_plain :
  forall (H : bytes -> bytes) (st : store) (schedule : list bool) (first latest to : Z),
    exists schedule',
      match prune_phys H true st schedule first latest to,
            prune_phys H false st schedule' first latest to with
      | POk (d1, _, _), POk (d2, _, _) => d1 = d2
      | PNoVersion, PNoVersion | PErr, PErr | PFuel, PFuel => True
      | _, _ => False
      end.
Proof. exact eff_store_plain. Qed.

(** look-alike nodes give a collision *)
Theorem PA_confusion_collision :
  forall (H : bytes -> bytes), (forall x, length (H x) = 32%nat) ->
  forall (t u c : node),
    wf t -> hash_ok H t -> all_persisted t -> tbounds t ->
    subtree u t -> subtree c t -> u <> c -> fhash H u = fhash H c -> collision H.
Proof. exact confusion_collision. Qed.

Print Assumptions PA_phys_readable.
Print Assumptions PA_disk_ok_readable.
Print Assumptions PA_delete_version_first.
Print Assumptions PA_version_keys_exact.
Print Assumptions PA_prune_refines.
Print Assumptions PA_prune_refines_reachable.
Print Assumptions PA_prune_forest_or_confusion.
Print Assumptions PA_prune_schedule_independent.
Print Assumptions PA_prune_safe_at_every_moment.
Print Assumptions PA_prune_safe_reachable.
Print Assumptions PA_phys_run_reachable.
Print Assumptions PA_phys_step_inv.
Print Assumptions PA_confusion_collision.
Print Assumptions PA_eff_run_is_plain_run.
Print Assumptions PA_eff_disks_plain.
Print Assumptions PA_eff_store_plain.

(** ** Examples (SHA-256): five versions: a one-leaf version, a commit without writes, inserts,
    a removal, an overwrite; a first deletion (to version 1) re-keys root (1,1); the second
    deletion (to version 3) starts from [r = [1]]. *)
Definition pa_a : bytes := [97%N].
Definition pa_b : bytes := [98%N].
Definition pa_c : bytes := [99%N].
Definition pa_d : bytes := [100%N].
Definition pa_hist : list op :=
  [OSet pa_a pa_a; OSave; OSave; OSet pa_b pa_b; OSet pa_c pa_c; OSave; ORemove pa_a; OSave;
   OSet pa_d pa_d; OSet pa_b pa_d; OSave].
Definition pa_state : mstate := fst (run sha256 (init_state 0 false) pa_hist).
Definition pa_f : forest_t := forest pa_state.
Definition pa_f1 : forest_t := filter (fun p => 1 <? fst p) pa_f.
Definition pa_sched1 : list bool := [false; true].
Definition pa_sched2 : list bool := [true; false; true; true; false; true; false; true; true].

(** the hypotheses of the main theorems hold for the example *)
Example pa_hypotheses :
  init_ok 0 false /\
  run_okb sha256 (init_state 0 false) (pa_hist ++ [OPrune 1; OPrune 3]) = true /\
  forest_boundsb pa_f = true /\ rekey_okb [] pa_f = true /\
  forest_boundsb pa_f1 = true /\ rekey_okb [1] pa_f1 = true /\
  map fst pa_f = [1; 2; 3; 4; 5] /\ 1 < latest_of_forest pa_f /\ 3 < latest_of_forest pa_f1.
Proof. vm_compute. repeat split; try reflexivity; try lia; discriminate. Qed.

(** first deletion: the root of version 1 is re-keyed ((1,0) written, then (1,1) deleted) *)
Example pa_first_deletion :
  match prune_forest sha256 false [] pa_f pa_sched1 1 with
  | POk (st', log, fl) =>
      log = [set_node ((1, 0), ENode (SLeaf pa_a pa_a)); del_node (1, 1)] /\ fl = [1%nat] /\
      rekeyed st' = [1] /\ st' = phys_of [1] pa_f1 /\ norm_store st' = expected_store pa_f1
  | _ => False
  end.
Proof. vm_compute. repeat split; reflexivity. Qed.

(** second deletion, [r = [1]]: versions 2 and 3 go; the computed result agrees with
    [prune_refines]; the re-keyed root (1,1) is an orphan of version 3: it is asked for under
    (1,1), so both (1,1) (absent) and (1,0) are deleted *)
Example pa_second_deletion :
  match prune_forest sha256 false [1] pa_f1 pa_sched2 3 with
  | POk (st', log, fl) =>
      (let f' := filter (fun p => 3 <? fst p) pa_f1 in
       st' = phys_of (rekeyed st') f' /\ rekey_okb (rekeyed st') f' = true /\
       norm_store st' = expected_store f') /\
      map fst st' = [(3, 2); (3, 3); (3, 4); (4, 1); (5, 1); (5, 2); (5, 3); (5, 4)] /\
      log = [del_node (2, 1); del_node (3, 1); del_node (1, 1); del_node (1, 0)] /\
      fl = [0%nat; 2%nat; 3%nat] /\ rekeyed st' = []
  | _ => False
  end.
Proof. vm_compute. repeat split; reflexivity. Qed.

(** Stage 4 on the example: every disk state reads every retained version back; and the final
    store is the same for another schedule and the other flush mode *)
Example pa_disks :
  match prune_forest_disks sha256 false [1] pa_f1 pa_sched2 3 with
  | POk disks =>
      length disks = 5%nat /\
      forallb (fun d => readable sha256 d (filter (fun p => 3 <? fst p) pa_f1)) disks = true
  | _ => False
  end.
Proof. vm_compute. split; reflexivity. Qed.

Example pa_schedule_independent :
  match prune_forest sha256 false [1] pa_f1 pa_sched2 3, prune_forest sha256 true [1] pa_f1 [] 3,
        prune_forest sha256 false [1] pa_f1 (repeat true 20) 3 with
  | POk (a, _, _), POk (b, _, _), POk (c, _, _) => a = b /\ b = c
  | _, _, _ => False
  end.
Proof. vm_compute. split; reflexivity. Qed.

(** Stage 1 on the example *)
Example pa_phys_readable :
  readable sha256 (phys_of [] pa_f) pa_f = true /\ readable sha256 (phys_of [1] pa_f1) pa_f1 = true.
Proof. vm_compute. split; reflexivity. Qed.

(** the instance of the main theorem for the example (SHA-256 returns 32 bytes) *)
Example pa_main_instance sched eff :
  (exists st' log fl,
     prune_forest sha256 eff [] pa_f sched 1 = POk (st', log, fl) /\
     let f' := filter (fun p => 1 <? fst p) pa_f in
     st' = phys_of (rekeyed st') f' /\ rekey_ok (rekeyed st') f' /\
     norm_store st' = expected_store f')
  \/ collision sha256.
Proof.
  apply (prune_refines_reachable sha256 sha256_length 0 false pa_hist [] sched eff 1).
  - vm_compute. split; discriminate.
  - apply run_okb_iff. vm_compute. reflexivity.
  - apply forest_boundsb_sound. vm_compute. reflexivity.
  - apply rekey_okb_sound. vm_compute. reflexivity.
  - vm_compute. reflexivity.
  - vm_compute. reflexivity.
Qed.

(** THE REFUTATION: with the two re-key writes swapped, a flush between them leaves a disk on
    which version 2 cannot be read (its reference (1,1) resolves neither directly nor through the
    fall-back to (1,0)).  The faithful order passes on the same input. *)
Theorem rekey_order_matters_refuted :
  exists (f : forest_t) (r : list Z) (sched : list bool) (n : Z),
    rekey_okb r f = true /\ n < latest_of_forest f /\
    match prune_forest_disks_swapped sha256 false r f sched n with
    | POk disks =>
        existsb (fun d => negb (readable sha256 d (filter (fun p => n <? fst p) f))) disks = true
    | _ => False
    end /\
    match prune_forest_disks sha256 false r f sched n with
    | POk good => forallb (fun d => readable sha256 d (filter (fun p => n <? fst p) f)) good = true
    | _ => False
    end.
Proof.
  exists pa_f, [], [false; true], 1. vm_compute. repeat split; reflexivity.
Qed.

(** the swapped variant differs from the model in nothing else: without a flush between the two
    writes it produces the same final disk *)
Example swapped_same_without_flush :
  match prune_forest_disks_swapped sha256 false [] pa_f [] 1, prune_forest_disks sha256 false [] pa_f [] 1 with
  | POk a, POk b => last a [] = last b []
  | _, _ => False
  end.
Proof. vm_compute. reflexivity. Qed.


(** Stage 6 on the example: the physical store after every step of the history, two deletions
    included (schedules and flush modes from the oracle list) *)
Example pa_history_trace :
  let ops := pa_hist ++ [OPrune 1; OSet pa_a pa_b; OSave; OPrune 3; OLvfo 5] in
  let orcs := repeat ([true; false; true], false) 11 ++ [(pa_sched1, false); ([], false); ([], false);
                (pa_sched2, true); ([], false)] in
  let tr := phys_trace sha256 true (init_state 0 false) [] ops orcs in
  run_okb sha256 (init_state 0 false) ops = true /\
  forallb (fun p => match snd p with [] => true | _ =>
                      readable sha256 (snd p) (forest (fst p)) end) tr = true /\
  map (fun p => rekeyed (snd p)) tr =
    [[]; []; []; []; []; []; []; []; []; []; []; []; [1]; [1]; [1]; []; []] /\
  map snd tr = map (fun p => phys_of (rekeyed (snd p)) (forest (fst p))) tr.
Proof. vm_compute. repeat split; reflexivity. Qed.

(** Stage 2 on the example: deleting version 3 from versions 3..5 with [r = [1]]: the specification
    deletes (3,1), (1,1) and (1,0); (3,1) and (1,0) are present and disappear *)
Example pa_version_keys :
  let f := filter (fun p => 2 <? fst p) pa_f in
  let st := phys_of [1] f in
  let st' := phys_of (rk_next 3 (match lookup 4 f with Some t => t | None => None end) [1])
                     (filter (fun p => 3 <? fst p) f) in
  let dk := del_keys (prune_version_ops f 3) in
  dk = [(3, 1); (1, 1); (1, 0)] /\
  filter (fun k => negb (mhas kcmp k st')) (map fst st) = [(1, 0); (3, 1)] /\
  filter (fun k => existsb (keqb k) dk) (map fst st) = [(1, 0); (3, 1)] /\
  match delete_version sha256 (prune_fuel st) 3 (Pdb st [] [true; true] [] [] false [] [st]) rkc_new with
  | (POk p', _) => disk (pflush p') = st'
  | _ => False
  end.
Proof. vm_compute. repeat split; reflexivity. Qed.

(** Stage 5 on the example: in the second deletion the third write (deleting (1,1), absent) is
    ineffective; the effective-mode schedule [true; true; true] is the plain schedule
    [true; true; false; true] *)
Example pa_eff_plain :
  prune_forest_disks sha256 true [1] pa_f1 [true; true; true] 3 =
  prune_forest_disks sha256 false [1] pa_f1 [true; true; false; true] 3 /\
  match prune_forest sha256 true [1] pa_f1 [true; true; true] 3,
        prune_forest sha256 false [1] pa_f1 [true; true; false; true] 3 with
  | POk (d1, elog1, fl1), POk (d2, wlog2, fl2) =>
      d1 = d2 /\ length elog1 = 3%nat /\ length wlog2 = 4%nat /\
      fl1 = [0%nat; 1%nat; 2%nat] /\ fl2 = [0%nat; 1%nat; 3%nat]
  | _, _ => False
  end.
Proof. vm_compute. repeat split; reflexivity. Qed.

Print Assumptions rekey_order_matters_refuted.
