(** FastLifeFacts3: every operation of the fast-index life cycle preserves the coherence
    invariant [fcoh] (FastLifeFacts2), inside the usage contract. *)
From Coq Require Import Lia.
From IAVL Require Import Bytes Varint Tree VMap TreeFacts MTree MTreeFacts VersionFacts
  Store StoreFacts FastLife FastLifeFacts1 FastLifeFacts2.
Local Open Scope Z_scope.

(** ** Walks after the writes *)
Lemma walk_set s k v k' :
  state_inv s ->
  walk_get (root (fst (do_set s k v))) k' =
    match bcmp k' k with Eq => Some v | _ => walk_get (root s) k' end.
Proof.
  intros I. pose proof (do_set_inv s k v I) as I'. destruct (do_set_refines s k v I) as (E & _ & _).
  rewrite (walk_get_assoc _ k' (inv_root _ I')), E, ins_mset, (mfind_mset bcmp bcmp_ok),
    (walk_get_assoc _ k' (inv_root _ I)). reflexivity.
Qed.

Lemma walk_remove s k k' :
  state_inv s ->
  walk_get (root (fst (do_remove s k))) k' =
    match bcmp k' k with Eq => None | _ => walk_get (root s) k' end.
Proof.
  intros I. pose proof (do_remove_inv s k I) as I'. destruct (do_remove_refines s k I) as (E & _ & _).
  rewrite (walk_get_assoc _ k' (inv_root _ I')), E, del_mdel,
    (mfind_mdel bcmp bcmp_ok _ _ _ (oelems_msorted _ (inv_root _ I))),
    (walk_get_assoc _ k' (inv_root _ I)). reflexivity.
Qed.

Lemma same_forest s s' :
  forest s' = forest s ->
  latest_version s' = latest_version s /\ ltree s' = ltree s /\ shrinks s s'.
Proof.
  intros E. unfold ltree, latest_version, shrinks. rewrite E. repeat split; auto.
Qed.

Lemma lab_ok_same_forest s s' ix dl ml :
  forest s' = forest s -> lab_ok s ix dl ml -> lab_ok s' ix dl ml.
Proof.
  intros E. destruct (same_forest s s' E) as (A & B & C). apply lab_ok_shrink; assumption.
Qed.

(** ** A new tree object that has not loaded anything yet *)
Definition fresh_ms (s : mstate) : mstate :=
  MState None 0 None (forest s) (init_ver s) (init_opt s) (init_opt s).

(** on a non-empty store LoadVersion answers the same on an unloaded object and on one that
    has loaded some version, and reaches the same state when it succeeds *)
Lemma do_load_fresh f iv a b r tv v :
  f <> [] ->
  snd (do_load (MState None 0 None f iv a b) v) = snd (do_load (MState r tv r f iv a b) v) /\
  (snd (do_load (MState None 0 None f iv a b) v) <> XErr ->
   fst (do_load (MState None 0 None f iv a b) v) = fst (do_load (MState r tv r f iv a b) v)).
Proof.
  intros NE. unfold do_load, first_version, latest_version.
  cbn [forest init_ver init_set init_opt].
  destruct ((0 <? match f with [] => 0 | (v0, _) :: _ => v0 end) &&
            (match f with [] => 0 | (v0, _) :: _ => v0 end <? iv));
    [cbn [fst snd]; split; [reflexivity|congruence]|].
  destruct (fold_left (fun _ p => fst p) f 0 <? v);
    [cbn [fst snd]; split; [reflexivity|congruence]|].
  destruct f as [|p f']; [congruence|].
  destruct (lookup (if v <=? 0 then fold_left (fun _ p0 => fst p0) (p :: f') 0 else v) (p :: f'));
    cbn [fst snd]; split; try reflexivity; congruence.
Qed.

Section Steps.
  Variable H : bytes -> bytes.

  (** ** Set *)
  Lemma fcoh_set st k v : state_inv (ms st) -> fcoh st -> fcoh (fst (fstep H st (FSet k v))).
  Proof.
    intros I [LO UO On]. cbn [fstep].
    pose proof (walk_set (ms st) k v) as WS.
    destruct (do_set_refines (ms st) k v I) as (_ & _ & SB).
    destruct (step H (ms st) (OSet k v)) as [s' x] eqn:E. cbn [step] in E.
    rewrite E in WS, SB. cbn [fst] in WS, SB.
    destruct SB as (EV & ELS & EF & _).
    destruct (same_forest _ _ EF) as (EL & ET & Sub).
    destruct (skipf st) eqn:Sk; cbn [fst].
    - constructor; cbn [with_ms ms fidx dlabel mlabel skipf adds rems].
      + apply (lab_ok_same_forest _ _ _ _ _ EF LO).
      + rewrite Sk in *. apply (uns_ok_off _ _ _ _ UO).
      + rewrite Sk. discriminate.
    - destruct UO as [U1 U2 U3 U4 U5 U6].
      constructor; cbn [ms fidx dlabel mlabel skipf adds rems].
      + apply (lab_ok_same_forest _ _ _ _ _ EF LO).
      + constructor.
        * discriminate.
        * apply (msorted_mset bcmp bcmp_ok), U2.
        * apply (msorted_mdel bcmp), U3.
        * intros k'. rewrite (mfind_mset bcmp bcmp_ok), (mfind_mdel bcmp bcmp_ok _ _ _ U3).
          destruct (bcmp k' k); auto.
        * intros _ k'. rewrite (WS k' I), (mfind_mset bcmp bcmp_ok),
            (mfind_mdel bcmp bcmp_ok _ _ _ U3), ELS.
          destruct (bcmp k' k); try reflexivity; apply (U5 eq_refl k').
        * intros k' e w. rewrite (mfind_mset bcmp bcmp_ok), EV.
          destruct (bcmp k' k) eqn:B.
          -- intros Q. inversion Q; subst e w. split; [lia|]. intros t tr _ R. lia.
          -- intros Q. destruct (U6 k' e w Q) as [A1 A2]. split; [exact A1|].
             intros t tr L R. apply (A2 t tr (Sub _ _ L) R).
          -- intros Q. destruct (U6 k' e w Q) as [A1 A2]. split; [exact A1|].
             intros t tr L R. apply (A2 t tr (Sub _ _ L) R).
      + intros _. rewrite EL. apply On. reflexivity.
  Qed.

  (** ** Remove *)
  Lemma fcoh_remove st k : state_inv (ms st) -> fcoh st -> fcoh (fst (fstep H st (FRemove k))).
  Proof.
    intros I [LO UO On]. cbn [fstep].
    pose proof (walk_remove (ms st) k) as WS.
    destruct (do_remove_refines (ms st) k I) as (_ & EX & SB).
    destruct (step H (ms st) (ORemove k)) as [s' x] eqn:E. cbn [step] in E.
    rewrite E in WS, SB, EX. cbn [fst snd] in WS, SB, EX.
    destruct SB as (EV & ELS & EF & _).
    destruct (same_forest _ _ EF) as (EL & ET & Sub).
    assert (Base : skipf st = true \/ mem k (oelems (root (ms st))) = false -> fcoh (with_ms st s')).
    { intros D. destruct (skipf st) eqn:Sk.
      - constructor; cbn [with_ms ms fidx dlabel mlabel skipf adds rems].
        + apply (lab_ok_same_forest _ _ _ _ _ EF LO).
        + rewrite Sk in *. apply (uns_ok_off _ _ _ _ UO).
        + rewrite Sk. discriminate.
      - destruct D as [D|M]; [discriminate D|].
        assert (N : walk_get (root (ms st)) k = None).
        { rewrite (walk_get_assoc _ k (inv_root _ I)), <- assoc_mfind. unfold mem in M.
          destruct (assoc k (oelems (root (ms st)))); [discriminate M|reflexivity]. }
        constructor; cbn [with_ms ms fidx dlabel mlabel skipf adds rems].
        + apply (lab_ok_same_forest _ _ _ _ _ EF LO).
        + rewrite Sk in *. apply (uns_ok_transfer (ms st) s'); auto.
          * intros k'. rewrite (WS k' I). destruct (bcmp k' k) eqn:B; try reflexivity.
            apply bcmp_eq in B. subst k'. symmetry. exact N.
          * intros k'. rewrite ELS. reflexivity.
        + intros _. rewrite EL. apply On. reflexivity. }
    subst x. destruct (mem k (oelems (root (ms st)))) eqn:M; cbn [fst]; [|apply Base; auto].
    destruct (skipf st) eqn:Sk; [apply Base; auto|]. clear Base.
    - cbn [fst].
      destruct UO as [U1 U2 U3 U4 U5 U6].
      constructor; cbn [ms fidx dlabel mlabel skipf adds rems].
      + apply (lab_ok_same_forest _ _ _ _ _ EF LO).
      + constructor.
        * discriminate.
        * apply (msorted_mdel bcmp), U2.
        * apply (msorted_mset bcmp bcmp_ok), U3.
        * intros k'. rewrite (mfind_mset bcmp bcmp_ok), (mfind_mdel bcmp bcmp_ok _ _ _ U2).
          destruct (bcmp k' k); auto; intros C; exfalso; apply C; reflexivity.
        * intros _ k'. rewrite (WS k' I), (mfind_mset bcmp bcmp_ok),
            (mfind_mdel bcmp bcmp_ok _ _ _ U2), ELS.
          destruct (bcmp k' k); try reflexivity; apply (U5 eq_refl k').
        * intros k' e w. rewrite (mfind_mdel bcmp bcmp_ok _ _ _ U2), EV.
          destruct (bcmp k' k) eqn:B; [discriminate| |];
            intros Q; destruct (U6 k' e w Q) as [A1 A2]; (split; [exact A1|]);
            intros t tr L R; apply (A2 t tr (Sub _ _ L) R).
      + intros _. rewrite EL. apply On. reflexivity.
  Qed.

  (** ** SaveVersion *)

  (** An idempotent re-commit (SaveVersion on an existing version number) succeeds when the root
      hashes agree.  The code then keeps the unsaved additions / removals; they stay truthful
      only if equal hashes mean equal contents, which is the case unless the hash function
      collides on the two trees (see [recommit_colliding_hash_refuted] in FastLifeFacts). *)
  Definition save_honest (s : mstate) : Prop :=
    forall e, lookup (working_version s) (forest s) = Some e ->
      snd (do_save H s) <> XErr -> oelems e = oelems (root s).

  Lemma new_version_above s :
    contig s -> lookup (working_version s) (forest s) = None ->
    latest_version s < working_version s /\ 1 <= working_version s /\
    ((forest s = [] /\ version s = 0 /\ last_saved s = None) \/
     (forest s <> [] /\ version s = latest_version s /\
      working_version s = latest_version s + 1 /\
      lookup (latest_version s) (forest s) = Some (last_saved s))).
  Proof.
    intros C L. destruct (do_save_numbering s C L) as [(F & V & W)|(NE & V & W)].
    - destruct (contig_cases s C) as [(_ & _ & LS & _ & _ & W1 & _)|(NE & _)]; [|congruence].
      rewrite (latest_empty s F). split; [lia|]. split; [lia|]. left. auto.
    - destruct (contig_cases s C) as [(_ & F & _)|(_ & LK & _)]; [congruence|].
      split; [lia|]. split.
      + destruct (contig_range s (contig_forest_ok s C) NE) as (R & _). lia.
      + right. rewrite V in LK. repeat split; assumption.
  Qed.

  (** the index written by a commit that creates a version *)
  Lemma save_new_index_valid s r' ix ad (rm : list (bytes * unit)) :
    state_inv s -> contig s -> lookup (working_version s) (forest s) = None ->
    oelems r' = oelems (root s) ->
    let s' := MState r' (working_version s) r' (forest s ++ [(working_version s, r')])
                     (init_ver s) false (init_opt s) in
    state_inv s' -> contig s' ->
    idx_valid s ix -> uns_ok s false ad rm ->
    idx_valid s'
      (fold_left (fun acc r => mdel bcmp (fst r) acc) rm
         (fold_left (fun acc a => mset bcmp (fst a) (snd a) acc) ad ix)).
  Proof.
    intros I C L Er s' I' C' Vd [U1 U2 U3 U4 U5 U6]. specialize (U5 eq_refl).
    destruct (new_version_above s C L) as (Above & Pos & Shape).
    assert (EL : latest_version s' = working_version s).
    { unfold latest_version, s'. cbn [forest]. apply latest_snoc. }
    assert (LK : forall t, lookup t (forest s') =
                   if t =? working_version s then Some r' else lookup t (forest s)).
    { intros t. unfold s'. cbn [forest]. apply lookup_snoc, L. }
    assert (ET : ltree s' = r').
    { unfold ltree. rewrite EL, LK, Z.eqb_refl. reflexivity. }
    assert (Or' : oinv r') by exact (inv_root s' I').
    assert (WR : forall k, walk_get r' k = walk_get (root s) k).
    { intros k. apply walk_get_oelems_eq; auto. apply I. }
    assert (LS : forall k, walk_get (last_saved s) k = walk_get (ltree s) k).
    { intros k. destruct Shape as [(F & _ & LS)|(_ & _ & _ & LKs)].
      - rewrite LS, (ltree_empty s F). reflexivity.
      - rewrite (ltree_lookup s _ LKs). reflexivity. }
    pose proof (iv_sorted s ix Vd) as Six.
    assert (S1 : msorted bcmp (fold_left (fun acc a => mset bcmp (fst a) (snd a) acc) ad ix))
      by (apply (msorted_fold_mset bcmp bcmp_ok), Six).
    assert (Find : forall k,
      mfind bcmp k (fold_left (fun acc r => mdel bcmp (fst r) acc) rm
         (fold_left (fun acc a => mset bcmp (fst a) (snd a) acc) ad ix)) =
      match mfind bcmp k rm with
      | Some _ => None
      | None => match mfind bcmp k ad with Some x => Some x | None => mfind bcmp k ix end
      end).
    { intros k. rewrite (mfind_fold_mdel bcmp bcmp_ok k rm _ S1),
        (mfind_fold_mset bcmp bcmp_ok k ad ix U2). reflexivity. }
    apply idx_valid_intro; auto.
    - apply (msorted_fold_mdel bcmp), S1.
    - intros k. rewrite Find, ET, WR, (U5 k).
      destruct (mfind bcmp k rm) as [u|] eqn:Rk.
      + intros _. destruct (mfind bcmp k ad) as [[e v]|] eqn:Ak; [|reflexivity].
        exfalso. assert (N : mfind bcmp k rm = None) by (apply U4; rewrite Ak; discriminate).
        congruence.
      + destruct (mfind bcmp k ad) as [[e v]|]; [discriminate|].
        intros N. rewrite LS. apply (iv_none s ix Vd), N.
    - intros k e v. rewrite Find, ET, WR, EL.
      destruct (mfind bcmp k rm) as [u|] eqn:Rk; [discriminate|].
      destruct (mfind bcmp k ad) as [[e0 v0]|] eqn:Ak.
      + intros Q. inversion Q; subst e0 v0. destruct (U6 k e v Ak) as [A1 A2].
        assert (Wk : walk_get (root s) k = Some v) by (rewrite (U5 k), Ak; reflexivity).
        split; [destruct Shape as [(_ & V & _)|(_ & V & W & _)]; lia|]. split; [exact Wk|].
        intros t tr. rewrite LK. destruct (t =? working_version s) eqn:Tw.
        * intros Q' _. inversion Q'; subst tr. rewrite WR. exact Wk.
        * intros Lt R. apply (A2 t tr Lt). pose proof (retained_le_latest s t tr C Lt) as Rt.
          destruct Shape as [(F & _)|(_ & V & _)]; [rewrite F in Lt; discriminate Lt|]. lia.
      + intros Q. destruct (iv_some s ix Vd k e v Q) as [A1 A2].
        assert (Wk : walk_get (root s) k = Some v).
        { rewrite (U5 k), Ak, Rk, LS. apply (idx_valid_latest s ix k e v C Vd Q). }
        split; [lia|]. split; [exact Wk|].
        intros t tr. rewrite LK. destruct (t =? working_version s) eqn:Tw.
        * intros Q' _. inversion Q'; subst tr. rewrite WR. exact Wk.
        * intros Lt R. apply (A2 t tr Lt). pose proof (retained_le_latest s t tr C Lt) as Rt.
          apply Z.eqb_neq in Tw. lia.
  Qed.

  (** the unsaved changes survive an idempotent re-commit *)
  Lemma recommit_uns_ok s e skip ad rm :
    state_inv s -> contig s -> lookup (working_version s) (forest s) = Some e ->
    oelems e = oelems (root s) ->
    uns_ok s skip ad rm ->
    uns_ok (MState e (working_version s) e (forest s) (init_ver s) false (init_opt s)) skip ad rm.
  Proof.
    intros I C L Ee U. destruct skip; [apply (uns_ok_off _ _ _ _ U)|].
    destruct U as [U1 U2 U3 U4 U5 U6]. specialize (U5 eq_refl).
    destruct (state_inv_lookup s _ e I L) as [Oe _].
    assert (WE : forall k, walk_get e k = walk_get (root s) k).
    { intros k. apply walk_get_oelems_eq; auto. apply I. }
    assert (W : working_version s = version s + 1).
    { destruct (contig_cases s C) as [(_ & F & _)|(_ & _ & _ & _ & W)]; [|exact W].
      rewrite F in L. discriminate L. }
    constructor; auto; cbn [root last_saved version forest].
    - intros _ k. pose proof (U5 k) as Uk. rewrite <- WE in Uk.
      destruct (mfind bcmp k ad) as [[e0 v0]|]; [exact Uk|].
      destruct (mfind bcmp k rm); [exact Uk|reflexivity].
    - intros k e0 v Q. cbn [version forest]. destruct (U6 k e0 v Q) as [A1 A2]. split; [lia|].
      intros t tr Lt R. destruct (Z.eq_dec t (working_version s)) as [->|Nt].
      + rewrite L in Lt. inversion Lt; subst tr. rewrite WE, (U5 k), Q. reflexivity.
      + apply (A2 t tr Lt). lia.
  Qed.

  Lemma fcoh_save st :
    state_inv (ms st) -> contig (ms st) -> save_honest (ms st) -> fcoh st ->
    fcoh (fst (fstep H st FSave)).
  Proof.
    intros I C Hon [LO UO On]. cbn [fstep]. unfold version_exists.
    pose proof (step_inv H (ms st) OSave I) as I'. pose proof (do_save_contig H (ms st) C) as C'.
    cbn [step] in I'.
    destruct (lookup (working_version (ms st)) (forest (ms st))) as [e|] eqn:L.
    - pose proof (Hon e L) as He.
      destruct (save_existing_sharp H (ms st) e L) as [[_ E]|[_ E]]; cbn [step]; rewrite E in *;
        cbn [fst snd] in *.
      + constructor; cbn [with_ms ms fidx dlabel mlabel skipf adds rems].
        * apply (lab_ok_same_forest (ms st)); [reflexivity|exact LO].
        * apply recommit_uns_ok; auto. apply He. discriminate.
        * intros Sk. rewrite (On Sk). reflexivity.
      + constructor; cbn [with_ms ms fidx dlabel mlabel skipf adds rems].
        * apply (lab_ok_same_forest (ms st)); [reflexivity|exact LO].
        * apply (uns_ok_transfer (ms st)); auto. intros t tr Lt. exact Lt.
        * intros Sk. rewrite (On Sk). reflexivity.
    - destruct (save_new_version H (ms st) C L) as (r' & Er & E & _ & _ & EL & _).
      cbn [step]. rewrite E in *. cbn [fst snd] in *.
      destruct (new_version_above (ms st) C L) as (Above & _).
      destruct (skipf st) eqn:Sk.
      + constructor; cbn [with_ms ms fidx dlabel mlabel skipf adds rems].
        * apply (lab_ok_grow (ms st)); [rewrite EL; exact Above|exact LO].
        * rewrite Sk in *. apply (uns_ok_off _ _ _ _ UO).
        * rewrite Sk. discriminate.
      + constructor; cbn [ms fidx dlabel mlabel skipf adds rems].
        * constructor; [reflexivity| |].
          -- intros u Q. inversion Q. rewrite EL. lia.
          -- intros _ _ _.
             apply (save_new_index_valid (ms st) r' (fidx st) (adds st) (rems st) I C L Er I' C').
             ++ destruct LO as [A B D]. apply (D (latest_version (ms st))); [|reflexivity].
                rewrite A. apply On. reflexivity.
             ++ exact UO.
        * apply uns_ok_nil. reflexivity.
        * intros _. rewrite EL. reflexivity.
  Qed.
  (** ** Dropping the unsaved changes, then the upgrade step *)
  Lemma lab_ok_relabel s ix dl ml : lab_ok s ix dl ml -> lab_ok s ix dl dl.
  Proof. intros [A B D]. constructor; [reflexivity|exact B|exact D]. Qed.

  Lemma fcoh_after_clear st s' :
    state_inv s' -> contig s' ->
    lab_ok s' (fidx st) (dlabel st) (mlabel st) ->
    (forall k, walk_get (root s') k = walk_get (last_saved s') k) ->
    uns_ok (ms st) (skipf st) (adds st) (rems st) ->
    fcoh (enable_if_needed (clear_unsaved (with_ms st s'))).
  Proof.
    intros I' C' LO W UO. unfold clear_unsaved, with_ms. cbn [skipf ms fidx dlabel mlabel].
    destruct (skipf st) eqn:Sk; apply fcoh_enable; cbn [ms fidx dlabel mlabel skipf adds rems];
      auto.
    - apply (uns_ok_off _ _ _ _ UO).
    - apply uns_ok_nil. intros _. exact W.
  Qed.

  (** ** Rollback *)
  Lemma fcoh_rollback st :
    state_inv (ms st) -> contig (ms st) -> fcoh st -> fcoh (fst (fstep H st FRollback)).
  Proof.
    intros I C [LO UO On]. cbn [fstep step fst].
    set (s' := MState (if 0 <? version (ms st) then last_saved (ms st) else None)
                      (version (ms st)) (last_saved (ms st)) (forest (ms st))
                      (init_ver (ms st)) (init_set (ms st)) (init_opt (ms st))).
    assert (W : forall k, walk_get (root s') k = walk_get (last_saved s') k).
    { intros k. unfold s'. cbn [root last_saved].
      destruct (0 <? version (ms st)) eqn:V; [reflexivity|]. apply Z.ltb_ge in V.
      destruct (contig_saved (ms st) C) as [(_ & _ & LS)|(_ & _ & P)]; [|lia].
      rewrite LS. reflexivity. }
    unfold clear_unsaved, with_ms. cbn [skipf ms fidx dlabel mlabel adds rems].
    destruct (skipf st) eqn:Sk; constructor; cbn [ms fidx dlabel mlabel skipf adds rems].
    - apply (lab_ok_same_forest (ms st)); [reflexivity|exact LO].
    - apply (uns_ok_off _ _ _ _ UO).
    - discriminate.
    - apply (lab_ok_same_forest (ms st)); [reflexivity|exact LO].
    - apply uns_ok_nil. intros _. exact W.
    - intros _. apply On. reflexivity.
  Qed.

  (** ** Opening a new tree object *)
  Lemma fcoh_open st skip :
    state_inv (ms st) -> contig (ms st) -> fcoh st -> fcoh (fst (fstep H st (FOpen skip))).
  Proof.
    intros I C [LO UO On]. cbn [fstep].
    pose proof (step_inv H (ms st) OReopen I) as I'.
    destruct (reopen_spec H (ms st) C) as (E & EF & _ & _ & _ & _ & _ & _ & _ & ER & _ & _ & C').
    rewrite E in *. cbn [fst] in *. set (s' := fst (do_reopen (ms st))) in *.
    apply fcoh_enable; cbn [ms fidx dlabel mlabel skipf adds rems]; auto.
    - apply (lab_ok_same_forest (ms st)); [exact EF|]. apply (lab_ok_relabel _ _ _ _ LO).
    - apply uns_ok_nil. intros _ k. rewrite ER. reflexivity.
  Qed.

  (** ** LoadVersion *)
  Lemma fcoh_load st v :
    state_inv (ms st) -> contig (ms st) -> fcoh st -> fcoh (fst (fstep H st (FLoad v))).
  Proof.
    intros I C [LO UO On]. cbn [fstep].
    pose proof (step_inv H (ms st) (OLoad v) I) as I'.
    pose proof (step_contig H (ms st) (OLoad v) C Logic.I) as C'.
    cbn [step] in *.
    destruct (do_load_cases (ms st) v) as [E|[(F & _ & E)|(tv & r & L & E)]]; rewrite E in *;
      cbn [fst] in *.
    - rewrite with_ms_same. constructor; assumption.
    - rewrite F, with_ms_same. apply fcoh_enable; assumption.
    - destruct (forest (ms st)) as [|p f] eqn:F; [discriminate L|]. rewrite <- F in *.
      apply fcoh_after_clear; auto.
      apply (lab_ok_same_forest (ms st)); [reflexivity|exact LO].
  Qed.

  (** ** DeleteVersionsTo *)
  Lemma fcoh_prune st n :
    state_inv (ms st) -> contig (ms st) -> n < version (ms st) -> fcoh st ->
    fcoh (fst (fstep H st (FPrune n))).
  Proof.
    intros I C Hn [LO UO On]. cbn [fstep step].
    destruct (do_prune_cases (ms st) n) as [[_ E]|[_ E]]; rewrite E; cbn [fst].
    - rewrite with_ms_same. constructor; assumption.
    - destruct (prune_latest (ms st) n C Hn) as (EL & ET & Sub).
      constructor; cbn [with_ms ms fidx dlabel mlabel skipf adds rems].
      + apply (lab_ok_shrink (ms st)); assumption.
      + apply (uns_ok_transfer (ms st)); auto.
      + intros Sk. rewrite EL. apply On, Sk.
  Qed.

  (** ** LoadVersionForOverwriting *)
  Lemma lvfo_tail st1 s2 (b : bool) :
    fcoh st1 -> state_inv s2 -> contig s2 ->
    version s2 = version (ms st1) -> root s2 = root (ms st1) ->
    last_saved s2 = last_saved (ms st1) -> shrinks (ms st1) s2 ->
    (b = true -> latest_version s2 = latest_version (ms st1) /\ ltree s2 = ltree (ms st1)) ->
    fcoh (enable_if_needed
      (if b then with_ms st1 s2
       else match mlabel st1 with
            | Some _ => FS s2 (fidx st1) None None (skipf st1) (adds st1) (rems st1)
            | None => with_ms st1 s2
            end)).
  Proof.
    intros [LO UO On] I2 C2 EV ER ES Sub Hb.
    assert (UO2 : uns_ok s2 (skipf st1) (adds st1) (rems st1)).
    { apply (uns_ok_transfer (ms st1)); auto; intros k; rewrite ?ER, ?ES; reflexivity. }
    destruct b.
    - destruct (Hb eq_refl) as [EL ET].
      apply fcoh_enable; cbn [with_ms ms fidx dlabel mlabel skipf adds rems]; auto.
      apply (lab_ok_shrink (ms st1)); assumption.
    - destruct (mlabel st1) as [u|] eqn:ML;
        apply fcoh_enable; cbn [with_ms ms fidx dlabel mlabel skipf adds rems]; auto.
      + apply lab_ok_none.
      + rewrite ML. rewrite (lo_eq _ _ _ _ LO). apply lab_ok_none.
  Qed.

  Lemma fcoh_lvfo st v :
    state_inv (ms st) -> contig (ms st) -> 1 <= v -> fcoh st ->
    fcoh (fst (fstep H st (FLvfo v))).
  Proof.
    intros I C Hv Co. cbn [fstep].
    pose proof (step_inv H (ms st) (OLoad v) I) as I1.
    pose proof (step_contig H (ms st) (OLoad v) C Logic.I) as C1.
    pose proof (step_inv H (ms st) (OLvfo v) I) as I2.
    pose proof (step_contig H (ms st) (OLvfo v) C Hv) as C2.
    cbn [step] in I1, C1 |- *.
    destruct (do_load_pos (ms st) v) as [E|(r & L & E)]; [lia| |]; rewrite E in *;
      cbn [fst] in *.
    - rewrite with_ms_same. exact Co.
    - assert (IR : in_range (ms st) v) by (apply (in_range_lookup _ _ C); eauto).
      destruct (lvfo_removes_exactly H (ms st) v C IR) as (r2 & L2 & E2 & Keep & _ & _ & EL2 & _).
      rewrite L in L2. inversion L2; subst r2. clear L2.
      cbn [step] in I2, C2, E2, Keep, EL2. rewrite E2 in *. cbn [fst] in *.
      destruct (forest (ms st)) as [|p f] eqn:F; [discriminate L|]. rewrite <- F in *.
      set (s1 := MState r v r (forest (ms st)) (init_ver (ms st)) (init_set (ms st))
                        (init_opt (ms st))) in *.
      set (s2 := MState r v r (filter (fun p => fst p <=? v) (forest (ms st)))
                        (init_ver (ms st)) (init_set (ms st)) (init_opt (ms st))) in *.
      assert (Co1 : fcoh (enable_if_needed (clear_unsaved (with_ms st s1)))).
      { destruct Co as [LO UO On]. apply fcoh_after_clear; auto.
        apply (lab_ok_same_forest (ms st)); [reflexivity|exact LO]. }
      assert (M1 : ms (enable_if_needed (clear_unsaved (with_ms st s1))) = s1).
      { rewrite enable_ms. unfold clear_unsaved. cbn [with_ms skipf].
        destruct (skipf st); reflexivity. }
      set (st1 := enable_if_needed (clear_unsaved (with_ms st s1))) in *.
      apply lvfo_tail; auto; rewrite ?M1; try reflexivity.
      + intros t tr. unfold s2, s1. cbn [forest]. rewrite lookup_filter_le.
        destruct (t <=? v); [tauto|discriminate].
      + intros B. apply Z.ltb_lt in B.
        pose proof (retained_le_latest (ms st) v r C L) as R.
        assert (v = latest_version (ms st)) by lia.
        split.
        * rewrite EL2. unfold s1, latest_version. cbn [forest]. exact H0.
        * unfold ltree. rewrite EL2.
          replace (latest_version s1) with v by (unfold s1, latest_version; cbn [forest]; exact H0).
          rewrite (Keep v) by lia. reflexivity.
  Qed.

  (** ** The reads do not move the state *)
  Lemma fstep_read_state st o :
    match o with
    | FGet _ | FGetImm _ _ | FGetVersioned _ _ | FIter | FIterImm _ => True
    | _ => False
    end -> fst (fstep H st o) = st.
  Proof.
    destruct o; cbn [fstep]; try contradiction; intros _; try reflexivity;
      destruct (tree_of (ms st) v); reflexivity.
  Qed.

  (** ** A new tree object that loads a version directly (no Load() first) *)

  (** MTree reaches the same state by reopening (which loads the latest version) and then
      loading [v]; the answer of the load is the same even when it fails *)
  Lemma openat_logical s v :
    contig s ->
    snd (do_load (fresh_ms s) v) = last (snd (run H s [OReopen; OLoad v])) XErr /\
    (snd (do_load (fresh_ms s) v) <> XErr ->
     fst (do_load (fresh_ms s) v) = fst (run H s [OReopen; OLoad v])).
  Proof.
    intros C. cbn [run step].
    destruct (do_reopen_spec s (contig_forest_ok s C)) as [(F & E)|(NE & r & L & E)]; rewrite E.
    - unfold fresh_ms. rewrite F.
      destruct (do_load (MState None 0 None [] (init_ver s) (init_opt s) (init_opt s)) v)
        as [s2 x2]. cbn [fst snd last]. split; reflexivity.
    - destruct (do_load_fresh (forest s) (init_ver s) (init_opt s) (init_opt s) r
                  (latest_version s) v NE) as [A B]. unfold fresh_ms.
      destruct (do_load (MState r (latest_version s) r (forest s) (init_ver s) (init_opt s)
                                (init_opt s)) v) as [s2 x2]. cbn [fst snd last] in *.
      split; assumption.
  Qed.

  Lemma fcoh_openat st skip v :
    state_inv (ms st) -> contig (ms st) ->
    snd (do_load (fresh_ms (ms st)) v) <> XErr -> fcoh st ->
    fcoh (fst (fstep H st (FOpenAt skip v))).
  Proof.
    intros I C Ok [LO UO On]. cbn [fstep step].
    change (MState None 0 None (forest (ms st)) (init_ver (ms st)) (init_opt (ms st))
                   (init_opt (ms st))) with (fresh_ms (ms st)).
    destruct (openat_logical (ms st) v C) as [_ ES]. specialize (ES Ok).
    assert (I' : state_inv (fst (do_load (fresh_ms (ms st)) v))).
    { rewrite ES. apply run_inv, I. }
    assert (C' : contig (fst (do_load (fresh_ms (ms st)) v))).
    { rewrite ES. apply run_contig; [exact C|]. cbn [run_ok in_contract]. auto. }
    assert (EF : forest (fst (do_load (fresh_ms (ms st)) v)) = forest (ms st))
      by (rewrite do_load_forest; reflexivity).
    assert (W : forall k, walk_get (root (fst (do_load (fresh_ms (ms st)) v))) k =
                          walk_get (last_saved (fst (do_load (fresh_ms (ms st)) v))) k).
    { intros k.
      destruct (do_load_cases (fresh_ms (ms st)) v) as [E|[(_ & _ & E)|(tv & r & _ & E)]];
        rewrite E; reflexivity. }
    destruct (do_load_cases (fresh_ms (ms st)) v) as [E|[(_ & _ & E)|(tv & r & _ & E)]];
      rewrite E in *; cbn [fst snd] in *; [congruence| |];
      (apply fcoh_enable; cbn [with_ms ms fidx dlabel mlabel skipf adds rems]; auto;
       [apply (lab_ok_same_forest (ms st)); [exact EF|apply (lab_ok_relabel _ _ _ _ LO)]
       |apply uns_ok_nil; intros _; exact W]).
  Qed.

  (** When the load fails the new object stays unloaded: the logical state is [fresh_ms], the
      persisted part and the (empty) unsaved part are still coherent, but nothing has compared
      the label with the store, so the clause [fc_on] may fail (and [contig] fails for
      [fresh_ms] of a non-empty store).  See [openat_failed_refuted] in FastLifeFacts. *)
  Lemma openat_error st skip v :
    snd (do_load (fresh_ms (ms st)) v) = XErr ->
    fstep H st (FOpenAt skip v) =
      (FS (fresh_ms (ms st)) (fidx st) (dlabel st) (dlabel st) skip [] [], XErr).
  Proof.
    intros E. cbn [fstep step].
    change (MState None 0 None (forest (ms st)) (init_ver (ms st)) (init_opt (ms st))
                   (init_opt (ms st))) with (fresh_ms (ms st)).
    destruct (do_load_cases (fresh_ms (ms st)) v) as [E1|[(_ & _ & E1)|(tv & r & _ & E1)]];
      rewrite E1 in *; cbn [snd] in E; try discriminate E. reflexivity.
  Qed.

  Lemma openat_error_parts st skip :
    fcoh st ->
    let st' := FS (fresh_ms (ms st)) (fidx st) (dlabel st) (dlabel st) skip [] [] in
    lab_ok (ms st') (fidx st') (dlabel st') (mlabel st') /\
    uns_ok (ms st') (skipf st') (adds st') (rems st').
  Proof.
    intros [LO _ _]. cbn [ms fidx dlabel mlabel skipf adds rems]. split.
    - apply (lab_ok_same_forest (ms st)); [reflexivity|apply (lab_ok_relabel _ _ _ _ LO)].
    - apply uns_ok_nil. reflexivity.
  Qed.

  (** ** The usage contract of the life cycle and the preservation theorem *)
  Definition fin_contract (st : fstate) (o : fop) : Prop :=
    in_contract (ms st) (logical o) /\
    match o with
    | FSave => save_honest (ms st)
    | FOpenAt _ v => snd (do_load (fresh_ms (ms st)) v) <> XErr   (* the load succeeds *)
    | _ => True
    end.

  Theorem fcoh_step st o :
    state_inv (ms st) -> contig (ms st) -> fin_contract st o -> fcoh st ->
    fcoh (fst (fstep H st o)).
  Proof.
    intros I C [IC Hon] Co. destruct o; cbn [logical in_contract] in IC.
    - apply fcoh_set; assumption.
    - apply fcoh_remove; assumption.
    - apply fcoh_save; assumption.
    - apply fcoh_rollback; assumption.
    - apply fcoh_open; assumption.
    - apply fcoh_openat; assumption.
    - apply fcoh_load; assumption.
    - apply fcoh_lvfo; assumption.
    - apply fcoh_prune; assumption.
    - rewrite fstep_read_state; [exact Co|exact Logic.I].
    - rewrite fstep_read_state; [exact Co|exact Logic.I].
    - rewrite fstep_read_state; [exact Co|exact Logic.I].
    - rewrite fstep_read_state; [exact Co|exact Logic.I].
    - rewrite fstep_read_state; [exact Co|exact Logic.I].
  Qed.

  (** ** The initial state *)
  Lemma fcoh_finit iv b : fcoh (finit iv b).
  Proof.
    constructor; cbn [finit ms fidx dlabel mlabel skipf adds rems].
    - apply lab_ok_none.
    - apply uns_ok_nil. discriminate.
    - discriminate.
  Qed.

  Theorem fcoh_init iv b skip :
    init_ok iv b -> fcoh (fst (fstep H (finit iv b) (FOpen skip))).
  Proof.
    intros IO. apply fcoh_step.
    - cbn [finit ms]. apply state_inv_init. unfold init_ok in IO. destruct b; lia.
    - cbn [finit ms]. apply contig_init, IO.
    - split; exact Logic.I.
    - apply fcoh_finit.
  Qed.
End Steps.
